import PermutaModel.Lemmas.C07Sched
import PermutaModel.Lemmas.C02SeqOK
import PermutaModel.Generated.Tables

/-!
# C07 — concurrent queries on a permutation class are correct under every interleaving

`Model.C07.step` is the small-step semantics of threads executing `Av._get_level` under the lock
discipline found in the source (`Generated.lockDiscipline`).  The theorems quantify over every
number of threads, every assignment of levels to fetch and **every schedule**.  They are generic
in the sequential theory: `C07L.SeqOK spec Good` is the statement about `_ensure_level` that
`Props/C02.lean` provides for the cache invariant.
-/
namespace C07
open Model.C02 Model.C07 C07L

/-- the source still has the lock discipline the theorems below are about: every `_ensure_level`
    call is inside `with Av._CACHE_LOCK`, the result is read after the block, and the lock is a
    class attribute shared by all instances.  (Regenerated from permset.py on every run; removing
    or narrowing the critical section breaks this obligation.) -/
theorem lock_discipline_matches_source : Generated.lockDiscipline = (true, true, true) := by decide

/-- a thread that wants the lock while another holds it does not move (blocking is a stutter) -/
theorem blocked_stutters (s : Sys) (tid : Nat) (t : Thread) (n : Nat) (rest : List Nat) (holder : Nat)
    (ht : s.threads[tid]? = some t) (hp : t.phase = .idle) (htd : t.todo = n :: rest)
    (hl : s.lock = some holder) : step s tid = s := by
  unfold step; simp [ht, hp, htd, hl]

/-- **mutual exclusion**: in every reachable state at most one thread is inside the critical section,
    and it is the lock holder -/
theorem mutex {spec Good} (hs : SeqOK spec Good) (o : AvObj) (ho : Good o) (todos : List (List Nat))
    (sched : List Nat) (i j : Nat) (ti tj : Thread) (ni nj : Nat) (pi pj : List AvObj)
    (hi : (run (initSys o todos) sched).threads[i]? = some ti) (hpi : ti.phase = .holding ni pi)
    (hj : (run (initSys o todos) sched).threads[j]? = some tj) (hpj : tj.phase = .holding nj pj) :
    i = j ∧ (run (initSys o todos) sched).lock = some i := by
  obtain ⟨base, hinv⟩ := run_inv hs sched (init_inv hs o ho todos)
  have h1 := (hinv.thr i ti hi).1; rw [hpi] at h1
  have h2 := (hinv.thr j tj hj).1; rw [hpj] at h2
  have : some i = some j := h1.1.symm.trans h2.1
  exact ⟨Option.some.inj this, h1.1⟩

/-- **every visible level is right at every moment**, including while another thread is in the middle
    of building or compacting: a reader can never observe a partially built level -/
theorem keys_always_ok {spec Good} (hs : SeqOK spec Good) (o : AvObj) (ho : Good o)
    (todos : List (List Nat)) (sched : List Nat) :
    VisibleOK spec (run (initSys o todos) sched).obj := by
  obtain ⟨base, hinv⟩ := run_inv hs sched (init_inv hs o ho todos)
  exact hinv.vis

/-- **main theorem**: for every number of threads, every assignment of levels to fetch and every
    schedule, no thread ever fails (no `KeyError`/`AssertionError` from `valid_insertions`), and every
    level a thread has read is the specification's level (as a set with multiplicities) -/
theorem concurrent_correct {spec Good} (hs : SeqOK spec Good) (o : AvObj) (ho : Good o)
    (todos : List (List Nat)) (sched : List Nat) (tid : Nat) (t : Thread)
    (ht : (run (initSys o todos) sched).threads[tid]? = some t) :
    (∀ e, t.phase ≠ .failed e) ∧ ∀ g ∈ t.got, g.2.Perm (spec g.1) := by
  obtain ⟨base, hinv⟩ := run_inv hs sched (init_inv hs o ho todos)
  have h := hinv.thr tid t ht
  refine ⟨?_, h.2⟩
  intro e he
  have := h.1; rw [he] at this; exact this

/-- whenever the lock is free the shared object is in a good (sequentially reachable) state, so a
    later sequential user of the class sees a consistent cache -/
theorem quiescent_good {spec Good} (hs : SeqOK spec Good) (o : AvObj) (ho : Good o)
    (todos : List (List Nat)) (sched : List Nat)
    (hfree : (run (initSys o todos) sched).lock = none) : Good (run (initSys o todos) sched).obj := by
  obtain ⟨base, hinv⟩ := run_inv hs sched (init_inv hs o ho todos)
  rw [hinv.free hfree]; exact hinv.good


/-! ## Instantiation with the C02 cache invariant: the statements about the real `Av` model -/

/-- **C07 for `Av`**: threads sharing a freshly created class with any basis `Av` accepts (`ValidBasisV`:
    `ValidBasis` for a classical basis, `True` for a mesh basis), any assignment of levels, any schedule: no thread fails and every level read is the
    specification's level `Spec.C02.level` / `Spec.C02.meshLevel` (as a list up to order) -/
theorem av_concurrent_correct (B : BasisV) (hB : C02L.ValidBasisV B) (todos : List (List Nat))
    (sched : List Nat) (tid : Nat) (t : Thread)
    (ht : (run (initSys (freshObj B) todos) sched).threads[tid]? = some t) :
    (∀ e, t.phase ≠ .failed e) ∧ ∀ g ∈ t.got, g.2.Perm (C02L.specLevel B g.1) :=
  concurrent_correct (C02L.seqOK B) (freshObj B) ⟨C02L.ObjInv.fresh hB, C02L.freshObj_basis B⟩ todos sched tid t ht

/-- `av_concurrent_correct` for a mesh basis: every list of mesh patterns, no hypothesis -/
theorem av_concurrent_correct_mesh (M : List Mesh) (todos : List (List Nat))
    (sched : List Nat) (tid : Nat) (t : Thread)
    (ht : (run (initSys (freshObj (.mesh M)) todos) sched).threads[tid]? = some t) :
    (∀ e, t.phase ≠ .failed e) ∧ ∀ g ∈ t.got, g.2.Perm (Spec.C02.meshLevel M g.1) :=
  av_concurrent_correct (.mesh M) trivial todos sched tid t ht

/-- the same from any sequentially reachable (invariant-satisfying) state of the class, e.g. after
    arbitrary earlier single-threaded queries -/
theorem av_concurrent_correct_from (o : AvObj) (ho : C02L.ObjInv o) (todos : List (List Nat))
    (sched : List Nat) (tid : Nat) (t : Thread)
    (ht : (run (initSys o todos) sched).threads[tid]? = some t) :
    (∀ e, t.phase ≠ .failed e) ∧ ∀ g ∈ t.got, g.2.Perm (C02L.specLevel o.basis g.1) :=
  concurrent_correct (C02L.seqOK o.basis) o ⟨ho, rfl⟩ todos sched tid t ht

/-- no thread ever observes a partially built or partially compacted level of an `Av` object -/
theorem av_keys_always_ok (o : AvObj) (ho : C02L.ObjInv o) (todos : List (List Nat)) (sched : List Nat) :
    VisibleOK (C02L.specLevel o.basis) (run (initSys o todos) sched).obj :=
  keys_always_ok (C02L.seqOK o.basis) o ⟨ho, rfl⟩ todos sched

/-- after the threads are done (lock free) the shared object satisfies the sequential invariant again -/
theorem av_quiescent_good (o : AvObj) (ho : C02L.ObjInv o) (todos : List (List Nat)) (sched : List Nat)
    (hfree : (run (initSys o todos) sched).lock = none) :
    C02L.ObjInv (run (initSys o todos) sched).obj :=
  (quiescent_good (C02L.seqOK o.basis) o ⟨ho, rfl⟩ todos sched hfree).1

/-- necessity / non-vacuity of the model: *without* mutual exclusion the same machine reaches a state
    in which a thread reads an empty level 3 of `Av(01)` (which really contains `210`): thread 0 builds
    up to level 2, thread 1 up to level 3, and thread 0's stale write hides level 3 again. -/
theorem nolock_exhibits_failure :
    ((runNoLock (initSys (freshObj (.classical [[0,1]])) [[2], [3]]) [0, 0, 1, 1, 1, 1, 1, 1, 0, 1]).threads.map
      (·.got)) = [[], [(3, [])]] := by decide

/-- with the lock, the same two threads under the analogous schedule both get the right levels -/
example :
    ((run (initSys (freshObj (.classical [[0,1]])) [[2], [3]]) [0, 0, 1, 1, 0, 0, 0, 0, 1, 1, 1, 1, 1, 1, 1, 1, 1]).threads.map
      (·.got)) = [[(2, [[1,0]])], [(3, [[2,1,0]])]] := by decide

end C07
