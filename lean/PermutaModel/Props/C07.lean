import PermutaModel.Lemmas.C07Sched
import PermutaModel.Lemmas.C07Progress
import PermutaModel.Lemmas.C02SeqOK
import PermutaModel.Generated.Tables

/-!
# C07 — concurrent queries on a permutation class are correct under every interleaving

`Model.C07.step` is the small-step semantics of threads executing `Av._get_level` under the lock
discipline found in the source (`Generated.lockDiscipline`).  The theorems quantify over every
number of threads, every assignment of levels to fetch and **every schedule**.  They are generic
in the sequential theory: `C07L.SeqOK spec Good` is the statement about `_ensure_level` that
`Props/C02.lean` provides for the cache invariant.
-/
namespace C07
open Model.C02 Model.C07 C07L

/-- the source still has the lock discipline the theorems below are about: every `_ensure_level`
    call is inside `with Av._CACHE_LOCK`, the result is read after the block, and the lock is a
    class attribute shared by all instances.  (Regenerated from permset.py on every run; removing
    or narrowing the critical section breaks this obligation.) -/
theorem lock_discipline_matches_source : Generated.lockDiscipline = (true, true, true) := by decide

/-- a thread that wants the lock while another holds it does not move (blocking is a stutter) -/
theorem blocked_stutters (s : Sys) (tid : Nat) (t : Thread) (n : Nat) (rest : List Nat) (holder : Nat)
    (ht : s.threads[tid]? = some t) (hp : t.phase = .idle) (htd : t.todo = n :: rest)
    (hl : s.lock = some holder) : step s tid = s := by
  unfold step; simp [ht, hp, htd, hl]

/-- **mutual exclusion**: in every reachable state at most one thread is inside the critical section,
    and it is the lock holder -/
theorem mutex {spec Good} (hs : SeqOK spec Good) (o : AvObj) (ho : Good o) (todos : List (List Nat))
    (sched : List Nat) (i j : Nat) (ti tj : Thread) (ni nj : Nat) (pi pj : List AvObj)
    (hi : (run (initSys o todos) sched).threads[i]? = some ti) (hpi : ti.phase = .holding ni pi)
    (hj : (run (initSys o todos) sched).threads[j]? = some tj) (hpj : tj.phase = .holding nj pj) :
    i = j ∧ (run (initSys o todos) sched).lock = some i := by
  obtain ⟨base, hinv⟩ := run_inv hs sched (init_inv hs o ho todos)
  have h1 := (hinv.thr i ti hi).1; rw [hpi] at h1
  have h2 := (hinv.thr j tj hj).1; rw [hpj] at h2
  have : some i = some j := h1.1.symm.trans h2.1
  exact ⟨Option.some.inj this, h1.1⟩

/-- **every visible level is right at every moment**, including while another thread is in the middle
    of building or compacting: a reader can never observe a partially built level -/
theorem keys_always_ok {spec Good} (hs : SeqOK spec Good) (o : AvObj) (ho : Good o)
    (todos : List (List Nat)) (sched : List Nat) :
    VisibleOK spec (run (initSys o todos) sched).obj := by
  obtain ⟨base, hinv⟩ := run_inv hs sched (init_inv hs o ho todos)
  exact hinv.vis

/-- **main theorem**: for every number of threads, every assignment of levels to fetch and every
    schedule, no thread ever fails (no `KeyError`/`AssertionError` from `valid_insertions`), and every
    level a thread has read is the specification's level (as a set with multiplicities) -/
theorem concurrent_correct {spec Good} (hs : SeqOK spec Good) (o : AvObj) (ho : Good o)
    (todos : List (List Nat)) (sched : List Nat) (tid : Nat) (t : Thread)
    (ht : (run (initSys o todos) sched).threads[tid]? = some t) :
    (∀ e, t.phase ≠ .failed e) ∧ ∀ g ∈ t.got, g.2.Perm (spec g.1) := by
  obtain ⟨base, hinv⟩ := run_inv hs sched (init_inv hs o ho todos)
  have h := hinv.thr tid t ht
  refine ⟨?_, h.2⟩
  intro e he
  have := h.1; rw [he] at this; exact this

/-- whenever the lock is free the shared object is in a good (sequentially reachable) state, so a
    later sequential user of the class sees a consistent cache -/
theorem quiescent_good {spec Good} (hs : SeqOK spec Good) (o : AvObj) (ho : Good o)
    (todos : List (List Nat)) (sched : List Nat)
    (hfree : (run (initSys o todos) sched).lock = none) : Good (run (initSys o todos) sched).obj := by
  obtain ⟨base, hinv⟩ := run_inv hs sched (init_inv hs o ho todos)
  rw [hinv.free hfree]; exact hinv.good


/-! ## Instantiation with the C02 cache invariant: the statements about the real `Av` model -/

/-- **C07 for `Av`**: threads sharing a freshly created class with any basis `Av` accepts (`ValidBasisV`:
    `ValidBasis` for a classical basis, `True` for a mesh basis), any assignment of levels, any schedule: no thread fails and every level read is the
    specification's level `Spec.C02.level` / `Spec.C02.meshLevel` (as a list up to order) -/
theorem av_concurrent_correct (B : BasisV) (hB : C02L.ValidBasisV B) (todos : List (List Nat))
    (sched : List Nat) (tid : Nat) (t : Thread)
    (ht : (run (initSys (freshObj B) todos) sched).threads[tid]? = some t) :
    (∀ e, t.phase ≠ .failed e) ∧ ∀ g ∈ t.got, g.2.Perm (C02L.specLevel B g.1) :=
  concurrent_correct (C02L.seqOK B) (freshObj B) ⟨C02L.ObjInv.fresh hB, C02L.freshObj_basis B⟩ todos sched tid t ht

/-- `av_concurrent_correct` for a mesh basis: every list of mesh patterns, no hypothesis -/
theorem av_concurrent_correct_mesh (M : List Mesh) (todos : List (List Nat))
    (sched : List Nat) (tid : Nat) (t : Thread)
    (ht : (run (initSys (freshObj (.mesh M)) todos) sched).threads[tid]? = some t) :
    (∀ e, t.phase ≠ .failed e) ∧ ∀ g ∈ t.got, g.2.Perm (Spec.C02.meshLevel M g.1) :=
  av_concurrent_correct (.mesh M) trivial todos sched tid t ht

/-- the same from any sequentially reachable (invariant-satisfying) state of the class, e.g. after
    arbitrary earlier single-threaded queries -/
theorem av_concurrent_correct_from (o : AvObj) (ho : C02L.ObjInv o) (todos : List (List Nat))
    (sched : List Nat) (tid : Nat) (t : Thread)
    (ht : (run (initSys o todos) sched).threads[tid]? = some t) :
    (∀ e, t.phase ≠ .failed e) ∧ ∀ g ∈ t.got, g.2.Perm (C02L.specLevel o.basis g.1) :=
  concurrent_correct (C02L.seqOK o.basis) o ⟨ho, rfl⟩ todos sched tid t ht

/-- no thread ever observes a partially built or partially compacted level of an `Av` object -/
theorem av_keys_always_ok (o : AvObj) (ho : C02L.ObjInv o) (todos : List (List Nat)) (sched : List Nat) :
    VisibleOK (C02L.specLevel o.basis) (run (initSys o todos) sched).obj :=
  keys_always_ok (C02L.seqOK o.basis) o ⟨ho, rfl⟩ todos sched

/-- after the threads are done (lock free) the shared object satisfies the sequential invariant again -/
theorem av_quiescent_good (o : AvObj) (ho : C02L.ObjInv o) (todos : List (List Nat)) (sched : List Nat)
    (hfree : (run (initSys o todos) sched).lock = none) :
    C02L.ObjInv (run (initSys o todos) sched).obj :=
  (quiescent_good (C02L.seqOK o.basis) o ⟨ho, rfl⟩ todos sched hfree).1

/-- necessity / non-vacuity of the model: *without* mutual exclusion the same machine reaches a state
    in which a thread reads an empty level 3 of `Av(01)` (which really contains `210`): thread 0 builds
    up to level 2, thread 1 up to level 3, and thread 0's stale write hides level 3 again. -/
theorem nolock_exhibits_failure :
    ((runNoLock (initSys (freshObj (.classical [[0,1]])) [[2], [3]]) [0, 0, 1, 1, 1, 1, 1, 1, 0, 1]).threads.map
      (·.got)) = [[], [(3, [])]] := by decide

/-- with the lock, the same two threads under the analogous schedule both get the right levels -/
example :
    ((run (initSys (freshObj (.classical [[0,1]])) [[2], [3]]) [0, 0, 1, 1, 0, 0, 0, 0, 1, 1, 1, 1, 1, 1, 1, 1, 1]).threads.map
      (·.got)) = [[(2, [[1,0]])], [(3, [[2,1,0]])]] := by decide

/-! ## Completeness of the answers, deadlock freedom, progress under fairness

`C07L.account t` = levels already answered ++ level in flight ++ levels not yet asked for;
`C07L.mu s` = Σ over threads of (writes left in the critical section + release + read) + `2n+4` for every
level `n` still to fetch (acquire, at most `2n+1` writes, release, read); `C07L.AllDone s` = every thread
is idle with nothing left to fetch.  `C07L.totalCost todos = Σ (2n+4)` over all requested levels. -/

/-- **bookkeeping, every schedule, every moment**: what a thread has answered so far, followed by the level it
    is fetching right now (if any), followed by what it has not asked for yet, is exactly its list of
    requests — nothing is skipped, duplicated or reordered (no sequential theory needed) -/
theorem results_complete (o : AvObj) (todos : List (List Nat)) (sched : List Nat) (tid : Nat) (t : Thread)
    (ht : (run (initSys o todos) sched).threads[tid]? = some t) :
    todos[tid]? = some (t.got.map (·.1) ++ pending t ++ t.todo) := by
  have h := run_account sched (initSys o todos)
  rw [init_account] at h
  have := congrArg (·[tid]?) h
  simp only [List.getElem?_map, ht, Option.map_some] at this
  exact this.symm

example : ((run (initSys (freshObj (.classical [[0,1]])) [[2, 1], [3]]) [0, 0, 1, 0, 0, 0, 0]).threads.map
    fun t => (t.got.map (·.1), pending t, t.todo)) = [([2], [], [1]), ([], [], [3])] := by decide

/-- … and in the middle of a critical section the level in flight is accounted for -/
example : ((run (initSys (freshObj (.classical [[0,1]])) [[2, 1], [3]]) [0, 0, 1, 0]).threads.map
    fun t => (t.got.map (·.1), pending t, t.todo)) = [([], [2], [1]), ([], [], [3])] := by decide

/-- **every query returns exactly what it would return when run alone (specification form)**: a thread that
    is finished has answered exactly its requested levels, in order, each with the specification's keys;
    and it has not failed -/
theorem finished_results {spec Good} (hs : SeqOK spec Good) (o : AvObj) (ho : Good o)
    (todos : List (List Nat)) (sched : List Nat) (tid : Nat) (t : Thread)
    (ht : (run (initSys o todos) sched).threads[tid]? = some t) (hd : Done t) :
    todos[tid]? = some (t.got.map (·.1)) ∧ ∀ g ∈ t.got, g.2.Perm (spec g.1) := by
  refine ⟨?_, (concurrent_correct hs o ho todos sched tid t ht).2⟩
  have := results_complete o todos sched tid t ht
  simpa [pending, hd.1, hd.2] using this

/-- **… (run-alone form)**: the answers of a finished thread under any schedule, whatever the other threads
    ask, agree item by item (same level, same keys up to order) with the answers of a thread that runs the
    same requests alone on the same object under any schedule `sched'` that lets it finish -/
theorem same_as_alone {spec Good} (hs : SeqOK spec Good) (o : AvObj) (ho : Good o)
    (todos : List (List Nat)) (sched : List Nat) (tid : Nat) (t : Thread) (td : List Nat)
    (htd : todos[tid]? = some td)
    (ht : (run (initSys o todos) sched).threads[tid]? = some t) (hd : Done t)
    (sched' : List Nat) (t' : Thread)
    (ht' : (run (initSys o [td]) sched').threads[0]? = some t') (hd' : Done t') :
    t.got.map (·.1) = t'.got.map (·.1) ∧
    ∀ (i : Nat) (g g' : Nat × List NSeq), t.got[i]? = some g → t'.got[i]? = some g' → g.1 = g'.1 ∧ g.2.Perm g'.2 := by
  obtain ⟨h1, h2⟩ := finished_results hs o ho todos sched tid t ht hd
  obtain ⟨h1', h2'⟩ := finished_results hs o ho [td] sched' 0 t' ht' hd'
  rw [htd] at h1
  simp only [List.getElem?_cons_zero] at h1'
  have hm : t.got.map (·.1) = t'.got.map (·.1) := (Option.some.inj h1).symm.trans (Option.some.inj h1')
  refine ⟨hm, ?_⟩
  intro i g g' hg hg'
  have hfst : g.1 = g'.1 := by
    have := congrArg (·[i]?) hm
    simpa [List.getElem?_map, hg, hg'] using this
  refine ⟨hfst, ?_⟩
  have p1 := h2 g (List.mem_iff_getElem?.mpr ⟨i, hg⟩)
  have p2 := h2' g' (List.mem_iff_getElem?.mpr ⟨i, hg'⟩)
  rw [hfst] at p1
  exact p1.trans p2.symm

/-- a state in which every thread is finished is final: no schedule changes it -/
theorem finished_is_final (s : Sys) (hd : AllDone s) (sched : List Nat) : run s sched = s :=
  run_allDone hd sched

/-- the remaining-work bound never increases and starts at `totalCost todos = Σ (2n+4)` -/
theorem remaining_work_le (o : AvObj) (todos : List (List Nat)) (pre : List Nat) :
    mu (run (initSys o todos) pre) ≤ totalCost todos := by
  have := run_mu_le pre (initSys o todos)
  rwa [init_mu] at this

/-- **deadlock freedom**: after *any* schedule prefix there is a continuation — of at most
    `mu (current state)` ≤ `Σ (2n+4)` steps — after which every thread is finished and the lock is free -/
theorem deadlock_free {spec Good} (hs : SeqOK spec Good) (o : AvObj) (ho : Good o)
    (todos : List (List Nat)) (pre : List Nat) :
    ∃ cont : List Nat, cont.length ≤ mu (run (initSys o todos) pre) ∧
      cont.length ≤ totalCost todos ∧
      AllDone (run (initSys o todos) (pre ++ cont)) ∧ (run (initSys o todos) (pre ++ cont)).lock = none := by
  have hr : Reach spec Good (run (initSys o todos) pre) := (Reach.init hs o ho todos).run hs pre
  obtain ⟨cont, hlen, hdone⟩ := exists_completion hs _ hr (Nat.le_refl _)
  have hsplit : run (initSys o todos) (pre ++ cont) = run (run (initSys o todos) pre) cont := by
    simp [run, List.foldl_append]
  refine ⟨cont, hlen, Nat.le_trans hlen (remaining_work_le o todos pre), ?_, ?_⟩
  · rw [hsplit]; exact hdone
  · rw [hsplit]; exact allDone_lock_free (hr.run hs cont).2 hdone

/-- **progress under fairness**: after any prefix, any continuation that can be cut into at least
    `mu (current state)` *fair rounds* — segments in which every thread id occurs at least once, in any order,
    with any repetitions — ends with every thread finished and the lock free -/
theorem fair_progress {spec Good} (hs : SeqOK spec Good) (o : AvObj) (ho : Good o)
    (todos : List (List Nat)) (pre : List Nat) (segs : List (List Nat))
    (hfair : ∀ seg ∈ segs, ∀ tid, tid < todos.length → tid ∈ seg)
    (hlen : mu (run (initSys o todos) pre) ≤ segs.length) :
    AllDone (run (initSys o todos) (pre ++ segs.flatten)) ∧
      (run (initSys o todos) (pre ++ segs.flatten)).lock = none := by
  have hr : Reach spec Good (run (initSys o todos) pre) := (Reach.init hs o ho todos).run hs pre
  have hsplit : run (initSys o todos) (pre ++ segs.flatten) = run (run (initSys o todos) pre) segs.flatten := by
    simp [run, List.foldl_append]
  have hdone : AllDone (run (run (initSys o todos) pre) segs.flatten) := by
    apply fair_rounds_finish hs segs hr _ hlen
    intro seg hseg tid htid
    rw [run_length, init_length] at htid
    exact hfair seg hseg tid htid
  rw [hsplit]
  exact ⟨hdone, allDone_lock_free (hr.run hs segs.flatten).2 hdone⟩

/-- instance: round-robin repeated `R ≥ Σ (2n+4)` times finishes everything, after any prefix -/
theorem round_robin_progress {spec Good} (hs : SeqOK spec Good) (o : AvObj) (ho : Good o)
    (todos : List (List Nat)) (pre : List Nat) (R : Nat) (hR : totalCost todos ≤ R) :
    AllDone (run (initSys o todos) (pre ++ (List.replicate R (List.range todos.length)).flatten)) := by
  refine (fair_progress hs o ho todos pre (List.replicate R (List.range todos.length)) ?_ ?_).1
  · intro seg hseg tid htid
    rw [(List.mem_replicate.mp hseg).2]
    exact List.mem_range.mpr htid
  · rw [List.length_replicate]
    exact Nat.le_trans (remaining_work_le o todos pre) hR

/-- **total correctness under fairness**: after any prefix followed by enough fair rounds, *every* thread
    has terminated without error and holds exactly the specification's answer to each of its requests, in
    order -/
theorem fair_run_correct {spec Good} (hs : SeqOK spec Good) (o : AvObj) (ho : Good o)
    (todos : List (List Nat)) (pre : List Nat) (segs : List (List Nat))
    (hfair : ∀ seg ∈ segs, ∀ tid, tid < todos.length → tid ∈ seg)
    (hlen : totalCost todos ≤ segs.length) (tid : Nat) (td : List Nat) (htd : todos[tid]? = some td) :
    ∃ t, (run (initSys o todos) (pre ++ segs.flatten)).threads[tid]? = some t ∧ Done t ∧
      t.got.map (·.1) = td ∧ ∀ g ∈ t.got, g.2.Perm (spec g.1) := by
  have hdone := (fair_progress hs o ho todos pre segs hfair
    (Nat.le_trans (remaining_work_le o todos pre) hlen)).1
  have hlt : tid < (run (initSys o todos) (pre ++ segs.flatten)).threads.length := by
    rw [run_length, init_length]; exact lt_of_getElem? htd
  refine ⟨_, List.getElem?_eq_getElem hlt, hdone _ (List.getElem_mem hlt), ?_⟩
  obtain ⟨h1, h2⟩ := finished_results hs o ho todos _ tid _ (List.getElem?_eq_getElem hlt)
    (hdone _ (List.getElem_mem hlt))
  rw [htd] at h1
  exact ⟨(Option.some.inj h1).symm, h2⟩

/-! ### … for the real `Av` model (sequential theory from C02) -/

/-- a finished thread on an `Av` object holds exactly the specification's levels it asked for, in order -/
theorem av_finished_results (o : AvObj) (ho : C02L.ObjInv o) (todos : List (List Nat)) (sched : List Nat)
    (tid : Nat) (t : Thread) (ht : (run (initSys o todos) sched).threads[tid]? = some t) (hd : Done t) :
    todos[tid]? = some (t.got.map (·.1)) ∧ ∀ g ∈ t.got, g.2.Perm (C02L.specLevel o.basis g.1) :=
  finished_results (C02L.seqOK o.basis) o ⟨ho, rfl⟩ todos sched tid t ht hd

/-- concurrent answers on an `Av` object = answers of the same requests run alone -/
theorem av_same_as_alone (o : AvObj) (ho : C02L.ObjInv o) (todos : List (List Nat)) (sched : List Nat)
    (tid : Nat) (t : Thread) (td : List Nat) (htd : todos[tid]? = some td)
    (ht : (run (initSys o todos) sched).threads[tid]? = some t) (hd : Done t)
    (sched' : List Nat) (t' : Thread)
    (ht' : (run (initSys o [td]) sched').threads[0]? = some t') (hd' : Done t') :
    t.got.map (·.1) = t'.got.map (·.1) ∧
    ∀ (i : Nat) (g g' : Nat × List NSeq), t.got[i]? = some g → t'.got[i]? = some g' → g.1 = g'.1 ∧ g.2.Perm g'.2 :=
  same_as_alone (C02L.seqOK o.basis) o ⟨ho, rfl⟩ todos sched tid t td htd ht hd sched' t' ht' hd'

/-- threads sharing an `Av` object can never deadlock: from every reachable state at most `Σ (2n+4)` further
    steps finish everybody -/
theorem av_deadlock_free (o : AvObj) (ho : C02L.ObjInv o) (todos : List (List Nat)) (pre : List Nat) :
    ∃ cont : List Nat, cont.length ≤ mu (run (initSys o todos) pre) ∧
      cont.length ≤ totalCost todos ∧
      AllDone (run (initSys o todos) (pre ++ cont)) ∧ (run (initSys o todos) (pre ++ cont)).lock = none :=
  deadlock_free (C02L.seqOK o.basis) o ⟨ho, rfl⟩ todos pre

/-- **C07, total form, for `Av`**: any basis `Av` accepts, any number of threads, any requests, any schedule
    prefix followed by `Σ (2n+4)` fair rounds: every thread has terminated and holds, for each of its
    requests in order, the specification's level -/
theorem av_fair_run_correct (B : BasisV) (hB : C02L.ValidBasisV B) (todos : List (List Nat))
    (pre : List Nat) (segs : List (List Nat))
    (hfair : ∀ seg ∈ segs, ∀ tid, tid < todos.length → tid ∈ seg)
    (hlen : totalCost todos ≤ segs.length) (tid : Nat) (td : List Nat) (htd : todos[tid]? = some td) :
    ∃ t, (run (initSys (freshObj B) todos) (pre ++ segs.flatten)).threads[tid]? = some t ∧ Done t ∧
      t.got.map (·.1) = td ∧ ∀ g ∈ t.got, g.2.Perm (C02L.specLevel B g.1) :=
  fair_run_correct (C02L.seqOK B) (freshObj B) ⟨C02L.ObjInv.fresh hB, C02L.freshObj_basis B⟩ todos pre segs
    hfair hlen tid td htd

/-- the same from any sequentially reachable (invariant-satisfying) state of the class -/
theorem av_fair_run_correct_from (o : AvObj) (ho : C02L.ObjInv o) (todos : List (List Nat))
    (pre : List Nat) (segs : List (List Nat))
    (hfair : ∀ seg ∈ segs, ∀ tid, tid < todos.length → tid ∈ seg)
    (hlen : totalCost todos ≤ segs.length) (tid : Nat) (td : List Nat) (htd : todos[tid]? = some td) :
    ∃ t, (run (initSys o todos) (pre ++ segs.flatten)).threads[tid]? = some t ∧ Done t ∧
      t.got.map (·.1) = td ∧ ∀ g ∈ t.got, g.2.Perm (C02L.specLevel o.basis g.1) :=
  fair_run_correct (C02L.seqOK o.basis) o ⟨ho, rfl⟩ todos pre segs hfair hlen tid td htd

/-- non-vacuity: the workload `[[2],[3]]` costs 18, eighteen rounds `[1,0]` are fair, and the theorem
    yields the finished thread 1 after an arbitrary prefix -/
example : totalCost [[2], [3]] = 18 := by decide

example : ∃ t, (run (initSys (freshObj (.classical [[0,1]])) [[2], [3]])
      ([1, 1, 0] ++ (List.replicate 18 [1, 0]).flatten)).threads[1]? = some t ∧ Done t ∧
      t.got.map (·.1) = [3] ∧ ∀ g ∈ t.got, g.2.Perm (C02L.specLevel (.classical [[0,1]]) g.1) :=
  av_fair_run_correct (.classical [[0,1]]) (⟨by decide, by decide, by decide⟩ : C02L.ValidBasis [[0,1]]) [[2], [3]] [1, 1, 0] (List.replicate 18 [1, 0])
    (by decide) (by decide) 1 [3] rfl

/-- the bound is about *rounds*, the machine really needs several: one round-robin pass does not finish -/
example : ((run (initSys (freshObj (.classical [[0,1]])) [[2], [3]]) [0, 1]).threads.map (·.todo)) = [[], [3]] := by
  decide

/-- concrete run of the fair schedule: both threads end with the right levels -/
example : ((run (initSys (freshObj (.classical [[0,1]])) [[2], [3]])
    (List.replicate 18 [1, 0]).flatten).threads.map (·.got)) = [[(2, [[1,0]])], [(3, [[2,1,0]])]] := by decide

end C07
