import PermutaModel.Model.C07

/-!
# C07 — concurrent queries are correct under every interleaving
-/
namespace C07
open Model.C07

/-- a blocked thread (lock held by someone else) stutters -/
theorem blocked_stutters (s : Sys) (tid : Nat) (t : Thread) (n : Nat) (rest : List Nat) (holder : Nat)
    (ht : s.threads[tid]? = some t) (hp : t.phase = .idle) (htd : t.todo = n :: rest)
    (hl : s.lock = some holder) : step s tid = s := by
  unfold step; simp [ht, hp, htd, hl]

end C07
