import PermutaModel.Lemmas.C07Sched
import PermutaModel.Lemmas.C07Progress
import PermutaModel.Lemmas.C02SeqOK
import PermutaModel.Generated.Tables
import PermutaModel.Driver.C07

/-!
# C07 — concurrent queries on a permutation class are correct under every interleaving

`Model.C07.step d` is the small-step semantics of threads executing `Av._get_level` under a lock
discipline `d : Disc`: the plain one (`with LOCK: ensure`, then read) or double-checked locking
(`d.fast`: an existing level is read without the lock, `d.guard` being the lock-free test).  The discipline
found in the source is `Model.C07.sourceDisc`, built from `Generated.lockDiscipline` /
`Generated.lockFastPath`.  The theorems quantify over every discipline whose lock-free test implies that
the level exists (`d.OK`), every number of threads, every assignment of levels to fetch and
**every schedule**.  They are generic
in the sequential theory: `C07L.SeqOK spec Good` is the statement about `_ensure_level` that
`Props/C02.lean` provides for the cache invariant.
-/
namespace C07
open Model.C02 Model.C07 C07L

/-- the source still has a lock discipline the theorems below are about: every `_ensure_level`
    call is inside `with Av._CACHE_LOCK`, the result is read after the block — except on the recognised
    lock-free fast path `if <… level_number < len(self.cache) …>: return self.cache[level_number]`, whose
    presence is `Generated.lockFastPath` —, and the lock is a class attribute shared by all instances; and
    the discipline `sourceDisc` the driver runs and the `source_*` theorems are instantiated with is the
    one generated from that flag, and is sound.  (Regenerated from permset.py on every run; removing or
    narrowing the critical section, or any other read of the cache before it, breaks this obligation.) -/
theorem lock_discipline_matches_source :
    Generated.lockDiscipline = (true, true, true) ∧
    sourceDisc = Disc.ofFlag Generated.lockFastPath ∧ sourceDisc.OK :=
  ⟨by decide, rfl, Disc.ofFlag_ok _⟩

/-- both disciplines the translator can report are covered by the theorems below -/
theorem both_disciplines_ok : (Disc.ofFlag false).OK ∧ (Disc.ofFlag true).OK ∧ Disc.locked.OK :=
  ⟨Disc.ofFlag_ok _, Disc.ofFlag_ok _, Disc.locked_ok⟩

/-- plain discipline: a thread that wants the lock while another holds it does not move (blocking is a stutter) -/
theorem blocked_stutters (d : Disc) (hf : d.fast = false) (s : Sys) (tid : Nat) (t : Thread) (n : Nat)
    (rest : List Nat) (holder : Nat)
    (ht : s.threads[tid]? = some t) (hp : t.phase = .idle) (htd : t.todo = n :: rest)
    (hl : s.lock = some holder) : step d s tid = s := by
  unfold step; simp [ht, hp, htd, hl, hf, tryAcquire]

/-- any discipline: a thread committed to the locked path does not move while another holds the lock -/
theorem blocked_stutters_waiting (d : Disc) (s : Sys) (tid : Nat) (t : Thread) (n : Nat) (holder : Nat)
    (ht : s.threads[tid]? = some t) (hp : t.phase = .waiting n)
    (hl : s.lock = some holder) : step d s tid = s := by
  unfold step; simp [ht, hp, hl, tryAcquire]

/-- fast path: a thread whose level passes the lock-free test is **not** blocked by a held lock — it goes
    straight to the read, and neither the lock nor the shared object is touched -/
theorem fast_path_not_blocked (d : Disc) (hf : d.fast = true) (s : Sys) (tid : Nat) (t : Thread) (n : Nat)
    (rest : List Nat) (ht : s.threads[tid]? = some t) (hp : t.phase = .idle) (htd : t.todo = n :: rest)
    (hg : d.guard n s.obj.cache.length = true) :
    step d s tid = s.setThread tid { t with todo := rest, phase := .reading n } ∧
    (step d s tid).lock = s.lock ∧ (step d s tid).obj = s.obj := by
  have : step d s tid = s.setThread tid { t with todo := rest, phase := .reading n } := by
    unfold step; simp [ht, hp, htd, hf, hg]
  rw [this]; exact ⟨rfl, rfl, rfl⟩

/-- **nothing changes for the plain discipline**: without the fast path the machine never enters the phase
    `waiting` that double-checked locking adds (it is, state for state, the machine with the four phases
    idle / holding / reading / failed), and the lock-free test is never looked at -/
theorem plain_discipline_never_waits (d : Disc) (hf : d.fast = false) (o : AvObj) (todos : List (List Nat))
    (sched : List Nat) (tid : Nat) (t : Thread)
    (ht : (run d (initSys o todos) sched).threads[tid]? = some t) (n : Nat) : t.phase ≠ .waiting n :=
  run_noWaiting hf sched (init_noWaiting o todos) t (List.mem_iff_getElem?.mpr ⟨tid, ht⟩) n

theorem plain_discipline_ignores_guard (d : Disc) (hf : d.fast = false) (s : Sys) (sched : List Nat) :
    run d s sched = run Disc.locked s sched := by
  have hstep : ∀ s tid, step d s tid = step Disc.locked s tid := by
    intro s tid
    unfold step
    simp only [hf, Disc.locked]
  induction sched generalizing s with
  | nil => rfl
  | cons a rest ih => show run d (step d s a) rest = run Disc.locked (step Disc.locked s a) rest; rw [hstep, ih]

/-- **mutual exclusion**: in every reachable state at most one thread is inside the critical section,
    and it is the lock holder (lock-free readers never enter it) -/
theorem mutex {spec Good} (hs : SeqOK spec Good) {d : Disc} (hd : d.OK) (o : AvObj) (ho : Good o)
    (todos : List (List Nat))
    (sched : List Nat) (i j : Nat) (ti tj : Thread) (ni nj : Nat) (pi pj : List AvObj)
    (hi : (run d (initSys o todos) sched).threads[i]? = some ti) (hpi : ti.phase = .holding ni pi)
    (hj : (run d (initSys o todos) sched).threads[j]? = some tj) (hpj : tj.phase = .holding nj pj) :
    i = j ∧ (run d (initSys o todos) sched).lock = some i := by
  obtain ⟨base, hinv⟩ := run_inv hs hd sched (init_inv hs o ho todos)
  have h1 := (hinv.thr i ti hi).1; rw [hpi] at h1
  have h2 := (hinv.thr j tj hj).1; rw [hpj] at h2
  have : some i = some j := h1.1.symm.trans h2.1
  exact ⟨Option.some.inj this, h1.1⟩

/-- **every visible level is right at every moment**, including while another thread is in the middle
    of building or compacting: a reader — with or without the lock — can never observe a partially built
    level -/
theorem keys_always_ok {spec Good} (hs : SeqOK spec Good) {d : Disc} (hd : d.OK) (o : AvObj) (ho : Good o)
    (todos : List (List Nat)) (sched : List Nat) :
    VisibleOK spec (run d (initSys o todos) sched).obj := by
  obtain ⟨base, hinv⟩ := run_inv hs hd sched (init_inv hs o ho todos)
  exact hinv.vis

/-- **main theorem**: for every lock discipline (plain or double-checked), every number of threads, every
    assignment of levels to fetch and every schedule, no thread ever fails (no `KeyError`/`AssertionError`
    from `valid_insertions`, no `IndexError` from the lock-free read), and every level a thread has read is
    the specification's level (as a set with multiplicities) -/
theorem concurrent_correct {spec Good} (hs : SeqOK spec Good) {d : Disc} (hd : d.OK) (o : AvObj) (ho : Good o)
    (todos : List (List Nat)) (sched : List Nat) (tid : Nat) (t : Thread)
    (ht : (run d (initSys o todos) sched).threads[tid]? = some t) :
    (∀ e, t.phase ≠ .failed e) ∧ ∀ g ∈ t.got, g.2.Perm (spec g.1) := by
  obtain ⟨base, hinv⟩ := run_inv hs hd sched (init_inv hs o ho todos)
  have h := hinv.thr tid t ht
  refine ⟨?_, h.2⟩
  intro e he
  have := h.1; rw [he] at this; exact this

/-- whenever the lock is free the shared object is in a good (sequentially reachable) state, so a
    later sequential user of the class sees a consistent cache -/
theorem quiescent_good {spec Good} (hs : SeqOK spec Good) {d : Disc} (hd : d.OK) (o : AvObj) (ho : Good o)
    (todos : List (List Nat)) (sched : List Nat)
    (hfree : (run d (initSys o todos) sched).lock = none) : Good (run d (initSys o todos) sched).obj := by
  obtain ⟨base, hinv⟩ := run_inv hs hd sched (init_inv hs o ho todos)
  rw [hinv.free hfree]; exact hinv.good

/-! ## The lock-free fast path reads what the locked path would have returned -/

/-- a thread that is about to read level `n` — after releasing the lock **or on the lock-free path** — finds
    the level present (no `IndexError`) in every reachable state -/
theorem reading_level_exists {spec Good} (hs : SeqOK spec Good) {d : Disc} (hd : d.OK) (o : AvObj) (ho : Good o)
    (todos : List (List Nat)) (sched : List Nat) (tid : Nat) (t : Thread) (n : Nat)
    (ht : (run d (initSys o todos) sched).threads[tid]? = some t) (hp : t.phase = .reading n) :
    n < (run d (initSys o todos) sched).obj.cache.length := by
  obtain ⟨base, hinv⟩ := run_inv hs hd sched (init_inv hs o ho todos)
  have h := (hinv.thr tid t ht).1
  rw [hp] at h; exact h

/-- the shared cache never gets shorter along any schedule -/
theorem cache_never_shrinks {spec Good} (hs : SeqOK spec Good) {d : Disc} (hd : d.OK) (o : AvObj) (ho : Good o)
    (todos : List (List Nat)) (sched more : List Nat) :
    (run d (initSys o todos) sched).obj.cache.length ≤ (run d (initSys o todos) (sched ++ more)).obj.cache.length := by
  obtain ⟨base, hinv⟩ := run_inv hs hd sched (init_inv hs o ho todos)
  have := run_len_mono hs hd more hinv
  simpa [run, List.foldl_append] using this

/-- **a fast-path read returns the keys the locked path would have returned**: whenever the lock-free test
    passes for level `n` in a reachable state — even in the middle of another thread's critical section —
    then at that moment and at every later moment (whatever the other threads do before the read
    `self.cache[n]` is executed) level `n` is present and complete: its keys are the specification's, hence
    the same (up to order) as those in the final state of a locked `_ensure_level(n)` started from *any*
    good state `o'` of the class -/
theorem fast_read_eq_locked_read {spec Good} (hs : SeqOK spec Good) {d : Disc} (hd : d.OK) (o : AvObj) (ho : Good o)
    (todos : List (List Nat)) (sched : List Nat) (n : Nat)
    (hg : d.guard n (run d (initSys o todos) sched).obj.cache.length = true) (more : List Nat) :
    n < (run d (initSys o todos) (sched ++ more)).obj.cache.length ∧
    (((run d (initSys o todos) (sched ++ more)).obj.cache.getD n []).keys).Perm (spec n) ∧
    ∀ (o' : AvObj) (tr : List AvObj), Good o' → ensureTrace o' n = .ok tr →
      (((run d (initSys o todos) (sched ++ more)).obj.cache.getD n []).keys).Perm
        ((((o' :: tr).getLast (by simp)).cache.getD n []).keys) := by
  have hn : n < (run d (initSys o todos) (sched ++ more)).obj.cache.length :=
    Nat.lt_of_lt_of_le (hd n _ hg) (cache_never_shrinks hs hd o ho todos sched more)
  have hk := keys_always_ok hs hd o ho todos (sched ++ more) n hn
  refine ⟨hn, hk, ?_⟩
  intro o' tr ho' htr
  have hf := hs.final o' n tr ho' htr
  exact hk.trans (hs.visible _ hf.1 n hf.2).symm

/-! ## Instantiation with the C02 cache invariant: the statements about the real `Av` model -/

/-- **C07 for `Av`**: threads sharing a freshly created class with any basis `Av` accepts (`ValidBasisV`:
    `ValidBasis` for a classical basis, `True` for a mesh basis), any sound lock discipline, any assignment of
    levels, any schedule: no thread fails and every level read is the
    specification's level `Spec.C02.level` / `Spec.C02.meshLevel` (as a list up to order) -/
theorem av_concurrent_correct {d : Disc} (hd : d.OK) (B : BasisV) (hB : C02L.ValidBasisV B) (todos : List (List Nat))
    (sched : List Nat) (tid : Nat) (t : Thread)
    (ht : (run d (initSys (freshObj B) todos) sched).threads[tid]? = some t) :
    (∀ e, t.phase ≠ .failed e) ∧ ∀ g ∈ t.got, g.2.Perm (C02L.specLevel B g.1) :=
  concurrent_correct (C02L.seqOK B) hd (freshObj B) ⟨C02L.ObjInv.fresh hB, C02L.freshObj_basis B⟩ todos sched tid t ht

/-- `av_concurrent_correct` for a mesh basis: every list of mesh patterns, no hypothesis -/
theorem av_concurrent_correct_mesh {d : Disc} (hd : d.OK) (M : List Mesh) (todos : List (List Nat))
    (sched : List Nat) (tid : Nat) (t : Thread)
    (ht : (run d (initSys (freshObj (.mesh M)) todos) sched).threads[tid]? = some t) :
    (∀ e, t.phase ≠ .failed e) ∧ ∀ g ∈ t.got, g.2.Perm (Spec.C02.meshLevel M g.1) :=
  av_concurrent_correct hd (.mesh M) trivial todos sched tid t ht

/-- the same from any sequentially reachable (invariant-satisfying) state of the class, e.g. after
    arbitrary earlier single-threaded queries -/
theorem av_concurrent_correct_from {d : Disc} (hd : d.OK) (o : AvObj) (ho : C02L.ObjInv o) (todos : List (List Nat))
    (sched : List Nat) (tid : Nat) (t : Thread)
    (ht : (run d (initSys o todos) sched).threads[tid]? = some t) :
    (∀ e, t.phase ≠ .failed e) ∧ ∀ g ∈ t.got, g.2.Perm (C02L.specLevel o.basis g.1) :=
  concurrent_correct (C02L.seqOK o.basis) hd o ⟨ho, rfl⟩ todos sched tid t ht

/-- **C07 for the source as it is** (`sourceDisc`, whichever discipline the translator found) -/
theorem source_concurrent_correct (B : BasisV) (hB : C02L.ValidBasisV B) (todos : List (List Nat))
    (sched : List Nat) (tid : Nat) (t : Thread)
    (ht : (run sourceDisc (initSys (freshObj B) todos) sched).threads[tid]? = some t) :
    (∀ e, t.phase ≠ .failed e) ∧ ∀ g ∈ t.got, g.2.Perm (C02L.specLevel B g.1) :=
  av_concurrent_correct lock_discipline_matches_source.2.2 B hB todos sched tid t ht

/-- no thread ever observes a partially built or partially compacted level of an `Av` object -/
theorem av_keys_always_ok {d : Disc} (hd : d.OK) (o : AvObj) (ho : C02L.ObjInv o) (todos : List (List Nat))
    (sched : List Nat) :
    VisibleOK (C02L.specLevel o.basis) (run d (initSys o todos) sched).obj :=
  keys_always_ok (C02L.seqOK o.basis) hd o ⟨ho, rfl⟩ todos sched

/-- after the threads are done (lock free) the shared object satisfies the sequential invariant again -/
theorem av_quiescent_good {d : Disc} (hd : d.OK) (o : AvObj) (ho : C02L.ObjInv o) (todos : List (List Nat))
    (sched : List Nat)
    (hfree : (run d (initSys o todos) sched).lock = none) :
    C02L.ObjInv (run d (initSys o todos) sched).obj :=
  (quiescent_good (C02L.seqOK o.basis) hd o ⟨ho, rfl⟩ todos sched hfree).1

/-- **fast-path read = locked read, for `Av`**: if the lock-free test passes for level `n` in any reachable
    state of threads sharing `o`, the keys found at level `n` then and at any later moment are (up to order)
    the answer of the sequential, locked `_get_level(n)` (`Model.C02.getLevel`) on `o` -/
theorem av_fast_read_eq_locked_read {d : Disc} (hd : d.OK) (o : AvObj) (ho : C02L.ObjInv o)
    (todos : List (List Nat)) (sched : List Nat) (n : Nat)
    (hg : d.guard n (run d (initSys o todos) sched).obj.cache.length = true) (more : List Nat) :
    ∃ o' ks, getLevel o n = .ok (o', ks) ∧
      n < (run d (initSys o todos) (sched ++ more)).obj.cache.length ∧
      (((run d (initSys o todos) (sched ++ more)).obj.cache.getD n []).keys).Perm ks := by
  obtain ⟨o', ks, h1, _, hks⟩ := C02L.getLevel_spec o ho n
  obtain ⟨hn, hk, _⟩ := fast_read_eq_locked_read (C02L.seqOK o.basis) hd o ⟨ho, rfl⟩ todos sched n hg more
  exact ⟨o', ks, h1, hn, hk.trans hks.symm⟩

/-- necessity / non-vacuity of the model: *without* mutual exclusion on the build path the same machine
    — with or without the lock-free read — reaches a state in which a thread reads an empty level 3 of
    `Av(01)` (which really contains `210`): thread 0 builds up to level 2, thread 1 up to level 3, and
    thread 0's stale write hides level 3 again. -/
theorem nolock_exhibits_failure (fast : Bool) :
    ((runNoLock (Disc.ofFlag fast) (initSys (freshObj (.classical [[0,1]])) [[2], [3]])
      [0, 0, 1, 1, 1, 1, 1, 1, 0, 1]).threads.map (·.got)) = [[], [(3, [])]] := by
  cases fast <;> decide

/-- with the lock, the same two threads under the analogous schedule both get the right levels -/
example :
    ((run (Disc.ofFlag false) (initSys (freshObj (.classical [[0,1]])) [[2], [3]])
      [0, 0, 1, 1, 0, 0, 0, 0, 1, 1, 1, 1, 1, 1, 1, 1, 1]).threads.map
      (·.got)) = [[(2, [[1,0]])], [(3, [[2,1,0]])]] := by decide

/-- … also under double-checked locking (one more step per query: the lock-free test) -/
example :
    ((run (Disc.ofFlag true) (initSys (freshObj (.classical [[0,1]])) [[2], [3]])
      [0, 0, 0, 1, 1, 0, 0, 0, 0, 1, 1, 1, 1, 1, 1, 1, 1, 1, 1]).threads.map
      (·.got)) = [[(2, [[1,0]])], [(3, [[2,1,0]])]] := by decide

/-- **non-vacuity of the fast path**: thread 1 holds the lock and is in the middle of building level 2 of
    `Av(01)` (level 1 already appended) when thread 0 reads level 1 lock-free and gets the right answer;
    the lock is still held by thread 1 afterwards -/
example :
    (run (Disc.ofFlag true) (initSys (freshObj (.classical [[0,1]])) [[1], [2]]) [1, 1, 1, 0, 0]).lock = some 1 ∧
    (run (Disc.ofFlag true) (initSys (freshObj (.classical [[0,1]])) [[1], [2]]) [1, 1, 1, 0, 0]).obj.cache.length = 2 ∧
    (run (Disc.ofFlag true) (initSys (freshObj (.classical [[0,1]])) [[1], [2]]) [1, 1, 1, 0, 0]).threads.map
      (fun t => (t.got, pending t)) = [([(1, [[0]])], []), ([], [2])] := by decide

/-- … whereas under the plain discipline thread 0 is blocked by the same schedule prefix -/
example :
    (run (Disc.ofFlag false) (initSys (freshObj (.classical [[0,1]])) [[1], [2]]) [1, 1, 0, 0]).lock = some 1 ∧
    (run (Disc.ofFlag false) (initSys (freshObj (.classical [[0,1]])) [[1], [2]]) [1, 1, 0, 0]).threads.map
      (fun t => (t.got, t.todo)) = [([], [1]), ([], [])] := by decide

/-- the hypothesis of `av_fast_read_eq_locked_read` holds in that state (test `1 < 2`), and the theorem's
    conclusion is the concrete locked answer `[[0]]` -/
example : (Disc.ofFlag true).guard 1
    (run (Disc.ofFlag true) (initSys (freshObj (.classical [[0,1]])) [[1], [2]]) [1, 1, 1]).obj.cache.length = true ∧
    (getLevel (freshObj (.classical [[0,1]])) 1).toOption.map (·.2) = some [[0]] := by decide

/-! ## Completeness of the answers, deadlock freedom, progress under fairness

`C07L.account t` = levels already answered ++ level in flight ++ levels not yet asked for;
`C07L.mu fast s` = Σ over threads of (writes left in the critical section + release + read) + `2n+4` (`2n+5`
with the fast path: one more for the lock-free test) for every level `n` still to fetch (acquire, at most
`2n+1` writes, release, read); `C07L.AllDone s` = every thread is idle with nothing left to fetch.
`C07L.totalCost fast todos = Σ (2n+4)` resp. `Σ (2n+5)` over all requested levels. -/

/-- **bookkeeping, every discipline, every schedule, every moment**: what a thread has answered so far,
    followed by the level it is fetching right now (if any), followed by what it has not asked for yet, is
    exactly its list of requests — nothing is skipped, duplicated or reordered (no sequential theory needed) -/
theorem results_complete (d : Disc) (o : AvObj) (todos : List (List Nat)) (sched : List Nat) (tid : Nat) (t : Thread)
    (ht : (run d (initSys o todos) sched).threads[tid]? = some t) :
    todos[tid]? = some (t.got.map (·.1) ++ pending t ++ t.todo) := by
  have h := run_account d sched (initSys o todos)
  rw [init_account] at h
  have := congrArg (·[tid]?) h
  simp only [List.getElem?_map, ht, Option.map_some] at this
  exact this.symm

example : ((run (Disc.ofFlag false) (initSys (freshObj (.classical [[0,1]])) [[2, 1], [3]]) [0, 0, 1, 0, 0, 0, 0]).threads.map
    fun t => (t.got.map (·.1), pending t, t.todo)) = [([2], [], [1]), ([], [], [3])] := by decide

/-- … and in the middle of a critical section the level in flight is accounted for -/
example : ((run (Disc.ofFlag false) (initSys (freshObj (.classical [[0,1]])) [[2, 1], [3]]) [0, 0, 1, 0]).threads.map
    fun t => (t.got.map (·.1), pending t, t.todo)) = [([], [2], [1]), ([], [], [3])] := by decide

/-- … with the fast path: a thread committed to the locked path (thread 1, waiting) has its level in flight;
    thread 0 ends with level 1 answered lock-free after level 2 -/
example : ((run (Disc.ofFlag true) (initSys (freshObj (.classical [[0,1]])) [[2, 1], [3]])
    [0, 0, 0, 1, 0, 0, 0, 0, 0, 0]).threads.map
    fun t => (t.got.map (·.1), pending t, t.todo)) = [([2, 1], [], []), ([], [3], [])] := by decide

/-- **every query returns exactly what it would return when run alone (specification form)**: a thread that
    is finished has answered exactly its requested levels, in order, each with the specification's keys;
    and it has not failed -/
theorem finished_results {spec Good} (hs : SeqOK spec Good) {d : Disc} (hd : d.OK) (o : AvObj) (ho : Good o)
    (todos : List (List Nat)) (sched : List Nat) (tid : Nat) (t : Thread)
    (ht : (run d (initSys o todos) sched).threads[tid]? = some t) (hdn : Done t) :
    todos[tid]? = some (t.got.map (·.1)) ∧ ∀ g ∈ t.got, g.2.Perm (spec g.1) := by
  refine ⟨?_, (concurrent_correct hs hd o ho todos sched tid t ht).2⟩
  have := results_complete d o todos sched tid t ht
  simpa [pending, hdn.1, hdn.2] using this

/-- **… (run-alone form)**: the answers of a finished thread under any schedule and any sound discipline `d`,
    whatever the other threads ask, agree item by item (same level, same keys up to order) with the answers
    of a thread that runs the same requests alone on the same object under any sound discipline `d'` — in
    particular the plain locked one — and any schedule `sched'` that lets it finish -/
theorem same_as_alone {spec Good} (hs : SeqOK spec Good) {d d' : Disc} (hd : d.OK) (hd' : d'.OK) (o : AvObj) (ho : Good o)
    (todos : List (List Nat)) (sched : List Nat) (tid : Nat) (t : Thread) (td : List Nat)
    (htd : todos[tid]? = some td)
    (ht : (run d (initSys o todos) sched).threads[tid]? = some t) (hdn : Done t)
    (sched' : List Nat) (t' : Thread)
    (ht' : (run d' (initSys o [td]) sched').threads[0]? = some t') (hdn' : Done t') :
    t.got.map (·.1) = t'.got.map (·.1) ∧
    ∀ (i : Nat) (g g' : Nat × List NSeq), t.got[i]? = some g → t'.got[i]? = some g' → g.1 = g'.1 ∧ g.2.Perm g'.2 := by
  obtain ⟨h1, h2⟩ := finished_results hs hd o ho todos sched tid t ht hdn
  obtain ⟨h1', h2'⟩ := finished_results hs hd' o ho [td] sched' 0 t' ht' hdn'
  rw [htd] at h1
  simp only [List.getElem?_cons_zero] at h1'
  have hm : t.got.map (·.1) = t'.got.map (·.1) := (Option.some.inj h1).symm.trans (Option.some.inj h1')
  refine ⟨hm, ?_⟩
  intro i g g' hg hg'
  have hfst : g.1 = g'.1 := by
    have := congrArg (·[i]?) hm
    simpa [List.getElem?_map, hg, hg'] using this
  refine ⟨hfst, ?_⟩
  have p1 := h2 g (List.mem_iff_getElem?.mpr ⟨i, hg⟩)
  have p2 := h2' g' (List.mem_iff_getElem?.mpr ⟨i, hg'⟩)
  rw [hfst] at p1
  exact p1.trans p2.symm

/-- a state in which every thread is finished is final: no schedule changes it -/
theorem finished_is_final (d : Disc) (s : Sys) (hdn : AllDone s) (sched : List Nat) : run d s sched = s :=
  run_allDone hdn sched

/-- the remaining-work bound never increases and starts at `totalCost = Σ (2n+4)` (`Σ (2n+5)` with the
    fast path) -/
theorem remaining_work_le (d : Disc) (o : AvObj) (todos : List (List Nat)) (pre : List Nat) :
    mu d.fast (run d (initSys o todos) pre) ≤ totalCost d.fast todos := by
  have := run_mu_le d pre (initSys o todos)
  rwa [init_mu] at this

/-- the plain discipline keeps its bound `Σ (2n+4)`; the fast path costs one more step per request -/
example : totalCost false [[2], [3]] = 18 ∧ totalCost true [[2], [3]] = 20 := by decide

/-- **deadlock freedom**: after *any* schedule prefix there is a continuation — of at most
    `mu (current state)` ≤ `totalCost` steps — after which every thread is finished and the lock is free -/
theorem deadlock_free {spec Good} (hs : SeqOK spec Good) {d : Disc} (hd : d.OK) (o : AvObj) (ho : Good o)
    (todos : List (List Nat)) (pre : List Nat) :
    ∃ cont : List Nat, cont.length ≤ mu d.fast (run d (initSys o todos) pre) ∧
      cont.length ≤ totalCost d.fast todos ∧
      AllDone (run d (initSys o todos) (pre ++ cont)) ∧ (run d (initSys o todos) (pre ++ cont)).lock = none := by
  have hr : Reach spec Good (run d (initSys o todos) pre) := (Reach.init hs o ho todos).run hs hd pre
  obtain ⟨cont, hlen, hdone⟩ := exists_completion hs hd _ hr (Nat.le_refl _)
  have hsplit : run d (initSys o todos) (pre ++ cont) = run d (run d (initSys o todos) pre) cont := by
    simp [run, List.foldl_append]
  refine ⟨cont, hlen, Nat.le_trans hlen (remaining_work_le d o todos pre), ?_, ?_⟩
  · rw [hsplit]; exact hdone
  · rw [hsplit]; exact allDone_lock_free (hr.run hs hd cont).2 hdone

/-- **progress under fairness**: after any prefix, any continuation that can be cut into at least
    `mu (current state)` *fair rounds* — segments in which every thread id occurs at least once, in any order,
    with any repetitions — ends with every thread finished and the lock free -/
theorem fair_progress {spec Good} (hs : SeqOK spec Good) {d : Disc} (hd : d.OK) (o : AvObj) (ho : Good o)
    (todos : List (List Nat)) (pre : List Nat) (segs : List (List Nat))
    (hfair : ∀ seg ∈ segs, ∀ tid, tid < todos.length → tid ∈ seg)
    (hlen : mu d.fast (run d (initSys o todos) pre) ≤ segs.length) :
    AllDone (run d (initSys o todos) (pre ++ segs.flatten)) ∧
      (run d (initSys o todos) (pre ++ segs.flatten)).lock = none := by
  have hr : Reach spec Good (run d (initSys o todos) pre) := (Reach.init hs o ho todos).run hs hd pre
  have hsplit : run d (initSys o todos) (pre ++ segs.flatten) = run d (run d (initSys o todos) pre) segs.flatten := by
    simp [run, List.foldl_append]
  have hdone : AllDone (run d (run d (initSys o todos) pre) segs.flatten) := by
    apply fair_rounds_finish hs hd segs hr _ hlen
    intro seg hseg tid htid
    rw [run_length, init_length] at htid
    exact hfair seg hseg tid htid
  rw [hsplit]
  exact ⟨hdone, allDone_lock_free (hr.run hs hd segs.flatten).2 hdone⟩

/-- instance: round-robin repeated `R ≥ totalCost` times finishes everything, after any prefix -/
theorem round_robin_progress {spec Good} (hs : SeqOK spec Good) {d : Disc} (hd : d.OK) (o : AvObj) (ho : Good o)
    (todos : List (List Nat)) (pre : List Nat) (R : Nat) (hR : totalCost d.fast todos ≤ R) :
    AllDone (run d (initSys o todos) (pre ++ (List.replicate R (List.range todos.length)).flatten)) := by
  refine (fair_progress hs hd o ho todos pre (List.replicate R (List.range todos.length)) ?_ ?_).1
  · intro seg hseg tid htid
    rw [(List.mem_replicate.mp hseg).2]
    exact List.mem_range.mpr htid
  · rw [List.length_replicate]
    exact Nat.le_trans (remaining_work_le d o todos pre) hR

/-- **total correctness under fairness**: after any prefix followed by enough fair rounds, *every* thread
    has terminated without error and holds exactly the specification's answer to each of its requests, in
    order -/
theorem fair_run_correct {spec Good} (hs : SeqOK spec Good) {d : Disc} (hd : d.OK) (o : AvObj) (ho : Good o)
    (todos : List (List Nat)) (pre : List Nat) (segs : List (List Nat))
    (hfair : ∀ seg ∈ segs, ∀ tid, tid < todos.length → tid ∈ seg)
    (hlen : totalCost d.fast todos ≤ segs.length) (tid : Nat) (td : List Nat) (htd : todos[tid]? = some td) :
    ∃ t, (run d (initSys o todos) (pre ++ segs.flatten)).threads[tid]? = some t ∧ Done t ∧
      t.got.map (·.1) = td ∧ ∀ g ∈ t.got, g.2.Perm (spec g.1) := by
  have hdone := (fair_progress hs hd o ho todos pre segs hfair
    (Nat.le_trans (remaining_work_le d o todos pre) hlen)).1
  have hlt : tid < (run d (initSys o todos) (pre ++ segs.flatten)).threads.length := by
    rw [run_length, init_length]; exact lt_of_getElem? htd
  refine ⟨_, List.getElem?_eq_getElem hlt, hdone _ (List.getElem_mem hlt), ?_⟩
  obtain ⟨h1, h2⟩ := finished_results hs hd o ho todos _ tid _ (List.getElem?_eq_getElem hlt)
    (hdone _ (List.getElem_mem hlt))
  rw [htd] at h1
  exact ⟨(Option.some.inj h1).symm, h2⟩

/-! ### … for the real `Av` model (sequential theory from C02) -/

/-- a finished thread on an `Av` object holds exactly the specification's levels it asked for, in order -/
theorem av_finished_results {d : Disc} (hd : d.OK) (o : AvObj) (ho : C02L.ObjInv o) (todos : List (List Nat))
    (sched : List Nat)
    (tid : Nat) (t : Thread) (ht : (run d (initSys o todos) sched).threads[tid]? = some t) (hdn : Done t) :
    todos[tid]? = some (t.got.map (·.1)) ∧ ∀ g ∈ t.got, g.2.Perm (C02L.specLevel o.basis g.1) :=
  finished_results (C02L.seqOK o.basis) hd o ⟨ho, rfl⟩ todos sched tid t ht hdn

/-- concurrent answers on an `Av` object (any sound discipline) = answers of the same requests run alone
    (any sound discipline, e.g. the plain locked one) -/
theorem av_same_as_alone {d d' : Disc} (hd : d.OK) (hd' : d'.OK) (o : AvObj) (ho : C02L.ObjInv o)
    (todos : List (List Nat)) (sched : List Nat)
    (tid : Nat) (t : Thread) (td : List Nat) (htd : todos[tid]? = some td)
    (ht : (run d (initSys o todos) sched).threads[tid]? = some t) (hdn : Done t)
    (sched' : List Nat) (t' : Thread)
    (ht' : (run d' (initSys o [td]) sched').threads[0]? = some t') (hdn' : Done t') :
    t.got.map (·.1) = t'.got.map (·.1) ∧
    ∀ (i : Nat) (g g' : Nat × List NSeq), t.got[i]? = some g → t'.got[i]? = some g' → g.1 = g'.1 ∧ g.2.Perm g'.2 :=
  same_as_alone (C02L.seqOK o.basis) hd hd' o ⟨ho, rfl⟩ todos sched tid t td htd ht hdn sched' t' ht' hdn'

/-- threads sharing an `Av` object can never deadlock: from every reachable state at most `totalCost` further
    steps finish everybody -/
theorem av_deadlock_free {d : Disc} (hd : d.OK) (o : AvObj) (ho : C02L.ObjInv o) (todos : List (List Nat))
    (pre : List Nat) :
    ∃ cont : List Nat, cont.length ≤ mu d.fast (run d (initSys o todos) pre) ∧
      cont.length ≤ totalCost d.fast todos ∧
      AllDone (run d (initSys o todos) (pre ++ cont)) ∧ (run d (initSys o todos) (pre ++ cont)).lock = none :=
  deadlock_free (C02L.seqOK o.basis) hd o ⟨ho, rfl⟩ todos pre

/-- **C07, total form, for `Av`**: any basis `Av` accepts, any sound discipline, any number of threads, any
    requests, any schedule prefix followed by `totalCost` fair rounds: every thread has terminated and holds,
    for each of its requests in order, the specification's level -/
theorem av_fair_run_correct {d : Disc} (hd : d.OK) (B : BasisV) (hB : C02L.ValidBasisV B) (todos : List (List Nat))
    (pre : List Nat) (segs : List (List Nat))
    (hfair : ∀ seg ∈ segs, ∀ tid, tid < todos.length → tid ∈ seg)
    (hlen : totalCost d.fast todos ≤ segs.length) (tid : Nat) (td : List Nat) (htd : todos[tid]? = some td) :
    ∃ t, (run d (initSys (freshObj B) todos) (pre ++ segs.flatten)).threads[tid]? = some t ∧ Done t ∧
      t.got.map (·.1) = td ∧ ∀ g ∈ t.got, g.2.Perm (C02L.specLevel B g.1) :=
  fair_run_correct (C02L.seqOK B) hd (freshObj B) ⟨C02L.ObjInv.fresh hB, C02L.freshObj_basis B⟩ todos pre segs
    hfair hlen tid td htd

/-- the same from any sequentially reachable (invariant-satisfying) state of the class -/
theorem av_fair_run_correct_from {d : Disc} (hd : d.OK) (o : AvObj) (ho : C02L.ObjInv o) (todos : List (List Nat))
    (pre : List Nat) (segs : List (List Nat))
    (hfair : ∀ seg ∈ segs, ∀ tid, tid < todos.length → tid ∈ seg)
    (hlen : totalCost d.fast todos ≤ segs.length) (tid : Nat) (td : List Nat) (htd : todos[tid]? = some td) :
    ∃ t, (run d (initSys o todos) (pre ++ segs.flatten)).threads[tid]? = some t ∧ Done t ∧
      t.got.map (·.1) = td ∧ ∀ g ∈ t.got, g.2.Perm (C02L.specLevel o.basis g.1) :=
  fair_run_correct (C02L.seqOK o.basis) hd o ⟨ho, rfl⟩ todos pre segs hfair hlen tid td htd

/-- **C07, total form, for the source as it is** (`sourceDisc`) -/
theorem source_fair_run_correct (B : BasisV) (hB : C02L.ValidBasisV B) (todos : List (List Nat))
    (pre : List Nat) (segs : List (List Nat))
    (hfair : ∀ seg ∈ segs, ∀ tid, tid < todos.length → tid ∈ seg)
    (hlen : totalCost sourceDisc.fast todos ≤ segs.length) (tid : Nat) (td : List Nat) (htd : todos[tid]? = some td) :
    ∃ t, (run sourceDisc (initSys (freshObj B) todos) (pre ++ segs.flatten)).threads[tid]? = some t ∧ Done t ∧
      t.got.map (·.1) = td ∧ ∀ g ∈ t.got, g.2.Perm (C02L.specLevel B g.1) :=
  av_fair_run_correct lock_discipline_matches_source.2.2 B hB todos pre segs hfair hlen tid td htd

/-- non-vacuity: the workload `[[2],[3]]` costs 18 (20 with the fast path), that many rounds `[1,0]` are fair,
    and the theorem yields the finished thread 1 after an arbitrary prefix -/
example : ∃ t, (run (Disc.ofFlag false) (initSys (freshObj (.classical [[0,1]])) [[2], [3]])
      ([1, 1, 0] ++ (List.replicate 18 [1, 0]).flatten)).threads[1]? = some t ∧ Done t ∧
      t.got.map (·.1) = [3] ∧ ∀ g ∈ t.got, g.2.Perm (C02L.specLevel (.classical [[0,1]]) g.1) :=
  av_fair_run_correct (Disc.ofFlag_ok false) (.classical [[0,1]])
    (⟨by decide, by decide, by decide⟩ : C02L.ValidBasis [[0,1]]) [[2], [3]] [1, 1, 0] (List.replicate 18 [1, 0])
    (by decide) (by decide) 1 [3] rfl

example : ∃ t, (run (Disc.ofFlag true) (initSys (freshObj (.classical [[0,1]])) [[2], [3]])
      ([1, 1, 0] ++ (List.replicate 20 [1, 0]).flatten)).threads[1]? = some t ∧ Done t ∧
      t.got.map (·.1) = [3] ∧ ∀ g ∈ t.got, g.2.Perm (C02L.specLevel (.classical [[0,1]]) g.1) :=
  av_fair_run_correct (Disc.ofFlag_ok true) (.classical [[0,1]])
    (⟨by decide, by decide, by decide⟩ : C02L.ValidBasis [[0,1]]) [[2], [3]] [1, 1, 0] (List.replicate 20 [1, 0])
    (by decide) (by decide) 1 [3] rfl

/-- the bound is about *rounds*, the machine really needs several: one round-robin pass does not finish -/
example : ((run (Disc.ofFlag false) (initSys (freshObj (.classical [[0,1]])) [[2], [3]]) [0, 1]).threads.map (·.todo)) = [[], [3]] := by
  decide

example : ((run (Disc.ofFlag true) (initSys (freshObj (.classical [[0,1]])) [[2], [3]]) [0, 1]).threads.map
    fun t => (pending t, t.got)) = [([2], []), ([3], [])] := by decide

/-- concrete run of the fair schedule: both threads end with the right levels, under both disciplines -/
example : ((run (Disc.ofFlag false) (initSys (freshObj (.classical [[0,1]])) [[2], [3]])
    (List.replicate 18 [1, 0]).flatten).threads.map (·.got)) = [[(2, [[1,0]])], [(3, [[2,1,0]])]] := by decide

example : ((run (Disc.ofFlag true) (initSys (freshObj (.classical [[0,1]])) [[2], [3]])
    (List.replicate 20 [1, 0]).flatten).threads.map (·.got)) = [[(2, [[1,0]])], [(3, [[2,1,0]])]] := by decide

/-! ## The driver's event replay is a run of the machine

`Driver.C07.replay` advances the model through the lock / growth / completion events the harness observed
on the real threads.  Whatever the events are, the result is `run d s sched` for some schedule `sched`, so
every theorem above applies to the states the correspondence check compares with the implementation. -/

theorem advance_is_run (d : Disc) (stop : Sys → Bool) : ∀ (fuel : Nat) (s : Sys) (t : Nat),
    ∃ k, Driver.C07.advance d stop fuel s t = run d s (List.replicate k t) := by
  intro fuel
  induction fuel with
  | zero => intro s t; exact ⟨0, rfl⟩
  | succ k ih =>
    intro s t
    unfold Driver.C07.advance
    by_cases h : stop s = true
    · exact ⟨0, by simp [h, run]⟩
    · obtain ⟨k', hk'⟩ := ih (step d s t) t
      exact ⟨k' + 1, by simp [h, hk', run, List.replicate_succ]⟩

theorem replayEv_is_run (d : Disc) (s : Sys) (e : Driver.C07.Ev) :
    ∃ sched, Driver.C07.replayEv d s e = run d s sched := by
  cases e with
  | enter t =>
    unfold Driver.C07.replayEv
    by_cases h : d.fast = true
    · obtain ⟨k, hk⟩ := advance_is_run d (fun s' => Driver.C07.isCommitted s' t || Driver.C07.isDone s' t)
        Driver.C07.fuel s t
      exact ⟨_, by simpa [h] using hk⟩
    · exact ⟨[], by simp [h, run]⟩
  | acq t =>
    obtain ⟨k, hk⟩ := advance_is_run d (fun s' => Driver.C07.isHolding s' t || Driver.C07.isDone s' t)
      Driver.C07.fuel s t
    exact ⟨_, hk⟩
  | grow t =>
    unfold Driver.C07.replayEv
    by_cases h : Driver.C07.isHolding s t = true
    · obtain ⟨k, hk⟩ := advance_is_run d
        (fun s' => !Driver.C07.isHolding s' t || s'.obj.cache.length > s.obj.cache.length) Driver.C07.fuel s t
      exact ⟨_, by simpa [h] using hk⟩
    · exact ⟨[], by simp [h, run]⟩
  | rel t =>
    obtain ⟨k, hk⟩ := advance_is_run d (fun s' => !Driver.C07.isHolding s' t) Driver.C07.fuel s t
    exact ⟨_, hk⟩
  | done t =>
    obtain ⟨k, hk⟩ := advance_is_run d (fun s' => Driver.C07.isDone s' t) Driver.C07.fuel s t
    exact ⟨_, hk⟩

/-- **every replay of observed events is a schedule of the machine** -/
theorem replay_is_run (d : Disc) (evs : List Driver.C07.Ev) : ∀ (s : Sys),
    ∃ sched, Driver.C07.replay d s evs = run d s sched := by
  induction evs with
  | nil => intro s; exact ⟨[], rfl⟩
  | cons e es ih =>
    intro s
    obtain ⟨s1, h1⟩ := replayEv_is_run d s e
    obtain ⟨s2, h2⟩ := ih (Driver.C07.replayEv d s e)
    refine ⟨s1 ++ s2, ?_⟩
    show Driver.C07.replay d (Driver.C07.replayEv d s e) es = _
    rw [h2, h1]
    simp [run, List.foldl_append]

/-- hence the state the driver's `conc` operation reports for the source's discipline — observed events
    replayed, then `flush` (any schedule) — satisfies C07: no thread failed, every level read is the
    specification's -/
theorem driver_replay_correct (B : BasisV) (hB : C02L.ValidBasisV B) (todos : List (List Nat))
    (evs : List Driver.C07.Ev) (flush : List Nat) (tid : Nat) (t : Thread)
    (ht : (run sourceDisc (Driver.C07.replay sourceDisc (initSys (freshObj B) todos) evs) flush).threads[tid]? = some t) :
    (∀ e, t.phase ≠ .failed e) ∧ ∀ g ∈ t.got, g.2.Perm (C02L.specLevel B g.1) := by
  obtain ⟨sched, hs⟩ := replay_is_run sourceDisc evs (initSys (freshObj B) todos)
  rw [hs] at ht
  have : run sourceDisc (run sourceDisc (initSys (freshObj B) todos) sched) flush =
      run sourceDisc (initSys (freshObj B) todos) (sched ++ flush) := by simp [run, List.foldl_append]
  rw [this] at ht
  exact source_concurrent_correct B hB todos (sched ++ flush) tid t ht

/-- non-vacuity: replaying the events of a run in which thread 0's query `[1]` never takes the lock
    (it reads level 1 while thread 1 is still inside its critical section) -/
example : ((Driver.C07.replay (Disc.ofFlag true) (initSys (freshObj (.classical [[0,1]])) [[1], [2]])
    [.enter 1, .acq 1, .grow 1, .done 0, .grow 1, .rel 1, .done 1]).threads.map (·.got)) =
    [[(1, [[0]])], [(2, [[1,0]])]] := by decide

end C07
