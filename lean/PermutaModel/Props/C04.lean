import PermutaModel.Lemmas.C04MeshFinal
import PermutaModel.Lemmas.C04MeshSyms
import PermutaModel.Lemmas.C04Writes
import PermutaModel.Lemmas.C04Cli
import PermutaModel.Props.C01

/-!
# C04 — the eight symmetries act consistently on permutations, patterns and containment

Property theorems only (helpers live in `Lemmas/C04*.lean`).  The maps are the executable
definitions of `Model/Perm.lean` / `Model/C04L.lean` that the driver runs (`Model.inverse`, `reverse`,
`complement`, `reverseComplement`, `flipAntidiagonal`, `rotate (t : Int)`, `allSyms`,
`allSymmetrySets`, `lexMin`, …); `D8` (Spec/C04L.lean) is the dihedral group of order 8 in normal
form `reverse^r ∘ complement^c ∘ inverse^i` with its multiplication table; `Contains` is the
property's wording of classical containment (Spec/Basic.lean).
-/
open Model C04L

namespace C04

/-! ## A0 the maps are the isometries of the square (geometric meaning on the graph `{(i, p[i])}`) -/

/-- reverse mirrors the graph in the vertical axis: `(i, v) ↦ (n-1-i, v)` -/
theorem graph_reverse (p : NSeq) {i : Nat} (hi : i < p.length) :
    (reverse p).getD (p.length - 1 - i) 0 = p.getD i 0 := by
  rw [getD_reverse p (by omega)]; congr 1; omega

/-- complement mirrors the graph in the horizontal axis: `(i, v) ↦ (i, n-1-v)` -/
theorem graph_complement (p : NSeq) {i : Nat} (hi : i < p.length) :
    (complement p).getD i 0 = p.length - 1 - p.getD i 0 := getD_complement p hi

/-- inverse mirrors the graph in the diagonal: `(i, v) ↦ (v, i)` -/
theorem graph_inverse {p : NSeq} (hp : IsPerm p) {i : Nat} (hi : i < p.length) :
    (inverse p).getD (p.getD i 0) 0 = i := by
  rw [getD_inverse p (hp.getD_lt hi), hp.idxOf_getD hi]

/-- `rotate 1` is the clockwise quarter turn: `(i, v) ↦ (v, n-1-i)` -/
theorem graph_rotate_one {p : NSeq} (hp : IsPerm p) {i : Nat} (hi : i < p.length) :
    (rotate p 1).getD (p.getD i 0) 0 = p.length - 1 - i := by
  rw [rot1_eq, getD_complement _ (by simpa using hp.getD_lt hi), graph_inverse hp hi, length_inverse]

/-- `rotate 3` (= `rotate (-1)`) is the counter-clockwise quarter turn: `(i, v) ↦ (n-1-v, i)` -/
theorem graph_rotate_three {p : NSeq} (hp : IsPerm p) {i : Nat} (hi : i < p.length) :
    (rotate p 3).getD (p.length - 1 - p.getD i 0) 0 = i := by
  have : rotate p 3 = reverse (inverse p) := by rw [← rotate3_eq]; rfl
  have hv := hp.getD_lt hi
  rw [this, getD_reverse _ (by simp; omega), length_inverse]
  have e : p.length - 1 - (p.length - 1 - p.getD i 0) = p.getD i 0 := by omega
  rw [e, graph_inverse hp hi]

/-- `rotate 2` is the half turn: `(i, v) ↦ (n-1-i, n-1-v)` -/
theorem graph_rotate_two (p : NSeq) {i : Nat} (hi : i < p.length) :
    (rotate p 2).getD (p.length - 1 - i) 0 = p.length - 1 - p.getD i 0 := by
  have : rotate p 2 = reverse (complement p) := by
    rw [← reverseComplement_eq_reverse_complement]; rfl
  rw [this]
  have := graph_reverse (complement p) (i := i) (by simpa using hi)
  rw [length_complement] at this
  rw [this, getD_complement p hi]

/-- the antidiagonal flip: `(i, v) ↦ (n-1-v, n-1-i)` -/
theorem graph_flipAntidiagonal {p : NSeq} (hp : IsPerm p) {i : Nat} (hi : i < p.length) :
    (flipAntidiagonal p).getD (p.length - 1 - p.getD i 0) 0 = p.length - 1 - i := by
  have hv := hp.getD_lt hi
  rw [flipAntidiagonal_eq, reverseComplement_eq_reverse_complement,
    getD_reverse _ (by simp; omega), length_complement, length_inverse]
  have e : p.length - 1 - (p.length - 1 - p.getD i 0) = p.getD i 0 := by omega
  rw [e, getD_complement _ (by simpa using hv), graph_inverse hp hi, length_inverse]

/-! ## A1 group relations -/

theorem inverse_inverse {p : NSeq} (hp : IsPerm p) : inverse (inverse p) = p := C04L.inverse_inverse hp
theorem reverse_reverse (p : NSeq) : reverse (reverse p) = p := C04L.reverse_reverse p
theorem complement_complement {p : NSeq} (hp : IsPerm p) : complement (complement p) = p :=
  C04L.complement_complement hp

/-- `reverse ∘ complement = complement ∘ reverse = rotate 2 = reverse_complement` (every tuple) -/
theorem reverse_complement_eq_rotate_two (p : NSeq) :
    reverse (complement p) = rotate p 2 ∧ complement (reverse p) = rotate p 2 ∧
      reverseComplement p = rotate p 2 := by
  refine ⟨?_, ?_, rfl⟩
  · rw [← reverseComplement_eq_reverse_complement]; rfl
  · rw [← reverseComplement_eq_complement_reverse]; rfl

/-- `rotate 1 = complement ∘ inverse` (perm.py:626 `result[val] = n - idx - 1`), every tuple -/
theorem rotate_one_eq (p : NSeq) : rotate p 1 = complement (inverse p) := rot1_eq

/-- `rotate 3 = reverse ∘ inverse` (perm.py:629 `result[n - val - 1] = idx`), every tuple -/
theorem rotate_three_eq (p : NSeq) : rotate p 3 = reverse (inverse p) := by
  rw [← rotate3_eq]; rfl

/-- `flip_antidiagonal = rotate 2 ∘ inverse`, every tuple -/
theorem flipAntidiagonal_eq_rotate_two_inverse (p : NSeq) :
    flipAntidiagonal p = rotate (inverse p) 2 := by
  rw [flipAntidiagonal_eq]; rfl

/-- `inverse ∘ reverse = complement ∘ inverse` and `inverse ∘ complement = reverse ∘ inverse` -/
theorem inverse_reverse_complement {p : NSeq} (hp : IsPerm p) :
    inverse (reverse p) = complement (inverse p) ∧ inverse (complement p) = reverse (inverse p) :=
  ⟨inverse_reverse hp, inverse_complement hp⟩

/-- rotation counts add, for all integers (negative = counter-clockwise) -/
theorem rotate_add {p : NSeq} (hp : IsPerm p) (s t : Int) :
    rotate p (s + t) = rotate (rotate p t) s := C04L.rotate_add hp s t

/-- only the count modulo 4 matters -/
theorem rotate_mod (p : NSeq) (t : Int) : rotate p t = rotate p (t % 4) := by
  unfold rotate; rw [Int.emod_emod]

theorem rotate_four {p : NSeq} (t : Int) : rotate p (t + 4) = rotate p t := by
  unfold rotate; rw [Int.add_emod_right]

theorem rotate_zero (p : NSeq) : rotate p 0 = p := rfl

/-- a negative count undoes the positive one -/
theorem rotate_neg {p : NSeq} (hp : IsPerm p) (t : Int) : rotate (rotate p t) (-t) = p := by
  rw [← C04L.rotate_add hp (-t) t]
  have : -t + t = 0 := by omega
  rw [this]; rfl

/-- `inverse ∘ rotate 1 = rotate 3 ∘ inverse` (a reflection conjugates the quarter turn to its inverse) -/
theorem inverse_rotate_one {p : NSeq} (hp : IsPerm p) : inverse (rotate p 1) = rotate (inverse p) 3 := by
  rw [inv_rot1_eq hp, rotate_three_eq, C04L.inverse_inverse hp]

/-- every symmetry maps permutations to permutations -/
theorem isPerm_preserved {p : NSeq} (hp : IsPerm p) (t : Int) :
    IsPerm (inverse p) ∧ IsPerm (reverse p) ∧ IsPerm (complement p) ∧ IsPerm (reverseComplement p) ∧
      IsPerm (flipAntidiagonal p) ∧ IsPerm (rotate p t) :=
  ⟨isPerm_inverse hp, isPerm_reverse hp, isPerm_complement hp, isPerm_reverseComplement hp,
    isPerm_flipAntidiagonal hp, isPerm_rotate hp t⟩

/-- the eight code-level maps are exactly the eight elements of `D8` acting -/
theorem named_eq_act (p : NSeq) (t : Int) :
    p = D8.act ⟨false, false, false⟩ p ∧ reverse p = D8.act ⟨true, false, false⟩ p ∧
    complement p = D8.act ⟨false, true, false⟩ p ∧ inverse p = D8.act ⟨false, false, true⟩ p ∧
    reverseComplement p = D8.act ⟨true, true, false⟩ p ∧
    flipAntidiagonal p = D8.act ⟨true, true, true⟩ p ∧ rotate p t = (rotD8 t).act p := by
  refine ⟨rfl, rfl, rfl, rfl, ?_, ?_, rotate_eq_act p t⟩
  · rw [reverseComplement_eq_reverse_complement]; rfl
  · rw [flipAntidiagonal_eq, reverseComplement_eq_reverse_complement]; rfl

/-- **the action is a group action**: composing two symmetries is the symmetry given by the
    multiplication table of the dihedral group (all 64 products) -/
theorem act_mul {p : NSeq} (hp : IsPerm p) (g h : D8) : g.act (h.act p) = (g.mul h).act p :=
  C04L.act_mul hp g h

/-- inverses in the group undo the action -/
theorem act_inv {p : NSeq} (hp : IsPerm p) (g : D8) : g.inv.act (g.act p) = p := by
  rw [C04L.act_mul hp, inv_mul]; rfl

theorem isPerm_act {p : NSeq} (hp : IsPerm p) (g : D8) : IsPerm (g.act p) := C04L.isPerm_act hp g

/-! ## A2 equivariance of classical containment -/

theorem contains_reverse (σ π : NSeq) : Contains (reverse σ) (reverse π) ↔ Contains σ π := by
  constructor
  · intro h
    have := contains_reverse_of h
    rwa [C04L.reverse_reverse, C04L.reverse_reverse] at this
  · exact contains_reverse_of

theorem contains_complement {σ π : NSeq} (hπ : IsPerm π) (hσ : IsPerm σ) :
    Contains (complement σ) (complement π) ↔ Contains σ π := by
  constructor
  · intro h
    have := contains_complement_of (isPerm_complement hπ) (isPerm_complement hσ) h
    rwa [C04L.complement_complement hσ, C04L.complement_complement hπ] at this
  · exact contains_complement_of hπ hσ

theorem contains_inverse {σ π : NSeq} (hπ : IsPerm π) (hσ : IsPerm σ) :
    Contains (inverse σ) (inverse π) ↔ Contains σ π := by
  constructor
  · intro h
    have := contains_inverse_of (isPerm_inverse hπ) (isPerm_inverse hσ) h
    rwa [C04L.inverse_inverse hσ, C04L.inverse_inverse hπ] at this
  · exact contains_inverse_of hπ hσ

/-- **equivariance under all eight symmetries** -/
theorem contains_act {σ π : NSeq} (hπ : IsPerm π) (hσ : IsPerm σ) (g : D8) :
    Contains (g.act σ) (g.act π) ↔ Contains σ π := by
  constructor
  · intro h
    have := contains_act_of (C04L.isPerm_act hπ g) (C04L.isPerm_act hσ g) g.inv h
    rwa [C04L.act_mul hσ, C04L.act_mul hπ, inv_mul, act_one, act_one] at this
  · exact contains_act_of hπ hσ g

/-- equivariance under every rotation count, the half turn and the antidiagonal flip -/
theorem contains_rotate {σ π : NSeq} (hπ : IsPerm π) (hσ : IsPerm σ) (t : Int) :
    Contains (rotate σ t) (rotate π t) ↔ Contains σ π := by
  rw [rotate_eq_act, rotate_eq_act]; exact contains_act hπ hσ _

theorem contains_reverseComplement {σ π : NSeq} (hπ : IsPerm π) (hσ : IsPerm σ) :
    Contains (reverseComplement σ) (reverseComplement π) ↔ Contains σ π :=
  contains_rotate hπ hσ 2

theorem contains_flipAntidiagonal {σ π : NSeq} (hπ : IsPerm π) (hσ : IsPerm σ) :
    Contains (flipAntidiagonal σ) (flipAntidiagonal π) ↔ Contains σ π := by
  rw [(named_eq_act σ 0).2.2.2.2.2.1, (named_eq_act π 0).2.2.2.2.2.1]; exact contains_act hπ hσ _

/-- the same for the executable containment test of the code (`Perm.contains`, via C01) -/
theorem containsOne_act {σ π : NSeq} (hπ : IsPerm π) (hσ : IsPerm σ) (g : D8) :
    Model.containsOne (g.act σ) (g.act π) = Model.containsOne σ π := by
  rw [Bool.eq_iff_iff, C01.containsOne_iff _ _ (C04L.isPerm_act hπ g) (C04L.isPerm_act hσ g),
    C01.containsOne_iff _ _ hπ hσ]
  exact contains_act hπ hσ g

theorem containsOne_rotate {σ π : NSeq} (hπ : IsPerm π) (hσ : IsPerm σ) (t : Int) :
    Model.containsOne (rotate σ t) (rotate π t) = Model.containsOne σ π := by
  rw [rotate_eq_act, rotate_eq_act]; exact containsOne_act hπ hσ _

/-- avoidance of a whole basis is equivariant as well -/
theorem avoidsAll_act {σ : NSeq} {ps : List NSeq} (hσ : IsPerm σ) (hps : ∀ p ∈ ps, IsPerm p) (g : D8) :
    Model.avoidsAll (g.act σ) (ps.map g.act) = Model.avoidsAll σ ps := by
  unfold Model.avoidsAll
  rw [Bool.eq_iff_iff, List.all_eq_true, List.all_eq_true]
  constructor
  · intro h p hp
    have := h (g.act p) (List.mem_map_of_mem hp)
    rwa [containsOne_act (hps p hp) hσ] at this
  · intro h q hq
    obtain ⟨p, hp, rfl⟩ := List.mem_map.mp hq
    rw [containsOne_act (hps p hp) hσ]; exact h p hp

/-! ## A3 orbits -/

/-- `Perm.all_syms` lists exactly the orbit `{g · p | g ∈ D8}` -/
theorem mem_allSyms {p : NSeq} (hp : IsPerm p) (q : NSeq) : q ∈ allSyms p ↔ ∃ g : D8, q = g.act p :=
  C04L.mem_allSyms hp q

/-- the eight candidates in the code's order are the eight group elements applied to `p` -/
theorem allSymsList_eq {p : NSeq} (hp : IsPerm p) : allSymsList p = codeOrder.map fun g => g.act p :=
  C04L.allSymsList_eq hp

/-- the listing is duplicate-free and the same for every member of the orbit -/
theorem allSyms_nodup (p : NSeq) : (allSyms p).Nodup := by
  unfold allSyms sortPerms
  exact (List.mergeSort_perm _ _).nodup_iff.mpr (nodup_eraseDups _)

theorem allSyms_act {p : NSeq} (hp : IsPerm p) (g : D8) : allSyms (g.act p) = allSyms p :=
  C04L.allSyms_act hp g

/-- `all_symmetry_sets` lists exactly `{sorted (g · S) | g ∈ D8}` -/
theorem mem_allSymmetrySets {s : List NSeq} (hs : ∀ p ∈ s, IsPerm p) (x : List NSeq) :
    x ∈ allSymmetrySets s ↔ ∃ g : D8, x = sortPerms (s.map g.act) := by
  unfold allSymmetrySets
  rw [List.mem_mergeSort, List.mem_eraseDups, mem_allSymmetrySetsList hs]

/-- … and is the same for every member of the orbit of the set -/
theorem allSymmetrySets_act {s : List NSeq} (hs : ∀ p ∈ s, IsPerm p) (g : D8) :
    allSymmetrySets (s.map g.act) = allSymmetrySets s := by
  unfold allSymmetrySets
  rw [tupleLe_def]
  exact canon_congr tupleLt_strictTotal (mem_allSymmetrySetsList_act hs g)

/-- … and does not depend on the order in which the set is handed over -/
theorem allSymmetrySets_perm {s s' : List NSeq} (h : s.Perm s') :
    allSymmetrySets s = allSymmetrySets s' := by
  unfold allSymmetrySets; rw [allSymmetrySetsList_perm h]

/-! ## A4 `lex_min` -/

/-- `lex_min` returns a member of the orbit that no other member is smaller than -/
theorem lexMin_spec {s : List NSeq} (hs : ∀ p ∈ s, IsPerm p) :
    (∃ g : D8, lexMin s = sortPerms (s.map g.act)) ∧
      ∀ g : D8, tupleLt (sortPerms (s.map g.act)) (lexMin s) = false := by
  obtain ⟨m, hm⟩ : ∃ m, minBy tupleLt (allSymmetrySetsList s) = some m := ⟨_, rfl⟩
  obtain ⟨h1, h2⟩ := minBy_spec tupleLt_strictTotal hm
  have hl : lexMin s = m := by unfold lexMin; rw [hm]; rfl
  rw [hl]
  exact ⟨(mem_allSymmetrySetsList hs m).mp h1,
    fun g => h2 _ ((mem_allSymmetrySetsList hs _).mpr ⟨g, rfl⟩)⟩

/-- **`lex_min` is the same for every member of the orbit of the basis** -/
theorem lexMin_act {s : List NSeq} (hs : ∀ p ∈ s, IsPerm p) (g : D8) :
    lexMin (s.map g.act) = lexMin s := by
  unfold lexMin
  rw [minBy_congr tupleLt_strictTotal (mem_allSymmetrySetsList_act hs g)]

/-- in particular under the named maps and every rotation count -/
theorem lexMin_named {s : List NSeq} (hs : ∀ p ∈ s, IsPerm p) (t : Int) :
    lexMin (s.map reverse) = lexMin s ∧ lexMin (s.map complement) = lexMin s ∧
    lexMin (s.map inverse) = lexMin s ∧ lexMin (s.map flipAntidiagonal) = lexMin s ∧
    lexMin (s.map fun p => rotate p t) = lexMin s := by
  refine ⟨lexMin_act hs ⟨true, false, false⟩, lexMin_act hs ⟨false, true, false⟩,
    lexMin_act hs ⟨false, false, true⟩, ?_, ?_⟩
  · have : s.map flipAntidiagonal = s.map (D8.act ⟨true, true, true⟩) :=
      List.map_congr_left fun p _ => (named_eq_act p 0).2.2.2.2.2.1
    rw [this]; exact lexMin_act hs _
  · have : (s.map fun p => rotate p t) = s.map (rotD8 t).act :=
      List.map_congr_left fun p _ => rotate_eq_act p t
    rw [this]; exact lexMin_act hs _

/-- `lex_min` does not depend on the order in which the basis is handed over -/
theorem lexMin_perm {s s' : List NSeq} (h : s.Perm s') : lexMin s = lexMin s' := by
  unfold lexMin; rw [allSymmetrySetsList_perm h]

/-- B1 (definitional in the model): the command body prints `lex_min` of the basis parsed from the
    argument string, the patterns rendered by `Perm.__str__` and joined with `_` -/
theorem cliLexmin_eq (a : String) :
    cliLexmin a = "_".intercalate ((lexMin (symBasisFromString a)).map permStr) := rfl

/-- every pattern parsed from the argument string (digit runs standardised by `Perm.to_standard`,
    pruned by `Basis`) is a permutation - so the theorems above apply to whatever the user types -/
theorem cli_basis_isPerm (a : String) : ∀ p ∈ symBasisFromString a, IsPerm p :=
  fun _ hp => isPerm_of_mem_symBasisFromString hp

/-- B1: what `permtools lexmin` prints is the same for two argument strings whose parsed bases
    lie in the same orbit (listed in any order) -/
theorem cliLexmin_orbit {a b : String} (g : D8)
    (h : (symBasisFromString b).Perm ((symBasisFromString a).map g.act)) :
    cliLexmin b = cliLexmin a := by
  unfold cliLexmin
  rw [lexMin_perm h, lexMin_act (cli_basis_isPerm a) g]

/-! ## A5 the loops of perm.py in array-write form compute the closed forms -/

/-- `inverse`, `rotate`, `flip_antidiagonal` as the code writes them (`result[...] = ...` into
    `[0] * n`, Python index semantics) never raise on a permutation and return the closed forms the
    theorems above are stated about; this is what the driver executes for these operations -/
theorem writes_eq {p : NSeq} (hp : IsPerm p) (t : Int) :
    inverseW p = .ok (inverse p) ∧ flipAntidiagonalW p = .ok (flipAntidiagonal p) ∧
      rotateW p t = .ok (rotate p t) :=
  ⟨inverseW_eq hp, flipAntidiagonalW_eq hp, rotateW_eq hp t⟩

/-! ## M1 mesh patterns: group relations, cell maps included -/

/-- well-formedness (pattern is a permutation, cells inside `[0, n]²`) is what the constructor's
    `assert` checks, and every symmetry preserves it -/
theorem meshOK_preserved {m : Mesh} (h : MeshOK m) (t : Int) :
    MeshOK (meshReverse m) ∧ MeshOK (meshComplement m) ∧ MeshOK (meshInverse m) ∧
      MeshOK (meshRotate m t) := by
  refine ⟨meshOK_reverse h, meshOK_complement h, meshOK_inverse h, ?_⟩
  rw [meshRotate_eq_act]; exact meshOK_act h _

theorem meshValid_iff_cells (m : Mesh) :
    meshValid m = true ↔ ∀ c ∈ m.shading, c.1 ≤ m.pattern.length ∧ c.2 ≤ m.pattern.length :=
  meshValid_iff m

theorem mesh_involutions {m : Mesh} (h : MeshOK m) :
    meshInverse (meshInverse m) = m ∧ meshReverse (meshReverse m) = m ∧
      meshComplement (meshComplement m) = m :=
  ⟨meshInverse_inverse h, meshReverse_reverse h, meshComplement_complement h⟩

/-- `reverse ∘ complement = complement ∘ reverse = rotate 2`, `rotate 1 = complement ∘ inverse`,
    `rotate 3 = reverse ∘ inverse` - patterns *and* cells -/
theorem mesh_rotations (m : Mesh) :
    meshReverse (meshComplement m) = meshRotate m 2 ∧ meshComplement (meshReverse m) = meshRotate m 2 ∧
      meshRotate m 1 = meshComplement (meshInverse m) ∧ meshRotate m 3 = meshReverse (meshInverse m) ∧
      meshRotate m 0 = m :=
  ⟨(meshRotate_two m).symm, by rw [meshComplement_reverse]; exact (meshRotate_two m).symm,
    meshRotate_one m, meshRotate_three m, rfl⟩

theorem mesh_inverse_reverse_complement {m : Mesh} (h : MeshOK m) :
    meshInverse (meshReverse m) = meshComplement (meshInverse m) ∧
      meshInverse (meshComplement m) = meshReverse (meshInverse m) :=
  ⟨meshInverse_reverse h, meshInverse_complement h⟩

/-- the action of `D8` on meshes is a group action (all 64 products, cells included) -/
theorem actMesh_mul {m : Mesh} (hm : MeshOK m) (g h : D8) :
    g.actMesh (h.actMesh m) = (g.mul h).actMesh m := C04L.actMesh_mul hm g h

/-- `MeshPatt.rotate(t)` is the action of the same group element as `Perm.rotate(t)` -/
theorem meshRotate_eq_act (m : Mesh) (t : Int) : meshRotate m t = (rotD8 t).actMesh m :=
  C04L.meshRotate_eq_act m t

/-- rotation counts add, for all integers -/
theorem meshRotate_add {m : Mesh} (hm : MeshOK m) (s t : Int) :
    meshRotate m (s + t) = meshRotate (meshRotate m t) s := by
  rw [C04L.meshRotate_eq_act, C04L.meshRotate_eq_act, C04L.meshRotate_eq_act, rotD8_add,
    C04L.actMesh_mul hm]

theorem meshRotate_four (m : Mesh) (t : Int) : meshRotate m (t + 4) = meshRotate m t := by
  unfold meshRotate; rw [Int.add_emod_right]

/-- the underlying pattern of a transformed mesh is the transformed pattern -/
theorem actMesh_pattern (g : D8) (m : Mesh) : (g.actMesh m).pattern = g.act m.pattern := by
  rcases g with ⟨r, c, i⟩
  cases r <;> cases c <;> cases i <;> rfl

/-- the eight candidates of `MeshPatt.all_syms` are the eight group elements applied to `m` -/
theorem meshAllSymsList_eq {m : Mesh} (hm : MeshOK m) :
    meshAllSymsList m = codeOrder.map fun g => g.actMesh m := C04L.meshAllSymsList_eq hm

/-- `MeshPatt.all_syms` lists exactly the orbit (each mesh by its canonical representative) -/
theorem mem_meshAllSyms {m : Mesh} (hm : MeshOK m) (q : Mesh) :
    q ∈ meshAllSyms m ↔ ∃ g : D8, q = meshCanon (g.actMesh m) := by
  unfold meshAllSyms
  rw [List.mem_mergeSort, List.mem_eraseDups, C04L.meshAllSymsList_eq hm, List.map_map, List.mem_map]
  constructor
  · rintro ⟨g, _, rfl⟩; exact ⟨g, rfl⟩
  · rintro ⟨g, rfl⟩; exact ⟨g, mem_codeOrder g, rfl⟩

/-- the orbit listing has the same members for every member of the orbit -/
theorem mem_meshAllSyms_act {m : Mesh} (hm : MeshOK m) (g : D8) (q : Mesh) :
    q ∈ meshAllSyms (g.actMesh m) ↔ q ∈ meshAllSyms m := by
  rw [mem_meshAllSyms (meshOK_act hm g), mem_meshAllSyms hm]
  constructor
  · rintro ⟨h, rfl⟩; exact ⟨h.mul g, by rw [C04L.actMesh_mul hm]⟩
  · rintro ⟨h, rfl⟩; exact ⟨h.mul g.inv, by rw [C04L.actMesh_mul hm, mul_inv_cancel]⟩

/-- **the orbit listing is the same list for every member of the orbit**: `MeshPatt.all_syms` (as the
    canonical listing of the set: canonical representatives, duplicates merged, sorted by
    `MeshPatt.__lt__`) of `g·m` is literally the listing of `m`, for every `g ∈ D8` and valid mesh `m` -/
theorem meshAllSyms_act {m : Mesh} (hm : MeshOK m) (g : D8) :
    meshAllSyms (g.actMesh m) = meshAllSyms m := by
  have hcanon : ∀ (m' : Mesh), ∀ x ∈ (meshAllSymsList m').map meshCanon, meshCanon x = x := by
    intro m' x hx
    rw [List.mem_map] at hx
    obtain ⟨y, _, rfl⟩ := hx
    exact C04L.meshCanon_idem y
  have hmem : ∀ (m' : Mesh) (x : Mesh), x ∈ (meshAllSymsList m').map meshCanon ↔ x ∈ meshAllSyms m' := by
    intro m' x
    unfold meshAllSyms
    rw [List.mem_mergeSort, List.mem_eraseDups]
  unfold meshAllSyms
  apply C04L.meshCanon_listing_congr (hcanon _) (hcanon _)
  intro x
  rw [hmem, hmem, mem_meshAllSyms_act hm g]

/-- non-vacuity: the hypothesis holds for a concrete mesh pattern whose eight images are pairwise
    different, and the listing computed from its rotation is the listing computed from it -/
example : MeshOK ⟨[0, 2, 1], [(0, 1)]⟩ ∧ (meshAllSymsList ⟨[0, 2, 1], [(0, 1)]⟩).Nodup ∧
    meshAllSyms (meshRotate ⟨[0, 2, 1], [(0, 1)]⟩ 1) = meshAllSyms ⟨[0, 2, 1], [(0, 1)]⟩ := by
  refine ⟨⟨by decide, by decide⟩, by decide, ?_⟩
  rw [meshRotate_eq_act]
  exact meshAllSyms_act ⟨by decide, by decide⟩ _

/-! ## M2 equivariance of mesh containment -/

/-- the executable test of the code (`MeshPatt._occurrences_in_perm` scan) decides the property's
    wording of mesh containment -/
theorem containsMesh_iff {m : Mesh} {σ : NSeq} (hπ : IsPerm m.pattern) (hσ : IsPerm σ) :
    Model.containsMesh σ m = true ↔ MeshContains σ m := C04L.containsMesh_iff hπ hσ

theorem meshContains_reverse {m : Mesh} {σ : NSeq} (hm : MeshOK m) (hσ : IsPerm σ) :
    MeshContains (reverse σ) (meshReverse m) ↔ MeshContains σ m := by
  constructor
  · intro h
    have := meshContains_reverse_of (meshOK_reverse hm) (isPerm_reverse hσ) h
    rwa [C04L.reverse_reverse, meshReverse_reverse hm] at this
  · exact meshContains_reverse_of hm hσ

theorem meshContains_complement {m : Mesh} {σ : NSeq} (hm : MeshOK m) (hσ : IsPerm σ) :
    MeshContains (complement σ) (meshComplement m) ↔ MeshContains σ m := by
  constructor
  · intro h
    have := meshContains_complement_of (meshOK_complement hm) (isPerm_complement hσ) h
    rwa [C04L.complement_complement hσ, meshComplement_complement hm] at this
  · exact meshContains_complement_of hm hσ

theorem meshContains_inverse {m : Mesh} {σ : NSeq} (hm : MeshOK m) (hσ : IsPerm σ) :
    MeshContains (inverse σ) (meshInverse m) ↔ MeshContains σ m := by
  constructor
  · intro h
    have := meshContains_inverse_of (meshOK_inverse hm) (isPerm_inverse hσ) h
    rwa [C04L.inverse_inverse hσ, meshInverse_inverse hm] at this
  · exact meshContains_inverse_of hm hσ

/-- **mesh containment is equivariant under all eight symmetries**, the cells being mapped by the
    formulas of meshpatt.py -/
theorem meshContains_act {m : Mesh} {σ : NSeq} (hm : MeshOK m) (hσ : IsPerm σ) (g : D8) :
    MeshContains (g.act σ) (g.actMesh m) ↔ MeshContains σ m := by
  constructor
  · intro h
    have := meshContains_act_of (meshOK_act hm g) (C04L.isPerm_act hσ g) g.inv h
    rwa [C04L.act_mul hσ, C04L.actMesh_mul hm, inv_mul, act_one, actMesh_one] at this
  · exact meshContains_act_of hm hσ g

/-- … and under `rotate(t)` for every integer `t` -/
theorem meshContains_rotate {m : Mesh} {σ : NSeq} (hm : MeshOK m) (hσ : IsPerm σ) (t : Int) :
    MeshContains (rotate σ t) (meshRotate m t) ↔ MeshContains σ m := by
  rw [rotate_eq_act, C04L.meshRotate_eq_act]; exact meshContains_act hm hσ _

/-- the same for the executable test (`Perm.contains(MeshPatt)` / `MeshPatt.contained_in`) -/
theorem containsMesh_act {m : Mesh} {σ : NSeq} (hm : MeshOK m) (hσ : IsPerm σ) (g : D8) :
    Model.containsMesh (g.act σ) (g.actMesh m) = Model.containsMesh σ m := by
  rw [Bool.eq_iff_iff, C04L.containsMesh_iff (meshOK_act hm g).1 (C04L.isPerm_act hσ g),
    C04L.containsMesh_iff hm.1 hσ]
  exact meshContains_act hm hσ g

theorem containsMesh_rotate {m : Mesh} {σ : NSeq} (hm : MeshOK m) (hσ : IsPerm σ) (t : Int) :
    Model.containsMesh (rotate σ t) (meshRotate m t) = Model.containsMesh σ m := by
  rw [rotate_eq_act, C04L.meshRotate_eq_act]; exact containsMesh_act hm hσ _

/-- a mesh pattern without shading is the classical pattern -/
theorem meshContains_unshaded (σ π : NSeq) : MeshContains σ ⟨π, []⟩ ↔ Contains σ π := by
  constructor
  · rintro ⟨c, hc⟩; exact ⟨c, hc.occ⟩
  · rintro ⟨c, hc⟩; exact ⟨c, hc, by simp⟩

/-! ## non-vacuity -/

example : MeshOK ⟨[0, 2, 1], [(2, 3), (3, 0), (3, 3)]⟩ ∧
    meshRotate ⟨[0, 2, 1], [(2, 3), (3, 0), (3, 3)]⟩ (-3) = ⟨[2, 0, 1], [(3, 1), (0, 0), (3, 0)]⟩ ∧
    meshRotate ⟨[0, 2, 1], [(2, 3), (3, 0), (3, 3)]⟩ 1 = ⟨[2, 0, 1], [(3, 1), (0, 0), (3, 0)]⟩ := by
  refine ⟨⟨by decide, by decide⟩, by decide, by decide⟩

/-- `[0, 1]` with the cell between the two points shaded occurs in `[0, 2, 1]` (positions 0, 1) but
    the occurrence at positions 0, 2 is blocked … checked on the specification -/
example : MeshContains [0, 2, 1] ⟨[0, 1], [(1, 1)]⟩ := by
  refine ⟨[0, 1], (C01.mem_spec_iff _ _ _).mp (by decide), ?_⟩
  intro i hi hic
  have : i = 2 := by
    simp only [List.length_cons, List.length_nil] at hi
    simp only [List.mem_cons, List.not_mem_nil, or_false, not_or] at hic
    omega
  subst this; decide



example : IsPerm [1, 3, 0, 2] ∧ IsPerm [0, 4, 1, 3, 2] ∧ rotate [0, 4, 1, 3, 2] (-3) = [4, 2, 0, 1, 3] ∧
    rotate [0, 4, 1, 3, 2] 1 = [4, 2, 0, 1, 3] ∧ flipAntidiagonal [1, 2, 3, 0, 4] = [0, 2, 3, 4, 1] := by
  decide

example : Contains (inverse [0, 4, 1, 3, 2]) (inverse [0, 2, 1]) :=
  (contains_inverse (by decide) (by decide)).mpr ⟨[0, 1, 3], (C01.mem_spec_iff _ _ _).mp (by decide)⟩

/-- `[1, 2, 0]` is in the orbit of `[0, 2, 1]` (the antidiagonal flip… of its reverse complement) -/
example : [1, 2, 0] ∈ allSyms [0, 2, 1] :=
  (mem_allSyms (by decide) _).mpr ⟨⟨true, false, false⟩, by decide⟩

example : allSymsList [0, 3, 1, 2] = codeOrder.map fun g => g.act [0, 3, 1, 2] := by decide

/-- the action is faithful: the eight group elements move `[0, 3, 1, 2]` to eight different places -/
example : (D8.all.map fun g => g.act [0, 3, 1, 2]).Nodup := by decide

example : lexMin ([[2, 0, 1], [0, 1, 2]].map inverse) = lexMin [[2, 0, 1], [0, 1, 2]] :=
  (lexMin_named (by decide) 0).2.2.1

example : lexMin [[2, 0, 1], [0, 1, 2]] = lexMin [[0, 1, 2], [2, 0, 1]] :=
  lexMin_perm (List.Perm.swap _ _ _)

end C04
