import PermutaModel.Lemmas.C14Tables
import PermutaModel.Lemmas.C14Trans
import PermutaModel.Lemmas.C14Signs
import PermutaModel.Lemmas.C14CacheStep
import PermutaModel.Lemmas.C14Occ
import PermutaModel.Lemmas.C14Gen
import PermutaModel.Lemmas.C14C15

/-!
# C14 — pin words decode to their pin permutations and reflect pattern containment

Property theorems only (helpers in `Lemmas/C14*.lean`).  Everything is stated about the
definitions the driver executes (`Model.C14.*`, mirroring `permuta/permutils/pin_words.py` and
`pinword_util.py`); `Spec.C14.inLang` is the language of pin words by local conditions,
`C14L.GeoRun` the geometric reading of the property's first sentence.

NOT proved here (see `PARTIAL` in `harness/c14.py`): the containment iff
`Contains (perm w) σ ↔ ∃ u ∈ words σ, pinword_contains w u` (Bassino–Bouvel–Pierrot–Rossin,
Thm 3.13).  It is evaluated as a *bounded test* by the harness ops `pw_pcont` / `pw_pcontnt`
(it passes in both directions since the repository fix ff59958 of finding `C14-touch`).
-/
open Model.C14 Model.C14.Letter Spec.C14 Proto C14L

namespace C14

/-! ## A1 — every word of the language decodes -/

/-- **decode_total**: every word of the generator's language decodes without failure (none of the
    `assert False` / `KeyError` / `ValueError` branches is reached) to a permutation of the same
    length. -/
theorem decode_total (w : Word) (hw : inLang w = true) :
    ∃ σ, pinwordToPerm w = .ok σ ∧ IsPerm σ ∧ σ.length = w.length := by
  obtain ⟨pts, h1, h2, _, h4⟩ := build_lang w hw
  refine ⟨permOfPts pts.dropLast, by simp [pinwordToPerm, h1], ?_, ?_⟩
  · apply permOfPts_isPerm
    have : (ys pts.dropLast).Sublist (ys pts) := (List.dropLast_sublist pts).map _
    exact this.nodup h2.ynd
  · rw [permOfPts_length, List.length_dropLast, h4]; rfl

/-- non-vacuity: the doctest word `3DL2UR` is in the language (its decoded value `351204` is
    compared by the harness; `List.mergeSort` does not reduce in the kernel) -/
example : inLang [q3, D, L, q2, U, R] = true := by decide
example : ∃ σ, pinwordToPerm [q3, D, L, q2, U, R] = .ok σ ∧ IsPerm σ ∧ σ.length = 6 :=
  decode_total _ (by decide)

/-! ## A2 — the decoded points are the pin sequence the word describes -/

/-- **decode_geometry**: for a word of the language the loop of `pinword_to_perm` places, letter
    by letter, a point `p` such that (numeral `c`) `p` is an *independent* pin: strictly beyond
    every earlier point – the origin included – on both axes, on the sides named by the quadrant
    (`IndepPin`); (direction `c`) `p` is a *separating* pin: strictly beyond every earlier point on
    the named side and, on the other axis, strictly between the previous pin and all points
    before it (`SepPin`).  `GeoRun [origin] w pts` chains these conditions over the whole word;
    `pts` is the final point list (newest first, origin last), all abscissae and all ordinates
    pairwise different. -/
theorem decode_geometry (w : Word) (hw : inLang w = true) :
    ∃ pts, pinPoints w = .ok pts ∧ GeoRun [origin] w pts ∧ pts.length = w.length + 1
      ∧ (xs pts).Nodup ∧ (ys pts).Nodup ∧ pts.getLast? = some origin := by
  obtain ⟨pts, h1, h2, h3, h4⟩ := build_lang w hw
  refine ⟨pts, h1, h3, h4, h2.xnd, h2.ynd, ?_⟩
  obtain ⟨newer, rfl, _⟩ := buildPts_suffix w [origin] pts h1
  simp

/-- the geometric conditions are not vacuous: `2U` places `(-1,1)` and then `(-1/2, 2)`, which is
    above everything and strictly between the first pin and the origin horizontally -/
example : pinPoints [q2, U] = .ok [(-1/2, 2), (-1, 1), (0, 0)] := by decide +kernel
example : Between (-1/2 : Rat) (-1) [0] := Or.inr ⟨by simp; decide +kernel, by decide +kernel⟩

/-- **decode_orderIso**: the returned permutation is the permutation *of that point set*: read the
    pins from left to right (`sortedPins`, strictly increasing abscissae); then
    `σ[i] < σ[j] ↔ yᵢ < yⱼ`. -/
theorem decode_orderIso (w : Word) (hw : inLang w = true) :
    ∃ pts σ, pinPoints w = .ok pts ∧ pinwordToPerm w = .ok σ
      ∧ (xs (sortedPins pts.dropLast)).Pairwise (· < ·)
      ∧ ∀ i j, i < w.length → j < w.length →
          (σ.getD i 0 < σ.getD j 0 ↔
            ((sortedPins pts.dropLast).getD i origin).2 < ((sortedPins pts.dropLast).getD j origin).2) := by
  obtain ⟨pts, h1, h2, _, h4⟩ := build_lang w hw
  have hlen : pts.dropLast.length = w.length := by rw [List.length_dropLast, h4]; rfl
  refine ⟨pts, permOfPts pts.dropLast, h1, by simp [pinwordToPerm, h1], ?_, ?_⟩
  · apply sortedPins_xs_sorted
    have : (xs pts.dropLast).Sublist (xs pts) := (List.dropLast_sublist pts).map _
    exact this.nodup h2.xnd
  · intro i j hi hj
    exact permOfPts_orderIso i j (by omega) (by omega)

example : inLang [q2, U] = true := by decide

/-- **decode_rejects**: a word leaves the language at a first letter `c` (after the language
    prefix `w`); decoding then raises, whatever follows: `KeyError` for a character outside the
    alphabet, `ValueError` (`max([])`) for a leading direction, and the `assert False` branch of
    `char_u/l/d/r` for a direction that follows a direction of its own axis. -/
theorem decode_rejects (w : Word) (c : Letter) (post : Word) (hw : inLang w = true)
    (hc : inLang (w ++ [c]) = false) :
    pinwordToPerm (w ++ c :: post) = .error (rejectKind w c) := by
  rw [inLang_snoc, hw, Bool.true_and] at hc
  simp [pinwordToPerm, build_reject w c post hw hc]

/-- … hence `pinword_to_perm` succeeds **exactly** on the words of the language -/
theorem decode_ok_iff (v : Word) : (∃ σ, pinwordToPerm v = .ok σ) ↔ inLang v = true := by
  constructor
  · rintro ⟨σ, hσ⟩
    by_contra hv
    obtain ⟨w, c, post, rfl, h1, h2⟩ := lang_split v (by simpa using hv)
    rw [decode_rejects w c post h1 (by rw [inLang_snoc, h1, h2]; rfl)] at hσ
    cases hσ
  · intro hv
    obtain ⟨σ, h, _⟩ := decode_total v hv
    exact ⟨σ, h⟩

example : rejectKind [] U = .valueError ∧ rejectKind [q1, U] D = .assertion
    ∧ rejectKind [q1] (X 'x') = .keyError := by decide

/-! ## A3 — the generator and the tables -/

/-- **generator_spec**: `pinwords_of_length n` lists exactly the words of length `n` of the
    language (alphabet `1234ULDR`, first letter a numeral, no factor `UU UD DU DD LL LR RL RR`) -/
theorem generator_spec (n : Nat) (w : Word) :
    w ∈ pinwordsOfLength n ↔ inLang w = true ∧ w.length = n :=
  mem_pinwordsOfLength n w

/-- … without repetition -/
theorem generator_nodup (n : Nat) : (pinwordsOfLength n).Nodup := pinwordsOfLength_nodup n

example : pinwordsOfLength 1 = [[q1], [q2], [q3], [q4]] := by decide
example : (pinwordsOfLength 3).length = 224 := by decide +kernel

/-- **every enumerated pin word decodes**: the dictionary comprehension of
    `pinword_to_perm_mapping` never raises, its keys are the enumerated words (in order) and it
    maps `w` to `σ` iff `pinword_to_perm w = σ` -/
theorem pinwordToPermMapping_spec (n : Nat) :
    ∃ t, pinwordToPermMapping n = .ok t ∧ t.map Prod.fst = pinwordsOfLength n
      ∧ ∀ w σ, (w, σ) ∈ t ↔ w ∈ pinwordsOfLength n ∧ pinwordToPerm w = .ok σ := by
  obtain ⟨t, ht⟩ := decodeAll_total (ws := pinwordsOfLength n) fun w hw => by
    obtain ⟨σ, h, _⟩ := decode_total w ((generator_spec n w).mp hw).1
    exact ⟨σ, h⟩
  exact ⟨t, ht, decodeAll_keys ht, mem_decodeAll ht⟩

/-- **the two tables are inverse to each other**: `perm_to_pinword_mapping n` lists `w` under
    `σ` iff `w` is an enumerated word with `pinword_to_perm w = σ`; no key is listed twice and (in
    the freshly built table) no key has an empty set -/
theorem permToPinwordMapping_spec (n : Nat) :
    ∃ t, permToPinwordMapping n = .ok t
      ∧ (∀ σ w, Rel t σ w ↔ w ∈ pinwordsOfLength n ∧ pinwordToPerm w = .ok σ)
      ∧ (t.map Prod.fst).Nodup ∧ ∀ e ∈ t, e.2 ≠ [] := by
  obtain ⟨t1, h1, _, h3⟩ := pinwordToPermMapping_spec n
  refine ⟨groupWords t1, by simp [permToPinwordMapping, h1], fun σ w => ?_, groupWords_keys_nodup t1,
    groupWords_nonempty t1⟩
  rw [rel_groupWords, h3]

/-- the strict table is the other table filtered by `is_strict_pinword`, with the same keys -/
theorem permToStrictPinwordMapping_spec (n : Nat) :
    ∃ t, permToStrictPinwordMapping n = .ok t
      ∧ (∀ σ w, Rel t σ w ↔
          w ∈ pinwordsOfLength n ∧ pinwordToPerm w = .ok σ ∧ isStrict w = true)
      ∧ (t.map Prod.fst).Nodup := by
  obtain ⟨t2, h1, h2, h3, _⟩ := permToPinwordMapping_spec n
  refine ⟨strictFilter t2, by simp [permToStrictPinwordMapping, h1], fun σ w => ?_, ?_⟩
  · rw [rel_strictFilter, h2, and_assoc]
  · simpa [strictFilter, List.map_map, Function.comp_def] using h3

example : permToPinwordMapping 1 = .ok [([0], [[q1], [q2], [q3], [q4]])] := by decide +kernel

/-- **the tables do not depend on the history**: whatever sequence of calls of the three memoised
    table functions and of `table[σ]` look-ups (which insert empty sets into the cached
    `defaultdict`, as `pinwords_for_basis` does) came before, every call returns what a fresh
    computation lists -/
theorem tables_history_independent (ops : List TOp) :
    List.Forall₂ OutOK ops (runT {} ops) := by
  have key : ∀ (ops : List TOp) (s : Caches), CInv s → List.Forall₂ OutOK ops (runT s ops) := by
    intro ops
    induction ops with
    | nil => intro s _; exact List.Forall₂.nil
    | cons op ops ih =>
      intro s hI
      obtain ⟨h1, h2⟩ := stepT_ok hI op
      exact List.Forall₂.cons h1 (ih _ h2)
  exact key ops {} cinv_empty

/-- the quirk is real: one look-up of a non-pin-permutation leaves an empty set in the cached table -/
example : (stepT {} (.L 1 [0, 1])).1.p2w = [(1, [([0], [[q1], [q2], [q3], [q4]]), ([0, 1], [])])] := by
  decide +kernel

/-- a strict pin word is a numeral followed by directions (the code also accepts the empty word) -/
theorem isStrict_iff (w : Word) :
    isStrict w = true ↔ w = [] ∨ ∃ q ds, w = q :: ds ∧ q.isQuad = true ∧ ∀ d ∈ ds, d.isDir = true := by
  cases w with
  | nil => simp [isStrict]
  | cons q ds => simp [isStrict, List.all_eq_true]

/-! ## A4 — the translations between strict pin words and direction words -/

/-- **m_to_sp (sp_to_m w)ᵢ = w** for every non-empty strict pin word `w` (numeral + directions,
    arbitrary tail) and every component of the tuple `sp_to_m` returns -/
theorem mToSp_spToM (w : Word) (hs : isStrict w = true) (hne : w ≠ []) :
    ∃ ms, spToM w = .ok ms ∧ ms ≠ [] ∧ ∀ m ∈ ms, mToSp m = .ok w := by
  cases w with
  | nil => exact absurd rfl hne
  | cons q ds =>
    simp only [isStrict, Bool.and_eq_true, List.all_eq_true] at hs
    apply C14L.mToSp_spToM q ds hs.1
    intro d hd
    cases ds with
    | nil => simp at hd
    | cons d' tl => simp only [List.head?_cons, Option.some.injEq] at hd; subst hd; exact hs.2 _ List.mem_cons_self

example : spToM [q3] = .ok [[L, D], [D, L]] := by decide
example : spToM [q2, U, L] = .ok [[U, L, U, L]] := by decide

/-- **sp_to_m (m_to_sp m) ∋ m** for every word `m` of `M` (directions, no two consecutive letters
    on one axis) with at least two letters -/
theorem spToM_mToSp (m : Word) (hm : inM m = true) (hlen : 2 ≤ m.length) :
    ∃ sp ms, mToSp m = .ok sp ∧ spToM sp = .ok ms ∧ m ∈ ms := C14L.spToM_mToSp m hm hlen

example : mToSp [D, R, D] = .ok [q4, D] := by decide
/-- outside `M` the round trip fails (so the hypothesis is needed): `RUU ↦ 1U ↦ URU` -/
example : mToSp [R, U, U] = .ok [q1, U] ∧ spToM [q1, U] = .ok [[U, R, U]] := by decide

/-- **quadrant lemma** (letter level, Lemma 3.10): on a word of the language `quadrant` never
    fails; a numeral names its quadrant, a direction letter names one sign and inherits the other
    from the letter before it (`Spec.C14.signs`) -/
theorem quadrant_eq_signs (w : Word) (hw : inLang w = true) (i : Nat) (hi : i < w.length) :
    quadrant w i = .ok (quadOfSigns (signs w i)) := C14L.quadrant_eq_signs w hw i hi

example : quadrant [q2, R, U, q4, L, U, L, U, R, D, q4, L] 6 = .ok q2 := by decide

/-- **quadrant lemma** (geometric reading): the pin placed for letter `i` of a word of the
    language – the newest point after decoding the prefix `w[0..i]`, which stays in place for the
    rest of the loop – lies, relative to the origin, in the quadrant that `quadrant w i` returns -/
theorem quadrant_geometry (w : Word) (hw : inLang w = true) (i : Nat) (hi : i < w.length) :
    ∃ q p pts newer, quadrant w i = .ok q ∧ q = quadOfSigns (signs w i)
      ∧ pinPoints (w.take (i + 1)) = .ok (p :: pts) ∧ pinPoints w = .ok (newer ++ p :: pts)
      ∧ sgn (signs w i).1 p.1 ∧ sgn (signs w i).2 p.2 := by
  have hsplit : w = w.take (i + 1) ++ w.drop (i + 1) := (List.take_append_drop _ _).symm
  have hpre : inLang (w.take (i + 1)) = true := inLang_prefix _ (w.drop (i + 1)) (hsplit ▸ hw)
  have hlen : (w.take (i + 1)).length = i + 1 := by simp; omega
  obtain ⟨p, pts, h1, h2, h3⟩ := newest_signs (w.take (i + 1)) hpre (by intro h; simp [h] at hlen)
  rw [hlen, Nat.add_sub_cancel, signs_take] at h2 h3
  obtain ⟨all, hall, _⟩ := build_lang w hw
  have happ : pinPoints w = match pinPoints (w.take (i + 1)) with
      | .error e => .error e
      | .ok pts' => buildPts pts' (w.drop (i + 1)) := by
    unfold pinPoints
    have := buildPts_append (w.take (i + 1)) (w.drop (i + 1)) [origin]
    rwa [← hsplit] at this
  rw [h1, hall] at happ
  obtain ⟨newer, hn, _⟩ := buildPts_suffix _ _ _ happ.symm
  exact ⟨_, p, pts, newer, C14L.quadrant_eq_signs w hw i hi, rfl, h1, by rw [hall, hn], h2, h3⟩

example : sgn false (-1/2 : Rat) := by simp only [sgn]; decide +kernel

/-! ## A5 — containment in words: what is proved (the iff itself is a bounded test, see header) -/

/-- the empty word is found in every word (`factor_pinword "" = []`, the recursion yields `()`) -/
theorem contains_nil (w : Word) : contains w [] = .ok true ∧ containsNT w [] = .ok true := by
  simp [contains, containsNT, occurrences, factor, occRec, gapOK, nonTouching]

/-- **occurrences_total**: on words of the language the occurrence generators never raise (every
    `quadrant` call succeeds, every factor of `u` is numeral-led), so `pinword_contains` returns
    a Boolean: "some occurrence tuple passes the gap test" -/
theorem occurrences_total (w u : Word) (hw : inLang w = true) (hu : inLang u = true) :
    (occurrences w u).2 = none
      ∧ contains w u = .ok ((occurrences w u).1.any (gapOK w (factor u))) := by
  have h := occurrences_noerr w u hw hu
  refine ⟨h, ?_⟩
  unfold contains
  rcases hocc : occurrences w u with ⟨l, e⟩
  rw [hocc] at h
  simp only at h
  subst h
  rfl

/-- outside the language they do raise, lazily: `1UU` yields two occurrences of `1`, then `KeyError` -/
example : occSp [q1, U, U] [q1] 0 = ([0, 1], some .keyError) := by decide +kernel

/-- **contains_eq_containsNT**: the gap test of the fixed `pinword_contains`
    (`nxt != cur + len(factor) or word[nxt] in QUADS`) is Theorem 3.13's condition "a factor matched
    on a *direction* letter of `w` does not touch the previous factor", for every `w` over the
    alphabet (in particular every word of the language) and every `u` -/
theorem contains_eq_containsNT (w u : Word) (hw : ∀ x ∈ w, x.isQuad = true ∨ x.isDir = true) :
    contains w u = containsNT w u := by
  have hpt : ∀ n : Nat, ((w[n]?).map isQuad).getD false = !(((w[n]?).map isDir).getD true) := by
    intro n
    cases hn : w[n]? with
    | none => rfl
    | some c =>
      have hc := hw c (List.mem_of_getElem? hn)
      cases c <;> simp_all [isQuad, isDir]
  have hg : ∀ occ, gapOK w (factor u) occ = nonTouching w (factor u) occ := by
    intro occ
    unfold gapOK nonTouching
    apply List.all_congr rfl
    intro t
    rw [hpt]
    cases h : (t.2.1 == t.1 + t.2.2.length) <;> simp [bne, h]
  unfold contains containsNT
  simp only [funext hg]

theorem contains_eq_containsNT_lang (w u : Word) (hw : inLang w = true) :
    contains w u = containsNT w u := contains_eq_containsNT w u (inLang_alpha w hw)

/-- the fix only removes answers: whatever `pinword_contains` now accepts, the pre-fix test
    (`next(pinword_occurrences(…), False) is not False`) accepted too -/
theorem contains_imp_preFix (w u : Word) (h : contains w u = .ok true) :
    containsPreFix w u = .ok true := by
  unfold contains at h
  unfold containsPreFix nonEmpty
  rcases hocc : occurrences w u with ⟨l, e⟩
  rw [hocc] at h
  have hl : l.any (gapOK w (factor u)) = true := by
    cases e with
    | none => simpa using h
    | some e => simp only at h; split at h <;> simp_all
  cases l with
  | nil => simp at hl
  | cons a l => rfl

/-- the converse fails – this was finding `C14-touch` (fixed in the repository by ff59958): in
    `2U` the word `22` is "found" only with its second factor on the direction letter `U`,
    touching the first; `perm(2U) = 01` does not contain `perm(22) = 10` -/
example : containsPreFix [q2, U] [q2, q2] = .ok true ∧ contains [q2, U] [q2, q2] = .ok false := by
  decide +kernel

/-! ## A5′ — `pinword_contains` and the automaton of C15 encode Theorem 3.13 the same way

Two pieces of code implement Bassino–Bouvel–Pierrot–Rossin Thm 3.13: the search of
`pinword_contains(w, u)` (this property) and `make_nfa_for_pinword(u)` run on words of the language
`M` (property C15, model `Model.C15.nfaForPinword` / `nfaAccepts`).  Neither is proved equivalent to
pattern containment, but they are proved equivalent to **each other** through the translation
`sp_to_m` / `m_to_sp` between strict pin words and `M`-words.  Strings are `List Char` (what C15's
model uses); `Letter.ofChar` reads them into C14's alphabet, so `u` ranges over *all* strings. -/

/-- C15's model carries its own small copies of `factor_pinword` and `sp_to_m`; they are the
    functions of this model (on every string, resp. on every factor: a letter followed by
    direction letters – the only arguments `make_nfa_for_pinword` passes to `sp_to_m`) -/
theorem helpers_agree_C15 (u : List Char) :
    factor (u.map ofChar) = (Model.C15.factorPinword u).map (List.map ofChar)
    ∧ ∀ f ∈ Model.C15.factorPinword u,
        spToM (f.map ofChar) = .ok ((Model.C15.spToM f).map (List.map ofChar)) := by
  refine ⟨C14C15.factor_toL u, fun f hf => ?_⟩
  obtain ⟨c, t, rfl, ht⟩ := C14C15.factor_shape u f hf
  exact C14C15.spToM_toL c t ht

example : factor ("14L2UR".toList.map ofChar) = [[q1], [q4, L], [q2, U, R]] := by decide +kernel

/-- **nfa_vs_occurrences** (A5′): let `w` be a strict pin word of the language (a numeral followed
    by direction letters, no two consecutive ones on one axis; the empty word is allowed, as in
    `is_strict_pinword`), `m` any component of `sp_to_m(w)`, and `u` any string that does not start
    with a direction letter (every pin word, and every other string).  Then
    `pinword_contains(w, u)` returns `True` **iff** the NFA of `make_nfa_for_pinword(u)` accepts `m`.
    (For `u` starting with a direction letter the two differ: `quadrant(u, 0)` raises `KeyError`,
    while the NFA looks for the letters of `u` themselves.) -/
theorem nfa_vs_occurrences (w u m : List Char) (hs : Model.C15.isStrict w = true)
    (hw : inLang (w.map ofChar) = true) (hm : m ∈ Model.C15.spToM w)
    (hu : ∀ c, u.head? = some c → c ∉ Model.C15.DIRS) :
    contains (w.map ofChar) (u.map ofChar) = .ok true ↔
      Model.C15.nfaAccepts (Model.C15.nfaForPinword u) m = true := by
  cases w with
  | nil =>
    simp only [Model.C15.spToM, List.mem_cons, List.not_mem_nil, or_false] at hm
    subst hm
    exact C14C15.core_nil u
  | cons c0 t0 =>
    obtain ⟨a, b, hc, hab⟩ := C14C15.ctx_of_strict c0 t0 m hs hw hm
    exact C14C15.core hc m u hab hu

/-- non-vacuity, both answers: `w = 2ULD ↦ m = ULULD`; `u = 2U3` is found (`ULU·LD`), `u = 24` is not.
    The word side is evaluated, the automaton side follows by the theorem. -/
example : Model.C15.nfaAccepts (Model.C15.nfaForPinword "2U3".toList) "ULULD".toList = true
    ∧ Model.C15.nfaAccepts (Model.C15.nfaForPinword "24".toList) "ULULD".toList = false := by
  have hm : "ULULD".toList ∈ Model.C15.spToM "2ULD".toList := by decide
  have h := fun u hu => nfa_vs_occurrences "2ULD".toList u "ULULD".toList (by decide) (by decide) hm hu
  constructor
  · exact (h "2U3".toList (by decide)).mp (by decide +kernel)
  · cases hb : Model.C15.nfaAccepts (Model.C15.nfaForPinword "24".toList) "ULULD".toList with
    | false => rfl
    | true => exact absurd ((h "24".toList (by decide)).mpr hb) (by decide +kernel)

/-- … and it separates the fixed `pinword_contains` from the one before commit ff59958 (finding
    `C14-touch`): on `w = 2U ↦ m = ULU`, `u = 22` the automaton says no, like the fixed search; the
    pre-fix search said yes (example after `contains_imp_preFix`) -/
example : Model.C15.nfaAccepts (Model.C15.nfaForPinword "22".toList) "ULU".toList = false := by
  cases hb : Model.C15.nfaAccepts (Model.C15.nfaForPinword "22".toList) "ULU".toList with
  | false => rfl
  | true =>
    exact absurd ((nfa_vs_occurrences "2U".toList "22".toList "ULU".toList (by decide) (by decide)
      (by decide) (by decide)).mpr hb) (by decide +kernel)

/-- the same read from the automaton's side: for **every word `m` of `M`** (direction letters, no
    two consecutive ones on one axis – the language of `make_dfa_for_m`, `C15.dfaM_language`) with at
    least two letters, `m_to_sp(m)` is a strict pin word `w` of the language, and the NFA of `u`
    accepts `m` iff `pinword_contains(w, u)` -/
theorem nfa_vs_occurrences_M (m u : List Char) (hm : Spec.C15.InM m) (hlen : 2 ≤ m.length)
    (hu : ∀ c, u.head? = some c → c ∉ Model.C15.DIRS) :
    ∃ w, mToSp (m.map ofChar) = .ok w ∧ isStrict w = true ∧ inLang w = true ∧
      (Model.C15.nfaAccepts (Model.C15.nfaForPinword u) m = true ↔
        contains w (u.map ofChar) = .ok true) := by
  obtain ⟨q, ds, a, b, hab, hc, hsp⟩ :=
    C14C15.ctx_of_M (m.map ofChar) (C14C15.inM_of_InM m hm) (by simpa using hlen)
  refine ⟨q :: ds, hsp, ?_, hc.lang, (C14C15.core hc m u hab hu).symm⟩
  simp only [isStrict, hc.hq, Bool.true_and, List.all_eq_true]
  exact hc.hds

example : Spec.C15.InM "ULULD".toList ∧ mToSp ("ULULD".toList.map ofChar) = .ok [q2, U, L, D] := by
  refine ⟨⟨by unfold Spec.C15.AStar; decide, ?_⟩, by decide⟩
  intro x a b v h
  have : x.length < 4 := by
    have := congrArg List.length h; simp at this; omega
  match x, this with
  | [], _ => cases h; decide
  | [_], _ => cases h; decide
  | [_, _], _ => cases h; decide
  | [_, _, _], _ => cases h; decide

/-- **nfa_vs_occurrences_general**: the same for **every pin word `w` of the language** (several
    numerals allowed).  `w` has no single `M`-word; the code handles it factor by factor, and so does
    the statement: `pinword_contains(w, u)` returns `True` iff the strong factors of `u` can be cut
    into consecutive (possibly empty) groups, one group per strong factor `x` of `w`, such that the
    automaton built by `make_nfa_for_pinword` from the group accepts `sp_to_m(x)` – every component
    of it (first statement) or, equivalently, some component (second statement).  This is the shape
    of Theorem 3.13 for arbitrary `w`; a factor of `u` may start exactly on a numeral of `w` (the
    `word[nxt] in QUADS` clause of the gap test), never on a direction letter that touches the
    previous factor. -/
theorem nfa_vs_occurrences_general (w u : List Char) (hw : inLang (w.map ofChar) = true)
    (hu : ∀ c, u.head? = some c → c ∉ Model.C15.DIRS) :
    (contains (w.map ofChar) (u.map ofChar) = .ok true ↔
      ∃ gs : List (List (List Char)), gs.flatten = Model.C15.factorPinword u ∧
        List.Forall₂ (fun x g => ∀ m ∈ Model.C15.spToM x,
          Model.C15.nfaAccepts (Model.C15.nfaOfDecomp (g.map Model.C15.spToM)) m = true)
          (Model.C15.factorPinword w) gs)
    ∧ (contains (w.map ofChar) (u.map ofChar) = .ok true ↔
      ∃ gs : List (List (List Char)), gs.flatten = Model.C15.factorPinword u ∧
        List.Forall₂ (fun x g => ∃ m ∈ Model.C15.spToM x,
          Model.C15.nfaAccepts (Model.C15.nfaOfDecomp (g.map Model.C15.spToM)) m = true)
          (Model.C15.factorPinword w) gs) :=
  ⟨C14C15.general_all w u hw hu, C14C15.general_some w u hw hu⟩

/-- non-vacuity: `w = 2U3` (factors `2U`, `3`) contains `u = 23` (one factor of `u` per factor of `w`:
    the second one starts on the numeral `3`, touching the first), but `w = 2U` does not (finding
    `C14-touch`): no way to cut `2·2` into one group whose automaton accepts `ULU` -/
example :
    (∃ gs : List (List (List Char)), gs.flatten = Model.C15.factorPinword "23".toList ∧
      List.Forall₂ (fun x g => ∀ m ∈ Model.C15.spToM x,
        Model.C15.nfaAccepts (Model.C15.nfaOfDecomp (g.map Model.C15.spToM)) m = true)
        (Model.C15.factorPinword "2U3".toList) gs)
    ∧ ¬ (∃ gs : List (List (List Char)), gs.flatten = Model.C15.factorPinword "22".toList ∧
      List.Forall₂ (fun x g => ∃ m ∈ Model.C15.spToM x,
        Model.C15.nfaAccepts (Model.C15.nfaOfDecomp (g.map Model.C15.spToM)) m = true)
        (Model.C15.factorPinword "2U".toList) gs) := by
  constructor
  · exact (nfa_vs_occurrences_general "2U3".toList "23".toList (by decide) (by decide)).1.mp
      (by decide +kernel)
  · intro h
    exact absurd ((nfa_vs_occurrences_general "2U".toList "22".toList (by decide) (by decide)).2.mpr h)
      (by decide +kernel)

/-! ## tie to the source: the tables the model uses are the ones in the repository -/

/-- `DIRS`, `QUADS` (pin_words.py:18-19) -/
theorem alphabet_generated :
    wordOfString Generated.c14_DIRS = [U, L, D, R] ∧ wordOfString Generated.c14_QUADS = [q1, q2, q3, q4]
    ∧ (∀ c : Letter, c.isDir = true ↔ c ∈ wordOfString Generated.c14_DIRS)
    ∧ (∀ c : Letter, c.isQuad = true ↔ c ∈ wordOfString Generated.c14_QUADS) := by
  have h1 : wordOfString Generated.c14_DIRS = [U, L, D, R] := by decide
  have h2 : wordOfString Generated.c14_QUADS = [q1, q2, q3, q4] := by decide
  rw [h1, h2]
  refine ⟨rfl, rfl, ?_, ?_⟩ <;> intro c <;> cases c <;> simp [isDir, isQuad]

/-- `letter_dict` of `sp_to_m` and of `m_to_sp`, `opposite` (pin_words.py:157,158,184) -/
theorem letterDict_generated :
    Generated.c14_spToM_letterDict.map (fun e => (letterOfString e.1, wordOfString e.2))
      = letterDict.map (fun e => (e.1, [e.2.1, e.2.2]))
    ∧ Generated.c14_mToSp_letterDict = Generated.c14_spToM_letterDict
    ∧ Generated.c14_spToM_opposite.map (fun e => (letterOfString e.1, letterOfString e.2)) = oppositeDict := by
  decide

/-- `PinWordUtil.caller` and the statement shape of the eight letter methods
    (pinword_util.py:11-124) are what the model's `numeralTable` / `dirTable` say -/
theorem charTables_generated :
    Generated.c14_caller = expectedCaller ∧ Generated.c14_charShapes = expectedShapes := by decide

/-- … and `call` dispatches according to those tables -/
theorem call_tables (pts : List Pt) :
    (∀ e ∈ numeralTable, call e.1 pts = charNumeral e.2.1 e.2.2 pts)
    ∧ (∀ e ∈ dirTable, call e.1 pts = charDir e.2.1 e.2.2 pts) := by
  simp [numeralTable, dirTable, call]

end C14
