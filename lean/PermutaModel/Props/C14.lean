import PermutaModel.Lemmas.C14Tables
import PermutaModel.Lemmas.C14Trans
import PermutaModel.Lemmas.C14Signs
import PermutaModel.Lemmas.C14CacheStep
import PermutaModel.Lemmas.C14Occ
import PermutaModel.Lemmas.C14Gen
import PermutaModel.Lemmas.C14C15
import PermutaModel.Lemmas.C14CompTable
import PermutaModel.Lemmas.C14C15Gen
import PermutaModel.Props.C15
import PermutaModel.Lemmas.C14SymRun
import PermutaModel.Lemmas.C16Special

/-!
# C14 — pin words decode to their pin permutations and reflect pattern containment

Property theorems only (helpers in `Lemmas/C14*.lean`).  Everything is stated about the
definitions the driver executes (`Model.C14.*`, mirroring `permuta/permutils/pin_words.py` and
`pinword_util.py`); `Spec.C14.inLang` is the language of pin words by local conditions,
`C14L.GeoRun` the geometric reading of the property's first sentence.

The containment iff `Contains (perm w) π ↔ ∃ u ∈ words π, pinword_contains w u`
(Bassino–Bouvel–Pierrot–Rossin, Thm 3.13) is **proved** in section A6 (`pinword_contains_sound`,
`pinword_contains_complete`, `pinword_contains_iff`, `pinword_contains_iff_table`,
`containsTable_spec`) for every pin word `w` (several numerals allowed) and every permutation `π`;
the harness ops `pw_pcont` / `pw_pcontnt` evaluate the same statement on the real code.  Section A6′
(`helpers_agree_C15_decode`, `basisAccepts_iff_contains`) carries it over to the basis automaton of
C15 (`accepts_iff_contains`), section A7 (`hasFinitePinperms_iff`, `hasFinitePinperms_class_only`) to the
pin half of C16's verdict; section A8 (`decode_act`, `hasFinitePinperms_act`) shows that pin permutations
and that verdict are invariant under the eight symmetries.
-/
open Model.C14 Model.C14.Letter Spec.C14 Proto C14L

namespace C14

/-! ## A1 — every word of the language decodes -/

/-- **decode_total**: every word of the generator's language decodes without failure (none of the
    `assert False` / `KeyError` / `ValueError` branches is reached) to a permutation of the same
    length. -/
theorem decode_total (w : Word) (hw : inLang w = true) :
    ∃ σ, pinwordToPerm w = .ok σ ∧ IsPerm σ ∧ σ.length = w.length := by
  obtain ⟨pts, h1, h2, _, h4⟩ := build_lang w hw
  refine ⟨permOfPts pts.dropLast, by simp [pinwordToPerm, h1], ?_, ?_⟩
  · apply permOfPts_isPerm
    have : (ys pts.dropLast).Sublist (ys pts) := (List.dropLast_sublist pts).map _
    exact this.nodup h2.ynd
  · rw [permOfPts_length, List.length_dropLast, h4]; rfl

/-- non-vacuity: the doctest word `3DL2UR` is in the language (its decoded value `351204` is
    compared by the harness; `List.mergeSort` does not reduce in the kernel) -/
example : inLang [q3, D, L, q2, U, R] = true := by decide
example : ∃ σ, pinwordToPerm [q3, D, L, q2, U, R] = .ok σ ∧ IsPerm σ ∧ σ.length = 6 :=
  decode_total _ (by decide)

/-! ## A2 — the decoded points are the pin sequence the word describes -/

/-- **decode_geometry**: for a word of the language the loop of `pinword_to_perm` places, letter
    by letter, a point `p` such that (numeral `c`) `p` is an *independent* pin: strictly beyond
    every earlier point – the origin included – on both axes, on the sides named by the quadrant
    (`IndepPin`); (direction `c`) `p` is a *separating* pin: strictly beyond every earlier point on
    the named side and, on the other axis, strictly between the previous pin and all points
    before it (`SepPin`).  `GeoRun [origin] w pts` chains these conditions over the whole word;
    `pts` is the final point list (newest first, origin last), all abscissae and all ordinates
    pairwise different. -/
theorem decode_geometry (w : Word) (hw : inLang w = true) :
    ∃ pts, pinPoints w = .ok pts ∧ GeoRun [origin] w pts ∧ pts.length = w.length + 1
      ∧ (xs pts).Nodup ∧ (ys pts).Nodup ∧ pts.getLast? = some origin := by
  obtain ⟨pts, h1, h2, h3, h4⟩ := build_lang w hw
  refine ⟨pts, h1, h3, h4, h2.xnd, h2.ynd, ?_⟩
  obtain ⟨newer, rfl, _⟩ := buildPts_suffix w [origin] pts h1
  simp

/-- the geometric conditions are not vacuous: `2U` places `(-1,1)` and then `(-1/2, 2)`, which is
    above everything and strictly between the first pin and the origin horizontally -/
example : pinPoints [q2, U] = .ok [(-1/2, 2), (-1, 1), (0, 0)] := by decide +kernel
example : Between (-1/2 : Rat) (-1) [0] := Or.inr ⟨by simp; decide +kernel, by decide +kernel⟩

/-- **decode_orderIso**: the returned permutation is the permutation *of that point set*: read the
    pins from left to right (`sortedPins`, strictly increasing abscissae); then
    `σ[i] < σ[j] ↔ yᵢ < yⱼ`. -/
theorem decode_orderIso (w : Word) (hw : inLang w = true) :
    ∃ pts σ, pinPoints w = .ok pts ∧ pinwordToPerm w = .ok σ
      ∧ (xs (sortedPins pts.dropLast)).Pairwise (· < ·)
      ∧ ∀ i j, i < w.length → j < w.length →
          (σ.getD i 0 < σ.getD j 0 ↔
            ((sortedPins pts.dropLast).getD i origin).2 < ((sortedPins pts.dropLast).getD j origin).2) := by
  obtain ⟨pts, h1, h2, _, h4⟩ := build_lang w hw
  have hlen : pts.dropLast.length = w.length := by rw [List.length_dropLast, h4]; rfl
  refine ⟨pts, permOfPts pts.dropLast, h1, by simp [pinwordToPerm, h1], ?_, ?_⟩
  · apply sortedPins_xs_sorted
    have : (xs pts.dropLast).Sublist (xs pts) := (List.dropLast_sublist pts).map _
    exact this.nodup h2.xnd
  · intro i j hi hj
    exact permOfPts_orderIso i j (by omega) (by omega)

example : inLang [q2, U] = true := by decide

/-- **decode_rejects**: a word leaves the language at a first letter `c` (after the language
    prefix `w`); decoding then raises, whatever follows: `KeyError` for a character outside the
    alphabet, `ValueError` (`max([])`) for a leading direction, and the `assert False` branch of
    `char_u/l/d/r` for a direction that follows a direction of its own axis. -/
theorem decode_rejects (w : Word) (c : Letter) (post : Word) (hw : inLang w = true)
    (hc : inLang (w ++ [c]) = false) :
    pinwordToPerm (w ++ c :: post) = .error (rejectKind w c) := by
  rw [inLang_snoc, hw, Bool.true_and] at hc
  simp [pinwordToPerm, build_reject w c post hw hc]

/-- … hence `pinword_to_perm` succeeds **exactly** on the words of the language -/
theorem decode_ok_iff (v : Word) : (∃ σ, pinwordToPerm v = .ok σ) ↔ inLang v = true := by
  constructor
  · rintro ⟨σ, hσ⟩
    by_contra hv
    obtain ⟨w, c, post, rfl, h1, h2⟩ := lang_split v (by simpa using hv)
    rw [decode_rejects w c post h1 (by rw [inLang_snoc, h1, h2]; rfl)] at hσ
    cases hσ
  · intro hv
    obtain ⟨σ, h, _⟩ := decode_total v hv
    exact ⟨σ, h⟩

example : rejectKind [] U = .valueError ∧ rejectKind [q1, U] D = .assertion
    ∧ rejectKind [q1] (X 'x') = .keyError := by decide

/-! ## A3 — the generator and the tables -/

/-- **generator_spec**: `pinwords_of_length n` lists exactly the words of length `n` of the
    language (alphabet `1234ULDR`, first letter a numeral, no factor `UU UD DU DD LL LR RL RR`) -/
theorem generator_spec (n : Nat) (w : Word) :
    w ∈ pinwordsOfLength n ↔ inLang w = true ∧ w.length = n :=
  mem_pinwordsOfLength n w

/-- … without repetition -/
theorem generator_nodup (n : Nat) : (pinwordsOfLength n).Nodup := pinwordsOfLength_nodup n

example : pinwordsOfLength 1 = [[q1], [q2], [q3], [q4]] := by decide
example : (pinwordsOfLength 3).length = 224 := by decide +kernel

/-- **every enumerated pin word decodes**: the dictionary comprehension of
    `pinword_to_perm_mapping` never raises, its keys are the enumerated words (in order) and it
    maps `w` to `σ` iff `pinword_to_perm w = σ` -/
theorem pinwordToPermMapping_spec (n : Nat) :
    ∃ t, pinwordToPermMapping n = .ok t ∧ t.map Prod.fst = pinwordsOfLength n
      ∧ ∀ w σ, (w, σ) ∈ t ↔ w ∈ pinwordsOfLength n ∧ pinwordToPerm w = .ok σ := by
  obtain ⟨t, ht⟩ := decodeAll_total (ws := pinwordsOfLength n) fun w hw => by
    obtain ⟨σ, h, _⟩ := decode_total w ((generator_spec n w).mp hw).1
    exact ⟨σ, h⟩
  exact ⟨t, ht, decodeAll_keys ht, mem_decodeAll ht⟩

/-- **the two tables are inverse to each other**: `perm_to_pinword_mapping n` lists `w` under
    `σ` iff `w` is an enumerated word with `pinword_to_perm w = σ`; no key is listed twice and (in
    the freshly built table) no key has an empty set -/
theorem permToPinwordMapping_spec (n : Nat) :
    ∃ t, permToPinwordMapping n = .ok t
      ∧ (∀ σ w, Rel t σ w ↔ w ∈ pinwordsOfLength n ∧ pinwordToPerm w = .ok σ)
      ∧ (t.map Prod.fst).Nodup ∧ ∀ e ∈ t, e.2 ≠ [] := by
  obtain ⟨t1, h1, _, h3⟩ := pinwordToPermMapping_spec n
  refine ⟨groupWords t1, by simp [permToPinwordMapping, h1], fun σ w => ?_, groupWords_keys_nodup t1,
    groupWords_nonempty t1⟩
  rw [rel_groupWords, h3]

/-- the strict table is the other table filtered by `is_strict_pinword`, with the same keys -/
theorem permToStrictPinwordMapping_spec (n : Nat) :
    ∃ t, permToStrictPinwordMapping n = .ok t
      ∧ (∀ σ w, Rel t σ w ↔
          w ∈ pinwordsOfLength n ∧ pinwordToPerm w = .ok σ ∧ isStrict w = true)
      ∧ (t.map Prod.fst).Nodup := by
  obtain ⟨t2, h1, h2, h3, _⟩ := permToPinwordMapping_spec n
  refine ⟨strictFilter t2, by simp [permToStrictPinwordMapping, h1], fun σ w => ?_, ?_⟩
  · rw [rel_strictFilter, h2, and_assoc]
  · simpa [strictFilter, List.map_map, Function.comp_def] using h3

example : permToPinwordMapping 1 = .ok [([0], [[q1], [q2], [q3], [q4]])] := by decide +kernel

/-- **the tables do not depend on the history**: whatever sequence of calls of the three memoised
    table functions and of `table[σ]` look-ups (which insert empty sets into the cached
    `defaultdict`, as `pinwords_for_basis` does) came before, every call returns what a fresh
    computation lists -/
theorem tables_history_independent (ops : List TOp) :
    List.Forall₂ OutOK ops (runT {} ops) := by
  have key : ∀ (ops : List TOp) (s : Caches), CInv s → List.Forall₂ OutOK ops (runT s ops) := by
    intro ops
    induction ops with
    | nil => intro s _; exact List.Forall₂.nil
    | cons op ops ih =>
      intro s hI
      obtain ⟨h1, h2⟩ := stepT_ok hI op
      exact List.Forall₂.cons h1 (ih _ h2)
  exact key ops {} cinv_empty

/-- the quirk is real: one look-up of a non-pin-permutation leaves an empty set in the cached table -/
example : (stepT {} (.L 1 [0, 1])).1.p2w = [(1, [([0], [[q1], [q2], [q3], [q4]]), ([0, 1], [])])] := by
  decide +kernel

/-- a strict pin word is a numeral followed by directions (the code also accepts the empty word) -/
theorem isStrict_iff (w : Word) :
    isStrict w = true ↔ w = [] ∨ ∃ q ds, w = q :: ds ∧ q.isQuad = true ∧ ∀ d ∈ ds, d.isDir = true := by
  cases w with
  | nil => simp [isStrict]
  | cons q ds => simp [isStrict, List.all_eq_true]

/-! ## A4 — the translations between strict pin words and direction words -/

/-- **m_to_sp (sp_to_m w)ᵢ = w** for every non-empty strict pin word `w` (numeral + directions,
    arbitrary tail) and every component of the tuple `sp_to_m` returns -/
theorem mToSp_spToM (w : Word) (hs : isStrict w = true) (hne : w ≠ []) :
    ∃ ms, spToM w = .ok ms ∧ ms ≠ [] ∧ ∀ m ∈ ms, mToSp m = .ok w := by
  cases w with
  | nil => exact absurd rfl hne
  | cons q ds =>
    simp only [isStrict, Bool.and_eq_true, List.all_eq_true] at hs
    apply C14L.mToSp_spToM q ds hs.1
    intro d hd
    cases ds with
    | nil => simp at hd
    | cons d' tl => simp only [List.head?_cons, Option.some.injEq] at hd; subst hd; exact hs.2 _ List.mem_cons_self

example : spToM [q3] = .ok [[L, D], [D, L]] := by decide
example : spToM [q2, U, L] = .ok [[U, L, U, L]] := by decide

/-- **sp_to_m (m_to_sp m) ∋ m** for every word `m` of `M` (directions, no two consecutive letters
    on one axis) with at least two letters -/
theorem spToM_mToSp (m : Word) (hm : inM m = true) (hlen : 2 ≤ m.length) :
    ∃ sp ms, mToSp m = .ok sp ∧ spToM sp = .ok ms ∧ m ∈ ms := C14L.spToM_mToSp m hm hlen

example : mToSp [D, R, D] = .ok [q4, D] := by decide
/-- outside `M` the round trip fails (so the hypothesis is needed): `RUU ↦ 1U ↦ URU` -/
example : mToSp [R, U, U] = .ok [q1, U] ∧ spToM [q1, U] = .ok [[U, R, U]] := by decide

/-- **quadrant lemma** (letter level, Lemma 3.10): on a word of the language `quadrant` never
    fails; a numeral names its quadrant, a direction letter names one sign and inherits the other
    from the letter before it (`Spec.C14.signs`) -/
theorem quadrant_eq_signs (w : Word) (hw : inLang w = true) (i : Nat) (hi : i < w.length) :
    quadrant w i = .ok (quadOfSigns (signs w i)) := C14L.quadrant_eq_signs w hw i hi

example : quadrant [q2, R, U, q4, L, U, L, U, R, D, q4, L] 6 = .ok q2 := by decide

/-- **quadrant lemma** (geometric reading): the pin placed for letter `i` of a word of the
    language – the newest point after decoding the prefix `w[0..i]`, which stays in place for the
    rest of the loop – lies, relative to the origin, in the quadrant that `quadrant w i` returns -/
theorem quadrant_geometry (w : Word) (hw : inLang w = true) (i : Nat) (hi : i < w.length) :
    ∃ q p pts newer, quadrant w i = .ok q ∧ q = quadOfSigns (signs w i)
      ∧ pinPoints (w.take (i + 1)) = .ok (p :: pts) ∧ pinPoints w = .ok (newer ++ p :: pts)
      ∧ sgn (signs w i).1 p.1 ∧ sgn (signs w i).2 p.2 := by
  have hsplit : w = w.take (i + 1) ++ w.drop (i + 1) := (List.take_append_drop _ _).symm
  have hpre : inLang (w.take (i + 1)) = true := inLang_prefix _ (w.drop (i + 1)) (hsplit ▸ hw)
  have hlen : (w.take (i + 1)).length = i + 1 := by simp; omega
  obtain ⟨p, pts, h1, h2, h3⟩ := newest_signs (w.take (i + 1)) hpre (by intro h; simp [h] at hlen)
  rw [hlen, Nat.add_sub_cancel, signs_take] at h2 h3
  obtain ⟨all, hall, _⟩ := build_lang w hw
  have happ : pinPoints w = match pinPoints (w.take (i + 1)) with
      | .error e => .error e
      | .ok pts' => buildPts pts' (w.drop (i + 1)) := by
    unfold pinPoints
    have := buildPts_append (w.take (i + 1)) (w.drop (i + 1)) [origin]
    rwa [← hsplit] at this
  rw [h1, hall] at happ
  obtain ⟨newer, hn, _⟩ := buildPts_suffix _ _ _ happ.symm
  exact ⟨_, p, pts, newer, C14L.quadrant_eq_signs w hw i hi, rfl, h1, by rw [hall, hn], h2, h3⟩

example : sgn false (-1/2 : Rat) := by simp only [sgn]; decide +kernel

/-! ## A5 — containment in words: the search itself (Theorem 3.13 is section A6) -/

/-- the empty word is found in every word (`factor_pinword "" = []`, the recursion yields `()`) -/
theorem contains_nil (w : Word) : contains w [] = .ok true ∧ containsNT w [] = .ok true := by
  simp [contains, containsNT, occurrences, factor, occRec, gapOK, nonTouching]

/-- **occurrences_total**: on words of the language the occurrence generators never raise (every
    `quadrant` call succeeds, every factor of `u` is numeral-led), so `pinword_contains` returns
    a Boolean: "some occurrence tuple passes the gap test" -/
theorem occurrences_total (w u : Word) (hw : inLang w = true) (hu : inLang u = true) :
    (occurrences w u).2 = none
      ∧ contains w u = .ok ((occurrences w u).1.any (gapOK w (factor u))) := by
  have h := occurrences_noerr w u hw hu
  refine ⟨h, ?_⟩
  unfold contains
  rcases hocc : occurrences w u with ⟨l, e⟩
  rw [hocc] at h
  simp only at h
  subst h
  rfl

/-- outside the language they do raise, lazily: `1UU` yields two occurrences of `1`, then `KeyError` -/
example : occSp [q1, U, U] [q1] 0 = ([0, 1], some .keyError) := by decide +kernel

/-- **contains_eq_containsNT**: the gap test of the fixed `pinword_contains`
    (`nxt != cur + len(factor) or word[nxt] in QUADS`) is Theorem 3.13's condition "a factor matched
    on a *direction* letter of `w` does not touch the previous factor", for every `w` over the
    alphabet (in particular every word of the language) and every `u` -/
theorem contains_eq_containsNT (w u : Word) (hw : ∀ x ∈ w, x.isQuad = true ∨ x.isDir = true) :
    contains w u = containsNT w u := by
  have hpt : ∀ n : Nat, ((w[n]?).map isQuad).getD false = !(((w[n]?).map isDir).getD true) := by
    intro n
    cases hn : w[n]? with
    | none => rfl
    | some c =>
      have hc := hw c (List.mem_of_getElem? hn)
      cases c <;> simp_all [isQuad, isDir]
  have hg : ∀ occ, gapOK w (factor u) occ = nonTouching w (factor u) occ := by
    intro occ
    unfold gapOK nonTouching
    apply List.all_congr rfl
    intro t
    rw [hpt]
    cases h : (t.2.1 == t.1 + t.2.2.length) <;> simp [bne, h]
  unfold contains containsNT
  simp only [funext hg]

theorem contains_eq_containsNT_lang (w u : Word) (hw : inLang w = true) :
    contains w u = containsNT w u := contains_eq_containsNT w u (inLang_alpha w hw)

/-- the fix only removes answers: whatever `pinword_contains` now accepts, the pre-fix test
    (`next(pinword_occurrences(…), False) is not False`) accepted too -/
theorem contains_imp_preFix (w u : Word) (h : contains w u = .ok true) :
    containsPreFix w u = .ok true := by
  unfold contains at h
  unfold containsPreFix nonEmpty
  rcases hocc : occurrences w u with ⟨l, e⟩
  rw [hocc] at h
  have hl : l.any (gapOK w (factor u)) = true := by
    cases e with
    | none => simpa using h
    | some e => simp only at h; split at h <;> simp_all
  cases l with
  | nil => simp at hl
  | cons a l => rfl

/-- the converse fails – this was finding `C14-touch` (fixed in the repository by ff59958): in
    `2U` the word `22` is "found" only with its second factor on the direction letter `U`,
    touching the first; `perm(2U) = 01` does not contain `perm(22) = 10` -/
example : containsPreFix [q2, U] [q2, q2] = .ok true ∧ contains [q2, U] [q2, q2] = .ok false := by
  decide +kernel

/-! ## A5′ — `pinword_contains` and the automaton of C15 encode Theorem 3.13 the same way

Two pieces of code implement Bassino–Bouvel–Pierrot–Rossin Thm 3.13: the search of
`pinword_contains(w, u)` (this property) and `make_nfa_for_pinword(u)` run on words of the language
`M` (property C15, model `Model.C15.nfaForPinword` / `nfaAccepts`).  The search is proved equivalent to
pattern containment in section A6; here the two are proved equivalent to **each other** through the translation
`sp_to_m` / `m_to_sp` between strict pin words and `M`-words.  Strings are `List Char` (what C15's
model uses); `Letter.ofChar` reads them into C14's alphabet, so `u` ranges over *all* strings. -/

/-- C15's model carries its own small copies of `factor_pinword` and `sp_to_m`; they are the
    functions of this model (on every string, resp. on every factor: a letter followed by
    direction letters – the only arguments `make_nfa_for_pinword` passes to `sp_to_m`) -/
theorem helpers_agree_C15 (u : List Char) :
    factor (u.map ofChar) = (Model.C15.factorPinword u).map (List.map ofChar)
    ∧ ∀ f ∈ Model.C15.factorPinword u,
        spToM (f.map ofChar) = .ok ((Model.C15.spToM f).map (List.map ofChar)) := by
  refine ⟨C14C15.factor_toL u, fun f hf => ?_⟩
  obtain ⟨c, t, rfl, ht⟩ := C14C15.factor_shape u f hf
  exact C14C15.spToM_toL c t ht

example : factor ("14L2UR".toList.map ofChar) = [[q1], [q4, L], [q2, U, R]] := by decide +kernel

/-- **nfa_vs_occurrences** (A5′): let `w` be a strict pin word of the language (a numeral followed
    by direction letters, no two consecutive ones on one axis; the empty word is allowed, as in
    `is_strict_pinword`), `m` any component of `sp_to_m(w)`, and `u` any string that does not start
    with a direction letter (every pin word, and every other string).  Then
    `pinword_contains(w, u)` returns `True` **iff** the NFA of `make_nfa_for_pinword(u)` accepts `m`.
    (For `u` starting with a direction letter the two differ: `quadrant(u, 0)` raises `KeyError`,
    while the NFA looks for the letters of `u` themselves.) -/
theorem nfa_vs_occurrences (w u m : List Char) (hs : Model.C15.isStrict w = true)
    (hw : inLang (w.map ofChar) = true) (hm : m ∈ Model.C15.spToM w)
    (hu : ∀ c, u.head? = some c → c ∉ Model.C15.DIRS) :
    contains (w.map ofChar) (u.map ofChar) = .ok true ↔
      Model.C15.nfaAccepts (Model.C15.nfaForPinword u) m = true := by
  cases w with
  | nil =>
    simp only [Model.C15.spToM, List.mem_cons, List.not_mem_nil, or_false] at hm
    subst hm
    exact C14C15.core_nil u
  | cons c0 t0 =>
    obtain ⟨a, b, hc, hab⟩ := C14C15.ctx_of_strict c0 t0 m hs hw hm
    exact C14C15.core hc m u hab hu

/-- non-vacuity, both answers: `w = 2ULD ↦ m = ULULD`; `u = 2U3` is found (`ULU·LD`), `u = 24` is not.
    The word side is evaluated, the automaton side follows by the theorem. -/
example : Model.C15.nfaAccepts (Model.C15.nfaForPinword "2U3".toList) "ULULD".toList = true
    ∧ Model.C15.nfaAccepts (Model.C15.nfaForPinword "24".toList) "ULULD".toList = false := by
  have hm : "ULULD".toList ∈ Model.C15.spToM "2ULD".toList := by decide
  have h := fun u hu => nfa_vs_occurrences "2ULD".toList u "ULULD".toList (by decide) (by decide) hm hu
  constructor
  · exact (h "2U3".toList (by decide)).mp (by decide +kernel)
  · cases hb : Model.C15.nfaAccepts (Model.C15.nfaForPinword "24".toList) "ULULD".toList with
    | false => rfl
    | true => exact absurd ((h "24".toList (by decide)).mpr hb) (by decide +kernel)

/-- … and it separates the fixed `pinword_contains` from the one before commit ff59958 (finding
    `C14-touch`): on `w = 2U ↦ m = ULU`, `u = 22` the automaton says no, like the fixed search; the
    pre-fix search said yes (example after `contains_imp_preFix`) -/
example : Model.C15.nfaAccepts (Model.C15.nfaForPinword "22".toList) "ULU".toList = false := by
  cases hb : Model.C15.nfaAccepts (Model.C15.nfaForPinword "22".toList) "ULU".toList with
  | false => rfl
  | true =>
    exact absurd ((nfa_vs_occurrences "2U".toList "22".toList "ULU".toList (by decide) (by decide)
      (by decide) (by decide)).mpr hb) (by decide +kernel)

/-- the same read from the automaton's side: for **every word `m` of `M`** (direction letters, no
    two consecutive ones on one axis – the language of `make_dfa_for_m`, `C15.dfaM_language`) with at
    least two letters, `m_to_sp(m)` is a strict pin word `w` of the language, and the NFA of `u`
    accepts `m` iff `pinword_contains(w, u)` -/
theorem nfa_vs_occurrences_M (m u : List Char) (hm : Spec.C15.InM m) (hlen : 2 ≤ m.length)
    (hu : ∀ c, u.head? = some c → c ∉ Model.C15.DIRS) :
    ∃ w, mToSp (m.map ofChar) = .ok w ∧ isStrict w = true ∧ inLang w = true ∧
      (Model.C15.nfaAccepts (Model.C15.nfaForPinword u) m = true ↔
        contains w (u.map ofChar) = .ok true) := by
  obtain ⟨q, ds, a, b, hab, hc, hsp⟩ :=
    C14C15.ctx_of_M (m.map ofChar) (C14C15.inM_of_InM m hm) (by simpa using hlen)
  refine ⟨q :: ds, hsp, ?_, hc.lang, (C14C15.core hc m u hab hu).symm⟩
  simp only [isStrict, hc.hq, Bool.true_and, List.all_eq_true]
  exact hc.hds

example : Spec.C15.InM "ULULD".toList ∧ mToSp ("ULULD".toList.map ofChar) = .ok [q2, U, L, D] := by
  refine ⟨⟨by unfold Spec.C15.AStar; decide, ?_⟩, by decide⟩
  intro x a b v h
  have : x.length < 4 := by
    have := congrArg List.length h; simp at this; omega
  match x, this with
  | [], _ => cases h; decide
  | [_], _ => cases h; decide
  | [_, _], _ => cases h; decide
  | [_, _, _], _ => cases h; decide

/-- **nfa_vs_occurrences_general**: the same for **every pin word `w` of the language** (several
    numerals allowed).  `w` has no single `M`-word; the code handles it factor by factor, and so does
    the statement: `pinword_contains(w, u)` returns `True` iff the strong factors of `u` can be cut
    into consecutive (possibly empty) groups, one group per strong factor `x` of `w`, such that the
    automaton built by `make_nfa_for_pinword` from the group accepts `sp_to_m(x)` – every component
    of it (first statement) or, equivalently, some component (second statement).  This is the shape
    of Theorem 3.13 for arbitrary `w`; a factor of `u` may start exactly on a numeral of `w` (the
    `word[nxt] in QUADS` clause of the gap test), never on a direction letter that touches the
    previous factor. -/
theorem nfa_vs_occurrences_general (w u : List Char) (hw : inLang (w.map ofChar) = true)
    (hu : ∀ c, u.head? = some c → c ∉ Model.C15.DIRS) :
    (contains (w.map ofChar) (u.map ofChar) = .ok true ↔
      ∃ gs : List (List (List Char)), gs.flatten = Model.C15.factorPinword u ∧
        List.Forall₂ (fun x g => ∀ m ∈ Model.C15.spToM x,
          Model.C15.nfaAccepts (Model.C15.nfaOfDecomp (g.map Model.C15.spToM)) m = true)
          (Model.C15.factorPinword w) gs)
    ∧ (contains (w.map ofChar) (u.map ofChar) = .ok true ↔
      ∃ gs : List (List (List Char)), gs.flatten = Model.C15.factorPinword u ∧
        List.Forall₂ (fun x g => ∃ m ∈ Model.C15.spToM x,
          Model.C15.nfaAccepts (Model.C15.nfaOfDecomp (g.map Model.C15.spToM)) m = true)
          (Model.C15.factorPinword w) gs) :=
  ⟨C14C15.general_all w u hw hu, C14C15.general_some w u hw hu⟩

/-- non-vacuity: `w = 2U3` (factors `2U`, `3`) contains `u = 23` (one factor of `u` per factor of `w`:
    the second one starts on the numeral `3`, touching the first), but `w = 2U` does not (finding
    `C14-touch`): no way to cut `2·2` into one group whose automaton accepts `ULU` -/
example :
    (∃ gs : List (List (List Char)), gs.flatten = Model.C15.factorPinword "23".toList ∧
      List.Forall₂ (fun x g => ∀ m ∈ Model.C15.spToM x,
        Model.C15.nfaAccepts (Model.C15.nfaOfDecomp (g.map Model.C15.spToM)) m = true)
        (Model.C15.factorPinword "2U3".toList) gs)
    ∧ ¬ (∃ gs : List (List (List Char)), gs.flatten = Model.C15.factorPinword "22".toList ∧
      List.Forall₂ (fun x g => ∃ m ∈ Model.C15.spToM x,
        Model.C15.nfaAccepts (Model.C15.nfaOfDecomp (g.map Model.C15.spToM)) m = true)
        (Model.C15.factorPinword "2U".toList) gs) := by
  constructor
  · exact (nfa_vs_occurrences_general "2U3".toList "23".toList (by decide) (by decide)).1.mp
      (by decide +kernel)
  · intro h
    exact absurd ((nfa_vs_occurrences_general "2U".toList "22".toList (by decide) (by decide)).2.mpr h)
      (by decide +kernel)

/-! ## A6 — Theorem 3.13: `pinword_contains` decides pattern containment -/

/-- **pinword_contains_sound** (Bassino–Bouvel–Pierrot–Rossin Thm 3.13, direction ⇐): if
    `pinword_contains(w, u)` returns `True` for two words that decode (`w ↦ σ`, `u ↦ π`; by
    `decode_ok_iff` these are exactly the words of the language – several numerals allowed on both
    sides), then `σ` contains the pattern `π`. -/
theorem pinword_contains_sound (w u : Word) (σ π : NSeq) (hσ : pinwordToPerm w = .ok σ)
    (hπ : pinwordToPerm u = .ok π) (h : contains w u = .ok true) : Contains σ π := by
  have hw := (decode_ok_iff w).mp ⟨σ, hσ⟩
  have hu := (decode_ok_iff u).mp ⟨π, hπ⟩
  obtain ⟨σ', π', h1, h2, h3⟩ := C14S.contains_sound w u hw hu h
  rw [hσ] at h1; rw [hπ] at h2
  cases h1; cases h2
  exact h3

/-- **pinword_contains_complete** (Thm 3.13, direction ⇒): every permutation `π` contained in the
    permutation `σ` of a pin word `w` has a pin word `u` – one of the words that
    `pinwords_of_length(len π)` enumerates and that decodes to `π` – with `pinword_contains(w, u) = True`. -/
theorem pinword_contains_complete (w : Word) (σ π : NSeq) (hσ : pinwordToPerm w = .ok σ)
    (hπ : IsPerm π) (hc : Contains σ π) :
    ∃ u ∈ pinwordsOfLength π.length, pinwordToPerm u = .ok π ∧ contains w u = .ok true := by
  have hw := (decode_ok_iff w).mp ⟨σ, hσ⟩
  obtain ⟨u, h1, h2, h3, h4⟩ := C14S.contains_complete w hw σ π hσ hπ hc
  exact ⟨u, (generator_spec _ u).mpr ⟨h1, h2⟩, h3, h4⟩

/-- **pinword_contains_iff** (Thm 3.13 as the code computes it): for every pin word `w` (any word
    that decodes, `w ↦ σ`) and every permutation `π`:
    `π ≤ σ` **iff** some pin word `u` of `π` has `pinword_contains(w, u) = True`. -/
theorem pinword_contains_iff (w : Word) (σ π : NSeq) (hσ : pinwordToPerm w = .ok σ) (hπ : IsPerm π) :
    Contains σ π ↔
      ∃ u ∈ pinwordsOfLength π.length, pinwordToPerm u = .ok π ∧ contains w u = .ok true :=
  ⟨pinword_contains_complete w σ π hσ hπ,
   fun ⟨u, _, h2, h3⟩ => pinword_contains_sound w u σ π hσ h2 h3⟩

/-- … read through the table the code uses (`pinwords_for_basis` looks the pin words of `π` up in
    `perm_to_pinword_mapping(len π)`): `π ≤ σ` iff one of the words listed under `π` is found in `w` -/
theorem pinword_contains_iff_table (w : Word) (σ π : NSeq) (hσ : pinwordToPerm w = .ok σ)
    (hπ : IsPerm π) :
    ∃ t, permToPinwordMapping π.length = .ok t ∧
      (Contains σ π ↔ ∃ u, Rel t π u ∧ contains w u = .ok true) := by
  obtain ⟨t, h1, h2, _⟩ := permToPinwordMapping_spec π.length
  refine ⟨t, h1, ?_⟩
  rw [pinword_contains_iff w σ π hσ hπ]
  constructor
  · rintro ⟨u, hu, h3, h4⟩; exact ⟨u, (h2 π u).mpr ⟨hu, h3⟩, h4⟩
  · rintro ⟨u, hu, h4⟩; obtain ⟨h5, h6⟩ := (h2 π u).mp hu; exact ⟨u, h5, h6, h4⟩

/-- non-vacuity of the soundness direction: `1` is found in `2UR` (on the letter `R`, whose pin lies in
    quadrant 1), hence `perm(2UR)` contains `perm(1)` -/
example : ∃ σ π, pinwordToPerm [q2, U, R] = .ok σ ∧ pinwordToPerm [q1] = .ok π ∧ Contains σ π := by
  obtain ⟨σ, hσ, _⟩ := decode_total [q2, U, R] (by decide)
  obtain ⟨π, hπ, _⟩ := decode_total [q1] (by decide)
  exact ⟨σ, π, hσ, hπ, pinword_contains_sound _ _ σ π hσ hπ (by decide +kernel)⟩

/-- non-vacuity of the completeness direction: the pattern `0` of `perm(2U)` is found through one
    of the four one-letter pin words -/
example : ∃ u ∈ pinwordsOfLength 1, pinwordToPerm u = .ok [0] ∧ contains [q2, U] u = .ok true := by
  obtain ⟨σ, hσ, _, hl⟩ := decode_total [q2, U] (by decide)
  refine pinword_contains_complete [q2, U] σ [0] hσ (by decide) ⟨[0], rfl, by simp [StrictInc], ?_, ?_⟩
  · intro i hi; simp at hi; subst hi; rw [hl]; decide
  · intro a b ha hb
    simp only [List.length_cons, List.length_nil, Nat.zero_add, Nat.lt_one_iff] at ha hb
    subst ha hb; simp

/-- … and a pattern that is *not* contained is not found: `perm(2U)` has length 2 and two different
    pin words of length 2, `2U` and `22`, are found resp. not found; by the theorem `perm(22)` is
    not a pattern of `perm(2U)` (this is what finding `C14-touch` violated before the fix) -/
example : ∃ σ π, pinwordToPerm [q2, U] = .ok σ ∧ pinwordToPerm [q2, q2] = .ok π
    ∧ contains [q2, U] [q2, q2] = .ok false := by
  obtain ⟨σ, hσ, _⟩ := decode_total [q2, U] (by decide)
  obtain ⟨π, hπ, _⟩ := decode_total [q2, q2] (by decide)
  exact ⟨σ, π, hσ, hπ, by decide +kernel⟩

/-- **containsTable_spec**: the function behind the harness ops `pw_pcont` / `pw_pcontnt` – for a
    pin word `w ↦ σ` and a length `k`, one Boolean per permutation `π` of length `k` (in the order
    of `lexPerms k`): "some word listed under `π` in `pinword_to_perm_mapping(k)` is found in `w`"
    by `pinword_contains` (`filt = false`) or by the non-touching filter over
    `pinword_occurrences` (`filt = true`) – never fails and answers `Contains σ π` on every entry;
    `lexPerms k` lists exactly the permutations of length `k`. -/
theorem containsTable_spec (w : Word) (σ : NSeq) (hσ : pinwordToPerm w = .ok σ) (k : Nat) (filt : Bool) :
    ∃ bs, containsTable w k filt = .ok bs
      ∧ List.Forall₂ (fun π b => (b = true ↔ Contains σ π)) (lexPerms k) bs
      ∧ ∀ π, π ∈ lexPerms k ↔ IsPerm π ∧ π.length = k := by
  have hw := (decode_ok_iff w).mp ⟨σ, hσ⟩
  obtain ⟨tbl, htbl, _, hmem⟩ := pinwordToPermMapping_spec k
  let f : Word × NSeq → Except Err Bool := fun kv => if filt = true then containsNT w kv.1 else contains w kv.1
  have hf : ∀ kv ∈ tbl, f kv = contains w kv.1 ∧ ∃ b, contains w kv.1 = .ok b := by
    intro kv hkv
    have hu := ((generator_spec k kv.1).mp ((hmem kv.1 kv.2).mp hkv).1).1
    refine ⟨?_, _, (occurrences_total w kv.1 hw hu).2⟩
    simp only [f]
    split
    · exact (contains_eq_containsNT_lang w kv.1 hw).symm
    · rfl
  let H : NSeq → Bool := fun π => false || (tbl.filter fun kv => kv.2 = π).any fun kv => f kv == .ok true
  have hG : ∀ π ∈ lexPerms k,
      (tbl.filter fun kv => kv.2 = π).foldlM (fun acc kv =>
        if acc = true then Except.ok true
        else if filt = true then containsNT w kv.1 else contains w kv.1) false = .ok (H π) := by
    intro π _
    apply C14S.foldlM_any f
    intro kv hkv
    obtain ⟨h1, b, h2⟩ := hf kv (List.mem_filter.mp hkv).1
    exact ⟨b, h1 ▸ h2⟩
  refine ⟨(lexPerms k).map H, ?_, ?_, fun π =>
    ⟨C14S.lexPerms_isPerm k π, fun h => C14S.lexPerms_complete k π h.1 h.2⟩⟩
  · simp only [containsTable, htbl, containsTableWith]
    exact C14S.mapM_ok _ H _ hG
  · rw [List.forall₂_map_right_iff, List.forall₂_same]
    intro π hπ
    obtain ⟨hperm, hlen⟩ := C14S.lexPerms_isPerm k π hπ
    rw [pinword_contains_iff w σ π hσ hperm, hlen]
    simp only [H, Bool.false_or, List.any_eq_true, List.mem_filter, decide_eq_true_eq, beq_iff_eq]
    constructor
    · rintro ⟨kv, ⟨hkv, rfl⟩, h⟩
      obtain ⟨h1, h2⟩ := (hmem kv.1 kv.2).mp hkv
      exact ⟨kv.1, h1, h2, (hf kv hkv).1 ▸ h⟩
    · rintro ⟨u, hu, h1, h2⟩
      have hkv : (u, π) ∈ tbl := (hmem u π).mpr ⟨hu, h1⟩
      exact ⟨(u, π), ⟨hkv, rfl⟩, ((hf _ hkv).1).symm ▸ h2⟩

example : (lexPerms 2) = [[0, 1], [1, 0]] := by decide


/-! ## A6′ — … and so does the basis automaton of C15 (`accepts_iff_contains`) -/

/-- C15's model also carries its own copies of `pinword_to_perm` and `pinwords_of_length`
    (on strings); they agree with this model's: `perm_to_pinword_mapping(len p)[p]` as C15 computes
    it (`Model.C15.permToPinwords`) lists exactly the enumerated words that decode to `p` here -/
theorem helpers_agree_C15_decode (p : NSeq) (u : List Char) :
    u ∈ Model.C15.permToPinwords p ↔
      u.map ofChar ∈ pinwordsOfLength p.length ∧ pinwordToPerm (u.map ofChar) = .ok p := by
  unfold Model.C15.permToPinwords
  rw [List.mem_filter, C14C15.mem_pw15]
  constructor
  · rintro ⟨h1, h2⟩
    refine ⟨h1, ?_⟩
    obtain ⟨π, hπ, _⟩ := decode_total _ ((generator_spec _ _).mp h1).1
    have := C14C15.decode_bridge u π hπ
    simp only [Model.C15.decodesTo, this, beq_iff_eq] at h2
    exact h2 ▸ hπ
  · rintro ⟨h1, h2⟩
    refine ⟨h1, ?_⟩
    simp [Model.C15.decodesTo, C14C15.decode_bridge u p h2]

example : Model.C15.permToPinwords [0] = [['1'], ['2'], ['3'], ['4']] := by decide +kernel

theorem ofChar_toChar (c : Letter) (h : c.isQuad = true ∨ c.isDir = true) : ofChar (toChar c) = c := by
  cases c <;> simp_all [isQuad, isDir] <;> decide

theorem toL_map_toChar (u : Word) (h : ∀ x ∈ u, x.isQuad = true ∨ x.isDir = true) :
    (u.map toChar).map ofChar = u := by
  rw [List.map_map]
  conv_rhs => rw [← List.map_id u]
  apply List.map_congr_left
  intro x hx
  exact ofChar_toChar x (h x hx)

/-- **basisAccepts_iff_contains** (C15's `accepts_iff_contains`): for every basis `B` of
    permutations and every word `m` of `M` (direction letters, no two consecutive ones on one
    axis) with at least two letters: `m_to_sp(m)` is a strict pin word `w`, it decodes to a
    permutation `σ`, and the basis automaton semantics of C15 (`Model.C15.basisAccepts`: the NFA of
    `make_nfa_for_pinword(u)` accepts `m` for some pin word `u` of some `p ∈ B`; by
    `C15.pipeline_language` this is what the automaton of `make_dfa_for_basis(B)` accepts on words
    over `DIRS`) accepts `m` **iff `σ` contains some basis element**. -/
theorem basisAccepts_iff_contains (B : List NSeq) (hB : ∀ p ∈ B, IsPerm p) (m : List Char)
    (hm : Spec.C15.InM m) (hlen : 2 ≤ m.length) :
    ∃ w σ, mToSp (m.map ofChar) = .ok w ∧ isStrict w = true ∧ pinwordToPerm w = .ok σ
      ∧ (Model.C15.basisAccepts B m = true ↔ ∃ p ∈ B, Contains σ p) := by
  obtain ⟨w, hw1, hw2, hw3, _⟩ := nfa_vs_occurrences_M m [] hm hlen (by simp)
  obtain ⟨σ, hσ, _⟩ := decode_total w hw3
  have key : ∀ u : List Char, inLang (u.map ofChar) = true →
      (Model.C15.nfaAccepts (Model.C15.nfaForPinword u) m = true ↔
        contains w (u.map ofChar) = .ok true) := by
    intro u hu
    have hhead : ∀ c, u.head? = some c → c ∉ Model.C15.DIRS := by
      intro c hc hd
      have hq := C14S.inLang_head hu (ofChar c) (by cases u <;> simp_all)
      have : (ofChar c).isDir = true := by rw [C14C15.isDir_ofChar]; simpa using hd
      cases h : ofChar c <;> simp_all [isQuad, isDir]
    obtain ⟨w', h1, _, _, h4⟩ := nfa_vs_occurrences_M m u hm hlen hhead
    rw [hw1] at h1; cases h1
    exact h4
  refine ⟨w, σ, hw1, hw2, hσ, ?_⟩
  unfold Model.C15.basisAccepts Model.C15.wordsAccept Model.C15.pinwordsForBasis Model.C15.pinwordAccepts
  rw [List.any_eq_true]
  constructor
  · rintro ⟨u, hu, hacc⟩
    obtain ⟨p, hp, hup⟩ := List.mem_flatMap.mp hu
    obtain ⟨h1, h2⟩ := (helpers_agree_C15_decode p u).mp hup
    have hlang := ((generator_spec _ _).mp h1).1
    exact ⟨p, hp, pinword_contains_sound w _ σ p hσ h2 ((key u hlang).mp hacc)⟩
  · rintro ⟨p, hp, hc⟩
    obtain ⟨u', hu1, hu2, hu3⟩ := pinword_contains_complete w σ p hσ (hB p hp) hc
    have hlang := ((generator_spec _ _).mp hu1).1
    have hback := toL_map_toChar u' (inLang_alpha u' hlang)
    refine ⟨u'.map toChar, List.mem_flatMap.mpr ⟨p, hp, ?_⟩, ?_⟩
    · rw [helpers_agree_C15_decode, hback]; exact ⟨hu1, hu2⟩
    · rw [key _ (by rw [hback]; exact hlang), hback]; exact hu3

/-- non-vacuity: `UR ∈ M` is accepted by the automaton semantics of the basis `{0}`, so the permutation
    of `m_to_sp(UR) = 1` contains `0`; it has one point and cannot contain `10`, so – by the theorem,
    without running the automaton – the basis `{10}` rejects `UR` -/
example : (∃ w σ, mToSp ("UR".toList.map ofChar) = .ok w ∧ pinwordToPerm w = .ok σ
      ∧ ∃ p ∈ [[0]], Contains σ p)
    ∧ Model.C15.basisAccepts [[1, 0]] "UR".toList = false := by
  have hm : Spec.C15.InM "UR".toList := by
    refine ⟨by unfold Spec.C15.AStar; decide, ?_⟩
    intro x a b v h
    have : x.length < 1 := by
      have := congrArg List.length h; simp at this; omega
    match x, this with
    | [], _ => cases h; decide
  constructor
  · obtain ⟨w, σ, h1, _, h3, h4⟩ := basisAccepts_iff_contains [[0]] (by decide) "UR".toList hm (by decide)
    exact ⟨w, σ, h1, h3, h4.mp (by decide +kernel)⟩
  · obtain ⟨w, σ, h1, _, h3, h4⟩ := basisAccepts_iff_contains [[1, 0]] (by decide) "UR".toList hm (by decide)
    have hw : w = [q1] := by
      have : mToSp ("UR".toList.map ofChar) = .ok [q1] := by decide
      rw [this] at h1; cases h1; rfl
    subst hw
    obtain ⟨σ', hσ', _, hl⟩ := decode_total [q1] (by decide)
    rw [h3] at hσ'; cases hσ'
    cases hb : Model.C15.basisAccepts [[1, 0]] "UR".toList with
    | false => rfl
    | true =>
      obtain ⟨p, hp, c, hc⟩ := h4.mp hb
      simp only [List.mem_singleton] at hp
      subst hp
      have hlen := hc.len
      have hrng := hc.rng
      have hinc := hc.inc
      match c, hlen with
      | [a, b], _ =>
        simp only [StrictInc, List.pairwise_cons, List.mem_singleton, forall_eq] at hinc
        have := hrng b (by simp)
        simp only [hl, List.length_cons, List.length_nil] at this
        omega


/-! ## A7 — what `has_finite_pinperms` decides (C15 / C16) -/

theorem InM_of_inM (m : Word) (hm : inM m = true) : Spec.C15.InM (m.map toChar) := by
  have hdir : ∀ x ∈ m, x.isDir = true := by
    cases m with
    | nil => intro x hx; simp at hx
    | cons c rest =>
      simp only [inM, Bool.and_eq_true, List.all_eq_true] at hm
      intro x hx
      rcases List.mem_cons.mp hx with rfl | hx
      · exact hm.1.1
      · exact hm.2 x hx
  constructor
  · intro c hc
    obtain ⟨x, hx, rfl⟩ := List.mem_map.mp hc
    have := hdir x hx
    cases x <;> simp_all [isDir, toChar] <;> decide
  · intro u a b v h
    obtain ⟨u0, t, rfl, _, ht⟩ := List.map_eq_append_iff.mp h
    match t, ht with
    | x :: y :: v0, ht =>
      simp only [List.map_cons, List.cons.injEq] at ht
      obtain ⟨rfl, rfl, _⟩ := ht
      obtain ⟨hx, hy, hxy⟩ := C14C15.inM_adj _ hm u0.length x y (by simp) (by simp)
      cases x <;> simp only [isDir] at hx <;> try exact absurd hx (by decide)
      all_goals
        cases y <;> simp only [isDir] at hy <;> try exact absurd hy (by decide)
      all_goals first
        | exact absurd hxy (by decide)
        | decide


/-- every non-empty strict pin word of the language is `m_to_sp` of a word of `M` (one letter longer) -/
theorem strict_from_M (w : Word) (hs : isStrict w = true) (hw : inLang w = true) (hne : w ≠ []) :
    ∃ m : List Char, Spec.C15.InM m ∧ m.length = w.length + 1 ∧ mToSp (m.map ofChar) = .ok w := by
  match w, hne with
  | q :: ds, _ =>
    simp only [isStrict, Bool.and_eq_true, List.all_eq_true] at hs
    simp only [inLang, Bool.and_eq_true] at hw
    obtain ⟨ms, _, hne', hall⟩ := C14C15.spToM_strict q ds hs.1 hs.2 hw.2
    obtain ⟨m', hm'⟩ := List.exists_mem_of_ne_nil _ hne'
    obtain ⟨a, b, rfl, hM, hlk⟩ := hall m' hm'
    have hback : ((a :: b :: ds).map toChar).map ofChar = a :: b :: ds := by
      apply toL_map_toChar
      intro x hx
      have := C14C15.ctx_dirs ⟨hs.1, hs.2, hw.2, hM, hlk⟩ x hx
      exact Or.inr this
    refine ⟨(a :: b :: ds).map toChar, InM_of_inM _ hM, by simp, ?_⟩
    rw [hback, mToSp_pair, hlk]

/-- **hasFinitePinperms_iff** – what the pin half of `has_finite_simples` decides: for a basis `B`
    of permutations, `has_finite_pinperms(B)` (model of C15: basis automaton, difference with the
    automaton of `M`, finiteness test) returns `True` **iff the permutations of strict pin words that
    avoid `B` have bounded length**, i.e. iff `Av(B)` contains only finitely many permutations encoded by
    strict pin words. -/
theorem hasFinitePinperms_iff (B : List NSeq) (hB : ∀ p ∈ B, IsPerm p) :
    Model.C15.hasFinitePinperms B = true ↔
      ∃ N, ∀ w σ, isStrict w = true → pinwordToPerm w = .ok σ → (∀ p ∈ B, ¬ Contains σ p) →
        σ.length ≤ N := by
  rw [C15.has_finite_pinperms_iff_bounded]
  constructor
  · rintro ⟨N, hN⟩
    refine ⟨N, fun w σ hs hσ hav => ?_⟩
    have hw := (decode_ok_iff w).mp ⟨σ, hσ⟩
    obtain ⟨σ', hσ', _, hl⟩ := decode_total w hw
    rw [hσ] at hσ'; cases hσ'
    by_cases hne : w = []
    · subst hne; rw [hl]; simp
    · obtain ⟨m, hm, hml, hmsp⟩ := strict_from_M w hs hw hne
      have hpos : 0 < w.length := List.length_pos_iff.mpr hne
      obtain ⟨w', σ', h1, _, h3, h4⟩ := basisAccepts_iff_contains B hB m hm (by omega)
      rw [hmsp] at h1; cases h1
      rw [hσ] at h3; cases h3
      have hb : Model.C15.basisAccepts B m = false := by
        cases hb : Model.C15.basisAccepts B m with
        | false => rfl
        | true => obtain ⟨p, hp, hc⟩ := h4.mp hb; exact absurd hc (hav p hp)
      have := hN m hm hb
      omega
  · rintro ⟨N, hN⟩
    refine ⟨N + 1, fun m hm hb => ?_⟩
    by_cases hlen : 2 ≤ m.length
    · obtain ⟨w, σ, h1, h2, h3, h4⟩ := basisAccepts_iff_contains B hB m hm hlen
      have hav : ∀ p ∈ B, ¬ Contains σ p := fun p hp hc => by
        rw [h4.mpr ⟨p, hp, hc⟩] at hb; cases hb
      have hle := hN w σ h2 h3 hav
      obtain ⟨σ', hσ', _, hl⟩ := decode_total w ((decode_ok_iff w).mp ⟨σ, h3⟩)
      rw [h3] at hσ'; cases hσ'
      have hwl : w.length + 1 = m.length := by
        match m, hlen with
        | a :: b :: rest, _ =>
          simp only [List.map_cons, mToSp_pair] at h1
          split at h1
          · cases h1
          · cases h1; simp
      omega
    · omega

/-- **the pin half depends only on the class**: two bases of permutations with the same avoiders get
    the same answer from `has_finite_pinperms` (this is the hypothesis `hpin` of
    `C16.hasFiniteSimples_class_only` for `dfa = None`) -/
theorem hasFinitePinperms_class_only (B B' : List NSeq) (hB : ∀ x ∈ B, IsPerm x) (hB' : ∀ x ∈ B', IsPerm x)
    (h : ∀ σ, IsPerm σ → ((∀ x ∈ B, ¬ Contains σ x) ↔ (∀ x ∈ B', ¬ Contains σ x))) :
    Model.C15.hasFinitePinperms B = Model.C15.hasFinitePinperms B' := by
  rw [Bool.eq_iff_iff, hasFinitePinperms_iff B hB, hasFinitePinperms_iff B' hB']
  have key : ∀ w σ, pinwordToPerm w = .ok σ → IsPerm σ := by
    intro w σ hσ
    obtain ⟨σ', hσ', hp, _⟩ := decode_total w ((decode_ok_iff w).mp ⟨σ, hσ⟩)
    rw [hσ] at hσ'; cases hσ'; exact hp
  constructor
  · rintro ⟨N, hN⟩
    exact ⟨N, fun w σ hs hσ hav => hN w σ hs hσ ((h σ (key w σ hσ)).mpr hav)⟩
  · rintro ⟨N, hN⟩
    exact ⟨N, fun w σ hs hσ hav => hN w σ hs hσ ((h σ (key w σ hσ)).mp hav)⟩

/-- non-vacuity, both verdicts (the model's verdicts are evaluated, the conclusions follow by the
    theorem): avoiding `0` leaves only the empty pin permutation; the empty basis leaves all of them -/
example : (∃ N, ∀ w σ, isStrict w = true → pinwordToPerm w = .ok σ → (∀ p ∈ [[0]], ¬ Contains σ p) →
      σ.length ≤ N)
    ∧ ¬ (∃ N, ∀ w σ, isStrict w = true → pinwordToPerm w = .ok σ → (∀ p ∈ ([] : List NSeq), ¬ Contains σ p) →
      σ.length ≤ N) :=
  ⟨(hasFinitePinperms_iff _ (by decide)).mp (by decide +kernel),
   fun h => absurd ((hasFinitePinperms_iff _ (by decide)).mpr h) (by decide +kernel)⟩

example : Model.C15.hasFinitePinperms [[0, 1]] = Model.C15.hasFinitePinperms [[0, 1], [0, 1]] := by
  refine hasFinitePinperms_class_only _ _ (by decide) (by decide) ?_
  intro σ _
  simp


/-! ## A8 — the eight symmetries -/

/-- **pin permutations are closed under the eight symmetries**: for a word `w` that decodes to `σ`
    and a symmetry `g` (reverse / complement / inverse and their compositions, `D8.act`), the word
    `g·w` obtained by renaming the letters (`C14S.actWord`: e.g. reverse swaps `L↔R`, `1↔2`, `3↔4`)
    decodes to `g·σ`; it has the same length and is strict when `w` is. -/
theorem decode_act (g : D8) (w : Word) (σ : NSeq) (hσ : pinwordToPerm w = .ok σ) :
    pinwordToPerm (C14S.actWord g w) = .ok (g.act σ)
      ∧ (isStrict w = true → isStrict (C14S.actWord g w) = true)
      ∧ (C14S.actWord g w).length = w.length := C14S.decode_act g w σ hσ

example : C14S.actWord ⟨true, false, false⟩ [q3, D, L, q2, U, R] = [q4, D, R, q1, U, L] := by decide

/-- **hasFinitePinperms_act** – the pin half of `has_finite_simples` is invariant under the eight
    symmetries (the hypothesis `hpin` of `C16.hasFiniteSimples_act` for `dfa = None`) -/
theorem hasFinitePinperms_act (B : List NSeq) (hB : ∀ x ∈ B, IsPerm x) (g : D8) :
    Model.C15.hasFinitePinperms (B.map g.act) = Model.C15.hasFinitePinperms B := by
  have bounded_of_act : ∀ (B : List NSeq), (∀ x ∈ B, IsPerm x) → ∀ (g : D8) (N : Nat),
      (∀ w σ, isStrict w = true → pinwordToPerm w = .ok σ → (∀ p ∈ B.map g.act, ¬ Contains σ p) →
        σ.length ≤ N) →
      ∀ w σ, isStrict w = true → pinwordToPerm w = .ok σ → (∀ p ∈ B, ¬ Contains σ p) → σ.length ≤ N := by
    intro B hB g N h w σ hs hσ hav
    obtain ⟨h1, h2, h3⟩ := decode_act g w σ hσ
    obtain ⟨σ0, hσ0, hσp, hl⟩ := decode_total w ((decode_ok_iff w).mp ⟨σ, hσ⟩)
    rw [hσ] at hσ0; cases hσ0
    obtain ⟨σ1, hσ1, _, hl1⟩ := decode_total _ ((decode_ok_iff _).mp ⟨_, h1⟩)
    rw [h1] at hσ1; cases hσ1
    have := h _ _ (h2 hs) h1 (by
      intro p hp hc
      obtain ⟨p0, hp0, rfl⟩ := List.mem_map.mp hp
      exact hav p0 hp0 ((C16L.contains_act_iff (hB p0 hp0) hσp g).mp hc))
    omega
  have hB' : ∀ x ∈ B.map g.act, IsPerm x := by
    intro x hx
    obtain ⟨p, hp, rfl⟩ := List.mem_map.mp hx
    exact C04L.isPerm_act (hB p hp) g
  have hback : (B.map g.act).map g.inv.act = B := by
    rw [List.map_map]
    conv_rhs => rw [← List.map_id B]
    apply List.map_congr_left
    intro p hp
    simp only [Function.comp, id]
    rw [C04L.act_mul (hB p hp), C04L.inv_mul, C04L.act_one]
  rw [Bool.eq_iff_iff, hasFinitePinperms_iff _ hB', hasFinitePinperms_iff _ hB]
  constructor
  · rintro ⟨N, hN⟩; exact ⟨N, bounded_of_act B hB g N hN⟩
  · rintro ⟨N, hN⟩
    exact ⟨N, bounded_of_act (B.map g.act) hB' g.inv N (by rw [hback]; exact hN)⟩

example : Model.C15.hasFinitePinperms ([[0, 1, 2], [1, 0]].map (⟨true, false, true⟩ : D8).act)
    = Model.C15.hasFinitePinperms [[0, 1, 2], [1, 0]] := hasFinitePinperms_act _ (by decide) _


/-! ## tie to the source: the tables the model uses are the ones in the repository -/

/-- `DIRS`, `QUADS` (pin_words.py:18-19) -/
theorem alphabet_generated :
    wordOfString Generated.c14_DIRS = [U, L, D, R] ∧ wordOfString Generated.c14_QUADS = [q1, q2, q3, q4]
    ∧ (∀ c : Letter, c.isDir = true ↔ c ∈ wordOfString Generated.c14_DIRS)
    ∧ (∀ c : Letter, c.isQuad = true ↔ c ∈ wordOfString Generated.c14_QUADS) := by
  have h1 : wordOfString Generated.c14_DIRS = [U, L, D, R] := by decide
  have h2 : wordOfString Generated.c14_QUADS = [q1, q2, q3, q4] := by decide
  rw [h1, h2]
  refine ⟨rfl, rfl, ?_, ?_⟩ <;> intro c <;> cases c <;> simp [isDir, isQuad]

/-- `letter_dict` of `sp_to_m` and of `m_to_sp`, `opposite` (pin_words.py:157,158,184) -/
theorem letterDict_generated :
    Generated.c14_spToM_letterDict.map (fun e => (letterOfString e.1, wordOfString e.2))
      = letterDict.map (fun e => (e.1, [e.2.1, e.2.2]))
    ∧ Generated.c14_mToSp_letterDict = Generated.c14_spToM_letterDict
    ∧ Generated.c14_spToM_opposite.map (fun e => (letterOfString e.1, letterOfString e.2)) = oppositeDict := by
  decide

/-- `PinWordUtil.caller` and the statement shape of the eight letter methods
    (pinword_util.py:11-124) are what the model's `numeralTable` / `dirTable` say -/
theorem charTables_generated :
    Generated.c14_caller = expectedCaller ∧ Generated.c14_charShapes = expectedShapes := by decide

/-- … and `call` dispatches according to those tables -/
theorem call_tables (pts : List Pt) :
    (∀ e ∈ numeralTable, call e.1 pts = charNumeral e.2.1 e.2.2 pts)
    ∧ (∀ e ∈ dirTable, call e.1 pts = charDir e.2.1 e.2.2 pts) := by
  simp [numeralTable, dirTable, call]

end C14
