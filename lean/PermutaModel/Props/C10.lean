import PermutaModel.Lemmas.C10Shift
import PermutaModel.Lemmas.C10Cover
import PermutaModel.Lemmas.C10Blocks
import PermutaModel.Lemmas.C10Finest
import PermutaModel.Lemmas.C10Extra
import PermutaModel.Lemmas.C10Inflate
import PermutaModel.Lemmas.C10Mono
import PermutaModel.Lemmas.C10Unique
import PermutaModel.Lemmas.C10Contained
import PermutaModel.Lemmas.C10MonoMax
import PermutaModel.Lemmas.C10Sorted
import PermutaModel.Lemmas.C10InflateOnes

/-!
# C10 — algebraic and structural operations return valid permutations obeying their laws

Property theorems only (helpers are in `Lemmas/C10*.lean`).  All statements are about the
definitions the driver executes (`Model/C10.lean`, `Model/Perm.lean`), universally quantified over
permutations (`IsPerm`) and over all argument values; guards of the real code (`assert`,
`IndexError`) appear as explicit `Except` results.
-/
open Model Spec.C10 C10L

namespace C10

/-! ## closure: every operation returns a permutation of the documented length -/

/-- `p ⊕ q` is a permutation of length `|p| + |q|` -/
theorem directSum_closed (p q : NSeq) (hp : IsPerm p) (hq : IsPerm q) :
    IsPerm (directSum p q) ∧ (directSum p q).length = p.length + q.length :=
  ⟨directSum_isPerm hp hq, length_directSum p q⟩
example : IsPerm (directSum [1, 0] [0, 2, 1]) ∧ directSum [1, 0] [0, 2, 1] = [1, 0, 2, 4, 3] := by decide

/-- `p ⊖ q` is a permutation of length `|p| + |q|` -/
theorem skewSum_closed (p q : NSeq) (hp : IsPerm p) (hq : IsPerm q) :
    IsPerm (skewSum p q) ∧ (skewSum p q).length = p.length + q.length :=
  ⟨skewSum_isPerm hp hq, length_skewSum p q⟩
example : skewSum [1, 0] [0, 2, 1] = [4, 3, 0, 2, 1] := by decide

/-- the variadic `direct_sum(self, *others)` is the left fold of the binary sum, a permutation of
    the total length (empty components included) -/
theorem directSumN_closed (p : NSeq) (os : List NSeq) (hp : IsPerm p) (ho : ∀ o ∈ os, IsPerm o) :
    directSumN p os = os.foldl directSum p ∧ IsPerm (directSumN p os) ∧
      (directSumN p os).length = p.length + (os.map List.length).sum := by
  rw [directSumN_eq_foldl]
  exact ⟨rfl, foldl_directSum_isPerm hp ho, length_foldl_directSum p os⟩
example : directSumN [0] [[1, 0], [], [2, 1, 0]] = [0, 2, 1, 5, 4, 3] := by decide

/-- the variadic `skew_sum(self, *others)` likewise -/
theorem skewSumN_closed (p : NSeq) (os : List NSeq) (hp : IsPerm p) (ho : ∀ o ∈ os, IsPerm o) :
    skewSumN p os = os.foldl skewSum p ∧ IsPerm (skewSumN p os) ∧
      (skewSumN p os).length = p.length + (os.map List.length).sum := by
  rw [skewSumN_eq_foldl]
  exact ⟨rfl, foldl_skewSum_isPerm hp ho, length_foldl_skewSum p os⟩
example : skewSumN [0] [[0, 1], [2, 1, 0]] = [5, 3, 4, 2, 1, 0] := by decide

/-- composition of permutations of equal length is a permutation of that length -/
theorem compose_closed (p q : NSeq) (hp : IsPerm p) (hq : IsPerm q) (hl : q.length = p.length) :
    IsPerm (compose p q) ∧ (compose p q).length = p.length :=
  ⟨compose_isPerm hp hq hl, length_compose p q⟩
example : compose [0, 3, 1, 2] [2, 1, 0, 3] = [1, 3, 0, 2] := by decide

/-- `Perm.compose(self, other)`: the assert passes exactly for equal lengths, and then the result is
    the binary composition; any operand of another length raises `AssertionError` -/
theorem composeN_spec (p q : NSeq) :
    (q.length = p.length → composeN p [q] = .ok (compose p q)) ∧
    (q.length ≠ p.length → composeN p [q] = .error .assertion) :=
  ⟨composeN_single p q, fun h => composeN_length_mismatch p [q] ⟨q, by simp, h⟩⟩
example : composeN [0, 1] [[0]] = .error .assertion := by decide

/-- the variadic `compose(self, *others)` on permutations of one length passes the assert and is the
    left fold of the binary composition, again a permutation of that length -/
theorem composeN_closed (p : NSeq) (os : List NSeq) (hp : IsPerm p)
    (ho : ∀ o ∈ os, IsPerm o ∧ o.length = p.length) :
    composeN p os = .ok (os.foldl compose p) ∧ IsPerm (os.foldl compose p) ∧
      (os.foldl compose p).length = p.length :=
  ⟨composeN_eq_foldl ho, foldl_compose_isPerm hp ho, length_foldl_compose p os⟩
example : composeN [1, 0, 2] [[0, 1, 2], [2, 1, 0]] = .ok [2, 0, 1] := by decide

/-- **inflate**: with one component per point, each `None` or a permutation (empty ones allowed),
    the result is a permutation whose length is the total size; it is the concatenation over the
    positions `j` of component `j` shifted up by the total size of the components that sit on smaller
    values of `p` (the stated point configuration); a wrong number of components hits the assert -/
theorem inflate_closed (p : NSeq) (hp : IsPerm p) (comps : List (Option NSeq))
    (hl : comps.length = p.length) (hc : ∀ o ∈ comps, CompOk o) :
    ∃ shifts : List Nat,
      inflate p comps = .ok ((List.range p.length).flatMap fun j =>
        (compList (comps.getD j none)).map (· + shifts.getD j 0)) ∧
      (∀ j, j < p.length → shifts.getD j 0 =
        (((inverse p).take (p.getD j 0)).map fun i => compSize (comps.getD i none)).sum) ∧
      IsPerm ((List.range p.length).flatMap fun j =>
        (compList (comps.getD j none)).map (· + shifts.getD j 0)) ∧
      ((List.range p.length).flatMap fun j =>
        (compList (comps.getD j none)).map (· + shifts.getD j 0)).length =
          ((List.range p.length).map fun j => compSize (comps.getD j none)).sum :=
  inflate_spec hp comps hl hc
example : inflate [1, 0, 2] [none, some [0, 1], some [0, 1]] = .ok [2, 0, 1, 3, 4] ∧
    inflate [0, 1] [some [], some []] = .ok [] := by decide

/-- a wrong number of components raises `AssertionError` -/
theorem inflate_wrong_count (p : NSeq) (comps : List (Option NSeq)) (hl : comps.length ≠ p.length) :
    inflate p comps = .error .assertion :=
  inflate_length_mismatch p comps hl
example : inflate [0, 1] [none] = .error .assertion := by decide

/-- the inverse is a permutation of the same length and an involution -/
theorem inverse_closed (p : NSeq) (hp : IsPerm p) :
    IsPerm (inverse p) ∧ (inverse p).length = p.length ∧ inverse (inverse p) = p :=
  ⟨inverse_isPerm hp, length_inverse p, inverse_inverse hp⟩
example : inverse [1, 2, 5, 0, 3, 4] = [3, 0, 1, 4, 5, 2] := by decide

/-- `insert(index, value)` with `0 ≤ index ≤ n+1` (the code's assert; `n+1` behaves like `n`) and
    `0 ≤ value ≤ n` returns a permutation of length `n+1` -/
theorem insert_closed (p : NSeq) (hp : IsPerm p) (i v : Int) (hi : 0 ≤ i ∧ i ≤ p.length + 1)
    (hv : 0 ≤ v ∧ v ≤ p.length) :
    ∃ q, insertOpt p (some i) (some v) = .ok q ∧ IsPerm q ∧ q.length = p.length + 1 := by
  refine ⟨insertAt p i.toNat v.toNat, ?_, insertAt_isPerm hp _ (by omega), length_insertAt _ _ _⟩
  simp only [insertOpt, Option.getD_some]
  rw [if_neg (by omega), if_neg (by omega)]
example : insertOpt [2, 0, 1] (some 2) (some 1) = .ok [3, 0, 1, 2] := by decide

/-- the defaults of `insert`: index `None` appends at the right end, value `None` is the new maximum -/
theorem insert_defaults (p : NSeq) (hp : IsPerm p) :
    insertOpt p none none = .ok (p ++ [p.length]) ∧ IsPerm (p ++ [p.length]) := by
  have h : insertOpt p none none = .ok (insertAt p (p.length + 1) p.length) := by
    simp only [insertOpt, Option.getD_none]
    rw [if_neg (by omega), if_neg (by omega)]
    rfl
  have e : insertAt p (p.length + 1) p.length = p ++ [p.length] := by
    rw [insertAt_eq, List.take_of_length_le (by omega), List.drop_of_length_le (by omega)]
    simp only [List.map_nil, List.append_nil]
    congr 1
    conv_rhs => rw [← List.map_id p]
    apply List.map_congr_left
    intro x hx
    have := hp.2 x hx
    simp [bump, this]
  rw [h, e]
  refine ⟨rfl, ?_⟩
  rw [← e]
  exact insertAt_isPerm hp _ (Nat.le_refl _)
example : insertOpt [0, 1] none none = .ok [0, 1, 2] := by decide

/-- out-of-range arguments of `insert` hit the asserts -/
theorem insert_out_of_range (p : NSeq) (i v : Int)
    (h : i < 0 ∨ p.length + 1 < i ∨ v < 0 ∨ p.length < v) :
    insertOpt p (some i) (some v) = .error .assertion := by
  simp only [insertOpt, Option.getD_some]
  by_cases h1 : 0 ≤ i ∧ i ≤ p.length + 1
  · rw [if_neg (by omega), if_pos (by omega)]
  · rw [if_pos h1]
example : insertOpt [0, 1] (some 4) (some 0) = .error .assertion := by decide

/-- `remove(index)` for a valid position (Python's negative positions included) returns a
    permutation of length `n-1`; positions outside `-n … n-1` raise `IndexError` -/
theorem remove_closed (p : NSeq) (hp : IsPerm p) (i : Int) :
    (-(p.length : Int) ≤ i ∧ i < p.length →
      ∃ q, removeOpt p (some i) = .ok q ∧ IsPerm q ∧ q.length = p.length - 1) ∧
    (i < -(p.length : Int) ∨ (p.length : Int) ≤ i → removeOpt p (some i) = .error .indexError) := by
  constructor
  · intro h
    by_cases h0 : 0 ≤ i
    · have hi : i.toNat < p.length := by omega
      refine ⟨removeAt p i.toNat, ?_, removeAt_isPerm hp hi⟩
      simp only [removeOpt]
      rw [if_pos (by omega)]
    · have hi : (i + p.length).toNat < p.length := by omega
      refine ⟨removeAt p (i + p.length).toNat, ?_, removeAt_isPerm hp hi⟩
      simp only [removeOpt]
      rw [if_neg (by omega), if_pos (by omega)]
  · intro h
    simp only [removeOpt]
    rw [if_neg (by omega), if_neg (by omega)]
example : removeOpt [2, 0, 1] (some 2) = .ok [1, 0] ∧ removeOpt [2, 0, 1] (some (-1)) = .ok [1, 0] ∧
    removeOpt [2, 0, 1] (some 3) = .error .indexError := by decide

/-- `remove_element(value)` for `0 ≤ value < n` returns a permutation of length `n-1`; other values
    hit the assert; `None` removes the maximum (and leaves the empty permutation alone) -/
theorem removeElement_closed (p : NSeq) (hp : IsPerm p) (s : Int) :
    (0 ≤ s ∧ s < p.length →
      ∃ q, removeElementOpt p (some s) = .ok q ∧ IsPerm q ∧ q.length = p.length - 1) ∧
    (s < 0 ∨ (p.length : Int) ≤ s → removeElementOpt p (some s) = .error .assertion) ∧
    (∃ q, removeElementOpt p none = .ok q ∧ IsPerm q ∧ q.length = p.length - 1) := by
  refine ⟨?_, ?_, ?_⟩
  · intro h
    have hs : s.toNat < p.length := by omega
    refine ⟨removeElement p s.toNat, ?_, removeElement_isPerm hp hs⟩
    simp only [removeElementOpt]
    rw [if_pos h]
  · intro h
    simp only [removeElementOpt]
    rw [if_neg (by omega)]
  · simp only [removeElementOpt]
    by_cases hn : p.length = 0
    · rw [if_pos hn]; exact ⟨p, rfl, hp, by omega⟩
    · rw [if_neg hn]
      exact ⟨_, rfl, removeElement_isPerm hp (by omega)⟩
example : removeElementOpt [3, 0, 2, 1] (some 0) = .ok [2, 1, 0] ∧
    removeElementOpt [3, 0, 1, 2] none = .ok [0, 1, 2] ∧ removeElementOpt [] none = .ok [] := by decide

/-- the four shifts return permutations of the same length, for every integer amount -/
theorem shifts_closed (p : NSeq) (hp : IsPerm p) (t : Int) :
    (IsPerm (shiftRight p t) ∧ (shiftRight p t).length = p.length) ∧
    (IsPerm (shiftLeft p t) ∧ (shiftLeft p t).length = p.length) ∧
    (IsPerm (shiftUp p t) ∧ (shiftUp p t).length = p.length) ∧
    (IsPerm (shiftDown p t) ∧ (shiftDown p t).length = p.length) :=
  ⟨⟨shiftRight_isPerm hp t, length_shiftRight p t⟩, ⟨shiftRight_isPerm hp (-t), length_shiftRight p (-t)⟩,
   ⟨shiftUp_isPerm hp t, length_shiftUp p t⟩, ⟨shiftUp_isPerm hp (-t), length_shiftUp p (-t)⟩⟩
example : shiftRight [0, 1, 2] (-4) = [1, 2, 0] ∧ shiftUp [0, 1, 2, 3] (-7) = [1, 2, 3, 0] := by decide

/-! ## composition: monoid and group laws -/

/-- composition is associative -/
theorem compose_assoc (p q r : NSeq) (hr : IsPerm r) (hq : q.length = p.length) (hrl : r.length = p.length) :
    compose (compose p q) r = compose p (compose q r) :=
  C10L.compose_assoc hq hrl (fun x hx => hrl ▸ hr.2 x hx)
example : compose (compose [1, 0, 2] [0, 1, 2]) [2, 1, 0] = [2, 0, 1] := by decide

/-- the identity is neutral on both sides -/
theorem compose_identity (p : NSeq) (hp : IsPerm p) :
    compose p (identity p.length) = p ∧ compose (identity p.length) p = p :=
  ⟨compose_identity_right p, compose_identity_left hp.2⟩
example : compose [2, 0, 1] (identity 3) = [2, 0, 1] := by decide

/-- `inverse` is a two-sided inverse for composition -/
theorem compose_inverse (p : NSeq) (hp : IsPerm p) :
    compose p (inverse p) = identity p.length ∧ compose (inverse p) p = identity p.length :=
  ⟨compose_inverse_right hp, compose_inverse_left hp⟩
example : compose [2, 0, 1] (inverse [2, 0, 1]) = [0, 1, 2] := by decide

/-- `(p ∘ q)⁻¹ = q⁻¹ ∘ p⁻¹` -/
theorem inverse_compose (p q : NSeq) (hp : IsPerm p) (hq : IsPerm q) (hl : q.length = p.length) :
    inverse (compose p q) = compose (inverse q) (inverse p) :=
  C10L.inverse_compose hp hq hl
example : inverse (compose [1, 2, 0] [0, 2, 1]) = compose (inverse [0, 2, 1]) (inverse [1, 2, 0]) := by decide

/-! ## sums: point configuration, associativity, skew via complement -/

/-- the points of `p ⊕ q`: `p` unchanged on the left, `q` shifted up by `|p|` on the right -/
theorem directSum_points (p q : NSeq) (i : Nat) :
    (i < p.length → (directSum p q).getD i 0 = p.getD i 0) ∧
    (p.length ≤ i → i < p.length + q.length →
      (directSum p q).getD i 0 = p.length + q.getD (i - p.length) 0) :=
  ⟨directSum_getD_left p q, directSum_getD_right p q⟩

/-- the points of `p ⊖ q`: `p` shifted up by `|q|` on the left, `q` unchanged on the right -/
theorem skewSum_points (p q : NSeq) (i : Nat) :
    (i < p.length → (skewSum p q).getD i 0 = q.length + p.getD i 0) ∧
    (p.length ≤ i → (skewSum p q).getD i 0 = q.getD (i - p.length) 0) :=
  ⟨skewSum_getD_left p q, skewSum_getD_right p q⟩
example : (directSum [1, 0] [0, 1]).getD 3 0 = 2 + ([0, 1] : NSeq).getD 1 0 := by decide

/-- both sums are associative with the empty permutation as unit -/
theorem sums_assoc (p q r : NSeq) :
    directSum (directSum p q) r = directSum p (directSum q r) ∧
    skewSum (skewSum p q) r = skewSum p (skewSum q r) ∧
    directSum [] p = p ∧ directSum p [] = p ∧ skewSum [] p = p ∧ skewSum p [] = p :=
  ⟨directSum_assoc p q r, skewSum_assoc p q r, directSum_nil_left p, directSum_nil_right p,
   skewSum_nil_left p, skewSum_nil_right p⟩

/-- `p ⊖ q = complement (complement p ⊕ complement q)` -/
theorem skewSum_via_complement (p q : NSeq) (hp : IsPerm p) (hq : IsPerm q) :
    skewSum p q = complement (directSum (complement p) (complement q)) :=
  skewSum_eq_complement hp.2 hq.2
example : skewSum [0, 1] [0] = complement (directSum (complement [0, 1]) (complement [0])) := by decide

/-! ## insertion and removal undo each other -/

/-- `p.insert(i, v).remove(i) = p` for every `0 ≤ i ≤ n`, `0 ≤ v ≤ n` (asserts included) -/
theorem remove_insert (p : NSeq) (i v : Int) (hi : 0 ≤ i ∧ i ≤ p.length) (hv : 0 ≤ v ∧ v ≤ p.length) :
    ∃ q, insertOpt p (some i) (some v) = .ok q ∧ removeOpt q (some i) = .ok p := by
  refine ⟨insertAt p i.toNat v.toNat, ?_, ?_⟩
  · simp only [insertOpt, Option.getD_some]
    rw [if_neg (by omega), if_neg (by omega)]
  · simp only [removeOpt, length_insertAt]
    rw [if_pos (by omega), removeAt_insertAt p (by omega)]
example : removeOpt [3, 0, 1, 2] (some 0) = .ok [0, 1, 2] := by decide

/-- removing the inserted *value* also undoes the insertion, at every index the assert admits -/
theorem removeElement_insert (p : NSeq) (i v : Nat) : removeElement (insertAt p i v) v = p :=
  removeElement_insertAt p i v

/-- `p.remove(i).insert(i, p[i]) = p` for every position `0 ≤ i < n` -/
theorem insert_remove (p : NSeq) (hp : IsPerm p) (i : Nat) (hi : i < p.length) :
    ∃ q, removeOpt p (some (i : Int)) = .ok q ∧
      insertOpt q (some (i : Int)) (some (p.getD i 0 : Int)) = .ok p := by
  refine ⟨removeAt p i, ?_, ?_⟩
  · simp only [removeOpt]
    rw [if_pos (by omega)]; rfl
  · have hl := length_removeAt hp.1 hi
    have hv := hp.getD_lt hi
    simp only [insertOpt, Option.getD_some, hl]
    rw [if_neg (by omega), if_neg (by omega)]
    simp only [Int.toNat_natCast]
    rw [insertAt_removeAt hp.1 hi]
example : insertOpt [1, 0] (some 2) (some 1) = .ok [2, 0, 1] := by decide

/-- the defaults undo each other too: `p.insert().remove() = p` (append the new maximum, remove the maximum) -/
theorem remove_insert_defaults (p : NSeq) :
    ∃ q, insertOpt p none none = .ok q ∧ removeOpt q none = .ok p := by
  refine ⟨insertAt p (p.length + 1) p.length, ?_, ?_⟩
  · simp only [insertOpt, Option.getD_none]
    rw [if_neg (by omega), if_neg (by omega)]
    rfl
  · simp only [removeOpt, removeElementOpt, length_insertAt]
    rw [if_neg (by omega), show p.length + 1 - 1 = p.length by omega, removeElement_insertAt]
example : removeOpt [0, 1, 2] none = .ok [0, 1] := by decide

/-- `apply` rearranges its argument (same multiset) when the lengths agree, and asserts otherwise -/
theorem apply_spec (p : NSeq) (hp : IsPerm p) (l : List Nat) :
    (l.length = p.length → ∃ r, applyTo p l = .ok r ∧ r.Perm l ∧ ∀ k, k < p.length → r.getD k 0 = l.getD (p.getD k 0) 0) ∧
    (l.length ≠ p.length → applyTo p l = .error .assertion) := by
  constructor
  · intro hl
    refine ⟨p.map fun i => l.getD i 0, by simp [applyTo, hl], ?_, ?_⟩
    · have h1 : (p.map fun i => l.getD i 0).Perm ((List.range p.length).map fun i => l.getD i 0) :=
        (perm_range hp).map _
      have h2 : ((List.range p.length).map fun i => l.getD i 0) = l := by
        apply ext_getD (by simp [hl])
        intro i hi
        exact getD_range_map _ _ (by simpa using hi)
      rwa [h2] at h1
    · intro k hk
      simp [List.getD_eq_getElem?_getD, hk]
  · intro hl
    simp [applyTo, hl]
example : applyTo [4, 1, 2, 0, 3] [1, 2, 3, 4, 5] = .ok [5, 2, 3, 1, 4] := by decide

/-! ## shifts are cyclic group actions -/

/-- `shift_right` is an action of `(ℤ, +)`: shifting by `t` then by `s` is shifting by `s + t` -/
theorem shiftRight_action (p : NSeq) (s t : Int) :
    shiftRight (shiftRight p t) s = shiftRight p (s + t) ∧ shiftRight p 0 = p :=
  ⟨shiftRight_add p s t, shiftRight_zero p⟩

/-- the action is cyclic of order dividing `n`: shifting by `|p|` is the identity, so the amount
    only matters modulo `n` (Python's sign convention for `%`) -/
theorem shiftRight_period (p : NSeq) (t : Int) :
    shiftRight p (p.length : Int) = p ∧ shiftRight p (t + p.length) = shiftRight p t := by
  refine ⟨shiftRight_length p, ?_⟩
  rw [Int.add_comm, ← shiftRight_add]
  have h := shiftRight_length (shiftRight p t)
  rwa [length_shiftRight] at h
example : shiftRight [0, 1, 2] 5 = shiftRight [0, 1, 2] 2 := by decide

/-- `shift_left(t) = shift_right(-t)` and it undoes `shift_right(t)` -/
theorem shiftLeft_spec (p : NSeq) (t : Int) :
    shiftLeft p t = shiftRight p (-t) ∧ shiftLeft (shiftRight p t) t = p ∧
      shiftRight (shiftLeft p t) t = p := by
  refine ⟨rfl, ?_, ?_⟩
  · unfold shiftLeft; rw [shiftRight_add, show -t + t = 0 by omega, shiftRight_zero]
  · unfold shiftLeft; rw [shiftRight_add, show t + -t = 0 by omega, shiftRight_zero]
example : shiftLeft [0, 1, 2] (-4) = [2, 0, 1] := by decide

/-- `shift_up` is an action of `(ℤ, +)` of period `n`; `shift_down(t) = shift_up(-t)` undoes it -/
theorem shiftUp_action (p : NSeq) (hp : IsPerm p) (s t : Int) :
    shiftUp (shiftUp p t) s = shiftUp p (s + t) ∧ shiftUp p 0 = p ∧
    shiftUp p (p.length : Int) = p ∧ shiftDown p t = shiftUp p (-t) ∧
    shiftDown (shiftUp p t) t = p := by
  have h0 : shiftUp p 0 = p := by
    unfold shiftUp; split
    · rfl
    · simp
  refine ⟨shiftUp_add hp s t, h0, ?_, rfl, ?_⟩
  · unfold shiftUp; split
    · rfl
    · simp
  · unfold shiftDown; rw [shiftUp_add hp, show -t + t = 0 by omega, h0]
example : shiftDown [0, 1, 2, 3] (-7) = [3, 0, 1, 2] := by decide

/-- the vertical shift is the horizontal shift seen through the inverse -/
theorem shiftUp_duality (p : NSeq) (hp : IsPerm p) (t : Int) :
    shiftUp p t = inverse (shiftRight (inverse p) t) :=
  shiftUp_eq_inverse_shiftRight hp t
example : shiftUp [1, 2, 0] 1 = inverse (shiftRight (inverse [1, 2, 0]) 1) := by decide

/-! ## sum and skew decompositions -/

/-- the parts of `sum_decomposition` re-assemble to `p` under `direct_sum` -/
theorem sumDecomposition_reassembles (p : NSeq) (hp : IsPerm p) :
    directSumN [] (sumDecomposition p) = p :=
  (sumDecomposition_spec hp).1
example : sumDecomposition [1, 2, 0, 4, 3] = [[1, 2, 0], [1, 0]] ∧
    directSumN [] [[1, 2, 0], [1, 0]] = [1, 2, 0, 4, 3] := by decide

/-- every part of `sum_decomposition` is a non-empty sum-indecomposable permutation -/
theorem sumDecomposition_parts (p part : NSeq) (hp : IsPerm p) (h : part ∈ sumDecomposition p) :
    IsPerm part ∧ part ≠ [] ∧ isSumDecomposable part = false ∧ ¬ SumDecomposable part := by
  obtain ⟨h1, h2, h3⟩ := (sumDecomposition_spec hp).2 part h
  refine ⟨h1, h2, h3, ?_⟩
  rw [← isSumDecomposable_iff_spec h1, h3]
  simp

/-- `is_sum_decomposable` decides "direct sum of two non-empty permutations" and holds iff the
    decomposition has at least two parts -/
theorem isSumDecomposable_spec (p : NSeq) (hp : IsPerm p) :
    (isSumDecomposable p = true ↔ SumDecomposable p) ∧
    (isSumDecomposable p = true ↔ 2 ≤ (sumDecomposition p).length) :=
  ⟨isSumDecomposable_iff_spec hp, isSumDecomposable_iff_parts hp⟩
example : isSumDecomposable [1, 0, 2] = true ∧ isSumDecomposable [2, 0, 1] = false := by decide

/-- a direct sum of two non-empty permutations is recognised as sum-decomposable -/
theorem directSum_decomposable (a b : NSeq) (ha : IsPerm a) (hb : IsPerm b) (ha0 : a ≠ []) (hb0 : b ≠ []) :
    isSumDecomposable (directSum a b) = true :=
  isSumDecomposable_directSum ha hb ha0 hb0

/-- the decomposition is the finest one: every sum cut of `p` is a boundary between two parts -/
theorem sumDecomposition_finest (p : NSeq) (hp : IsPerm p) (c : Nat) (h0 : 0 < c) (hc : c ≤ p.length)
    (hcut : SumCut p c) : ∃ k, (((sumDecomposition p).take k).map List.length).sum = c :=
  C10L.sumDecomposition_finest hp h0 hc hcut

/-- the parts of `skew_decomposition` re-assemble to `p` under `skew_sum` -/
theorem skewDecomposition_reassembles (p : NSeq) (hp : IsPerm p) :
    skewSumN [] (skewDecomposition p) = p :=
  (skewDecomposition_spec hp).1
example : skewDecomposition [5, 3, 4, 1, 0, 2] = [[0], [0, 1], [1, 0, 2]] ∧
    skewSumN [] [[0], [0, 1], [1, 0, 2]] = [5, 3, 4, 1, 0, 2] := by decide

/-- every part of `skew_decomposition` is a non-empty skew-indecomposable permutation -/
theorem skewDecomposition_parts (p part : NSeq) (hp : IsPerm p) (h : part ∈ skewDecomposition p) :
    IsPerm part ∧ part ≠ [] ∧ isSkewDecomposable part = false ∧ ¬ SkewDecomposable part := by
  obtain ⟨h1, h2, h3⟩ := (skewDecomposition_spec hp).2 part h
  refine ⟨h1, h2, h3, ?_⟩
  rw [← isSkewDecomposable_iff_spec h1, h3]
  simp

/-- `is_skew_decomposable` decides "skew sum of two non-empty permutations" and holds iff the
    decomposition has at least two parts -/
theorem isSkewDecomposable_spec (p : NSeq) (hp : IsPerm p) :
    (isSkewDecomposable p = true ↔ SkewDecomposable p) ∧
    (isSkewDecomposable p = true ↔ 2 ≤ (skewDecomposition p).length) :=
  ⟨isSkewDecomposable_iff_spec hp, isSkewDecomposable_iff_parts hp⟩
example : isSkewDecomposable [2, 0, 1] = true ∧ isSkewDecomposable [1, 0, 2] = false := by decide

/-- the skew decomposition is the finest one: every skew cut of `p` is a boundary between two parts -/
theorem skewDecomposition_finest (p : NSeq) (hp : IsPerm p) (c : Nat) (h0 : 0 < c) (hc : c ≤ p.length)
    (hcut : SkewCut p c) : ∃ k, (((skewDecomposition p).take k).map List.length).sum = c :=
  C10L.skewDecomposition_finest hp h0 hc hcut

/-- a skew sum of two non-empty permutations is recognised as skew-decomposable -/
theorem skewSum_decomposable (a b : NSeq) (ha : IsPerm a) (hb : IsPerm b) (ha0 : a ≠ []) (hb0 : b ≠ []) :
    isSkewDecomposable (skewSum a b) = true :=
  isSkewDecomposable_skewSum ha hb ha0 hb0

/-! ## blocks and simplicity -/

/-- **blocks = intervals**: `block_decomposition()[l]` lists exactly the start positions `i` of the
    intervals of length `l` with `2 ≤ l < n`; the result has `n` entries -/
theorem blockDecomposition_spec (p : NSeq) (hp : IsPerm p) (i l : Nat) :
    (blockDecomposition p).length = p.length ∧
    (i ∈ (blockDecomposition p).getD l [] ↔ 2 ≤ l ∧ l < p.length ∧ IsInterval p i l) :=
  ⟨length_blockDecomposition p, mem_blockDecomposition hp.1 i l⟩
example : blockDecomposition [5, 3, 0, 1, 2, 4, 7, 6] = [[], [], [2, 3, 6], [2], [1], [1], [0], []] := by decide

/-- `is_simple` holds iff there is no interval of length `2 ≤ l < n` -/
theorem isSimple_spec (p : NSeq) (hp : IsPerm p) : isSimple p = true ↔ IsSimple p :=
  isSimple_iff hp.1
example : isSimple [2, 0, 3, 1] = true ∧ isSimple [2, 0, 1] = false := by decide

/-- `maximum_block`: `(0, 0)` for a simple permutation, otherwise the largest interval length
    `2 ≤ L < n` with the leftmost start of an interval of that length -/
theorem maximumBlock_spec (p : NSeq) (hp : IsPerm p) :
    (IsSimple p ∧ maximumBlock p = (0, 0)) ∨
    (∃ L i, maximumBlock p = (L, i) ∧ 2 ≤ L ∧ L < p.length ∧ IsInterval p i L ∧
      (∀ l j, 2 ≤ l → l < p.length → IsInterval p j l → l ≤ L) ∧ (∀ j, IsInterval p j L → i ≤ j)) :=
  C10L.maximumBlock_spec hp.1
example : maximumBlock [0, 2, 1, 5, 6, 7, 4, 3] = (7, 1) ∧ maximumBlock [2, 0, 3, 1] = (0, 0) := by decide

/-- `is_strongly_simple` = simple and every one-point deletion is simple -/
theorem isStronglySimple_spec (p : NSeq) (hp : IsPerm p) :
    isStronglySimple p = true ↔ IsSimple p ∧ ∀ i, i < p.length → IsSimple (removeAt p i) :=
  isStronglySimple_iff hp
example : isStronglySimple [4, 1, 6, 3, 0, 7, 2, 5] = true ∧ isStronglySimple [2, 0, 3, 1] = false := by decide

/-- `block_decomposition_as_pattern` = the set of standardised proper intervals -/
theorem blockDecompositionAsPattern_spec (p q : NSeq) (hp : IsPerm p) :
    q ∈ blockDecompositionAsPattern p ↔
      ∃ i l, 2 ≤ l ∧ l < p.length ∧ IsInterval p i l ∧ q = standardize (window p i l) :=
  mem_blockDecompositionAsPattern hp.1 q
example : blockDecompositionAsPattern [4, 1, 0, 5, 2, 3] = [[0, 1], [1, 0]] := by decide

/-! ## monotone blocks and contractions -/

/-- `monotone_block_decomposition{,_ascending,_descending}(with_ones=True)` splits all positions
    into consecutive runs (adjacent values adjacent, one common step in an allowed direction), none
    of which can be extended to the right; `with_ones=False` drops exactly the length-one runs -/
theorem monoBlocks_spec (k : MonoKind) (p : NSeq) (hn : 0 < p.length) :
    RunPartition (kAsc k) (kDesc k) p 0 (monoBlocks k p true) ∧
    monoBlocks k p false = (monoBlocks k p true).filter (fun se => se.1 < se.2) :=
  ⟨monoBlocks_partition k p hn, monoBlocks_false_eq_filter k p⟩
example : monoBlocks .both [2, 6, 3, 4, 5, 1, 0] true = [(0, 0), (1, 1), (2, 4), (5, 6)] ∧
    monoBlocks .both [2, 6, 3, 7, 4, 5, 1, 0] false = [(4, 5), (6, 7)] ∧
    monoBlocks .asc [1, 0, 2, 3] true = [(0, 0), (1, 1), (2, 3)] := by decide

/-- the contractions (`contract_inc_bonds`, `contract_dec_bonds`, `contract_bonds` =
    `monotone_quotient`) return a permutation with one point per run -/
theorem contract_closed (k : MonoKind) (p : NSeq) (hp : IsPerm p) :
    IsPerm (contract k p) ∧ (contract k p).length = (monoBlocks k p true).length :=
  contract_isPerm k hp
example : contract .asc [1, 0, 5, 3, 4, 2] = [1, 0, 4, 3, 2] ∧ contract .desc [1, 0, 5, 3, 4, 2] = [0, 4, 2, 3, 1] ∧
    contract .both [1, 0, 5, 3, 4, 2] = [0, 3, 2, 1] := by decide

/-! ## shadow and covers -/

/-- `children` = the set of all one-point deletions, each a permutation of length `n-1` -/
theorem children_spec (p q : NSeq) (hp : IsPerm p) :
    (q ∈ children p ↔ ∃ i, i < p.length ∧ q = removeAt p i) ∧
    (q ∈ children p → IsPerm q ∧ q.length + 1 = p.length) :=
  ⟨mem_children p q, children_isPerm hp⟩
example : children [2, 0, 1] = [[0, 1], [1, 0]] := by decide

/-- `coveredby` = the permutations of length `n+1` having `p` as a one-point deletion -/
theorem coveredby_spec (p q : NSeq) (hp : IsPerm p) :
    q ∈ coveredby p ↔ IsPerm q ∧ q.length = p.length + 1 ∧ ∃ i, i < q.length ∧ removeAt q i = p :=
  mem_coveredby_iff hp q
example : coveredby [0] = [[0, 1], [1, 0]] ∧ coveredby [] = [[0]] := by decide

/-- duality: `q` covers `p` iff `p` is in the shadow of `q` -/
theorem coveredby_children_dual (p q : NSeq) (hp : IsPerm p) (hq : IsPerm q) :
    q ∈ coveredby p ↔ p ∈ children q :=
  coveredby_iff_children hp hq
example : [0, 2, 1] ∈ coveredby [0, 1] ∧ [0, 1] ∈ children [0, 2, 1] := by decide

/-! ## uniqueness of the decompositions, skew via complement -/

/-- **uniqueness**: any list of non-empty sum-indecomposable permutations whose n-ary direct sum is
    `p` *is* `sum_decomposition(p)` -/
theorem sumDecomposition_unique (p : NSeq) (L : List NSeq)
    (hL : ∀ a ∈ L, IsPerm a ∧ a ≠ [] ∧ ¬ SumDecomposable a) (hsum : directSumN [] L = p) :
    L = sumDecomposition p := by
  have hLp : ∀ a ∈ L, IsPerm a := fun a ha => (hL a ha).1
  have hp : IsPerm p := by
    rw [← hsum, directSumN_eq_foldl]; exact foldl_directSum_isPerm isPerm_nil hLp
  obtain ⟨s1, s2⟩ := sumDecomposition_spec hp
  apply directSum_parts_unique L (sumDecomposition p) _ s2
  · rw [← directSumN_eq_foldl, ← directSumN_eq_foldl, hsum, s1]
  · intro a ha
    obtain ⟨h1, h2, h3⟩ := hL a ha
    refine ⟨h1, h2, ?_⟩
    cases hb : isSumDecomposable a with
    | false => rfl
    | true => exact absurd ((isSumDecomposable_iff_spec h1).mp hb) h3
example : [[0], [1, 0]] = sumDecomposition [0, 2, 1] := by
  apply sumDecomposition_unique _ _ _ (by decide)
  intro a ha
  have hd : ∀ b ∈ [[0], [1, 0]], IsPerm b ∧ b ≠ [] ∧ isSumDecomposable b = false := by decide
  obtain ⟨h1, h2, h3⟩ := hd a ha
  refine ⟨h1, h2, fun h => ?_⟩
  rw [(isSumDecomposable_iff_spec h1).mpr h] at h3
  exact absurd h3 (by decide)

/-- **uniqueness**, skew analogue: any list of non-empty skew-indecomposable permutations whose
    n-ary skew sum is `p` *is* `skew_decomposition(p)` -/
theorem skewDecomposition_unique (p : NSeq) (L : List NSeq)
    (hL : ∀ a ∈ L, IsPerm a ∧ a ≠ [] ∧ ¬ SkewDecomposable a) (hsum : skewSumN [] L = p) :
    L = skewDecomposition p := by
  have hLp : ∀ a ∈ L, IsPerm a := fun a ha => (hL a ha).1
  have hp : IsPerm p := by
    rw [← hsum, skewSumN_eq_foldl]; exact foldl_skewSum_isPerm isPerm_nil hLp
  obtain ⟨s1, s2⟩ := skewDecomposition_spec hp
  apply skewSum_parts_unique L (skewDecomposition p) _ s2
  · rw [← skewSumN_eq_foldl, ← skewSumN_eq_foldl, hsum, s1]
  · intro a ha
    obtain ⟨h1, h2, h3⟩ := hL a ha
    refine ⟨h1, h2, ?_⟩
    cases hb : isSkewDecomposable a with
    | false => rfl
    | true => exact absurd ((isSkewDecomposable_iff_spec h1).mp hb) h3
example : [[0], [0, 1]] = skewDecomposition [2, 0, 1] := by
  apply skewDecomposition_unique _ _ _ (by decide)
  intro a ha
  have hd : ∀ b ∈ [[0], [0, 1]], IsPerm b ∧ b ≠ [] ∧ isSkewDecomposable b = false := by decide
  obtain ⟨h1, h2, h3⟩ := hd a ha
  refine ⟨h1, h2, fun h => ?_⟩
  rw [(isSkewDecomposable_iff_spec h1).mpr h] at h3
  exact absurd h3 (by decide)

/-- `skew_decomposition(p) = [complement(c) for c in sum_decomposition(complement(p))]` -/
theorem skewDecomposition_via_complement (p : NSeq) (hp : IsPerm p) :
    skewDecomposition p = (sumDecomposition (complement p)).map complement :=
  skewDecomposition_eq_complement hp
example : skewDecomposition [5, 3, 4, 1, 0, 2] = (sumDecomposition (complement [5, 3, 4, 1, 0, 2])).map complement ∧
    sumDecomposition (complement [5, 3, 4, 1, 0, 2]) = [[0], [1, 0], [1, 2, 0]] := by decide

/-! ## shadow and covers through pattern containment -/

/-- **children = contained patterns one shorter**: `q ∈ children(p)` iff `q` is a permutation of
    length `n-1` contained in `p` (`Contains` of `Spec/Basic.lean`) -/
theorem children_eq_contained (p q : NSeq) (hp : IsPerm p) :
    q ∈ children p ↔ IsPerm q ∧ q.length + 1 = p.length ∧ Contains p q :=
  mem_children_iff_contains hp q
example : [1, 0] ∈ children [2, 0, 1] ∧ Contains [2, 0, 1] [1, 0] :=
  ⟨by decide, (children_eq_contained _ _ (by decide)).mp (by decide) |>.2.2⟩

/-- **coveredby = containing permutations one longer**: `q ∈ coveredby(p)` iff `q` is a permutation
    of length `n+1` that contains `p` -/
theorem coveredby_eq_containing (p q : NSeq) (hp : IsPerm p) :
    q ∈ coveredby p ↔ IsPerm q ∧ q.length = p.length + 1 ∧ Contains q p :=
  mem_coveredby_iff_contains hp q
example : [0, 2, 1] ∈ coveredby [0, 1] ∧ Contains [0, 2, 1] [0, 1] :=
  ⟨by decide, (coveredby_eq_containing _ _ (by decide)).mp (by decide) |>.2.2⟩

/-! ## monotone runs are maximal on both sides -/

/-- every run `(s, e)` of `monotone_block_decomposition*` (with ones) of a permutation is a run that is
    preceded and followed by a non-step (so it can be extended neither to the left nor to the
    right), and no run of positions properly contains it -/
theorem monoBlocks_left_maximal (k : MonoKind) (p : NSeq) (hp : IsPerm p) (s e : Nat)
    (h : (s, e) ∈ monoBlocks k p true) :
    IsRun (kAsc k) (kDesc k) p s e ∧
    (0 < s → ¬ stepOk (kAsc k) (kDesc k) (p.getD (s - 1) 0) (p.getD s 0)) ∧
    (e + 1 < p.length → ¬ stepOk (kAsc k) (kDesc k) (p.getD e 0) (p.getD (e + 1) 0)) ∧
    (∀ s' e', IsRun (kAsc k) (kDesc k) p s' e' → s' ≤ s → e ≤ e' → s' = s ∧ e' = e) :=
  monoBlocks_maximal k hp h
example : (2, 4) ∈ monoBlocks .both [2, 6, 3, 4, 5, 1, 0] true := by decide

/-! ## the set-valued listings are strictly sorted -/

/-- the model lists `children`, `coveredby` and `block_decomposition_as_pattern` strictly increasing
    for `Perm.__lt__` (length, then lexicographic), hence without duplicates -/
theorem sortDedup_sorted (p : NSeq) :
    ((children p).Pairwise (fun a b => permLt a b = true) ∧ (children p).Nodup) ∧
    ((coveredby p).Pairwise (fun a b => permLt a b = true) ∧ (coveredby p).Nodup) ∧
    ((blockDecompositionAsPattern p).Pairwise (fun a b => permLt a b = true) ∧
      (blockDecompositionAsPattern p).Nodup) :=
  ⟨⟨C10L.sortDedup_sorted _, sortDedup_nodup _⟩, ⟨C10L.sortDedup_sorted _, sortDedup_nodup _⟩,
   ⟨C10L.sortDedup_sorted _, sortDedup_nodup _⟩⟩
example : children [1, 0, 2] = [[0, 1], [1, 0]] ∧ permLt [0, 1] [1, 0] = true := by decide

/-! ## inflation by single points -/

/-- inflating every point by a single point (`None` or the one-point permutation) returns `p` -/
theorem inflate_singletons (p : NSeq) (hp : IsPerm p) (comps : List (Option NSeq))
    (hl : comps.length = p.length) (hc : ∀ o ∈ comps, o = none ∨ o = some [0]) :
    inflate p comps = .ok p :=
  inflate_ones hp comps hl hc
example : inflate [1, 2, 0] [none, some [0], none] = .ok [1, 2, 0] := by decide

end C10
