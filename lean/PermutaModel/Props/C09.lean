import PermutaModel.Lemmas.C09Gen
import PermutaModel.Lemmas.C09Std
import PermutaModel.Lemmas.C09Notation
import PermutaModel.Lemmas.C09Mesh
import PermutaModel.Lemmas.C09Repr

/-!
# C09 — generation, ranking and notations are bijective and mutually consistent

Property theorems only (helpers live in `Lemmas/C09*.lean`).  All statements are about the definitions of
`Model/C09.lean` (+ `Model.permsLex`, `Model.permsUpTo`, `Model.permLt` of `Model/Perm.lean`) that the
driver executes.  `offset n = 0! + … + (n-1)!` is the number of permutations shorter than `n`.
-/
open Nat Model

namespace C09

/-! ## A1  generators -/

/-- **`of_length`**: every permutation of length `n` and nothing else, in strictly increasing
    lexicographic order (hence each exactly once), `n!` of them. -/
theorem permsLex_spec (n : Nat) :
    (∀ σ, σ ∈ permsLex n ↔ IsPerm σ ∧ σ.length = n) ∧
    (permsLex n).Pairwise (fun a b => lexLt a b = true) ∧
    (permsLex n).Nodup ∧ (permsLex n).length = n ! := by
  refine ⟨mem_permsLex n, sorted_permsLex n, ?_, length_permsLex n⟩
  refine (sorted_permsLex n).imp ?_
  intro a b h e
  rw [e, lexLt_irrefl] at h; exact Bool.false_ne_true h

example : permsLex 3 = [[0, 1, 2], [0, 2, 1], [1, 0, 2], [1, 2, 0], [2, 0, 1], [2, 1, 0]] := by decide

/-- `of_length` with the code's `int` argument (a negative length behaves like `0`) -/
theorem ofLength_eq (n : Nat) : ofLength n = permsLex n := by simp [ofLength]

theorem ofLength_neg (n : Int) (h : n < 0) : ofLength n = [[]] := by
  have : n.toNat = 0 := by omega
  simp [ofLength, this, permsLex, permsAux]

/-- **`up_to_length`** is strictly increasing in the `(length, lex)` order of `Perm.__lt__` -/
theorem permsUpTo_sorted (N : Nat) : (permsUpTo N).Pairwise (fun a b => permLt a b = true) := by
  unfold permsUpTo
  rw [List.pairwise_flatMap]
  constructor
  · intro n _
    have hs := sorted_permsLex n
    rw [List.pairwise_iff_getElem] at hs ⊢
    intro i j hi hj hij
    have h1 := ((mem_permsLex n _).mp (List.getElem_mem hi)).2
    have h2 := ((mem_permsLex n _).mp (List.getElem_mem hj)).2
    simp [permLt, h1, h2, hs i j hi hj hij]
  · refine List.pairwise_lt_range.imp ?_
    intro a b hab x hx y hy
    have h1 := ((mem_permsLex a _).mp hx).2
    have h2 := ((mem_permsLex b _).mp hy).2
    simp [permLt, h1, h2, hab]

/-- **`up_to_length`** contains exactly the permutations of length `≤ N` -/
theorem mem_permsUpTo (N : Nat) (σ : NSeq) : σ ∈ permsUpTo N ↔ IsPerm σ ∧ σ.length ≤ N := by
  simp only [permsUpTo, List.mem_flatMap, List.mem_range, mem_permsLex]
  constructor
  · rintro ⟨n, hn, h, rfl⟩; exact ⟨h, by omega⟩
  · rintro ⟨h, hl⟩; exact ⟨σ.length, by omega, h, rfl⟩

/-- the enumerations up to different lengths are prefixes of one another: there is one
    `(length, lex)`-sorted enumeration of all permutations -/
theorem permsUpTo_prefix (n m : Nat) (h : n ≤ m) : permsUpTo n <+: permsUpTo m := by
  induction h with
  | refl => exact List.prefix_refl _
  | step _ ih => rw [permsUpTo_succ]; exact ih.trans (List.prefix_append _ _)

theorem upToLength_eq (N : Nat) : upToLength N = permsUpTo N := by
  simp only [upToLength, permsUpTo]
  congr 2

theorem upToLength_neg (n : Int) (h : n < 0) : upToLength n = [] := by
  have : (n + 1).toNat = 0 := by omega
  simp [upToLength, this]

example : upToLength 2 = [[], [0], [0, 1], [1, 0]] := by decide

/-- **`first`**: the first `k` elements of the `(length, lex)` enumeration, for every `N` whose
    enumeration is long enough (`N = k` always is: `first_le`) -/
theorem first_prefix (k N : Nat) (h : k ≤ (permsUpTo N).length) :
    first k = .ok ((permsUpTo N).take k) := by
  rw [permsUpTo_eq_levels] at h ⊢
  simp [first, firstLoop_eq (N + 1) k 0 h]

theorem first_le (k : Nat) : k ≤ (permsUpTo k).length := by
  rw [length_permsUpTo]; have := offset_lt (k + 1); omega

theorem first_length (k : Nat) : ∃ L, first k = .ok L ∧ L.length = k ∧ L <+: permsUpTo k :=
  ⟨_, first_prefix k k (first_le k), by simp [first_le k], List.take_prefix _ _⟩

/-- a negative count is rejected (`islice`) -/
theorem first_neg (k : Int) (h : k < 0) : first k = .error .valueError := by simp [first, h]

example : first 5 = .ok [[], [0], [0, 1], [1, 0], [0, 1, 2]] := by
  have h := first_prefix 5 3 (by decide)
  rw [show ((5 : Nat) : Int) = 5 from rfl] at h
  rw [h]; decide

/-! ## A2  unrank / rank -/

/-- **`unrank(k, n)`** for `k < n!` is the `k`-th permutation of length `n` in lexicographic order -/
theorem unrank_with_length (k n : Nat) (h : k < n !) :
    unrank k (some (n : Int)) = .ok ((permsLex n)[k]'(by rw [length_permsLex]; exact h)) := by
  have hmain : unrankNat k (some n) = .ok ((permsLex n)[k]'(by rw [length_permsLex]; exact h)) := by
    unfold unrankNat
    by_cases hk : k = 0
    · subst hk
      have := head_permsLex n
      rw [List.getElem?_eq_getElem (by rw [length_permsLex]; exact h)] at this
      simp only [if_true, Option.getD_some]
      rw [Option.some.inj this]
    · have hn : n ≠ 0 := by
        rintro rfl; simp at h; exact hk h
      simp only [hk, if_false]
      unfold unrankCore
      have hb : (facExtend (n - 2) 2 [1, 1]).getD (n - 1) 0 * n = n ! := by
        rw [facExtend_getD n (n - 1) (by omega)]
        obtain ⟨m, rfl⟩ : ∃ m, n = m + 1 := ⟨n - 1, by omega⟩
        rw [Nat.factorial_succ, Nat.mul_comm]; rfl
      rw [hb, if_pos h]
      exact unrankFor_eq _ n (fun i hi => facExtend_getD n i hi) k _ _ List.nodup_range (by simp)
        (List.getElem?_eq_getElem _)
  have h0 : ¬ ((k : Int) < 0) := by omega
  have h1 : ¬ ((k : Int) ≠ 0 ∧ (Option.getD (some (n : Int)) 0) < 0) := by
    rintro ⟨_, h⟩; simp at h; omega
  rw [unrank, if_neg h0, if_neg h1]
  simpa using hmain

/-- **out of range is rejected**: `unrank(k, n)` with `k ≥ n!` fails the `assert` of `_unrank` -/
theorem unrank_out_of_range (k n : Nat) (h : n ! ≤ k) : unrank k (some (n : Int)) = .error .assertion := by
  have hk : k ≠ 0 := by have := Nat.factorial_pos n; omega
  have hmain : unrankNat k (some n) = .error .assertion := by
    unfold unrankNat
    simp only [hk, if_false]
    unfold unrankCore
    by_cases hn : n = 0
    · subst hn; simp
    · have hb : (facExtend (n - 2) 2 [1, 1]).getD (n - 1) 0 * n = n ! := by
        rw [facExtend_getD n (n - 1) (by omega)]
        obtain ⟨m, rfl⟩ : ∃ m, n = m + 1 := ⟨n - 1, by omega⟩
        rw [Nat.factorial_succ, Nat.mul_comm]; rfl
      rw [hb, if_neg (by omega)]
  have h0 : ¬ ((k : Int) < 0) := by omega
  have h1 : ¬ ((k : Int) ≠ 0 ∧ (Option.getD (some (n : Int)) 0) < 0) := by
    rintro ⟨_, h⟩; simp at h; omega
  rw [unrank, if_neg h0, if_neg h1]
  simpa using hmain

/-- negative ranks are rejected, with or without a length -/
theorem unrank_neg (k : Int) (h : k < 0) (len : Option Int) : unrank k len = .error .assertion := by
  simp [unrank, h]

/-- a negative length is rejected unless the rank is `0` (then `identity(length) = ε`: the code's quirk) -/
theorem unrank_neg_length (k len : Int) (hl : len < 0) :
    unrank k (some len) = if k = 0 then .ok [] else .error .assertion := by
  by_cases hk : k = 0
  · subst hk
    have : len.toNat = 0 := by omega
    simp [unrank, unrankNat, this, identity]
  · by_cases hneg : k < 0
    · simp [unrank, hneg, hk]
    · simp [unrank, hneg, hk, hl]

example : unrank 1 (some 3) = .ok [0, 2, 1] := by decide
example : unrank 6 (some 3) = .error .assertion := by decide
example : unrank 1 (some 0) = .error .assertion := by decide

/-- `unrank(0, n)` is the identity -/
theorem unrank_zero (n : Nat) : unrank 0 (some (n : Int)) = .ok (identity n) := by
  simp [unrank, unrankNat]

/-- **`unrank(k)`** (no length): `k` decomposes uniquely as `offset n + i` with `i < n!`, and the
    result is the `i`-th permutation of length `n` -/
theorem unrank_decompose (k : Nat) : ∃ n i, ∃ h : i < n !, k = offset n + i ∧
    unrank k none = .ok ((permsLex n)[i]'(by rw [length_permsLex]; exact h)) := by
  have h0 : ¬ ((k : Int) < 0) := by omega
  have h1 : ¬ ((k : Int) ≠ 0 ∧ (Option.getD (none : Option Int) 0) < 0) := by simp
  rw [unrank, if_neg h0, if_neg h1]
  simp only [Int.toNat_natCast, Option.map_none]
  by_cases hk : k = 0
  · subst hk
    refine ⟨0, 0, by decide, by simp [offset], ?_⟩
    simp [unrankNat, identity, permsLex, permsAux]
  · have h11 : ([1, 1] : List Nat) = factList 1 := by simp [factList, List.range_succ]
    obtain ⟨m, num, he, hm, hn1, hn2, hn3⟩ := unrankLoop_spec k k 1 (by omega) (le_refl k)
    obtain ⟨m', rfl⟩ : ∃ m', m = m' + 1 := ⟨m - 1, by omega⟩
    have hlt : num - 1 < (m' + 1)! := by omega
    refine ⟨m' + 1, num - 1, hlt, ?_, ?_⟩
    · simp only [offset] at hn3 ⊢; simp at hn3; omega
    · unfold unrankNat
      simp only [hk, if_false]
      rw [h11, he]
      simp only [length_factList, Nat.add_sub_cancel]
      unfold unrankCore
      have hb : (factList (m' + 1)).getD (m' + 1 - 1) 0 * (m' + 1) = (m' + 1)! := by
        rw [Nat.add_sub_cancel, getD_factList _ _ (by omega), Nat.factorial_succ, Nat.mul_comm]
      rw [hb, if_pos hlt]
      exact unrankFor_eq _ (m' + 1) (fun i hi => getD_factList _ i (by omega)) _ _ _ List.nodup_range
        (by simp) (List.getElem?_eq_getElem _)

/-- **`rank`** of the `i`-th permutation of length `n` is `offset n + i` -/
theorem rank_permsLex_get (n i : Nat) (h : i < n !) :
    rank ((permsLex n)[i]'(by rw [length_permsLex]; exact h)) = offset n + i := by
  have hlen : ((permsLex n)[i]'(by rw [length_permsLex]; exact h)).length = n :=
    ((mem_permsLex n _).mp (List.getElem_mem _)).2
  rw [rank, hlen, factTable_eq]
  have := rankFor_eq (factList n) n (fun i hi => getD_factList n i (by omega)) i (List.range n) _ [] 0
    List.pairwise_lt_range (by simp) (rankInv_init n)
    (List.getElem?_eq_getElem (by rw [← permsLex, length_permsLex]; exact h))
  simpa [permsLex] using this

/-- **`unrank ∘ rank = id`** on all permutations -/
theorem rank_unrank (σ : NSeq) (h : IsPerm σ) : unrank (rank σ) none = .ok σ := by
  obtain ⟨i, hi, e⟩ := exists_index σ h
  obtain ⟨n, j, hj, hk, hu⟩ := unrank_decompose (rank σ)
  have hr : rank σ = offset σ.length + i := by
    conv_lhs => rw [e]
    exact rank_permsLex_get σ.length i hi
  rw [hr] at hk
  obtain ⟨rfl, rfl⟩ := offset_decomp_unique _ _ _ _ hi hj hk
  rw [hu]; exact congrArg _ e.symm

/-- **`rank ∘ unrank = id`** on all ranks: `unrank k` succeeds for every `k ≥ 0`, gives a
    permutation, and its rank is `k` -/
theorem unrank_rank (k : Nat) : ∃ σ, unrank k none = .ok σ ∧ IsPerm σ ∧ rank σ = k := by
  obtain ⟨n, i, hi, hk, hu⟩ := unrank_decompose k
  refine ⟨_, hu, ((mem_permsLex n _).mp (List.getElem_mem _)).1, ?_⟩
  rw [rank_permsLex_get n i hi, hk]

/-- **`unrank k` is the `k`-th element of the `(length, lex)` enumeration** (`up_to_length`, `first`) -/
theorem unrank_eq_get (k N : Nat) (h : k < (permsUpTo N).length) : unrank k none = .ok ((permsUpTo N)[k]) := by
  obtain ⟨n, i, hi, hk, hu⟩ := unrank_decompose k
  have hn : n ≤ N := by
    by_contra hcon
    rw [length_permsUpTo] at h
    have := offset_le (N + 1) n (by omega)
    omega
  have := getElem?_permsUpTo N n i hn hi
  rw [← hk, List.getElem?_eq_getElem h, List.getElem?_eq_getElem (by rw [length_permsLex]; exact hi)] at this
  rw [hu, Option.some.inj this]

/-- **`rank σ` is the position of `σ` in the `(length, lex)` enumeration** -/
theorem rank_eq_index (σ : NSeq) (h : IsPerm σ) (N : Nat) (hN : σ.length ≤ N) :
    (permsUpTo N)[rank σ]? = some σ := by
  obtain ⟨i, hi, e⟩ := exists_index σ h
  have hr : rank σ = offset σ.length + i := by
    conv_lhs => rw [e]
    exact rank_permsLex_get σ.length i hi
  rw [hr, getElem?_permsUpTo N _ i hN hi, List.getElem?_eq_getElem (by rw [length_permsLex]; exact hi)]
  exact congrArg _ e.symm

example : rank [0, 2, 1, 3] = 12 := by decide
example : unrank 12 none = .ok [0, 2, 1, 3] := by decide

/-! ## A3  rank and `<` -/

/-- **`rank` is strictly monotone for `Perm.__lt__`** (`(len, tuple) <`), on all permutations -/
theorem rank_strictMono (σ τ : NSeq) (hσ : IsPerm σ) (hτ : IsPerm τ) :
    permLt σ τ = true ↔ rank σ < rank τ := by
  obtain ⟨i, hi, eσ⟩ := exists_index σ hσ
  obtain ⟨j, hj, eτ⟩ := exists_index τ hτ
  have hrσ : rank σ = offset σ.length + i := by
    conv_lhs => rw [eσ]
    exact rank_permsLex_get σ.length i hi
  have hrτ : rank τ = offset τ.length + j := by
    conv_lhs => rw [eτ]
    exact rank_permsLex_get τ.length j hj
  rw [hrσ, hrτ]
  rcases Nat.lt_trichotomy σ.length τ.length with hlt | heq | hgt
  · have := offset_le (σ.length + 1) τ.length hlt
    rw [offset] at this
    simp only [permLt, hlt, decide_true, Bool.true_or, true_iff]
    omega
  · have hs := sorted_permsLex σ.length
    rw [List.pairwise_iff_getElem] at hs
    have hlex : lexLt σ τ = true ↔ i < j := by
      have hj' : j < σ.length ! := by rw [heq]; exact hj
      have eτ' : τ = (permsLex σ.length)[j]'(by rw [length_permsLex]; exact hj') := by
        rw [eτ]; congr 1 <;> simp [heq]
      rcases Nat.lt_trichotomy i j with h | h | h
      · have := hs i j (by rw [length_permsLex]; exact hi) (by rw [length_permsLex]; exact hj') h
        rw [← eσ, ← eτ'] at this
        simp [this, h]
      · subst h
        have : σ = τ := by rw [eσ, eτ']
        subst this
        simp [lexLt_irrefl]
      · have := hs j i (by rw [length_permsLex]; exact hj') (by rw [length_permsLex]; exact hi) h
        rw [← eσ, ← eτ'] at this
        have h2 := lexLt_asymm _ _ this
        simp [h2]; omega
    simp only [permLt, heq, Nat.lt_irrefl, decide_false, Bool.false_or, beq_self_eq_true, Bool.true_and]
    rw [hlex]; omega
  · have := offset_le (τ.length + 1) σ.length hgt
    rw [offset] at this
    have h1 : ¬ σ.length < τ.length := by omega
    have h2 : (σ.length == τ.length) = false := by simp; omega
    simp only [permLt, h1, decide_false, h2, Bool.false_and, Bool.or_false]
    constructor
    · intro h; exact absurd h Bool.false_ne_true
    · intro h; omega

example : permLt [1, 0] [0, 1, 2] = true ∧ rank [1, 0] = 3 ∧ rank [0, 1, 2] = 4 := by decide

/-! ## A4  standardisation -/

/-- **`to_standard`** (stable sort of `enumerate`, then inverse) returns a permutation that is
    order-isomorphic to its input with ties broken left to right, and it is the only such permutation;
    for all input sequences, repetitions included -/
theorem toStandard_spec (l : List Nat) :
    IsPerm (toStandard l) ∧ Spec.StdIso l (toStandard l) ∧
    ∀ r, IsPerm r → Spec.StdIso l r → r = toStandard l :=
  ⟨isPerm_toStandard l, stdIso_toStandard l,
    fun r hr h => stdIso_unique l r _ hr (isPerm_toStandard l) h (stdIso_toStandard l)⟩

example : toStandard [2, 0, 0, 1, 0] = [4, 0, 1, 3, 2] := by decide

/-- standardisation is the identity on permutations -/
theorem toStandard_of_isPerm (σ : NSeq) (h : IsPerm σ) : toStandard σ = σ :=
  ((toStandard_spec σ).2.2 σ h (stdIso_self h)).symm

/-- standardisation is idempotent -/
theorem toStandard_idem (l : List Nat) : toStandard (toStandard l) = toStandard l :=
  toStandard_of_isPerm _ (isPerm_toStandard l)

/-- the code-shaped model agrees with the shared rank-count model `Model.standardize` used by the
    other properties -/
theorem toStandard_eq_standardize (l : List Nat) : toStandard l = standardize l :=
  toStandard_eq_standardize_aux l

/-- **memo**: one call through the LRU cache returns the fresh value and keeps the cache sound,
    whatever `maxsize` is -/
theorem toStandardMemo_spec (maxsize : Nat) (c : StdCache) (l : List Nat) (h : CacheOK c) :
    (toStandardMemo maxsize c l).2 = toStandard l ∧ CacheOK (toStandardMemo maxsize c l).1 := by
  unfold toStandardMemo
  cases hl : c.lookup l with
  | none =>
    refine ⟨rfl, ?_⟩
    intro e he
    rcases List.mem_cons.mp (List.mem_of_mem_take he) with rfl | he
    · rfl
    · exact h e he
  | some r =>
    have hr : r = toStandard l := h _ (lookup_mem hl)
    refine ⟨hr, ?_⟩
    intro e he
    rcases List.mem_cons.mp he with rfl | he
    · exact hr
    · exact h e (List.mem_of_mem_filter he)

/-- **history independence**: after any earlier use of the memoised standardisation (any sound cache,
    in particular the one left by any sequence of earlier calls), every call of a history returns
    what a fresh computation returns -/
theorem toStandardHistory_eq (maxsize : Nat) (c : StdCache) (ls : List (List Nat)) (h : CacheOK c) :
    toStandardHistory maxsize c ls = ls.map toStandard := by
  induction ls generalizing c with
  | nil => rfl
  | cons l rest ih =>
    obtain ⟨h1, h2⟩ := toStandardMemo_spec maxsize c l h
    rw [toStandardHistory, h1, ih _ h2]; rfl

example : toStandardHistory 1 [] [[2, 2, 1], [5, 0], [2, 2, 1]] = [[1, 2, 0], [1, 0], [1, 2, 0]] := by decide

/-! ## A5  notations -/

/-- **`from_string(str(σ)) = σ`** for permutations of length `≤ 10` (the empty one is `"ε"`) -/
theorem str_roundtrip (σ : NSeq) (h : IsPerm σ) (hl : σ.length ≤ 10) : fromChars (strChars σ) = .ok σ := by
  have h10 : ∀ x ∈ σ, x < 10 := fun x hx => by have := h.2 x hx; omega
  cases σ with
  | nil => rfl
  | cons a t =>
    have ha := h10 a (by simp)
    have hne : strChars (a :: t) ≠ ['ε'] := by
      simp only [strChars, List.isEmpty_cons, Bool.false_eq_true, if_false, hl, if_true, List.flatMap_cons,
        natChars_lt a ha, List.singleton_append]
      intro e
      exact digitChar_ne_eps a ha (List.cons.inj e).1
    rw [fromChars, if_neg hne]
    simp only [strChars, List.isEmpty_cons, Bool.false_eq_true, if_false, hl, if_true]
    exact charsToDigits_flatMap _ h10

/-- the same on actual strings -/
theorem str_roundtrip_string (σ : NSeq) (h : IsPerm σ) (hl : σ.length ≤ 10) : fromString (str σ) = .ok σ := by
  rw [fromString, str, String.toList_ofList]; exact str_roundtrip σ h hl

/-- **above length 10 `str` is not a notation `from_string` reads**: the parenthesised form is rejected
    with `ValueError` (the domain `≤ 10` of `str_roundtrip` is exact) -/
theorem str_long_rejected (σ : NSeq) (hl : 10 < σ.length) : fromChars (strChars σ) = .error .valueError := by
  cases σ with
  | nil => simp at hl
  | cons a t =>
    have h1 : ¬ (a :: t).length ≤ 10 := by omega
    simp only [strChars, List.isEmpty_cons, Bool.false_eq_true, if_false, h1, List.flatMap_cons,
      List.cons_append]
    rw [fromChars, if_neg (by intro e; exact absurd (List.cons.inj e).1 (by decide))]
    rw [charsToDigits]
    rfl

example : str [] = "ε" ∧ str [1, 0] = "10" ∧ str [0, 1, 2, 3, 4, 5, 6, 7, 8, 9, 10] = "(0)(1)(2)(3)(4)(5)(6)(7)(8)(9)(10)" := by
  decide

/-- **one-based integer notation**: `from_integer` reads back the number written with the digits
    `σ[i]+1`, for permutations of length `1 … 9` -/
theorem fromInteger_oneBased (σ : NSeq) (h : IsPerm σ) (h1 : 1 ≤ σ.length) (h9 : σ.length ≤ 9) :
    fromInteger (digitsToNat (σ.map (· + 1)) : Nat) = .ok σ := by
  have hne : σ.map (· + 1) ≠ [] := by
    intro e; rw [List.map_eq_nil_iff] at e; rw [e] at h1; simp at h1
  have hd : ∀ d ∈ σ.map (· + 1), d < 10 := by
    intro d hd
    obtain ⟨x, hx, rfl⟩ := List.mem_map.mp hd
    have := h.2 x hx; omega
  have hb : digitsToNat (σ.map (· + 1)) ≤ 9876543210 := by
    have := digitsToNat_lt _ hd
    rw [List.length_map] at this
    have h2 : 10 ^ σ.length ≤ 10 ^ 9 := Nat.pow_le_pow_right (by decide) h9
    have h3 : (10 : Nat) ^ 9 ≤ 9876543210 := by decide
    omega
  rw [fromInteger_digits _ hne hd (by
    cases σ with
    | nil => simp at h1
    | cons a t => simp) hb, toStandard_map_succ σ h]

/-- **zero-based integer notation**: for permutations of length `1 … 10` that do not start with `0` -/
theorem fromInteger_zeroBased (σ : NSeq) (h : IsPerm σ) (hne : σ ≠ []) (h10 : σ.length ≤ 10)
    (hhead : σ.head hne ≠ 0) : fromInteger (digitsToNat σ : Nat) = .ok σ := by
  have hd : ∀ d ∈ σ, d < 10 := fun d hd => by have := h.2 d hd; omega
  have hb : digitsToNat σ ≤ 9876543210 := by
    have h1 := digitsToNat_le_descVal σ.length σ h10 rfl h.1 h.2
    by_cases h9 : σ.length ≤ 9
    · have := digitsToNat_lt _ hd
      have h2 : 10 ^ σ.length ≤ 10 ^ 9 := Nat.pow_le_pow_right (by decide) h9
      have h3 : (10 : Nat) ^ 9 ≤ 9876543210 := by decide
      omega
    · have : σ.length = 10 := by omega
      rw [this, descVal_ten] at h1; exact h1
  rw [fromInteger_digits σ hne hd hhead hb, toStandard_of_isPerm σ h]

/-- **the leading-zero case is genuinely not a round trip**: `01` is read as `1`, i.e. as `Perm((0,))` -/
theorem fromInteger_leading_zero_witness :
    IsPerm [0, 1] ∧ fromInteger (digitsToNat [0, 1] : Nat) = .ok [0] ∧ fromInteger (digitsToNat [0, 1] : Nat) ≠ .ok [0, 1] := by
  decide

/-- outside `0 … 9876543210` the `assert` fails -/
theorem fromInteger_out_of_range (i : Int) (h : i < 0 ∨ 9876543210 < i) : fromInteger i = .error .assertion := by
  simp [fromInteger, h]

example : fromInteger 201 = .ok [2, 0, 1] ∧ fromInteger 0 = .ok [0] ∧ fromInteger 9876543210 = .ok [9, 8, 7, 6, 5, 4, 3, 2, 1, 0] := by
  decide

/-- **`one_based`** undoes the shift by one (no validation is involved) -/
theorem oneBased_roundtrip (σ : NSeq) : oneBased (σ.map fun v => (v : Int) + 1) = σ.map fun v => (v : Int) := by
  simp [oneBased, List.map_map, Function.comp_def]

/-- **validated constructor**: a tuple of naturals is accepted (and returned unchanged) iff it is a permutation -/
theorem validated_iff (l : List Nat) :
    fromIterableValidated (l.map fun v => PyVal.int (v : Nat)) = .ok l ↔ IsPerm l := by
  have hloop := (validateLoop_ints l.length l []).1
  have hmap : (l.map fun v => PyVal.int (v : Nat)).map PyVal.toNat = l := by
    simp [List.map_map, Function.comp_def, PyVal.toNat]
  unfold fromIterableValidated
  rw [List.length_map]
  constructor
  · intro h
    cases hv : validateLoop l.length (l.map fun v => PyVal.int (v : Nat)) [] with
    | error e => rw [hv] at h; cases h
    | ok u =>
      obtain ⟨h1, h2, _⟩ := hloop.mp hv
      exact ⟨h2, h1⟩
  · intro h
    rw [hloop.mpr ⟨h.2, h.1, fun _ _ => by simp⟩]
    simp only [hmap]

/-- … and a tuple of naturals that is not a permutation is rejected with `ValueError` -/
theorem validated_not_perm (l : List Nat) (h : ¬ IsPerm l) :
    fromIterableValidated (l.map fun v => PyVal.int (v : Nat)) = .error .valueError := by
  obtain ⟨hiff, hor⟩ := validateLoop_ints l.length l []
  unfold fromIterableValidated
  rw [List.length_map]
  rcases hor with h1 | h1
  · obtain ⟨a, b, _⟩ := hiff.mp h1
    exact absurd ⟨b, a⟩ h
  · rw [h1]

/-- whatever objects are handed in, an accepted result is a permutation -/
theorem validated_ok_isPerm (vs : List PyVal) (σ : NSeq) (h : fromIterableValidated vs = .ok σ) : IsPerm σ := by
  unfold fromIterableValidated at h
  cases hv : validateLoop vs.length vs [] with
  | error e => rw [hv] at h; cases h
  | ok u =>
    rw [hv] at h
    obtain ⟨h1, h2⟩ := validateLoop_ok vs.length vs [] hv
    have : σ = vs.map PyVal.toNat := by cases h; rfl
    subst this
    refine ⟨h2, ?_⟩
    intro x hx
    obtain ⟨w, hw, rfl⟩ := List.mem_map.mp hx
    obtain ⟨k, rfl, hk, _⟩ := h1 w hw
    simpa [PyVal.toNat] using hk

/-- error kinds in the code's order: a non-integer object reached after a valid prefix is a `TypeError` … -/
theorem validated_typeError (pre : List Nat) (post : List PyVal) (hnd : pre.Nodup)
    (hr : ∀ v ∈ pre, v < pre.length + 1 + post.length) :
    fromIterableValidated (pre.map (fun v => PyVal.int (v : Nat)) ++ PyVal.other :: post) = .error .typeError := by
  unfold fromIterableValidated
  obtain ⟨used', h⟩ := validateLoop_append_ints (pre.length + 1 + post.length) (PyVal.other :: post) pre []
    hr hnd (fun _ _ => by simp)
  have hlen : (pre.map (fun v => PyVal.int (v : Nat)) ++ PyVal.other :: post).length = pre.length + 1 + post.length := by
    simp; omega
  rw [hlen, h]
  rfl

/-- … whereas an out-of-range or repeated integer *before* it wins with `ValueError` -/
example : fromIterableValidated [.int 5, .other] = .error .valueError ∧
    fromIterableValidated [.int 0, .int 0, .other] = .error .valueError ∧
    fromIterableValidated [.int 0, .other, .int 7] = .error .typeError ∧
    fromIterableValidated [.int (-1)] = .error .valueError := by decide

/-- the validated constructor reads `str(σ)` for non-empty permutations of length `≤ 10` … -/
theorem validated_str_roundtrip (σ : NSeq) (h : IsPerm σ) (hne : σ ≠ []) (hl : σ.length ≤ 10) :
    fromValidatedChars (strChars σ) = .ok σ := by
  have h10 : ∀ x ∈ σ, x < 10 := fun x hx => by have := h.2 x hx; omega
  cases σ with
  | nil => exact absurd rfl hne
  | cons a t =>
    simp only [strChars, List.isEmpty_cons, Bool.false_eq_true, if_false, hl, if_true]
    rw [fromValidatedChars, charsToDigits_flatMap _ h10]
    exact (validated_iff _).mpr h

/-- … but not the `"ε"` that `str` produces for the empty permutation (only `""` is accepted) -/
example : fromValidatedChars (strChars []) = .error .valueError ∧ fromValidatedChars [] = .ok [] := by decide

example : Model.repr [] = "Perm(())" ∧ Model.repr [0] = "Perm((0,))" ∧ Model.repr [1, 0, 2] = "Perm((1, 0, 2))" := by decide

/-! ## A6  mesh patterns -/

/-- **`rank ∘ unrank = id`** for every rank below `2^((n+1)²)`; the produced shading lies in the grid
    and has no repeated cell -/
theorem meshRank_unrank (π : NSeq) (k : Nat) (h : k < 2 ^ ((π.length + 1) ^ 2)) :
    ∃ m, meshUnrank π (k : Nat) = .ok m ∧ m.pattern = π ∧ InGrid π.length m.shading ∧ m.shading.Nodup ∧
      meshRank m = k :=
  ⟨_, meshUnrank_eq π k h, rfl, inGrid_unrankShading _ k h, nodup_unrankShading _ k, meshRank_unrankShading π k h⟩

/-- **`unrank ∘ rank = id`** for every shading inside the grid (as sets of cells: the model lists a
    frozenset in increasing bit order); in particular `rank` stays below the bound -/
theorem meshUnrank_rank (m : Mesh) (h : InGrid m.pattern.length m.shading) :
    meshRank m < 2 ^ ((m.pattern.length + 1) ^ 2) ∧
    ∃ m', meshUnrank m.pattern (meshRank m : Nat) = .ok m' ∧ m'.pattern = m.pattern ∧ m'.shading.Nodup ∧
      ∀ c, c ∈ m'.shading ↔ c ∈ m.shading := by
  refine ⟨meshRank_lt m h, _, meshUnrank_eq _ _ (meshRank_lt m h), rfl, nodup_unrankShading _ _, ?_⟩
  intro c
  simp only
  rw [mem_unrankShading, testBit_meshRank]
  constructor
  · rintro ⟨h2, c', hc', he⟩
    have e1 := divmod_cellIdx m.pattern.length c' (h c' hc').2
    have e2 := divmod_cellIdx m.pattern.length c h2
    rw [he, e2] at e1
    rw [e1]; exact hc'
  · intro hc
    exact ⟨(h c hc).2, c, hc, rfl⟩

/-- ranks outside `0 … 2^((n+1)²) - 1` are rejected by the `assert` -/
theorem meshUnrank_rejects (π : NSeq) (k : Int) (h : k < 0 ∨ (2 : Int) ^ ((π.length + 1) ^ 2) ≤ k) :
    meshUnrank π k = .error .assertion :=
  meshUnrank_out_of_range π k h

/-- `rank` does not depend on the order in which the frozenset is traversed, nor on repetitions -/
theorem meshRank_order_irrelevant (π : NSeq) (s s' : List Cell) (h : ∀ c, c ∈ s ↔ c ∈ s') :
    meshRank ⟨π, s⟩ = meshRank ⟨π, s'⟩ := by
  apply Nat.eq_of_testBit_eq
  intro i
  rw [Bool.eq_iff_iff, testBit_meshRank, testBit_meshRank]
  simp only [h]

/-- `rank` is injective on shadings of one pattern inside the grid -/
theorem meshRank_injective (π : NSeq) (s s' : List Cell) (hs : InGrid π.length s) (hs' : InGrid π.length s')
    (h : meshRank ⟨π, s⟩ = meshRank ⟨π, s'⟩) : ∀ c, c ∈ s ↔ c ∈ s' := by
  intro c
  obtain ⟨_, m1, e1, _, _, h1⟩ := meshUnrank_rank ⟨π, s⟩ hs
  obtain ⟨_, m2, e2, _, _, h2⟩ := meshUnrank_rank ⟨π, s'⟩ hs'
  simp only at e1 e2 h1 h2
  rw [h, e2] at e1
  cases e1
  rw [← h1, h2]

example : meshUnrank [0, 1, 2] 386 = .ok ⟨[0, 1, 2], [(0, 1), (1, 3), (2, 0)]⟩ := by decide
example : meshRank ⟨[1, 0, 2], [(0, 0), (3, 0), (0, 2), (2, 1), (2, 3), (1, 2), (3, 3), (3, 1), (1, 1)]⟩ = 47717 := by
  decide
example : meshUnrank [0] 16 = .error .assertion := by decide

/-- **`of_length(n)`** succeeds and lists `n! · 2^((n+1)²)` pairwise different mesh patterns, all of
    them a permutation of length `n` with a duplicate-free shading in the grid, and every such
    (pattern, shading) occurs: each shading of each pattern exactly once -/
theorem meshOfLength_spec (n : Nat) : ∃ L, meshOfLength n none = .ok L ∧ L.Nodup ∧
    L.length = n ! * 2 ^ ((n + 1) ^ 2) ∧
    (∀ m ∈ L, IsPerm m.pattern ∧ m.pattern.length = n ∧ InGrid n m.shading ∧ m.shading.Nodup) ∧
    (∀ m : Mesh, IsPerm m.pattern → m.pattern.length = n → InGrid n m.shading →
      ∃ m' ∈ L, m'.pattern = m.pattern ∧ ∀ c, c ∈ m'.shading ↔ c ∈ m.shading) := by
  refine ⟨allMeshes n (permsLex n), ?_, ?_, ?_, ?_, ?_⟩
  · exact meshOfLengthAll_eq n _ (fun π hπ => ((mem_permsLex n π).mp hπ).2)
  · unfold allMeshes
    rw [List.nodup_flatMap]
    constructor
    · intro π hπ
      have hl := ((mem_permsLex n π).mp hπ).2
      apply List.Nodup.map_on _ List.nodup_range
      intro x hx y hy e
      have e' : unrankShading n x = unrankShading n y := by injection e
      have h1 := meshRank_unrankShading π x (by rw [hl]; exact List.mem_range.mp hx)
      have h2 := meshRank_unrankShading π y (by rw [hl]; exact List.mem_range.mp hy)
      rw [hl] at h1 h2
      rw [← h1, ← h2, e']
    · refine (permsLex_spec n).2.2.1.imp ?_
      intro a b hab
      rw [Function.onFun, List.disjoint_left]
      intro m hm hm'
      obtain ⟨_, _, rfl⟩ := List.mem_map.mp hm
      obtain ⟨_, _, e⟩ := List.mem_map.mp hm'
      injection e with e1 _
      exact hab e1.symm
  · unfold allMeshes
    rw [List.length_flatMap]
    simp [List.sum_replicate_nat, length_permsLex]
  · intro m hm
    unfold allMeshes at hm
    obtain ⟨π, hπ, hm⟩ := List.mem_flatMap.mp hm
    obtain ⟨k, hk, rfl⟩ := List.mem_map.mp hm
    obtain ⟨h1, h2⟩ := (mem_permsLex n π).mp hπ
    exact ⟨h1, h2, inGrid_unrankShading n k (List.mem_range.mp hk), nodup_unrankShading n k⟩
  · intro m hp hl hg
    subst hl
    obtain ⟨hlt, m', he, hpat, _, hmem⟩ := meshUnrank_rank m hg
    rw [meshUnrank_eq _ _ hlt] at he
    cases he
    refine ⟨⟨m.pattern, unrankShading m.pattern.length (meshRank m)⟩, ?_, rfl, hmem⟩
    unfold allMeshes
    rw [List.mem_flatMap]
    refine ⟨m.pattern, (mem_permsLex _ _).mpr ⟨hp, rfl⟩, ?_⟩
    rw [List.mem_map]
    exact ⟨meshRank m, List.mem_range.mpr hlt, rfl⟩

/-- **`of_length(len(π), π)`**: all shadings of the given pattern, in rank order, each once -/
theorem meshOfLength_patt (π : NSeq) : ∃ L, meshOfLength π.length (some π) = .ok L ∧
    L.length = 2 ^ ((π.length + 1) ^ 2) ∧
    ∀ k (hk : k < L.length), (L[k]).pattern = π ∧ meshRank L[k] = k := by
  refine ⟨_, meshUnrankRange_eq π _ 0 (by simp), by simp, ?_⟩
  intro k hk
  have hk' : k < 2 ^ ((π.length + 1) ^ 2) := by simpa using hk
  simp only [List.getElem_map, List.getElem_range', Nat.zero_add, Nat.one_mul, true_and]
  exact meshRank_unrankShading π k hk'

/-- the code computes the number of ranks from `length`, not from the pattern: a pattern shorter than
    `length` makes the generator fail half-way (quirk mirrored by the model) -/
example : meshOfLength 1 (some []) = .error .assertion ∧
    meshOfLength 0 (some [0]) = .ok [⟨[0], []⟩, ⟨[0], [(0, 0)]⟩] := by decide

/-! ## A7  `eval(repr(x)) == x`: the `repr` texts are read back

`Model.parseRepr` / `Model.parseMeshRepr` (`Model/C09Repr.lean`) model Python's `eval` on exactly the
sub-grammar of expressions that `Perm.__repr__` / `MeshPatt.__repr__` write.  What stays trusted is that
`eval` restricted to that sub-grammar *is* this parser (compared by the harness streams `repr-read`,
`repr-malformed`). -/

/-- **`eval(repr(p)) == p`** for every tuple of naturals `s` (all lengths — `()`, the one-element form
    `(a,)`, longer ones —, numerals with any number of digits): the parser reads the text `repr` writes
    back to `s`. -/
theorem repr_roundtrip (s : NSeq) : parseRepr (Model.repr s) = some s := by
  unfold parseRepr Model.repr
  rw [String.toList_ofList]
  exact parseReprChars_reprChars s

example : parseRepr "Perm((10, 0, 203))" = some [10, 0, 203] ∧ parseRepr "Perm((7,))" = some [7] ∧
    parseRepr "Perm(())" = some [] := by decide

/-- … and the parser accepts **nothing else**: a text that is read as `s` is literally `repr(s)`
    (no other whitespace, no redundant parentheses or trailing commas, no `Perm()`, no `00`).  Together with
    `repr_roundtrip`: `parseRepr t = some s ↔ t = repr s`. -/
theorem parseRepr_only_image (t : String) (s : NSeq) (h : parseRepr t = some s) : t = Model.repr s := by
  unfold parseRepr at h
  unfold Model.repr
  rw [← parseReprChars_some _ _ h, String.ofList_toList]

theorem parseRepr_iff (t : String) (s : NSeq) : parseRepr t = some s ↔ t = Model.repr s :=
  ⟨parseRepr_only_image t s, fun h => h ▸ repr_roundtrip s⟩

example : parseRepr "Perm((0,1))" = none ∧ parseRepr "Perm((0, 1,))" = none ∧ parseRepr "Perm((0))" = none ∧
    parseRepr "Perm()" = none ∧ parseRepr "Perm((00,))" = none ∧ parseRepr "Perm((01, 0))" = none ∧
    parseRepr "Perm((0, 1)) " = none ∧ parseRepr "Perm(((0, 1)))" = none ∧ parseRepr "Perm((,))" = none ∧
    parseRepr "perm((0,))" = none ∧ parseRepr "" = none := by decide

/-- **`eval(repr(m)) == m`** for mesh patterns: the text of `MeshPatt.__repr__` (which lists
    `sorted(shading)`) is read back to the pattern and the sorted shading, for every pattern and every list of
    cells.  `cellSort` is a rearrangement (`cellSort_mem`, `cellSort_length`), the identity on increasing lists. -/
theorem mesh_repr_roundtrip (m : Mesh) : parseMeshRepr (meshRepr m) = some ⟨m.pattern, cellSort m.shading⟩ := by
  unfold parseMeshRepr meshRepr meshReprChars
  rw [String.toList_ofList]
  exact parseMeshReprChars_raw m.pattern (cellSort m.shading)

theorem cellSort_mem (c : Cell) (l : List Cell) : c ∈ cellSort l ↔ c ∈ l := mem_cellSort c l

theorem cellSort_length (l : List Cell) : (cellSort l).length = l.length := length_cellSort l

theorem cellSort_of_sorted (l : List Cell) (h : l.Pairwise (fun a b => cellLe' a b = true)) : cellSort l = l :=
  cellSort_sorted l h

example : meshRepr ⟨[0, 1], [(1, 2), (0, 0)]⟩ = "MeshPatt(Perm((0, 1)), [(0, 0), (1, 2)])" ∧
    meshRepr ⟨[], []⟩ = "MeshPatt(Perm(()), [])" ∧
    parseMeshRepr "MeshPatt(Perm((0, 1)), [(0, 0), (1, 2)])" = some ⟨[0, 1], [(0, 0), (1, 2)]⟩ := by decide

/-- the constructor that `eval` runs on the text accepts it when the shading lies in the grid
    (then the value is the mesh pattern itself, shading sorted) … -/
theorem mesh_repr_eval_ok (m : Mesh) (h : InGrid m.pattern.length m.shading) :
    evalMeshRepr (meshRepr m) = some (.ok ⟨m.pattern, cellSort m.shading⟩) := by
  have hp := mesh_repr_roundtrip m
  unfold parseMeshRepr at hp
  unfold evalMeshRepr evalMeshReprChars
  rw [hp]
  simp only
  rw [if_pos]
  rw [List.all_eq_true]
  intro c hc
  have := h c ((mem_cellSort c _).mp hc)
  simp [this.1, this.2]

/-- … and fails its `assert` otherwise (such an object cannot be built in the first place) -/
theorem mesh_repr_eval_assert (m : Mesh) (h : ¬ InGrid m.pattern.length m.shading) :
    evalMeshRepr (meshRepr m) = some (.error .assertion) := by
  have hp := mesh_repr_roundtrip m
  unfold parseMeshRepr at hp
  unfold evalMeshRepr evalMeshReprChars
  rw [hp]
  simp only
  rw [if_neg]
  intro hall
  apply h
  intro c hc
  rw [List.all_eq_true] at hall
  have := hall c ((mem_cellSort c _).mpr hc)
  simpa using this

example : evalMeshRepr "MeshPatt(Perm((0,)), [(0, 1)])" = some (.ok ⟨[0], [(0, 1)]⟩) ∧
    evalMeshRepr "MeshPatt(Perm((0,)), [(0, 2)])" = some (.error .assertion) ∧
    evalMeshRepr "MeshPatt(Perm((0,)), [(0, 1),])" = none := by decide

/-- the mesh parser accepts only the canonical spelling: a text read as `m` is `MeshPatt(<repr of the
    pattern>, <list display of the shading in the order read>)` literally -/
theorem parseMeshRepr_only_image (t : String) (m : Mesh) (h : parseMeshRepr t = some m) :
    t = String.ofList ("MeshPatt(".toList ++ reprChars m.pattern ++ ',' :: ' ' :: cellsReprChars m.shading ++ [')']) := by
  unfold parseMeshRepr at h
  rw [← parseMeshReprChars_some _ _ h, String.ofList_toList]

end C09
