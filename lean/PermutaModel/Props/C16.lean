import PermutaModel.Lemmas.C16Special
import PermutaModel.Lemmas.C16Fam
import PermutaModel.Lemmas.C16Simple
import PermutaModel.Props.C10
import PermutaModel.Props.C14
import PermutaModel.Lemmas.C16PinPerm
import PermutaModel.Lemmas.C16ConvPlot
import PermutaModel.Lemmas.C16ConvFam
import PermutaModel.Lemmas.C16ConvAlt
import PermutaModel.Lemmas.C16ConvW1
import PermutaModel.Lemmas.C16ConvW2
import PermutaModel.Lemmas.C16ConvSimple
import PermutaModel.Lemmas.C16ConvReach
import PermutaModel.Lemmas.C16BhvFinal

/-!
# C16 — the "finitely many simples" decision

Property theorems only.  `Model.C16.*` mirrors `pin_words.py:398-476`, `permset.py:90-98`,
`finitely_many_simples.py` and the body of `permtools simple`; the three pattern tables are the
*generated* constants `Generated.c16_altBasis / c16_wedge1 / c16_wedge2`.

`verdict_matches_simples` (Brignall–Ruškuc–Vatter, Schmerl–Trotter), status:
* PROVED: verdict `False` ⇒ `Av(B)` has simple permutations beyond every bound, whichever half failed
  (`verdict_false_correct`; special half `special_false_*`, pin half `pin_false_infinitely_many_simples` through
  the theorem of `Props/C14.lean` and the geometry of proper pin sequences, `Lemmas/C16Pin*.lean`); equivalently,
  finitely many simples ⇒ verdict `True` (`verdict_true_of_finitely_many_simples`);
* PROVED: the verdict is invariant under the eight symmetries and depends only on the class (`*_all`, section A6);
* PROVED (sections A8, A9): the converse, verdict `True` ⇒ finitely many simples – `verdict_true_finitely_many_simples`,
  and the full statement `verdict_matches_simples` (an iff).  Section A8 reduces it to the unavoidable-substructures
  theorem of Brignall–Huczynska–Vatter (`Spec.C16.UnavoidableSubstructures`: every long simple contains a long proper
  pin sequence, parallel alternation or wedge permutation; `*_of_BHV` with that statement as hypothesis), using
  `pinSeq_is_strict_word`, `*_table_is_basis`, `special_true_excludes_families`, `pin_true_excludes_pin_sequences`;
  section A9 proves that theorem itself (`unavoidable_substructures`, `Lemmas/C16Bhv*.lean`).
-/
open Model Model.C15 Model.C16 C04L

namespace C16

/-- the three tables, as the code tests them -/
def tables : List (List NSeq) := [Generated.c16_altBasis, Generated.c16_wedge1, Generated.c16_wedge2]

/-- **decision logic**: for every flag combination `has_finite_simples` returns
    "special test ∧ pin test" -/
theorem hasFiniteSimples_iff (B : List NSeq) (useDb checkAll : Bool) (dfa : Option DFA) :
    hasFiniteSimples B useDb checkAll dfa = true ↔
      hasFiniteSpecialSimples B = true ∧ hasFinitePinpermsWith B useDb dfa = true := by
  unfold hasFiniteSimples
  cases checkAll <;> cases hs : hasFiniteSpecialSimples B <;>
    cases hasFinitePinpermsWith B useDb dfa <;> simp [hs]

/-- `check_all` only changes the evaluation order, never the answer -/
theorem hasFiniteSimples_checkAll (B : List NSeq) (useDb c c' : Bool) (dfa : Option DFA) :
    hasFiniteSimples B useDb c dfa = hasFiniteSimples B useDb c' dfa := by
  rw [Bool.eq_iff_iff, hasFiniteSimples_iff, hasFiniteSimples_iff]

/-- the early returns of `has_finite_special_simples` compute the conjunction of the three tests -/
theorem special_eq_and (B : List NSeq) :
    hasFiniteSpecialSimples B = (hasFiniteAlternations B && hasFiniteWedges1 B && hasFiniteWedges2 B) := by
  unfold hasFiniteSpecialSimples
  cases hasFiniteAlternations B <;> cases hasFiniteWedges1 B <;> cases hasFiniteWedges2 B <;> rfl

/-- `Av.has_finitely_many_simples` = `is_finite ∨ is_polynomial ∨ has_finite_simples` on the
    normalised basis, `ValueError` exactly for the empty basis / the basis `{ε}` -/
theorem av_verdict (B : List NSeq) (poly : Bool) :
    avHasFinitelyManySimples B poly =
      if basisOf B = [] ∨ basisOf B = [[]] then .error .valueError
      else .ok (isFiniteClass (basisOf B) || poly ||
        (hasFiniteSpecialSimples (basisOf B) && hasFinitePinperms (basisOf B))) := by
  unfold avHasFinitelyManySimples
  by_cases h1 : basisOf B = []
  · simp [h1]
  · by_cases h2 : basisOf B = [[]]
    · simp [h2]
    · have hcond : ((basisOf B).isEmpty || basisOf B == [[]]) = false := by
        simp [h1, h2]
      simp only [hcond, h1, h2, or_self, if_false, Bool.false_eq_true]
      congr 2
      rw [Bool.eq_iff_iff, hasFiniteSimples_iff, Bool.and_eq_true]
      rfl

/-- the command-line body prints the verdict of the class method (same exception, same Boolean) -/
theorem cli_agrees_with_av (arg : String) (poly : Bool) :
    cliSimple arg poly =
      (avHasFinitelyManySimples ((digitGroups arg.toList).map standardize) poly).map
        (cliLine (basisOf ((digitGroups arg.toList).map standardize))) := by
  unfold cliSimple avHasFinitelyManySimples
  generalize basisOf ((digitGroups arg.toList).map standardize) = basis
  by_cases h : ((basis.isEmpty || basis == [[]]) = true)
  · simp [h, Except.map]
  · simp [h, Except.map]

/-- the strategy asks the same question about the de-duplicated basis -/
theorem strategy_eq (B : List NSeq) :
    strategyApplies B = (hasFiniteSpecialSimples B.eraseDups && hasFinitePinperms B.eraseDups) := by
  unfold strategyApplies
  rw [Bool.eq_iff_iff, hasFiniteSimples_iff, Bool.and_eq_true]
  rfl

/-- **characterisation of the special test**: it succeeds iff for each of the three tables `T`
    and each of the eight symmetries `g`, some basis element avoids every pattern of `g·T` -/
theorem special_iff (B : List NSeq) (hB : ∀ x ∈ B, IsPerm x) :
    hasFiniteSpecialSimples B = true ↔
      ∀ T ∈ tables, ∀ g : D8, ∃ x ∈ B, ∀ p ∈ T, ¬ Contains x (g.act p) := by
  obtain ⟨ha, h1, h2⟩ := C16L.tables_perm
  rw [special_eq_and, Bool.and_eq_true, Bool.and_eq_true]
  unfold hasFiniteAlternations hasFiniteWedges1 hasFiniteWedges2
  rw [C16L.hasFiniteFamily_iff _ B ha hB, C16L.hasFiniteFamily_iff _ B h1 hB, C16L.hasFiniteFamily_iff _ B h2 hB]
  simp only [tables, List.mem_cons, List.not_mem_nil, or_false, forall_eq_or_imp, forall_eq]
  tauto

/-- … equivalently: the test fails iff some symmetric image of one of the three classes
    `Av(T)` lies inside `Av(B)` -/
theorem not_special_iff_subclass (B : List NSeq) (hB : ∀ x ∈ B, IsPerm x) :
    hasFiniteSpecialSimples B = false ↔
      ∃ T ∈ tables, ∃ g : D8, ∀ σ, IsPerm σ → (∀ p ∈ T, ¬ Contains σ (g.act p)) → ∀ x ∈ B, ¬ Contains σ x := by
  rw [← Bool.not_eq_true, special_iff B hB]
  simp only [not_forall, not_exists, not_and, not_not]
  constructor
  · rintro ⟨T, hT, g, h⟩
    refine ⟨T, hT, g, ?_⟩
    have hsub := (C16L.subclass_iff_blocked (T.map g.act) B hB).mpr (by
      intro x hx
      obtain ⟨p, hp, hc⟩ := h x hx
      exact ⟨g.act p, List.mem_map_of_mem hp, hc⟩)
    intro σ hσ hav x hx
    exact hsub σ hσ (by
      intro q hq
      obtain ⟨p, hp, rfl⟩ := List.mem_map.mp hq
      exact hav p hp) x hx
  · rintro ⟨T, hT, g, h⟩
    refine ⟨T, hT, g, ?_⟩
    have hb := (C16L.subclass_iff_blocked (T.map g.act) B hB).mp (by
      intro σ hσ hav x hx
      exact h σ hσ (fun p hp => hav _ (List.mem_map_of_mem hp)) x hx)
    intro x hx
    obtain ⟨q, hq, hc⟩ := hb x hx
    obtain ⟨p, hp, rfl⟩ := List.mem_map.mp hq
    exact ⟨p, hp, hc⟩

/-- **the special test depends only on the class**: two bases with the same avoiders get the same answer
    (in particular the basis may be given unnormalised, with redundant elements, …) -/
theorem special_class_only (B B' : List NSeq) (hB : ∀ x ∈ B, IsPerm x) (hB' : ∀ x ∈ B', IsPerm x)
    (h : ∀ σ, IsPerm σ → ((∀ x ∈ B, ¬ Contains σ x) ↔ (∀ x ∈ B', ¬ Contains σ x))) :
    hasFiniteSpecialSimples B = hasFiniteSpecialSimples B' := by
  cases hb : hasFiniteSpecialSimples B' with
  | false =>
    rw [not_special_iff_subclass B' hB'] at hb
    rw [not_special_iff_subclass B hB]
    obtain ⟨T, hT, g, hsub⟩ := hb
    exact ⟨T, hT, g, fun σ hσ hav => (h σ hσ).mpr (hsub σ hσ hav)⟩
  | true =>
    cases hb2 : hasFiniteSpecialSimples B with
    | true => rfl
    | false =>
      rw [not_special_iff_subclass B hB] at hb2
      obtain ⟨T, hT, g, hsub⟩ := hb2
      have : hasFiniteSpecialSimples B' = false :=
        (not_special_iff_subclass B' hB').mpr ⟨T, hT, g, fun σ hσ hav => (h σ hσ).mp (hsub σ hσ hav)⟩
      rw [this] at hb; exact absurd hb (by decide)

/-- non-vacuity: `Av(012)` contains the whole first table class, so the special test fails for it;
    the hypotheses of the theorems above are satisfiable -/
example : (∀ x ∈ [[0, 1, 2]], IsPerm x) ∧ hasFiniteSpecialSimples [[0, 1, 2]] = false := by
  have hB : ∀ x ∈ [[0, 1, 2]], IsPerm x := by decide
  refine ⟨hB, (not_special_iff_subclass _ hB).mpr ⟨Generated.c16_altBasis, by simp [tables], D8.one, ?_⟩⟩
  intro σ _ hav x hx
  simp only [List.mem_singleton] at hx
  subst hx
  exact hav [0, 1, 2] (by decide)

/-- **set semantics**: the special test depends only on the set of basis elements
    (order and repetitions are irrelevant) -/
theorem special_congr (B B' : List NSeq) (h : ∀ p, p ∈ B ↔ p ∈ B') :
    hasFiniteSpecialSimples B = hasFiniteSpecialSimples B' := by
  rw [special_eq_and, special_eq_and]
  unfold hasFiniteAlternations hasFiniteWedges1 hasFiniteWedges2
  rw [C16L.hasFiniteFamily_congr _ B B' h, C16L.hasFiniteFamily_congr _ B B' h, C16L.hasFiniteFamily_congr _ B B' h]

/-- the `frozenset` of the strategy does not change the special test -/
theorem special_eraseDups (B : List NSeq) :
    hasFiniteSpecialSimples B.eraseDups = hasFiniteSpecialSimples B :=
  special_congr _ _ fun _ => List.mem_eraseDups

/-- **invariance under the eight symmetries** of the special test -/
theorem special_act (B : List NSeq) (hB : ∀ x ∈ B, IsPerm x) (g : D8) :
    hasFiniteSpecialSimples (B.map g.act) = hasFiniteSpecialSimples B := by
  obtain ⟨ha, h1, h2⟩ := C16L.tables_perm
  rw [special_eq_and, special_eq_and]
  unfold hasFiniteAlternations hasFiniteWedges1 hasFiniteWedges2
  rw [C16L.hasFiniteFamily_act _ B ha hB g, C16L.hasFiniteFamily_act _ B h1 hB g, C16L.hasFiniteFamily_act _ B h2 hB g]

/-! ### explicit arbitrarily long families avoid the generated tables -/

/-- **every** parallel alternation `2m-2, …, 2, 0, 2m-1, …, 3, 1` avoids every pattern of the generated
    alternation table (a changed table entry that occurs in some member makes this fail to check) -/
theorem parAlt_avoids_table (m : Nat) : ∀ τ ∈ Generated.c16_altBasis, ¬ Contains (C16Fam.parAlt m) τ := by
  have h : ∀ τ ∈ Generated.c16_altBasis,
      C16Fam.checkAvoid C16Fam.altTyping [C16Fam.AltT.L, C16Fam.AltT.R] τ = true := by decide +kernel
  exact fun τ hτ => C16Fam.parAlt_avoids m τ (h τ hτ)

/-- every wedge permutation of the first kind `m-1, m+1, m-2, m+2, …, 0, 2m, m` avoids the first
    generated wedge table -/
theorem wedge1_avoids_table (m : Nat) : ∀ τ ∈ Generated.c16_wedge1, ¬ Contains (C16Fam.wedge1 m) τ := by
  have h : ∀ τ ∈ Generated.c16_wedge1,
      C16Fam.checkAvoid C16Fam.w1Typing [C16Fam.W1T.E, C16Fam.W1T.O, C16Fam.W1T.Last] τ = true := by
    decide +kernel
  exact fun τ hτ => C16Fam.wedge1_avoids m τ (h τ hτ)

/-- every wedge permutation of the second kind `1, 3, …, 2m-3, 2m, 2m-2, …, 2, 0, 2m-1` avoids the
    second generated wedge table -/
theorem wedge2_avoids_table (m : Nat) (hm : 1 ≤ m) :
    ∀ τ ∈ Generated.c16_wedge2, ¬ Contains (C16Fam.wedge2 m) τ := by
  have h : ∀ τ ∈ Generated.c16_wedge2,
      C16Fam.checkAvoid C16Fam.w2Typing [C16Fam.W2T.I, C16Fam.W2T.M, C16Fam.W2T.D, C16Fam.W2T.X] τ = true := by
    decide +kernel
  exact fun τ hτ => C16Fam.wedge2_avoids m hm τ (h τ hτ)

/-- the three families, indexed so that member `m` has length at least `2m` -/
def families : List (Nat → NSeq) := [C16Fam.parAlt, C16Fam.wedge1, fun m => C16Fam.wedge2 (m + 1)]

/-- **a failed special test is witnessed inside the class**: if `has_finite_special_simples B` is
    false then one of the three explicit families, in one of the eight orientations, lies in `Av(B)`
    with all its (arbitrarily long) members – each member is a permutation of length `≥ 2m` avoiding
    every basis element.  (That the members are simple is checked by brute force in the harness
    oracle, not proved here.) -/
theorem special_false_gives_family (B : List NSeq) (hB : ∀ x ∈ B, IsPerm x)
    (h : hasFiniteSpecialSimples B = false) :
    ∃ fam ∈ families, ∃ g : D8, ∀ m, IsPerm (g.act (fam m)) ∧ 2 * m ≤ (g.act (fam m)).length ∧
      ∀ x ∈ B, ¬ Contains (g.act (fam m)) x := by
  obtain ⟨ha, h1, h2⟩ := C16L.tables_perm
  obtain ⟨T, hT, g, hsub⟩ := (not_special_iff_subclass B hB).mp h
  -- a family member all of whose table patterns are avoided lies in `Av(g·T)`
  have key : ∀ (fam : Nat → NSeq), (∀ m, IsPerm (fam m)) → (∀ p ∈ T, IsPerm p) →
      (∀ m, ∀ τ ∈ T, ¬ Contains (fam m) τ) → ∀ m, ∀ x ∈ B, ¬ Contains (g.act (fam m)) x := by
    intro fam hperm hTp hav m
    apply hsub (g.act (fam m)) (isPerm_act (hperm m) g)
    intro p hp hc
    exact hav m p hp ((C16L.contains_act_iff (hTp p hp) (hperm m) g).mp hc)
  simp only [tables, List.mem_cons, List.not_mem_nil, or_false] at hT
  rcases hT with rfl | rfl | rfl
  · refine ⟨C16Fam.parAlt, by simp [families], g, fun m => ⟨isPerm_act (C16Fam.isPerm_parAlt m) g, ?_,
      key _ C16Fam.isPerm_parAlt ha parAlt_avoids_table m⟩⟩
    rw [C16Fam.length_act]; simp [C16Fam.parAlt]
  · refine ⟨C16Fam.wedge1, by simp [families], g, fun m => ⟨isPerm_act (C16Fam.isPerm_wedge1 m) g, ?_,
      key _ C16Fam.isPerm_wedge1 h1 wedge1_avoids_table m⟩⟩
    rw [C16Fam.length_act]; simp [C16Fam.wedge1]
  · refine ⟨fun m => C16Fam.wedge2 (m + 1), by simp [families], g,
      fun m => ⟨isPerm_act (C16Fam.isPerm_wedge2 (m + 1) (by omega)) g, ?_,
        key _ (fun m => C16Fam.isPerm_wedge2 (m + 1) (by omega)) h2
          (fun m => wedge2_avoids_table (m + 1) (by omega)) m⟩⟩
    rw [C16Fam.length_act]; simp [C16Fam.wedge2]; omega

/-- non-vacuity: the first members of the families are the familiar simple permutations -/
example : C16Fam.parAlt 2 = [2, 0, 3, 1] ∧ C16Fam.wedge1 2 = [1, 3, 0, 4, 2] ∧
    C16Fam.wedge2 2 = [1, 4, 2, 0, 3] ∧ C16Fam.parAlt 3 = [4, 2, 0, 5, 3, 1] := by decide

/-! ### the explicit families consist of simple permutations -/

/-- `σ` is a simple permutation of the class `Av(B)`: a permutation without proper interval (the
    interval definition of C10, `Spec.C10.IsSimple`: no `2 ≤ l < n` consecutive positions carrying `l`
    consecutive values), recognised as such by the model of `Perm.is_simple`, avoiding every element of `B` -/
def SimpleIn (B : List NSeq) (σ : NSeq) : Prop :=
  IsPerm σ ∧ Spec.C10.IsSimple σ ∧ isSimple σ = true ∧ ∀ x ∈ B, ¬ Contains σ x

/-- **families_simple, parallel alternations**: for *every* `m` the member `2m-2, …, 2, 0, 2m-1, …, 3, 1`
    is a permutation of length exactly `2m` without proper interval, and `is_simple` says so
    (`m ≤ 1`: lengths 0 and 2, trivially simple; `m ≥ 2`: genuine simples of length `≥ 4`) -/
theorem parAlt_simple (m : Nat) :
    IsPerm (C16Fam.parAlt m) ∧ (C16Fam.parAlt m).length = 2 * m ∧ Spec.C10.IsSimple (C16Fam.parAlt m) ∧
      isSimple (C16Fam.parAlt m) = true :=
  ⟨C16Fam.isPerm_parAlt m, by simp [C16Fam.parAlt], C16Simple.parAlt_simple m,
    (C10.isSimple_spec _ (C16Fam.isPerm_parAlt m)).mpr (C16Simple.parAlt_simple m)⟩

/-- **families_simple, wedges of the first kind**: for every `m ≥ 2` the member
    `m-1, m+1, m-2, m+2, …, 0, 2m, m` is a permutation of length exactly `2m+1` without proper interval -/
theorem wedge1_simple (m : Nat) (hm : 2 ≤ m) :
    IsPerm (C16Fam.wedge1 m) ∧ (C16Fam.wedge1 m).length = 2 * m + 1 ∧ Spec.C10.IsSimple (C16Fam.wedge1 m) ∧
      isSimple (C16Fam.wedge1 m) = true :=
  ⟨C16Fam.isPerm_wedge1 m, by simp [C16Fam.wedge1], C16Simple.wedge1_simple m hm,
    (C10.isSimple_spec _ (C16Fam.isPerm_wedge1 m)).mpr (C16Simple.wedge1_simple m hm)⟩

/-- **families_simple, wedges of the second kind**: for every `m ≥ 2` the member
    `1, 3, …, 2m-3, 2m, 2m-2, …, 2, 0, 2m-1` is a permutation of length exactly `2m+1` without proper
    interval -/
theorem wedge2_simple (m : Nat) (hm : 2 ≤ m) :
    IsPerm (C16Fam.wedge2 m) ∧ (C16Fam.wedge2 m).length = 2 * m + 1 ∧ Spec.C10.IsSimple (C16Fam.wedge2 m) ∧
      isSimple (C16Fam.wedge2 m) = true :=
  ⟨C16Fam.isPerm_wedge2 m (by omega), by simp [C16Fam.wedge2], C16Simple.wedge2_simple m hm,
    (C10.isSimple_spec _ (C16Fam.isPerm_wedge2 m (by omega))).mpr (C16Simple.wedge2_simple m hm)⟩

/-- the threshold `m ≥ 2` of the two wedge families is exact: their members with `m = 1` are
    `021` and `201`, which have a proper interval -/
theorem wedge_threshold_exact :
    ¬ Spec.C10.IsSimple (C16Fam.wedge1 1) ∧ ¬ Spec.C10.IsSimple (C16Fam.wedge2 1) := by
  have h1 : IsPerm (C16Fam.wedge1 1) := C16Fam.isPerm_wedge1 1
  have h2 : IsPerm (C16Fam.wedge2 1) := C16Fam.isPerm_wedge2 1 (by omega)
  rw [← C10.isSimple_spec _ h1, ← C10.isSimple_spec _ h2]
  decide

/-- non-vacuity: the first genuine members, and the verdict of `is_simple` on them -/
example : C16Fam.parAlt 2 = [2, 0, 3, 1] ∧ C16Fam.wedge1 2 = [1, 3, 0, 4, 2] ∧ C16Fam.wedge2 2 = [1, 4, 2, 0, 3] ∧
    isSimple [2, 0, 3, 1] = true ∧ isSimple [1, 3, 0, 4, 2] = true ∧ isSimple [1, 4, 2, 0, 3] = true ∧
    C16Fam.wedge1 1 = [0, 2, 1] ∧ C16Fam.wedge2 1 = [2, 0, 1] := by decide

/-- simplicity (interval definition) is invariant under each of the eight symmetries, and so is the
    verdict of `is_simple` -/
theorem simple_act (p : NSeq) (hp : IsPerm p) (g : D8) :
    (Spec.C10.IsSimple (g.act p) ↔ Spec.C10.IsSimple p) ∧ isSimple (g.act p) = isSimple p := by
  refine ⟨C16Simple.simple_act_iff hp g, ?_⟩
  rw [Bool.eq_iff_iff, C10.isSimple_spec _ (isPerm_act hp g), C10.isSimple_spec _ hp]
  exact C16Simple.simple_act_iff hp g
example : isSimple ((⟨true, false, true⟩ : D8).act [2, 0, 3, 1]) = true := by decide

/-! ### "infinitely many" from the special test is witnessed by simple permutations of the class -/

/-- **what each family gives.**  If `has_finite_special_simples B` is false then, in one of the eight
    orientations `g`, one of the three families lies in `Av(B)` with all its members `m ≥ 2`, each of
    which is a simple permutation of the class: either the parallel alternations (one simple of every
    even length `2m ≥ 4`), or the wedges of the first kind, or the wedges of the second kind (one
    simple of every odd length `2m+1 ≥ 5`) -/
theorem special_false_gives_simple_family (B : List NSeq) (hB : ∀ x ∈ B, IsPerm x)
    (h : hasFiniteSpecialSimples B = false) :
    ∃ g : D8,
      (∀ m, 2 ≤ m → (g.act (C16Fam.parAlt m)).length = 2 * m ∧ SimpleIn B (g.act (C16Fam.parAlt m))) ∨
      (∀ m, 2 ≤ m → (g.act (C16Fam.wedge1 m)).length = 2 * m + 1 ∧ SimpleIn B (g.act (C16Fam.wedge1 m))) ∨
      (∀ m, 2 ≤ m → (g.act (C16Fam.wedge2 m)).length = 2 * m + 1 ∧ SimpleIn B (g.act (C16Fam.wedge2 m))) := by
  obtain ⟨fam, hfam, g, H⟩ := special_false_gives_family B hB h
  refine ⟨g, ?_⟩
  have mk : ∀ σ : NSeq, IsPerm σ → Spec.C10.IsSimple σ → (∀ x ∈ B, ¬ Contains (g.act σ) x) →
      SimpleIn B (g.act σ) := by
    intro σ hσ hs hav
    have hs' := (C16Simple.simple_act_iff hσ g).mpr hs
    exact ⟨isPerm_act hσ g, hs', (C10.isSimple_spec _ (isPerm_act hσ g)).mpr hs', hav⟩
  simp only [families, List.mem_cons, List.not_mem_nil, or_false] at hfam
  rcases hfam with rfl | rfl | rfl
  · refine Or.inl fun m hm => ⟨?_, mk _ (C16Fam.isPerm_parAlt m) (C16Simple.parAlt_simple m) (H m).2.2⟩
    rw [C16Fam.length_act]; simp [C16Fam.parAlt]
  · refine Or.inr (Or.inl fun m hm =>
      ⟨?_, mk _ (C16Fam.isPerm_wedge1 m) (C16Simple.wedge1_simple m hm) (H m).2.2⟩)
    rw [C16Fam.length_act]; simp [C16Fam.wedge1]
  · refine Or.inr (Or.inr fun m hm => ⟨?_, ?_⟩)
    · rw [C16Fam.length_act]; simp [C16Fam.wedge2]
    · have hav := (H (m - 1)).2.2
      simp only [show m - 1 + 1 = m by omega] at hav
      exact mk _ (C16Fam.isPerm_wedge2 m (by omega)) (C16Simple.wedge2_simple m hm) hav

/-- **simples of every length of one parity.**  If the special test says "infinitely many" then there
    is a parity `r` such that `Av(B)` contains a simple permutation of *every* length `n ≥ 4` with
    `n ≡ r (mod 2)` (`r = 0` from the parallel alternations, `r = 1` from either kind of wedges) -/
theorem special_false_simples_one_parity (B : List NSeq) (hB : ∀ x ∈ B, IsPerm x)
    (h : hasFiniteSpecialSimples B = false) :
    ∃ r, r ≤ 1 ∧ ∀ n, 4 ≤ n → n % 2 = r → ∃ σ, σ.length = n ∧ SimpleIn B σ := by
  obtain ⟨g, H | H | H⟩ := special_false_gives_simple_family B hB h
  · refine ⟨0, by omega, fun n hn hr => ⟨_, ?_, (H (n / 2) (by omega)).2⟩⟩
    rw [(H (n / 2) (by omega)).1]; omega
  · refine ⟨1, by omega, fun n hn hr => ⟨_, ?_, (H (n / 2) (by omega)).2⟩⟩
    rw [(H (n / 2) (by omega)).1]; omega
  · refine ⟨1, by omega, fun n hn hr => ⟨_, ?_, (H (n / 2) (by omega)).2⟩⟩
    rw [(H (n / 2) (by omega)).1]; omega

/-- **the statement of the property**: when the special test says "infinitely many", simple
    permutations of the class exist in at least one of every two consecutive lengths `n`, `n+1`, for
    all `n ≥ 4` (4 is the length of the shortest simple permutation with a proper interval to exclude:
    there is none of length 3) -/
theorem special_false_simples_consecutive (B : List NSeq) (hB : ∀ x ∈ B, IsPerm x)
    (h : hasFiniteSpecialSimples B = false) (n : Nat) (hn : 4 ≤ n) :
    ∃ σ, (σ.length = n ∨ σ.length = n + 1) ∧ SimpleIn B σ := by
  obtain ⟨r, hr, H⟩ := special_false_simples_one_parity B hB h
  by_cases hp : n % 2 = r
  · obtain ⟨σ, hl, hs⟩ := H n hn hp
    exact ⟨σ, Or.inl hl, hs⟩
  · obtain ⟨σ, hl, hs⟩ := H (n + 1) (by omega) (by omega)
    exact ⟨σ, Or.inr hl, hs⟩

/-- … in particular the class has simple permutations beyond every length bound, i.e. infinitely many:
    the verdict "infinitely many simples" of `has_finite_simples` (for every flag combination) is
    *correct* whenever it is caused by the special test -/
theorem special_false_simples_unbounded (B : List NSeq) (hB : ∀ x ∈ B, IsPerm x)
    (h : hasFiniteSpecialSimples B = false) (L : Nat) :
    ∃ σ, L ≤ σ.length ∧ 4 ≤ σ.length ∧ SimpleIn B σ := by
  obtain ⟨σ, hl, hs⟩ := special_false_simples_consecutive B hB h (max L 4) (by omega)
  exact ⟨σ, by omega, by omega, hs⟩

/-- the same, read off the verdict of `has_finite_simples` itself: if it answers "infinitely many"
    although the pin-sequence half answers "finitely many", the class has simples beyond every bound -/
theorem verdict_false_by_special_correct (B : List NSeq) (hB : ∀ x ∈ B, IsPerm x) (useDb checkAll : Bool)
    (dfa : Option DFA) (hv : hasFiniteSimples B useDb checkAll dfa = false)
    (hpin : hasFinitePinpermsWith B useDb dfa = true) (L : Nat) :
    ∃ σ, L ≤ σ.length ∧ 4 ≤ σ.length ∧ SimpleIn B σ := by
  apply special_false_simples_unbounded B hB
  cases hs : hasFiniteSpecialSimples B with
  | false => rfl
  | true =>
    have := (hasFiniteSimples_iff B useDb checkAll dfa).mpr ⟨hs, hpin⟩
    rw [hv] at this; exact absurd this (by decide)

/-- … and off the verdict of `Av(B).has_finitely_many_simples()`: if the class method answers `False`
    while the pin-sequence half on the normalised basis answers "finitely many", then the class
    `Av(basisOf B)` really has simple permutations beyond every length bound -/
theorem av_false_by_special_correct (B : List NSeq) (hB : ∀ x ∈ B, IsPerm x) (poly : Bool)
    (hv : avHasFinitelyManySimples B poly = .ok false)
    (hpin : hasFinitePinperms (basisOf B) = true) (L : Nat) :
    ∃ σ, L ≤ σ.length ∧ 4 ≤ σ.length ∧ SimpleIn (basisOf B) σ := by
  have hB' : ∀ x ∈ basisOf B, IsPerm x := fun x hx => hB x (C16Simple.basisOf_subset B x hx)
  apply special_false_simples_unbounded (basisOf B) hB'
  rw [av_verdict] at hv
  split at hv
  · cases hv
  · injection hv with hv
    rw [hpin, Bool.and_true] at hv
    cases hs : hasFiniteSpecialSimples (basisOf B) with
    | false => rfl
    | true => rw [hs] at hv; simp at hv
/-- the hypothesis on `B` transfers to the normalised basis (`Basis(*patts)` only keeps given patterns);
    the combination `verdict = False ∧ pin half = True` is exercised by the harness streams -/
example (B : List NSeq) (hB : ∀ x ∈ B, IsPerm x) : ∀ x ∈ basisOf B, IsPerm x :=
  fun x hx => hB x (C16Simple.basisOf_subset B x hx)

/-- non-vacuity: for `Av(012)` the special test fails (the class of parallel alternations lies inside),
    so the theorems above apply and give e.g. a simple 012-avoider of length 10 or 11 -/
example : ∃ σ, (σ.length = 10 ∨ σ.length = 11) ∧ SimpleIn [[0, 1, 2]] σ := by
  have hB : ∀ x ∈ [[0, 1, 2]], IsPerm x := by decide
  refine special_false_simples_consecutive _ hB ?_ 10 (by omega)
  refine (not_special_iff_subclass _ hB).mpr ⟨Generated.c16_altBasis, by simp [tables], D8.one, ?_⟩
  intro σ _ hav x hx
  simp only [List.mem_singleton] at hx
  subst hx
  exact hav [0, 1, 2] (by decide)

/-! ### the symmetries and the class, lifted to `has_finite_simples` -/

/-- **invariance of the whole verdict under the eight symmetries, relative to the pin half**: under
    the explicit hypothesis `hpin` that the pin-sequence test gives the same answer for `g·B` and `B`
    (not proved here – it needs the semantic theorem of C15; covered by correspondence), every flag
    combination of `has_finite_simples` gives the same answer for `g·B` and `B` -/
theorem hasFiniteSimples_act (B : List NSeq) (hB : ∀ x ∈ B, IsPerm x) (g : D8) (useDb checkAll : Bool)
    (dfa : Option DFA)
    (hpin : hasFinitePinpermsWith (B.map g.act) useDb dfa = hasFinitePinpermsWith B useDb dfa) :
    hasFiniteSimples (B.map g.act) useDb checkAll dfa = hasFiniteSimples B useDb checkAll dfa := by
  rw [Bool.eq_iff_iff, hasFiniteSimples_iff, hasFiniteSimples_iff, special_act B hB g, hpin]

/-- with an explicitly supplied automaton the pin half does not look at the basis, so the hypothesis
    is void: the verdict is invariant under the eight symmetries outright -/
theorem hasFiniteSimples_act_dfa (B : List NSeq) (hB : ∀ x ∈ B, IsPerm x) (g : D8) (useDb checkAll : Bool)
    (d : DFA) :
    hasFiniteSimples (B.map g.act) useDb checkAll (some d) = hasFiniteSimples B useDb checkAll (some d) :=
  hasFiniteSimples_act B hB g useDb checkAll (some d) rfl
example (d : DFA) : hasFiniteSimples ([[0, 1, 2], [1, 0]].map (⟨true, false, true⟩ : D8).act) false true (some d) =
    hasFiniteSimples [[0, 1, 2], [1, 0]] false true (some d) :=
  hasFiniteSimples_act_dfa _ (by decide) _ _ _ d

/-- **the verdict depends only on the class, relative to the pin half**: two bases with the same
    avoiders, on which the pin-sequence test agrees (hypothesis `hpin`), get the same verdict -/
theorem hasFiniteSimples_class_only (B B' : List NSeq) (hB : ∀ x ∈ B, IsPerm x) (hB' : ∀ x ∈ B', IsPerm x)
    (h : ∀ σ, IsPerm σ → ((∀ x ∈ B, ¬ Contains σ x) ↔ (∀ x ∈ B', ¬ Contains σ x)))
    (useDb checkAll : Bool) (dfa : Option DFA)
    (hpin : hasFinitePinpermsWith B useDb dfa = hasFinitePinpermsWith B' useDb dfa) :
    hasFiniteSimples B useDb checkAll dfa = hasFiniteSimples B' useDb checkAll dfa := by
  rw [Bool.eq_iff_iff, hasFiniteSimples_iff, hasFiniteSimples_iff, special_class_only B B' hB hB' h, hpin]
example (d : DFA) : hasFiniteSimples [[0, 1]] false false (some d) = hasFiniteSimples [[0, 1], [0, 1]] false false (some d) := by
  refine hasFiniteSimples_class_only _ _ (by decide) (by decide) ?_ _ _ _ rfl
  intro σ _
  simp

/-! ## A6  the pin half discharged (through the Bassino–Bouvel–Pierrot–Rossin theorem proved in `Props/C14.lean`)

`C14.hasFinitePinperms_act` and `C14.hasFinitePinperms_class_only` are exactly the hypothesis `hpin` of
`hasFiniteSimples_act` / `hasFiniteSimples_class_only` for `dfa = None`; with an automaton supplied the
hypothesis is void.  So the verdict is invariant outright. -/

/-- **`has_finite_simples` is invariant under the eight symmetries** – every flag combination, with or
    without a supplied automaton, no hypothesis left -/
theorem hasFiniteSimples_act_all (B : List NSeq) (hB : ∀ x ∈ B, IsPerm x) (g : D8) (useDb checkAll : Bool)
    (dfa : Option DFA) :
    hasFiniteSimples (B.map g.act) useDb checkAll dfa = hasFiniteSimples B useDb checkAll dfa := by
  refine hasFiniteSimples_act B hB g useDb checkAll dfa ?_
  cases dfa with
  | some d => rfl
  | none => exact C14.hasFinitePinperms_act B hB g
example : hasFiniteSimples ([[0, 1, 2], [1, 0]].map (⟨true, false, true⟩ : D8).act) false true none =
    hasFiniteSimples [[0, 1, 2], [1, 0]] false true none :=
  hasFiniteSimples_act_all _ (by decide) _ _ _ _

/-- **`has_finite_simples` depends only on the class**: two bases with the same avoiders get the same
    verdict – no hypothesis on the pin half left -/
theorem hasFiniteSimples_class_only_all (B B' : List NSeq) (hB : ∀ x ∈ B, IsPerm x) (hB' : ∀ x ∈ B', IsPerm x)
    (h : ∀ σ, IsPerm σ → ((∀ x ∈ B, ¬ Contains σ x) ↔ (∀ x ∈ B', ¬ Contains σ x)))
    (useDb checkAll : Bool) (dfa : Option DFA) :
    hasFiniteSimples B useDb checkAll dfa = hasFiniteSimples B' useDb checkAll dfa := by
  refine hasFiniteSimples_class_only B B' hB hB' h useDb checkAll dfa ?_
  cases dfa with
  | some d => rfl
  | none => exact C14.hasFinitePinperms_class_only B B' hB hB' h
example : hasFiniteSimples [[0, 1]] false false none = hasFiniteSimples [[0, 1], [0, 1]] false false none := by
  refine hasFiniteSimples_class_only_all _ _ (by decide) (by decide) ?_ _ _ _
  intro σ _
  simp

-- ===== pv16: pin half =====

/-! ## A7  the pin half: "infinitely many" is witnessed by simple permutations of the class

`C14.hasFinitePinperms_iff` says what `has_finite_pinperms` decides: boundedness of the permutations of
*strict* pin words (a numeral followed by direction letters) that avoid the basis.  The points of a strict
pin word form a *proper pin sequence* (`C16P.PinSeqA`, from `decode_geometry`): every pin from the third
on separates its predecessor from all earlier pins and lies beyond them on the other axis.  By the theorem
of Brignall–Huczynska–Vatter (`C16P.classify`, `C16P.pinSeq_simple_sub`, proved in `Lemmas/C16PinGeo.lean`
for arbitrary point configurations) such a configuration of at least seven points has no proper interval,
or has none after deleting one of its two oldest points.  Classes are closed under deleting points, so an
unbounded family of avoiding strict pin permutations gives avoiding simple permutations of unbounded length. -/

/-- **strict pin permutations are almost simple** (Brignall–Huczynska–Vatter): the permutation `σ` of a
    strict pin word of length `n ≥ 7` contains a simple permutation `τ` (interval definition of C10, and
    `is_simple` says so) of length `≥ n - 1` – `σ` itself, or `σ` without its first or without its
    second pin -/
theorem strict_pin_perm_contains_large_simple (w : Model.C14.Word) (σ : NSeq)
    (hs : Model.C14.isStrict w = true) (hσ : Model.C14.pinwordToPerm w = .ok σ) (hlen : 7 ≤ σ.length) :
    ∃ τ, IsPerm τ ∧ Spec.C10.IsSimple τ ∧ isSimple τ = true ∧ σ.length ≤ τ.length + 1 ∧ Contains σ τ := by
  obtain ⟨τ, h1, h2, h3, h4⟩ := C16P.strict_large_simple w σ hs hσ hlen
  exact ⟨τ, h1, h2, (C10.isSimple_spec τ h1).mpr h2, h3, h4⟩

/-- non-vacuity: the strict pin word `1RURURU` (an increasing oscillation) decodes, to a permutation of
    length 7, so the theorem applies to it -/
example : ∃ σ τ, Model.C14.pinwordToPerm [.q1, .R, .U, .R, .U, .R, .U] = .ok σ ∧ Spec.C10.IsSimple τ ∧
    6 ≤ τ.length ∧ Contains σ τ := by
  obtain ⟨σ, hσ, _, hl⟩ := C14.decode_total [.q1, .R, .U, .R, .U, .R, .U] (by decide)
  obtain ⟨τ, _, h2, _, h4, h5⟩ := strict_pin_perm_contains_large_simple _ σ (by decide) hσ (by rw [hl]; decide)
  refine ⟨σ, τ, hσ, h2, ?_, h5⟩
  rw [hl] at h4; simp at h4; omega

/-- **pin_false_infinitely_many_simples**: if the pin-sequence half `has_finite_pinperms(B)` answers
    `False` then `Av(B)` contains simple permutations beyond every length bound, i.e. infinitely many -/
theorem pin_false_infinitely_many_simples (B : List NSeq) (hB : ∀ x ∈ B, IsPerm x)
    (h : hasFinitePinperms B = false) (L : Nat) :
    ∃ τ, L ≤ τ.length ∧ 4 ≤ τ.length ∧ SimpleIn B τ := by
  have hnb : ¬ ∃ N, ∀ w σ, Model.C14.isStrict w = true → Model.C14.pinwordToPerm w = .ok σ →
      (∀ p ∈ B, ¬ Contains σ p) → σ.length ≤ N := by
    intro hb
    rw [(C14.hasFinitePinperms_iff B hB).mpr hb] at h
    exact absurd h (by decide)
  have hex : ∃ w σ, Model.C14.isStrict w = true ∧ Model.C14.pinwordToPerm w = .ok σ ∧
      (∀ p ∈ B, ¬ Contains σ p) ∧ L + 7 < σ.length := by
    apply Classical.byContradiction
    intro hno
    apply hnb
    refine ⟨L + 7, fun w σ h1 h2 h3 => ?_⟩
    apply Classical.byContradiction
    intro hlt
    exact hno ⟨w, σ, h1, h2, h3, by omega⟩
  obtain ⟨w, σ, h1, h2, h3, h4⟩ := hex
  obtain ⟨τ, t1, t2, t3, t4, t5⟩ := strict_pin_perm_contains_large_simple w σ h1 h2 (by omega)
  exact ⟨τ, by omega, by omega, t1, t2, t3, fun x hx hc => h3 x hx (C16L.contains_trans t5 hc)⟩

/-- non-vacuity: the pin half answers `False` for the class of all permutations (evaluated), so there
    are simple permutations of length `≥ 100` – obtained here from pin sequences, not from the tables -/
example : ∃ τ, 100 ≤ τ.length ∧ SimpleIn [] τ := by
  obtain ⟨τ, h1, _, h2⟩ := pin_false_infinitely_many_simples [] (by simp) (by decide +kernel) 100
  exact ⟨τ, h1, h2⟩

/-- **verdict_false_correct**: whenever `has_finite_simples(B)` (any flag combination, no automaton
    supplied) answers "infinitely many", the class `Av(B)` really has simple permutations beyond every
    length bound – whichever of the two halves caused the answer -/
theorem verdict_false_correct (B : List NSeq) (hB : ∀ x ∈ B, IsPerm x) (useDb checkAll : Bool)
    (hv : hasFiniteSimples B useDb checkAll none = false) (L : Nat) :
    ∃ σ, L ≤ σ.length ∧ 4 ≤ σ.length ∧ SimpleIn B σ := by
  cases hpin : hasFinitePinperms B with
  | false => exact pin_false_infinitely_many_simples B hB hpin L
  | true => exact verdict_false_by_special_correct B hB useDb checkAll none hv hpin L

/-- … equivalently (**one half of `verdict_matches_simples`**): if the simple permutations of `Av(B)`
    have bounded length – the class has finitely many simples – then `has_finite_simples(B)` answers
    `True` -/
theorem verdict_true_of_finitely_many_simples (B : List NSeq) (hB : ∀ x ∈ B, IsPerm x) (useDb checkAll : Bool)
    (hfin : ∃ N, ∀ σ, SimpleIn B σ → σ.length ≤ N) :
    hasFiniteSimples B useDb checkAll none = true := by
  obtain ⟨N, hN⟩ := hfin
  cases hv : hasFiniteSimples B useDb checkAll none with
  | true => rfl
  | false =>
    obtain ⟨σ, h1, _, h2⟩ := verdict_false_correct B hB useDb checkAll hv (N + 1)
    have := hN σ h2
    omega

/-- the same for `Av(B).has_finitely_many_simples()`: the answer `False` of the class method is correct
    – the class of the normalised basis has simple permutations beyond every length bound -/
theorem av_false_correct (B : List NSeq) (hB : ∀ x ∈ B, IsPerm x) (poly : Bool)
    (hv : avHasFinitelyManySimples B poly = .ok false) (L : Nat) :
    ∃ σ, L ≤ σ.length ∧ 4 ≤ σ.length ∧ SimpleIn (basisOf B) σ := by
  cases hpin : hasFinitePinperms (basisOf B) with
  | true => exact av_false_by_special_correct B hB poly hv hpin L
  | false =>
    exact pin_false_infinitely_many_simples (basisOf B)
      (fun x hx => hB x (C16Simple.basisOf_subset B x hx)) hpin L

/-- non-vacuity: for the class of all permutations (empty basis) `has_finite_simples` answers `False`
    (evaluated through the decision logic), and the theorem yields long simple permutations -/
example : hasFiniteSimples [] false true none = false ∧ ∃ σ, 50 ≤ σ.length ∧ SimpleIn [] σ := by
  have hv : hasFiniteSimples [] false true none = false := by
    cases h : hasFiniteSimples [] false true none with
    | false => rfl
    | true =>
      have := ((hasFiniteSimples_iff [] false true none).mp h).2
      have hp : hasFinitePinperms [] = false := by decide +kernel
      simp only [hasFinitePinpermsWith] at this
      rw [hp] at this; exact absurd this (by decide)
  obtain ⟨σ, h1, _, h2⟩ := verdict_false_correct [] (by simp) false true hv 50
  exact ⟨hv, σ, h1, h2⟩

/-- … and for `FinitelyManySimplesStrategy(B).applies()` (the basis passes through a `frozenset`): the
    answer `False` is correct as well -/
theorem strategy_false_correct (B : List NSeq) (hB : ∀ x ∈ B, IsPerm x) (h : strategyApplies B = false) (L : Nat) :
    ∃ σ, L ≤ σ.length ∧ 4 ≤ σ.length ∧ SimpleIn B σ := by
  unfold strategyApplies at h
  obtain ⟨σ, h1, h2, h3, h4, h5, h6⟩ := verdict_false_correct B.eraseDups
    (fun x hx => hB x (List.mem_eraseDups.mp hx)) false false h L
  exact ⟨σ, h1, h2, h3, h4, h5, fun x hx => h6 x (List.mem_eraseDups.mpr hx)⟩
example : ∃ σ, 20 ≤ σ.length ∧ SimpleIn [] σ := by
  obtain ⟨σ, h1, _, h2⟩ := strategy_false_correct [] (by simp) (by
    unfold strategyApplies
    cases h : hasFiniteSimples ([] : List NSeq).eraseDups false false none with
    | false => rfl
    | true =>
      have := ((hasFiniteSimples_iff _ false false none).mp h).1
      exact absurd this (by decide)) 20
  exact ⟨σ, h1, h2⟩

/-! ### … in one of every two consecutive lengths (the form the property is stated in) -/

/-- strict pin words are closed under prefixes, and the permutation of a prefix is a pattern of the
    permutation of the word: the strict pin permutations of a class come in *every* length up to the
    longest one -/
theorem strict_pin_prefix (w : Model.C14.Word) (σ : NSeq) (hs : Model.C14.isStrict w = true)
    (hσ : Model.C14.pinwordToPerm w = .ok σ) (k : Nat) (hk : k ≤ σ.length) :
    ∃ σ', Model.C14.isStrict (w.take k) = true ∧ Model.C14.pinwordToPerm (w.take k) = .ok σ' ∧
      σ'.length = k ∧ Contains σ σ' := by
  obtain ⟨σ0, h0, _, hl⟩ := C14.decode_total w ((C14.decode_ok_iff w).mp ⟨σ, hσ⟩)
  rw [hσ] at h0; cases h0
  obtain ⟨σ', h1, h2, h3⟩ := C16P.prefix_contains w σ hσ k (by omega)
  exact ⟨σ', C16P.isStrict_take w hs k, h1, h2, h3⟩
example : ∃ σ', Model.C14.pinwordToPerm ([.q1, .R, .U, .R, .U, .R, .U].take 3) = .ok σ' ∧ σ'.length = 3 := by
  obtain ⟨σ, hσ, _, hl⟩ := C14.decode_total [.q1, .R, .U, .R, .U, .R, .U] (by decide)
  obtain ⟨σ', _, h1, h2, _⟩ := strict_pin_prefix _ σ (by decide) hσ 3 (by rw [hl]; decide)
  exact ⟨σ', h1, h2⟩

/-- **pin half, consecutive lengths**: if `has_finite_pinperms(B)` answers `False` then `Av(B)` contains a
    simple permutation of length `n` or `n + 1` for *every* `n ≥ 6` -/
theorem pin_false_simples_consecutive (B : List NSeq) (hB : ∀ x ∈ B, IsPerm x)
    (h : hasFinitePinperms B = false) (n : Nat) (hn : 6 ≤ n) :
    ∃ τ, (τ.length = n ∨ τ.length = n + 1) ∧ SimpleIn B τ := by
  have hnb : ¬ ∃ N, ∀ w σ, Model.C14.isStrict w = true → Model.C14.pinwordToPerm w = .ok σ →
      (∀ p ∈ B, ¬ Contains σ p) → σ.length ≤ N := by
    intro hb
    rw [(C14.hasFinitePinperms_iff B hB).mpr hb] at h
    exact absurd h (by decide)
  have hex : ∃ w σ, Model.C14.isStrict w = true ∧ Model.C14.pinwordToPerm w = .ok σ ∧
      (∀ p ∈ B, ¬ Contains σ p) ∧ n + 1 < σ.length := by
    apply Classical.byContradiction
    intro hno
    apply hnb
    refine ⟨n + 1, fun w σ h1 h2 h3 => ?_⟩
    apply Classical.byContradiction
    intro hlt
    exact hno ⟨w, σ, h1, h2, h3, by omega⟩
  obtain ⟨w, σ, h1, h2, h3, h4⟩ := hex
  obtain ⟨σ', p1, p2, p3, p4⟩ := strict_pin_prefix w σ h1 h2 (n + 1) (by omega)
  obtain ⟨τ, t1, t2, t3, t4, t5⟩ := strict_pin_perm_contains_large_simple _ σ' p1 p2 (by omega)
  have hle := Contains.length_le t5
  refine ⟨τ, by omega, t1, t2, t3, fun x hx hc => h3 x hx (C16L.contains_trans (C16L.contains_trans p4 t5) hc)⟩
example : ∃ τ, (τ.length = 30 ∨ τ.length = 31) ∧ SimpleIn [] τ :=
  pin_false_simples_consecutive [] (by simp) (by decide +kernel) 30 (by omega)

/-- **the statement of the property, direction "False"**: whenever `has_finite_simples(B)` answers
    "infinitely many" (any flag combination, no automaton supplied), `Av(B)` has a simple permutation in
    at least one of every two consecutive lengths `n`, `n + 1`, for all `n ≥ 6` – by Schmerl–Trotter this
    is exactly how an infinite set of simples of a class looks -/
theorem verdict_false_simples_consecutive (B : List NSeq) (hB : ∀ x ∈ B, IsPerm x) (useDb checkAll : Bool)
    (hv : hasFiniteSimples B useDb checkAll none = false) (n : Nat) (hn : 6 ≤ n) :
    ∃ σ, (σ.length = n ∨ σ.length = n + 1) ∧ SimpleIn B σ := by
  cases hpin : hasFinitePinperms B with
  | false => exact pin_false_simples_consecutive B hB hpin n hn
  | true =>
    apply special_false_simples_consecutive B hB _ n (by omega)
    cases hs : hasFiniteSpecialSimples B with
    | false => rfl
    | true =>
      have := (hasFiniteSimples_iff B useDb checkAll none).mpr ⟨hs, hpin⟩
      rw [hv] at this; exact absurd this (by decide)
example : ∃ σ, (σ.length = 12 ∨ σ.length = 13) ∧ SimpleIn [[0, 1, 2]] σ := by
  refine verdict_false_simples_consecutive [[0, 1, 2]] (by decide) false true ?_ 12 (by omega)
  cases h : hasFiniteSimples [[0, 1, 2]] false true none with
  | false => rfl
  | true =>
    have h1 := ((hasFiniteSimples_iff _ false true none).mp h).1
    have hB : ∀ x ∈ [[0, 1, 2]], IsPerm x := by decide
    have : hasFiniteSpecialSimples [[0, 1, 2]] = false :=
      (not_special_iff_subclass _ hB).mpr ⟨Generated.c16_altBasis, by simp [tables], D8.one, by
        intro σ _ hav x hx
        simp only [List.mem_singleton] at hx
        subst hx
        exact hav [0, 1, 2] (by decide)⟩
    rw [this] at h1; exact absurd h1 (by decide)

-- ===== pv16: end =====

-- ===== pv16b: converse =====

/-! ## A8  the converse: verdict `True` ⇒ finitely many simples, relative to the unavoidable-substructures theorem

`Spec.C16.UnavoidableSubstructures` is the *statement* of Brignall–Huczynska–Vatter, Theorem 1.4 (every long
simple permutation contains a long proper pin sequence, parallel alternation or wedge simple permutation); it is
proved in section A9.  This section proves the reduction to it: (1) a proper pin sequence is the point set of a strict pin word
(`pinSeq_is_strict_word`), so the pin half bounds the proper pin sequences of the class; (2) the three generated
tables are exactly the bases of the sub-permutation closures of the three families (`*_table_is_basis`), so the
special test bounds the family members of the class in every orientation; (3) the combination
`verdict_true_finitely_many_simples_of_BHV`, with the cited theorem as its only hypothesis. -/

/-- **pinSeq_is_strict_word** (converse of `C16P.pinSeq_of_run`): every proper pin sequence `L` of `n ≥ 2`
    points with distinct abscissae and ordinates is the geometric run of a strict pin word of length `n - 1`
    from its oldest point; hence `L` without its oldest point is order-equivalent to the point set that
    `pinword_to_perm` decodes for that word -/
theorem pinSeq_is_strict_word (L : List C16P.Pt) (v : Bool) (hP : C16P.PinSeqA v L)
    (hx : (L.map Prod.fst).Nodup) (hy : (L.map Prod.snd).Nodup) (hlen : 2 ≤ L.length) :
    ∃ (w : Model.C14.Word) (pts : List C16P.Pt), Model.C14.isStrict w = true ∧ w.length + 1 = L.length ∧
      Model.C14.pinPoints w = .ok pts ∧ C14S.OE L.dropLast pts.dropLast :=  by
  obtain ⟨w, pts, h1, h2, h3, h4, _⟩ := C16Conv.pinSeq_is_strict_word L v hP hx hy hlen
  exact ⟨w, pts, h1, h2, h3, h4⟩

/-- non-vacuity: the four points `(0,0), (2,2), (1,4), (4,3)` (oldest first: the third separates the second
    from the first horizontally from above, the fourth separates the third from the two others vertically
    from the right) form a proper pin sequence, so some strict pin word of length 3 decodes to their order
    type without the oldest point -/
example : ∃ (w : Model.C14.Word), Model.C14.isStrict w = true ∧ w.length = 3 := by
  have hP : C16P.PinSeqA false [((4 : Rat), (3 : Rat)), (1, 4), (2, 2), (0, 0)] := by
    simp only [C16P.PinSeqA, C16P.SepA, C16P.Btw, C16P.Extr, C16P.co]
    decide
  obtain ⟨w, _, h1, h2, _⟩ := pinSeq_is_strict_word _ false hP (by decide) (by decide) (by simp)
  exact ⟨w, h1, by simpa using h2⟩

/-- a permutation containing a proper pin sequence of `k ≥ 2` points contains the permutation of a strict
    pin word of length `k - 1` -/
theorem pinSeq_contains_strict_pin_perm (τ : NSeq) (hτ : IsPerm τ) (k : Nat) (hk : 2 ≤ k)
    (h : Spec.C16.HasPinSeq τ k) :
    ∃ (w : Model.C14.Word) (σ : NSeq), Model.C14.isStrict w = true ∧ Model.C14.pinwordToPerm w = .ok σ ∧
      σ.length + 1 = k ∧ Contains τ σ :=
  C16Conv.strict_perm_of_hasPinSeq τ hτ k hk h

/-- **the alternation table is the basis of the closure of the parallel alternations**: a permutation avoids
    `012, 1302, 2301` iff it is a sub-permutation of some parallel alternation – then of every one of
    index `m ≥ |x|` -/
theorem alt_table_is_basis (x : NSeq) (hx : IsPerm x) :
    (∀ p ∈ Generated.c16_altBasis, ¬ Contains x p) ↔ ∃ m, Contains (C16Fam.parAlt m) x :=
  ⟨fun h => ⟨x.length, C16Conv.Alt.alt_closure x hx h _ (Nat.le_refl _)⟩,
   fun ⟨m, hm⟩ p hp hc => parAlt_avoids_table m p hp (C16L.contains_trans hm hc)⟩

/-- the first wedge table is the basis of the closure of the wedge permutations of the first kind -/
theorem wedge1_table_is_basis (x : NSeq) (hx : IsPerm x) :
    (∀ p ∈ Generated.c16_wedge1, ¬ Contains x p) ↔ ∃ m, Contains (C16Fam.wedge1 m) x :=
  ⟨fun h => ⟨x.length, C16Conv.W1.wedge1_closure x hx h _ (Nat.le_refl _)⟩,
   fun ⟨m, hm⟩ p hp hc => wedge1_avoids_table m p hp (C16L.contains_trans hm hc)⟩

/-- the second wedge table is the basis of the closure of the wedge permutations of the second kind -/
theorem wedge2_table_is_basis (x : NSeq) (hx : IsPerm x) :
    (∀ p ∈ Generated.c16_wedge2, ¬ Contains x p) ↔ ∃ m, 1 ≤ m ∧ Contains (C16Fam.wedge2 m) x :=
  ⟨fun h => ⟨x.length + 1, by omega, C16Conv.W2.wedge2_closure x hx h _ (by omega) (by omega)⟩,
   fun ⟨m, hm1, hm⟩ p hp hc => wedge2_avoids_table m hm1 p hp (C16L.contains_trans hm hc)⟩
/-- non-vacuity: `1032` is a sub-permutation of the parallel alternation `420531`, hence avoids the table -/
example : ∀ p ∈ Generated.c16_altBasis, ¬ Contains [1, 0, 3, 2] p := by
  refine (alt_table_is_basis _ (by decide)).mpr ⟨3, ?_⟩
  rw [show C16Fam.parAlt 3 = [4, 2, 0, 5, 3, 1] by decide]
  exact C16Conv.Alt.contains4 _ _ 1 2 3 4 (by decide) rfl
    (by intro a b ha hb; interval_cases a <;> interval_cases b <;> decide)

/-- **the special test bounds the family members of the class**: if `has_finite_special_simples B` is true
    then there is `M` such that no permutation containing a member of index `k ≥ M` of one of the three
    families, in any of the eight orientations, avoids `B` -/
theorem special_true_excludes_families (B : List NSeq) (hB : ∀ x ∈ B, IsPerm x)
    (h : hasFiniteSpecialSimples B = true) :
    ∃ M, ∀ k, M ≤ k → ∀ τ, Spec.C16.HasFamilyMember τ k → ∃ x ∈ B, Contains τ x := by
  obtain ⟨ha, h1, h2⟩ := C16L.tables_perm
  obtain ⟨M, hM⟩ := C16Conv.exists_length_bound B
  have hsp := (special_iff B hB).mp h
  refine ⟨M + 1, fun k hk τ hfam => ?_⟩
  obtain ⟨g, hc | hc | hc⟩ := hfam
  · obtain ⟨x, hx, hav⟩ := hsp Generated.c16_altBasis (by simp [tables]) g
    refine ⟨x, hx, C16L.contains_trans hc ?_⟩
    exact C16Conv.family_contains_basis_element _ C16Fam.parAlt C16Conv.Alt.alt_closure C16Fam.isPerm_parAlt ha g x
      (hB x hx) hav k (by have := hM x hx; omega)
  · obtain ⟨x, hx, hav⟩ := hsp Generated.c16_wedge1 (by simp [tables]) g
    refine ⟨x, hx, C16L.contains_trans hc ?_⟩
    exact C16Conv.family_contains_basis_element _ C16Fam.wedge1 C16Conv.W1.wedge1_closure C16Fam.isPerm_wedge1 h1 g x
      (hB x hx) hav k (by have := hM x hx; omega)
  · obtain ⟨x, hx, hav⟩ := hsp Generated.c16_wedge2 (by simp [tables]) g
    refine ⟨x, hx, C16L.contains_trans hc ?_⟩
    have := C16Conv.family_contains_basis_element _ (fun m => C16Fam.wedge2 (m + 1))
      (fun y hy hav m hm => C16Conv.W2.wedge2_closure y hy hav (m + 1) (by omega) (by omega))
      (fun m => C16Fam.isPerm_wedge2 (m + 1) (by omega)) h2 g x (hB x hx) hav (k - 1) (by have := hM x hx; omega)
    simpa [show k - 1 + 1 = k by omega] using this

/-- **the pin half bounds the proper pin sequences of the class**: if `has_finite_pinperms B` is true then
    there is `M` such that no permutation containing a proper pin sequence of `k ≥ M` points avoids `B` -/
theorem pin_true_excludes_pin_sequences (B : List NSeq) (hB : ∀ x ∈ B, IsPerm x)
    (h : hasFinitePinperms B = true) :
    ∃ M, ∀ k, M ≤ k → ∀ τ, IsPerm τ → Spec.C16.HasPinSeq τ k → ∃ x ∈ B, Contains τ x := by
  obtain ⟨N, hN⟩ := (C14.hasFinitePinperms_iff B hB).mp h
  refine ⟨N + 2, fun k hk τ hτ hpin => ?_⟩
  obtain ⟨w, σ, h1, h2, h3, h4⟩ := pinSeq_contains_strict_pin_perm τ hτ k (by omega) hpin
  apply Classical.byContradiction
  intro hno
  have := hN w σ h1 h2 (fun p hp hc => hno ⟨p, hp, C16L.contains_trans h4 hc⟩)
  omega

/-- **verdict_true_finitely_many_simples, relative to the cited theorem**: under the
    unavoidable-substructures theorem of Brignall–Huczynska–Vatter (hypothesis `hBHV`, a statement of
    `Spec/C16.lean`), whenever `has_finite_simples(B)` answers `True` (any flag combination, no automaton
    supplied) the simple permutations of `Av(B)` have bounded length: the class has finitely many simples -/
theorem verdict_true_finitely_many_simples_of_BHV (hBHV : Spec.C16.UnavoidableSubstructures)
    (B : List NSeq) (hB : ∀ x ∈ B, IsPerm x) (useDb checkAll : Bool)
    (hv : hasFiniteSimples B useDb checkAll none = true) :
    ∃ N, ∀ τ, SimpleIn B τ → τ.length ≤ N := by
  obtain ⟨hs, hp⟩ := (hasFiniteSimples_iff B useDb checkAll none).mp hv
  obtain ⟨M1, hM1⟩ := special_true_excludes_families B hB hs
  obtain ⟨M2, hM2⟩ := pin_true_excludes_pin_sequences B hB hp
  obtain ⟨N, hN⟩ := hBHV (max M1 M2)
  refine ⟨N, fun τ hτ => ?_⟩
  obtain ⟨t1, t2, _, t4⟩ := hτ
  apply Classical.byContradiction
  intro hlt
  rcases hN τ t1 t2 (by omega) with hpin | hfam
  · obtain ⟨x, hx, hc⟩ := hM2 _ (by omega) τ t1 hpin
    exact t4 x hx hc
  · obtain ⟨x, hx, hc⟩ := hM1 _ (by omega) τ hfam
    exact t4 x hx hc

/-- non-vacuity of the hypothesis `hv`: for the basis `{ε}` (the empty class) both halves answer `True` –
    proved through their characterisations, not evaluated – so the theorem applies -/
example (hBHV : Spec.C16.UnavoidableSubstructures) : ∃ N, ∀ τ, SimpleIn [[]] τ → τ.length ≤ N := by
  refine verdict_true_finitely_many_simples_of_BHV hBHV [[]] (by decide) false true ?_
  have hlen : ∀ T ∈ tables, ∀ p ∈ T, 3 ≤ p.length := by decide
  rw [hasFiniteSimples_iff]
  constructor
  · rw [special_iff _ (by decide)]
    intro T hT g
    refine ⟨[], by simp, fun p hp hc => ?_⟩
    have hl := Contains.length_le hc
    rw [C16Fam.length_act] at hl
    have := hlen T hT p hp
    simp only [List.length_nil] at hl; omega
  · show hasFinitePinperms [[]] = true
    rw [C14.hasFinitePinperms_iff _ (by decide)]
    refine ⟨0, fun w σ _ _ hav => ?_⟩
    exact absurd ⟨[], rfl, by simp [StrictInc], by simp, by simp⟩ (hav [] (by simp))

/-- **verdict_matches_simples, relative to the cited theorem**: `has_finite_simples(B)` is `True` iff the
    simple permutations of `Av(B)` have bounded length.  The direction `←` is unconditional
    (`verdict_true_of_finitely_many_simples`) -/
theorem verdict_matches_simples_of_BHV (hBHV : Spec.C16.UnavoidableSubstructures)
    (B : List NSeq) (hB : ∀ x ∈ B, IsPerm x) (useDb checkAll : Bool) :
    hasFiniteSimples B useDb checkAll none = true ↔ ∃ N, ∀ τ, SimpleIn B τ → τ.length ≤ N :=
  ⟨verdict_true_finitely_many_simples_of_BHV hBHV B hB useDb checkAll,
   verdict_true_of_finitely_many_simples B hB useDb checkAll⟩

/-- … and for `FinitelyManySimplesStrategy(B).applies()` -/
theorem strategy_true_finitely_many_simples_of_BHV (hBHV : Spec.C16.UnavoidableSubstructures)
    (B : List NSeq) (hB : ∀ x ∈ B, IsPerm x) (h : strategyApplies B = true) :
    ∃ N, ∀ τ, SimpleIn B τ → τ.length ≤ N := by
  unfold strategyApplies at h
  obtain ⟨N, hN⟩ := verdict_true_finitely_many_simples_of_BHV hBHV B.eraseDups
    (fun x hx => hB x (List.mem_eraseDups.mp hx)) false false h
  exact ⟨N, fun τ ⟨t1, t2, t3, t4⟩ => hN τ ⟨t1, t2, t3, fun x hx => t4 x (List.mem_eraseDups.mp hx)⟩⟩

/-- … and for `Av(B).has_finitely_many_simples()` when its answer `True` comes from `has_finite_simples`
    (the class is not recognised as finite and `is_polynomial` – an input, property C13 – says no) -/
theorem av_true_finitely_many_simples_of_BHV (hBHV : Spec.C16.UnavoidableSubstructures)
    (B : List NSeq) (hB : ∀ x ∈ B, IsPerm x) (hv : avHasFinitelyManySimples B false = .ok true)
    (hinf : isFiniteClass (basisOf B) = false) :
    ∃ N, ∀ τ, SimpleIn (basisOf B) τ → τ.length ≤ N := by
  have hB' : ∀ x ∈ basisOf B, IsPerm x := fun x hx => hB x (C16Simple.basisOf_subset B x hx)
  rw [av_verdict] at hv
  split at hv
  · cases hv
  · injection hv with hv
    rw [hinf] at hv
    simp only [Bool.false_or, Bool.and_eq_true] at hv
    exact verdict_true_finitely_many_simples_of_BHV hBHV (basisOf B) hB' false false
      ((hasFiniteSimples_iff _ false false none).mpr ⟨hv.1, hv.2⟩)

/-! ### first steps of the cited theorem itself (pins exist in simple permutations)

The unavoidable-substructures theorem starts from the observation that in a simple permutation every
rectangular hull that is not everything has a *pin*, and that a pin which is new (not a pin of the previous
hull) automatically satisfies the separation condition of proper pin sequences.  These steps, and right-reaching
pin sequences, are stated here for permutations; the rest of the theorem is in section A9. -/

/-- the interval definition of simplicity (C10) and the geometric one used for pin sequences agree:
    `τ` is simple iff its plot has no proper interval -/
theorem simple_iff_plot_simple (τ : NSeq) (hτ : IsPerm τ) :
    Spec.C10.IsSimple τ ↔ C16P.Simple (Spec.C16.plot τ) :=
  C16Conv.isSimple_iff_plot_simple τ hτ
example : C16P.Simple (Spec.C16.plot [1, 3, 0, 2]) :=
  (simple_iff_plot_simple _ (by decide)).mp ((C10.isSimple_spec _ (by decide)).mp (by decide))

/-- **pins exist**: in a simple permutation, the rectangular hull of any two or more entries that misses
    an entry has a pin – an entry outside the hull that slices it -/
theorem simple_has_pin (τ : NSeq) (hτ : IsPerm τ) (hs : Spec.C10.IsSimple τ) (A : List C16P.Pt)
    (hsub : ∀ a ∈ A, a ∈ Spec.C16.plot τ) (h2 : ∃ a ∈ A, ∃ b ∈ A, a ≠ b)
    (hout : ∃ d ∈ Spec.C16.plot τ, ¬ C16P.InHull A d) :
    ∃ c ∈ Spec.C16.plot τ, ∃ v, C16P.IsPin v A c :=
  C16P.simple_has_pin _ A ((simple_iff_plot_simple τ hτ).mp hs) hsub h2 hout

/-- **simple_extends_pin** (in the form that is true): a proper pin sequence `L = p :: q :: rest` of at least
    three entries of a simple permutation whose hull misses an entry either extends to a proper pin sequence
    `c :: L`, or the hull of `q :: rest` has a pin outside the hull of `L`.  (A proper pin sequence of a simple
    permutation need not be extendable: in `1503642`, entries `0`, `4`, then `2` – positions 2, 5, 6 – form
    one whose only further pins are pins of the first two entries.) -/
theorem simple_extends_pin_or (τ : NSeq) (hτ : IsPerm τ) (hs : Spec.C10.IsSimple τ) (v : Bool)
    (p q : C16P.Pt) (rest : List C16P.Pt) (hrest : rest ≠ []) (hP : C16P.PinSeqA v (p :: q :: rest))
    (hN : (p :: q :: rest).Nodup) (hsub : ∀ a ∈ p :: q :: rest, a ∈ Spec.C16.plot τ)
    (hout : ∃ d ∈ Spec.C16.plot τ, ¬ C16P.InHull (p :: q :: rest) d) :
    ∃ c ∈ Spec.C16.plot τ, ¬ C16P.InHull (p :: q :: rest) c ∧
      (C16P.PinSeqA (!v) (c :: p :: q :: rest) ∨ ∃ w, C16P.IsPin w (q :: rest) c) :=
  C16P.simple_extends_pin_or _ ((simple_iff_plot_simple τ hτ).mp hs) (C16Conv.plot_xs_nodup τ)
    (C16Conv.plot_ys_nodup τ hτ) v p q rest hrest hP hN hsub hout

/-- the second alternative cannot be dropped (so the sequence must sometimes be re-chosen, as in the cited
    proof): `1503642` is simple, its entries at positions 2, 5, 6 form a proper pin sequence, and every pin of
    the hull of the three is already a pin of the hull of the first two – the sequence cannot be extended -/
example : isSimple [1, 5, 0, 3, 6, 4, 2] = true ∧
    C16P.PinSeqA false [((6 : Rat), (2 : Rat)), (5, 4), (2, 0)] ∧
    ∀ c ∈ Spec.C16.plot [1, 5, 0, 3, 6, 4, 2], ∀ w, C16P.IsPin w [((6 : Rat), (2 : Rat)), (5, 4), (2, 0)] c →
      ∃ w', C16P.IsPin w' [((5 : Rat), (4 : Rat)), (2, 0)] c := by
  refine ⟨by decide, ?_, ?_⟩
  · simp only [C16P.PinSeqA, C16P.SepA, C16P.Btw, C16P.Extr, C16P.co]; decide
  · simp only [Spec.C16.plot, C16P.IsPin, C16P.InRange, C16P.Extr, C16P.co]
    decide

/-- **every simple permutation of length `≥ 3` contains a proper pin sequence of three points**
    (beginning with its first two entries) -/
theorem simple_contains_pinSeq_three (τ : NSeq) (hτ : IsPerm τ) (hs : Spec.C10.IsSimple τ)
    (hlen : 3 ≤ τ.length) : Spec.C16.HasPinSeq τ 3 :=
  C16Conv.hasPinSeq_three τ hτ hs hlen
example : Spec.C16.HasPinSeq [1, 3, 0, 2] 3 :=
  simple_contains_pinSeq_three _ (by decide) ((C10.isSimple_spec _ (by decide)).mp (by decide)) (by decide)

/-- **right-reaching pin sequences** (Brignall–Huczynska–Vatter; here for all four sides at once): in a simple
    permutation, for any two entries `p1 ≠ p2`, every entry that is extremal in position or in value –
    the last, the first, the largest, the smallest – occurs in a proper pin sequence beginning with `p1, p2`
    (`C16P.ProperFrom`: a proper pin sequence of entries of `τ`, duplicate-free, oldest points `p1, p2`).
    Proof: a point that slices the hull of the reached points would be a pin of some proper sequence, and
    cutting that sequence back to the first hull it is a pin of makes it a *new*, hence proper, pin
    (`C16P.reach_pin`); so the reached points span an interval, which by simplicity is everything
    (`C16P.pin_cover`). -/
theorem extreme_entry_reached (τ : NSeq) (hτ : IsPerm τ) (hs : Spec.C10.IsSimple τ) (p2 p1 c : C16P.Pt)
    (h2 : p2 ∈ Spec.C16.plot τ) (h1 : p1 ∈ Spec.C16.plot τ) (hne : p2 ≠ p1) (hc : c ∈ Spec.C16.plot τ) (u : Bool)
    (hext : (∀ s ∈ Spec.C16.plot τ, C16P.co u s ≤ C16P.co u c) ∨ (∀ s ∈ Spec.C16.plot τ, C16P.co u c ≤ C16P.co u s)) :
    ∃ L, C16P.ProperFrom (Spec.C16.plot τ) p2 p1 L ∧ c ∈ L :=
  C16P.extreme_reached _ ((simple_iff_plot_simple τ hτ).mp hs) (C16Conv.plot_xs_nodup τ)
    (C16Conv.plot_ys_nodup τ hτ) p2 p1 h2 h1 hne c hc u hext

/-- … in particular the last entry of a simple permutation is the newest pin of a proper pin sequence
    beginning with any two other entries: a *right-reaching* proper pin sequence -/
theorem right_reaching_pin_sequence (τ : NSeq) (hτ : IsPerm τ) (hs : Spec.C10.IsSimple τ) (i j : Nat)
    (hi : i + 1 < τ.length) (hj : j + 1 < τ.length) (hij : i ≠ j) :
    ∃ L', C16P.ProperFrom (Spec.C16.plot τ) (Spec.C16.entry τ i) (Spec.C16.entry τ j)
      (Spec.C16.entry τ (τ.length - 1) :: L') := by
  have hmem : ∀ k, k < τ.length → Spec.C16.entry τ k ∈ Spec.C16.plot τ :=
    fun k hk => C16Conv.mem_plot.mpr ⟨k, hk, rfl⟩
  have hne : ∀ a b : Nat, a ≠ b → Spec.C16.entry τ a ≠ Spec.C16.entry τ b := by
    intro a b hab h
    exact hab (Rat.natCast_inj.mp (congrArg Prod.fst h))
  obtain ⟨L, hL, hcL⟩ := extreme_entry_reached τ hτ hs _ _ _ (hmem i (by omega)) (hmem j (by omega))
    (hne i j hij) (hmem (τ.length - 1) (by omega)) true (Or.inl (by
      intro s hs
      obtain ⟨k, hk, rfl⟩ := C16Conv.mem_plot.mp hs
      simp only [C16P.co, if_true, Spec.C16.entry]
      exact Rat.natCast_le_natCast.mpr (by omega)))
  exact C16P.reached_newest ⟨L, hL, hcL⟩ (hne _ _ (by omega)) (hne _ _ (by omega))
example : ∃ L', C16P.ProperFrom (Spec.C16.plot [1, 3, 0, 2]) (Spec.C16.entry [1, 3, 0, 2] 0)
    (Spec.C16.entry [1, 3, 0, 2] 1) (Spec.C16.entry [1, 3, 0, 2] 3 :: L') :=
  right_reaching_pin_sequence [1, 3, 0, 2] (by decide) ((C10.isSimple_spec _ (by decide)).mp (by decide))
    0 1 (by decide) (by decide) (by decide)

/-! ## A9  the unavoidable-substructures theorem itself, and the converse without hypothesis

The theorem of Brignall–Huczynska–Vatter is proved in `Lemmas/C16Bhv*.lean` (for point configurations:
`C16P.bhv_cfg`; for permutations: `C16Conv.unavoidable_substructures`), along the lines of the paper:
right-reaching proper pin sequences *with maximality* from many disjoint adjacent pairs (`C16P.max_extreme_reached`);
if all are short, many of them continue with the same pin after pairwise different pins (`C16P.tree_branch`), and
maximality separates those pins by points on the other side of the level of the common pin (`C16P.conv_sep`): a long
alternation; by Erdős–Szekeres (`C16P.erdos_szekeres`) a parallel alternation or a wedge alternation (`C16P.alt_case`);
in the wedge case a right-reaching pin sequence from the apex either is long or contains a pin that swallows `k` pairs
of the wedge at once, the extra point of a wedge permutation of the first or second kind (`C16P.wedge_case`).  The three
shapes are identified with `parAlt k`, `wedge1 k`, `wedge2 k` up to the eight symmetries (`C16P.litPar_perm`,
`litW1_perm`, `litW2_perm`, `C16P.permOfPts_applyAll`). -/

/-- **the unavoidable-substructures theorem** (Brignall–Huczynska–Vatter 2008, Theorem 1.4), proved: for every
    `k` there is `N` such that every simple permutation of length `≥ N` contains a proper pin sequence of `k`
    points or, in one of the eight orientations, the parallel alternation / wedge permutation of the first /
    second kind of index `k` -/
theorem unavoidable_substructures : Spec.C16.UnavoidableSubstructures :=
  C16Conv.unavoidable_substructures
example : ∃ N, ∀ τ, IsPerm τ → Spec.C10.IsSimple τ → N ≤ τ.length →
    Spec.C16.HasPinSeq τ 5 ∨ Spec.C16.HasFamilyMember τ 5 := unavoidable_substructures 5

/-- **verdict_true_finitely_many_simples**: whenever `has_finite_simples(B)` answers `True` (any flag
    combination, no automaton supplied), the simple permutations of `Av(B)` have bounded length – the class has
    finitely many simple permutations.  No hypothesis left. -/
theorem verdict_true_finitely_many_simples (B : List NSeq) (hB : ∀ x ∈ B, IsPerm x) (useDb checkAll : Bool)
    (hv : hasFiniteSimples B useDb checkAll none = true) :
    ∃ N, ∀ τ, SimpleIn B τ → τ.length ≤ N :=
  verdict_true_finitely_many_simples_of_BHV unavoidable_substructures B hB useDb checkAll hv

/-- **verdict_matches_simples** (Brignall–Ruškuc–Vatter): `has_finite_simples(B)` answers `True` **iff** the
    simple permutations of `Av(B)` have bounded length, i.e. iff the class has finitely many simples -/
theorem verdict_matches_simples (B : List NSeq) (hB : ∀ x ∈ B, IsPerm x) (useDb checkAll : Bool) :
    hasFiniteSimples B useDb checkAll none = true ↔ ∃ N, ∀ τ, SimpleIn B τ → τ.length ≤ N :=
  verdict_matches_simples_of_BHV unavoidable_substructures B hB useDb checkAll

/-- non-vacuity: both directions are inhabited – for the basis `{ε}` the verdict is `True` (see the example after
    `verdict_true_finitely_many_simples_of_BHV`), for the empty basis it is `False` and the right-hand side fails -/
example : ¬ ∃ N, ∀ τ, SimpleIn [] τ → τ.length ≤ N := by
  rw [← verdict_matches_simples [] (by simp) false true]
  have hp : hasFinitePinperms [] = false := by decide +kernel
  intro h
  have := ((hasFiniteSimples_iff [] false true none).mp h).2
  simp only [hasFinitePinpermsWith] at this
  rw [hp] at this; exact absurd this (by decide)

/-- … the same for `FinitelyManySimplesStrategy(B).applies()`: it answers `True` iff `Av(B)` has finitely many
    simple permutations -/
theorem strategy_matches_simples (B : List NSeq) (hB : ∀ x ∈ B, IsPerm x) :
    strategyApplies B = true ↔ ∃ N, ∀ τ, SimpleIn B τ → τ.length ≤ N := by
  constructor
  · exact strategy_true_finitely_many_simples_of_BHV unavoidable_substructures B hB
  · rintro ⟨N, hN⟩
    cases h : strategyApplies B with
    | true => rfl
    | false =>
      obtain ⟨σ, h1, _, h2⟩ := strategy_false_correct B hB h (N + 1)
      have := hN σ h2
      omega

/-- … and for `Av(B).has_finitely_many_simples()` when the class is not recognised as finite and `is_polynomial`
    (an input, property C13) says no: the answer is `True` iff the class of the normalised basis has finitely many
    simple permutations -/
theorem av_matches_simples (B : List NSeq) (hB : ∀ x ∈ B, IsPerm x) (b : Bool)
    (hv : avHasFinitelyManySimples B false = .ok b) (hinf : isFiniteClass (basisOf B) = false) :
    b = true ↔ ∃ N, ∀ τ, SimpleIn (basisOf B) τ → τ.length ≤ N := by
  constructor
  · rintro rfl
    exact av_true_finitely_many_simples_of_BHV unavoidable_substructures B hB hv hinf
  · rintro ⟨N, hN⟩
    cases b with
    | true => rfl
    | false =>
      obtain ⟨σ, h1, _, h2⟩ := av_false_correct B hB false hv (N + 1)
      have := hN σ h2
      omega

-- ===== pv16b: end =====

end C16
