import PermutaModel.Lemmas.C17Rep
import PermutaModel.Lemmas.C17Complete
import PermutaModel.Lemmas.C17Irr3
import PermutaModel.Lemmas.C17CleanUp
import PermutaModel.Lemmas.C17SubMesh
import PermutaModel.Lemmas.C17MaxMesh
import PermutaModel.Lemmas.C17Suffice
import PermutaModel.Lemmas.C17Order
import PermutaModel.Spec.C17
import PermutaModel.Lemmas.C17Auto
import PermutaModel.Lemmas.C17AutoIds
import PermutaModel.Lemmas.C17AutoSrc
import PermutaModel.Props.C03

/-!
# C17 — BiSC output describes its input: sound up to `n`, complete up to `m`, irredundant
(all three proved for the model; the model is tied to the code by the correspondence run)

Property theorems only.  `Model.C17.*` mirrors `permuta/bisc/bisc.py` and
`permuta/bisc/bisc_subfunctions.py`; `Spec.C17.soundB` is the executable reading of "every member of
`A` of length at most `n` avoids all learned mesh patterns"; `Model.containsMesh` is mesh-pattern
containment (Model/Mesh.lean, C03).

Order independence (last section): the hitting-set recursion is also given as a relation `HitRun`
whose runs branch on an *arbitrary* free cell (CPython iterates over a `set` there), `forb` as the
relation `ForbRun` built from such runs; the printed result does not depend on the choices, nor on
the order in which the input is listed.

`auto_bisc` (last section): the automatic driver for a property given as a function is the model
`Model.C17.autoBisc fuel ch A B` (Model/C17Auto.lean): `ch` is a choice function for `basis = bases[0]`
(the only place where CPython's set order decides), `fuel` bounds the number of loop-body executions.
All statements hold for every `ch`.
-/
open Model Model.C17

namespace C17

/-- **A1** the algorithm's private containment test `perm_contains_cl_patt_many_shadings` is
    mesh-pattern containment of one of the shadings (all sequences, all shadings). -/
theorem private_test_eq_mesh_containment (σ π : NSeq) (Rs : List Shading) :
    permContainsMany σ π Rs = true ↔ ∃ R ∈ Rs, containsMesh σ ⟨π, R⟩ = true :=
  permContainsMany_iff σ π Rs

/-- non-vacuity: `021` contains `10` with cell `(0,1)` shaded, not with `(0,0)` shaded -/
example : permContainsMany [0, 2, 1] [1, 0] [[(0, 0)], [(0, 1)]] = true ∧
    permContainsMany [0, 2, 1] [1, 0] [[(0, 0)]] = false := by
  unfold permContainsMany
  rw [C01.occurrencesIn_eq_spec _ _ (by decide) (by decide)]
  decide

/-- **A1** the hit boxes computed by the private test decide the scan of `MeshPatt._occurrences_in_perm` -/
theorem hit_boxes_decide_mesh_scan (sh : Shading) (cand σ : List Nat) (x : Nat) :
    meshScan sh cand σ x = disjointB (hitBoxes cand σ x) sh :=
  meshScan_eq_disjoint sh cand σ x

/-- **A1** `perm_contains_cl_patts_many_shadings` (used by both sanity checks) says exactly that the
    permutation contains one of the mesh patterns of the dictionary -/
theorem dict_test_eq_mesh_containment (σ : NSeq) (SG : PattDict) :
    permContainsDict σ SG = true ↔ ∃ p ∈ meshesOf SG, containsMesh σ p = true :=
  permContainsDict_iff σ SG

example : permContainsDict [0, 2, 1] [(2, [([1, 0], [[(0, 1)]])])] = true := by
  unfold permContainsDict permContainsMany
  simp only [List.any_cons, List.any_nil, Bool.or_false]
  rw [C01.occurrencesIn_eq_spec _ _ (by decide) (by decide)]
  decide

/-- **A1** `mesh_contains_cl_patt_many_shadings(perm, S, patt, Rs)` (the pruning test of the
    hitting-set search, built on `MeshPatt.sub_mesh_pattern`) is containment of one of the mesh
    patterns `(patt, R)` in the mesh pattern `(perm, S)`: some occurrence of `patt` in `perm` such that
    the rectangle of `perm`'s grid under every cell of `R` is entirely shaded in `S` and point-free. -/
theorem private_mesh_test_eq_sub_mesh_inclusion (perm : NSeq) (hperm : IsPerm perm) (patt : NSeq)
    (hpatt : IsPerm patt) (S : Shading) (Rs : List Shading) :
    meshContainsMany perm S patt Rs = true ↔
      ∃ R ∈ Rs, Spec.C17.meshInMesh ⟨perm, S⟩ ⟨patt, R⟩ = true :=
  meshContainsMany_iff perm hperm patt hpatt S Rs

example : Spec.C17.meshInMesh ⟨[1, 0, 2], [(0, 0), (0, 1)]⟩ ⟨[1, 0], [(0, 0)]⟩ = true ∧
    Spec.C17.meshInMesh ⟨[1, 0, 2], [(0, 1)]⟩ ⟨[1, 0], [(0, 0)]⟩ = false := by
  unfold Spec.C17.meshInMesh
  simp only []
  rw [C01.occurrencesIn_eq_spec _ _ (by decide) (by decide)]
  decide

/-- **A2** `hitting_sound`: every set returned by `rec_w_reduce_pattern_pos(C, forb, lst, …)`
    contains `C` and meets every member of `lst` - for arbitrary `lst`, `C`, `forb`, bad patterns
    and check interval (the pruning never returns an unsatisfied set).  The recursion itself is
    defined by well-founded recursion on the number of free cells of unsatisfied members, which is
    its termination proof. -/
theorem hitting_sound (perm : NSeq) (bad : PattDict) (ci : List Nat) (C forb : Shading)
    (lst : List Shading) (H : Shading) (hH : H ∈ hitting perm bad ci C forb lst) :
    (∀ b ∈ C, b ∈ H) ∧ ∀ L ∈ lst, ∃ b ∈ H, b ∈ L :=
  hitting_inv perm bad ci C forb lst H hH

/-- non-vacuity: a call whose partial set already meets the only member returns that set -/
example : hitting [0] [] [] [(0, 0)] [] [[(0, 0), (1, 1)]] = [[(0, 0)]] := by
  rw [hitting, if_neg (by simp [subsetB])]
  split
  · rfl
  · rename_i l0 r h; simp [disjointB] at h

/-- **A2** as used by `find_badpatts`: every learned shading of `perm` meets every recorded
    minimal hit set of `perm` -/
theorem find_badpatts_hits (gp : List Level) (bad : PattDict) (ci : List Nat) (p : NSeq) (R : Shading)
    (hR : R ∈ findBadpatts gp bad ci p) (Ls : List Shading)
    (hLs : alGet (gp.getD p.length []) p = some Ls) : ∀ L ∈ Ls, ∃ b ∈ R, b ∈ L :=
  findBadpatts_mem gp bad ci p R hR Ls hLs

/-- **A3** `mine_covers`: for every dictionary `D` of permutations (`D k` = the members of length
    `k`), every member `σ` of length at most `N`, every permutation `π` whose length is in the
    check interval and every occurrence `c` of `π` in `σ`, `goodpatts[|π|][π]` holds a set of cells
    all of which are hit boxes of that occurrence.  (Index shifts `sh - (sh > i)`, `loc`,
    `min_len`, `max_patt_len`, the superset test and the final antichain filter are all inside.) -/
theorem mine_covers (D : Nat → List NSeq) (M N : Nat)
    (hD : ∀ k, ∀ p ∈ D k, IsPerm p ∧ p.length = k)
    (σ : NSeq) (hσ : σ ∈ D σ.length) (hσN : σ.length ≤ N)
    (π : NSeq) (hπ : IsPerm π) (c : List Nat) (hc : IsOcc π σ c)
    (hj : π.length ∈ (mine D M N).1) :
    ∃ Rs, alGet ((mine D M N).2.getD π.length []) π = some Rs ∧
      ∃ R ∈ Rs, ∀ cell ∈ R, cell ∈ hitBoxes (pick σ c) σ 0 := by
  obtain ⟨Rs, h1, R, hR, hsub⟩ := Model.C17.mine_covers D M N hD σ hσ hσN π hπ c hc hj
  exact ⟨Rs, h1, R, hR, subsetB_iff.mp hsub⟩

/-- non-vacuity: `0` occurs in `01` at position `0`; length 1 is in the check interval -/
example : ∃ Rs, alGet ((mine (fun k => if k = 2 then [[0, 1]] else []) 1 2).2.getD 1 []) [0] = some Rs ∧
    ∃ R ∈ Rs, ∀ cell ∈ R, cell ∈ hitBoxes (pick [0, 1] [0]) [0, 1] 0 :=
  mine_covers (fun k => if k = 2 then [[0, 1]] else []) 1 2
    (by intro k p hp; split at hp
        · simp only [List.mem_singleton] at hp; subst hp; rename_i h; subst h; decide
        · cases hp)
    [0, 1] (by decide) (by decide) [0] (by decide) [0]
    ⟨rfl, by unfold StrictInc; simp, by decide,
      by intro a b ha hb
         simp only [List.length_cons, List.length_nil, Nat.zero_add, Nat.lt_one_iff] at ha hb
         subst ha hb; simp⟩ (by decide)

/-- **A4** soundness of `forb ∘ mine` for an arbitrary dictionary of permutations: every member of
    length at most `N` avoids every learned mesh pattern. -/
theorem forb_mine_sound (D : Nat → List NSeq) (M N : Nat)
    (hD : ∀ k, ∀ p ∈ D k, IsPerm p ∧ p.length = k)
    (σ : NSeq) (hσ : σ ∈ D σ.length) (hσN : σ.length ≤ N) :
    ∀ p ∈ meshesOf (forb (mine D M N).2 (mine D M N).1 M), containsMesh σ p = false :=
  Model.C17.forb_mine_sound D M N hD σ hσ hσN

/-- **A4** `bisc_sound`: for every finite list `A` of permutations (not only pattern classes), all
    bounds `m`, `n` (no relation between them is needed for soundness) and each of the three input
    representations, whenever `bisc(A, m, n)` returns a dictionary `SG`, every member of `A` of
    length at most `n` avoids all learned mesh patterns: `Spec.C17.soundB A n SG`. -/
theorem bisc_sound (rep : Rep) (A : List NSeq) (hA : ∀ p ∈ A, IsPerm p) (m n : Nat) (SG : PattDict)
    (h : bisc rep A m (some n) = .ok SG) : Spec.C17.soundB A n (meshesOf SG) = true := by
  have key : ∀ D : Nat → List NSeq, (∀ k, ∀ p ∈ D k, IsPerm p ∧ p.length = k) →
      (∀ σ ∈ A, σ.length ≤ n → σ ∈ D σ.length) →
      SG = forb (mine D m n).2 (mine D m n).1 m → Spec.C17.soundB A n (meshesOf SG) = true := by
    intro D hD hmem hSG
    unfold Spec.C17.soundB
    rw [List.all_eq_true]
    intro σ hσ
    by_cases hl : n < σ.length
    · simp [hl]
    · simp only [hl, decide_false, Bool.false_or, List.all_eq_true, Bool.not_eq_true']
      intro p hp
      rw [hSG] at hp
      exact Model.C17.forb_mine_sound D m n hD σ (hmem σ hσ (by omega)) (by omega) p hp
  have hlist : ∀ k, ∀ p ∈ mkD .list A n k, IsPerm p ∧ p.length = k := by
    intro k p hp
    simp only [mkD, List.mem_filter, beq_iff_eq] at hp
    exact ⟨hA p hp.1, hp.2⟩
  have hlistmem : ∀ σ ∈ A, σ.length ≤ n → σ ∈ mkD .list A n σ.length := by
    intro σ hσ _
    simp only [mkD, List.mem_filter, beq_self_eq_true, and_true]; exact hσ
  cases rep with
  | list =>
    simp only [bisc, Except.ok.injEq] at h
    exact key _ hlist hlistmem h.symm
  | dict =>
    simp only [bisc] at h
    split at h
    · cases h
    · simp only [Except.ok.injEq] at h
      exact key _ hlist hlistmem h.symm
  | pred =>
    simp only [bisc, Except.ok.injEq] at h
    refine key (mkD .pred A n) ?_ ?_ h.symm
    · intro k p hp
      simp only [mkD] at hp
      split at hp
      · exact (mem_permsLex_iff k p).mp (List.mem_filter.mp hp).1
      · cases hp
    · intro σ hσ hσn
      simp only [mkD, hσn, if_true, List.mem_filter, List.contains_iff_mem]
      exact ⟨(mem_permsLex_iff _ σ).mpr ⟨hA σ hσ, rfl⟩, hσ⟩

/-- **B1** completeness of `forb ∘ mine` for an arbitrary duplicate-free dictionary of permutations:
    every permutation of length at most `M` that is not a member contains a learned mesh pattern
    (either a pattern on itself, or - when the hitting-set recursion was pruned - the shorter learned
    pattern that pruned it). -/
theorem forb_mine_complete (D : Nat → List NSeq) (M N : Nat) (hn : ∀ k, (D k).Nodup)
    (hD : ∀ k, ∀ p ∈ D k, IsPerm p ∧ p.length = k)
    (σ : NSeq) (hσ : IsPerm σ) (hσM : σ.length ≤ M) (hnot : σ ∉ D σ.length) :
    ∃ p ∈ meshesOf (forb (mine D M N).2 (mine D M N).1 M), containsMesh σ p = true :=
  Model.C17.forb_mine_complete D M N hn hD σ hσ hσM hnot

/-- **B1** `bisc_complete`: for every finite *set* `A` of permutations (duplicate-free list), all
    bounds `m`, `n` and each input representation, whenever `bisc(A, m, n)` returns `SG`, every
    permutation of length at most `m` that is not in `A` contains a learned mesh pattern:
    `Spec.C17.completeB A m SG`. -/
theorem bisc_complete (rep : Rep) (A : List NSeq) (hA : ∀ p ∈ A, IsPerm p) (hnd : A.Nodup) (m n : Nat)
    (SG : PattDict) (h : bisc rep A m (some n) = .ok SG) :
    Spec.C17.completeB A m (meshesOf SG) = true := by
  have key : ∀ D : Nat → List NSeq, (∀ k, (D k).Nodup) → (∀ k, ∀ p ∈ D k, IsPerm p ∧ p.length = k) →
      (∀ σ, σ ∉ A → σ ∉ D σ.length) →
      SG = forb (mine D m n).2 (mine D m n).1 m → Spec.C17.completeB A m (meshesOf SG) = true := by
    intro D hn hD hmem hSG
    unfold Spec.C17.completeB
    rw [List.all_eq_true]
    intro σ hσ
    unfold permsUpTo at hσ
    obtain ⟨k, hk, hσk⟩ := List.mem_flatMap.mp hσ
    rw [List.mem_range] at hk
    obtain ⟨hσp, hσl⟩ := (mem_permsLex_iff k σ).mp hσk
    by_cases hin : A.contains σ = true
    · rw [hin]; rfl
    · simp only [hin, Bool.false_or, List.any_eq_true]
      rw [List.contains_iff_mem] at hin
      rw [hSG]
      exact Model.C17.forb_mine_complete D m n hn hD σ hσp (by omega) (hmem σ hin)
  have hlist : ∀ k, ∀ p ∈ mkD .list A n k, IsPerm p ∧ p.length = k := by
    intro k p hp
    simp only [mkD, List.mem_filter, beq_iff_eq] at hp
    exact ⟨hA p hp.1, hp.2⟩
  have hlistn : ∀ k, (mkD .list A n k).Nodup := fun k => hnd.filter _
  have hlistmem : ∀ σ, σ ∉ A → σ ∉ mkD .list A n σ.length := by
    intro σ hσ hm
    simp only [mkD, List.mem_filter] at hm; exact hσ hm.1
  cases rep with
  | list =>
    simp only [bisc, Except.ok.injEq] at h
    exact key _ hlistn hlist hlistmem h.symm
  | dict =>
    simp only [bisc] at h
    split at h
    · cases h
    · simp only [Except.ok.injEq] at h
      exact key _ hlistn hlist hlistmem h.symm
  | pred =>
    simp only [bisc, Except.ok.injEq] at h
    refine key (mkD .pred A n) ?_ ?_ ?_ h.symm
    · intro k; simp only [mkD]; split
      · exact (nodup_permsLex k).filter _
      · exact List.nodup_nil
    · intro k p hp
      simp only [mkD] at hp
      split at hp
      · exact (mem_permsLex_iff k p).mp (List.mem_filter.mp hp).1
      · cases hp
    · intro σ hσ hm
      simp only [mkD] at hm
      split at hm
      · rw [List.mem_filter, List.contains_iff_mem] at hm; exact hσ hm.2
      · cases hm

/-- **B2** irredundancy of `forb ∘ mine`: if a learned shading loses any one cell, the weakened
    pattern occurs in a member of the input of length at most `N` (minimal hitting sets, and every
    recorded set is realised by an actual occurrence). -/
theorem forb_mine_irredundant (D : Nat → List NSeq) (M N : Nat)
    (hD : ∀ k, ∀ p ∈ D k, IsPerm p ∧ p.length = k) :
    ∀ p ∈ meshesOf (forb (mine D M N).2 (mine D M N).1 M), ∀ r ∈ p.shading,
      ∃ σ, σ.length ≤ N ∧ σ ∈ D σ.length ∧
        containsMesh σ ⟨p.pattern, p.shading.filter fun c => c != r⟩ = true :=
  Model.C17.forb_mine_irredundant D M N hD

/-- **B2** `bisc_irredundant`: for every finite list `A` of permutations, all bounds and each input
    representation, whenever `bisc(A, m, n)` returns `SG`, no learned shading can lose a cell
    without the pattern occurring in a member of `A` of length at most `n`
    (`Spec.C17.irredundantB A n SG`; the "implied by a shorter learned pattern" escape of the
    property text is never needed). -/
theorem bisc_irredundant (rep : Rep) (A : List NSeq) (hA : ∀ p ∈ A, IsPerm p) (m n : Nat)
    (SG : PattDict) (h : bisc rep A m (some n) = .ok SG) :
    Spec.C17.irredundantB A n (meshesOf SG) = true := by
  have key : ∀ D : Nat → List NSeq, (∀ k, ∀ p ∈ D k, IsPerm p ∧ p.length = k) →
      (∀ σ, σ ∈ D σ.length → σ ∈ A) →
      SG = forb (mine D m n).2 (mine D m n).1 m → Spec.C17.irredundantB A n (meshesOf SG) = true := by
    intro D hD hmem hSG
    unfold Spec.C17.irredundantB
    rw [List.all_eq_true]
    intro p hp
    rw [List.all_eq_true]
    intro r hr
    rw [hSG] at hp
    obtain ⟨σ, hσn, hσD, hc⟩ := Model.C17.forb_mine_irredundant D m n hD p hp r hr
    simp only [Bool.or_eq_true, List.any_eq_true, Bool.and_eq_true, decide_eq_true_eq]
    left
    exact ⟨σ, hmem σ hσD, hσn, hc⟩
  have hlist : ∀ k, ∀ p ∈ mkD .list A n k, IsPerm p ∧ p.length = k := by
    intro k p hp
    simp only [mkD, List.mem_filter, beq_iff_eq] at hp
    exact ⟨hA p hp.1, hp.2⟩
  have hlistmem : ∀ σ, σ ∈ mkD .list A n σ.length → σ ∈ A := by
    intro σ hm
    simp only [mkD, List.mem_filter] at hm; exact hm.1
  cases rep with
  | list =>
    simp only [bisc, Except.ok.injEq] at h
    exact key _ hlist hlistmem h.symm
  | dict =>
    simp only [bisc] at h
    split at h
    · cases h
    · simp only [Except.ok.injEq] at h
      exact key _ hlist hlistmem h.symm
  | pred =>
    simp only [bisc, Except.ok.injEq] at h
    refine key (mkD .pred A n) ?_ ?_ h.symm
    · intro k p hp
      simp only [mkD] at hp
      split at hp
      · exact (mem_permsLex_iff k p).mp (List.mem_filter.mp hp).1
      · cases hp
    · intro σ hm
      simp only [mkD] at hm
      split at hm
      · rw [List.mem_filter, List.contains_iff_mem] at hm; exact hm.2
      · cases hm

/-- non-vacuity of the three guarantees: `A = {ε}`, `m = n = 1` learns the pattern `0` with empty
    shading (all three representations), and the guarantees are the ones of that dictionary -/
example : bisc .list [[]] 1 (some 1) = .ok [(1, [([0], [[]])])] ∧
    bisc .pred [[]] 1 (some 1) = .ok [(1, [([0], [[]])])] ∧
    Spec.C17.soundB [[]] 1 (meshesOf [(1, [([0], [[]])])]) = true ∧
    Spec.C17.completeB [[]] 1 (meshesOf [(1, [([0], [[]])])]) = true ∧
    Spec.C17.irredundantB [[]] 1 (meshesOf [(1, [([0], [[]])])]) = true :=
  ⟨by rfl, by rfl,
   bisc_sound .list [[]] (by decide) 1 1 _ (by rfl),
   bisc_complete .list [[]] (by decide) (by decide) 1 1 _ (by rfl),
   bisc_irredundant .list [[]] (by decide) 1 1 _ (by rfl)⟩

/-- non-vacuity of irredundancy: for `A = {0}`, `m = n = 1` some learned pattern has a non-empty
    shading (derived from completeness at `ε ∉ A` and soundness at `0 ∈ A`; the hitting-set
    recursion is defined by well-founded recursion and does not evaluate in the kernel) -/
example : ∃ p ∈ meshesOf (forb (mine (mkD .list [[0]] 1) 1 1).2 (mine (mkD .list [[0]] 1) 1 1).1 1),
    p.shading ≠ [] := by
  have hD : ∀ k, ∀ p ∈ mkD .list [[0]] 1 k, IsPerm p ∧ p.length = k := by
    intro k p hp
    simp only [mkD, List.mem_filter, List.mem_singleton, beq_iff_eq] at hp
    obtain ⟨rfl, rfl⟩ := hp; decide
  obtain ⟨p, hp, hc⟩ := forb_mine_complete (mkD .list [[0]] 1) 1 1 (fun k => by
      simp only [mkD]; exact (List.nodup_singleton _).filter _) hD [] (by decide) (by decide) (by decide)
  have hs := forb_mine_sound (mkD .list [[0]] 1) 1 1 hD [0] (by decide) (by decide) p hp
  refine ⟨p, hp, fun hnil => ?_⟩
  obtain ⟨π, R⟩ := p
  simp only at hnil; subst hnil
  have hπ : π = [] := by
    cases π with
    | nil => rfl
    | cons a t =>
      exfalso
      simp [containsMesh, meshOccInPerm, occurrencesIn] at hc
  subst hπ
  have : containsMesh [0] ⟨[], []⟩ = true := by decide
  rw [this] at hs; cases hs

/-- **B3** `clean_up_bases_hit_all_bad`: every basis returned by `clean_up` (for any dictionary
    `SG`, any lists `B[L]` of permutations, any limits) still has, for every bad permutation it was
    tested on (all of `B[L]`, `perm_len_min ≤ L ≤ perm_len_max`), a mesh pattern occurring in it. -/
theorem clean_up_bases_hit_all_bad (SG : PattDict) (Bk : Nat → List NSeq)
    (permMin permMax pattMin pattMax limit : Nat) (hB : ∀ L, ∀ P ∈ Bk L, IsPerm P) :
    ∀ b ∈ cleanUp SG Bk permMin permMax pattMin pattMax limit,
      ∀ L, permMin ≤ L → L ≤ permMax → ∀ P ∈ Bk L,
        ∃ x ∈ b, containsMesh P ⟨x.2.1, x.2.2⟩ = true :=
  cleanUp_hits SG Bk permMin permMax pattMin pattMax limit hB

/-- **B3** the same for `run_clean_up(SG, B, bm, limit_monitors)`: the tested lengths are
    `min(SG.keys()) + 1 … bm` -/
theorem run_clean_up_bases_hit_all_bad (SG : PattDict) (Bk : Nat → List NSeq) (bm limit : Nat)
    (hB : ∀ L, ∀ P ∈ Bk L, IsPerm P) (bases : List (List PId))
    (h : runCleanUp SG Bk bm limit = .ok bases) :
    ∀ b ∈ bases, ∀ mn, (SG.map (·.1)).min? = some mn → ∀ L, mn + 1 ≤ L → L ≤ bm → ∀ P ∈ Bk L,
      ∃ x ∈ b, containsMesh P ⟨x.2.1, x.2.2⟩ = true := by
  intro b hb mn hmn L hL1 hL2 P hP
  unfold runCleanUp at h
  split at h
  · cases h
  · split at h
    · cases h
    · rename_i mn' hmn'
      rw [hmn] at hmn'; cases hmn'
      simp only [Except.ok.injEq] at h
      subst h
      exact cleanUp_hits SG Bk (mn + 1) bm mn _ limit hB b hb L hL1 hL2 P hP

/-- non-vacuity: the dictionary `{1: {0: [∅]}}` tested on `B[2] = [01]` keeps the basis `{(0, ∅)}` -/
example : cleanUp [(1, [([0], [[]])])] (fun k => if k = 2 then [[0, 1]] else []) 2 2 1 1 0
    = [[(1, [0], [])]] := by
  have h1 : containsMesh [0, 1] ⟨[0], []⟩ = true := by
    unfold containsMesh meshOccInPerm
    rw [C01.occurrencesIn_eq_spec _ _ (by decide) (by decide)]; decide
  simp [cleanUp, oneForEach, stepPerm, afterLoop, monLoop, h1, List.lookup]

/-- **A1** `maximal_mesh_pattern_of_occurrence σ c = allCells ∖ hit σ c` for a permutation `σ` and
    distinct in-range positions `c`: the cells of the `(|c|+1)²` grid that are no hit box. -/
theorem maximal_mesh_eq (σ : NSeq) (hσ : IsPerm σ) (c : List Nat) (hcn : c.Nodup)
    (hcr : ∀ i ∈ c, i < σ.length) (cell : Cell) :
    cell ∈ maximalMesh σ c ↔
      cell.1 ≤ c.length ∧ cell.2 ≤ c.length ∧ cell ∉ hitBoxes (pick σ c) σ 0 := by
  rw [maximalMesh_eq hσ c hcn hcr]
  simp only [List.mem_flatMap, List.mem_filterMap, List.mem_range]
  constructor
  · rintro ⟨u, hu, v, hv, h⟩
    split at h
    · cases h
    · rename_i hnc
      simp only [Option.some.injEq] at h; subst h
      exact ⟨by simp; omega, by simp; omega, by simpa using hnc⟩
  · rintro ⟨h1, h2, h3⟩
    refine ⟨cell.1, by omega, cell.2, by omega, ?_⟩
    have : (hitBoxes (pick σ c) σ 0).contains (cell.1, cell.2) = false := by
      rw [← Bool.not_eq_true, List.contains_iff_mem]; exact h3
    rw [this]; rfl

example : (0, 1) ∈ maximalMesh [0, 1] [1] ∧ (0, 0) ∉ maximalMesh [0, 1] [1] := by decide

/-- the sanity check `patterns_suffice_for_good(SG, L, A)` answers `True` exactly when every length
    `0 … L` is a key of `A` and no listed permutation contains a mesh pattern of `SG` -/
theorem suffice_good_iff (SG : PattDict) (stop : Bool) (Dk : Nat → Option (List NSeq)) (L : Nat) :
    (sufficeGood SG stop Dk (List.range (L + 1))).1 = true ↔
      ∀ k ≤ L, ∃ As, Dk k = some As ∧ ∀ a ∈ As, ∀ p ∈ meshesOf SG, containsMesh a p = false := by
  rw [sufficeGood_true_iff]
  constructor
  · intro h k hk
    obtain ⟨As, hAs, hall⟩ := h k (List.mem_range.mpr (by omega))
    refine ⟨As, hAs, fun a ha p hp => ?_⟩
    cases hc : containsMesh a p with
    | false => rfl
    | true => have := (permContainsDict_iff a SG).mpr ⟨p, hp, hc⟩; rw [hall a ha] at this; cases this
  · intro h k hk
    obtain ⟨As, hAs, hall⟩ := h k (by have := List.mem_range.mp hk; omega)
    refine ⟨As, hAs, fun a ha => ?_⟩
    cases hc : permContainsDict a SG with
    | false => rfl
    | true =>
      obtain ⟨p, hp, hcp⟩ := (permContainsDict_iff a SG).mp hc
      rw [hall a ha p hp] at hcp; cases hcp

/-- the sanity check `patterns_suffice_for_bad(SG, L, B)` answers `True` exactly when every length
    `0 … L` is a key of `B` and every listed permutation contains a mesh pattern of `SG` -/
theorem suffice_bad_iff (SG : PattDict) (stop : Bool) (Dk : Nat → Option (List NSeq)) (L : Nat) :
    (sufficeBad SG stop Dk (List.range (L + 1))).1 = true ↔
      ∀ k ≤ L, ∃ Bs, Dk k = some Bs ∧ ∀ b ∈ Bs, ∃ p ∈ meshesOf SG, containsMesh b p = true := by
  rw [sufficeBad_true_iff]
  constructor
  · intro h k hk
    obtain ⟨Bs, hBs, hall⟩ := h k (List.mem_range.mpr (by omega))
    exact ⟨Bs, hBs, fun b hb => (permContainsDict_iff b SG).mp (hall b hb)⟩
  · intro h k hk
    obtain ⟨Bs, hBs, hall⟩ := h k (by have := List.mem_range.mp hk; omega)
    exact ⟨Bs, hBs, fun b hb => (permContainsDict_iff b SG).mpr (hall b hb)⟩

/-- **A5** input-representation independence: for a set given by a predicate `P` on the
    permutations of length at most `K`, listed in the canonical order (by length, then
    lexicographically), and bounds `m ≤ n ≤ K`, the list, the dictionary and the predicate
    representation produce the same result. -/
theorem rep_independent (P : NSeq → Bool) (K m n : Nat) (hmn : m ≤ n) (hnK : n ≤ K) :
    bisc .dict ((permsUpTo K).filter P) m (some n) = bisc .list ((permsUpTo K).filter P) m (some n) ∧
    bisc .pred ((permsUpTo K).filter P) m (some n) = bisc .list ((permsUpTo K).filter P) m (some n) := by
  constructor
  · simp only [bisc]
    rw [if_neg (by omega)]
    rfl
  · simp only [bisc]
    rw [mine_congr (mkD .pred ((permsUpTo K).filter P) n) (mkD .list ((permsUpTo K).filter P) n) m n
      (fun k hk => mkD_pred_eq_list P K n k (by omega) hnK)]

/-- `Perm.of_length k` lists exactly the permutations of length `k` (used by the predicate
    representation and by `forb`) -/
theorem permsLex_exact (k : Nat) (p : NSeq) : p ∈ permsLex k ↔ IsPerm p ∧ p.length = k :=
  mem_permsLex_iff k p

example : [1, 0, 2] ∈ permsLex 3 := (permsLex_exact 3 [1, 0, 2]).mpr (by decide)

/-! ## Order independence

`HitRun perm bad ci C forb lst r`: `r` is the list returned by *some* execution of
`rec_w_reduce_pattern_pos(C, forb, lst, perm, …)`, the cell `B` of `for b in lst0: B = b; if B not in
forb: break` being any cell of `lst0` outside `forb`.  `finalize` is the size-sorted minimal filter of
`find_badpatts`; `ForbRun gp ci M out`: `out` is returned by some execution of `forb(ci, gp, M)` in
which every call of the recursion is an arbitrary `HitRun`.  `Driver.C17.showDict` is the canonical
line the driver prints (lengths, patterns, shadings and cells sorted). -/

/-- the model's deterministic recursion (first free cell in list order) is one of the runs, and the
    model's `forb` is one `ForbRun` -/
theorem model_is_a_run (perm : NSeq) (bad : PattDict) (ci : List Nat) (C forb' : Shading)
    (lst : List Shading) (gp : List Level) (M : Nat) :
    HitRun perm bad ci C forb' lst (hitting perm bad ci C forb' lst) ∧ ForbRun gp ci M (forb gp ci M) :=
  ⟨hitting_isRun perm bad ci C forb' lst, forb_isRun gp ci M⟩

/-- **the raw result of the recursion does depend on the cell branched on first**: for the family
    `[{(0,0),(0,1)}, {(0,1)}]` the run that takes `(0,0)` first returns the non-minimal set
    `{(0,1),(0,0)}`, the run that takes `(0,1)` first does not return it (nor an equal set). -/
theorem hitting_raw_result_depends_on_choice :
    ∃ r1 r2, HitRun [0] [] [] [] [] [[(0, 0), (0, 1)], [(0, 1)]] r1 ∧
      HitRun [0] [] [] [] [] [[(0, 0), (0, 1)], [(0, 1)]] r2 ∧
      ∃ H ∈ r1, ∀ H' ∈ r2, ¬ SetEq H H' := by
  refine ⟨([[(0, 1), (0, 0)]] ++ []) ++ ([[(0, 1)]] ++ []), [[(0, 1)]] ++ [], ?_, ?_,
    [(0, 1), (0, 0)], by simp, ?_⟩
  · refine .branch _ _ _ [(0, 0), (0, 1)] [[(0, 1)]] (0, 0) _ _ (by decide) (by decide) (by decide)
      (by decide) (by decide) ?_ ?_
    · refine .branch _ _ _ [(0, 1)] [] (0, 1) _ _ (by decide) (by decide) (by decide)
        (by decide) (by decide) ?_ ?_
      · exact .done _ _ _ (by decide) (by decide)
      · exact .dead _ _ _ (by decide)
    · refine .branch _ _ _ [(0, 0), (0, 1)] [[(0, 1)]] (0, 1) _ _ (by decide) (by decide) (by decide)
        (by decide) (by decide) ?_ ?_
      · exact .done _ _ _ (by decide) (by decide)
      · exact .dead _ _ _ (by decide)
  · refine .branch _ _ _ [(0, 0), (0, 1)] [[(0, 1)]] (0, 1) _ _ (by decide) (by decide) (by decide)
      (by decide) (by decide) ?_ ?_
    · exact .done _ _ _ (by decide) (by decide)
    · exact .dead _ _ _ (by decide)
  · intro H' hH' he
    simp only [List.append_nil, List.mem_singleton] at hH'
    subst hH'
    have := (he (0, 0)).mp (by simp)
    simp at this

/-- **what `find_badpatts` computes**: for every run `r` of the recursion started with `C = forb = ∅`
    on a non-empty family `Ls`, the list kept by the size-sorted filter consists of minimal members
    of the family of sets that meet every member of `Ls` and pass the pruning test, and every such
    minimal set is listed (as a set). -/
theorem find_badpatts_lists_minimal_admissible_hitting_sets (perm : NSeq) (bad : PattDict)
    (ci : List Nat) (Ls r : List Shading) (hr : HitRun perm bad ci [] [] Ls r) (hne : Ls ≠ []) :
    (∀ R ∈ finalize r, MinAdm perm bad ci Ls R) ∧
    (∀ R, MinAdm perm bad ci Ls R → ∃ R' ∈ finalize r, SetEq R' R) :=
  ⟨finalize_minAdm hr hne, finalize_complete hr hne⟩

/-- **`hitting_order_independence`**: any two runs of the recursion on the same family (whatever
    free cell each call branches on) give, after `find_badpatts`' filter, the same set of sets of
    cells, each listed once and without repeated cells; the printed shading list is the same. -/
theorem hitting_order_independence (perm : NSeq) (bad : PattDict) (ci : List Nat)
    (Ls r r' : List Shading) (hr : HitRun perm bad ci [] [] Ls r) (hr' : HitRun perm bad ci [] [] Ls r') :
    ShsEquiv (finalize r) (finalize r') ∧ CleanShs (finalize r) ∧ CleanShs (finalize r') ∧
      Driver.C17.showShs (finalize r) = Driver.C17.showShs (finalize r') := by
  have hc := finalize_clean hr
  have hc' := finalize_clean hr'
  have he : ShsEquiv (finalize r) (finalize r') := by
    by_cases hne : Ls = []
    · subst hne; rw [hr.nil_family, hr'.nil_family]; exact ShsEquiv.refl _
    · constructor
      · intro R hR
        obtain ⟨R', hR', h⟩ := finalize_complete hr' hne R (finalize_minAdm hr hne R hR)
        exact ⟨R', hR', h.symm⟩
      · intro R' hR'
        exact finalize_complete hr hne R' (finalize_minAdm hr' hne R' hR')
  exact ⟨he, hc, hc', showShs_congr he hc hc'⟩

/-- non-vacuity: the two runs of `hitting_raw_result_depends_on_choice` return different lists,
    and `{(0,1)}` is listed after the filter -/
example : ∃ r1 r2, r1 ≠ r2 ∧ HitRun [0] [] [] [] [] [[(0, 0), (0, 1)], [(0, 1)]] r1 ∧
    HitRun [0] [] [] [] [] [[(0, 0), (0, 1)], [(0, 1)]] r2 ∧
    Driver.C17.showShs (finalize r1) = Driver.C17.showShs (finalize r2) ∧
    ∃ R' ∈ finalize r1, SetEq R' [(0, 1)] := by
  obtain ⟨r1, r2, h1, h2, H, hH, hne⟩ := hitting_raw_result_depends_on_choice
  refine ⟨r1, r2, ?_, h1, h2, (hitting_order_independence _ _ _ _ _ _ h1 h2).2.2.2, ?_⟩
  · rintro rfl; exact hne H hH (SetEq.refl H)
  · apply finalize_complete h1 (by simp)
    refine ⟨?_, by decide, ?_⟩
    · intro L hL
      simp only [List.mem_cons, List.not_mem_nil, or_false] at hL
      rcases hL with rfl | rfl <;> exact ⟨(0, 1), by simp, by simp⟩
    · intro H hH _ _ b hb
      simp only [List.mem_singleton] at hb; subst hb
      obtain ⟨b, hbH, hb⟩ := hH [(0, 1)] (by simp)
      simp only [List.mem_singleton] at hb; subst hb; exact hbH

/-- **`forb` does not depend on the cells branched on**: for every `goodpatts`, check interval and
    `M`, every execution of `forb` prints the same line as the model's deterministic one. -/
theorem forb_choice_independence (gp : List Level) (ci : List Nat) (M : Nat) (out : PattDict)
    (h : ForbRun gp ci M out) :
    Driver.C17.showDict out = Driver.C17.showDict (forb gp ci M) := by
  obtain ⟨h1, h2, h3⟩ := forbRun_equiv h (forb_isRun gp ci M) (fun _ _ p _ => GpEquivAt.refl gp p)
  exact showDict_congr h1 h2 h3

/-- **`mine` reads its input as a set**: for a checked length `|π|`, (1) `goodpatts[|π|]` has the key
    `π` exactly when `π` is a member or occurs in a member of length at most `N`, and (2) a set meets
    every member of `goodpatts[|π|][π]` exactly when `π` is no member and the set meets the hit set
    of every occurrence of `π` in a member of length at most `N` - neither mentions the order in which
    the members are listed or processed. -/
theorem mine_goodpatts_semantics (D : Nat → List NSeq) (M N : Nat)
    (hD : ∀ k, ∀ p ∈ D k, IsPerm p ∧ p.length = k) (π : NSeq) (hπ : IsPerm π)
    (hj : π.length ∈ (mine D M N).1) :
    ((∃ Ls, alGet ((mine D M N).2.getD π.length []) π = some Ls) ↔ SemSome D N π) ∧
    ∀ Ls, alGet ((mine D M N).2.getD π.length []) π = some Ls →
      ∀ H, HitsAll H Ls ↔ SemHits D N π H :=
  ⟨mine_some_iff D M N hD π hπ hj, fun Ls hLs H => mine_hits_iff D M N hD π hπ hj Ls hLs H⟩

/-- **order and choice independence of `forb ∘ mine`**: for two dictionaries whose levels are
    rearrangements of each other (duplicates kept as they are), any two executions return
    dictionaries with the same lengths, the same classical patterns and per pattern the same set of
    shadings, each listed once; the printed lines coincide. -/
theorem forb_mine_order_independence (D D' : Nat → List NSeq) (hperm : ∀ k, (D k).Perm (D' k))
    (M N : Nat) (hD : ∀ k, ∀ p ∈ D k, IsPerm p ∧ p.length = k) (out out' : PattDict)
    (h : ForbRun (mine D M N).2 (mine D M N).1 M out)
    (h' : ForbRun (mine D' M N).2 (mine D' M N).1 M out') :
    DictEquiv out out' ∧ CleanDict out ∧ CleanDict out' ∧
      Driver.C17.showDict out = Driver.C17.showDict out' := by
  obtain ⟨h1, h2, h3⟩ := forb_mine_order_independent D D' hperm M N hD out out' h h'
  exact ⟨h1, h2, h3, showDict_congr h1 h2 h3⟩

/-- **`list_order_independence`**: for every list `A` of permutations and every rearrangement `A'`
    of it (duplicates are kept, as `bisc` keeps them), all bounds `m`, `n` (given or `None`) and
    every input representation, the line printed for `bisc(A, m, n)` - the canonical form of the
    learned dictionary, or the error - is the line printed for `bisc(A', m, n)`. -/
theorem list_order_independence (rep : Rep) (A A' : List NSeq) (hperm : A.Perm A')
    (hA : ∀ p ∈ A, IsPerm p) (m : Nat) (n : Option Nat) :
    Proto.showExcept Driver.C17.showDict (bisc rep A m n) =
      Proto.showExcept Driver.C17.showDict (bisc rep A' m n) :=
  bisc_show_perm rep A A' hperm hA m n

/-- the same for duplicate-free lists with the same members -/
theorem list_order_independence_set (rep : Rep) (A A' : List NSeq) (hn : A.Nodup) (hn' : A'.Nodup)
    (hmem : ∀ p, p ∈ A ↔ p ∈ A') (hA : ∀ p ∈ A, IsPerm p) (m : Nat) (n : Option Nat) :
    Proto.showExcept Driver.C17.showDict (bisc rep A m n) =
      Proto.showExcept Driver.C17.showDict (bisc rep A' m n) :=
  bisc_show_perm rep A A' ((List.perm_ext_iff_of_nodup hn hn').mpr hmem) hA m n

/-- non-vacuity: for `A = [021, 012, 0]` and its reversal (`m = 2`, `n = 3`) the intermediate
    `goodpatts` dictionaries differ (key order and the order of the recorded sets), the printed
    results coincide -/
example : (mine (mkD .list [[0, 2, 1], [0, 1, 2], [0]] 3) 2 3).2 ≠
      (mine (mkD .list [[0], [0, 1, 2], [0, 2, 1]] 3) 2 3).2 ∧
    Proto.showExcept Driver.C17.showDict (bisc .list [[0, 2, 1], [0, 1, 2], [0]] 2 (some 3)) =
      Proto.showExcept Driver.C17.showDict (bisc .list [[0], [0, 1, 2], [0, 2, 1]] 2 (some 3)) :=
  ⟨by decide, list_order_independence .list _ _ (by decide) (by decide) 2 (some 3)⟩

/-! ## `auto_bisc` (bisc.py:57-262) for a property given as a function, for every choice of `bases[0]`

Non-vacuity of the hypothesis `autoBisc fuel ch A B = .found sg` cannot be shown by kernel computation (the run
enumerates S_0..S_8 and goes through the well-founded hitting-set recursion); it is *evaluated*: every line of the
harness stream `auto-bisc-functions` is such a run of the compiled model (fuel 12) ending in `.found`.  The acceptance
condition itself, the divergence theorem and the outcome theorem have kernel-checked instances below. -/

/-- **(a)/(c) a returned description has passed the full check.**  Whatever the choices and the fuel: when the
    model of `auto_bisc` returns a dictionary `sg` for the dictionaries `A` (good) and `B` (bad), then for the final
    value `L ≥ 8` of the check length every permutation listed in `A[0..L]` avoids all mesh patterns of `sg` and every
    permutation listed in `B[0..L]` contains one of them (`Model.containsMesh`, the containment the code's own private
    test decides: `private_test_eq_mesh_containment`).  There is no other way to return a description:
    `return sg` (line 205) is reached only after both sanity checks have passed on the *chosen* basis - in
    particular a basis that fails a check is never returned, and "giving up" does not exist for a function input
    (`AutoRes` has no such value: the loop goes on with longer permutations). -/
theorem auto_bisc_returns_checked (fuel : Nat) (ch : Choice) (A B : Nat → List NSeq) (sg : PattDict)
    (h : autoBisc fuel ch A B = .found sg) :
    ∃ L, 8 ≤ L ∧ (∀ k ≤ L, ∀ a ∈ A k, ∀ p ∈ meshesOf sg, containsMesh a p = false) ∧
      (∀ k ≤ L, ∀ b ∈ B k, ∃ p ∈ meshesOf sg, containsMesh b p = true) := by
  obtain ⟨L, hL, hv⟩ := autoOuter_found A B ch sg fuel 8 4 2 h
  obtain ⟨hb, hg⟩ := (verdict_accept_iff A B L sg).mp hv
  exact ⟨L, hL, (psGood_iff sg A L).mp hg, (psBad_iff sg B L).mp hb⟩

/-- non-vacuity of the acceptance condition: for `A[2] = [01]`, `B[2] = [10]` (nothing else) the description
    `{2: {10: [∅]}}` passes both checks up to `L = 2`, the description `{2: {01: [∅]}}` is a "bad basis" -/
example : verdict (fun k => if k = 2 then [[0, 1]] else []) (fun k => if k = 2 then [[1, 0]] else []) 2
      [(2, [([1, 0], [[]])])] = .accept ∧
    verdict (fun k => if k = 2 then [[0, 1]] else []) (fun k => if k = 2 then [[1, 0]] else []) 2
      [(2, [([0, 1], [[]])])] = .badBasis := by
  have h1 : permContainsDict [1, 0] [(2, [([1, 0], [[]])])] = true := by
    unfold permContainsDict permContainsMany
    simp only [List.any_cons, List.any_nil, Bool.or_false]
    rw [C01.occurrencesIn_eq_spec _ _ (by decide) (by decide)]; decide
  have h2 : permContainsDict [0, 1] [(2, [([1, 0], [[]])])] = false := by
    unfold permContainsDict permContainsMany
    simp only [List.any_cons, List.any_nil, Bool.or_false]
    rw [C01.occurrencesIn_eq_spec _ _ (by decide) (by decide)]; decide
  have h3 : permContainsDict [1, 0] [(2, [([0, 1], [[]])])] = false := by
    unfold permContainsDict permContainsMany
    simp only [List.any_cons, List.any_nil, Bool.or_false]
    rw [C01.occurrencesIn_eq_spec _ _ (by decide) (by decide)]; decide
  constructor
  · simp [verdict, psBad, psGood, sufficeBad, sufficeGood, keysUpTo, List.range, List.range.loop, h1, h2]
  · simp [verdict, psBad, sufficeBad, keysUpTo, List.range, List.range.loop, h3]

/-- **(a) soundness of the returned description, as the property states it.**  For every property `P` given as a
    function, every choice function and every fuel: when the model of `auto_bisc(P)` returns `sg`, then for every
    permutation `σ` of length at most 8: `σ` avoids all mesh patterns of `sg` ⇔ `P σ`. -/
theorem auto_bisc_sound (fuel : Nat) (ch : Choice) (P : NSeq → Bool) (sg : PattDict)
    (h : autoBiscProp fuel ch P = .found sg) (σ : NSeq) (hσ : IsPerm σ) (hlen : σ.length ≤ 8) :
    (∀ p ∈ meshesOf sg, containsMesh σ p = false) ↔ P σ = true := by
  obtain ⟨L, hL, hg, hb⟩ := auto_bisc_returns_checked fuel ch _ _ sg h
  have hmem : σ ∈ permsLex σ.length := (permsLex_exact _ σ).mpr ⟨hσ, rfl⟩
  constructor
  · intro hav
    cases hP : P σ with
    | true => rfl
    | false =>
      obtain ⟨p, hp, hc⟩ := hb σ.length (by omega) σ (List.mem_filter.mpr ⟨hmem, by simp [hP]⟩)
      rw [hav p hp] at hc; cases hc
  · intro hP p hp
    exact hg σ.length (by omega) σ (List.mem_filter.mpr ⟨hmem, hP⟩) p hp

/-- **(a) for arbitrary start parameters** (`L`, `n`, `m` are 8, 4, 2 in the code): whatever the loop is started with,
    a returned description coincides with the property on every permutation of length at most the final check
    length `L' ≥ L`. -/
theorem auto_bisc_sound_from (fuel : Nat) (ch : Choice) (P : NSeq → Bool) (L n m : Nat) (sg : PattDict)
    (h : autoOuter (goodOf P) (badOf P) ch fuel L n m = .found sg) :
    ∃ L', L ≤ L' ∧ ∀ σ, IsPerm σ → σ.length ≤ L' →
      ((∀ p ∈ meshesOf sg, containsMesh σ p = false) ↔ P σ = true) := by
  obtain ⟨L', hL, hv⟩ := autoOuter_found _ _ ch sg fuel L n m h
  obtain ⟨hb, hg⟩ := (verdict_accept_iff _ _ L' sg).mp hv
  have hg := (psGood_iff sg _ L').mp hg
  have hb := (psBad_iff sg _ L').mp hb
  refine ⟨L', hL, fun σ hσ hlen => ?_⟩
  have hmem : σ ∈ permsLex σ.length := (permsLex_exact _ σ).mpr ⟨hσ, rfl⟩
  constructor
  · intro hav
    cases hP : P σ with
    | true => rfl
    | false =>
      obtain ⟨p, hp, hc⟩ := hb σ.length hlen σ (List.mem_filter.mpr ⟨hmem, by simp [hP]⟩)
      rw [hav p hp] at hc; cases hc
  · intro hP p hp
    exact hg σ.length hlen σ (List.mem_filter.mpr ⟨hmem, hP⟩) p hp

/-- the classical patterns of a returned description are permutations (they are patterns learned by `forb`: every
    entry of a basis of `clean_up` is an entry of `SG`, and `to_sg_format` only regroups the entries) -/
theorem auto_bisc_returns_permutation_patterns (fuel : Nat) (ch : Choice) (A B : Nat → List NSeq) (sg : PattDict)
    (h : autoBisc fuel ch A B = .found sg) : ∀ p ∈ meshesOf sg, IsPerm p.pattern :=
  autoOuter_found_perm A B ch sg fuel 8 4 2 h

/-- **(a) with the specification's mesh containment** (`MeshContains σ p`: an occurrence of the underlying pattern of
    `p` in `σ` with no other point of `σ` in a shaded cell): for every property `P` given as a function, every choice
    function and every fuel, when the model of `auto_bisc(P)` returns `sg`, a permutation `σ` of length at most 8
    contains none of the mesh patterns of `sg` exactly when `P σ` holds. -/
theorem auto_bisc_sound_spec (fuel : Nat) (ch : Choice) (P : NSeq → Bool) (sg : PattDict)
    (h : autoBiscProp fuel ch P = .found sg) (σ : NSeq) (hσ : IsPerm σ) (hlen : σ.length ≤ 8) :
    (∀ p ∈ meshesOf sg, ¬ MeshContains σ p) ↔ P σ = true := by
  have hpat := auto_bisc_returns_permutation_patterns fuel ch _ _ sg h
  rw [← auto_bisc_sound fuel ch P sg h σ hσ hlen]
  constructor
  · intro hav p hp
    cases hc : containsMesh σ p with
    | false => rfl
    | true => exact absurd ((C03.containsMesh_iff σ p (hpat p hp) hσ).mp hc) (hav p hp)
  · intro hav p hp hc
    have := (C03.containsMesh_iff σ p (hpat p hp) hσ).mpr hc
    rw [hav p hp] at this; cases this

/-- **(d) the meaning of the answer does not depend on the choices**: two runs (any choice functions, any fuels)
    that both return a description return descriptions that are avoided by exactly the same permutations of
    length at most 8.  (The returned *dictionaries* do differ with the choice - evaluated with the driver op
    `autoall 5 1,0/0.0,0.1,1.1,2.2;1,0/0.0,1.2,2.1,2.2`: for the property "avoids (10, {00,01,11,22}) and
    (10, {00,12,21,22})" the runs return either `{2: {10: [{00,01,11,22}, {00,12,21,22}]}}` or
    `{2: {10: [{00,11,21,22}, {00,12,21,22}]}}`, depending on the basis taken at a choice point with two bases.) -/
theorem auto_bisc_choice_independent_meaning (fuel fuel' : Nat) (ch ch' : Choice) (P : NSeq → Bool)
    (sg sg' : PattDict) (h : autoBiscProp fuel ch P = .found sg) (h' : autoBiscProp fuel' ch' P = .found sg')
    (σ : NSeq) (hσ : IsPerm σ) (hlen : σ.length ≤ 8) :
    (∀ p ∈ meshesOf sg, containsMesh σ p = false) ↔ (∀ p ∈ meshesOf sg', containsMesh σ p = false) := by
  rw [auto_bisc_sound fuel ch P sg h σ hσ hlen, auto_bisc_sound fuel' ch' P sg' h' σ hσ hlen]

/-- **(d) the set of possible answers**: `autoBiscAll fuel A B` lists the results of all runs - it is computed
    without any choice function - and the run under any choice function is one of them; every description in the
    list has passed the full check. -/
theorem auto_bisc_result_among_all (fuel : Nat) (ch : Choice) (A B : Nat → List NSeq) :
    autoBisc fuel ch A B ∈ autoBiscAll fuel A B :=
  autoOuter_mem_all A B ch fuel 8 4 2

theorem auto_bisc_all_checked (fuel : Nat) (A B : Nat → List NSeq) (sg : PattDict)
    (h : AutoRes.found sg ∈ autoBiscAll fuel A B) :
    ∃ L, 8 ≤ L ∧ (∀ k ≤ L, ∀ a ∈ A k, ∀ p ∈ meshesOf sg, containsMesh a p = false) ∧
      (∀ k ≤ L, ∀ b ∈ B k, ∃ p ∈ meshesOf sg, containsMesh b p = true) := by
  obtain ⟨L, hL, hv⟩ := autoOuterAll_found A B sg fuel 8 4 2 h
  obtain ⟨hb, hg⟩ := (verdict_accept_iff A B L sg).mp hv
  exact ⟨L, hL, (psGood_iff sg A L).mp hg, (psBad_iff sg B L).mp hb⟩

/-- **(b) totality and fuel.**  The model is a total function of `(fuel, ch, A, B)` (structural recursion on the
    fuel, for every choice function).  Fuel only decides whether the answer is reached: a run that has ended
    (a description, or an error) is not changed by more fuel. -/
theorem auto_bisc_fuel_independent (fuel d : Nat) (ch : Choice) (A B : Nat → List NSeq)
    (h : autoBisc fuel ch A B ≠ .outOfFuel) : autoBisc (fuel + d) ch A B = autoBisc fuel ch A B :=
  autoOuter_fuel_mono A B ch fuel 8 4 2 h d

/-- **(b) progress of the inner loop**: one execution of its body either ends it (a description is returned,
    `break`, or `run_clean_up` raises) or continues with `ib + 1` ("No bases found") or with `n + 1` ("A bad basis
    was chosen") - `n + ib` grows by one, nothing else changes. -/
theorem auto_bisc_inner_progress (A B : Nat → List NSeq) (ch : Choice) (SG : PattDict) (L f n ib : Nat) :
    (∃ sg, autoInner A B ch SG L (f + 1) n ib = .found sg) ∨ autoInner A B ch SG L (f + 1) n ib = .again (n + 1) ∨
    (∃ e, autoInner A B ch SG L (f + 1) n ib = .err e) ∨
    autoInner A B ch SG L (f + 1) n ib = autoInner A B ch SG L f n (ib + 1) ∨
    autoInner A B ch SG L (f + 1) n ib = autoInner A B ch SG L f (n + 1) ib := by
  rw [autoInner.eq_2 A B ch SG L n ib f]
  split
  · exact Or.inr (Or.inr (Or.inl ⟨_, rfl⟩))
  · exact Or.inr (Or.inr (Or.inr (Or.inl rfl)))
  · split
    · exact Or.inr (Or.inr (Or.inr (Or.inr rfl)))
    · exact Or.inr (Or.inl rfl)
    · exact Or.inl ⟨_, rfl⟩

/-- **(b) progress of the outer loop**: one execution of its body that does not end the run continues with a
    strictly larger `n` and with `L ≥ n + 1` (so the dictionaries always cover the lengths learned from). -/
theorem auto_bisc_outer_progress (A B : Nat → List NSeq) (ch : Choice) (f L n m : Nat) :
    (∃ sg, autoOuter A B ch (f + 1) L n m = .found sg) ∨ autoOuter A B ch (f + 1) L n m = .outOfFuel ∨
    (∃ e, autoOuter A B ch (f + 1) L n m = .err e) ∨
    ∃ L' n' m', n < n' ∧ n' + 1 ≤ L' ∧ L ≤ L' ∧ m ≤ m' ∧
      autoOuter A B ch (f + 1) L n m = autoOuter A B ch f L' n' m' := by
  rw [autoOuter.eq_2 A B ch L n m f]
  split
  · split
    · exact Or.inl ⟨_, rfl⟩
    · rename_i n' heq
      have := autoInner_again A B ch _ L n' _ _ _ heq
      exact Or.inr (Or.inr (Or.inr ⟨max L (n' + 1), n', m, this, by omega, by omega, by omega, rfl⟩))
    · exact Or.inr (Or.inl rfl)
    · exact Or.inr (Or.inr (Or.inl ⟨_, rfl⟩))
  · exact Or.inr (Or.inr (Or.inr ⟨max L (n + 2), n + 1, m + 1, by omega, by omega, by omega, by omega, rfl⟩))

/-- **(b) the Python loop has no bound of its own: it need not terminate.**  When every permutation of every length
    is listed as good (e.g. the property that is always true) `mine` finds nothing to check, `bisc` returns `{}`,
    and every pass takes the branch "Need to learn longer patterns" (`n += 1; m += 1`, then `L` grows and longer
    permutations are enumerated): for every fuel and every choice function the model is still running. -/
theorem auto_bisc_all_good_diverges (fuel : Nat) (ch : Choice) (A B : Nat → List NSeq)
    (hA : ∀ k, (A k).length = factorial k) : autoBisc fuel ch A B = .outOfFuel :=
  autoOuter_full A B ch hA fuel 8 4 2 (by omega) (by omega)

/-- the instance: the property that holds for every permutation -/
theorem auto_bisc_true_property_diverges (fuel : Nat) (ch : Choice) :
    autoBiscProp fuel ch (fun _ => true) = .outOfFuel := by
  apply auto_bisc_all_good_diverges
  intro k
  simp [goodOf, length_permsLex]

/-- **(c) the outcomes for a function input.**  For a property given as a function the model of `auto_bisc` has
    exactly two outcomes, whatever the choices: a description that has passed the full check
    (`auto_bisc_returns_checked`), or "still running" - `run_clean_up`'s `max()` of an empty sequence (its only
    error branch) cannot be reached: a learned dictionary that passed line 151 has a pattern, because a checked
    length that is not entirely good has a bad permutation, which must contain a learned pattern. -/
theorem auto_bisc_function_input_outcomes (fuel : Nat) (ch : Choice) (P : NSeq → Bool) :
    (∃ sg, autoBiscProp fuel ch P = .found sg) ∨ autoBiscProp fuel ch P = .outOfFuel := by
  cases h : autoBiscProp fuel ch P with
  | found sg => exact Or.inl ⟨sg, rfl⟩
  | outOfFuel => exact Or.inr rfl
  | err e => exact absurd h (autoOuter_prop_no_err P ch e fuel 8 4 2 (by omega) (by omega))

/-! ### `auto_bisc` on a LIST of permutations and on a PAIR of dictionaries (`Model/C17AutoSrc.lean`) -/

/-- **the function source is the old model**: the generalised driver with `Source.function` is `autoBisc`
    (so every theorem above is a statement about `autoBiscSrc … .function`). -/
theorem auto_bisc_src_function (fuel : Nat) (ch : Choice) (A B : Nat → List NSeq) :
    autoBiscSrc fuel ch .function true A B = (autoBisc fuel ch A B).toSrc := by
  unfold autoBiscSrc autoBisc
  simp only [if_true]
  exact autoOuterS_function A B ch fuel 8 4 2

example : Source.grow .function 8 8 = some 9 ∧ Source.grow .function 8 4 = some 8 := by decide

/-- **(a) a returned description has passed both sanity checks on the data present** - any source: when the model
    returns `sg`, then `8 ∈ A.keys()` held at the start and there is a final `L ≥ 8`, not beyond the keys of `A` and of
    `B`, such that no good permutation of a length `≤ L` contains a pattern of `sg` and every bad permutation of a
    length `≤ L` contains one. -/
theorem auto_bisc_src_returns_checked (fuel : Nat) (ch : Choice) (src : Source) (has8 : Bool)
    (A B : Nat → List NSeq) (sg : PattDict) (h : autoBiscSrc fuel ch src has8 A B = .found sg) :
    has8 = true ∧ ∃ L, 8 ≤ L ∧ L ≤ src.kA L ∧ L ≤ src.kB L ∧
      (∀ k ≤ L, ∀ a ∈ A k, ∀ p ∈ meshesOf sg, containsMesh a p = false) ∧
      (∀ k ≤ L, ∀ b ∈ B k, ∃ p ∈ meshesOf sg, containsMesh b p = true) := by
  unfold autoBiscSrc at h
  cases has8 with
  | false => simp at h
  | true =>
    simp only [if_true] at h
    obtain ⟨L, hL, hv⟩ := autoOuterS_found src A B ch sg fuel 8 4 2 h
    obtain ⟨hb, hg⟩ := (verdictS_accept_iff src A B L sg).mp hv
    obtain ⟨hb1, hb2⟩ := (psBadK_iff' _ _ _ _).mp hb
    obtain ⟨hg1, hg2⟩ := (psGoodK_iff' _ _ _ _).mp hg
    exact ⟨rfl, L, hL, hg1, hb1, (psGood_iff sg A L).mp hg2, (psBad_iff sg B L).mp hb2⟩

example : autoBiscSrc 3 (fun _ _ _ => 0) (.pair 7 9) (decide (8 ≤ 7)) (fun _ => []) (fun _ => []) = .tooShort := by
  simp [autoBiscSrc]

/-- **(a) for a list**: when the model of `auto_bisc(lst)` returns `sg`, a permutation `σ` of length at most 8 avoids
    all mesh patterns of `sg` exactly when it is a member of the list. -/
theorem auto_bisc_list_sound (fuel : Nat) (ch : Choice) (lst : List NSeq) (sg : PattDict)
    (h : autoBiscList fuel ch lst = .found sg) (σ : NSeq) (hσ : IsPerm σ) (hlen : σ.length ≤ 8) :
    (∀ p ∈ meshesOf sg, containsMesh σ p = false) ↔ σ ∈ lst := by
  obtain ⟨_, L, hL, _, _, hg, hb⟩ := auto_bisc_src_returns_checked _ _ _ _ _ _ sg h
  have hmem : σ ∈ permsLex σ.length := (permsLex_exact _ σ).mpr ⟨hσ, rfl⟩
  constructor
  · intro hav
    by_cases hin : σ ∈ lst
    · exact hin
    · exfalso
      have hB : σ ∈ listB lst σ.length := (mem_listB lst _ σ).mpr ⟨hmem, fun h => hin h.1⟩
      obtain ⟨p, hp, hc⟩ := hb σ.length (by omega) σ hB
      rw [hav p hp] at hc; cases hc
  · intro hin p hp
    exact hg σ.length (by omega) σ ((mem_listA lst _ σ).mpr ⟨hin, rfl⟩) p hp

example : autoBiscList 3 (fun _ _ _ => 0) [[0], [0, 1]] = .tooShort := by simp [autoBiscList, autoBiscSrc]

/-- **(a) for a pair of dictionaries** with the keys `0 … maxA`, `0 … maxB`: a description is only returned when both
    dictionaries reach length 8, and it has passed both checks on every length `≤ 8`. -/
theorem auto_bisc_pair_returns_checked (fuel : Nat) (ch : Choice) (maxA maxB : Nat) (A B : Nat → List NSeq)
    (sg : PattDict) (h : autoBiscPair fuel ch maxA maxB A B = .found sg) :
    8 ≤ maxA ∧ 8 ≤ maxB ∧
      (∀ k ≤ 8, ∀ a ∈ A k, ∀ p ∈ meshesOf sg, containsMesh a p = false) ∧
      (∀ k ≤ 8, ∀ b ∈ B k, ∃ p ∈ meshesOf sg, containsMesh b p = true) := by
  obtain ⟨_, L, hL, hA, hB, hg, hb⟩ := auto_bisc_src_returns_checked _ _ _ _ _ _ sg h
  have hA' : L ≤ maxA := hA
  have hB' : L ≤ maxB := hB
  exact ⟨by omega, by omega, fun k hk => hg k (by omega), fun k hk => hb k (by omega)⟩

example : autoBiscPair 3 (fun _ _ _ => 0) 7 8 (fun _ => []) (fun _ => []) = .tooShort := by
  simp [autoBiscPair, autoBiscSrc]

/-- **(b) the outcomes**, any source: a description (checked: `auto_bisc_src_returns_checked`); `None` from the initial
    exit, exactly when 8 is not a key of `A`; `None` from the growth step ("longer list / dictionaries"), which needs
    a list or a pair; the loop still running; or an exception of `run_clean_up`. -/
theorem auto_bisc_src_outcomes (fuel : Nat) (ch : Choice) (src : Source) (has8 : Bool) (A B : Nat → List NSeq) :
    (∃ sg, autoBiscSrc fuel ch src has8 A B = .found sg) ∨
    (autoBiscSrc fuel ch src has8 A B = .tooShort ∧ has8 = false) ∨
    (autoBiscSrc fuel ch src has8 A B = .needLonger ∧ has8 = true ∧ src ≠ .function) ∨
    autoBiscSrc fuel ch src has8 A B = .outOfFuel ∨ (∃ e, autoBiscSrc fuel ch src has8 A B = .err e) := by
  cases has8 with
  | false => exact Or.inr (Or.inl ⟨by simp [autoBiscSrc], rfl⟩)
  | true =>
    have hu : autoBiscSrc fuel ch src true A B = autoOuterS src A B ch fuel 8 4 2 := by simp [autoBiscSrc]
    rw [hu]
    cases h : autoOuterS src A B ch fuel 8 4 2 with
    | found sg => exact Or.inl ⟨sg, rfl⟩
    | tooShort => exact absurd h (autoOuterS_ne_tooShort src A B ch fuel 8 4 2)
    | needLonger =>
      refine Or.inr (Or.inr (Or.inl ⟨rfl, rfl, fun hs => ?_⟩))
      subst hs
      exact (autoOuterS_function_ne_none A B ch fuel 8 4 2).1 h
    | outOfFuel => exact Or.inr (Or.inr (Or.inr (Or.inl rfl)))
    | err e => exact Or.inr (Or.inr (Or.inr (Or.inr ⟨e, rfl⟩)))

example : Source.grow (.list 8) 8 8 = none ∧ Source.grow (.pair 9 8) 8 8 = none ∧
    Source.grow (.list 9) 8 8 = some 9 := by decide

/-- **(c) list = function while `L` stays within the list.**  For dictionaries `A`, `B` and the list source with
    `max(A.keys()) = N ≥ 8`: when the run does not end with the "longer list" exit, its result is the result of the
    function source on the same dictionaries (same fuel, same choices). -/
theorem auto_bisc_list_agrees_with_function (fuel : Nat) (ch : Choice) (N : Nat) (A B : Nat → List NSeq)
    (hN : 8 ≤ N) (hne : autoBiscSrc fuel ch (.list N) true A B ≠ .needLonger) :
    autoBiscSrc fuel ch (.list N) true A B = (autoBisc fuel ch A B).toSrc := by
  have hu : autoBiscSrc fuel ch (.list N) true A B = autoOuterS (.list N) A B ch fuel 8 4 2 := by
    simp [autoBiscSrc]
  rw [hu] at hne ⊢
  rw [autoOuterS_list_eq N A B ch fuel 8 4 2 hN hne, autoOuterS_function]
  rfl

example : Source.grow (.list 12) 8 9 = Source.grow .function 8 9 := by decide


end C17
