import PermutaModel.Lemmas.C05Basis
import PermutaModel.Lemmas.C05MeshBasis
import PermutaModel.Lemmas.C05String
import PermutaModel.Props.C08

/-!
# C05 — a basis is a canonical, minimal, order-independent description of its class

Property theorems only.  `Model.C05.basisNew` mirrors `Basis(*patts)`, `Model.C05.meshBasisNew`
mirrors `MeshBasis(*patts)` (stable sort on the key `(pattern, len(shading), sorted(shading))`, pruning
with the C06 model of `MeshPatt.avoids`), `avNew` mirrors `Av.__new__`.  `Contains` is the property's
notion of classical containment (Spec/Basic); `C05.meshIn p host` is `host._contains(p)` for mesh-type
patterns, which by C06 is sound and complete for "every occurrence of `host` in every permutation
carries an occurrence of `p`" (`meshIn_iff_sem`).

All statements are the full ones: any finite mixture of classical, mesh and bivincular-type patterns,
in any order, with any repetitions.  `ValidM` only says that an argument is an object the constructor
accepts (pattern a permutation, cells inside the grid) in the representation of the model (the
frozenset of cells as its strictly sorted list).
-/
open Model Model.C05 Model.C08 Spec.C05 Generated

namespace C05

/-! ## `Basis` -/

/-- A1: any order of the same multiset of patterns gives the same basis -/
theorem basis_perm_invariant (l₁ l₂ : List NSeq) (h : l₁.Perm l₂) : basisNew l₁ = basisNew l₂ := by
  unfold basisNew
  have he : l₁.isEmpty = l₂.isEmpty := by
    cases l₁ <;> cases l₂ <;> simp_all
  rw [he]
  have : l₁.mergeSort permLe = l₂.mergeSort permLe := by
    apply PySort.sorted_perm_unique permLt_strictTotal
    · exact (List.mergeSort_perm l₁ permLe).trans (h.trans (List.mergeSort_perm l₂ permLe).symm)
    · exact mergeSort_sorted l₁
    · exact mergeSort_sorted l₂
  rw [this]

example : basisNew [[0,1,2],[1,0],[0,1,2],[2,1,0]] = basisNew [[2,1,0],[0,1,2],[0,1,2],[1,0]] :=
  basis_perm_invariant _ _ (by decide)

/-- A1 (any order **and any repetitions**): the basis only depends on the *set* of patterns -/
theorem basis_set_invariant (l₁ l₂ : List NSeq) (hperm : ∀ p ∈ l₁, IsPerm p) (h : ∀ x, x ∈ l₁ ↔ x ∈ l₂) :
    basisNew l₁ = basisNew l₂ :=
  isBasisOf_unique (basisNew_isBasisOf l₁ hperm)
    (basisNew_isBasisOf l₂ (fun p hp => hperm p ((h p).mpr hp))) h hperm

/-- repeating the whole input changes nothing -/
theorem basis_dedup (l : List NSeq) (hperm : ∀ p ∈ l, IsPerm p) : basisNew (l ++ l) = basisNew l :=
  basis_set_invariant (l ++ l) l (by intro p hp; simp at hp; exact hperm p hp) (by intro x; simp)

/-- A2: the basis defines the same avoidance class as the input -/
theorem basis_same_class (l : List NSeq) (hperm : ∀ p ∈ l, IsPerm p) : SameClass (basisNew l) l := by
  have hb := basisNew_isBasisOf l hperm
  intro σ _
  constructor
  · intro hav x hx hc
    obtain ⟨b, hb1, hb2⟩ := hb.cover x hx
    exact hav b hb1 (hc.trans hb2)
  · intro hav b hb1
    exact hav b (hb.sub b hb1)

/-- A3: no element of the basis contains another one; the elements come from the input and are
    listed in strictly increasing `(length, lexicographic)` order -/
theorem basis_antichain (l : List NSeq) (hperm : ∀ p ∈ l, IsPerm p) :
    Antichain (basisNew l) ∧ (∀ x ∈ basisNew l, x ∈ l) ∧
      (basisNew l).Pairwise (fun a b => permLt a b = true) :=
  let hb := basisNew_isBasisOf l hperm
  ⟨hb.anti, hb.sub, hb.sorted⟩

/-- the basis is exactly the set of containment-minimal patterns of the input -/
theorem basis_minimal_elements (l : List NSeq) (hperm : ∀ p ∈ l, IsPerm p) (x : NSeq) :
    x ∈ basisNew l ↔ x ∈ l ∧ ∀ y ∈ l, Contains x y → y = x := by
  have hb := basisNew_isBasisOf l hperm
  constructor
  · intro hx
    refine ⟨hb.sub x hx, ?_⟩
    intro y hy hc
    obtain ⟨b, hb1, hb2⟩ := hb.cover y hy
    have hxb : Contains x b := hc.trans hb2
    have : x = b := by
      by_contra hne
      have hget := List.pairwise_iff_getElem.mp hb.anti
      obtain ⟨i, hi, rfl⟩ := List.getElem_of_mem hx
      obtain ⟨j, hj, rfl⟩ := List.getElem_of_mem hb1
      rcases Nat.lt_trichotomy i j with hij | hij | hij
      · exact (hget i j hi hj hij).1 hxb
      · subst hij; exact hne rfl
      · exact (hget j i hj hi hij).2 hxb
    subst this
    exact (hc.antisymm hb2 (hperm _ (hb.sub _ hx)) (hperm y hy)).symm
  · rintro ⟨hx, hmin⟩
    obtain ⟨b, hb1, hb2⟩ := hb.cover x hx
    have := hmin b (hb.sub b hb1) hb2
    exact this ▸ hb1

/-- A4: the basis is a fixed point of the construction -/
theorem basis_fixed_point (l : List NSeq) (hperm : ∀ p ∈ l, IsPerm p) :
    basisNew (basisNew l) = basisNew l := by
  have hb := basisNew_isBasisOf l hperm
  have hperm' : ∀ p ∈ basisNew l, IsPerm p := fun p hp => hperm p (hb.sub p hp)
  have h1 := basisNew_isBasisOf (basisNew l) hperm'
  have h2 : IsBasisOf (basisNew l) (basisNew l) :=
    ⟨fun _ hx => hx, hb.anti, fun x hx => ⟨x, hx, Contains.refl x⟩, hb.sorted⟩
  exact isBasisOf_unique h1 h2 (fun _ => Iff.rfl) hperm'

/-- non-vacuity of the hypotheses and a non-trivial instance: `{012, 10, 012, 2103}` has basis `{10, 012}` -/
example : (∀ p ∈ [[0,1,2],[1,0],[0,1,2],[2,1,0,3]], IsPerm p) := by decide

/-- A5: a basis parsed from text is the same whether the digits are 0-based or 1-based
    (digit runs level: adding one to every digit) -/
theorem from_string_base_independent (gs : List (List Nat)) :
    basisOfGroups (gs.map (·.map (· + 1))) = basisOfGroups gs := by
  unfold basisOfGroups
  rw [List.map_map]
  congr 1
  apply List.map_congr_left
  intro g _
  exact standardize_shift g

/-- A5 on the text itself: replacing every digit `d ≤ 8` by `d+1` does not change `Basis.from_string` -/
theorem from_string_shift (s : String) (h9 : ∀ c ∈ s.toList, c ≠ '9') :
    basisFromString (shiftString s) = basisFromString s := by
  unfold basisFromString shiftString
  rw [String.toList_ofList, digitGroups_shift s.toList h9]
  exact from_string_base_independent _

example : digitGroups ['0','1','2','_','2','1','0'] = [[0,1,2],[2,1,0]] ∧
    digitGroups ['(','1','2','3',')',',','3','2','1'] = [[1,2,3],[3,2,1]] ∧
    ['0','1','2','_','2','1','0'].map shiftChar = ['1','2','3','_','3','2','1'] := by decide

/-! ## `Av`: forbidden bases and instance sharing -/

/-- the empty basis and the basis `{ε}` are rejected with `ValueError` -/
theorem av_forbidden (st : AvState) :
    avNew st (.basis []) = .error .valueError ∧ avNew st (.basis [[]]) = .error .valueError ∧
    avNew st (.mbasis []) = .error .valueError := by
  refine ⟨rfl, ?_, rfl⟩
  unfold avNew avForbidden
  rw [C08.cmp_eq_basis]
  rfl

/-- a basis used as cache key is always found again -/
theorem lookupAlways_self (b : Obj) (hb : C08.Obj.WF b) : lookupAlways b b false = true := by
  have hs : supported b b = true := by cases b <;> rfl
  exact C08.lookup_equal_found b b hb hb hs (C08.eq_equivalence.1 b hb)

/-- A6: building the class of a basis again – any `Basis`, any `MeshBasis`, whatever the classes of its
    patterns – returns the same instance and leaves the cache unchanged -/
theorem av_same_object (st : AvState) (b : Obj) (hb : C08.Obj.WF b)
    (st₁ : AvState) (i : Nat) (h : avNew st b = .ok (st₁, i)) : avNew st₁ b = .ok (st₁, i) := by
  have hself := lookupAlways_self b hb
  unfold avNew at h ⊢
  by_cases hf : avForbidden b = true
  · simp [hf] at h
  · simp only [hf, if_false, Bool.false_eq_true] at h ⊢
    cases hg : cacheGet st.cache b with
    | some j =>
      simp only [hg] at h
      injection h with h
      injection h with h1 h2
      subst h1 h2
      simp [hg]
    | none =>
      simp only [hg] at h
      injection h with h
      injection h with h1 h2
      subst h1 h2
      have : cacheGet (st.cache ++ [(b, st.next)]) b = some st.next := by
        unfold cacheGet at hg ⊢
        cases hfind : st.cache.find? (fun kv => lookupAlways kv.1 b false) with
        | some kv => simp [hfind] at hg
        | none =>
          rw [List.find?_append, hfind]
          simp [hself]
      simp [this]

/-- A6 end to end: two collections of classical patterns with the same members (any order, any
    repetitions) denote the **same class object** – the second construction returns the instance
    created by the first -/
theorem av_equal_inputs_same_object (l₁ l₂ : List NSeq) (hperm : ∀ p ∈ l₁, IsPerm p)
    (h : ∀ x, x ∈ l₁ ↔ x ∈ l₂) (hok : avForbidden (.basis (basisNew l₁)) = false) :
    avRun AvState.empty [.ofList (l₁.map Atom.perm), .ofList (l₂.map Atom.perm)] = [.inst 0, .inst 0] := by
  have hb : ∀ l : List NSeq, avBasisOf (l.map Atom.perm) = .ok (.basis (basisNew l)) := by
    intro l
    have h1 : (l.map Atom.perm).any isMeshAtom = false := by
      rw [List.any_eq_false]; intro a ha; obtain ⟨p, _, rfl⟩ := List.mem_map.mp ha; simp [isMeshAtom]
    have h2 : (l.map Atom.perm).map atomPerm = l := by simp [Function.comp_def, atomPerm]
    simp [avBasisOf, h1, h2]
  have heq : basisNew l₂ = basisNew l₁ := (basis_set_invariant l₁ l₂ hperm h).symm
  have hfirst : avNew AvState.empty (.basis (basisNew l₁)) =
      .ok (⟨[(.basis (basisNew l₁), 0)], 1⟩, 0) := by
    simp [avNew, hok, AvState.empty, cacheGet]
  have hsecond := av_same_object AvState.empty (.basis (basisNew l₁)) trivial _ _ hfirst
  simp only [avRun, avStep, hb, heq, hfirst, hsecond]

/-- non-vacuity: ordinary bases pass the forbidden-basis check -/
example : avForbidden (.basis [[0,1]]) = false ∧ avForbidden (.basis [[0,1,2],[2,1,0]]) = false := by
  constructor <;> simp [avForbidden, C08.cmp_eq_basis]

/-- regression of a repaired defect: `Av([v]) is Av([v])` for a vincular `v` -/
example : avRun AvState.empty [.ofList [.mesh ⟨.VincularPatt, [0,1], [(1,0),(1,1),(1,2)]⟩],
      .ofList [.mesh ⟨.VincularPatt, [0,1], [(1,0),(1,1),(1,2)]⟩], .clear,
      .ofList [.mesh ⟨.VincularPatt, [0,1], [(1,0),(1,1),(1,2)]⟩]] = [.inst 0, .inst 0, .cleared, .inst 1] := by
  decide

/-! ## `MeshBasis` -/

/-- building a `MeshBasis` from valid patterns of any classes never raises -/
theorem meshbasis_total (l : List Atom) (hv : ∀ a ∈ l, ValidM (wrap a)) : ∃ R, meshBasisNew l = .ok R :=
  let ⟨R, h, _⟩ := meshBasisNew_isMBasisOf l hv
  ⟨R, h⟩

/-- A7: **any order and any repetitions** of the same patterns – classical, mesh or bivincular-type,
    where objects with the same pattern and shading count as the same pattern whatever their class –
    give the same basis (the same patterns in the same order) -/
theorem meshbasis_set_invariant (l₁ l₂ : List Atom) (hv : ∀ a ∈ l₁, ValidM (wrap a))
    (hv₂ : ∀ a ∈ l₂, ValidM (wrap a))
    (h : ∀ v, v ∈ (l₁.map wrap).map meshVal ↔ v ∈ (l₂.map wrap).map meshVal) :
    ∃ R₁ R₂, meshBasisNew l₁ = .ok R₁ ∧ meshBasisNew l₂ = .ok R₂ ∧ R₁.map meshVal = R₂.map meshVal := by
  obtain ⟨R₁, e1, b1⟩ := meshBasisNew_isMBasisOf l₁ hv
  obtain ⟨R₂, e2, b2⟩ := meshBasisNew_isMBasisOf l₂ hv₂
  refine ⟨R₁, R₂, e1, e2, isMBasisOf_unique b1 b2 ?_ ?_ h⟩
  · intro x hx; obtain ⟨a, ha, rfl⟩ := List.mem_map.mp hx; exact hv a ha
  · intro x hx; obtain ⟨a, ha, rfl⟩ := List.mem_map.mp hx; exact hv₂ a ha

/-- order independence -/
theorem meshbasis_perm_invariant (l₁ l₂ : List Atom) (hv : ∀ a ∈ l₁, ValidM (wrap a)) (h : l₁.Perm l₂) :
    ∃ R₁ R₂, meshBasisNew l₁ = .ok R₁ ∧ meshBasisNew l₂ = .ok R₂ ∧ R₁.map meshVal = R₂.map meshVal :=
  meshbasis_set_invariant l₁ l₂ hv (fun a ha => hv a (h.mem_iff.mpr ha))
    (fun v => ((h.map wrap).map meshVal).mem_iff)

/-- repeating the input changes nothing -/
theorem meshbasis_dedup (l : List Atom) (hv : ∀ a ∈ l, ValidM (wrap a)) :
    ∃ R₁ R₂, meshBasisNew (l ++ l) = .ok R₁ ∧ meshBasisNew l = .ok R₂ ∧ R₁.map meshVal = R₂.map meshVal :=
  meshbasis_set_invariant (l ++ l) l (by intro a ha; simp at ha; exact hv a ha) hv (by intro v; simp)

/-- A7: the result consists of input patterns, no element is contained in another one, and every input
    pattern contains an element of the result -/
theorem meshbasis_antichain (l : List Atom) (hv : ∀ a ∈ l, ValidM (wrap a)) :
    ∃ R, meshBasisNew l = .ok R ∧ (∀ x ∈ R, x ∈ l.map wrap) ∧
      R.Pairwise (fun q p => meshIn q p = false ∧ meshIn p q = false) ∧
      (∀ a ∈ l, ∃ q ∈ R, meshIn q (wrap a) = true) :=
  let ⟨R, h, b⟩ := meshBasisNew_isMBasisOf l hv
  ⟨R, h, b.sub, b.anti, fun a ha => b.cover _ (List.mem_map_of_mem (f := wrap) ha)⟩

/-- A7: the result is a fixed point of the construction (the very same objects) -/
theorem meshbasis_fixed_point (l : List Atom) (hv : ∀ a ∈ l, ValidM (wrap a)) (R : List MObj)
    (hR : meshBasisNew l = .ok R) : meshBasisNew (R.map Atom.mesh) = .ok R := by
  obtain ⟨R', e, b⟩ := meshBasisNew_isMBasisOf l hv
  rw [hR] at e
  injection e with e
  subst e
  have hwrap : (R.map Atom.mesh).map wrap = R := by simp [Function.comp_def, wrap]
  have hvR : ∀ x ∈ R, ValidM x := by
    intro x hx; obtain ⟨a, ha, rfl⟩ := List.mem_map.mp (b.sub x hx); exact hv a ha
  have hvR' : ∀ a ∈ R.map Atom.mesh, ValidM (wrap a) := by
    intro a ha; obtain ⟨x, hx, rfl⟩ := List.mem_map.mp ha; exact hvR x hx
  obtain ⟨s, hp, hs, he⟩ := meshBasisNew_ok (R.map Atom.mesh) hvR'
  rw [hwrap] at hp
  -- R is strictly key-sorted: its sorted arrangement is R itself
  have hsR : s = R := by
    apply PySort.sorted_perm_unique_on (r := meshKey2Lt) s R hp _ hs
      (b.sorted.imp (fun hab => meshKey2Lt_strictWeak.asymm hab))
    intro x hx y hy
    have hx' := hp.mem_iff.mp hx
    have hy' := hp.mem_iff.mp hy
    have hget := List.pairwise_iff_getElem.mp b.sorted
    obtain ⟨i, hi, rfl⟩ := List.getElem_of_mem hx'
    obtain ⟨j, hj, rfl⟩ := List.getElem_of_mem hy'
    rcases Nat.lt_trichotomy i j with hij | hij | hij
    · exact Or.inl (hget i j hi hj hij)
    · subst hij; exact Or.inr (Or.inl rfl)
    · exact Or.inr (Or.inr (hget j i hj hi hij))
  rw [he, hsR]
  congr 1
  cases hRR : R with
  | nil => rfl
  | cons r0 rs =>
    simp only [mpruner]
    split
    · rename_i h0
      -- the empty unshaded pattern is contained in everything: an antichain containing it is a singleton
      have hval : meshVal r0 = ([], []) := by
        simp only [meshVal]; exact Prod.ext (List.eq_nil_of_length_eq_zero h0.1) h0.2
      cases rs with
      | nil => rfl
      | cons r1 rt =>
        exfalso
        have hanti := b.anti
        rw [hRR] at hanti
        have := ((List.pairwise_cons.mp hanti).1 r1 (List.mem_cons_self ..)).1
        rw [meshIn_empty r0 r1 hval (hvR r1 (by rw [hRR]; simp))] at this
        exact absurd this (by decide)
    · have := mprunerGo_id (r0 :: rs) [] (by rw [← hRR]; simpa using b.anti.imp (fun h => h.1))
      simpa using this

/-- what "contained" means in the statements above (C06 soundness + completeness): `meshIn p host` holds
    iff some in-range index tuple `c` of `host` carries, for every occurrence of `host` in every
    permutation, an occurrence of `p` on the corresponding points -/
theorem meshIn_semantics (p host : MObj) (hp : ValidM p) (hh : ValidM host) :
    meshIn p host = true ↔ ∃ c, (∀ j ∈ c, j < host.pattern.length) ∧
      ∀ σ d, IsPerm σ → MeshOcc (toMesh host) σ d → MeshOcc (toMesh p) σ (Spec.compose d c) :=
  meshIn_iff_sem p host hp hh

/-- A7: **the result defines the same avoidance class as the input** (occurrences of mesh patterns in
    permutations as modelled and proved exact in C03; the transfer of containment is C06's soundness theorem) -/
theorem meshbasis_same_class (l : List Atom) (hv : ∀ a ∈ l, ValidM (wrap a)) (R : List MObj)
    (hR : meshBasisNew l = .ok R) (σ : NSeq) (hσ : IsPerm σ) :
    (∀ m ∈ R, containsMesh σ (toMesh m) = false) ↔ (∀ a ∈ l, containsMesh σ (toMesh (wrap a)) = false) := by
  obtain ⟨R', e, b⟩ := meshBasisNew_isMBasisOf l hv
  rw [hR] at e
  injection e with e
  subst e
  constructor
  · intro hav a ha
    obtain ⟨q, hq, hqa⟩ := b.cover (wrap a) (List.mem_map_of_mem (f := wrap) ha)
    cases hcm : containsMesh σ (toMesh (wrap a)) with
    | false => rfl
    | true =>
      have hqv : ValidM q := by
        obtain ⟨a', ha', e⟩ := List.mem_map.mp (b.sub q hq); exact e ▸ hv a' ha'
      have hE : meshInMeshE q (wrap a) = .ok true := by
        rw [meshInMeshE_ok q (wrap a) hqv.perm (hv a ha).perm, hqa]
      have := C06.meshContains_sound_model (toMesh q) (toMesh (wrap a)) hqv.perm (hv a ha).perm hE σ hσ hcm
      rw [hav q hq] at this
      exact absurd this (by decide)
  · intro hav m hm
    obtain ⟨a, ha, rfl⟩ := List.mem_map.mp (b.sub m hm)
    exact hav a ha

/-- non-vacuity: a mixed input of four classes satisfies the hypotheses -/
example : ∀ a ∈ [Atom.perm [1,0], .mesh ⟨.MeshPatt, [0,1], [(1,1)]⟩, .mesh ⟨.VincularPatt, [0,1], [(1,0),(1,1),(1,2)]⟩,
    .mesh ⟨.CovincularPatt, [0,1], [(0,1),(1,1),(2,1)]⟩], ValidM (wrap a) := by
  intro a ha
  simp only [List.mem_cons, List.not_mem_nil, or_false] at ha
  rcases ha with rfl | rfl | rfl | rfl <;>
    exact ⟨by decide, by decide, by decide⟩

/-- regressions of repaired defects (evaluated on the model): `MeshBasis(v, c)` and `MeshBasis(m, b)` no longer
    raise; the sort puts the sub-shading first -/
example : meshSort [⟨.MeshPatt, [0,1], [(0,0),(1,1)]⟩, ⟨.MeshPatt, [0,1], [(1,1)]⟩] =
      .ok [⟨.MeshPatt, [0,1], [(1,1)]⟩, ⟨.MeshPatt, [0,1], [(0,0),(1,1)]⟩] ∧
    (∃ s, meshSort [⟨.VincularPatt, [0,1], [(1,0),(1,1),(1,2)]⟩, ⟨.CovincularPatt, [0,1], [(0,1),(1,1),(2,1)]⟩] = .ok s) := by
  exact ⟨by decide, ⟨_, rfl⟩⟩

end C05
