import PermutaModel.Lemmas.C19Find
import PermutaModel.Lemmas.C19Sym
import PermutaModel.Lemmas.C19Shapes
import PermutaModel.Props.C13

/-!
# C19 — reported enumeration strategies follow their stated conditions

Property theorems only (helpers: `Lemmas/C19Contain.lean`, `Lemmas/C19Core.lean`, `Lemmas/C19Shape.lean`,
`Lemmas/C19Shapes.lean`).
`Model.C19.*` mirrors `permuta/enumeration_strategies/*.py`; the strategy names, their
`patterns_needed` and the three strategy lists are the tables regenerated from the source
(`Generated.coreStrategies`, `fastStrategies`, `longStrategies`, `allStrategies`).
`hfs` is the verdict of `PinWords.has_finite_simples` (property C16), an opaque input here.
-/
open Model.C13 Model.C19 Spec.C19
open Proto (Err)

namespace C19

/-- the model's strategy names and `patterns_needed` are the ones in the source (regenerated table) -/
theorem strategy_table :
    Strat.all.map (fun s => (s.name, s.needed)) = Generated.coreStrategies ∧
    Generated.fastStrategies = "InsertionEncodingStrategy" :: Strat.all.map Strat.name ∧
    Generated.longStrategies = ["FinitelyManySimplesStrategy"] ∧
    Generated.allStrategies = Generated.fastStrategies ++ Generated.longStrategies ∧
    Generated.findStrategiesLong = Generated.allStrategies ∧
    Generated.findStrategiesQuick = Generated.fastStrategies := by decide

/-- **A1, one image**: `_applies_to_symmetry(b)` is `True` exactly when the needed patterns are excluded
    from the class and every other basis element has the prescribed shape -/
theorem appliesToSym_iff (s : Strat) (b : List NSeq) (hb : ∀ q ∈ b, IsPerm q ∧ q ≠ []) :
    appliesToSym s b = .ok true ↔ Holds s b := by
  by_cases hne : b = []
  · subst hne
    unfold appliesToSym Holds
    rw [avBasis_nil]
    obtain ⟨p, hp⟩ := List.exists_mem_of_ne_nil _ (needed_ne_nil s)
    constructor
    · intro h; cases h
    · rintro ⟨h, _⟩; obtain ⟨q, hq, _⟩ := h p hp; simp at hq
  · unfold appliesToSym Holds
    rw [avBasis_ok b hne hb]
    simp only
    have hvalid : allValid s.valid (b.filter fun q => !s.needed.contains q) = .ok true ↔
        ∀ q ∈ b, q ∉ s.needed → s.valid q = .ok true := by
      rw [allValid_true_iff]
      simp only [List.mem_filter, Bool.not_eq_true', List.contains_eq_mem, decide_eq_false_iff_not, and_imp]
    have hcont : (s.needed.all fun p => !Model.avoidsAll p (basisOf b)) = true ↔
        ∀ p ∈ s.needed, ∃ q ∈ b, Contains p q := by
      rw [List.all_eq_true]
      exact forall₂_congr fun p hp => not_in_class_iff b hb p (needed_isPerm s p hp)
    cases hv : allValid s.valid (b.filter fun q => !s.needed.contains q) with
    | error e =>
      rw [hv] at hvalid
      constructor
      · intro h; cases h
      · rintro ⟨_, h2⟩; exact absurd (hvalid.mpr h2) (by simp)
    | ok ext =>
      rw [hv] at hvalid
      simp only [Except.ok.injEq, Bool.and_eq_true]
      rw [hcont, ← hvalid]
      simp only [Except.ok.injEq]

/-- **A5, totality**: no exception for any non-empty basis of non-empty permutations (the domain on which
    `Av` itself is defined) -/
theorem coreApplies_total (s : Strat) (B : List NSeq) (hne : B ≠ []) (hB : ∀ q ∈ B, Good q) :
    ∃ v, coreApplies s B = .ok v := by
  obtain ⟨v, hv, _⟩ := anySym_ok (appliesToSym s) (symSets B.eraseDups) fun b hb =>
    appliesToSym_ok s b (symSets_ne_nil (eraseDups_ne_nil hne) b hb) (good_symSets (good_eraseDups hB) b hb)
  exact ⟨v, hv⟩

/-- **A1**: a core strategy is reported exactly when its hypothesis holds for the basis or one of its
    symmetric images (the eight sets of `all_symmetry_sets`) -/
theorem coreApplies_iff (s : Strat) (B : List NSeq) (hne : B ≠ []) (hB : ∀ q ∈ B, Good q) :
    coreApplies s B = .ok true ↔ ∃ b ∈ symSets B, Holds s b := by
  have hgood := good_symSets (good_eraseDups hB)
  obtain ⟨v, hv, hiff⟩ := anySym_ok (appliesToSym s) (symSets B.eraseDups) fun b hb =>
    appliesToSym_ok s b (symSets_ne_nil (eraseDups_ne_nil hne) b hb) (hgood b hb)
  unfold coreApplies
  rw [hv, Except.ok.injEq, hiff]
  have h1 : (∃ b ∈ symSets B.eraseDups, appliesToSym s b = .ok true) ↔ ∃ b ∈ symSets B.eraseDups, Holds s b := by
    refine exists_congr fun b => and_congr_right fun hb => appliesToSym_iff s b fun q hq => ?_
    have := hgood b hb q hq
    exact ⟨this.1, fun e => by have h2 := this.2; rw [e] at h2; simp at h2⟩
  rw [h1]
  exact exists_forall₂ (symSets_mem_congr fun p => List.mem_eraseDups) fun a b hab => holds_congr s hab

/-- **A2 (order / repetition)**: a core strategy's answer depends only on which permutations the basis
    contains -/
theorem coreApplies_of_mem_iff (s : Strat) (B B' : List NSeq) (hB : ∀ q ∈ B, Good q)
    (h : ∀ p, p ∈ B ↔ p ∈ B') : coreApplies s B = coreApplies s B' := by
  by_cases hne : B = []
  · have : B' = [] := by
      cases B' with
      | nil => rfl
      | cons x t => have := (h x).mpr (List.mem_cons_self ..); rw [hne] at this; simp at this
    rw [hne, this]
  have hne' : B' ≠ [] := by
    obtain ⟨q, hq⟩ := List.exists_mem_of_ne_nil B hne
    intro e; have := (h q).mp hq; rw [e] at this; simp at this
  have hB' : ∀ q ∈ B', Good q := fun q hq => hB q ((h q).mpr hq)
  obtain ⟨v, hv⟩ := coreApplies_total s B hne hB
  obtain ⟨v', hv'⟩ := coreApplies_total s B' hne' hB'
  have i1 := coreApplies_iff s B hne hB
  have i2 := coreApplies_iff s B' hne' hB'
  have i3 : (∃ b ∈ symSets B, Holds s b) ↔ ∃ b ∈ symSets B', Holds s b :=
    exists_forall₂ (symSets_mem_congr h) fun a b hab => holds_congr s hab
  rw [hv, hv']
  rw [hv] at i1; rw [hv'] at i2
  simp only [Except.ok.injEq] at i1 i2
  congr 1
  rw [Bool.eq_iff_iff, i1, i2, i3]

/-! ## A1 — the shape tests against their definitions -/

/-- `Perm.is_sum_decomposable` ⇔ the permutation is a direct sum of two non-empty permutations -/
theorem isSumDecomposable_iff_def (q : NSeq) (hq : IsPerm q) :
    isSumDecomposable q = true ↔ SumDecomposable q := isSumDecomposable_iff q hq

/-- `Perm.is_skew_decomposable` ⇔ the permutation is a skew sum of two non-empty permutations -/
theorem isSkewDecomposable_iff_def (q : NSeq) (hq : IsPerm q) :
    isSkewDecomposable q = true ↔ SkewDecomposable q := isSkewDecomposable_iff q hq

/-- `zero_plus_sumind p` (shape of RdCd; of RdCdCu / RdCu after `bstrip`) ⇔ `p = 1 ⊕ q`, `q` sum-indecomposable -/
theorem zeroPlusSumind_iff_def (p : NSeq) (hp : IsPerm p) :
    zeroPlusSumind p = .ok true ↔ ∃ q, IsPerm q ∧ p = Model.directSum [0] q ∧ ¬ SumDecomposable q :=
  zeroPlusSumind_iff p hp

/-- `zero_plus_skewind p` (shape of RuCu, RuCuCd, RdCu) ⇔ `p = 1 ⊕ q`, `q` skew-indecomposable -/
theorem zeroPlusSkewind_iff_def (p : NSeq) (hp : IsPerm p) :
    zeroPlusSkewind p = .ok true ↔ ∃ q, IsPerm q ∧ p = Model.directSum [0] q ∧ ¬ SkewDecomposable q :=
  zeroPlusSkewind_iff p hp

/-- `zero_plus_perm p` (shape of RuCuRdCd) ⇔ `p = 1 ⊕ q` -/
theorem zeroPlusPerm_iff_def (p : NSeq) (hp : IsPerm p) :
    zeroPlusPerm p = .ok true ↔ ∃ q, IsPerm q ∧ p = Model.directSum [0] q := zeroPlusPerm_iff p hp

/-- `Rd2134CoreStrategy.is_valid_extension` ⇔ `p = 1 ⊕ q`, `q` avoids the mesh pattern `(10, M)`, and the last
    sum component of `q` is not decreasing or has length one -/
theorem validRd2134_iff_def (p : NSeq) (hp : IsPerm p) :
    Strat.valid .rd2134 p = .ok true ↔ ∃ q, IsPerm q ∧ p = Model.directSum [0] q ∧
      Model.containsMesh q ⟨[1, 0], mShading⟩ = false ∧
      ∃ lc, lastSumComponent q = .ok lc ∧ (Model.avoidsAll lc [[0, 1]] = false ∨ lc.length = 1) :=
  validRd2134_iff p hp

/-- `Ru2143CoreStrategy.is_valid_extension` ⇔ `p = 1 ⊕ q` (**the leading one is required**), `q` avoids the mesh
    pattern `(01, M)`, and the last skew component of `q` is not increasing -/
theorem validRu2143_iff_def (p : NSeq) (hp : IsPerm p) :
    Strat.valid .ru2143 p = .ok true ↔ ∃ q, IsPerm q ∧ p = Model.directSum [0] q ∧
      Model.containsMesh q ⟨[0, 1], mShading⟩ = false ∧
      ∃ lc, lastSkewComponent q = .ok lc ∧ Model.avoidsAll lc [[1, 0]] = false :=
  validRu2143_iff p hp

example : Strat.valid .ru2143 [1, 0, 2] = .ok false ∧ Strat.valid .ru2143 [0] = .ok false := ⟨rfl, rfl⟩

example : SumDecomposable [1, 0, 2] ∧ ¬ SumDecomposable [2, 0, 1] ∧ zeroPlusSumind [0, 3, 1, 2] = .ok true :=
  ⟨⟨[1, 0], [0], by decide, by decide, by decide, by decide, by decide⟩,
   fun h => by rw [← isSumDecomposable_iff [2, 0, 1] (by decide)] at h; exact absurd h (by decide), rfl⟩

/-! ## A1 — the remaining shape tests against index-free definitions, for every length

`bstrip` (RdCdCu, RdCu), the two mesh patterns `_M_PATT` and the last sum / skew component (Rd2134, Ru2143).
Vocabulary (`Lemmas/C19Shapes.lean`): `HasFactor q u v` – `u v` is a consecutive factor of `q`;
`IsLastSumComponent q c` – `q = a ⊕ c` with `c` non-empty and sum-indecomposable; `IsLastSkewComponent` alike;
`Shape s p` – the prescribed form of an extra basis element of strategy `s`. -/

/-- `bstrip p` is `r` when `p = r ⊕ 1`, and `p` itself when `p` is not of that form -/
theorem bstrip_iff_def (p : NSeq) (hp : IsPerm p) (hne : p ≠ []) (r : NSeq) :
    bstrip p = .ok r ↔
      (IsPerm r ∧ p = Model.directSum r [0]) ∨ (r = p ∧ ¬ ∃ r', p = Model.directSum r' [0]) :=
  bstrip_iff p hp hne r

example : bstrip [1, 0, 2] = .ok [1, 0] ∧ [1, 0, 2] = Model.directSum [1, 0] [0] ∧
    bstrip [0, 2, 1] = .ok [0, 2, 1] ∧ bstrip [] = .error .assertion := ⟨rfl, rfl, rfl, rfl⟩

/-- **shape of RdCdCu** (`zero_plus_sumind(bstrip(p))`) ⇔ `p = 1 ⊕ q ⊕ 1`, or `p = 1 ⊕ q` with `q` non-empty; `q`
    sum-indecomposable in both cases (the empty `q` is sum-indecomposable: `12 = 1 ⊕ ε ⊕ 1` has the shape,
    `1 = 1 ⊕ ε` has not) -/
theorem validRdCdCu_iff_def (p : NSeq) (hp : IsPerm p) :
    Strat.valid .rdCdCu p = .ok true ↔ ∃ q, IsPerm q ∧ ¬ SumDecomposable q ∧
      (p = Model.directSum (Model.directSum [0] q) [0] ∨ (q ≠ [] ∧ p = Model.directSum [0] q)) :=
  sumindBstrip_iff p hp

/-- non-vacuity: `1324 = 1 ⊕ 21 ⊕ 1`, `1423 = 1 ⊕ 312` and `12` have the shape; `1234` and `1` have not -/
example : Strat.valid .rdCdCu [0, 2, 1, 3] = .ok true ∧ Strat.valid .rdCdCu [0, 3, 1, 2] = .ok true ∧
    Strat.valid .rdCdCu [0, 1] = .ok true ∧ Strat.valid .rdCdCu [0, 1, 2, 3] = .ok false ∧
    Shape .rdCdCu [0, 2, 1, 3] ∧ ¬ Shape .rdCdCu [0, 1, 2, 3] ∧ ¬ Shape .rdCdCu [0] :=
  ⟨rfl, rfl, rfl, rfl, (valid_iff_shape .rdCdCu _ (by decide)).mp rfl,
   fun h => absurd ((valid_iff_shape .rdCdCu _ (by decide)).mpr h) (by decide),
   fun h => absurd ((valid_iff_shape .rdCdCu _ (by decide)).mpr h) (by decide)⟩

/-- **shape of RdCu** (`zero_plus_skewind(p) and zero_plus_sumind(bstrip(p))`) ⇔ `p = 1 ⊕ q` with `q`
    skew-indecomposable, and `p` has the shape of RdCdCu -/
theorem validRdCu_iff_def (p : NSeq) (hp : IsPerm p) :
    Strat.valid .rdCu p = .ok true ↔
      (∃ q, IsPerm q ∧ p = Model.directSum [0] q ∧ ¬ SkewDecomposable q) ∧
      ∃ q, IsPerm q ∧ ¬ SumDecomposable q ∧
        (p = Model.directSum (Model.directSum [0] q) [0] ∨ (q ≠ [] ∧ p = Model.directSum [0] q)) :=
  valid_iff_shape .rdCu p hp

/-- non-vacuity: `1324` has the shape; `1423 = 1 ⊕ (1 ⊖ 12)` fails the first test, `1234` the second -/
example : Strat.valid .rdCu [0, 2, 1, 3] = .ok true ∧ Strat.valid .rdCu [0, 3, 1, 2] = .ok false ∧
    Strat.valid .rdCu [0, 1, 2, 3] = .ok false ∧ Shape .rdCu [0, 2, 1, 3] ∧ ¬ Shape .rdCu [0, 3, 1, 2] :=
  ⟨rfl, rfl, rfl, (valid_iff_shape .rdCu _ (by decide)).mp rfl,
   fun h => absurd ((valid_iff_shape .rdCu _ (by decide)).mpr h) (by decide)⟩

/-- **shape of RdCu, one decomposition**: `p = 1 ⊕ q` with `q` skew-indecomposable and either `q` non-empty
    sum-indecomposable or `q = q' ⊕ 1` with `q'` sum-indecomposable -/
theorem validRdCu_iff_joint (p : NSeq) (hp : IsPerm p) :
    Strat.valid .rdCu p = .ok true ↔ ∃ q, IsPerm q ∧ p = Model.directSum [0] q ∧ ¬ SkewDecomposable q ∧
      ((q ≠ [] ∧ ¬ SumDecomposable q) ∨
        ∃ q', IsPerm q' ∧ q = Model.directSum q' [0] ∧ ¬ SumDecomposable q') := by
  rw [validRdCu_iff_def p hp]
  constructor
  · rintro ⟨⟨q, hq, hpq, hsk⟩, r, hr, hind, h | ⟨hr0, h⟩⟩
    · refine ⟨q, hq, hpq, hsk, Or.inr ⟨r, hr, ?_, hind⟩⟩
      rw [C10L.directSum_assoc] at h
      exact directSum_one_injective (hpq.symm.trans h)
    · have : q = r := directSum_one_injective (hpq.symm.trans h)
      subst this
      exact ⟨q, hq, hpq, hsk, Or.inl ⟨hr0, hind⟩⟩
  · rintro ⟨q, hq, hpq, hsk, ⟨hq0, hind⟩ | ⟨r, hr, hqr, hind⟩⟩
    · exact ⟨⟨q, hq, hpq, hsk⟩, q, hq, hind, Or.inr ⟨hq0, hpq⟩⟩
    · refine ⟨⟨q, hq, hpq, hsk⟩, r, hr, hind, Or.inl ?_⟩
      rw [C10L.directSum_assoc, ← hqr]
      exact hpq

/-- non-vacuity: `1324 = 1 ⊕ 213`, `213 = 21 ⊕ 1` -/
example : ∃ q, IsPerm q ∧ [0, 2, 1, 3] = Model.directSum [0] q ∧ ¬ SkewDecomposable q ∧
    ((q ≠ [] ∧ ¬ SumDecomposable q) ∨ ∃ q', IsPerm q' ∧ q = Model.directSum q' [0] ∧ ¬ SumDecomposable q') :=
  (validRdCu_iff_joint [0, 2, 1, 3] (by decide)).mp rfl

/-- **the mesh condition of Rd2134, box form** (via `C04.containsMesh_iff`: the model's containment test is `MeshContains`): `q`
    contains `_M_PATT = (21, M)` ⇔ there is a descent `q[i] > q[j]`, `i < j`, such that every other point lies
    in the bottom-left or the bottom-right box (left of `i` or right of `j`, and below `q[j]`) -/
theorem meshRd_iff_boxes (q : NSeq) (hq : IsPerm q) :
    Model.containsMesh q ⟨[1, 0], mShading⟩ = true ↔
      ∃ i j, i < j ∧ j < q.length ∧ q.getD j 0 < q.getD i 0 ∧
        ∀ k, k < q.length → k ≠ i → k ≠ j → (k < i ∨ j < k) ∧ q.getD k 0 < q.getD j 0 := by
  rw [C04L.containsMesh_iff (m := ⟨[1, 0], mShading⟩) isPerm_10 hq, meshContains_rd_iff_boxes q hq]

/-- the same for Ru2143: an ascent `q[i] < q[j]` with every other point left of `i` or right of `j`, below `q[i]` -/
theorem meshRu_iff_boxes (q : NSeq) (hq : IsPerm q) :
    Model.containsMesh q ⟨[0, 1], mShading⟩ = true ↔
      ∃ i j, i < j ∧ j < q.length ∧ q.getD i 0 < q.getD j 0 ∧
        ∀ k, k < q.length → k ≠ i → k ≠ j → (k < i ∨ j < k) ∧ q.getD k 0 < q.getD i 0 := by
  rw [C04L.containsMesh_iff (m := ⟨[0, 1], mShading⟩) isPerm_01 hq, meshContains_ru_iff_boxes q hq]

/-- **the mesh condition of Rd2134, position form**: `q` contains `(21, M)` ⇔ the maximum is immediately followed
    by the second largest value -/
theorem meshRd_iff_adjacent (q : NSeq) (hq : IsPerm q) :
    Model.containsMesh q ⟨[1, 0], mShading⟩ = true ↔
      ∃ i, i + 1 < q.length ∧ q.getD i 0 = q.length - 1 ∧ q.getD (i + 1) 0 = q.length - 2 := by
  rw [C04L.containsMesh_iff (m := ⟨[1, 0], mShading⟩) isPerm_10 hq, meshContains_rd_iff_adjacent q hq]

/-- **the mesh condition of Ru2143, position form**: `q` contains `(12, M)` ⇔ the second largest value is
    immediately followed by the maximum -/
theorem meshRu_iff_adjacent (q : NSeq) (hq : IsPerm q) :
    Model.containsMesh q ⟨[0, 1], mShading⟩ = true ↔
      ∃ i, i + 1 < q.length ∧ q.getD i 0 = q.length - 2 ∧ q.getD (i + 1) 0 = q.length - 1 := by
  rw [C04L.containsMesh_iff (m := ⟨[0, 1], mShading⟩) isPerm_01 hq, meshContains_ru_iff_adjacent q hq]

/-- **the mesh conditions, position-free**: `n-1 n-2` (resp. `n-2 n-1`) is a consecutive factor of `q` (a factor
    `u v` needs two entries, so nothing is contained when `|q| < 2`) -/
theorem meshRd_iff_factor (q : NSeq) (hq : IsPerm q) :
    Model.containsMesh q ⟨[1, 0], mShading⟩ = true ↔ HasFactor q (q.length - 1) (q.length - 2) :=
  containsMesh_rd_iff q hq

theorem meshRu_iff_factor (q : NSeq) (hq : IsPerm q) :
    Model.containsMesh q ⟨[0, 1], mShading⟩ = true ↔ HasFactor q (q.length - 2) (q.length - 1) :=
  containsMesh_ru_iff q hq

/-- non-vacuity: `1 4 3 2` contains `(21, M)` (factor `4 3`), `4 1 3 2` does not; `1 3 4 2` contains `(12, M)` -/
example : Model.containsMesh [0, 3, 2, 1] ⟨[1, 0], mShading⟩ = true ∧
    Model.containsMesh [3, 0, 2, 1] ⟨[1, 0], mShading⟩ = false ∧
    Model.containsMesh [0, 2, 3, 1] ⟨[0, 1], mShading⟩ = true ∧
    Model.containsMesh [0, 3, 2, 1] ⟨[0, 1], mShading⟩ = false :=
  ⟨(meshRd_iff_factor _ (by decide)).mpr (by decide),
   by rw [← Bool.not_eq_true, meshRd_iff_factor _ (by decide)]; decide,
   (meshRu_iff_factor _ (by decide)).mpr (by decide),
   by rw [← Bool.not_eq_true, meshRu_iff_factor _ (by decide)]; decide⟩

/-- **`last_sum_component`**: on a non-empty permutation the loop returns `c` ⇔ `q = a ⊕ c` with `c` non-empty
    and sum-indecomposable (so such a `c` exists and is unique); the empty permutation is returned as it is -/
theorem lastSumComponent_iff_def (q : NSeq) (hq : IsPerm q) (hne : q ≠ []) (c : NSeq) :
    lastSumComponent q = .ok c ↔ IsLastSumComponent q c := lastSumComponent_iff hq hne c

/-- **`last_skew_component`**: on a non-empty permutation the loop returns `c` ⇔ `q = a ⊖ c` with `c` non-empty
    and skew-indecomposable -/
theorem lastSkewComponent_iff_def (q : NSeq) (hq : IsPerm q) (hne : q ≠ []) (c : NSeq) :
    lastSkewComponent q = .ok c ↔ IsLastSkewComponent q c := lastSkewComponent_iff hq hne c

theorem lastComponent_nil : lastSumComponent [] = .ok [] ∧ lastSkewComponent [] = .ok [] := ⟨rfl, rfl⟩

/-- the last component exists and is unique -/
theorem lastComponent_unique (q : NSeq) (hq : IsPerm q) (hne : q ≠ []) :
    (∃ c, IsLastSumComponent q c ∧ ∀ c', IsLastSumComponent q c' → c' = c) ∧
    (∃ c, IsLastSkewComponent q c ∧ ∀ c', IsLastSkewComponent q c' → c' = c) := by
  obtain ⟨c, hc⟩ := lastSumComponent_ok q
  obtain ⟨d, hd⟩ := lastSkewComponent_ok q
  refine ⟨⟨c, (lastSumComponent_iff hq hne c).mp hc, fun c' h' => ?_⟩,
    ⟨d, (lastSkewComponent_iff hq hne d).mp hd, fun d' h' => ?_⟩⟩
  · have := (lastSumComponent_iff hq hne c').mpr h'
    rw [hc] at this
    exact (Except.ok.inj this).symm
  · have := (lastSkewComponent_iff hq hne d').mpr h'
    rw [hd] at this
    exact (Except.ok.inj this).symm

/-- non-vacuity: `2 1 4 3 = 21 ⊕ 21`, `3 4 1 2 = 12 ⊖ 12` -/
example : lastSumComponent [1, 0, 3, 2] = .ok [1, 0] ∧ lastSkewComponent [2, 3, 0, 1] = .ok [0, 1] := by
  refine ⟨(lastSumComponent_iff (by decide) (by decide) _).mpr ⟨[1, 0], by decide, by decide, by decide, ?_, by decide⟩,
    (lastSkewComponent_iff (by decide) (by decide) _).mpr ⟨[0, 1], by decide, by decide, by decide, ?_, by decide⟩⟩
  · intro h; rw [← isSumDecomposable_iff _ (by decide)] at h; exact absurd h (by decide)
  · intro h; rw [← isSkewDecomposable_iff _ (by decide)] at h; exact absurd h (by decide)

/-- `last_comp not in Av(π)` for a single pattern is "`last_comp` contains `π`"; for `π = 12`, `21` that is a
    pair of entries in increasing (decreasing) order -/
theorem notInAv_iff_def (c : NSeq) (hc : IsPerm c) :
    (Model.avoidsAll c [[0, 1]] = false ↔ ∃ i j, i < j ∧ j < c.length ∧ c.getD i 0 < c.getD j 0) ∧
    (Model.avoidsAll c [[1, 0]] = false ↔ ∃ i j, i < j ∧ j < c.length ∧ c.getD j 0 < c.getD i 0) := by
  rw [not_avoids_one_iff c _ hc isPerm_01, not_avoids_one_iff c _ hc isPerm_10]
  exact ⟨contains_01_iff c, contains_10_iff c⟩

example : Model.avoidsAll [2, 0, 1] [[0, 1]] = false ∧ Model.avoidsAll [1, 0] [[0, 1]] ≠ false := by
  refine ⟨(notInAv_iff_def _ (by decide)).1.mpr ⟨1, 2, by decide, by decide, by decide⟩, fun h => ?_⟩
  obtain ⟨i, j, h1, h2, h3⟩ := (notInAv_iff_def _ (by decide)).1.mp h
  have hj : j = 1 := by simp at h2; omega
  have hi : i = 0 := by omega
  subst hi hj
  simp at h3

/-- `last_comp in Av(12)` (`_NON_INC`) ⇔ the component is decreasing; `in Av(21)` (`_NON_DEC`) ⇔ it is increasing -/
theorem inAv_iff_monotone (c : NSeq) (hc : IsPerm c) :
    (Model.avoidsAll c [[0, 1]] = true ↔ c.Pairwise (· > ·)) ∧
    (Model.avoidsAll c [[1, 0]] = true ↔ c.Pairwise (· < ·)) := by
  rw [C01.avoidsAll_iff c _ hc (by simpa using isPerm_01), C01.avoidsAll_iff c _ hc (by simpa using isPerm_10),
    ← not_contains_01_iff hc, ← not_contains_10_iff hc]
  simp

example : Model.avoidsAll [2, 1, 0] [[0, 1]] = true ∧ Model.avoidsAll [0, 1, 2] [[1, 0]] = true :=
  ⟨(inAv_iff_monotone _ (by decide)).1.mpr (by decide), (inAv_iff_monotone _ (by decide)).2.mpr (by decide)⟩

/-- **shape of Rd2134, index-free**: `p = 1 ⊕ q`, `n-1 n-2` is not a factor of `q`, and the last sum component of `q`
    contains `12` or has length one -/
theorem validRd2134_iff_shape_def (p : NSeq) (hp : IsPerm p) :
    Strat.valid .rd2134 p = .ok true ↔ ∃ q, IsPerm q ∧ p = Model.directSum [0] q ∧
      ¬ HasFactor q (q.length - 1) (q.length - 2) ∧
      ∃ c, IsLastSumComponent q c ∧ (Contains c [0, 1] ∨ c.length = 1) :=
  validRd2134_iff_shape p hp

/-- **shape of Ru2143, index-free**: `p = 1 ⊕ q`, `n-2 n-1` is not a factor of `q`, and the last skew component of `q`
    contains `21` -/
theorem validRu2143_iff_shape_def (p : NSeq) (hp : IsPerm p) :
    Strat.valid .ru2143 p = .ok true ↔ ∃ q, IsPerm q ∧ p = Model.directSum [0] q ∧
      ¬ HasFactor q (q.length - 2) (q.length - 1) ∧
      ∃ c, IsLastSkewComponent q c ∧ Contains c [1, 0] :=
  validRu2143_iff_shape p hp

/-- non-vacuity: `1 4 2 3 = 1 ⊕ 312` is a valid extension for Rd2134 (`312` is its own last component and contains
    `12`), `1 3 2 = 1 ⊕ 21` is not (factor `2 1`) -/
example : Strat.valid .rd2134 [0, 3, 1, 2] = .ok true ∧ ¬ Shape .rd2134 [0, 2, 1] := by
  have hnd : ¬ SumDecomposable [2, 0, 1] := by
    intro h; rw [← isSumDecomposable_iff _ (by decide)] at h; exact absurd h (by decide)
  refine ⟨(validRd2134_iff_shape_def _ (by decide)).mpr ⟨[2, 0, 1], by decide, by decide, ?_,
    [2, 0, 1], ⟨[], by decide, by decide, by decide, hnd, by decide⟩,
    Or.inl ((contains_01_iff _).mpr ⟨1, 2, by decide, by decide, by decide⟩)⟩, ?_⟩
  · decide
  · rintro ⟨q, hq, hpq, hf, _⟩
    have : q = [1, 0] := directSum_one_injective (q := q) (q' := [1, 0]) (by rw [← hpq]; rfl)
    subst this
    exact hf ⟨[], [], rfl⟩

/-- non-vacuity: `1 3 2 4 = 1 ⊕ 213` is a valid extension for Ru2143 (`213` is skew-indecomposable, contains `21`,
    and its two largest values `2 3` are not adjacent); `1 3 2 = 1 ⊕ 21` is not (the last skew component of `21`
    is `1`) -/
example : Strat.valid .ru2143 [0, 2, 1, 3] = .ok true ∧ ¬ Shape .ru2143 [0, 2, 1] := by
  have hnd : ¬ SkewDecomposable [1, 0, 2] := by
    intro h; rw [← isSkewDecomposable_iff _ (by decide)] at h; exact absurd h (by decide)
  have hnd0 : ¬ SkewDecomposable [0] := by
    intro h; rw [← isSkewDecomposable_iff _ (by decide)] at h; exact absurd h (by decide)
  refine ⟨(validRu2143_iff_shape_def _ (by decide)).mpr ⟨[1, 0, 2], by decide, by decide, ?_,
    [1, 0, 2], ⟨[], by decide, by decide, by decide, hnd, by decide⟩,
    (contains_10_iff _).mpr ⟨0, 1, by decide, by decide, by decide⟩⟩, ?_⟩
  · decide
  · rintro ⟨q, hq, hpq, _, c, hc, hcont⟩
    have : q = [1, 0] := directSum_one_injective (q := q) (q' := [1, 0]) (by rw [← hpq]; rfl)
    subst this
    have hc0 : IsLastSkewComponent [1, 0] [0] := ⟨[0], by decide, by decide, by decide, hnd0, by decide⟩
    have := (lastComponent_unique [1, 0] (by decide) (by decide)).2
    obtain ⟨d, _, hu⟩ := this
    have e1 := hu c hc
    have e2 := hu [0] hc0
    rw [e1, ← e2] at hcont
    obtain ⟨i, j, h1, h2, _⟩ := (contains_10_iff _).mp hcont
    simp at h2
    omega

/-- **A1 for all eight strategies**: `is_valid_extension` answers `True` exactly on the permutations of the
    prescribed index-free shape `Shape s` -/
theorem valid_iff_shape_def (s : Strat) (p : NSeq) (hp : IsPerm p) : s.valid p = .ok true ↔ Shape s p :=
  valid_iff_shape s p hp

/-! ## A3 — the two class-test strategies -/

theorem inverse_rotate_one {p : NSeq} (hp : IsPerm p) : Model.inverse (Model.rotate p 1) = Model.reverse p := by
  rw [C13.rotate_one_eq, C13.inverse_complement (C13.isPerm_inverse hp), C13.inverse_inverse hp]

/-- **the insertion-encoding strategy is reported exactly when `is_insertion_encodable` succeeds on the
    basis**: the second call, on the rotated set, adds nothing – its rightmost test is the topmost test of
    the basis and its topmost test is the rightmost test of the reversed basis -/
theorem insEncApplies_eq (B : List NSeq) (hB : ∀ p ∈ B, IsPerm p) : insEncApplies B = isInsEnc ⟨B, false⟩ := by
  have hD : ∀ p ∈ B.eraseDups, IsPerm p := fun p hp => hB p (List.mem_eraseDups.mp hp)
  have hrot : ∀ p ∈ B.eraseDups.map (Model.rotate · 1), IsPerm p := by
    intro p hp; obtain ⟨q, hq, rfl⟩ := List.mem_map.mp hp; exact C13.isPerm_rotate_one (hD q hq)
  unfold insEncApplies
  rw [C13.isInsEnc_container ⟨B.eraseDups.map (Model.rotate · 1), true⟩, isInsEnc_list, isInsEnc_list]
  have h1 : isRightmost ⟨B.eraseDups.map (Model.rotate · 1), false⟩ = isMaximum ⟨B.eraseDups, false⟩ :=
    (C13.isMaximum_eq_rightmost_rotate B.eraseDups false false).symm
  have h2 : isMaximum ⟨B.eraseDups.map (Model.rotate · 1), false⟩ = isRightmost ⟨B.eraseDups, false⟩ := by
    rw [C13.isMaximum_eq_rightmost_inverse _ false hrot, List.map_map,
      ← C13.isRightmost_reverse B.eraseDups false hD]
    congr 2
    apply List.map_congr_left
    intro p hp
    exact inverse_rotate_one (hD p hp)
  simp only [h1, h2]
  have := (C13.verdicts_of_mem_iff B.eraseDups B false false fun p => List.mem_eraseDups).2.2.2.2
  rw [← this, isInsEnc_list]
  cases isRightmost ⟨B.eraseDups, false⟩ <;> cases isMaximum ⟨B.eraseDups, false⟩ <;> rfl

/-- the insertion-encoding strategy's answer is the same for each of the eight symmetric images -/
theorem insEncApplies_sym (k : Nat) (B : List NSeq) (hB : ∀ p ∈ B, IsPerm p) :
    insEncApplies (B.map (Model.C13.sym k)) = insEncApplies B := by
  rw [insEncApplies_eq _ (fun p hp => by
      obtain ⟨q, hq, rfl⟩ := List.mem_map.mp hp; exact C13.isPerm_sym k (hB q hq)), insEncApplies_eq B hB]
  exact (C13.verdicts_sym k B hB).2.2

theorem appliesByName_insEnc (B : List NSeq) (hfs : Bool) (hB : ∀ p ∈ B, IsPerm p) :
    appliesByName "InsertionEncodingStrategy" B hfs = .ok (isInsEnc ⟨B, false⟩) := by
  unfold appliesByName
  rw [if_pos (by decide), insEncApplies_eq B hB]

/-- the finitely-many-simples strategy is reported exactly when `has_finite_simples` says so -/
theorem appliesByName_finSimples (B : List NSeq) (hfs : Bool) :
    appliesByName "FinitelyManySimplesStrategy" B hfs = .ok hfs := by
  unfold appliesByName
  rw [if_neg (by decide), if_pos (by decide)]

/-! ## A2 for the whole search, A4 -/

theorem appliesByName_of_mem_iff (n : String) (B B' : List NSeq) (hfs : Bool)
    (hB : ∀ q ∈ B, Good q) (h : ∀ p, p ∈ B ↔ p ∈ B') : appliesByName n B hfs = appliesByName n B' hfs := by
  unfold appliesByName
  by_cases h1 : (n == "InsertionEncodingStrategy") = true
  · rw [if_pos h1, if_pos h1, insEncApplies_eq B fun p hp => (hB p hp).1,
      insEncApplies_eq B' fun p hp => (hB p ((h p).mpr hp)).1,
      (C13.verdicts_of_mem_iff B B' false false h).2.2.2.2]
  · rw [if_neg h1, if_neg h1]
    by_cases h2 : (n == "FinitelyManySimplesStrategy") = true
    · rw [if_pos h2, if_pos h2]
    · rw [if_neg h2, if_neg h2]
      cases Strat.all.find? (fun s => s.name == n) with
      | none => rfl
      | some s => exact coreApplies_of_mem_iff s B B' hB h

/-- **A2**: the reported list is unchanged by reordering or repeating basis elements (both searches) -/
theorem findStrategies_of_mem_iff (B B' : List NSeq) (long hfs : Bool)
    (hB : ∀ q ∈ B, Good q) (h : ∀ p, p ∈ B ↔ p ∈ B') :
    findStrategies B long hfs = findStrategies B' long hfs := by
  unfold findStrategies
  exact collect_congr B B' hfs (fun n => appliesByName_of_mem_iff n B B' hfs hB h) _

theorem findStrategies_perm (B B' : List NSeq) (long hfs : Bool) (hB : ∀ q ∈ B, Good q)
    (h : B.Perm B') : findStrategies B long hfs = findStrategies B' long hfs :=
  findStrategies_of_mem_iff B B' long hfs hB fun _ => h.mem_iff

/-! ## A2 — invariance under the eight symmetries (the dihedral group `D8` of C04) -/

/-- **the eight sets tried are the orbit of the basis**: `b` is one of the sets of `all_symmetry_sets`
    exactly when `b = g · B` for an element `g` of the dihedral group -/
theorem mem_symSets_iff (B : List NSeq) (hB : ∀ p ∈ B, IsPerm p) (b : List NSeq) :
    b ∈ symSets B ↔ ∃ g : D8, b = B.map g.act := mem_symSets hB b

/-- **orbit closure**: a symmetric image of the basis has the same eight sets (as a collection) -/
theorem symSets_act (B : List NSeq) (hB : ∀ p ∈ B, IsPerm p) (g : D8) (b : List NSeq) :
    b ∈ symSets (B.map g.act) ↔ b ∈ symSets B := mem_symSets_act hB g b

/-- **A1 in orbit form**: a core strategy is reported exactly when its hypothesis holds for `g · B` for
    some `g` of the dihedral group -/
theorem coreApplies_iff_orbit (s : Strat) (B : List NSeq) (hne : B ≠ []) (hB : ∀ q ∈ B, Good q) :
    coreApplies s B = .ok true ↔ ∃ g : D8, Holds s (B.map g.act) := by
  rw [coreApplies_iff s B hne hB]
  constructor
  · rintro ⟨b, hb, h⟩
    obtain ⟨g, rfl⟩ := (mem_symSets (fun p hp => (hB p hp).1) b).mp hb
    exact ⟨g, h⟩
  · rintro ⟨g, h⟩
    exact ⟨_, (mem_symSets (fun p hp => (hB p hp).1) _).mpr ⟨g, rfl⟩, h⟩

/-- **T1 / A2 (symmetries), core strategies**: the answer of every core strategy (as an `Except` value) is
    the same for the basis and for each of its eight symmetric images -/
theorem coreApplies_sym (s : Strat) (B : List NSeq) (hB : ∀ q ∈ B, Good q) (g : D8) :
    coreApplies s (B.map g.act) = coreApplies s B := by
  by_cases hne : B = []
  · rw [hne]; rfl
  have hB' := good_map_act hB g
  have hne' : B.map g.act ≠ [] := by simpa using hne
  obtain ⟨v, hv⟩ := coreApplies_total s B hne hB
  obtain ⟨v', hv'⟩ := coreApplies_total s (B.map g.act) hne' hB'
  have i1 := coreApplies_iff s B hne hB
  have i2 := coreApplies_iff s (B.map g.act) hne' hB'
  have i3 : (∃ b ∈ symSets (B.map g.act), Holds s b) ↔ ∃ b ∈ symSets B, Holds s b :=
    exists_congr fun b => and_congr_left fun _ => mem_symSets_act (fun p hp => (hB p hp).1) g b
  rw [hv, hv']
  rw [hv] at i1; rw [hv'] at i2
  simp only [Except.ok.injEq] at i1 i2
  congr 1
  rw [Bool.eq_iff_iff, i2, i1, i3]

/-- non-vacuity: the hypothesis of RdCd holds for `{2413, 3142, 1423}` but not for its reverse
    `{3142, 2413, 3241}`; the strategy is reported for the reverse all the same -/
example : Holds .rdCd [[1, 3, 0, 2], [2, 0, 3, 1], [0, 3, 1, 2]] ∧
    [[1, 3, 0, 2], [2, 0, 3, 1], [0, 3, 1, 2]].map (D8.act ⟨true, false, false⟩) =
      [[2, 0, 3, 1], [1, 3, 0, 2], [2, 1, 3, 0]] ∧
    ¬ Holds .rdCd [[2, 0, 3, 1], [1, 3, 0, 2], [2, 1, 3, 0]] ∧
    coreApplies .rdCd [[2, 0, 3, 1], [1, 3, 0, 2], [2, 1, 3, 0]] = .ok true := by
  have hG : ∀ q ∈ [[1, 3, 0, 2], [2, 0, 3, 1], [0, 3, 1, 2]], Good q := by
    intro q hq
    simp only [List.mem_cons, List.not_mem_nil, or_false] at hq
    rcases hq with rfl | rfl | rfl <;> exact ⟨by decide, by decide⟩
  have hH : Holds .rdCd [[1, 3, 0, 2], [2, 0, 3, 1], [0, 3, 1, 2]] := by
    refine ⟨fun p hp => ⟨p, ?_, contains_refl p⟩, fun q hq hn => ?_⟩
    · have : Strat.needed .rdCd = [[1, 3, 0, 2], [2, 0, 3, 1]] := by decide
      rw [this] at hp
      simp only [List.mem_cons, List.not_mem_nil, or_false] at hp ⊢
      rcases hp with rfl | rfl <;> simp
    · have : Strat.needed .rdCd = [[1, 3, 0, 2], [2, 0, 3, 1]] := by decide
      rw [this] at hn
      simp only [List.mem_cons, List.not_mem_nil, or_false] at hq hn
      rcases hq with rfl | rfl | rfl
      · exact absurd (Or.inl rfl) hn
      · exact absurd (Or.inr rfl) hn
      · rfl
  have hmap : [[1, 3, 0, 2], [2, 0, 3, 1], [0, 3, 1, 2]].map (D8.act ⟨true, false, false⟩) =
      [[2, 0, 3, 1], [1, 3, 0, 2], [2, 1, 3, 0]] := by decide
  refine ⟨hH, hmap, fun h => ?_, ?_⟩
  · have := h.2 [2, 1, 3, 0] (by simp) (by decide)
    exact absurd this (by decide)
  · rw [← hmap, coreApplies_sym .rdCd _ hG, coreApplies_iff .rdCd _ (by simp) hG]
    exact ⟨_, List.mem_cons_self .., hH⟩

/-- **T2 / A2 (symmetries), insertion encoding**: the insertion-encoding strategy's answer is the same for
    each image under the dihedral group -/
theorem insEnc_applies_sym (B : List NSeq) (hB : ∀ p ∈ B, IsPerm p) (g : D8) :
    insEncApplies (B.map g.act) = insEncApplies B := by
  obtain ⟨k, hk⟩ := act_eq_sym g
  rw [show B.map g.act = B.map (Model.C13.sym k) from List.map_congr_left fun p _ => hk p]
  exact insEncApplies_sym k B hB

/-- **A2 (symmetries), one strategy by name**: for every strategy name (unknown names included: `KeyError`
    on both sides) the answer for `g · B` is the answer for `B`; the finitely-many-simples strategy is the
    opaque input it is in the model (`hfs` on both sides) -/
theorem appliesByName_sym (n : String) (B : List NSeq) (hfs : Bool) (hB : ∀ q ∈ B, Good q) (g : D8) :
    appliesByName n (B.map g.act) hfs = appliesByName n B hfs := by
  unfold appliesByName
  by_cases h1 : (n == "InsertionEncodingStrategy") = true
  · rw [if_pos h1, if_pos h1, insEnc_applies_sym B (fun p hp => (hB p hp).1) g]
  · rw [if_neg h1, if_neg h1]
    by_cases h2 : (n == "FinitelyManySimplesStrategy") = true
    · rw [if_pos h2, if_pos h2]
    · rw [if_neg h2, if_neg h2]
      cases Strat.all.find? (fun s => s.name == n) with
      | none => rfl
      | some s => exact coreApplies_sym s B hB g

/-- **T3 / A2 (symmetries), the whole search**: the reported list (or exception) is the same for the basis
    and each of its eight symmetric images, for the quick and the slow search, given the same
    `has_finite_simples` verdict for both -/
theorem findStrategies_sym (B : List NSeq) (long hfs : Bool) (hB : ∀ q ∈ B, Good q) (g : D8) :
    findStrategies (B.map g.act) long hfs = findStrategies B long hfs := by
  unfold findStrategies
  exact collect_congr _ _ hfs (fun n => appliesByName_sym n B hfs hB g) _

/-- non-vacuity: the hypotheses are met by a paper basis and the image is a different list -/
example (long hfs : Bool) :
    findStrategies [[2, 0, 3, 1], [1, 3, 0, 2], [2, 1, 3, 0]] long hfs =
      findStrategies [[1, 3, 0, 2], [2, 0, 3, 1], [0, 3, 1, 2]] long hfs := by
  have hG : ∀ q ∈ [[1, 3, 0, 2], [2, 0, 3, 1], [0, 3, 1, 2]], Good q := by
    intro q hq
    simp only [List.mem_cons, List.not_mem_nil, or_false] at hq
    rcases hq with rfl | rfl | rfl <;> exact ⟨by decide, by decide⟩
  exact findStrategies_sym _ long hfs hG ⟨true, false, false⟩

/-- the quick search never consults `has_finite_simples` -/
theorem findStrategies_quick_hfs (B : List NSeq) (hfs hfs' : Bool) :
    findStrategies B false hfs = findStrategies B false hfs' := by
  have key : ∀ l : List String, (∀ n ∈ l, n ≠ "FinitelyManySimplesStrategy") →
      collect B hfs l = collect B hfs' l := by
    intro l
    induction l with
    | nil => intro _; rfl
    | cons n rest ih =>
      intro h
      have hn : appliesByName n B hfs = appliesByName n B hfs' := by
        unfold appliesByName
        by_cases h1 : (n == "InsertionEncodingStrategy") = true
        · rw [if_pos h1, if_pos h1]
        · rw [if_neg h1, if_neg h1,
            if_neg (by simpa using h n (List.mem_cons_self ..)),
            if_neg (by simpa using h n (List.mem_cons_self ..))]
      rw [collect, collect, hn, ih fun m hm => h m (List.mem_cons_of_mem _ hm)]
  unfold findStrategies
  simp only [Bool.false_eq_true, if_false]
  exact key _ (by decide)

/-- **T3 for the quick search, unconditionally**: the quick search reports the same list for the basis and
    each symmetric image whatever `has_finite_simples` would say about either -/
theorem findStrategies_quick_sym (B : List NSeq) (hfs hfs' : Bool) (hB : ∀ q ∈ B, Good q) (g : D8) :
    findStrategies (B.map g.act) false hfs = findStrategies B false hfs' := by
  rw [findStrategies_sym B false hfs hB g, findStrategies_quick_hfs B hfs hfs']

/-- **T3 with the verdict as a function of the basis**: if the supplied `has_finite_simples` verdict `fs` is
    itself invariant under `g`, so is the slow search that consults it -/
theorem findStrategies_sym_of_verdict (fs : List NSeq → Bool) (B : List NSeq) (long : Bool)
    (hB : ∀ q ∈ B, Good q) (g : D8) (hfs : fs (B.map g.act) = fs B) :
    findStrategies (B.map g.act) long (fs (B.map g.act)) = findStrategies B long (fs B) := by
  rw [hfs]; exact findStrategies_sym B long (fs B) hB g

/-- **A4**: the quick search returns the slow search's result minus the slow strategies (an exception
    of one is an exception of the other) -/
theorem find_quick_eq_filter (B : List NSeq) (hfs : Bool) :
    findStrategies B false hfs =
      (findStrategies B true hfs).map fun l => l.filter fun n => !Generated.longStrategies.contains n := by
  unfold findStrategies
  simp only [Bool.false_eq_true, if_false, if_true]
  rw [show Generated.findStrategiesLong = Generated.findStrategiesQuick ++ Generated.longStrategies by decide,
    collect_append]
  have hlong : collect B hfs Generated.longStrategies =
      .ok (if hfs then ["FinitelyManySimplesStrategy"] else []) := by
    rw [show Generated.longStrategies = ["FinitelyManySimplesStrategy"] by decide, collect,
      appliesByName_finSimples, collect]
  rw [hlong]
  cases hq : collect B hfs Generated.findStrategiesQuick with
  | error e => rfl
  | ok a =>
    have hsub := collect_subset B hfs _ a hq
    have hkeep : a.filter (fun n => !Generated.longStrategies.contains n) = a := by
      rw [List.filter_eq_self]
      intro n hn
      have hmem := hsub n hn
      have : ∀ m ∈ Generated.findStrategiesQuick, (!Generated.longStrategies.contains m) = true := by decide
      exact this n hmem
    simp only [Except.map, List.filter_append, hkeep]
    cases hfs
    · simp
    · simp; decide

/-- the length-one permutation no longer raises: the four shape tests that strip it to the empty
    permutation answer `False` -/
theorem valid_length_one :
    Strat.valid .rdCdCu [0] = .ok false ∧ Strat.valid .rdCu [0] = .ok false ∧
    Strat.valid .rd2134 [0] = .ok false ∧ Strat.valid .ru2143 [0] = .ok false :=
  ⟨rfl, rfl, rfl, rfl⟩

/-- non-vacuity: a paper basis meets the hypotheses, and the RdCd strategy's hypothesis holds for it -/
example : Good [1, 3, 0, 2] ∧ Good [2, 0, 3, 1] ∧ Strat.valid .rdCd [0, 3, 1, 2] = .ok true ∧
    Strat.valid .rdCd [0, 1, 3, 2] = .ok false := by
  refine ⟨⟨by decide, by decide⟩, ⟨by decide, by decide⟩, rfl, rfl⟩

/-- **A1 with the shapes spelled out**: a core strategy is reported exactly when, for some symmetry `g` of the
    square, every needed pattern contains an element of `g · B` and every other element of `g · B` has the
    strategy's shape -/
theorem coreApplies_iff_shape (s : Strat) (B : List NSeq) (hne : B ≠ []) (hB : ∀ q ∈ B, Good q) :
    coreApplies s B = .ok true ↔ ∃ g : D8,
      (∀ p ∈ s.needed, ∃ q ∈ B.map g.act, Contains p q) ∧
      ∀ q ∈ B.map g.act, q ∉ s.needed → Shape s q := by
  rw [coreApplies_iff_orbit s B hne hB]
  refine exists_congr fun g => and_congr_right fun _ => ?_
  refine forall₂_congr fun q hq => imp_congr_right fun _ => ?_
  exact valid_iff_shape s q (good_map_act hB g q hq).1

/-- non-vacuity: for the paper basis `{2413, 3142, 1423}` the identity symmetry works, `1423 = 1 ⊕ 312` having the
    shape of RdCd -/
example : ∃ g : D8,
    (∀ p ∈ Strat.needed .rdCd, ∃ q ∈ [[1, 3, 0, 2], [2, 0, 3, 1], [0, 3, 1, 2]].map g.act, Contains p q) ∧
    ∀ q ∈ [[1, 3, 0, 2], [2, 0, 3, 1], [0, 3, 1, 2]].map g.act, q ∉ Strat.needed .rdCd → Shape .rdCd q := by
  have hG : ∀ q ∈ [[1, 3, 0, 2], [2, 0, 3, 1], [0, 3, 1, 2]], Good q := by
    intro q hq
    simp only [List.mem_cons, List.not_mem_nil, or_false] at hq
    rcases hq with rfl | rfl | rfl <;> exact ⟨by decide, by decide⟩
  have hn : Strat.needed .rdCd = [[1, 3, 0, 2], [2, 0, 3, 1]] := by decide
  have hH : Holds .rdCd [[1, 3, 0, 2], [2, 0, 3, 1], [0, 3, 1, 2]] := by
    refine ⟨fun p hp => ⟨p, ?_, contains_refl p⟩, fun q hq hnn => ?_⟩
    · rw [hn] at hp
      simp only [List.mem_cons, List.not_mem_nil, or_false] at hp ⊢
      rcases hp with rfl | rfl <;> simp
    · rw [hn] at hnn
      simp only [List.mem_cons, List.not_mem_nil, or_false] at hq hnn
      rcases hq with rfl | rfl | rfl
      · exact absurd (Or.inl rfl) hnn
      · exact absurd (Or.inr rfl) hnn
      · rfl
  exact (coreApplies_iff_shape .rdCd _ (by simp) hG).mp
    ((coreApplies_iff .rdCd _ (by simp) hG).mpr ⟨_, List.mem_cons_self .., hH⟩)

end C19
