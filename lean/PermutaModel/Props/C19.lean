import PermutaModel.Lemmas.C19Find
import PermutaModel.Props.C13

/-!
# C19 — reported enumeration strategies follow their stated conditions

Property theorems only (helpers: `Lemmas/C19Contain.lean`, `Lemmas/C19Core.lean`).
`Model.C19.*` mirrors `permuta/enumeration_strategies/*.py`; the strategy names, their
`patterns_needed` and the three strategy lists are the tables regenerated from the source
(`Generated.coreStrategies`, `fastStrategies`, `longStrategies`, `allStrategies`).
`hfs` is the verdict of `PinWords.has_finite_simples` (property C16), an opaque input here.
-/
open Model.C13 Model.C19 Spec.C19
open Proto (Err)

namespace C19

/-- the model's strategy names and `patterns_needed` are the ones in the source (regenerated table) -/
theorem strategy_table :
    Strat.all.map (fun s => (s.name, s.needed)) = Generated.coreStrategies ∧
    Generated.fastStrategies = "InsertionEncodingStrategy" :: Strat.all.map Strat.name ∧
    Generated.longStrategies = ["FinitelyManySimplesStrategy"] ∧
    Generated.allStrategies = Generated.fastStrategies ++ Generated.longStrategies ∧
    Generated.findStrategiesLong = Generated.allStrategies ∧
    Generated.findStrategiesQuick = Generated.fastStrategies := by decide

/-- **A1, one image**: `_applies_to_symmetry(b)` is `True` exactly when the needed patterns are excluded
    from the class and every other basis element has the prescribed shape -/
theorem appliesToSym_iff (s : Strat) (b : List NSeq) (hb : ∀ q ∈ b, IsPerm q ∧ q ≠ []) :
    appliesToSym s b = .ok true ↔ Holds s b := by
  by_cases hne : b = []
  · subst hne
    unfold appliesToSym Holds
    rw [avBasis_nil]
    obtain ⟨p, hp⟩ := List.exists_mem_of_ne_nil _ (needed_ne_nil s)
    constructor
    · intro h; cases h
    · rintro ⟨h, _⟩; obtain ⟨q, hq, _⟩ := h p hp; simp at hq
  · unfold appliesToSym Holds
    rw [avBasis_ok b hne hb]
    simp only
    have hvalid : allValid s.valid (b.filter fun q => !s.needed.contains q) = .ok true ↔
        ∀ q ∈ b, q ∉ s.needed → s.valid q = .ok true := by
      rw [allValid_true_iff]
      simp only [List.mem_filter, Bool.not_eq_true', List.contains_eq_mem, decide_eq_false_iff_not, and_imp]
    have hcont : (s.needed.all fun p => !Model.avoidsAll p (basisOf b)) = true ↔
        ∀ p ∈ s.needed, ∃ q ∈ b, Contains p q := by
      rw [List.all_eq_true]
      exact forall₂_congr fun p hp => not_in_class_iff b hb p (needed_isPerm s p hp)
    cases hv : allValid s.valid (b.filter fun q => !s.needed.contains q) with
    | error e =>
      rw [hv] at hvalid
      constructor
      · intro h; cases h
      · rintro ⟨_, h2⟩; exact absurd (hvalid.mpr h2) (by simp)
    | ok ext =>
      rw [hv] at hvalid
      simp only [Except.ok.injEq, Bool.and_eq_true]
      rw [hcont, ← hvalid]
      simp only [Except.ok.injEq]

/-- **A5, totality**: no exception for any non-empty basis of non-empty permutations (the domain on which
    `Av` itself is defined) -/
theorem coreApplies_total (s : Strat) (B : List NSeq) (hne : B ≠ []) (hB : ∀ q ∈ B, Good q) :
    ∃ v, coreApplies s B = .ok v := by
  obtain ⟨v, hv, _⟩ := anySym_ok (appliesToSym s) (symSets B.eraseDups) fun b hb =>
    appliesToSym_ok s b (symSets_ne_nil (eraseDups_ne_nil hne) b hb) (good_symSets (good_eraseDups hB) b hb)
  exact ⟨v, hv⟩

/-- **A1**: a core strategy is reported exactly when its hypothesis holds for the basis or one of its
    symmetric images (the eight sets of `all_symmetry_sets`) -/
theorem coreApplies_iff (s : Strat) (B : List NSeq) (hne : B ≠ []) (hB : ∀ q ∈ B, Good q) :
    coreApplies s B = .ok true ↔ ∃ b ∈ symSets B, Holds s b := by
  have hgood := good_symSets (good_eraseDups hB)
  obtain ⟨v, hv, hiff⟩ := anySym_ok (appliesToSym s) (symSets B.eraseDups) fun b hb =>
    appliesToSym_ok s b (symSets_ne_nil (eraseDups_ne_nil hne) b hb) (hgood b hb)
  unfold coreApplies
  rw [hv, Except.ok.injEq, hiff]
  have h1 : (∃ b ∈ symSets B.eraseDups, appliesToSym s b = .ok true) ↔ ∃ b ∈ symSets B.eraseDups, Holds s b := by
    refine exists_congr fun b => and_congr_right fun hb => appliesToSym_iff s b fun q hq => ?_
    have := hgood b hb q hq
    exact ⟨this.1, fun e => by have h2 := this.2; rw [e] at h2; simp at h2⟩
  rw [h1]
  exact exists_forall₂ (symSets_mem_congr fun p => List.mem_eraseDups) fun a b hab => holds_congr s hab

/-- **A2 (order / repetition)**: a core strategy's answer depends only on which permutations the basis
    contains -/
theorem coreApplies_of_mem_iff (s : Strat) (B B' : List NSeq) (hB : ∀ q ∈ B, Good q)
    (h : ∀ p, p ∈ B ↔ p ∈ B') : coreApplies s B = coreApplies s B' := by
  by_cases hne : B = []
  · have : B' = [] := by
      cases B' with
      | nil => rfl
      | cons x t => have := (h x).mpr (List.mem_cons_self ..); rw [hne] at this; simp at this
    rw [hne, this]
  have hne' : B' ≠ [] := by
    obtain ⟨q, hq⟩ := List.exists_mem_of_ne_nil B hne
    intro e; have := (h q).mp hq; rw [e] at this; simp at this
  have hB' : ∀ q ∈ B', Good q := fun q hq => hB q ((h q).mpr hq)
  obtain ⟨v, hv⟩ := coreApplies_total s B hne hB
  obtain ⟨v', hv'⟩ := coreApplies_total s B' hne' hB'
  have i1 := coreApplies_iff s B hne hB
  have i2 := coreApplies_iff s B' hne' hB'
  have i3 : (∃ b ∈ symSets B, Holds s b) ↔ ∃ b ∈ symSets B', Holds s b :=
    exists_forall₂ (symSets_mem_congr h) fun a b hab => holds_congr s hab
  rw [hv, hv']
  rw [hv] at i1; rw [hv'] at i2
  simp only [Except.ok.injEq] at i1 i2
  congr 1
  rw [Bool.eq_iff_iff, i1, i2, i3]

/-! ## A1 — the shape tests against their definitions -/

/-- `Perm.is_sum_decomposable` ⇔ the permutation is a direct sum of two non-empty permutations -/
theorem isSumDecomposable_iff_def (q : NSeq) (hq : IsPerm q) :
    isSumDecomposable q = true ↔ SumDecomposable q := isSumDecomposable_iff q hq

/-- `Perm.is_skew_decomposable` ⇔ the permutation is a skew sum of two non-empty permutations -/
theorem isSkewDecomposable_iff_def (q : NSeq) (hq : IsPerm q) :
    isSkewDecomposable q = true ↔ SkewDecomposable q := isSkewDecomposable_iff q hq

/-- `zero_plus_sumind p` (shape of RdCd; of RdCdCu / RdCu after `bstrip`) ⇔ `p = 1 ⊕ q`, `q` sum-indecomposable -/
theorem zeroPlusSumind_iff_def (p : NSeq) (hp : IsPerm p) :
    zeroPlusSumind p = .ok true ↔ ∃ q, IsPerm q ∧ p = Model.directSum [0] q ∧ ¬ SumDecomposable q :=
  zeroPlusSumind_iff p hp

/-- `zero_plus_skewind p` (shape of RuCu, RuCuCd, RdCu) ⇔ `p = 1 ⊕ q`, `q` skew-indecomposable -/
theorem zeroPlusSkewind_iff_def (p : NSeq) (hp : IsPerm p) :
    zeroPlusSkewind p = .ok true ↔ ∃ q, IsPerm q ∧ p = Model.directSum [0] q ∧ ¬ SkewDecomposable q :=
  zeroPlusSkewind_iff p hp

/-- `zero_plus_perm p` (shape of RuCuRdCd) ⇔ `p = 1 ⊕ q` -/
theorem zeroPlusPerm_iff_def (p : NSeq) (hp : IsPerm p) :
    zeroPlusPerm p = .ok true ↔ ∃ q, IsPerm q ∧ p = Model.directSum [0] q := zeroPlusPerm_iff p hp

/-- `Rd2134CoreStrategy.is_valid_extension` ⇔ `p = 1 ⊕ q`, `q` avoids the mesh pattern `(10, M)`, and the last
    sum component of `q` is not decreasing or has length one -/
theorem validRd2134_iff_def (p : NSeq) (hp : IsPerm p) :
    Strat.valid .rd2134 p = .ok true ↔ ∃ q, IsPerm q ∧ p = Model.directSum [0] q ∧
      Model.containsMesh q ⟨[1, 0], mShading⟩ = false ∧
      ∃ lc, lastSumComponent q = .ok lc ∧ (Model.avoidsAll lc [[0, 1]] = false ∨ lc.length = 1) :=
  validRd2134_iff p hp

/-- `Ru2143CoreStrategy.is_valid_extension` ⇔ `p = 1 ⊕ q` (**the leading one is required**), `q` avoids the mesh
    pattern `(01, M)`, and the last skew component of `q` is not increasing -/
theorem validRu2143_iff_def (p : NSeq) (hp : IsPerm p) :
    Strat.valid .ru2143 p = .ok true ↔ ∃ q, IsPerm q ∧ p = Model.directSum [0] q ∧
      Model.containsMesh q ⟨[0, 1], mShading⟩ = false ∧
      ∃ lc, lastSkewComponent q = .ok lc ∧ Model.avoidsAll lc [[1, 0]] = false :=
  validRu2143_iff p hp

example : Strat.valid .ru2143 [1, 0, 2] = .ok false ∧ Strat.valid .ru2143 [0] = .ok false := ⟨rfl, rfl⟩

example : SumDecomposable [1, 0, 2] ∧ ¬ SumDecomposable [2, 0, 1] ∧ zeroPlusSumind [0, 3, 1, 2] = .ok true :=
  ⟨⟨[1, 0], [0], by decide, by decide, by decide, by decide, by decide⟩,
   fun h => by rw [← isSumDecomposable_iff [2, 0, 1] (by decide)] at h; exact absurd h (by decide), rfl⟩

/-! ## A3 — the two class-test strategies -/

theorem inverse_rotate_one {p : NSeq} (hp : IsPerm p) : Model.inverse (Model.rotate p 1) = Model.reverse p := by
  rw [C13.rotate_one_eq, C13.inverse_complement (C13.isPerm_inverse hp), C13.inverse_inverse hp]

/-- **the insertion-encoding strategy is reported exactly when `is_insertion_encodable` succeeds on the
    basis**: the second call, on the rotated set, adds nothing – its rightmost test is the topmost test of
    the basis and its topmost test is the rightmost test of the reversed basis -/
theorem insEncApplies_eq (B : List NSeq) (hB : ∀ p ∈ B, IsPerm p) : insEncApplies B = isInsEnc ⟨B, false⟩ := by
  have hD : ∀ p ∈ B.eraseDups, IsPerm p := fun p hp => hB p (List.mem_eraseDups.mp hp)
  have hrot : ∀ p ∈ B.eraseDups.map (Model.rotate · 1), IsPerm p := by
    intro p hp; obtain ⟨q, hq, rfl⟩ := List.mem_map.mp hp; exact C13.isPerm_rotate_one (hD q hq)
  unfold insEncApplies
  rw [C13.isInsEnc_container ⟨B.eraseDups.map (Model.rotate · 1), true⟩, isInsEnc_list, isInsEnc_list]
  have h1 : isRightmost ⟨B.eraseDups.map (Model.rotate · 1), false⟩ = isMaximum ⟨B.eraseDups, false⟩ :=
    (C13.isMaximum_eq_rightmost_rotate B.eraseDups false false).symm
  have h2 : isMaximum ⟨B.eraseDups.map (Model.rotate · 1), false⟩ = isRightmost ⟨B.eraseDups, false⟩ := by
    rw [C13.isMaximum_eq_rightmost_inverse _ false hrot, List.map_map,
      ← C13.isRightmost_reverse B.eraseDups false hD]
    congr 2
    apply List.map_congr_left
    intro p hp
    exact inverse_rotate_one (hD p hp)
  simp only [h1, h2]
  have := (C13.verdicts_of_mem_iff B.eraseDups B false false fun p => List.mem_eraseDups).2.2.2.2
  rw [← this, isInsEnc_list]
  cases isRightmost ⟨B.eraseDups, false⟩ <;> cases isMaximum ⟨B.eraseDups, false⟩ <;> rfl

/-- the insertion-encoding strategy's answer is the same for each of the eight symmetric images -/
theorem insEncApplies_sym (k : Nat) (B : List NSeq) (hB : ∀ p ∈ B, IsPerm p) :
    insEncApplies (B.map (Model.C13.sym k)) = insEncApplies B := by
  rw [insEncApplies_eq _ (fun p hp => by
      obtain ⟨q, hq, rfl⟩ := List.mem_map.mp hp; exact C13.isPerm_sym k (hB q hq)), insEncApplies_eq B hB]
  exact (C13.verdicts_sym k B hB).2.2

theorem appliesByName_insEnc (B : List NSeq) (hfs : Bool) (hB : ∀ p ∈ B, IsPerm p) :
    appliesByName "InsertionEncodingStrategy" B hfs = .ok (isInsEnc ⟨B, false⟩) := by
  unfold appliesByName
  rw [if_pos (by decide), insEncApplies_eq B hB]

/-- the finitely-many-simples strategy is reported exactly when `has_finite_simples` says so -/
theorem appliesByName_finSimples (B : List NSeq) (hfs : Bool) :
    appliesByName "FinitelyManySimplesStrategy" B hfs = .ok hfs := by
  unfold appliesByName
  rw [if_neg (by decide), if_pos (by decide)]

/-! ## A2 for the whole search, A4 -/

theorem appliesByName_of_mem_iff (n : String) (B B' : List NSeq) (hfs : Bool)
    (hB : ∀ q ∈ B, Good q) (h : ∀ p, p ∈ B ↔ p ∈ B') : appliesByName n B hfs = appliesByName n B' hfs := by
  unfold appliesByName
  by_cases h1 : (n == "InsertionEncodingStrategy") = true
  · rw [if_pos h1, if_pos h1, insEncApplies_eq B fun p hp => (hB p hp).1,
      insEncApplies_eq B' fun p hp => (hB p ((h p).mpr hp)).1,
      (C13.verdicts_of_mem_iff B B' false false h).2.2.2.2]
  · rw [if_neg h1, if_neg h1]
    by_cases h2 : (n == "FinitelyManySimplesStrategy") = true
    · rw [if_pos h2, if_pos h2]
    · rw [if_neg h2, if_neg h2]
      cases Strat.all.find? (fun s => s.name == n) with
      | none => rfl
      | some s => exact coreApplies_of_mem_iff s B B' hB h

/-- **A2**: the reported list is unchanged by reordering or repeating basis elements (both searches) -/
theorem findStrategies_of_mem_iff (B B' : List NSeq) (long hfs : Bool)
    (hB : ∀ q ∈ B, Good q) (h : ∀ p, p ∈ B ↔ p ∈ B') :
    findStrategies B long hfs = findStrategies B' long hfs := by
  unfold findStrategies
  exact collect_congr B B' hfs (fun n => appliesByName_of_mem_iff n B B' hfs hB h) _

theorem findStrategies_perm (B B' : List NSeq) (long hfs : Bool) (hB : ∀ q ∈ B, Good q)
    (h : B.Perm B') : findStrategies B long hfs = findStrategies B' long hfs :=
  findStrategies_of_mem_iff B B' long hfs hB fun _ => h.mem_iff

/-- **A4**: the quick search returns the slow search's result minus the slow strategies (an exception
    of one is an exception of the other) -/
theorem find_quick_eq_filter (B : List NSeq) (hfs : Bool) :
    findStrategies B false hfs =
      (findStrategies B true hfs).map fun l => l.filter fun n => !Generated.longStrategies.contains n := by
  unfold findStrategies
  simp only [Bool.false_eq_true, if_false, if_true]
  rw [show Generated.findStrategiesLong = Generated.findStrategiesQuick ++ Generated.longStrategies by decide,
    collect_append]
  have hlong : collect B hfs Generated.longStrategies =
      .ok (if hfs then ["FinitelyManySimplesStrategy"] else []) := by
    rw [show Generated.longStrategies = ["FinitelyManySimplesStrategy"] by decide, collect,
      appliesByName_finSimples, collect]
  rw [hlong]
  cases hq : collect B hfs Generated.findStrategiesQuick with
  | error e => rfl
  | ok a =>
    have hsub := collect_subset B hfs _ a hq
    have hkeep : a.filter (fun n => !Generated.longStrategies.contains n) = a := by
      rw [List.filter_eq_self]
      intro n hn
      have hmem := hsub n hn
      have : ∀ m ∈ Generated.findStrategiesQuick, (!Generated.longStrategies.contains m) = true := by decide
      exact this n hmem
    simp only [Except.map, List.filter_append, hkeep]
    cases hfs
    · simp
    · simp; decide

/-- the length-one permutation no longer raises: the four shape tests that strip it to the empty
    permutation answer `False` -/
theorem valid_length_one :
    Strat.valid .rdCdCu [0] = .ok false ∧ Strat.valid .rdCu [0] = .ok false ∧
    Strat.valid .rd2134 [0] = .ok false ∧ Strat.valid .ru2143 [0] = .ok false :=
  ⟨rfl, rfl, rfl, rfl⟩

/-- non-vacuity: a paper basis meets the hypotheses, and the RdCd strategy's hypothesis holds for it -/
example : Good [1, 3, 0, 2] ∧ Good [2, 0, 3, 1] ∧ Strat.valid .rdCd [0, 3, 1, 2] = .ok true ∧
    Strat.valid .rdCd [0, 1, 3, 2] = .ok false := by
  refine ⟨⟨by decide, by decide⟩, ⟨by decide, by decide⟩, rfl, rfl⟩

end C19
