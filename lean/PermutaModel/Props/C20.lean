import PermutaModel.Lemmas.C20Db
import PermutaModel.Lemmas.C20Spec
import PermutaModel.Model.C20Gen

/-!
# C20 — persisted BiSC data and stored automata are faithful

Property theorems only (helpers live in `Lemmas/C20*.lean`).  The statements are about the
definitions the driver executes (`Model.C20.run`, `readBisc`, `dbRun`, …) and, where the source
text matters, about `Model.C20.genCfg`, the configuration the translator extracts from the
current source (`Generated.c20WriteMode`, `c20ReadCaught`, `c20StoreWriteOnce`, …).

Data sets are Python dictionaries: association lists with distinct keys (`(d.map Prod.fst).Nodup`).
-/
open Model.C20 Spec.C20

namespace C20

/-! ## A1  JSON round trip -/

/-- `from_json(json.dumps(d)) = d` for every dictionary `d` of the BiSC shape (with and without the
    shape validation of `from_json`). -/
theorem json_roundtrip (v : Bool) (d : Dataset) (hd : (d.map Prod.fst).Nodup) : fromJsonStr v (dumps d) = .ok d :=
  fromJsonStr_dumps v d hd

example : fromJsonStr genCfg.validateShape (dumps [(0, [[]]), (12, [[1, 0, 2], [10, 11]])])
    = .ok [(0, [[]]), (12, [[1, 0, 2], [10, 11]])] := by
  decide

/-- `json.dumps` of a dictionary is one line, so `readline` returns all of it. -/
theorem dumps_single_line (d : Dataset) : firstLine (dumps d) = dumps d :=
  firstLine_of_no_nl _ (nl_dumps d)

/-! ## A2  reading after a history of writes -/

/-- every target directory of the history exists and every data set is a dictionary -/
def WellFormed (ops : List Op) : Prop :=
  (∀ w ∈ ops.flatMap Op.writes, dirMissing w.1 = false) ∧ (∀ w ∈ ops.flatMap Op.writes, (w.2.map Prod.fst).Nodup)

/-- **Full statement**: from any initial directory and after any history of
    `write_json_to_file` / `write_bisc_files` / `read_bisc_file` calls, reading a name returns
    exactly the data set last written to it. -/
def ReadAfterWrites (cfg : Cfg) : Prop :=
  ∀ (fs : FS) (ops : List Op) (path : Str) (d : Dataset), WellFormed ops →
    lastWritten ops (path ++ dotJson) = some d → readBisc cfg (exec cfg fs ops) path = .ok d

/-- the weaker statement: histories that write every file at most once, read on a name whose file
    did not exist (or was empty) in the initial directory -/
def ReadAfterWritesOnce (cfg : Cfg) : Prop :=
  ∀ (fs : FS) (ops : List Op) (path : Str) (d : Dataset), WellFormed ops →
    ((ops.flatMap Op.writes).map Prod.fst).Nodup →
    (fsGet fs (path ++ dotJson)).getD [] = [] →
    lastWritten ops (path ++ dotJson) = some d → readBisc cfg (exec cfg fs ops) path = .ok d

/-- The full statement holds whenever the writer opens its file in a truncating mode
    (`'w'` in the mode string). -/
theorem read_after_writes_of_truncating (cfg : Cfg) (h : Truncating cfg.writeMode) : ReadAfterWrites cfg := by
  intro fs ops path d hwf hl
  apply readBisc_of_content cfg _ path d
  · unfold exec
    rw [fsGet_applyWrites_truncating cfg h _ fs _ hwf.1, ← lastWritten_eq, hl]
  · unfold lastWritten at hl
    cases hf : (ops.flatMap Op.writes).reverse.find? (fun w => decide (w.1 = path ++ dotJson)) with
    | none => simp [hf] at hl
    | some w =>
      simp [hf] at hl
      subst hl
      exact hwf.2 w (by simpa using List.mem_of_find?_eq_some hf)

/-- With a truncating or an appending mode: **partial** – only histories that write each file at
    most once, onto a file that was absent or empty.  (Missing: rewriting a name.) -/
theorem read_after_writes_partial (cfg : Cfg) (h : Truncating cfg.writeMode ∨ Appending cfg.writeMode) :
    ReadAfterWritesOnce cfg := by
  intro fs ops path d hwf hnd hempty hl
  rcases h with h | h
  · exact read_after_writes_of_truncating cfg h fs ops path d hwf hl
  · apply readBisc_of_content cfg _ path d
    · unfold exec
      rw [fsGet_applyWrites_appending_once cfg h _ fs _ hwf.1 hnd, ← lastWritten_eq, hl]
      simp [hempty]
    · unfold lastWritten at hl
      cases hf : (ops.flatMap Op.writes).reverse.find? (fun w => decide (w.1 = path ++ dotJson)) with
      | none => simp [hf] at hl
      | some w =>
        simp [hf] at hl
        subst hl
        exact hwf.2 w (by simpa using List.mem_of_find?_eq_some hf)

/-- The full statement is **false** for every appending mode: writing the same data set twice to
    one name leaves two JSON texts in the file and the read does not return the data set. -/
theorem not_read_after_writes_of_appending (cfg : Cfg) (h : Appending cfg.writeMode) : ¬ ReadAfterWrites cfg := by
  intro hfull
  have key := hfull [] [.write (['a'] ++ dotJson) [(1, [[0]])], .write (['a'] ++ dotJson) [(1, [[0]])]] ['a'] [(1, [[0]])]
    ⟨by decide, by decide⟩ (by decide)
  have hfile : fsGet (exec cfg [] [.write (['a'] ++ dotJson) [(1, [[0]])], .write (['a'] ++ dotJson) [(1, [[0]])]])
      (['a'] ++ dotJson) = some (dumps [(1, [[0]])] ++ dumps [(1, [[0]])]) := by
    simp only [exec, List.flatMap_cons, List.flatMap_nil, Op.writes, List.append_nil, List.singleton_append, applyWrites]
    rw [writeJson_appending cfg h _ _ _ (by decide)]
    simp only []
    rw [writeJson_appending cfg h _ _ _ (by decide)]
    simp only [fsGet_fsSet_same]
    decide
  have hbad : ∀ v, fromJsonStr v (dumps [(1, [[0]])] ++ dumps [(1, [[0]])]) = .err .jsonDecode := by decide
  have hline : firstLine (dumps [(1, [[0]])] ++ dumps [(1, [[0]])]) = dumps [(1, [[0]])] ++ dumps [(1, [[0]])] := by decide
  unfold readBisc at key
  rw [hfile] at key
  simp only [hline, ite_self, hbad] at key
  unfold handleRead at key
  split at key <;> cases key

/-- **The obligation for the current source** (full statement): `write_json_to_file` as it is in the
    repository now (`genCfg`, mode extracted by the translator) satisfies read-after-writes for every
    initial directory and every history.  Stops elaborating if the writer goes back to an appending mode. -/
theorem read_after_writes : ReadAfterWrites genCfg :=
  read_after_writes_of_truncating genCfg (by decide)

/-- non-vacuity: a two-write history on the current source – the second data set is read back -/
example : readBisc genCfg
    (exec genCfg [] [.write (['a'] ++ dotJson) [(1, [[0]])], .write (['a'] ++ dotJson) [(2, [[0, 1]])]])
    ['a'] = .ok [(2, [[0, 1]])] := by decide

/-- the same history with the former mode `"a+"`: "File is invalid" (regression illustration) -/
example : readBisc { genCfg with writeMode := ['a', '+'] }
    (exec { genCfg with writeMode := ['a', '+'] } [] [.write (['a'] ++ dotJson) [(1, [[0]])], .write (['a'] ++ dotJson) [(2, [[0, 1]])]])
    ['a'] = .invalid := by decide

/-- Names that no call of the history writes keep their content – in every mode. -/
theorem unwritten_names_untouched (cfg : Cfg) (fs : FS) (ops : List Op) (name : Str)
    (h : ∀ w ∈ ops.flatMap Op.writes, w.1 ≠ name) : fsGet (exec cfg fs ops) name = fsGet fs name := by
  unfold exec
  generalize ops.flatMap Op.writes = ws at h
  induction ws generalizing fs with
  | nil => rfl
  | cons w ws ih =>
    obtain ⟨n, d⟩ := w
    rw [applyWrites, ih _ (fun w hw => h w (by simp [hw])), fsGet_writeJson_ne cfg fs n name d (h (n, d) (by simp))]

/-- The reads inside a history see exactly the directory left by the calls before them, and reads
    change nothing: `run` (what the driver executes) is `exec` plus the answers. -/
theorem run_fs (cfg : Cfg) (fs : FS) (ops : List Op) : (run cfg fs ops).1 = exec cfg fs ops := by
  induction ops generalizing fs with
  | nil => rfl
  | cons op ops ih =>
    rw [run, ih]
    cases op <;> simp [step, exec, Op.writes, applyWrites]
    all_goals
      rename_i a b c
      induction (createBiscInput b c) <;> rfl

theorem run_read_answer (cfg : Cfg) (fs : FS) (pre post : List Op) (path : Str) :
    (run cfg fs (pre ++ .read path :: post)).2[pre.length]? = some (.readRes (readBisc cfg (exec cfg fs pre) path)) := by
  induction pre generalizing fs with
  | nil => simp [run, step, exec, applyWrites]
  | cons op pre ih =>
    have hexec : ∀ fs, exec cfg (exec cfg fs [op]) pre = exec cfg fs (op :: pre) := by
      intro fs
      unfold exec
      simp only [List.flatMap_cons, List.flatMap_nil, List.append_nil]
      generalize op.writes = w1
      induction w1 generalizing fs with
      | nil => rfl
      | cons w ws ihw => obtain ⟨n, d⟩ := w; simp only [List.cons_append, applyWrites]; exact ihw _
    have hstep : (step cfg fs op).1 = exec cfg fs [op] := by
      have := run_fs cfg fs [op]
      simpa [run] using this
    simp only [List.cons_append, run, List.length_cons, List.getElem?_cons_succ]
    rw [ih, hstep, hexec]

/-! ## A3  missing or malformed files -/

/-- **Full statement**: `read_bisc_file` of the current source returns exactly the dictionary the file
    denotes (`Spec.C20.fileValue`: file present, its *whole* content one JSON text – white space allowed,
    trailing data not –, an object with integer-string keys and arrays of arrays of naturals), and in
    every other case – absent file, non-JSON, trailing data, non-object JSON, any wrong shape – prints
    "File is invalid" and returns `{}`.  Never other data, never an escaping exception. -/
theorem missing_or_malformed_reported (fs : FS) (path : Str) :
    readBisc genCfg fs path = match fileValue fs path with
      | some d => .ok d
      | none => .invalid :=
  readBisc_eq_spec genCfg (by decide) (by decide) (by decide) (by decide) (by decide) fs path

/-- the reader returns data iff the file is a well-formed BiSC data file, and then its value -/
theorem read_ok_iff_wellformed (fs : FS) (path : Str) (d : Dataset) :
    readBisc genCfg fs path = .ok d ↔ fileValue fs path = some d := by
  rw [missing_or_malformed_reported]
  cases fileValue fs path with
  | none => simp
  | some d' => simp

/-- everything else is reported -/
theorem read_invalid_iff_not_wellformed (fs : FS) (path : Str) :
    readBisc genCfg fs path = .invalid ↔ fileValue fs path = none := by
  rw [missing_or_malformed_reported]
  cases fileValue fs path with
  | none => simp
  | some d' => simp

/-- what the library writes is well-formed and denotes the dictionary written -/
theorem dumps_wellformed (fs : FS) (path : Str) (d : Dataset) (hd : (d.map Prod.fst).Nodup)
    (h : fsGet fs (path ++ dotJson) = some (dumps d)) : fileValue fs path = some d := by
  simp [fileValue, h, loads_dumps, decode_toJ d hd]

/-- non-vacuity and regression cases of the reader (the former lenient behaviours):
    white space is fine; trailing garbage, non-object JSON, a string where a list is expected, a
    boolean where an int is expected are all reported -/
example : readBisc genCfg [(['f'] ++ dotJson, [' ', '{', '"', '1', '"', ' ', ':', ' ', '[', ' ', '[', '0', ' ', ']', ' ', ']', ' ', '}', ' ', '\n'])] ['f'] = .ok [(1, [[0]])] := by decide
example : readBisc genCfg [(['f'] ++ dotJson, ['{', '"', '1', '"', ':', ' ', '[', '[', '0', ']', ']', '}', '\n', 'g', 'a', 'r', 'b', 'a', 'g', 'e'])] ['f'] = .invalid := by decide
example : readBisc genCfg [(['f'] ++ dotJson, ['[', '1', ',', ' ', '2', ']'])] ['f'] = .invalid := by decide
example : readBisc genCfg [(['f'] ++ dotJson, ['{', '"', '1', '"', ':', ' ', '"', 'a', 'b', '"', '}'])] ['f'] = .invalid := by decide
example : readBisc genCfg [(['f'] ++ dotJson, ['{', '"', '1', '"', ':', ' ', '[', '[', 't', 'r', 'u', 'e', ']', ']', '}'])] ['f'] = .invalid := by decide
example : readBisc genCfg [] ['f'] = .invalid := by decide

/-- (any configuration) a missing file is reported, provided `OSError` is caught -/
theorem missing_reported (cfg : Cfg) (hc : caught cfg.readCaught .fileNotFound = true) (fs : FS) (path : Str)
    (h : fsGet fs (path ++ dotJson) = none) : readBisc cfg fs path = .invalid := by
  simp [readBisc, h, handleRead, hc]

/-- (any configuration) a successful read returns what the parsed text denotes – never other data -/
theorem read_ok_only_from_file (cfg : Cfg) (fs : FS) (path : Str) (d : Dataset) (h : readBisc cfg fs path = .ok d) :
    ∃ content, fsGet fs (path ++ dotJson) = some content ∧
      fromJsonStr cfg.validateShape (if cfg.readOneLine then firstLine content else content) = .ok d := by
  unfold readBisc at h
  split at h
  · unfold handleRead at h; split at h <;> cases h
  · rename_i content hc
    refine ⟨content, hc, ?_⟩
    split at h
    · rename_i d' hd; cases h; exact hd
    · cases h
    · unfold handleRead at h; split at h <;> cases h

/-! ## A4  the automaton database -/

section db
variable {A : Type}

/-- **First stored wins**: once an automaton has been stored for `p` into an empty slot, every later
    `load_dfa_for_perm(p)` – after any sequence of further stores (of other automata, for any
    permutation), loads, `create_dfa_db_for_length` calls and process restarts – returns it.
    Needs the existence check of `store_dfa_for_perm`. -/
theorem load_returns_first_stored (cfg : Cfg) (hw : cfg.storeWriteOnce = true) (mk : NSeq → A) (db : DB A)
    (hc : Coherent db) (p : NSeq) (x : Option A) (hk : fsGet db.files (dbKey p) = none)
    (ops : List (DbOp A)) (hapi : ∀ op ∈ ops, op.isApi) :
    (load cfg mk (dbRun cfg mk (store cfg mk db p x) ops).1 p).2 = .ok (x.getD (mk p)) := by
  have hc1 : Coherent (store cfg mk db p x) := by
    intro q a hq
    rw [store_cache] at hq
    exact store_files_mono cfg hw mk db p x _ _ (hc q a hq)
  apply load_of_file cfg mk _ (dbRun_coherent cfg hw mk ops _ hapi hc1)
  exact dbRun_files_mono cfg hw mk ops _ hapi _ _ (store_absent cfg mk db p x hk)

/-- the same for the configuration extracted from the source -/
theorem load_returns_first_stored_generated (mk : NSeq → A) (db : DB A)
    (hc : Coherent db) (p : NSeq) (x : Option A) (hk : fsGet db.files (dbKey p) = none)
    (ops : List (DbOp A)) (hapi : ∀ op ∈ ops, op.isApi) :
    (load genCfg mk (dbRun genCfg mk (store genCfg mk db p x) ops).1 p).2 = .ok (x.getD (mk p)) :=
  load_returns_first_stored genCfg (by decide) mk db hc p x hk ops hapi

/-- non-vacuity: store for 021, then a foreign store to the same slot, a restart, a create – the load
    still returns the first automaton (automata are symbolic here: the permutation they were made for) -/
example : (load genCfg id (dbRun genCfg id (store genCfg id ⟨[], []⟩ [0, 2, 1] none)
    [.store [0, 2, 1] (some [0, 1]), .load [0, 2, 1], .restart, .create 3]).1 [0, 2, 1]).2 = .ok [0, 2, 1] := by decide

/-- The memo never disagrees with the files: after any history of library calls, a memoised
    automaton is the one stored in the file of its permutation. -/
theorem memo_agrees_with_file (cfg : Cfg) (hw : cfg.storeWriteOnce = true) (mk : NSeq → A) (ops : List (DbOp A))
    (db : DB A) (hapi : ∀ op ∈ ops, op.isApi) (hc : Coherent db) : Coherent (dbRun cfg mk db ops).1 :=
  dbRun_coherent cfg hw mk ops db hapi hc

/-- **Every load is faithful**: let `Good p a` mean "`a` is language-equivalent to a fresh computation
    for `p`".  If the database starts with good content, every automaton handed to
    `store_dfa_for_perm` is good for its permutation, `make_dfa_for_perm` is good, and file names are
    injective on the permutations in play (`P`), then after any history every `load_dfa_for_perm(p)`
    returns an automaton that is good for `p` – and the database stays good. -/
theorem load_returns_good (cfg : Cfg) (mk : NSeq → A) (P : NSeq → Prop) (Good : NSeq → A → Prop)
    (hinj : ∀ p q, P p → P q → dbKey p = dbKey q → p = q) (hmk : ∀ p, P p → Good p (mk p))
    (ops : List (DbOp A)) (db : DB A) (hg : GoodDB P Good db) (hops : ∀ op ∈ ops, OpOk P Good op) :
    GoodDB P Good (dbRun cfg mk db ops).1 ∧ AllOutOk Good ops (dbRun cfg mk db ops).2 :=
  dbRun_good cfg mk hinj hmk ops db hg hops

/-- File names are injective on permutations with single-digit entries (length ≤ 10) … -/
theorem dbKey_injective_of_entries_lt_10 (p q : NSeq) (hp : ∀ x ∈ p, x < 10) (hq : ∀ x ∈ q, x < 10)
    (h : dbKey p = dbKey q) : p = q :=
  dbKey_injective_lt10 p q hp hq h

/-- … so for permutations of length ≤ 10 every load is faithful, from the empty database, for every
    history of stores (of good automata), loads, creates (length ≤ 10) and restarts. -/
theorem load_returns_good_upto_length_10 (cfg : Cfg) (mk : NSeq → A) (Good : NSeq → A → Prop)
    (hmk : ∀ p, Good p (mk p)) (ops : List (DbOp A))
    (hops : ∀ op ∈ ops, OpOk (fun p => ∀ x ∈ p, x < 10) Good op) :
    AllOutOk Good ops (dbRun cfg mk ⟨[], []⟩ ops).2 :=
  (dbRun_good cfg mk (P := fun p => ∀ x ∈ p, x < 10) (fun p q hp hq h => dbKey_injective_lt10 p q hp hq h)
    (fun p _ => hmk p) ops ⟨[], []⟩
    ⟨fun p _ c h => by simp [fsGet] at h, fun p a _ h => by simp [cacheGet] at h⟩ hops).2

/-- `create_dfa_db_for_length n` satisfies the side condition for `n ≤ 10` -/
theorem create_ok_upto_10 (Good : NSeq → A → Prop) (n : Nat) (hn : n ≤ 10) :
    OpOk (fun p => ∀ x ∈ p, x < 10) Good (.create n : DbOp A) := by
  intro p hp x hx
  have := permsLex_entries n p hp x hx
  omega

/-- non-vacuity (symbolic automata, `Good p a := a = p`) -/
example : AllOutOk (fun p a => a = p)
    [.create 2, .load [1, 0], .store [0, 1] (some [0, 1]), .restart, .load [0, 1], .load [2, 0, 1]]
    (dbRun genCfg id ⟨[], []⟩ [.create 2, .load [1, 0], .store [0, 1] (some [0, 1]), .restart, .load [0, 1], .load [2, 0, 1]]).2 := by
  have h : (dbRun genCfg id ⟨[], []⟩ [.create 2, .load [1, 0], .store [0, 1] (some [0, 1]), .restart, .load [0, 1],
      .load [2, 0, 1]]).2 = [none, some (.ok [1, 0]), none, none, some (.ok [0, 1]), some (.ok [2, 0, 1])] := by decide
  rw [h]
  simp [AllOutOk, OutOk]

/-- Observation (labelled, not a defect claim): from length 11 on, file names collide
    (`''.join(str(i) for i in perm)`), so the injectivity hypothesis cannot be dropped. -/
theorem dbKey_collision :
    dbKey [1, 0, 10, 2, 3, 4, 5, 6, 7, 8, 9] = dbKey [10, 1, 0, 2, 3, 4, 5, 6, 7, 8, 9] ∧
    ([1, 0, 10, 2, 3, 4, 5, 6, 7, 8, 9] : NSeq) ≠ [10, 1, 0, 2, 3, 4, 5, 6, 7, 8, 9] := by decide

end db

end C20
