import PermutaModel.Props.C19
import PermutaModel.Props.C16
/-! # C19 – property theorems that rest on C16's symmetry theorem (proved later in the import order)

In `Model/C19.lean` the verdict of `FinitelyManySimplesStrategy(basis).applies()` is an opaque Boolean input
`hfs` of `findStrategies`; `Props/C19.lean` therefore proves the symmetry invariance of the slow search only
*given* the same verdict for the basis and its image (`findStrategies_sym_of_verdict`).  Here the input is
instantiated with C16's model of that very call, `Model.C16.strategyApplies B = has_finite_simples(frozenset(B))`,
whose invariance under the eight symmetries follows from `C16.hasFiniteSimples_act_all` and
`C16.hasFiniteSimples_class_only_all` (Bassino–Bouvel–Pierrot–Rossin through `Props/C14.lean`).  These are
proof obligations of the C19 check like those of `Props/C19.lean` (harness/core.py `prop_modules`). -/
open Model.C13 Model.C19 Spec.C19
open Proto (Err)

namespace C19

/-- `FinitelyManySimplesStrategy(B).applies()` (C16's model: `has_finite_simples` of the stored `frozenset`)
    gives the same answer for the basis and each of its eight symmetric images -/
theorem strategyApplies_act (B : List NSeq) (hB : ∀ q ∈ B, IsPerm q) (g : D8) :
    Model.C16.strategyApplies (B.map g.act) = Model.C16.strategyApplies B := by
  unfold Model.C16.strategyApplies
  have hE : ∀ q ∈ B.eraseDups, IsPerm q := fun q hq => hB q (List.mem_eraseDups.mp hq)
  have hgE : ∀ q ∈ B.eraseDups.map g.act, IsPerm q := isPerm_map_act hE g
  have hgB : ∀ q ∈ (B.map g.act).eraseDups, IsPerm q :=
    fun q hq => isPerm_map_act hB g q (List.mem_eraseDups.mp hq)
  rw [← C16.hasFiniteSimples_act_all B.eraseDups hE g false false none]
  refine C16.hasFiniteSimples_class_only_all _ _ hgB hgE ?_ false false none
  intro σ _
  have hmem : ∀ x, x ∈ (B.map g.act).eraseDups ↔ x ∈ B.eraseDups.map g.act := by
    intro x
    simp only [List.mem_eraseDups, List.mem_map]
  exact ⟨fun h x hx => h x ((hmem x).mpr hx), fun h x hx => h x ((hmem x).mp hx)⟩

/-- **T3 / A2 (symmetries), the whole search, no hypothesis on the verdict left**: with the
    `has_finite_simples` input of the model instantiated by C16's model of
    `FinitelyManySimplesStrategy(basis).applies()`, the list (or exception) that `find_strategies` reports –
    quick or slow search – is the same for the basis and each of its eight symmetric images -/
theorem findStrategies_sym_full (B : List NSeq) (long : Bool) (hB : ∀ q ∈ B, Good q) (g : D8) :
    findStrategies (B.map g.act) long (Model.C16.strategyApplies (B.map g.act)) =
      findStrategies B long (Model.C16.strategyApplies B) :=
  findStrategies_sym_of_verdict Model.C16.strategyApplies B long hB g
    (strategyApplies_act B (fun q hq => (hB q hq).1) g)

/-- non-vacuity: the hypotheses are met by a paper basis and the image is a different list -/
example (long : Bool) :
    findStrategies [[2, 0, 3, 1], [1, 3, 0, 2], [2, 1, 3, 0]] long
        (Model.C16.strategyApplies [[2, 0, 3, 1], [1, 3, 0, 2], [2, 1, 3, 0]]) =
      findStrategies [[1, 3, 0, 2], [2, 0, 3, 1], [0, 3, 1, 2]] long
        (Model.C16.strategyApplies [[1, 3, 0, 2], [2, 0, 3, 1], [0, 3, 1, 2]]) := by
  have hG : ∀ q ∈ [[1, 3, 0, 2], [2, 0, 3, 1], [0, 3, 1, 2]], Good q := by
    intro q hq
    simp only [List.mem_cons, List.not_mem_nil, or_false] at hq
    rcases hq with rfl | rfl | rfl <;> exact ⟨by decide, by decide⟩
  exact findStrategies_sym_full _ long hG ⟨true, false, false⟩

end C19
