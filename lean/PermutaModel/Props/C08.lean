import PermutaModel.Lemmas.C08Hash
import PermutaModel.Lemmas.PySort
import PermutaModel.Lemmas.C08BasisOrder
import Mathlib.Data.List.Sort

/-!
# C08 — equality, hashing and ordering of permutations, patterns and bases are coherent

Property theorems only.  `Model.C08.cmp m a b` is `a op b` evaluated with Python's dispatch on the
dunder table *generated from the current source* (`Generated.dunder`, `Generated.hashBody`);
`Model.C08.hash h x` is `hash(x)` when the allocator behaves as the history `h`.

All statements are the full ones: every pair of objects of the universe (permutations, the four
mesh-type classes, `Basis`, `MeshBasis`), every pair of allocation histories.  (`Obj.WF` only says that
a mesh-type object has one of the four mesh classes – i.e. that it is an object that can exist.)
-/
open Model Model.C08 Generated

namespace C08

/-! ## A1 equality -/

/-- value equality: same kind of thing, same value (the subclass of a mesh-type pattern is irrelevant) -/
def valEq : Obj → Obj → Bool
  | .atom (.perm p), .atom (.perm q) => p == q
  | .atom (.mesh x), .atom (.mesh y) => meshKeyEq x y
  | .basis xs, .basis ys => xs == ys
  | .mbasis xs, .mbasis ys => meshListEq xs ys
  | _, _ => false

/-- `==` is value equality on every supported pair of objects, whatever their subclasses -/
theorem eq_is_value_equality (a b : Obj) (ha : Obj.WF a) (hb : Obj.WF b) (hs : supported a b = true) :
    cmp .eq a b = .ok (valEq a b) := by
  cases a with
  | atom x =>
    cases b with
    | atom y =>
      rw [cmp_atom]
      cases x with
      | perm p =>
        cases y with
        | perm q => exact cmpAtom_perm .eq p q
        | mesh y => exact cmpAtom_perm_mesh .eq p y hb
      | mesh x =>
        cases y with
        | perm q => exact cmpAtom_mesh_perm .eq x q ha
        | mesh y => exact cmpAtom_mesh .eq x y ha hb
    | basis ys => simp [supported] at hs
    | mbasis ys => simp [supported] at hs
  | basis xs =>
    cases b with
    | atom y => simp [supported] at hs
    | basis ys => exact cmp_eq_basis xs ys
    | mbasis ys => exact (cmp_eq_basis_mbasis xs ys).1
  | mbasis xs =>
    cases b with
    | atom y => simp [supported] at hs
    | basis ys => exact (cmp_eq_basis_mbasis ys xs).2
    | mbasis ys => exact cmp_eq_mbasis xs ys ha hb

/-- `==` is reflexive (on equal-valued distinct objects), symmetric and transitive -/
theorem eq_equivalence :
    (∀ a, Obj.WF a → cmp .eq a a = .ok true) ∧
    (∀ a b, Obj.WF a → Obj.WF b → supported a b = true → cmp .eq a b = cmp .eq b a) ∧
    (∀ a b c, Obj.WF a → Obj.WF b → Obj.WF c → supported a b = true → supported b c = true →
      cmp .eq a b = .ok true → cmp .eq b c = .ok true → cmp .eq a c = .ok true) := by
  have hsupp_self : ∀ a : Obj, supported a a = true := by intro a; cases a <;> rfl
  have hsupp_symm : ∀ a b : Obj, supported a b = true → supported b a = true := by
    intro a b h; cases a <;> cases b <;> first | rfl | exact h
  have hsupp_trans : ∀ a b c : Obj, supported a b = true → supported b c = true → supported a c = true := by
    intro a b c h1 h2; cases a <;> cases b <;> cases c <;> first | rfl | exact h1 | exact h2
  have hval_symm : ∀ a b : Obj, valEq a b = valEq b a := by
    intro a b
    cases a with
    | atom x =>
      cases b with
      | atom y =>
        cases x <;> cases y <;> simp only [valEq]
        · exact beq_symm' _ _
        · exact meshKeyEq_comm _ _
      | basis => cases x <;> rfl
      | mbasis => cases x <;> rfl
    | basis xs =>
      cases b with
      | atom y => cases y <;> rfl
      | basis ys => simp only [valEq]; exact beq_symm' _ _
      | mbasis => rfl
    | mbasis xs =>
      cases b with
      | atom y => cases y <;> rfl
      | basis => rfl
      | mbasis ys => exact meshListEq_symm _ _
  refine ⟨?_, ?_, ?_⟩
  · intro a ha
    rw [eq_is_value_equality a a ha ha (hsupp_self a)]
    cases a with
    | atom x => cases x <;> simp [valEq, meshKeyEq]
    | basis xs => simp [valEq]
    | mbasis xs => simp [valEq, meshListEq_refl]
  · intro a b ha hb hs
    rw [eq_is_value_equality a b ha hb hs, eq_is_value_equality b a hb ha (hsupp_symm a b hs), hval_symm]
  · intro a b c ha hb hc h1 h2 e1 e2
    rw [eq_is_value_equality a b ha hb h1] at e1
    rw [eq_is_value_equality b c hb hc h2] at e2
    rw [eq_is_value_equality a c ha hc (hsupp_trans a b c h1 h2)]
    have e1 : valEq a b = true := by injection e1
    have e2 : valEq b c = true := by injection e2
    congr 1
    cases a with
    | atom x =>
      cases b with
      | atom y =>
        cases c with
        | atom z =>
          cases x <;> cases y <;> cases z <;> simp only [valEq] at e1 e2 ⊢ <;>
            first
            | (simp only [beq_iff_eq] at e1 e2 ⊢; exact e1.trans e2)
            | exact meshKeyEq_trans e1 e2
            | exact absurd e1 (by decide)
            | exact absurd e2 (by decide)
        | basis => cases y <;> exact absurd e2 (by simp [valEq])
        | mbasis => cases y <;> exact absurd e2 (by simp [valEq])
      | basis => cases x <;> exact absurd e1 (by simp [valEq])
      | mbasis => cases x <;> exact absurd e1 (by simp [valEq])
    | basis xs =>
      cases b with
      | atom y => cases y <;> exact absurd e1 (by simp [valEq])
      | basis ys =>
        cases c with
        | atom z => cases z <;> exact absurd e2 (by simp [valEq])
        | basis zs => simp only [valEq, beq_iff_eq] at e1 e2 ⊢; exact e1.trans e2
        | mbasis => exact absurd e2 (by simp [valEq])
      | mbasis => exact absurd e1 (by simp [valEq])
    | mbasis xs =>
      cases b with
      | atom y => cases y <;> exact absurd e1 (by simp [valEq])
      | basis => exact absurd e1 (by simp [valEq])
      | mbasis ys =>
        cases c with
        | atom z => cases z <;> exact absurd e2 (by simp [valEq])
        | basis => exact absurd e2 (by simp [valEq])
        | mbasis zs => exact meshListEq_trans _ _ _ e1 e2

/-- a bivincular-type pattern equals the mesh pattern with the same shading – in both operand orders -/
theorem eq_symm_across_subclasses (x y : MObj) (hx : IsMeshCls x.cls) (hy : IsMeshCls y.cls) :
    cmp .eq (.atom (.mesh x)) (.atom (.mesh y)) = .ok (decide (x.pattern = y.pattern ∧ x.shading = y.shading)) ∧
    cmp .eq (.atom (.mesh y)) (.atom (.mesh x)) = .ok (decide (x.pattern = y.pattern ∧ x.shading = y.shading)) := by
  rw [cmp_atom, cmp_atom, cmpAtom_mesh .eq x y hx hy, cmpAtom_mesh .eq y x hy hx]
  simp only [meshCmpSpec, meshKeyEq_comm y x]
  have : meshKeyEq x y = decide (x.pattern = y.pattern ∧ x.shading = y.shading) := by
    rw [Bool.eq_iff_iff, meshKeyEq_iff]; simp
  rw [this]; exact ⟨rfl, rfl⟩

example : cmp .eq (.atom (.mesh ⟨.VincularPatt, [0,1], [(1,0),(1,1),(1,2)]⟩))
    (.atom (.mesh ⟨.MeshPatt, [0,1], [(1,0),(1,1),(1,2)]⟩)) = .ok true := by decide

/-- `!=` is the negation of `==` for every supported pair: patterns of any classes, and bases
    (`Basis`/`MeshBasis` define `__ne__` as `not self == other`) -/
theorem ne_is_not_eq (a b : Obj) (ha : Obj.WF a) (hb : Obj.WF b) (hs : supported a b = true) :
    ∃ r, cmp .eq a b = .ok r ∧ cmp .ne a b = .ok (!r) := by
  cases a with
  | atom x =>
    cases b with
    | atom y =>
      rw [cmp_atom, cmp_atom]
      cases x with
      | perm p =>
        cases y with
        | perm q => exact ⟨_, cmpAtom_perm .eq p q, cmpAtom_perm .ne p q⟩
        | mesh y => exact ⟨_, cmpAtom_perm_mesh .eq p y hb, cmpAtom_perm_mesh .ne p y hb⟩
      | mesh x =>
        cases y with
        | perm q => exact ⟨_, cmpAtom_mesh_perm .eq x q ha, cmpAtom_mesh_perm .ne x q ha⟩
        | mesh y => exact ⟨_, cmpAtom_mesh .eq x y ha hb, cmpAtom_mesh .ne x y ha hb⟩
    | basis ys => simp [supported] at hs
    | mbasis ys => simp [supported] at hs
  | basis xs =>
    cases b with
    | atom y => simp [supported] at hs
    | basis ys => exact ⟨_, cmp_eq_basis xs ys, cmp_ne_basis xs ys⟩
    | mbasis ys => exact ⟨_, (cmp_eq_basis_mbasis xs ys).1, (cmp_ne_basis_mbasis xs ys).1⟩
  | mbasis xs =>
    cases b with
    | atom y => simp [supported] at hs
    | basis ys => exact ⟨_, (cmp_eq_basis_mbasis ys xs).2, (cmp_ne_basis_mbasis ys xs).2⟩
    | mbasis ys => exact ⟨_, cmp_eq_mbasis xs ys ha hb, cmp_ne_mbasis xs ys ha hb⟩

/-- regression of a repaired defect: the empty `Basis` and the empty `MeshBasis` are not `==`, hence `!=` -/
example : cmp .eq (.basis []) (.mbasis []) = .ok false ∧ cmp .ne (.basis []) (.mbasis []) = .ok true := by decide

/-! ## A2 hashing -/

/-- every object's hash is independent of the allocation history ("never changes during its
    lifetime, whatever else the process allocates") -/
theorem hash_lifetime_stable (a : Obj) (ha : Obj.WF a) (h h' : AllocHistory) :
    Model.C08.hash h a = Model.C08.hash h' a := hash_indep a (stable_wf a ha) h h'

/-- **equal objects have equal hashes**, whatever the classes of the two objects and whatever the
    allocation histories of the two computations are; in particular a bivincular-type pattern hashes
    like the mesh pattern with the same shading -/
theorem eq_imp_hash_eq (a b : Obj) (ha : Obj.WF a) (hb : Obj.WF b) (hs : supported a b = true)
    (he : cmp .eq a b = .ok true) :
    ∀ h h' : AllocHistory, ∃ k, Model.C08.hash h a = .ok k ∧ Model.C08.hash h' b = .ok k := by
  intro h h'
  rw [eq_is_value_equality a b ha hb hs] at he
  have he : valEq a b = true := by injection he
  rw [hash_lifetime_stable a ha h [], hash_lifetime_stable b hb h' []]
  cases a with
  | atom x =>
    cases b with
    | atom y =>
      cases x with
      | perm p =>
        cases y with
        | perm q =>
          simp only [valEq, beq_iff_eq] at he
          subst he
          exact ⟨_, rfl, rfl⟩
        | mesh y => exact absurd he (by simp [valEq])
      | mesh x =>
        cases y with
        | perm q => exact absurd he (by simp [valEq])
        | mesh y =>
          obtain ⟨e1, e2⟩ := (meshKeyEq_iff _ _).mp he
          have hk : meshValKey x = meshValKey y := by simp only [meshValKey, e1, e2]
          exact ⟨meshValKey x, hashAtom_mesh x ha _, by rw [hk]; exact hashAtom_mesh y hb _⟩
    | basis => cases x <;> exact absurd he (by simp [valEq])
    | mbasis => cases x <;> exact absurd he (by simp [valEq])
  | basis xs =>
    cases b with
    | atom y => cases y <;> exact absurd he (by simp [valEq])
    | basis ys =>
      simp only [valEq, beq_iff_eq] at he
      subst he
      obtain ⟨k, hk⟩ := hashItems_perms_ok xs []
      exact ⟨.tagTuple :: k, by simp [Model.C08.hash, Obj.items, hk, show hashKind (Obj.basis xs).cls = .tuple from rfl],
        by simp [Model.C08.hash, Obj.items, hk, show hashKind (Obj.basis xs).cls = .tuple from rfl]⟩
    | mbasis => exact absurd he (by simp [valEq])
  | mbasis xs =>
    cases b with
    | atom y => cases y <;> exact absurd he (by simp [valEq])
    | basis => exact absurd he (by simp [valEq])
    | mbasis ys =>
      simp only [valEq] at he
      have hk := hashItems_meshes_eq xs ys ha hb he []
      obtain ⟨k, hk2⟩ := hashItems_meshes_ok ys hb []
      refine ⟨.tagTuple :: k, ?_, ?_⟩
      · simp [Model.C08.hash, Obj.items, hk, hk2, show hashKind (Obj.mbasis xs).cls = .tuple from rfl]
      · simp [Model.C08.hash, Obj.items, hk2, show hashKind (Obj.mbasis ys).cls = .tuple from rfl]

/-- non-vacuity / regression of a repaired defect: a `BivincularPatt`, the equal `VincularPatt` and the
    equal `MeshPatt` are pairwise `==` and have one hash under different histories -/
example : cmp .eq (.atom (.mesh ⟨.BivincularPatt, [0,1], [(1,0),(1,1),(1,2)]⟩))
      (.atom (.mesh ⟨.MeshPatt, [0,1], [(1,0),(1,1),(1,2)]⟩)) = .ok true ∧
    Model.C08.hash [16] (.atom (.mesh ⟨.BivincularPatt, [0,1], [(1,0),(1,1),(1,2)]⟩)) =
      Model.C08.hash [32] (.atom (.mesh ⟨.MeshPatt, [0,1], [(1,0),(1,1),(1,2)]⟩)) ∧
    Model.C08.hash [1] (.atom (.mesh ⟨.VincularPatt, [0,1], [(1,0),(1,1),(1,2)]⟩)) =
      Model.C08.hash [2] (.atom (.mesh ⟨.VincularPatt, [0,1], [(1,0),(1,1),(1,2)]⟩)) := by decide

/-- every object of the universe has a history-independent hash -/
theorem stable_all (a : Obj) (ha : Obj.WF a) : stable a = true := stable_wf a ha

/-- the driver's `hashco` observable is sound: when it answers `T`, equal objects have equal hashes under
    all pairs of histories -/
theorem hashCoherent_sound (a b : Obj) (hc : hashCoherent a b = true) (he : cmp .eq a b = .ok true) :
    ∀ h h', sameHash (Model.C08.hash h a) (Model.C08.hash h' b) = true := by
  intro h h'
  simp only [hashCoherent, he, Bool.and_eq_true] at hc
  rw [hash_indep a hc.1.1 h [], hash_indep b hc.1.2 h' []]
  exact hc.2

/-- the driver's `hashco` observable is complete: when it answers `F` for equal objects there are two
    allocation histories under which the hashes differ -/
theorem hashCoherent_complete (a b : Obj) (he : cmp .eq a b = .ok true) (hc : hashCoherent a b = false) :
    ∃ h h', sameHash (Model.C08.hash h a) (Model.C08.hash h' b) = false := by
  simp only [hashCoherent, he] at hc
  cases sa : stable a with
  | true =>
    cases sb : stable b with
    | true => exact ⟨[], [], by simpa [sa, sb] using hc⟩
    | false =>
      refine ⟨List.replicate (Obj.size a + Obj.size b + 1) 0, List.replicate (Obj.size a + Obj.size b + 1) 1, ?_⟩
      cases h1 : Model.C08.hash (List.replicate (Obj.size a + Obj.size b + 1) 0) a with
      | error e => rfl
      | ok k1 =>
        cases h2 : Model.C08.hash (List.replicate (Obj.size a + Obj.size b + 1) 1) b with
        | error e => rfl
        | ok k2 =>
          simp only [sameHash, beq_eq_false_iff_ne, ne_eq]
          intro e
          have m1 := hash_has_addr 1 _ b k2 (by omega) sb h2
          have := hash_addrOnly 0 _ a k1 (by omega) h1 1 (e ▸ m1)
          omega
  | false =>
    refine ⟨List.replicate (Obj.size a + Obj.size b + 1) 0, List.replicate (Obj.size a + Obj.size b + 1) 1, ?_⟩
    cases h1 : Model.C08.hash (List.replicate (Obj.size a + Obj.size b + 1) 0) a with
    | error e => rfl
    | ok k1 =>
      cases h2 : Model.C08.hash (List.replicate (Obj.size a + Obj.size b + 1) 1) b with
      | error e => rfl
      | ok k2 =>
        simp only [sameHash, beq_eq_false_iff_ne, ne_eq]
        intro e
        have m0 := hash_has_addr 0 _ a k1 (by omega) sa h1
        have := hash_addrOnly 1 _ b k2 (by omega) h2 0 (e ▸ m0)
        omega

/-- the driver's `hashco` line answers `T` on every pair -/
theorem hashCoherent_all (a b : Obj) (ha : Obj.WF a) (hb : Obj.WF b) (hs : supported a b = true) :
    hashCoherent a b = true := by
  unfold hashCoherent
  cases he : cmp .eq a b with
  | error e => rfl
  | ok r =>
    cases r with
    | false => rfl
    | true =>
      obtain ⟨k, h1, h2⟩ := eq_imp_hash_eq a b ha hb hs he [] []
      simp [stable_wf a ha, stable_wf b hb, h1, h2, sameHash]

/-- set / dict lookup of an equal key always succeeds -/
theorem lookup_equal_found (a b : Obj) (ha : Obj.WF a) (hb : Obj.WF b) (hs : supported a b = true)
    (he : cmp .eq a b = .ok true) : lookupAlways a b false = true := by
  obtain ⟨k, h1, h2⟩ := eq_imp_hash_eq a b ha hb hs he [] []
  simp [lookupAlways, stable_wf a ha, stable_wf b hb, h1, h2, he, sameHash]

/-- regression of a repaired defect: `{m: 1}[b]` finds the equal bivincular pattern -/
example : lookupAlways (.atom (.mesh ⟨.MeshPatt, [0,1], [(1,0),(1,1),(1,2)]⟩))
    (.atom (.mesh ⟨.BivincularPatt, [0,1], [(1,0),(1,1),(1,2)]⟩)) false = true := by decide

/-! ## A3 the order on permutations -/

/-- the six operators on permutations: tuple equality and the `(length, lexicographic)` order -/
theorem perm_cmp (m : DMeth) (p q : NSeq) :
    cmp m (.atom (.perm p)) (.atom (.perm q)) = .ok (permCmpSpec m p q) := by
  rw [cmp_atom]; exact cmpAtom_perm m p q

/-- `p < q` iff `p` is shorter, or they have the same length and `p` precedes `q` lexicographically -/
theorem perm_lt_iff (p q : NSeq) :
    cmp .lt (.atom (.perm p)) (.atom (.perm q)) = .ok true ↔
      p.length < q.length ∨ (p.length = q.length ∧ p < q) := by
  rw [perm_cmp]
  simp only [permCmpSpec, Except.ok.injEq, permLt_iff, lexLt_iff_lt]

example : cmp .lt (.atom (.perm [1,0])) (.atom (.perm [0,1,2])) = .ok true ∧
    cmp .lt (.atom (.perm [0,2,1])) (.atom (.perm [1,0,2])) = .ok true := by decide

/-- `<` on permutations is a strict total order consistent with `==`: irreflexive, transitive,
    and exactly one of `p < q`, `p == q`, `q < p` holds -/
theorem perm_order_strict_total (p q r : NSeq) :
    cmp .lt (.atom (.perm p)) (.atom (.perm p)) = .ok false ∧
    (cmp .lt (.atom (.perm p)) (.atom (.perm q)) = .ok true → cmp .lt (.atom (.perm q)) (.atom (.perm r)) = .ok true →
      cmp .lt (.atom (.perm p)) (.atom (.perm r)) = .ok true) ∧
    (cmp .lt (.atom (.perm p)) (.atom (.perm q)) = .ok true ∨ cmp .eq (.atom (.perm p)) (.atom (.perm q)) = .ok true ∨
      cmp .lt (.atom (.perm q)) (.atom (.perm p)) = .ok true) ∧
    (cmp .lt (.atom (.perm p)) (.atom (.perm q)) = .ok true → cmp .lt (.atom (.perm q)) (.atom (.perm p)) = .ok false ∧
      cmp .eq (.atom (.perm p)) (.atom (.perm q)) = .ok false) := by
  simp only [perm_cmp, permCmpSpec, Except.ok.injEq]
  refine ⟨permLt_strictTotal.irrefl p, permLt_strictTotal.trans p q r, ?_, ?_⟩
  · rcases permLt_strictTotal.tri p q with h | h | h
    · exact Or.inl h
    · exact Or.inr (Or.inl (by simp [h]))
    · exact Or.inr (Or.inr h)
  · intro h
    refine ⟨permLt_strictTotal.asymm h, ?_⟩
    have := permLt_strictTotal.ne_of_lt h
    simp [this]

/-- `<=` is `<` or `==`; `>` and `>=` are the mirror images -/
theorem perm_le_gt_ge (p q : NSeq) :
    (cmp .le (.atom (.perm p)) (.atom (.perm q)) = .ok true ↔
      cmp .lt (.atom (.perm p)) (.atom (.perm q)) = .ok true ∨ cmp .eq (.atom (.perm p)) (.atom (.perm q)) = .ok true) ∧
    cmp .gt (.atom (.perm p)) (.atom (.perm q)) = cmp .lt (.atom (.perm q)) (.atom (.perm p)) ∧
    cmp .ge (.atom (.perm p)) (.atom (.perm q)) = cmp .le (.atom (.perm q)) (.atom (.perm p)) := by
  refine ⟨?_, ?_, ?_⟩ <;> simp [perm_cmp, permCmpSpec]

/-! ## A4 the order on mesh-type patterns -/

/-- **the order is defined for every pair of mesh-type patterns, including pairs of different
    subclasses**: all four operators compare the keys `(pattern, sorted shading)` -/
theorem mesh_order_total (x y : MObj) (hx : IsMeshCls x.cls) (hy : IsMeshCls y.cls) :
    cmp .lt (.atom (.mesh x)) (.atom (.mesh y)) = .ok (meshKeyLt x y) ∧
    cmp .le (.atom (.mesh x)) (.atom (.mesh y)) = .ok (meshKeyLt x y || meshKeyEq x y) ∧
    cmp .gt (.atom (.mesh x)) (.atom (.mesh y)) = .ok (meshKeyLt y x) ∧
    cmp .ge (.atom (.mesh x)) (.atom (.mesh y)) = .ok (meshKeyLt y x || meshKeyEq y x) := by
  simp only [cmp_atom, cmpAtom_mesh _ x y hx hy, meshCmpSpec, and_self]

/-- `<` on mesh-type patterns is a strict total order consistent with `==`: irreflexive, transitive,
    exactly one of `x < y`, `x == y`, `y < x`; `<=` is `<` or `==`; `>`/`>=` are the mirror images -/
theorem mesh_order_strict_total (x y z : MObj) (hx : IsMeshCls x.cls) (hy : IsMeshCls y.cls) (hz : IsMeshCls z.cls) :
    cmp .lt (.atom (.mesh x)) (.atom (.mesh x)) = .ok false ∧
    (cmp .lt (.atom (.mesh x)) (.atom (.mesh y)) = .ok true → cmp .lt (.atom (.mesh y)) (.atom (.mesh z)) = .ok true →
      cmp .lt (.atom (.mesh x)) (.atom (.mesh z)) = .ok true) ∧
    (cmp .lt (.atom (.mesh x)) (.atom (.mesh y)) = .ok true ∨ cmp .eq (.atom (.mesh x)) (.atom (.mesh y)) = .ok true ∨
      cmp .lt (.atom (.mesh y)) (.atom (.mesh x)) = .ok true) ∧
    (cmp .lt (.atom (.mesh x)) (.atom (.mesh y)) = .ok true → cmp .lt (.atom (.mesh y)) (.atom (.mesh x)) = .ok false ∧
      cmp .eq (.atom (.mesh x)) (.atom (.mesh y)) = .ok false) ∧
    (cmp .le (.atom (.mesh x)) (.atom (.mesh y)) = .ok true ↔
      cmp .lt (.atom (.mesh x)) (.atom (.mesh y)) = .ok true ∨ cmp .eq (.atom (.mesh x)) (.atom (.mesh y)) = .ok true) ∧
    cmp .gt (.atom (.mesh x)) (.atom (.mesh y)) = cmp .lt (.atom (.mesh y)) (.atom (.mesh x)) ∧
    cmp .ge (.atom (.mesh x)) (.atom (.mesh y)) = cmp .le (.atom (.mesh y)) (.atom (.mesh x)) := by
  simp only [cmp_atom, cmpAtom_mesh _ _ _ hx hx, cmpAtom_mesh _ _ _ hx hy, cmpAtom_mesh _ _ _ hy hx,
    cmpAtom_mesh _ _ _ hy hz, cmpAtom_mesh _ _ _ hx hz, meshCmpSpec, Except.ok.injEq, Bool.or_eq_true]
  refine ⟨meshKeyLt_irrefl x, meshKeyLt_trans x y z, meshKeyLt_tri x y,
    fun h => ⟨meshKeyLt_asymm x y h, meshKeyLt_not_eq x y h⟩, trivial, trivial, trivial⟩

example : cmp .lt (.atom (.mesh ⟨.MeshPatt, [0,1], [(0,0),(1,1)]⟩)) (.atom (.mesh ⟨.MeshPatt, [0,1], [(1,1)]⟩)) = .ok true := by
  decide

/-- regression of a repaired defect: `VincularPatt < MeshPatt` and `VincularPatt < CovincularPatt` are defined -/
example : cmp .lt (.atom (.mesh ⟨.VincularPatt, [0,1], [(1,0),(1,1),(1,2)]⟩)) (.atom (.mesh ⟨.MeshPatt, [0,1], []⟩)) = .ok false ∧
    cmp .lt (.atom (.mesh ⟨.VincularPatt, [0,1], [(1,0),(1,1),(1,2)]⟩))
      (.atom (.mesh ⟨.CovincularPatt, [0,1], [(0,1),(1,1),(2,1)]⟩)) = .ok false := by decide

/-! ## A5 `sorted` -/

/-- `sorted` of permutations never raises and returns the list ordered by `(length, lexicographic)` -/
theorem sorted_perms (l : List NSeq) :
    pySort (fun p q => cmp .lt (.atom (.perm p)) (.atom (.perm q))) l = .ok (l.mergeSort permLe) := by
  have hd : PySort.DefOn (fun p q => cmp .lt (.atom (.perm p)) (.atom (.perm q))) permLt l :=
    fun a _ b _ => perm_cmp .lt a b
  obtain ⟨s, hs, hperm, hsorted⟩ := PySort.pySort_spec permLt_strictTotal.strictWeak l hd
  rw [hs]
  congr 1
  apply PySort.sorted_perm_unique permLt_strictTotal s _ (hperm.trans (List.mergeSort_perm l permLe).symm) hsorted
  have hm : (l.mergeSort permLe).Pairwise (fun a b => permLe a b = true) := by
    apply List.pairwise_mergeSort
    · intro a b c h1 h2
      rw [permLe_iff] at *
      rcases h1 with h1 | rfl
      · rcases h2 with h2 | rfl
        · exact Or.inl (permLt_strictTotal.trans _ _ _ h1 h2)
        · exact Or.inl h1
      · exact h2
    · intro a b
      simp only [Bool.or_eq_true, permLe_iff]
      rcases permLt_strictTotal.tri a b with h | h | h
      · exact Or.inl (Or.inl h)
      · exact Or.inl (Or.inr h)
      · exact Or.inr (Or.inl h)
  refine hm.imp ?_
  intro a b hab
  rw [permLe_iff] at hab
  rcases hab with h | rfl
  · exact permLt_strictTotal.asymm h
  · exact permLt_strictTotal.irrefl a

example : pySort (fun p q => cmp .lt (.atom (.perm p)) (.atom (.perm q))) [[1,0],[0],[0,1],[]] =
    .ok [[],[0],[0,1],[1,0]] := by decide

/-- the same on the objects the driver sorts (`sort` line) -/
theorem sortedObjs_perms (l : List NSeq) :
    sortedObjs (l.map fun p => Obj.atom (.perm p)) =
      .ok ((l.mergeSort permLe).map fun p => Obj.atom (.perm p)) := by
  unfold sortedObjs
  rw [PySort.pySort_map, sorted_perms]; rfl

/-- `sorted` of mesh-type patterns of any classes never raises and returns a permutation of the input
    ordered by the key -/
theorem sorted_meshes (l : List MObj) (hl : ∀ m ∈ l, IsMeshCls m.cls) :
    ∃ s, pySort (fun x y => cmp .lt (.atom (.mesh x)) (.atom (.mesh y))) l = .ok s ∧ s.Perm l ∧
      s.Pairwise (fun x y => meshKeyLt y x = false) := by
  apply PySort.pySort_spec meshKeyLt_strictWeak l
  intro a ha b hb
  exact (mesh_order_total a b (hl a ha) (hl b hb)).1

/-- the same on the objects the driver sorts -/
theorem sortedObjs_meshes (l : List MObj) (hl : ∀ m ∈ l, IsMeshCls m.cls) :
    ∃ s : List MObj, sortedObjs (l.map fun m => Obj.atom (.mesh m)) = .ok (s.map fun m => Obj.atom (.mesh m)) ∧ s.Perm l ∧
      s.Pairwise (fun x y => meshKeyLt y x = false) := by
  obtain ⟨s, h1, h2, h3⟩ := sorted_meshes l hl
  refine ⟨s, ?_, h2, h3⟩
  unfold sortedObjs
  rw [PySort.pySort_map, h1]; rfl

/-- regression of a repaired defect: `sorted([m, b])` no longer raises -/
example : pySort (fun x y => cmp .lt (.atom (.mesh x)) (.atom (.mesh y)))
      [⟨.MeshPatt, [0,1], []⟩, ⟨.BivincularPatt, [0,1], [(1,0),(1,1),(1,2)]⟩] =
    .ok [⟨.MeshPatt, [0,1], []⟩, ⟨.BivincularPatt, [0,1], [(1,0),(1,1),(1,2)]⟩] := by decide

/-! ## A6 the order on `Basis` and `MeshBasis` objects (inherited tuple comparison) -/

/-- the six operators on two `Basis` objects: lexicographic comparison of the element tuples
    (`tupSpec`/`listLex`) by the permutations' own order `permLt` and tuple equality -/
theorem basis_cmp (m : DMeth) (xs ys : List NSeq) :
    cmp m (.basis xs) (.basis ys) = .ok (tupSpec permLt m xs ys) := cmp_basis m xs ys

/-- `B < B'` spelled out with the elements' own `<`: after a common prefix the left basis has a
    smaller permutation (`Perm.__lt__`), or the left tuple is a proper prefix of the right one -/
theorem basis_lt_iff (xs ys : List NSeq) :
    cmp .lt (.basis xs) (.basis ys) = .ok true ↔
      (∃ p a b s t, xs = p ++ a :: s ∧ ys = p ++ b :: t ∧ a ≠ b ∧
        cmp .lt (.atom (.perm a)) (.atom (.perm b)) = .ok true) ∨
      (∃ b t, ys = xs ++ b :: t) := by
  simp only [basis_cmp, perm_cmp, permCmpSpec, tupSpec, Except.ok.injEq]
  exact listLex_iff permLt xs ys

/-- `<` on `Basis` objects is a strict total order consistent with `==`: irreflexive, transitive,
    exactly one of `x < y`, `x == y`, `y < x`; `<=` is `<` or `==`; `>`/`>=` are the mirror images -/
theorem basis_order_strict_total (x y z : List NSeq) :
    cmp .lt (.basis x) (.basis x) = .ok false ∧
    (cmp .lt (.basis x) (.basis y) = .ok true → cmp .lt (.basis y) (.basis z) = .ok true →
      cmp .lt (.basis x) (.basis z) = .ok true) ∧
    (cmp .lt (.basis x) (.basis y) = .ok true ∨ cmp .eq (.basis x) (.basis y) = .ok true ∨
      cmp .lt (.basis y) (.basis x) = .ok true) ∧
    (cmp .lt (.basis x) (.basis y) = .ok true → cmp .lt (.basis y) (.basis x) = .ok false ∧
      cmp .eq (.basis x) (.basis y) = .ok false) ∧
    (cmp .le (.basis x) (.basis y) = .ok true ↔
      cmp .lt (.basis x) (.basis y) = .ok true ∨ cmp .eq (.basis x) (.basis y) = .ok true) ∧
    cmp .gt (.basis x) (.basis y) = cmp .lt (.basis y) (.basis x) ∧
    cmp .ge (.basis x) (.basis y) = cmp .le (.basis y) (.basis x) := by
  simp only [basis_cmp, Except.ok.injEq]
  exact tupSpec_laws permLt_strictTotal x y z

example : cmp .lt (.basis [[0, 1], [1, 0, 2]]) (.basis [[0, 1], [2, 0, 1]]) = .ok true ∧
    cmp .lt (.basis [[0, 1]]) (.basis [[0, 1], [0]]) = .ok true ∧
    cmp .ge (.basis [[0, 1, 2]]) (.basis [[1, 0], [0]]) = .ok true := by decide

/-- the six operators on two `MeshBasis` objects of mesh-type patterns (of any of the four classes):
    lexicographic comparison of the tuples of keys `(pattern, sorted shading)` by the mesh patterns' own
    order (`keyLt (mkey a) (mkey b) = meshKeyLt a b`, the order of `mesh_order_total`) -/
theorem mbasis_cmp (m : DMeth) (xs ys : List MObj) (hx : Obj.WF (.mbasis xs)) (hy : Obj.WF (.mbasis ys)) :
    cmp m (.mbasis xs) (.mbasis ys) = .ok (tupSpec keyLt m (xs.map mkey) (ys.map mkey)) :=
  cmp_mbasis m xs ys hx hy

/-- `<` on `MeshBasis` objects is a strict total order consistent with `==` (same seven laws) -/
theorem mbasis_order_strict_total (x y z : List MObj) (hx : Obj.WF (.mbasis x)) (hy : Obj.WF (.mbasis y))
    (hz : Obj.WF (.mbasis z)) :
    cmp .lt (.mbasis x) (.mbasis x) = .ok false ∧
    (cmp .lt (.mbasis x) (.mbasis y) = .ok true → cmp .lt (.mbasis y) (.mbasis z) = .ok true →
      cmp .lt (.mbasis x) (.mbasis z) = .ok true) ∧
    (cmp .lt (.mbasis x) (.mbasis y) = .ok true ∨ cmp .eq (.mbasis x) (.mbasis y) = .ok true ∨
      cmp .lt (.mbasis y) (.mbasis x) = .ok true) ∧
    (cmp .lt (.mbasis x) (.mbasis y) = .ok true → cmp .lt (.mbasis y) (.mbasis x) = .ok false ∧
      cmp .eq (.mbasis x) (.mbasis y) = .ok false) ∧
    (cmp .le (.mbasis x) (.mbasis y) = .ok true ↔
      cmp .lt (.mbasis x) (.mbasis y) = .ok true ∨ cmp .eq (.mbasis x) (.mbasis y) = .ok true) ∧
    cmp .gt (.mbasis x) (.mbasis y) = cmp .lt (.mbasis y) (.mbasis x) ∧
    cmp .ge (.mbasis x) (.mbasis y) = cmp .le (.mbasis y) (.mbasis x) := by
  simp only [mbasis_cmp _ _ _ hx hx, mbasis_cmp _ _ _ hx hy, mbasis_cmp _ _ _ hy hx, mbasis_cmp _ _ _ hy hz,
    mbasis_cmp _ _ _ hx hz, Except.ok.injEq]
  exact tupSpec_laws keyLt_strictTotal _ _ _

/-- `M < M'` spelled out with the elements' own `==`/`<`: after prefixes that are element-wise `==`
    the left basis has a `<`-smaller mesh pattern, or the left tuple is (element-wise `==` to) a proper
    prefix of the right one -/
theorem mbasis_lt_iff (xs ys : List MObj) (hx : Obj.WF (.mbasis xs)) (hy : Obj.WF (.mbasis ys)) :
    cmp .lt (.mbasis xs) (.mbasis ys) = .ok true ↔
      (∃ p a s p' b t, xs = p ++ a :: s ∧ ys = p' ++ b :: t ∧
        cmp .eq (.mbasis p) (.mbasis p') = .ok true ∧
        cmp .lt (.atom (.mesh a)) (.atom (.mesh b)) = .ok true) ∨
      (∃ p' b t, ys = p' ++ b :: t ∧ cmp .eq (.mbasis xs) (.mbasis p') = .ok true) := by
  rw [mbasis_cmp _ _ _ hx hy]
  simp only [tupSpec, Except.ok.injEq, listLex_iff]
  have hsub : ∀ {l p a s : List MObj} {a' : MObj}, l = p ++ a' :: s → Obj.WF (.mbasis l) →
      Obj.WF (.mbasis p) ∧ IsMeshCls a'.cls := by
    intro l p a s a' e h
    subst e
    exact ⟨fun m hm => h m (List.mem_append_left _ hm), h a' (by simp)⟩
  constructor
  · rintro (⟨kp, ka, kb, ks, kt, h1, h2, hne, hlt⟩ | ⟨kb, kt, h⟩)
    · obtain ⟨p, r, rfl, hp, hr⟩ := List.map_eq_append_iff.mp h1
      obtain ⟨a, s, rfl, ha, hs⟩ := List.map_eq_cons_iff.mp hr
      obtain ⟨p', r', rfl, hp', hr'⟩ := List.map_eq_append_iff.mp h2
      obtain ⟨b, t, rfl, hb, ht⟩ := List.map_eq_cons_iff.mp hr'
      have wx := hsub (a := []) rfl hx
      have wy := hsub (a := []) rfl hy
      refine Or.inl ⟨p, a, s, p', b, t, rfl, rfl, ?_, ?_⟩
      · rw [mbasis_cmp _ _ _ wx.1 wy.1]; simp [tupSpec, hp, hp']
      · rw [(mesh_order_total a b wx.2 wy.2).1, meshKeyLt_eq_keyLt, ha, hb, hlt]
    · obtain ⟨p', r', rfl, hp', hr'⟩ := List.map_eq_append_iff.mp h
      obtain ⟨b, t, rfl, hb, ht⟩ := List.map_eq_cons_iff.mp hr'
      have wy := hsub (a := []) rfl hy
      refine Or.inr ⟨p', b, t, rfl, ?_⟩
      rw [mbasis_cmp _ _ _ hx wy.1]; simp [tupSpec, hp']
  · rintro (⟨p, a, s, p', b, t, rfl, rfl, he, hlt⟩ | ⟨p', b, t, rfl, he⟩)
    · have wx := hsub (a := []) rfl hx
      have wy := hsub (a := []) rfl hy
      rw [mbasis_cmp _ _ _ wx.1 wy.1] at he
      rw [(mesh_order_total a b wx.2 wy.2).1, meshKeyLt_eq_keyLt] at hlt
      simp only [tupSpec, Except.ok.injEq, beq_iff_eq] at he hlt
      refine Or.inl ⟨p.map mkey, mkey a, mkey b, s.map mkey, t.map mkey, by simp, by simp [he], ?_, hlt⟩
      intro e
      rw [e, keyLt_strictTotal.irrefl] at hlt
      exact absurd hlt (by decide)
    · have wy := hsub (a := []) rfl hy
      rw [mbasis_cmp _ _ _ hx wy.1] at he
      simp only [tupSpec, Except.ok.injEq, beq_iff_eq] at he
      exact Or.inr ⟨mkey b, t.map mkey, by simp [he]⟩

example : cmp .lt (.mbasis [⟨.MeshPatt, [0, 1], [(1, 1)]⟩, ⟨.VincularPatt, [0], [(0, 0), (0, 1)]⟩])
      (.mbasis [⟨.BivincularPatt, [0, 1], [(1, 1)]⟩, ⟨.MeshPatt, [0], [(0, 1)]⟩]) = .ok true ∧
    cmp .le (.mbasis [⟨.MeshPatt, [0], []⟩]) (.mbasis [⟨.CovincularPatt, [0], []⟩]) = .ok true ∧
    cmp .gt (.mbasis [⟨.MeshPatt, [0], []⟩]) (.mbasis []) = .ok true := by decide

/-- a `Basis` against a `MeshBasis` under an order operator (either operand order): the first items are
    never `==` and a permutation is not ordered against a mesh pattern, so it is `TypeError` unless one
    of the two tuples is empty, in which case the lengths decide (`crossSpec`) -/
theorem basis_mbasis_order (m : DMeth) (hm : m ≠ .eq ∧ m ≠ .ne) (xs : List NSeq) (ys : List MObj)
    (hy : Obj.WF (.mbasis ys)) :
    cmp m (.basis xs) (.mbasis ys) = crossSpec m xs.isEmpty ys.isEmpty ∧
    cmp m (.mbasis ys) (.basis xs) = crossSpec m ys.isEmpty xs.isEmpty :=
  cmp_basis_mbasis_order m hm xs ys hy

example : cmp .lt (.basis [[0]]) (.mbasis [⟨.MeshPatt, [0], []⟩]) = .error .typeError ∧
    cmp .lt (.basis []) (.mbasis [⟨.MeshPatt, [0], []⟩]) = .ok true ∧
    cmp .le (.mbasis []) (.basis []) = .ok true := by decide

end C08
