import PermutaModel.Lemmas.C15Trie
import PermutaModel.Lemmas.C15Fin

/-!
# C15 — the basis automaton

Property theorems only.  `Model.C15.nfaForPinword` mirrors `make_nfa_for_pinword`;
`Model.C15.nfaAccepts` is the model's own NFA semantics (subset simulation), the one the driver
executes; `Spec.C15.regexLang` is the language `A*·φ(u₁)·A*· … ·φ(u_k)·A*` written by existential
splitting; `Spec.C15.InM` is "direction letters, no two consecutive letters on the same axis".

Not provable here (Bassino–Bouvel–Pierrot–Rossin) and therefore only *evaluated* by the
correspondence harness (ops `sembits`, `accs`; listed under `partial` in the evidence):
`accepts_iff_contains : ∀ B, ∀ w ∈ L(M), |w| ≥ 2 → (basisAccepts B w ↔ ∃ b ∈ B, Contains (perm w) b)`.
-/
open Model.C15 Spec.C15

namespace C15

/-- **`nfa_language`**: for every pin word `u` and every word `w`, the model NFA of
    `make_nfa_for_pinword u` accepts `w` iff `w ∈ A*·φ(u₁)·A*· … ·φ(u_k)·A*`, where
    `uᵢ = factor_pinword u` and `φ = sp_to_m` (one or two alternatives per factor). -/
theorem nfa_language (u w : Word) :
    nfaAccepts (nfaForPinword u) w = true ↔ regexLang ((factorPinword u).map spToM) w := by
  unfold nfaForPinword
  apply C15Nfa.nfaOfDecomp_language
  intro alts h
  obtain ⟨f, hf, rfl⟩ := List.mem_map.mp h
  exact C15Nfa.spToM_good f (C15Nfa.factor_ne_nil u f hf)

/-- non-vacuity: `u = 1R3` has factors `1R`, `3` with `φ = {RUR}`, `{LD, DL}`; the automaton accepts
    `U·RUR·L·DL` and rejects `U·RUR·LLU`, and so does the regular expression -/
example :
    (factorPinword ['1', 'R', '3']).map spToM = [[['R', 'U', 'R']], [['L', 'D'], ['D', 'L']]] ∧
    regexLang ((factorPinword ['1', 'R', '3']).map spToM) ['U', 'R', 'U', 'R', 'L', 'D', 'L'] ∧
    ¬ regexLang ((factorPinword ['1', 'R', '3']).map spToM) ['U', 'R', 'U', 'R', 'L', 'L', 'U'] := by
  have h : (factorPinword ['1', 'R', '3']).map spToM = [[['R', 'U', 'R']], [['L', 'D'], ['D', 'L']]] := by
    simp [factorPinword, spanDirs, spToM, DIRS, QUADS, Generated.c15_DIRS, Generated.c15_QUADS,
      Generated.c15_spLetterDict, Generated.c15_opposite, List.lookup]
  refine ⟨h, ?_, ?_⟩
  · rw [← nfa_language]; unfold nfaForPinword; rw [h]; decide
  · rw [← nfa_language]; unfold nfaForPinword; rw [h]; decide

/-- the same for an arbitrary decomposition into well-shaped alternatives (what `add_sp` handles) -/
theorem nfaOfDecomp_language (fs : List (List Word)) (hg : ∀ alts ∈ fs, C15Nfa.GoodAlts alts) (w : Word) :
    nfaAccepts (nfaOfDecomp fs) w = true ↔ regexLang fs w :=
  C15Nfa.nfaOfDecomp_language fs hg w

/-- **`dfaM_language`**: the generated transition table of `make_dfa_for_m` accepts exactly the
    words over `DIRS` with no two consecutive letters on the same axis. -/
theorem dfaM_language (w : Word) : dfaMAccepts w = true ↔ InM w := by
  have h := C15M.accFrom_eq_goodFrom w 0 (by omega)
  have hacc : dfaMAccepts w = C15M.accFrom 0 w := rfl
  rw [hacc, h, C15M.goodFrom_iff]
  unfold InM
  constructor
  · rintro ⟨h1, h2, _⟩; exact ⟨h1, h2⟩
  · rintro ⟨h1, h2⟩; exact ⟨h1, h2, fun c t _ => by simp [C15M.axisOf]⟩

/-- non-vacuity: members and non-members of `M` -/
example : InM ['U', 'L', 'U', 'R', 'D'] ∧ ¬ InM ['U', 'L', 'R'] ∧ ¬ InM ['U', '1'] := by
  refine ⟨(dfaM_language _).mp (by decide), fun h => ?_, fun h => ?_⟩
  · exact absurd ((dfaM_language _).mpr h) (by decide)
  · exact absurd ((dfaM_language _).mpr h) (by decide)

/-- the basis automaton, as the model defines it, accepts `w` iff some pin word of some basis
    element has `w` in its regular language -/
theorem basisAccepts_iff (B : List NSeq) (w : Word) :
    basisAccepts B w = true ↔
      ∃ p ∈ B, ∃ u ∈ permToPinwords p, regexLang ((factorPinword u).map spToM) w := by
  unfold basisAccepts wordsAccept pinwordsForBasis pinwordAccepts
  rw [List.any_eq_true]
  constructor
  · rintro ⟨u, hu, hacc⟩
    obtain ⟨p, hp, hup⟩ := List.mem_flatMap.mp hu
    exact ⟨p, hp, u, hup, (nfa_language u w).mp hacc⟩
  · rintro ⟨p, hp, u, hu, hr⟩
    exact ⟨u, List.mem_flatMap.mpr ⟨p, hp, hu⟩, (nfa_language u w).mpr hr⟩

/-- set semantics of the basis automaton: order and repetition of basis elements are irrelevant -/
theorem basisAccepts_congr (B B' : List NSeq) (h : ∀ p, p ∈ B ↔ p ∈ B') (w : Word) :
    basisAccepts B w = basisAccepts B' w := by
  rw [Bool.eq_iff_iff, basisAccepts_iff, basisAccepts_iff]
  constructor
  · rintro ⟨p, hp, r⟩; exact ⟨p, (h p).mp hp, r⟩
  · rintro ⟨p, hp, r⟩; exact ⟨p, (h p).mpr hp, r⟩

/-- accepted words stay accepted when direction letters are added in front or behind -/
theorem nfa_accepts_pad (u w x y : Word) (hx : AStar x) (hy : AStar y)
    (h : nfaAccepts (nfaForPinword u) w = true) : nfaAccepts (nfaForPinword u) (x ++ w ++ y) = true := by
  rw [nfa_language] at h ⊢
  exact C15Trie.regexLang_pad _ w x y hx hy h

/-- **`finite_iff_bounded`**: the model's finiteness test (`isFiniteB`: after `n` rounds of peeling no
    state is left from which an accepting state is reachable and which has a successor of the same
    kind – i.e. no cycle through such states) is exact.  For every explicit DFA whose transitions
    stay inside its state set and all of whose states are reachable – the shape the model's
    `product` of `M` with the basis automaton produces – the test succeeds iff the accepted words
    are bounded in length.  (`has_finite_pinperms` is this test applied to `L(M) \ L(basis)`.) -/
theorem finite_iff_bounded (d : DFA) (hwf : C15Fin.WF d) (hpos : 0 < d.size)
    (hreach : ∀ q, q < d.size → ∃ u, d.run (some 0) u = some q) :
    isFiniteB d = true ↔ ∃ N, ∀ w, d.accepts w = true → w.length ≤ N :=
  C15Fin.isFiniteB_iff_bounded d hwf hpos hreach

/-- the same with the hypotheses replaced by the run-time certificate `certB` (transitions inside the
    state set; every state but `0` has a smaller-numbered predecessor), which the driver evaluates
    on every difference automaton it tests: for each executed instance the verdict of
    `has_finite_pinperms` in the model is "the accepted words are bounded in length" -/
theorem finite_iff_bounded_cert (d : DFA) (h : d.certB = true) :
    isFiniteB d = true ↔ ∃ N, ∀ w, d.accepts w = true → w.length ≤ N :=
  C15Fin.isFiniteB_iff_bounded_cert d h

/-- when the test succeeds the number of states is a bound -/
theorem finite_bound (d : DFA) (hwf : C15Fin.WF d) (hpos : 0 < d.size) (h : isFiniteB d = true)
    (w : Word) (hacc : d.accepts w = true) : w.length < d.size := by
  by_contra hlong
  exact (C15Fin.isFiniteB_iff_noWalk d hwf hpos).mp h 0 hpos
    (C15Fin.walk_of_accepted d hwf d.size 0 w hpos (by omega) hacc)

/-- non-vacuity: the automaton of `M` meets the hypotheses (4 states, all reachable) and its language
    is infinite -/
example : C15Fin.WF dfaM ∧ 0 < dfaM.size ∧
    (∀ q, q < dfaM.size → ∃ u, dfaM.run (some 0) u = some q) ∧ isFiniteB dfaM = false := by
  have h4 : dfaM.size = 4 := by decide
  refine ⟨?_, by decide, ?_, by decide +kernel⟩
  · unfold C15Fin.WF; rw [h4]; decide
  intro q hq
  have : q = 0 ∨ q = 1 ∨ q = 2 ∨ q = 3 := by omega
  rcases this with rfl | rfl | rfl | rfl
  · exact ⟨[], by decide⟩
  · exact ⟨['U'], by decide⟩
  · exact ⟨['L'], by decide⟩
  · exact ⟨['U', 'U'], by decide⟩

/-- the driver's trie enumeration (`accbits`, `nfabits`) is the per-word NFA semantics on the
    words of `trieWords` -/
theorem accBits_eq (us : List Word) (x : Word) (d : Nat) :
    accBits us x d = (trieWords d x).map (wordsAccept us) := by
  unfold accBits
  rw [C15Trie.trieBits_eq]
  apply List.map_congr_left
  intro w _
  simp only [wordsAccept, pinwordAccepts, List.any_map]
  rfl

/-- the driver's enumeration of `L(M)` (`sembits`) is the filter of all words by the table -/
theorem mTrieWords_eq (d : Nat) : mTrieWords d [] = (trieWords d []).filter dfaMAccepts :=
  C15Trie.mTrieWords_eq dfaM_language d [] (by decide)

end C15
