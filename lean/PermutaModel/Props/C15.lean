import PermutaModel.Lemmas.C15Trie
import PermutaModel.Lemmas.C15Fin
import PermutaModel.Lemmas.C15Pipe

/-!
# C15 — the basis automaton

Property theorems only.  `Model.C15.nfaForPinword` mirrors `make_nfa_for_pinword`;
`Model.C15.nfaAccepts` is the model's own NFA semantics (subset simulation), the one the driver
executes; `Spec.C15.regexLang` is the language `A*·φ(u₁)·A*· … ·φ(u_k)·A*` written by existential
splitting; `Spec.C15.InM` is "direction letters, no two consecutive letters on the same axis".

Not provable here (Bassino–Bouvel–Pierrot–Rossin) and therefore only *evaluated* by the
correspondence harness (ops `sembits`, `accs`; listed under `partial` in the evidence):
`accepts_iff_contains : ∀ B, ∀ w ∈ L(M), |w| ≥ 2 → (basisAccepts B w ↔ ∃ b ∈ B, Contains (perm w) b)`.
-/
open Model.C15 Spec.C15

namespace C15

/-- **`nfa_language`**: for every pin word `u` and every word `w`, the model NFA of
    `make_nfa_for_pinword u` accepts `w` iff `w ∈ A*·φ(u₁)·A*· … ·φ(u_k)·A*`, where
    `uᵢ = factor_pinword u` and `φ = sp_to_m` (one or two alternatives per factor). -/
theorem nfa_language (u w : Word) :
    nfaAccepts (nfaForPinword u) w = true ↔ regexLang ((factorPinword u).map spToM) w := by
  unfold nfaForPinword
  apply C15Nfa.nfaOfDecomp_language
  intro alts h
  obtain ⟨f, hf, rfl⟩ := List.mem_map.mp h
  exact C15Nfa.spToM_good f (C15Nfa.factor_ne_nil u f hf)

/-- non-vacuity: `u = 1R3` has factors `1R`, `3` with `φ = {RUR}`, `{LD, DL}`; the automaton accepts
    `U·RUR·L·DL` and rejects `U·RUR·LLU`, and so does the regular expression -/
example :
    (factorPinword ['1', 'R', '3']).map spToM = [[['R', 'U', 'R']], [['L', 'D'], ['D', 'L']]] ∧
    regexLang ((factorPinword ['1', 'R', '3']).map spToM) ['U', 'R', 'U', 'R', 'L', 'D', 'L'] ∧
    ¬ regexLang ((factorPinword ['1', 'R', '3']).map spToM) ['U', 'R', 'U', 'R', 'L', 'L', 'U'] := by
  have h : (factorPinword ['1', 'R', '3']).map spToM = [[['R', 'U', 'R']], [['L', 'D'], ['D', 'L']]] := by
    simp [factorPinword, spanDirs, spToM, DIRS, QUADS, Generated.c15_DIRS, Generated.c15_QUADS,
      Generated.c15_spLetterDict, Generated.c15_opposite, List.lookup]
  refine ⟨h, ?_, ?_⟩
  · rw [← nfa_language]; unfold nfaForPinword; rw [h]; decide
  · rw [← nfa_language]; unfold nfaForPinword; rw [h]; decide

/-- the same for an arbitrary decomposition into well-shaped alternatives (what `add_sp` handles) -/
theorem nfaOfDecomp_language (fs : List (List Word)) (hg : ∀ alts ∈ fs, C15Nfa.GoodAlts alts) (w : Word) :
    nfaAccepts (nfaOfDecomp fs) w = true ↔ regexLang fs w :=
  C15Nfa.nfaOfDecomp_language fs hg w

/-- **`dfaM_language`**: the generated transition table of `make_dfa_for_m` accepts exactly the
    words over `DIRS` with no two consecutive letters on the same axis. -/
theorem dfaM_language (w : Word) : dfaMAccepts w = true ↔ InM w := by
  have h := C15M.accFrom_eq_goodFrom w 0 (by omega)
  have hacc : dfaMAccepts w = C15M.accFrom 0 w := rfl
  rw [hacc, h, C15M.goodFrom_iff]
  unfold InM
  constructor
  · rintro ⟨h1, h2, _⟩; exact ⟨h1, h2⟩
  · rintro ⟨h1, h2⟩; exact ⟨h1, h2, fun c t _ => by simp [C15M.axisOf]⟩

/-- non-vacuity: members and non-members of `M` -/
example : InM ['U', 'L', 'U', 'R', 'D'] ∧ ¬ InM ['U', 'L', 'R'] ∧ ¬ InM ['U', '1'] := by
  refine ⟨(dfaM_language _).mp (by decide), fun h => ?_, fun h => ?_⟩
  · exact absurd ((dfaM_language _).mpr h) (by decide)
  · exact absurd ((dfaM_language _).mpr h) (by decide)

/-- the basis automaton, as the model defines it, accepts `w` iff some pin word of some basis
    element has `w` in its regular language -/
theorem basisAccepts_iff (B : List NSeq) (w : Word) :
    basisAccepts B w = true ↔
      ∃ p ∈ B, ∃ u ∈ permToPinwords p, regexLang ((factorPinword u).map spToM) w := by
  unfold basisAccepts wordsAccept pinwordsForBasis pinwordAccepts
  rw [List.any_eq_true]
  constructor
  · rintro ⟨u, hu, hacc⟩
    obtain ⟨p, hp, hup⟩ := List.mem_flatMap.mp hu
    exact ⟨p, hp, u, hup, (nfa_language u w).mp hacc⟩
  · rintro ⟨p, hp, u, hu, hr⟩
    exact ⟨u, List.mem_flatMap.mpr ⟨p, hp, hu⟩, (nfa_language u w).mpr hr⟩

/-- set semantics of the basis automaton: order and repetition of basis elements are irrelevant -/
theorem basisAccepts_congr (B B' : List NSeq) (h : ∀ p, p ∈ B ↔ p ∈ B') (w : Word) :
    basisAccepts B w = basisAccepts B' w := by
  rw [Bool.eq_iff_iff, basisAccepts_iff, basisAccepts_iff]
  constructor
  · rintro ⟨p, hp, r⟩; exact ⟨p, (h p).mp hp, r⟩
  · rintro ⟨p, hp, r⟩; exact ⟨p, (h p).mpr hp, r⟩

/-- accepted words stay accepted when direction letters are added in front or behind -/
theorem nfa_accepts_pad (u w x y : Word) (hx : AStar x) (hy : AStar y)
    (h : nfaAccepts (nfaForPinword u) w = true) : nfaAccepts (nfaForPinword u) (x ++ w ++ y) = true := by
  rw [nfa_language] at h ⊢
  exact C15Trie.regexLang_pad _ w x y hx hy h

/-- **`finite_iff_bounded`**: the model's finiteness test (`isFiniteB`: after `n` rounds of peeling no
    state is left from which an accepting state is reachable and which has a successor of the same
    kind – i.e. no cycle through such states) is exact.  For every explicit DFA whose transitions
    stay inside its state set and all of whose states are reachable – the shape the model's
    `product` of `M` with the basis automaton produces – the test succeeds iff the accepted words
    are bounded in length.  (`has_finite_pinperms` is this test applied to `L(M) \ L(basis)`.) -/
theorem finite_iff_bounded (d : DFA) (hwf : C15Fin.WF d) (hpos : 0 < d.size)
    (hreach : ∀ q, q < d.size → ∃ u, d.run (some 0) u = some q) :
    isFiniteB d = true ↔ ∃ N, ∀ w, d.accepts w = true → w.length ≤ N :=
  C15Fin.isFiniteB_iff_bounded d hwf hpos hreach

/-- the same with the hypotheses replaced by the run-time certificate `certB` (transitions inside the
    state set; every state but `0` has a smaller-numbered predecessor), which the driver evaluates
    on every difference automaton it tests: for each executed instance the verdict of
    `has_finite_pinperms` in the model is "the accepted words are bounded in length" -/
theorem finite_iff_bounded_cert (d : DFA) (h : d.certB = true) :
    isFiniteB d = true ↔ ∃ N, ∀ w, d.accepts w = true → w.length ≤ N :=
  C15Fin.isFiniteB_iff_bounded_cert d h

/-- when the test succeeds the number of states is a bound -/
theorem finite_bound (d : DFA) (hwf : C15Fin.WF d) (hpos : 0 < d.size) (h : isFiniteB d = true)
    (w : Word) (hacc : d.accepts w = true) : w.length < d.size := by
  by_contra hlong
  exact (C15Fin.isFiniteB_iff_noWalk d hwf hpos).mp h 0 hpos
    (C15Fin.walk_of_accepted d hwf d.size 0 w hpos (by omega) hacc)

/-- non-vacuity: the automaton of `M` meets the hypotheses (4 states, all reachable) and its language
    is infinite -/
example : C15Fin.WF dfaM ∧ 0 < dfaM.size ∧
    (∀ q, q < dfaM.size → ∃ u, dfaM.run (some 0) u = some q) ∧ isFiniteB dfaM = false := by
  have h4 : dfaM.size = 4 := by decide
  refine ⟨?_, by decide, ?_, by decide +kernel⟩
  · unfold C15Fin.WF; rw [h4]; decide
  intro q hq
  have : q = 0 ∨ q = 1 ∨ q = 2 ∨ q = 3 := by omega
  rcases this with rfl | rfl | rfl | rfl
  · exact ⟨[], by decide⟩
  · exact ⟨['U'], by decide⟩
  · exact ⟨['L'], by decide⟩
  · exact ⟨['U', 'U'], by decide⟩

/-- the driver's trie enumeration (`accbits`, `nfabits`) is the per-word NFA semantics on the
    words of `trieWords` -/
theorem accBits_eq (us : List Word) (x : Word) (d : Nat) :
    accBits us x d = (trieWords d x).map (wordsAccept us) := by
  unfold accBits
  rw [C15Trie.trieBits_eq]
  apply List.map_congr_left
  intro w _
  simp only [wordsAccept, pinwordAccepts, List.any_map]
  rfl

/-- the driver's enumeration of `L(M)` (`sembits`) is the filter of all words by the table -/
theorem mTrieWords_eq (d : Nat) : mTrieWords d [] = (trieWords d []).filter dfaMAccepts :=
  C15Trie.mTrieWords_eq dfaM_language d [] (by decide)

/-! ## the model's own determinise / minimise / product pipeline

`C15Ex.Good d` is the shape of every automaton the model's constructions produce: at least one
state, one acceptance bit per state, transitions inside the state set, every state reachable from
state `0`.  All three constructions are built on `explore` (breadth-first numbering with arrays and
fuel `= size of the code space`); `C15Ex.explore_spec` proves that this fuel suffices (the loop ends
because every discovered code has been processed).  `DFA.accepts` rejects every word containing a
letter outside `DIRS`, hence the `AStar w` conjunct below. -/

/-- **`determinise_language`**: for every NFA whose edges stay inside its `n ≥ 1` states (every NFA
    the model builds, see `determinise_language_pinword`) and every word `w`, the model's
    bit-mask subset construction accepts `w` iff `w` is over `DIRS` and the NFA accepts `w`. -/
theorem determinise_language (m : NFA) (hpos : 0 < m.n) (hE : C15Nfa.EdgesBelow m.edges m.n) (w : Word) :
    (determinize m).accepts w = true ↔ AStar w ∧ nfaAccepts m w = true :=
  C15Det.determinize_accepts m hpos hE w

/-- non-vacuity: the automaton for `φ = {RU, UR}` (pin word `1`) -/
example : 0 < (nfaOfDecomp [[['R', 'U'], ['U', 'R']]]).n ∧
    C15Nfa.EdgesBelow (nfaOfDecomp [[['R', 'U'], ['U', 'R']]]).edges (nfaOfDecomp [[['R', 'U'], ['U', 'R']]]).n ∧
    (determinize (nfaOfDecomp [[['R', 'U'], ['U', 'R']]])).accepts ['L', 'R', 'U', 'D'] = true ∧
    (determinize (nfaOfDecomp [[['R', 'U'], ['U', 'R']]])).accepts ['L', 'R', 'D'] = false := by
  refine ⟨by decide, by unfold C15Nfa.EdgesBelow; decide, by decide +kernel, by decide +kernel⟩

/-- the hypotheses of `determinise_language` hold for the NFA of every pin word (every `u : Word`) -/
theorem determinise_language_pinword (u w : Word) :
    (determinize (nfaForPinword u)).accepts w = true ↔ AStar w ∧ pinwordAccepts u w = true :=
  C15Det.determinize_accepts _ (C15Pipe.nfa_shape u).1 (C15Pipe.nfa_shape u).2 w

/-- non-vacuity: with `nfa_language`, the determinised automaton of a pin word accepts exactly the
    words over `DIRS` in the regular language -/
example (u w : Word) : (determinize (nfaForPinword u)).accepts w = true ↔
    AStar w ∧ regexLang ((factorPinword u).map spToM) w := by
  rw [determinise_language_pinword]; unfold pinwordAccepts; rw [nfa_language]

/-- **`minimise_language`**: Moore minimisation (refinement loop with fuel `= number of states`,
    proved sufficient in `C15Min.refineLoop_spec`; canonical breadth-first renumbering) preserves
    the language, and its result has the shape `Good` again. -/
theorem minimise_language (d : DFA) (hd : C15Ex.Good d) (w : Word) :
    (minimize d).accepts w = d.accepts w ∧ C15Ex.Good (minimize d) :=
  ⟨C15Min.minimize_accepts d hd w, C15Min.minimize_good d hd⟩

/-- non-vacuity: the automaton of `M` is `Good`; its minimisation accepts `ULD`, rejects `ULR` -/
example : C15Ex.Good dfaM ∧ (minimize dfaM).accepts ['U', 'L', 'D'] = true ∧
    (minimize dfaM).accepts ['U', 'L', 'R'] = false :=
  ⟨C15Pipe.dfaM_good, by decide +kernel, by decide +kernel⟩

/-- **`product_language`**: the reachable product accepts `w` iff `op` of the two acceptance bits holds
    (for `op false false = false`, which `||` and `fun x y => x && !y` satisfy), and is `Good`. -/
theorem product_language (a b : DFA) (ha : C15Ex.Good a) (hb : C15Ex.Good b) (op : Bool → Bool → Bool)
    (hop : op false false = false) (w : Word) :
    (product a b op).accepts w = op (a.accepts w) (b.accepts w) ∧ C15Ex.Good (product a b op) :=
  ⟨C15Det.product_accepts a b ha hb op hop w, C15Det.product_good a b ha hb op⟩

/-- the union used by the pipeline: `minimize (product a b (||))` -/
theorem union_language (a b : DFA) (ha : C15Ex.Good a) (hb : C15Ex.Good b) (w : Word) :
    (unionDFA a b).accepts w = (a.accepts w || b.accepts w) ∧ C15Ex.Good (unionDFA a b) :=
  ⟨C15Pipe.union_accepts a b ha hb w, C15Pipe.union_good a b ha hb⟩

/-- non-vacuity of `product_language` / `union_language` -/
example : (unionDFA dfaM emptyDFA).accepts ['U', 'L'] = true ∧ (product dfaM dfaM (· && ·)).accepts ['U', 'U'] = false ∧
    C15Ex.Good emptyDFA :=
  ⟨by decide +kernel, by decide +kernel, C15Pipe.empty_good⟩

/-- **`difference_language`**: the automaton handed to the finiteness test (`M` minus the basis
    automaton) accepts `w` iff `w ∈ M` and the basis automaton rejects `w`; it is `Good` and carries
    the run-time certificate `certB` (so the driver's certificate check can never fail). -/
theorem difference_language (b : DFA) (hb : C15Ex.Good b) (w : Word) :
    ((diffWithM b).accepts w = true ↔ InM w ∧ b.accepts w = false) ∧
    C15Ex.Good (diffWithM b) ∧ (diffWithM b).certB = true := by
  refine ⟨?_, C15Pipe.diffWithM_good b hb, C15Pipe.diffWithM_cert b hb⟩
  rw [C15Pipe.diffWithM_accepts b hb, Bool.and_eq_true, dfaM_language]
  simp

/-- non-vacuity: `M` minus the empty language is `M` -/
example : (diffWithM emptyDFA).accepts ['U', 'L'] = true ∧ (diffWithM emptyDFA).accepts ['U', 'D'] = false ∧
    (diffWithM dfaM).accepts ['U', 'L'] = false := by
  refine ⟨by decide +kernel, by decide +kernel, by decide +kernel⟩

/-- **`pipeline_language`**: for every basis `B` and every word `w`, the model's basis automaton
    (`dfaForBasis`: determinise + minimise every pin-word NFA, fold the unions, minimising each time)
    accepts `w` iff `w` is over `DIRS` and the basis semantics (`basisAccepts`: some NFA of some pin
    word of some basis element accepts) accepts `w`. -/
theorem pipeline_language (B : List NSeq) (w : Word) :
    (dfaForBasis B).accepts w = true ↔ AStar w ∧ basisAccepts B w = true :=
  C15Pipe.dfaForBasis_accepts B w

/-- the same in terms of the regular languages (with `basisAccepts_iff`) -/
theorem pipeline_language_regex (B : List NSeq) (w : Word) :
    (dfaForBasis B).accepts w = true ↔
      AStar w ∧ ∃ p ∈ B, ∃ u ∈ permToPinwords p, regexLang ((factorPinword u).map spToM) w := by
  rw [pipeline_language, basisAccepts_iff]

/-- non-vacuity: the automaton of the basis `{1}` (pin words `1`, `2`, `3`, `4`) accepts `UR`, rejects
    `U`; the empty basis gives the empty language -/
example : permToPinwords [0] = [['1'], ['2'], ['3'], ['4']] ∧
    (dfaForBasis [[0]]).accepts ['U', 'R'] = true ∧ (dfaForBasis [[0]]).accepts ['U'] = false ∧
    (dfaForBasis []).accepts ['U', 'R'] = false := by
  refine ⟨by decide +kernel, by decide +kernel, by decide +kernel, by decide +kernel⟩

/-- per-permutation automaton (what the on-disk database stores, `make_dfa_for_perm`) -/
theorem dfaForPerm_language (p : NSeq) (w : Word) :
    (dfaForPerm p).accepts w = true ↔ AStar w ∧ wordsAccept (permToPinwords p) w = true :=
  C15Pipe.dfaForWords_accepts _ w

/-- the automaton the model hands to `isFiniteB` accepts exactly `L(M)` minus the basis semantics -/
theorem pipeline_difference_language (B : List NSeq) (w : Word) :
    (diffWithM (dfaForBasis B)).accepts w = true ↔ InM w ∧ basisAccepts B w = false := by
  rw [(difference_language _ (C15Pipe.dfaForBasis_good B) w).1]
  constructor
  · rintro ⟨hM, hb⟩
    refine ⟨hM, ?_⟩
    cases h : basisAccepts B w with
    | false => rfl
    | true => rw [(pipeline_language B w).mpr ⟨hM.1, h⟩] at hb; cases hb
  · rintro ⟨hM, hb⟩
    refine ⟨hM, ?_⟩
    cases h : (dfaForBasis B).accepts w with
    | false => rfl
    | true => rw [((pipeline_language B w).mp h).2] at hb; cases hb

/-- **`has_finite_pinperms_iff_bounded`** – the statement the property makes, for every basis: the
    model's `has_finite_pinperms B` is true iff the words of `L(M)` that the basis semantics rejects
    are bounded in length.  No hypothesis is left: determinisation, minimisation, union, difference,
    their fuel, and the finiteness test are all proved for the definitions the driver executes. -/
theorem has_finite_pinperms_iff_bounded (B : List NSeq) :
    hasFinitePinperms B = true ↔ ∃ N, ∀ w, InM w → basisAccepts B w = false → w.length ≤ N := by
  unfold hasFinitePinperms finitePinpermsOf
  have hg := (difference_language _ (C15Pipe.dfaForBasis_good B) []).2.1
  rw [finite_iff_bounded _ hg.wf hg.pos hg.reach]
  constructor
  · rintro ⟨N, hN⟩
    exact ⟨N, fun w hM hb => hN w ((pipeline_difference_language B w).mpr ⟨hM, hb⟩)⟩
  · rintro ⟨N, hN⟩
    exact ⟨N, fun w hacc => by
      obtain ⟨hM, hb⟩ := (pipeline_difference_language B w).mp hacc
      exact hN w hM hb⟩

/-- the certificate the driver checks before printing the verdict always holds -/
theorem finpin_certificate (B : List NSeq) : (diffWithM (dfaForBasis B)).certB = true :=
  (difference_language _ (C15Pipe.dfaForBasis_good B) []).2.2

/-- non-vacuity, both verdicts: the basis `{1}` leaves only boundedly many pin sequences, the empty
    basis does not (the model's verdicts are evaluated, the two conclusions follow by the theorem) -/
example : (∃ N, ∀ w, InM w → basisAccepts [[0]] w = false → w.length ≤ N) ∧
    ¬ (∃ N, ∀ w, InM w → basisAccepts [] w = false → w.length ≤ N) :=
  ⟨(has_finite_pinperms_iff_bounded _).mp (by decide +kernel),
   fun h => absurd ((has_finite_pinperms_iff_bounded _).mpr h) (by decide +kernel)⟩

end C15
