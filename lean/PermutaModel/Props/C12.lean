import PermutaModel.Lemmas.C12Count
import PermutaModel.Lemmas.C12SSMain
import PermutaModel.Lemmas.C12Families
import PermutaModel.Lemmas.C12Pop
import PermutaModel.Lemmas.C12Quick
import PermutaModel.Lemmas.C12Textbook
import PermutaModel.Props.C01
import PermutaModel.Lemmas.C12Char
import PermutaModel.Lemmas.C12RSKShape
import PermutaModel.Lemmas.C12RSKGreene
import PermutaModel.Lemmas.C12RSKContains

/-!
# C12 — sorting operators, the Simion–Schmidt map and named families

Property theorems only (helpers live in `Lemmas/C12*.lean`).  `Model.*` mirrors the Python code
(`Model/C12.lean`, executed by the driver); `Spec.*` are the devices / textbook definitions
(`Spec/C12.lean`); `Contains` is the classical containment of `Spec/Basic.lean`.
-/
open Model Spec

namespace C12

/-! ## A1  the code is the device (every list of naturals, not only permutations) -/

/-- `Perm._stack_sort` (recursive split at the first maximum, three branches) = one pass through a stack -/
theorem stackSort_eq_device (l : List Nat) : Model.stackSort l = Spec.stackPass l :=
  stackSort_eq_stackPass l

/-- `Perm._bubble_sort` = one left-to-right sweep of adjacent transpositions -/
theorem bubbleSort_eq_device (l : List Nat) : Model.bubbleSort l = Spec.bubblePass l :=
  bubbleSort_eq_bubblePass l

/-- `Perm.pop_stack_sort` (deque, `appendleft`) = one pass through a pop-stack -/
theorem popStackSort_eq_device (l : List Nat) : Model.popStackSort l = Spec.popStackPass l :=
  popStackSort_eq_popStackPass l

/-- `Perm._quick_sort` (split at the last strong fixed point, else pivot on the first entry) = the
    quicksort operator of the paper (strong fixed point = entry with everything smaller before and
    everything larger after it), on every permutation -/
theorem quickSort_eq_device (σ : NSeq) (h : IsPerm σ) : Model.quickSort σ = Spec.quickPass σ :=
  quickSort_eq_quickPass σ h

/-- … and on a permutation the `assert` of `_quick_sort` never fires (no `AssertionError`), on any
    slice of the recursion -/
theorem quickSort_no_assertion (σ : NSeq) (h : IsPerm σ) :
    Model.quickSortE σ = .ok (Spec.quickPass σ) := by
  rw [quickSortE_perm σ h, quickSort_eq_quickPass σ h]

example : Spec.quickPass [1, 0, 2, 4, 3] = [0, 1, 2, 3, 4] ∧ Spec.quickPass [2, 1, 0] = [1, 0, 2] ∧
    Spec.lastStrongFix [1, 0, 2, 4, 3] = some 2 := by decide

/-- non-vacuity: the devices do something, and the code agrees on a concrete input -/
example : Model.stackSort [2, 0, 3, 1] = [0, 2, 1, 3] ∧ Model.bubbleSort [2, 0, 3, 1] = [0, 2, 1, 3] ∧
    Model.popStackSort [2, 1, 3, 0] = [1, 2, 0, 3] := by
  rw [stackSort_eq_device, bubbleSort_eq_device, popStackSort_eq_device]; decide

/-! ## A2  `sortable` = "the device outputs the identity", and the pattern characterisations -/

/-- `stack_sortable` holds exactly when the stack outputs the identity -/
theorem stackSortable_iff_identity (σ : NSeq) :
    Model.stackSortable σ = true ↔ Spec.stackPass σ = Model.identity σ.length := by
  unfold Model.stackSortable Model.identity
  rw [isIncreasing_iff, stackSort_length, stackSort_eq_stackPass]

/-- `bubble_sortable` holds exactly when the sweep outputs the identity -/
theorem bubbleSortable_iff_identity (σ : NSeq) :
    Model.bubbleSortable σ = true ↔ Spec.bubblePass σ = Model.identity σ.length := by
  unfold Model.bubbleSortable Model.identity
  rw [isIncreasing_iff, (bubbleSort_perm σ).length_eq, bubbleSort_eq_bubblePass]

/-- **Knuth**: a permutation is stack-sortable iff it avoids 231 -/
theorem stackSortable_iff_avoids_231 (σ : NSeq) (h : IsPerm σ) :
    Model.stackSortable σ = true ↔ ¬ Contains σ [1, 2, 0] := by
  unfold Model.stackSortable
  rw [isIncreasing_iff_sorted (isPerm_stackSort h), stackSort_sorted_iff σ h.1, contains_231_iff]

/-- the same with the code's own avoidance test: `stack_sortable() == avoids(Perm((1,2,0)))` -/
theorem stackSortable_eq_avoids (σ : NSeq) (h : IsPerm σ) :
    Model.stackSortable σ = Model.avoidsAll σ [[1, 2, 0]] := by
  rw [Bool.eq_iff_iff, stackSortable_iff_avoids_231 σ h,
    C01.avoidsAll_iff σ _ h (by intro p hp; simp at hp; subst hp; decide)]
  simp

/-- a permutation is bubble-sortable iff it avoids 231 and 321 -/
theorem bubbleSortable_iff_avoids (σ : NSeq) (h : IsPerm σ) :
    Model.bubbleSortable σ = true ↔ ¬ Contains σ [1, 2, 0] ∧ ¬ Contains σ [2, 1, 0] := by
  unfold Model.bubbleSortable
  rw [isIncreasing_iff_sorted (isPerm_of_perm (bubbleSort_perm σ) h), bubbleSort_sorted_iff σ h.1,
    hasLow3_iff σ h.1, not_or]

/-- non-vacuity: both outcomes occur among permutations -/
example : IsPerm [1, 0, 3, 2] ∧ IsPerm [1, 2, 0] ∧ Model.stackSortable [1, 0, 3, 2] = true ∧
    ¬ Model.stackSortable [1, 2, 0] = true ∧ ¬ Model.bubbleSortable [2, 1, 0] = true := by
  rw [stackSortable_iff_identity, stackSortable_iff_identity, bubbleSortable_iff_identity]; decide

/-! ## A3  counters -/

/-- `|σ|` passes through a stack sort every permutation (so the `while` loop terminates) -/
theorem stack_passes_sort (σ : NSeq) (h : IsPerm σ) :
    Spec.passes Spec.stackPass σ.length σ = Model.identity σ.length := by
  have : Spec.stackPass = Model.stackSort := funext fun l => (stackSort_eq_stackPass l).symm
  rw [this]; exact passes_stackSort_sorts σ.length σ h rfl

/-- `count_stack_sorts` terminates on every permutation and returns the least `k` such that
    `k` passes through a stack give the identity -/
theorem countStackSorts_spec (σ : NSeq) (h : IsPerm σ) :
    ∃ k, Model.countStackSorts σ = some k ∧
      Spec.passes Spec.stackPass k σ = Model.identity σ.length ∧
      ∀ j, j < k → Spec.passes Spec.stackPass j σ ≠ Model.identity σ.length := by
  have e : Spec.stackPass = Model.stackSort := funext fun l => (stackSort_eq_stackPass l).symm
  rw [e]
  obtain ⟨j, h1, h2, h3⟩ := countGo_spec Model.stackSort stackSort_length σ.length σ 0
    ⟨σ.length, Nat.le_refl _, passes_stackSort_sorts σ.length σ h rfl⟩
  exact ⟨j, by simpa [Model.countStackSorts] using h1, h2, h3⟩

/-- West-`2`-stack-sortable ⇔ at most two passes are counted -/
theorem west2_iff_count_le (σ : NSeq) (h : IsPerm σ) :
    Model.west2 σ = true ↔ ∃ k, k ≤ 2 ∧ Model.countStackSorts σ = some k := by
  obtain ⟨j, h1, h2, h3⟩ := countGo_spec Model.stackSort stackSort_length σ.length σ 0
    ⟨σ.length, Nat.le_refl _, passes_stackSort_sorts σ.length σ h rfl⟩
  have hc : Model.countStackSorts σ = some j := by simpa [Model.countStackSorts] using h1
  unfold Model.west2
  rw [isIncreasing_iff, stackSort_length, stackSort_length, hc]
  constructor
  · intro e
    refine ⟨j, ?_, rfl⟩
    by_contra hlt
    exact h3 2 (by omega) e
  · rintro ⟨k, hk, e⟩
    cases e
    exact passes_fixed Model.stackSort σ _ (stackSort_range _) j h2 2 hk

/-- West-`3`-stack-sortable ⇔ at most three passes are counted -/
theorem west3_iff_count_le (σ : NSeq) (h : IsPerm σ) :
    Model.west3 σ = true ↔ ∃ k, k ≤ 3 ∧ Model.countStackSorts σ = some k := by
  obtain ⟨j, h1, h2, h3⟩ := countGo_spec Model.stackSort stackSort_length σ.length σ 0
    ⟨σ.length, Nat.le_refl _, passes_stackSort_sorts σ.length σ h rfl⟩
  have hc : Model.countStackSorts σ = some j := by simpa [Model.countStackSorts] using h1
  unfold Model.west3
  rw [isIncreasing_iff, stackSort_length, stackSort_length, stackSort_length, hc]
  constructor
  · intro e
    refine ⟨j, ?_, rfl⟩
    by_contra hlt
    exact h3 3 (by omega) e
  · rintro ⟨k, hk, e⟩
    cases e
    exact passes_fixed Model.stackSort σ _ (stackSort_range _) j h2 3 hk

/-! ## A4  Simion–Schmidt -/

private theorem isPerm_012 : IsPerm [0, 1, 2] := by decide
private theorem isPerm_021 : IsPerm [0, 2, 1] := by decide

/-- inputs outside the domain are rejected: a permutation containing 123 gives `ValueError` -/
theorem ss_rejects (σ : NSeq) (h : IsPerm σ) (hc : Contains σ [0, 1, 2]) :
    Model.simionSchmidt σ = .error .valueError := by
  have hne : σ.length ≠ 0 := by
    obtain ⟨c, hlen, _, hr, _⟩ := hc
    match c, hlen with
    | i :: _, _ => have := hr i (by simp); omega
  unfold Model.simionSchmidt
  simp [hne, (C01.containsOne_iff σ _ isPerm_012 h).mpr hc]

/-- the inverse map rejects permutations containing 132 with `ValueError` -/
theorem ssInv_rejects (τ : NSeq) (h : IsPerm τ) (hc : Contains τ [0, 2, 1]) :
    Model.simionSchmidtInv τ = .error .valueError := by
  have hne : τ.length ≠ 0 := by
    obtain ⟨c, hlen, _, hr, _⟩ := hc
    match c, hlen with
    | i :: _, _ => have := hr i (by simp); omega
  unfold Model.simionSchmidtInv
  simp [hne, (C01.containsOne_iff τ _ isPerm_021 h).mpr hc]

private theorem ss_eq_raw (σ : NSeq) (h : IsPerm σ) (hav : ¬ Contains σ [0, 1, 2]) :
    Model.simionSchmidt σ = Model.ssRaw σ := by
  unfold Model.simionSchmidt
  by_cases h0 : σ.length = 0
  · have : σ = [] := List.eq_nil_of_length_eq_zero h0
    subst this; rfl
  · have : Model.containsOne σ [0, 1, 2] = false := by
      rw [← Bool.not_eq_true, C01.containsOne_iff σ _ isPerm_012 h]; exact hav
    simp [h0, this]

private theorem ssInv_eq_raw (τ : NSeq) (h : IsPerm τ) (hav : ¬ Contains τ [0, 2, 1]) :
    Model.simionSchmidtInv τ = Model.ssInvRaw τ := by
  unfold Model.simionSchmidtInv
  by_cases h0 : τ.length = 0
  · have : τ = [] := List.eq_nil_of_length_eq_zero h0
    subst this; rfl
  · have : Model.containsOne τ [0, 2, 1] = false := by
      rw [← Bool.not_eq_true, C01.containsOne_iff τ _ isPerm_021 h]; exact hav
    simp [h0, this]

/-- **forward map**: on every 123-avoiding permutation `simion_and_schmidt` returns a permutation of
    the same length that avoids 132, has the same left-to-right minima (positions and values), and
    is mapped back to the input by `simion_and_schmidt(·, inverse=True)` -/
theorem ss_forward (σ : NSeq) (h : IsPerm σ) (hav : ¬ Contains σ [0, 1, 2]) :
    ∃ τ, Model.simionSchmidt σ = .ok τ ∧ IsPerm τ ∧ τ.length = σ.length ∧
      Model.ltrMin τ = Model.ltrMin σ ∧ ¬ Contains τ [0, 2, 1] ∧ Model.simionSchmidtInv τ = .ok σ := by
  obtain ⟨τ, h1, h2, h3, h4, h5, h6⟩ := ssRaw_main σ h
  have hτ : ¬ Contains τ [0, 2, 1] := by rw [contains_132_iff]; exact h5
  refine ⟨τ, by rw [ss_eq_raw σ h hav, h1], h2, h3, h4, hτ, ?_⟩
  rw [ssInv_eq_raw τ h2 hτ]
  exact h6 (by rw [← contains_123_iff]; exact hav)

/-- **inverse map**: on every 132-avoiding permutation the inverse returns a 123-avoiding permutation
    with the same left-to-right minima which the forward map sends back -/
theorem ss_backward (τ : NSeq) (h : IsPerm τ) (hav : ¬ Contains τ [0, 2, 1]) :
    ∃ σ, Model.simionSchmidtInv τ = .ok σ ∧ IsPerm σ ∧ σ.length = τ.length ∧
      Model.ltrMin σ = Model.ltrMin τ ∧ ¬ Contains σ [0, 1, 2] ∧ Model.simionSchmidt σ = .ok τ := by
  obtain ⟨σ, h1, h2, h3, h4, h5, h6⟩ := ssInvRaw_main τ h
  have hσ : ¬ Contains σ [0, 1, 2] := by rw [contains_123_iff]; exact h5
  refine ⟨σ, by rw [ssInv_eq_raw τ h hav, h1], h2, h3, h4, hσ, ?_⟩
  rw [ss_eq_raw σ h2 hσ]
  exact h6 (by rw [← contains_132_iff]; exact hav)

/-- **bijection, every length**: `simion_and_schmidt` is injective on 123-avoiders … -/
theorem ss_injective (σ₁ σ₂ : NSeq) (h₁ : IsPerm σ₁) (h₂ : IsPerm σ₂)
    (a₁ : ¬ Contains σ₁ [0, 1, 2]) (a₂ : ¬ Contains σ₂ [0, 1, 2])
    (e : Model.simionSchmidt σ₁ = Model.simionSchmidt σ₂) : σ₁ = σ₂ := by
  obtain ⟨τ₁, f₁, _, _, _, _, b₁⟩ := ss_forward σ₁ h₁ a₁
  obtain ⟨τ₂, f₂, _, _, _, _, b₂⟩ := ss_forward σ₂ h₂ a₂
  rw [f₁, f₂] at e
  cases e
  rw [b₁] at b₂
  cases b₂; rfl

/-- … and onto the 132-avoiders of the same length -/
theorem ss_surjective (τ : NSeq) (h : IsPerm τ) (hav : ¬ Contains τ [0, 2, 1]) :
    ∃ σ, IsPerm σ ∧ σ.length = τ.length ∧ ¬ Contains σ [0, 1, 2] ∧ Model.simionSchmidt σ = .ok τ := by
  obtain ⟨σ, _, h2, h3, _, h5, h6⟩ := ss_backward τ h hav
  exact ⟨σ, h2, h3, h5, h6⟩

/-- non-vacuity: the article's example lies in the domain and is moved by the map -/
example : IsPerm [5, 7, 2, 1, 6, 0, 4, 3] ∧ Model.simionSchmidt [5, 7, 2, 1, 6, 0, 4, 3] = .ok [5, 6, 2, 1, 3, 0, 4, 7] ∧
    Model.simionSchmidtInv [5, 6, 2, 1, 3, 0, 4, 7] = .ok [5, 7, 2, 1, 6, 0, 4, 3] ∧
    Model.ltrMin [5, 7, 2, 1, 6, 0, 4, 3] = [(0, 5), (2, 2), (3, 1), (5, 0)] := by
  refine ⟨by decide, ?_, ?_, by decide⟩
  · have h : IsPerm [5, 7, 2, 1, 6, 0, 4, 3] := by decide
    have hc : Model.containsOne [5, 7, 2, 1, 6, 0, 4, 3] [0, 1, 2] = false := by
      unfold Model.containsOne; rw [C01.occurrencesIn_eq_spec _ _ (by decide) h]; decide
    have hav : ¬ Contains [5, 7, 2, 1, 6, 0, 4, 3] [0, 1, 2] := by
      rw [← C01.containsOne_iff _ _ (by decide) h, hc]; simp
    rw [ss_eq_raw _ h hav]; decide
  · have h : IsPerm [5, 6, 2, 1, 3, 0, 4, 7] := by decide
    have hc : Model.containsOne [5, 6, 2, 1, 3, 0, 4, 7] [0, 2, 1] = false := by
      unfold Model.containsOne; rw [C01.occurrencesIn_eq_spec _ _ (by decide) h]; decide
    have hav : ¬ Contains [5, 6, 2, 1, 3, 0, 4, 7] [0, 2, 1] := by
      rw [← C01.containsOne_iff _ _ (by decide) h, hc]; simp
    rw [ssInv_eq_raw _ h hav]; decide

/-! ## A2 (continued)  pop-stack and quicksort: `sortable` = "output is the identity" -/

/-- `pop_stack_sortable` holds exactly when the pop-stack outputs the identity -/
theorem popStackSortable_iff_identity (σ : NSeq) :
    Model.popStackSortable σ = true ↔ Spec.popStackPass σ = Model.identity σ.length := by
  unfold Model.popStackSortable Model.identity
  rw [isIncreasing_iff, (popStackSort_perm σ).length_eq, popStackSort_eq_popStackPass]

/-- `quick_sortable` on a permutation answers (no `AssertionError`) and holds exactly when the
    quicksort operator returns the identity -/
theorem quickSortable_iff_identity (σ : NSeq) (h : IsPerm σ) :
    ∃ b, Model.quickSortableE σ = .ok b ∧ (b = true ↔ Spec.quickPass σ = Model.identity σ.length) := by
  refine ⟨Model.isIncreasing (Model.quickSort σ), ?_, ?_⟩
  · unfold Model.quickSortableE; simp [quickAsserts_perm σ.length σ rfl h]
  · unfold Model.identity
    rw [isIncreasing_iff, (quickSort_perm σ h.1).length_eq, quickSort_eq_quickPass σ h]

/-! ## pop-stack: pattern characterisation and counter -/

/-- a permutation is pop-stack-sortable iff it avoids 231 and 312 (the layered permutations) -/
theorem popStackSortable_iff_avoids (σ : NSeq) (h : IsPerm σ) :
    Model.popStackSortable σ = true ↔ ¬ Contains σ [1, 2, 0] ∧ ¬ Contains σ [2, 0, 1] := by
  unfold Model.popStackSortable
  rw [isIncreasing_iff_sorted (isPerm_popStackSort h), popStackSort_sorted_iff σ h.1, contains_231_iff,
    contains_312_iff]

/-- at most `|σ|²` pop-stack passes sort a permutation (so `count_pop_stack_sorts` terminates) -/
theorem pop_passes_sort (σ : NSeq) (h : IsPerm σ) :
    ∃ j, j ≤ σ.length * σ.length ∧ Spec.passes Spec.popStackPass j σ = Model.identity σ.length := by
  have e : Spec.popStackPass = Model.popStackSort := funext fun l => (popStackSort_eq_popStackPass l).symm
  rw [e]
  obtain ⟨j, hj, hs⟩ := passes_popStackSort_sorts _ σ h rfl
  exact ⟨j, Nat.le_trans hj (countInversions_le σ), hs⟩

/-- `count_pop_stack_sorts` terminates on every permutation and returns the least `k` such that
    `k` pop-stack passes give the identity -/
theorem countPopStackSorts_spec (σ : NSeq) (h : IsPerm σ) :
    ∃ k, Model.countPopStackSorts σ = some k ∧
      Spec.passes Spec.popStackPass k σ = Model.identity σ.length ∧
      ∀ j, j < k → Spec.passes Spec.popStackPass j σ ≠ Model.identity σ.length := by
  have e : Spec.popStackPass = Model.popStackSort := funext fun l => (popStackSort_eq_popStackPass l).symm
  rw [e]
  obtain ⟨j0, hj0, hs⟩ := passes_popStackSort_sorts _ σ h rfl
  obtain ⟨j, h1, h2, h3⟩ := countGo_spec Model.popStackSort popStackSort_length (σ.length * σ.length) σ 0
    ⟨j0, Nat.le_trans hj0 (countInversions_le σ), hs⟩
  exact ⟨j, by simpa [Model.countPopStackSorts] using h1, h2, h3⟩

/-- non-vacuity: a layered permutation is pop-stack sortable, 231 is not; counting is non-trivial -/
example : IsPerm [1, 0, 4, 3, 2] ∧ Model.popStackSortable [1, 0, 4, 3, 2] = true ∧
    ¬ Model.popStackSortable [1, 2, 0] = true ∧ Model.countPopStackSorts [2, 0, 1] = some 2 := by
  refine ⟨by decide, ?_, ?_, by decide⟩
  · rw [popStackSortable_iff_identity]; decide
  · rw [popStackSortable_iff_identity]; decide

/-! ## A5  families -/

/-- the tables regenerated from `perm_properties.py` are the patterns the docstrings name -/
theorem family_tables :
    Model.familyPatts "smooth" = [([0, 2, 1, 3], none), ([1, 0, 3, 2], none)] ∧
    Model.familyPatts "forest_like" = [([0, 2, 1, 3], none), ([1, 0, 3, 2], some [(2, 2)])] ∧
    Model.familyPatts "baxter" = [([1, 3, 0, 2], some [(2, 2)]), ([2, 0, 3, 1], some [(2, 2)])] ∧
    Model.familyPatts "simsun" = [([2, 1, 0], some [(1, 0), (1, 1), (2, 2)])] ∧
    Model.familyPatts "av_231_and_mesh" =
      [([1, 2, 0], none), ([0, 1, 5, 2, 3, 4], some [(1, 6), (4, 5), (4, 6)])] ∧
    Model.familyPatts "hard_mesh" = [([0, 1, 2], some [(0, 0), (1, 1), (2, 2), (3, 3)]),
      ([0, 1, 2], some [(0, 3), (1, 2), (2, 1), (3, 0)])] := by
  refine ⟨by decide, by decide, by decide, by decide, by decide, by decide⟩

/-- `smooth` holds exactly for the permutations avoiding 0213 and 1032 (1324 and 2143) -/
theorem smooth_iff_avoids (σ : NSeq) (h : IsPerm σ) :
    Model.smooth σ = true ↔ ¬ Contains σ [0, 2, 1, 3] ∧ ¬ Contains σ [1, 0, 3, 2] := by
  unfold Model.smooth
  rw [family_tables.1]
  simp only [Model.avoidsSrc, Model.containsSrc, List.all_cons, List.all_nil, Bool.and_true,
    Bool.and_eq_true, Bool.not_eq_true', ← Bool.not_eq_true]
  rw [C01.containsOne_iff σ _ (by decide) h, C01.containsOne_iff σ _ (by decide) h]

/-- `forest_like`, `baxter`, `simsun` avoid exactly the (mesh) patterns of their definitions:
    1324 & 21\bar{3}54;  2-41-3 & 3-14-2 in mesh form;  the simsun mesh pattern -/
theorem mesh_families_unfold (σ : NSeq) :
    Model.forestLike σ = (!Model.containsOne σ [0, 2, 1, 3] && !Model.containsMesh σ ⟨[1, 0, 3, 2], [(2, 2)]⟩) ∧
    Model.baxter σ = (!Model.containsMesh σ ⟨[1, 3, 0, 2], [(2, 2)]⟩ && !Model.containsMesh σ ⟨[2, 0, 3, 1], [(2, 2)]⟩) ∧
    Model.simsun σ = !Model.containsMesh σ ⟨[2, 1, 0], [(1, 0), (1, 1), (2, 2)]⟩ := by
  unfold Model.forestLike Model.baxter Model.simsun
  rw [family_tables.2.1, family_tables.2.2.1, family_tables.2.2.2.1]
  simp [Model.avoidsSrc, Model.containsSrc]

/-! ## A5 (continued)  the mesh patterns of the source characterise the textbook definitions

`Spec.IsSimsun`, `Spec.IsBaxter`, `Spec.IsForestLike` (`Spec/C12Families.lean`) are stated on entries
and positions only; the theorems hold for every permutation, of any length. -/

/-- **simsun**: `perm_properties.simsun` (avoidance of the mesh pattern `(210, {(1,0),(1,1),(2,2)})`)
    holds exactly when no restriction of the permutation to the values `{0,…,k-1}`, `k ≤ n`, has a
    double descent (three consecutive, strictly decreasing entries) -/
theorem simsun_iff_double_descent (σ : NSeq) (h : IsPerm σ) :
    Model.simsun σ = true ↔ Spec.IsSimsun σ := by
  rw [(mesh_families_unfold σ).2.2, Bool.not_eq_true', ← Bool.not_eq_true,
    C03.containsMesh_iff σ _ (by decide) h, meshContains_simsun_iff σ h]
  unfold Spec.IsSimsun
  constructor
  · intro hno k hk hdd; exact hno ⟨k, hk, hdd⟩
  · rintro hall ⟨k, hk, hdd⟩; exact hall k hk hdd

/-- non-vacuity: `23140` has no double descent itself, but its restriction `210` to the values
    `< 3` has one; the model agrees through the theorem -/
example : IsPerm [2, 3, 1, 4, 0] ∧ ¬ Spec.HasDoubleDescent [2, 3, 1, 4, 0] ∧ ¬ Spec.IsSimsun [2, 3, 1, 4, 0] ∧
    Model.simsun [2, 3, 1, 4, 0] = false ∧ Spec.IsSimsun [2, 0, 1, 3] ∧ Model.simsun [2, 0, 1, 3] = true := by
  refine ⟨by decide, by decide, by decide, ?_, by decide, ?_⟩
  · rw [← Bool.not_eq_true, simsun_iff_double_descent _ (by decide)]; decide
  · rw [simsun_iff_double_descent _ (by decide)]; decide

/-- **Baxter**: `perm_properties.baxter` (avoidance of the mesh patterns `(1302, {(2,2)})` and
    `(2031, {(2,2)})`) holds exactly when there are no positions `i < j < j+1 < k` with
    `σ[j+1] < σ[i] < σ[k] < σ[j]` (2-41-3) or `σ[j] < σ[k] < σ[i] < σ[j+1]` (3-14-2) -/
theorem baxter_iff_vincular (σ : NSeq) (h : IsPerm σ) :
    Model.baxter σ = true ↔ Spec.IsBaxter σ := by
  rw [(mesh_families_unfold σ).2.1]
  simp only [Bool.and_eq_true, Bool.not_eq_true', ← Bool.not_eq_true]
  rw [C03.containsMesh_iff σ _ (by decide) h, C03.containsMesh_iff σ _ (by decide) h,
    meshContains_1302_iff σ h, meshContains_2031_iff σ h]
  rfl

/-- non-vacuity: `14203` contains 2413 classically (as `1403`) yet is Baxter – the `2` sits in the
    box; `1302` and `2031` themselves are not Baxter -/
example : IsPerm [1, 4, 2, 0, 3] ∧ Contains [1, 4, 2, 0, 3] [1, 3, 0, 2] ∧ Spec.IsBaxter [1, 4, 2, 0, 3] ∧
    Model.baxter [1, 4, 2, 0, 3] = true ∧ ¬ Spec.IsBaxter [1, 3, 0, 2] ∧ ¬ Spec.IsBaxter [2, 0, 3, 1] := by
  refine ⟨by decide, ⟨[0, 1, 3, 4], (isOcc_1302 _ _).mpr ⟨0, 1, 3, 4, rfl, by decide⟩⟩, by decide, ?_,
    by decide, by decide⟩
  rw [baxter_iff_vincular _ (by decide)]; decide

/-- **forest-like**: `perm_properties.forest_like` (avoidance of `0213` and of the mesh pattern
    `(1032, {(2,2)})`) holds exactly when the permutation avoids 1324 and every occurrence
    `a < b < c < d` of 2143 has an entry positioned between `b` and `c` with a value between
    `σ[a]` and `σ[d]`, i.e. it avoids the barred pattern 21\bar{3}54 -/
theorem forestLike_iff_barred (σ : NSeq) (h : IsPerm σ) :
    Model.forestLike σ = true ↔ Spec.IsForestLike σ := by
  rw [(mesh_families_unfold σ).1]
  simp only [Bool.and_eq_true, Bool.not_eq_true', ← Bool.not_eq_true]
  rw [C01.containsOne_iff σ _ (by decide) h, C03.containsMesh_iff σ _ (by decide) h,
    contains_0213_iff, not_meshContains_1032_iff σ h]
  rfl

/-- non-vacuity: `10243` contains 2143 but is forest-like (the `2` completes 21354);
    `1032` and `0213` are not -/
example : IsPerm [1, 0, 2, 4, 3] ∧ Spec.IsForestLike [1, 0, 2, 4, 3] ∧ Model.forestLike [1, 0, 2, 4, 3] = true ∧
    Model.smooth [1, 0, 2, 4, 3] = false ∧ ¬ Spec.IsForestLike [1, 0, 3, 2] ∧ ¬ Spec.IsForestLike [0, 2, 1, 3] := by
  refine ⟨by decide, by decide, ?_, ?_, by decide, by decide⟩
  · rw [forestLike_iff_barred _ (by decide)]; decide
  · rw [← Bool.not_eq_true, smooth_iff_avoids _ (by decide)]
    intro hh
    exact hh.2 ⟨[0, 1, 3, 4], (isOcc_1032 _ _).mpr ⟨0, 1, 3, 4, rfl, by decide⟩⟩


/-- `dihedral_group(n)` yields exactly the `2n` symmetries of the regular `n`-gon when `n ≥ 3`
    and nothing for `n ≤ 2` -/
theorem dihedralGroup_iff (n : Nat) (σ : NSeq) :
    σ ∈ Model.dihedralGroup n ↔
      3 ≤ n ∧ ∃ a, a < n ∧ (σ = Spec.ngonRot n a ∨ σ = Spec.ngonRefl n a) :=
  mem_dihedralGroup_iff n σ

/-- it yields `2n` permutations (`0` for `n ≤ 2`) -/
theorem dihedralGroup_card (n : Nat) : (Model.dihedralGroup n).length = if n ≤ 2 then 0 else 2 * n :=
  dihedralGroup_length n

/-- `dihedral(perm)` holds exactly for the symmetries of the `|perm|`-gon -/
theorem dihedral_iff_spec (σ : NSeq) : Model.dihedral σ = true ↔ Spec.IsDihedral σ := dihedral_iff σ

example : Spec.IsDihedral [2, 1, 0, 3] ∧ ¬ Spec.IsDihedral [0, 2, 1, 3] ∧ ¬ Spec.IsDihedral [1, 0] := by decide

/-- `in_alternating_group` is "even number of inversions" for `n ≥ 3` -/
theorem inAlternatingGroup_iff_even (σ : NSeq) (h : 3 ≤ σ.length) :
    Model.inAlternatingGroup σ = true ↔ Spec.IsEven σ := by
  unfold Model.inAlternatingGroup Spec.IsEven
  have h0 : σ.length ≠ 0 := by omega
  have h3 : ¬ σ.length < 3 := by omega
  simp [h0, h3, countInversions_eq]

/-- the small-`n` convention of the code: length 0 and 1 are members, length 2 is never a member -/
theorem inAlternatingGroup_small (σ : NSeq) (h : σ.length < 3) :
    Model.inAlternatingGroup σ = true ↔ σ.length ≠ 2 := by
  unfold Model.inAlternatingGroup
  have : σ.length = 0 ∨ σ.length = 1 ∨ σ.length = 2 := by omega
  rcases this with e | e | e <;> simp [e]

/-- the known finding, stated: the identity of length 2 is even but is rejected
    (`KNOWN_FINDINGS.json` C12-alternating-n2) -/
theorem inAlternatingGroup_identity2_partial :
    Spec.IsEven [0, 1] ∧ Model.inAlternatingGroup [0, 1] = false := by decide

-- ===== pv12b: West-2 / quicksort characterisations =====

/-! ## B1  West: two passes through a stack -/
/-- **decomposition around the maximum**: with `m` above everything in `L` and at least everything in `R`,
    one pass of `_stack_sort` on `L m R` is the pass on `L`, then the pass on `R`, then `m` -/
theorem stackSort_max_decomp (L R : List Nat) (m : Nat) (hL : ∀ x ∈ L, x < m) (hR : ∀ x ∈ R, x ≤ m) :
    Model.stackSort (L ++ m :: R) = Model.stackSort L ++ Model.stackSort R ++ [m] := by
  rw [stackSort_eq_stackPass, stackSort_eq_stackPass, stackSort_eq_stackPass]
  exact stackPass_split L R m hL hR

example : Model.stackSort ([1, 2, 0] ++ 4 :: [3]) = [1, 0, 2] ++ [3] ++ [4] := by
  rw [stackSort_max_decomp _ _ _ (by decide) (by decide), stackSort_eq_device, stackSort_eq_device]; decide

/-- **order of two entries after one pass** (every duplicate-free word): the larger entry `x` is output
    before the smaller entry `y` exactly when `x` stands before `y` in the input and some entry larger
    than `x` stands between them (`[x, z, y] <+ σ` = "`x`, `z`, `y` occur in `σ` in this order") -/
theorem stackSort_order_iff (σ : List Nat) (hnd : σ.Nodup) (x y : Nat) (hxy : y < x) :
    List.Sublist [x, y] (Model.stackSort σ) ↔ ∃ z, x < z ∧ List.Sublist [x, z, y] σ :=
  stackSort_inv_iff σ hnd x y hxy

example : List.Sublist [2, 1] (Model.stackSort [2, 3, 1, 0]) ∧ ¬ List.Sublist [1, 0] (Model.stackSort [2, 3, 1, 0]) := by
  rw [stackSort_eq_device]; decide

/-- **West's lemma**: the output of one pass through the stack contains 231 exactly when the input
    contains 2341 or the mesh pattern `(3241, {(1,4)})` (the barred pattern 3\bar{5}241) -/
theorem stackSort_contains_231_iff (σ : NSeq) (h : IsPerm σ) :
    Contains (Model.stackSort σ) [1, 2, 0] ↔
      Contains σ [1, 2, 3, 0] ∨ MeshContains σ ⟨[2, 1, 3, 0], [(1, 4)]⟩ := by
  rw [contains_231_iff, has231_stackSort_iff σ h.1, contains_2341_iff, meshContains_3241_iff σ h.1]

/-- non-vacuity of the right-hand side: 3241 itself is an occurrence of the mesh pattern, in 35241 the
    classical occurrence of 3241 is there but the 5 sits in the shaded cell -/
example : MeshContains [2, 1, 3, 0] ⟨[2, 1, 3, 0], [(1, 4)]⟩ ∧
    ¬ MeshContains [2, 4, 1, 3, 0] ⟨[2, 1, 3, 0], [(1, 4)]⟩ ∧ Contains [2, 4, 1, 3, 0] [2, 1, 3, 0] := by
  refine ⟨?_, ?_, ⟨[0, 2, 3, 4], (C01.mem_spec_iff _ _ _).mp (by decide)⟩⟩ <;>
    simp only [C03.meshContains_iff_spec] <;> decide

/-- **West (1990)**: a permutation is sorted by two passes through a stack (`west_2_stack_sortable`)
    iff it avoids 2341 classically and avoids the mesh pattern `(3241, {(1,4)})`, i.e. every occurrence
    of 3241 is part of an occurrence of 35241 -/
theorem west2_iff_avoids (σ : NSeq) (h : IsPerm σ) :
    Model.west2 σ = true ↔
      ¬ Contains σ [1, 2, 3, 0] ∧ ¬ MeshContains σ ⟨[2, 1, 3, 0], [(1, 4)]⟩ := by
  have e : Model.west2 σ = Model.stackSortable (Model.stackSort σ) := rfl
  rw [e, stackSortable_iff_avoids_231 _ (isPerm_stackSort h), stackSort_contains_231_iff σ h, not_or]

/-- the same about the device and the identity: two passes through a stack give `0 1 … n-1` iff … -/
theorem stackPass_twice_identity_iff_avoids (σ : NSeq) (h : IsPerm σ) :
    Spec.stackPass (Spec.stackPass σ) = Model.identity σ.length ↔
      ¬ Contains σ [1, 2, 3, 0] ∧ ¬ MeshContains σ ⟨[2, 1, 3, 0], [(1, 4)]⟩ := by
  rw [← west2_iff_avoids σ h]
  unfold Model.west2 Model.identity
  rw [isIncreasing_iff, stackSort_length, stackSort_length, stackSort_eq_stackPass, stackSort_eq_stackPass]

/-- the same with the code's own avoidance test:
    `p.west_2_stack_sortable() == p.avoids(Perm((1,2,3,0)), MeshPatt(Perm((2,1,3,0)), [(1,4)]))` -/
theorem west2_eq_avoids (σ : NSeq) (h : IsPerm σ) :
    Model.west2 σ = Model.avoidsSrc σ [([1, 2, 3, 0], none), ([2, 1, 3, 0], some [(1, 4)])] := by
  rw [Bool.eq_iff_iff, west2_iff_avoids σ h]
  simp only [Model.avoidsSrc, Model.containsSrc, List.all_cons, List.all_nil, Bool.and_true,
    Bool.and_eq_true, Bool.not_eq_true', ← Bool.not_eq_true]
  rw [C01.containsOne_iff σ _ (by decide) h,
    C03.containsMesh_iff σ ⟨[2, 1, 3, 0], [(1, 4)]⟩ (by decide) h]

/-- non-vacuity: 2341 and 3241 are not West-2-stack-sortable, 35241 is (its 3241 is covered by the 5),
    25341 (the 5 not between the 3 and the 2) is not -/
example : IsPerm [2, 4, 1, 3, 0] ∧ Model.west2 [2, 4, 1, 3, 0] = true ∧ Model.west2 [1, 2, 3, 0] = false ∧
    Model.west2 [2, 1, 3, 0] = false ∧ Model.west2 [1, 4, 2, 3, 0] = false := by
  refine ⟨by decide, ?_, ?_, ?_, ?_⟩ <;>
    simp only [Model.west2, stackSort_eq_device] <;> decide


/-! ## B2  quicksort: one pass of the operator -/

/-- the recursion of the quicksort operator on every word: at the rightmost strong fixed point `m`
    (everything before it smaller, everything after it larger) the word is cut and both sides are
    treated separately -/
theorem quickPass_strongFix_decomp (l : List Nat) (m : Nat) (h : Spec.lastStrongFix l = some m) :
    Spec.quickPass l = Spec.quickPass (l.take m) ++ [l.getD m 0] ++ Spec.quickPass (l.drop (m + 1)) :=
  quickPass_some h

/-- … and a word `f :: t` without strong fixed point is partitioned around its first entry -/
theorem quickPass_pivot (f : Nat) (t : List Nat) (h : Spec.lastStrongFix (f :: t) = none) :
    Spec.quickPass (f :: t) = (f :: t).filter (· < f) ++ [f] ++ (f :: t).filter (f < ·) :=
  quickPass_none h

example : Spec.lastStrongFix [1, 0, 2, 4, 3] = some 2 ∧ Spec.lastStrongFix [2, 0, 3, 1] = none := by decide

/-- one pass of the quicksort operator leaves a permutation increasing iff it has no 321, no 2413 and
    no 2143 whose middle box (positions between the 1 and the 4, values between the 2 and the 3) is
    empty -/
theorem quickPass_sorted_iff_avoids (σ : NSeq) (h : IsPerm σ) :
    (Spec.quickPass σ).Pairwise (· < ·) ↔
      ¬ Contains σ [2, 1, 0] ∧ ¬ Contains σ [1, 3, 0, 2] ∧ ¬ MeshContains σ ⟨[1, 0, 3, 2], [(2, 2)]⟩ := by
  rw [quickPass_sorted_iff σ h.1, contains_321_iff', contains_2413_iff, meshContains_2143_iff σ h.1]
  unfold BadQ
  rw [not_or, not_or]

/-- non-vacuity of the right-hand side: 2143 is an occurrence of the mesh pattern, in 21354 the 3 sits
    in the shaded cell -/
example : MeshContains [1, 0, 3, 2] ⟨[1, 0, 3, 2], [(2, 2)]⟩ ∧
    ¬ MeshContains [1, 0, 2, 4, 3] ⟨[1, 0, 3, 2], [(2, 2)]⟩ ∧ Contains [1, 0, 2, 4, 3] [1, 0, 3, 2] := by
  refine ⟨?_, ?_, ⟨[0, 1, 3, 4], (C01.mem_spec_iff _ _ _).mp (by decide)⟩⟩ <;>
    simp only [C03.meshContains_iff_spec] <;> decide

/-- **Claesson–Úlfarsson**: `quick_sortable` answers on every permutation, and holds iff the permutation
    avoids 321, 2413 and the mesh pattern `(2143, {(2,2)})` (the barred pattern 21\bar{3}54; the second
    pattern of `_FOREST_LIKE_PATT`) -/
theorem quickSortable_iff_avoids (σ : NSeq) (h : IsPerm σ) :
    ∃ b, Model.quickSortableE σ = .ok b ∧
      (b = true ↔ ¬ Contains σ [2, 1, 0] ∧ ¬ Contains σ [1, 3, 0, 2] ∧
        ¬ MeshContains σ ⟨[1, 0, 3, 2], [(2, 2)]⟩) := by
  refine ⟨Model.isIncreasing (Model.quickSort σ), ?_, ?_⟩
  · unfold Model.quickSortableE; simp [quickAsserts_perm σ.length σ rfl h]
  · rw [isIncreasing_iff_sorted (isPerm_of_perm (quickSort_perm σ h.1) h), quickSort_eq_quickPass σ h,
      quickPass_sorted_iff_avoids σ h]

/-- the same about the device and the identity -/
theorem quickPass_identity_iff_avoids (σ : NSeq) (h : IsPerm σ) :
    Spec.quickPass σ = Model.identity σ.length ↔
      ¬ Contains σ [2, 1, 0] ∧ ¬ Contains σ [1, 3, 0, 2] ∧ ¬ MeshContains σ ⟨[1, 0, 3, 2], [(2, 2)]⟩ := by
  obtain ⟨b, h1, h2⟩ := quickSortable_iff_identity σ h
  obtain ⟨b', h1', h2'⟩ := quickSortable_iff_avoids σ h
  rw [h1] at h1'; cases h1'
  rw [← h2, h2']

/-- the same with the code's own avoidance test: `p.quick_sortable() ==
    p.avoids(Perm((2,1,0)), Perm((1,3,0,2)), MeshPatt(Perm((1,0,3,2)), [(2,2)]))` -/
theorem quickSortable_eq_avoids (σ : NSeq) (h : IsPerm σ) :
    Model.quickSortableE σ =
      .ok (Model.avoidsSrc σ [([2, 1, 0], none), ([1, 3, 0, 2], none), ([1, 0, 3, 2], some [(2, 2)])]) := by
  obtain ⟨b, h1, h2⟩ := quickSortable_iff_avoids σ h
  rw [h1]; congr 1
  rw [Bool.eq_iff_iff, h2]
  simp only [Model.avoidsSrc, Model.containsSrc, List.all_cons, List.all_nil, Bool.and_true,
    Bool.and_eq_true, Bool.not_eq_true', ← Bool.not_eq_true]
  rw [C01.containsOne_iff σ _ (by decide) h, C01.containsOne_iff σ _ (by decide) h,
    C03.containsMesh_iff σ ⟨[1, 0, 3, 2], [(2, 2)]⟩ (by decide) h]

/-- the mesh pattern is the one the source already uses for `forest_like` -/
theorem quick_mesh_is_forest_like_patt :
    (Model.familyPatts "forest_like").getD 1 ([], none) = ([1, 0, 3, 2], some [(2, 2)]) := by decide

/-- non-vacuity: 21354 is quick-sortable (the 3 is a strong fixed point), 2143, 321 and 2413 are not -/
example : IsPerm [1, 0, 2, 4, 3] ∧ Spec.quickPass [1, 0, 2, 4, 3] = Model.identity 5 ∧
    Spec.quickPass [1, 0, 3, 2] ≠ Model.identity 4 ∧ Spec.quickPass [2, 1, 0] ≠ Model.identity 3 ∧
    Spec.quickPass [1, 3, 0, 2] ≠ Model.identity 4 := by decide

-- ===== pv12b: end =====

-- ===== pv12c: Schensted / Greene =====

/-! ## C1  the Young tableau of `_perm_to_yt` (row insertion), every duplicate-free word

`σ.Nodup` covers every permutation (`IsPerm σ` is `σ.Nodup ∧ …`) and every tuple of distinct naturals the
`Perm` constructor accepts. -/

/-- every row of the tableau is strictly increasing -/
theorem permToYt_rows_increasing (σ : NSeq) (h : σ.Nodup) :
    ∀ r ∈ Model.permToYt σ, r.Pairwise (· < ·) := by
  rw [permToYt_eq]; exact (tabOK_tabIns _ σ (Nat.le_refl _) h).row_sorted

/-- no row is empty -/
theorem permToYt_rows_nonempty (σ : NSeq) (h : σ.Nodup) : ∀ r ∈ Model.permToYt σ, r ≠ [] := by
  rw [permToYt_eq]; exact (tabOK_tabIns _ σ (Nat.le_refl _) h).row_ne_nil

/-- every column is strictly increasing downwards, and a row is never longer than the row above it:
    a cell `(i+1, j)` of the tableau has a cell `(i, j)` above it with a smaller entry -/
theorem permToYt_columns_increasing (σ : NSeq) (h : σ.Nodup) (i j : Nat)
    (hi : i + 1 < (Model.permToYt σ).length) (hj : j < ((Model.permToYt σ).getD (i + 1) []).length) :
    j < ((Model.permToYt σ).getD i []).length ∧
      ((Model.permToYt σ).getD i []).getD j 0 < ((Model.permToYt σ).getD (i + 1) []).getD j 0 := by
  rw [permToYt_eq] at hi hj ⊢
  exact ((tabOK_tabIns _ σ (Nat.le_refl _) h).dom_at i hi).getD_lt j hj

/-- the entries of the tableau are exactly the entries of the word (no hypothesis on `σ`) -/
theorem permToYt_entries (σ : NSeq) : (Model.permToYt σ).flatten.Perm σ := by
  rw [permToYt_eq]; exact tabIns_flatten_perm _ σ (Nat.le_refl _)

/-- the shape (row lengths) is a partition of `|σ|`: weakly decreasing positive parts summing to `|σ|` -/
theorem permToYt_shape_partition (σ : NSeq) (h : σ.Nodup) :
    ((Model.permToYt σ).map List.length).Pairwise (· ≥ ·) ∧
    (∀ m ∈ (Model.permToYt σ).map List.length, 1 ≤ m) ∧
    ((Model.permToYt σ).map List.length).sum = σ.length := by
  refine ⟨?_, ?_, ?_⟩
  · rw [permToYt_eq]; exact (tabOK_tabIns _ σ (Nat.le_refl _) h).lengths_antitone
  · intro m hm
    obtain ⟨r, hr, e⟩ := List.mem_map.mp hm
    have := permToYt_rows_nonempty σ h r hr
    subst e
    cases r with
    | nil => exact absurd rfl this
    | cons _ _ => simp
  · rw [sum_length_flatten, (permToYt_entries σ).length_eq]

/-- non-vacuity: a tableau with three rows, and what goes wrong with a repeated entry (two equal
    entries in a row), so `Nodup` is needed -/
example : Model.permToYt [1, 3, 2, 0, 4] = [[0, 2, 4], [1], [3]] ∧ Model.permToYt [1, 1] = [[1, 1]] := by
  decide

/-! ## C2  Schensted's theorem -/

/-- **Schensted (rows)**: the first row of the tableau is as long as a longest strictly increasing
    subsequence of `σ` (`Spec.IsLIS`: some subsequence `s <+ σ` is increasing of that length, none is
    longer) -/
theorem schensted_first_row (σ : NSeq) (h : σ.Nodup) :
    Spec.IsLIS σ ((Model.permToYt σ).getD 0 []).length := by
  rw [permToYt_row0]; exact isLIS_rowOf σ h

/-- **Schensted (columns)**: the number of rows of the tableau is the length of a longest strictly
    decreasing subsequence of `σ` -/
theorem schensted_row_count (σ : NSeq) (h : σ.Nodup) : Spec.IsLDS σ (Model.permToYt σ).length := by
  rw [permToYt_eq]; exact isLDS_tabIns _ σ (Nat.le_refl _) h

/-- the row recursion behind both theorems: the tableau of a non-empty word is its first row on top of the
    tableau of the word of entries bumped out of the first row (`C12.bumpsOf`, in the order of bumping); so
    the second row is as long as a longest increasing subsequence of the bumped word (the statement about
    `σ` itself is Greene's theorem below) -/
theorem permToYt_row_recursion (σ : NSeq) (h : σ.Nodup) :
    Model.permToYt σ = (if σ = [] then [] else rowOf σ :: Model.permToYt (bumpsOf σ)) ∧
    Spec.IsLIS (bumpsOf σ) ((Model.permToYt σ).getD 1 []).length := by
  constructor
  · split
    · rename_i e; subst e; rfl
    · rename_i e; rw [permToYt_eq, permToYt_eq, tabIns_rec σ e]
  · rw [permToYt_row1]; exact isLIS_rowOf _ (bumpsOf_nodup σ h)

/-- non-vacuity: `1 3 2 0 4` has the increasing subsequence `1 2 4`, the decreasing one `3 2 0`, none of
    length 4; its bumped word is `3 1` -/
example : Spec.IsLIS [1, 3, 2, 0, 4] 3 ∧ Spec.IsLDS [1, 3, 2, 0, 4] 3 ∧ bumpsOf [1, 3, 2, 0, 4] = [3, 1] ∧
    List.Sublist [1, 2, 4] [1, 3, 2, 0, 4] ∧ List.Sublist [3, 2, 0] [1, 3, 2, 0, 4] :=
  ⟨schensted_first_row _ (by decide), schensted_row_count _ (by decide), by decide, by decide, by decide⟩

/-- the shape lies between the hook and the rectangle: `LIS + LDS - 1 ≤ |σ| ≤ LIS · LDS`
    (the right half is the Erdős–Szekeres theorem, here read off the tableau) -/
theorem shape_bounds (σ : NSeq) (h : σ.Nodup) (hne : σ ≠ []) (a d : Nat) (ha : Spec.IsLIS σ a)
    (hd : Spec.IsLDS σ d) : a + d ≤ σ.length + 1 ∧ σ.length ≤ a * d := by
  have e1 := ha.unique (isLIS_rowOf σ h)
  have e2 := hd.unique (isLDS_tabIns _ σ (Nat.le_refl _) h)
  subst e1 e2
  exact ⟨(shape_counts σ h hne).1, (shape_counts σ h hne).2.1⟩

/-! ## C3  the two shape predicates of the source -/

/-- what `yt_perm_avoids_22` tests: the second row of the tableau has at most one cell -/
theorem ytAvoids22_iff_second_row (σ : NSeq) (h : σ.Nodup) :
    Model.ytAvoids22 σ = true ↔ ((Model.permToYt σ).getD 1 []).length ≤ 1 := by
  unfold Model.ytAvoids22
  rw [Bool.not_eq_true', ← Bool.not_eq_true, containsShape_two _ 2 2 (by omega), permToYt_row0, permToYt_row1]
  have := row1_le_row0 σ h
  omega

/-- what `yt_perm_avoids_32` tests (every tuple): not (first row `≥ 3` and second row `≥ 2`) -/
theorem ytAvoids32_iff_rows (σ : NSeq) :
    Model.ytAvoids32 σ = true ↔
      ¬ (3 ≤ ((Model.permToYt σ).getD 0 []).length ∧ 2 ≤ ((Model.permToYt σ).getD 1 []).length) := by
  unfold Model.ytAvoids32
  rw [Bool.not_eq_true', ← Bool.not_eq_true, containsShape_two _ 3 2 (by omega)]

/-- **hook shapes**: the tableau of `σ` avoids the shape `(2,2)` iff a longest increasing and a longest
    decreasing subsequence together are as long as they can be: `LIS σ + LDS σ = |σ| + 1`
    (always `≤`, see `shape_bounds`) -/
theorem ytAvoids22_iff_hook (σ : NSeq) (h : σ.Nodup) (a d : Nat) (ha : Spec.IsLIS σ a)
    (hd : Spec.IsLDS σ d) : Model.ytAvoids22 σ = true ↔ σ = [] ∨ σ.length + 1 = a + d := by
  rw [ytAvoids22_iff_second_row σ h, permToYt_row1]
  by_cases hne : σ = []
  · subst hne; simp [bumpsOf, bumpRun, rowOf, rowRun]
  · have e1 := ha.unique (isLIS_rowOf σ h)
    have e2 := hd.unique (isLDS_tabIns _ σ (Nat.le_refl _) h)
    subst e1 e2
    rw [← (shape_counts σ h hne).2.2]
    simp [hne]

/-- the tableau of `σ` avoids the shape `(3,2)` iff `σ` has no increasing subsequence of length 3 or its
    shape is a hook -/
theorem ytAvoids32_iff_hook (σ : NSeq) (h : σ.Nodup) (a d : Nat) (ha : Spec.IsLIS σ a)
    (hd : Spec.IsLDS σ d) : Model.ytAvoids32 σ = true ↔ a ≤ 2 ∨ σ.length + 1 = a + d := by
  rw [ytAvoids32_iff_rows, permToYt_row0, permToYt_row1]
  have e1 := ha.unique (isLIS_rowOf σ h)
  subst e1
  by_cases hne : σ = []
  · subst hne; simp [rowOf, rowRun]
  · have e2 := hd.unique (isLDS_tabIns _ σ (Nat.le_refl _) h)
    subst e2
    rw [(shape_counts σ h hne).2.2]
    omega

/-- non-vacuity: `2 0 3 1` (shape `(2,2)`: LIS 2, LDS 2, `2 + 2 < 4 + 1`) is rejected by the first
    predicate only, `1 3 2 0 4` (hook `(3,1,1)`) is accepted by both, `0 2 4 1 3` (shape `(3,2)`) by
    neither -/
example : Model.ytAvoids22 [2, 0, 3, 1] = false ∧ Model.ytAvoids32 [2, 0, 3, 1] = true ∧
    Model.ytAvoids22 [1, 3, 2, 0, 4] = true ∧ Model.ytAvoids32 [1, 3, 2, 0, 4] = true ∧
    Model.ytAvoids22 [0, 2, 4, 1, 3] = false ∧ Model.ytAvoids32 [0, 2, 4, 1, 3] = false := by decide

/-! ## C4  Greene's theorem: the whole shape

`Spec.IsGreeneFam k σ m`: `m` is the largest total length of `k` pairwise disjoint strictly increasing
subsequences of `σ` (`Spec/C12RSK.lean`; `Spec.IsGreeneInc` is the same through colourings of the letters,
`C12.isGreeneInc_iff_fam`).  Proof: the insertion respects Knuth's relations (`C12.tab_knuth`), these keep
the number of letters coverable by `k` increasing subsequences (`C12.knuth_hasCol`), and on the reading word
of a tableau `k` increasing subsequences meet every column at most `k` times (`C12.rw_colouring_le`). -/

/-- **Greene's theorem** (`ytShape_eq_RSK` of the harness): for every `k` the first `k` rows of the
    tableau built by `_perm_to_yt` have together as many cells as `k` pairwise disjoint increasing
    subsequences of `σ` can cover at most -/
theorem ytShape_eq_RSK (σ : NSeq) (h : σ.Nodup) (k : Nat) :
    Spec.IsGreeneFam k σ (((Model.permToYt σ).map List.length).take k).sum := by
  rw [permToYt_eq]; exact greeneFam_tabIns σ h k

/-- the same with colourings: `k` colours, every colour class increasing -/
theorem ytShape_eq_RSK_colourings (σ : NSeq) (h : σ.Nodup) (k : Nat) :
    Spec.IsGreeneInc k σ (((Model.permToYt σ).map List.length).take k).sum := by
  rw [permToYt_eq]; exact greene_tabIns σ h k

/-- so the shape is determined by `σ` alone: row `k` has `g (k+1) - g k` cells, where `g k` is the largest
    total length of `k` disjoint increasing subsequences -/
theorem ytShape_rows_from_greene (σ : NSeq) (h : σ.Nodup) (g : Nat → Nat)
    (hg : ∀ k, Spec.IsGreeneFam k σ (g k)) (k : Nat) :
    ((Model.permToYt σ).getD k []).length = g (k + 1) - g k := by
  have e (j : Nat) : g j = (((Model.permToYt σ).map List.length).take j).sum := by
    have h1 := (isGreeneInc_iff_fam σ h j _).mpr (hg j)
    exact h1.unique (ytShape_eq_RSK_colourings σ h j)
  rw [e (k + 1), e k, take_succ_sum, getD_map_length]
  omega

/-- one increasing subsequence: `Spec.IsGreeneFam 1` is `Spec.IsLIS` -/
theorem greene_one_iff_lis (σ : NSeq) (h : σ.Nodup) (m : Nat) : Spec.IsGreeneFam 1 σ m ↔ Spec.IsLIS σ m := by
  rw [← isGreeneInc_iff_fam σ h, isGreeneInc_one_iff σ h]

/-- non-vacuity: in `0 2 4 1 3` (shape `(3,2)`) the subsequences `0 2 4` and `1 3` cover all five letters;
    in `1 3 2 0 4` (shape `(3,1,1)`) two increasing subsequences cover at most four -/
example : Spec.IsGreeneFam 2 [0, 2, 4, 1, 3] 5 ∧ Spec.IsGreeneFam 2 [1, 3, 2, 0, 4] 4 ∧
    Spec.IsIncFamily [0, 2, 4, 1, 3] [[0, 2, 4], [1, 3]] :=
  ⟨ytShape_eq_RSK _ (by decide) 2, ytShape_eq_RSK _ (by decide) 2,
    ⟨by intro s hs; simp at hs; rcases hs with e | e <;> subst e <;> decide, by decide⟩⟩

/-- **`yt_perm_avoids_22`, index level**: the tableau avoids the shape `(2,2)` iff two disjoint increasing
    subsequences never cover more than one letter beyond a longest increasing subsequence -/
theorem ytAvoids22_iff_greene (σ : NSeq) (h : σ.Nodup) (a g : Nat) (ha : Spec.IsLIS σ a)
    (hg : Spec.IsGreeneFam 2 σ g) : Model.ytAvoids22 σ = true ↔ g ≤ a + 1 := by
  have e1 := ha.unique (schensted_first_row σ h)
  have e2 := ((isGreeneInc_iff_fam σ h 2 _).mpr hg).unique (ytShape_eq_RSK_colourings σ h 2)
  rw [take_two_sum] at e2
  rw [ytAvoids22_iff_second_row σ h]
  omega

/-- **`yt_perm_avoids_32`, index level**: the tableau avoids the shape `(3,2)` iff there is no increasing
    subsequence of length 3 or two disjoint increasing subsequences never cover more than one letter beyond
    a longest one -/
theorem ytAvoids32_iff_greene (σ : NSeq) (h : σ.Nodup) (a g : Nat) (ha : Spec.IsLIS σ a)
    (hg : Spec.IsGreeneFam 2 σ g) : Model.ytAvoids32 σ = true ↔ a ≤ 2 ∨ g ≤ a + 1 := by
  have e1 := ha.unique (schensted_first_row σ h)
  have e2 := ((isGreeneInc_iff_fam σ h 2 _).mpr hg).unique (ytShape_eq_RSK_colourings σ h 2)
  rw [take_two_sum] at e2
  rw [ytAvoids32_iff_rows]
  omega

/-- non-vacuity: for `2 0 3 1` the two sides of `ytAvoids22_iff_greene` are `false` (LIS 2, two disjoint
    increasing subsequences cover all 4 letters), for `1 3 2 0 4` they are `true` (LIS 3, cover 4) -/
example : Spec.IsLIS [2, 0, 3, 1] 2 ∧ Spec.IsGreeneFam 2 [2, 0, 3, 1] 4 ∧ Model.ytAvoids22 [2, 0, 3, 1] = false ∧
    Spec.IsLIS [1, 3, 2, 0, 4] 3 ∧ Spec.IsGreeneFam 2 [1, 3, 2, 0, 4] 4 ∧ Model.ytAvoids22 [1, 3, 2, 0, 4] = true :=
  ⟨schensted_first_row _ (by decide), ytShape_eq_RSK _ (by decide) 2, by decide,
    schensted_first_row _ (by decide), ytShape_eq_RSK _ (by decide) 2, by decide⟩

/-! ## C5  Schensted through the pattern vocabulary of `Spec/Basic.lean` -/

/-- `σ` contains the increasing pattern `0 1 … k-1` iff the first row of its tableau has at least `k` cells -/
theorem contains_identity_iff_first_row (σ : NSeq) (h : σ.Nodup) (k : Nat) :
    Contains σ (Model.identity k) ↔ k ≤ ((Model.permToYt σ).getD 0 []).length :=
  contains_identity_iff_le_lis σ _ k (schensted_first_row σ h)

/-- `σ` contains the decreasing pattern `k-1 … 1 0` iff its tableau has at least `k` rows -/
theorem contains_monoDec_iff_row_count (σ : NSeq) (h : σ.Nodup) (k : Nat) :
    Contains σ (Model.monoDec k) ↔ k ≤ (Model.permToYt σ).length :=
  contains_monoDec_iff_le_lds σ _ k (schensted_row_count σ h)

/-- every word without an increasing subsequence of length 3 (every 123-avoider) passes `yt_perm_avoids_32` -/
theorem ytAvoids32_of_avoids_123 (σ : NSeq) (h : σ.Nodup) (hav : ¬ Contains σ [0, 1, 2]) :
    Model.ytAvoids32 σ = true := by
  rw [ytAvoids32_iff_rows]
  have : ¬ 3 ≤ ((Model.permToYt σ).getD 0 []).length := by
    rw [← contains_identity_iff_first_row σ h 3]; exact hav
  omega

example : Contains [1, 3, 2, 0, 4] (Model.identity 3) ∧ ¬ Contains [1, 3, 2, 0, 4] (Model.identity 4) ∧
    Contains [1, 3, 2, 0, 4] (Model.monoDec 3) := by
  rw [contains_identity_iff_first_row _ (by decide), contains_identity_iff_first_row _ (by decide),
    contains_monoDec_iff_row_count _ (by decide)]
  decide

-- ===== pv12c: end =====

end C12
