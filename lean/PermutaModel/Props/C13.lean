import PermutaModel.Lemmas.C13Basis
import PermutaModel.Driver.C13

/-!
# C13 — finiteness, polynomial growth and insertion-encodability verdicts

Property theorems only (helpers are in `Lemmas/C13*.lean`).  `Model.C13.*` mirrors
`permutils/finite.py`, `polynomial.py`, `insertion_encodable.py`; `Spec.C13.*` are the classes the
structure theorems speak about (`Juxt`, `L2`, `polyClass`, `Finite`, `Polynomial`, `Rightmost`).

Also proved (B-tier): the Erdős–Szekeres bound for the class levels (`erdos_szekeres_level`,
`isFinite_iff_eventually_empty`), closure of the ten classes under containment (`polyClass_closed`,
`class_subset_level`) and the Fibonacci lower bound for classes declared non-polynomial
(`class_fib_lower_bound`, `nonpolynomial_level_fib`).

What is **cited, not proved**: the Kaiser–Klazar / Huczynska–Vatter theorem (polynomial growth ⇔ the
basis meets the ten classes) and the Albert–Linton–Ruškuc criterion (regular insertion encoding ⇔ the
basis meets the four juxtaposition classes).  Proved here: the code computes exactly the right-hand
sides of those criteria, for every basis; the verdicts depend only on the *set* of basis elements and
not on the memo tables; container independence; and the enumeration consequence "infinite classes are never
empty".
-/
open Model.C13 Spec.C13

namespace C13

/-! ## A1 — each scan decides its class -/

/-- `_is_incr_next_incr σ` ⇔ `σ` is an increasing sequence followed by an increasing sequence -/
theorem isIncrNextIncr_iff (σ : NSeq) (h : σ.Nodup) : isIncrNextIncr σ = true ↔ Juxt true true σ :=
  scan_iff_juxt true true σ h
theorem isIncrNextDecr_iff (σ : NSeq) (h : σ.Nodup) : isIncrNextDecr σ = true ↔ Juxt true false σ :=
  scan_iff_juxt true false σ h
theorem isDecrNextIncr_iff (σ : NSeq) (h : σ.Nodup) : isDecrNextIncr σ = true ↔ Juxt false true σ :=
  scan_iff_juxt false true σ h
theorem isDecrNextDecr_iff (σ : NSeq) (h : σ.Nodup) : isDecrNextDecr σ = true ↔ Juxt false false σ :=
  scan_iff_juxt false false σ h

example : isIncrNextDecr [0, 2, 3, 1] = true ∧ isIncrNextIncr [1, 0, 3, 2] = false ∧
    Juxt true false [0, 2, 3, 1] := by
  refine ⟨by decide, by decide, ⟨3, by decide, by decide⟩⟩

/-- `_of_type_8 σ` ⇔ `σ` is a direct sum of `1`s and `21`s -/
theorem ofType8_iff_L2 (σ : NSeq) (hσ : IsPerm σ) : ofType8 σ = true ↔ L2 σ := ofType8_iff σ hσ

example : ofType8 [0, 2, 1, 3] = true ∧ ofType8 [1, 2, 0] = false ∧ L2 [0, 2, 1] :=
  ⟨by decide, by decide, L2.two (L2.one L2.nil)⟩

/-- `t ∈ _find_type σ` ⇔ `σ` belongs to the `t`-th of the ten minimal non-polynomial classes -/
theorem mem_findType_iff_class (σ : NSeq) (hσ : IsPerm σ) (t : Nat) : t ∈ findType σ ↔ polyClass t σ :=
  mem_findType_iff σ hσ t

example : findType [1, 2, 0] = [1, 3, 4, 6, 0, 1, 6, 7, 9] := by decide

/-! ## A2 — verdict = right-hand side of the structure theorem -/

/-- `is_finite B` ⇔ `B` has an increasing and a decreasing element (any container) -/
theorem isFinite_iff (B : List NSeq) (o : Bool) : isFinite ⟨B, o⟩ = true ↔ Spec.C13.Finite B := by
  unfold isFinite Spec.C13.Finite Model.isIncreasing Model.isDecreasing Model.identity Model.monoDec
  simp only [Bool.and_eq_true, List.any_eq_true, beq_iff_eq]
  exact And.comm

example : isFinite ⟨[[0, 1, 2], [1, 0]], true⟩ = true ∧ isFinite ⟨[[0, 1, 2], [1, 0, 2]], false⟩ = false := by
  decide

/-- `is_polynomial B` ⇔ `B` meets each of the ten classes.  (The constant `10` and the ten type
    numbers are regenerated from the source by the translator.) -/
theorem isPolynomial_iff (B : List NSeq) (o : Bool) (hB : ∀ b ∈ B, IsPerm b) :
    isPolynomial ⟨B, o⟩ = true ↔ Polynomial B := by
  unfold isPolynomial Polynomial
  have hlt : ∀ x ∈ B.flatMap findType, x < 10 := by
    intro x hx
    obtain ⟨b, hb, hxb⟩ := List.mem_flatMap.mp hx
    exact findType_lt b (hB b hb) x hxb
  rw [beq_iff_eq, show Generated.polyTypeCount = 10 from rfl, distinct_length_eq_ten _ hlt]
  refine forall₂_congr fun t _ => ?_
  rw [List.mem_flatMap]
  exact exists_congr fun b => and_congr_right fun hb => mem_findType_iff b (hB b hb) t

theorem isNonPolynomial_iff (B : List NSeq) (o : Bool) (hB : ∀ b ∈ B, IsPerm b) :
    isNonPolynomial ⟨B, o⟩ = true ↔ ¬ Polynomial B := by
  unfold isNonPolynomial
  rw [← isPolynomial_iff B o hB]; simp

example : isPolynomial ⟨[[0, 1], [1, 0]], false⟩ = true ∧ isPolynomial ⟨[[0, 2, 1]], false⟩ = false := by decide

/-- `is_insertion_encodable_rightmost B` ⇔ `B` meets the four juxtaposition classes -/
theorem isRightmost_iff (B : List NSeq) (o : Bool) (hB : ∀ b ∈ B, b.Nodup) :
    isRightmost ⟨B, o⟩ = true ↔ Rightmost B := by
  unfold isRightmost
  rw [encGo_zero_iff, ← bits_iff_rightmost B hB]
  simp only [rotate_zero]

/-- `is_insertion_encodable_maximum B = is_insertion_encodable_rightmost (B rotated)`; the rotation
    amount is the regenerated constant -/
theorem isMaximum_eq_rightmost_rotate (B : List NSeq) (o o' : Bool) :
    isMaximum ⟨B, o⟩ = isRightmost ⟨B.map fun p => Model.rotate p Generated.insEncRotate, o'⟩ := by
  unfold isMaximum isRightmost
  exact encGo_map_rotate _ B 0

theorem isMaximum_iff (B : List NSeq) (o : Bool) (hB : ∀ b ∈ B, IsPerm b) :
    isMaximum ⟨B, o⟩ = true ↔ Rightmost (B.map fun p => Model.rotate p 1) := by
  rw [isMaximum_eq_rightmost_rotate B o false, isRightmost_iff]
  · rfl
  · intro b hb
    obtain ⟨p, hp, rfl⟩ := List.mem_map.mp hb
    exact rotate_one_nodup (hB p hp)

/-- `is_insertion_encodable B` ⇔ rightmost or topmost criterion (any container: `isInsEnc_container`) -/
theorem isInsEnc_iff (B : List NSeq) (hB : ∀ b ∈ B, IsPerm b) :
    isInsEnc ⟨B, false⟩ = true ↔ Rightmost B ∨ Rightmost (B.map fun p => Model.rotate p 1) := by
  rw [← isMaximum_iff B false hB, ← isRightmost_iff B false fun b hb => (hB b hb).1]
  unfold isInsEnc isRightmost isMaximum
  by_cases h : (encGo 0 0 B).1 = true <;> simp [h]

example : isRightmost ⟨[[0, 1, 2], [1, 3, 0, 2]], false⟩ = false ∧
    isMaximum ⟨[[0, 1, 2], [1, 3, 0, 2]], false⟩ = true := by decide

/-! ## A3 — set semantics and independence of the memo tables -/

/-- all verdicts depend only on *which* permutations the basis contains -/
theorem verdicts_of_mem_iff (B B' : List NSeq) (o o' : Bool) (h : ∀ p, p ∈ B ↔ p ∈ B') :
    isFinite ⟨B, o⟩ = isFinite ⟨B', o'⟩ ∧ isPolynomial ⟨B, o⟩ = isPolynomial ⟨B', o'⟩ ∧
    isRightmost ⟨B, o⟩ = isRightmost ⟨B', o'⟩ ∧ isMaximum ⟨B, o⟩ = isMaximum ⟨B', o'⟩ ∧
    isInsEnc ⟨B, o⟩ = isInsEnc ⟨B', o'⟩ := by
  have hany : ∀ f : NSeq → Bool, B.any f = B'.any f := by
    intro f; rw [Bool.eq_iff_iff]; simp only [List.any_eq_true]
    exact exists_congr fun p => and_congr_left fun _ => h p
  have henc : ∀ rot : Int, (encGo rot 0 B).1 = (encGo rot 0 B').1 := by
    intro rot; rw [Bool.eq_iff_iff, encGo_zero_iff, encGo_zero_iff]
    exact forall₂_congr fun bit _ => exists_congr fun p => and_congr_left fun _ => h p
  refine ⟨?_, ?_, henc 0, henc _, ?_⟩
  · unfold isFinite; simp only [hany]
  · unfold isPolynomial
    congr 1
    apply distinct_length_congr
    intro x; simp only [List.mem_flatMap]
    exact exists_congr fun p => and_congr_left fun _ => h p
  · unfold isInsEnc
    simp only [henc 0, henc Generated.insEncRotate]

/-- reordering the basis changes nothing -/
theorem verdicts_perm (B B' : List NSeq) (o : Bool) (h : B.Perm B') :
    isFinite ⟨B, o⟩ = isFinite ⟨B', o⟩ ∧ isPolynomial ⟨B, o⟩ = isPolynomial ⟨B', o⟩ ∧
    isRightmost ⟨B, o⟩ = isRightmost ⟨B', o⟩ ∧ isMaximum ⟨B, o⟩ = isMaximum ⟨B', o⟩ ∧
    isInsEnc ⟨B, o⟩ = isInsEnc ⟨B', o⟩ :=
  verdicts_of_mem_iff B B' o o fun _ => h.mem_iff

/-- repeating basis elements changes nothing -/
theorem verdicts_dup (B D : List NSeq) (o : Bool) (hD : ∀ p ∈ D, p ∈ B) :
    isFinite ⟨B ++ D, o⟩ = isFinite ⟨B, o⟩ ∧ isPolynomial ⟨B ++ D, o⟩ = isPolynomial ⟨B, o⟩ ∧
    isRightmost ⟨B ++ D, o⟩ = isRightmost ⟨B, o⟩ ∧ isMaximum ⟨B ++ D, o⟩ = isMaximum ⟨B, o⟩ ∧
    isInsEnc ⟨B ++ D, o⟩ = isInsEnc ⟨B, o⟩ :=
  verdicts_of_mem_iff (B ++ D) B o o fun p => by
    rw [List.mem_append]; exact ⟨fun h => h.elim id (hD p), Or.inl⟩

/-- the memoised `is_polynomial` returns the un-memoised verdict from every table satisfying the
    invariant, and keeps the invariant -/
theorem isPolynomialC_spec (c : TCache) (hc : TInv c) (it : Iter) :
    TInv (isPolynomialC c it).1 ∧ (isPolynomialC c it).2 = isPolynomial it := by
  have hs := polyGo_spec it.items c [] hc
  refine ⟨hs.1, ?_⟩
  unfold isPolynomialC isPolynomial
  simp only
  rw [hs.2, List.nil_append]
  congr 1
  apply distinct_length_congr
  intro x
  simp only [List.mem_flatMap, mem_distinct]

theorem isRightmostC_spec (c : PCache) (hc : PInv c) (it : Iter) :
    PInv (isRightmostC c it).1 ∧ (isRightmostC c it).2 = isRightmost it := by
  have hs := encGoC_spec 0 it.items c 0 hc
  exact ⟨hs.1, by unfold isRightmostC isRightmost; simp only [hs.2]⟩

theorem isMaximumC_spec (c : PCache) (hc : PInv c) (it : Iter) :
    PInv (isMaximumC c it).1 ∧ (isMaximumC c it).2 = isMaximum it := by
  have hs := encGoC_spec Generated.insEncRotate it.items c 0 hc
  exact ⟨hs.1, by unfold isMaximumC isMaximum; simp only [hs.2]⟩

theorem isInsEncC_spec (c : PCache) (hc : PInv c) (it : Iter) :
    PInv (isInsEncC c it).1 ∧ (isInsEncC c it).2 = isInsEnc it := by
  have hs := encGoC_spec 0 it.items c 0 hc
  unfold isInsEncC isInsEnc
  rw [hs.2]
  by_cases h : (encGo 0 0 it.items).1 = true
  · simp only [h, if_true]; exact ⟨hs.1, trivial⟩
  · simp only [h, if_false, Bool.false_eq_true]
    have hs2 := encGoC_spec Generated.insEncRotate it.items (encGoC 0 c 0 it.items).1 0 hs.1
    exact ⟨hs2.1, by rw [hs2.2]⟩

/-- state invariant of the driver: both memo tables only hold correct entries -/
def StInv (s : Driver.C13.St) : Prop := TInv s.t ∧ PInv s.p

/-- **history independence, on the definitions the driver executes**: one call from any reachable
    memo state prints what the same call prints from empty tables, and the new state is reachable -/
theorem call_state_independent (s : Driver.C13.St) (hs : StInv s) (op kind : String) (B : List NSeq) :
    (Driver.C13.call s op kind B).map (·.2) = (Driver.C13.call ⟨[], []⟩ op kind B).map (·.2) ∧
    ∀ r ∈ Driver.C13.call s op kind B, StInv r.1 := by
  have h0 : StInv ⟨[], []⟩ := ⟨TInv_nil, PInv_nil⟩
  unfold Driver.C13.call
  simp only
  split
  · exact ⟨rfl, fun r hr => by simp at hr; subst hr; exact hs⟩
  · have a := isPolynomialC_spec s.t hs.1 (container kind B)
    have b := isPolynomialC_spec [] TInv_nil (container kind B)
    refine ⟨by simp [a.2, b.2], fun r hr => ?_⟩
    simp at hr; subst hr; exact ⟨a.1, hs.2⟩
  · have a := isPolynomialC_spec s.t hs.1 (container kind B)
    have b := isPolynomialC_spec [] TInv_nil (container kind B)
    refine ⟨by simp [a.2, b.2], fun r hr => ?_⟩
    simp at hr; subst hr; exact ⟨a.1, hs.2⟩
  · have a := isRightmostC_spec s.p hs.2 (container kind B)
    have b := isRightmostC_spec [] PInv_nil (container kind B)
    refine ⟨by simp [a.2, b.2], fun r hr => ?_⟩
    simp at hr; subst hr; exact ⟨hs.1, a.1⟩
  · have a := isMaximumC_spec s.p hs.2 (container kind B)
    have b := isMaximumC_spec [] PInv_nil (container kind B)
    refine ⟨by simp [a.2, b.2], fun r hr => ?_⟩
    simp at hr; subst hr; exact ⟨hs.1, a.1⟩
  · have a := isInsEncC_spec s.p hs.2 (container kind B)
    have b := isInsEncC_spec [] PInv_nil (container kind B)
    refine ⟨by simp [a.2, b.2], fun r hr => ?_⟩
    simp at hr; subst hr; exact ⟨hs.1, a.1⟩
  · exact ⟨rfl, fun r hr => by simp at hr⟩

/-- **every history**: a whole sequence of calls prints the same answers from any two reachable memo
    states (in particular from a warm state and from empty tables) -/
theorem hist_state_independent (calls : List String) (s s' : Driver.C13.St) (hs : StInv s) (hs' : StInv s') :
    Driver.C13.histGo s calls = Driver.C13.histGo s' calls := by
  induction calls generalizing s s' with
  | nil => rfl
  | cons tok rest ih =>
    unfold Driver.C13.histGo
    split
    · rename_i op kind b _
      have h1 := call_state_independent s hs op kind (Proto.parseSeqs b)
      have h2 := call_state_independent s' hs' op kind (Proto.parseSeqs b)
      have hout := h1.1.trans h2.1.symm
      cases hc : Driver.C13.call s op kind (Proto.parseSeqs b) with
      | none =>
        cases hc' : Driver.C13.call s' op kind (Proto.parseSeqs b) with
        | none => rfl
        | some r' => rw [hc, hc'] at hout; simp at hout
      | some r =>
        cases hc' : Driver.C13.call s' op kind (Proto.parseSeqs b) with
        | none => rw [hc, hc'] at hout; simp at hout
        | some r' =>
          rw [hc, hc'] at hout
          simp only [Option.map_some, Option.some.injEq] at hout
          obtain ⟨s1, out1⟩ := r
          obtain ⟨s1', out1'⟩ := r'
          simp only at hout
          subst hout
          simp only
          rw [ih s1 s1' (h1.2 _ (by rw [hc]; rfl)) (h2.2 _ (by rw [hc']; rfl))]
    · rfl

/-! ## A4 — container independence -/

/-- `is_finite`, `is_polynomial` and the two one-sided insertion tests read their argument once:
    a one-shot iterator gives the verdict of the list -/
theorem single_pass_container (it : Iter) :
    isFinite it = isFinite ⟨it.items, false⟩ ∧ isPolynomial it = isPolynomial ⟨it.items, false⟩ ∧
    isRightmost it = isRightmost ⟨it.items, false⟩ ∧ isMaximum it = isMaximum ⟨it.items, false⟩ :=
  ⟨rfl, rfl, rfl, rfl⟩

/-- **container independence of `is_insertion_encodable`** (full statement): the argument is materialised
    once, so a one-shot iterator gives the verdict of the list -/
theorem isInsEnc_container (it : Iter) : isInsEnc it = isInsEnc ⟨it.items, false⟩ := rfl

example : isInsEnc ⟨[[0, 1, 2], [1, 3, 0, 2]], true⟩ = true := by decide

/-! ## A5 — symmetry

`is_finite`, `is_polynomial` and `is_insertion_encodable` are proved invariant under all eight symmetries (the
generators reverse, complement, inverse and, through `sym`, their eight compositions); the two one-sided
insertion tests are invariant under reverse / complement and *exchanged* by the inverse. -/

theorem isFinite_reverse (B : List NSeq) (o : Bool) : isFinite ⟨B.map Model.reverse, o⟩ = isFinite ⟨B, o⟩ :=
  isFinite_map _ B o (Or.inr fun p _ => ⟨isIncreasing_reverse p, isDecreasing_reverse p⟩)

theorem isFinite_complement (B : List NSeq) (o : Bool) (hB : ∀ p ∈ B, IsPerm p) :
    isFinite ⟨B.map Model.complement, o⟩ = isFinite ⟨B, o⟩ :=
  isFinite_map _ B o (Or.inr fun p hp => ⟨isIncreasing_complement (hB p hp), isDecreasing_complement (hB p hp)⟩)

theorem isFinite_inverse (B : List NSeq) (o : Bool) (hB : ∀ p ∈ B, IsPerm p) :
    isFinite ⟨B.map Model.inverse, o⟩ = isFinite ⟨B, o⟩ :=
  isFinite_map _ B o (Or.inl fun p hp => ⟨isIncreasing_inverse (hB p hp), isDecreasing_inverse (hB p hp)⟩)

/-- `is_insertion_encodable_rightmost` is invariant under reverse and complement -/
theorem isRightmost_reverse (B : List NSeq) (o : Bool) (hB : ∀ p ∈ B, IsPerm p) :
    isRightmost ⟨B.map Model.reverse, o⟩ = isRightmost ⟨B, o⟩ := by
  rw [Bool.eq_iff_iff, isRightmost_iff _ _ fun p hp => (map_isPerm (g := Model.reverse) (fun _ => isPerm_reverse) hB p hp).1,
    isRightmost_iff _ _ fun p hp => (hB p hp).1, rightmost_map_reverse]

theorem isRightmost_complement (B : List NSeq) (o : Bool) (hB : ∀ p ∈ B, IsPerm p) :
    isRightmost ⟨B.map Model.complement, o⟩ = isRightmost ⟨B, o⟩ := by
  rw [Bool.eq_iff_iff, isRightmost_iff _ _ fun p hp => (map_isPerm (g := Model.complement) (fun _ => isPerm_complement) hB p hp).1,
    isRightmost_iff _ _ fun p hp => (hB p hp).1, rightmost_map_complement B hB]

/-- the inverse exchanges the two one-sided tests: topmost on `B` is rightmost on the inverses … -/
theorem isMaximum_eq_rightmost_inverse (B : List NSeq) (o : Bool) (hB : ∀ p ∈ B, IsPerm p) :
    isMaximum ⟨B, o⟩ = isRightmost ⟨B.map Model.inverse, o⟩ := by
  rw [isMaximum_eq_rightmost_rotate B o o, ← isRightmost_complement (B.map Model.inverse) o
    (map_isPerm (g := Model.inverse) (fun _ => isPerm_inverse) hB), List.map_map]
  congr 2
  apply List.map_congr_left
  intro p _
  exact rotate_one_eq p

/-- … and rightmost on `B` is topmost on the inverses -/
theorem isRightmost_eq_maximum_inverse (B : List NSeq) (o : Bool) (hB : ∀ p ∈ B, IsPerm p) :
    isRightmost ⟨B, o⟩ = isMaximum ⟨B.map Model.inverse, o⟩ := by
  rw [isMaximum_eq_rightmost_inverse _ o (map_isPerm (g := Model.inverse) (fun _ => isPerm_inverse) hB), List.map_map]
  congr 2
  conv_lhs => rw [← List.map_id B]
  apply List.map_congr_left
  intro p hp
  exact (inverse_inverse (hB p hp)).symm

theorem isMaximum_reverse (B : List NSeq) (o : Bool) (hB : ∀ p ∈ B, IsPerm p) :
    isMaximum ⟨B.map Model.reverse, o⟩ = isMaximum ⟨B, o⟩ := by
  rw [isMaximum_eq_rightmost_inverse _ o (map_isPerm (g := Model.reverse) (fun _ => isPerm_reverse) hB),
    isMaximum_eq_rightmost_inverse B o hB,
    ← isRightmost_complement (B.map Model.inverse) o (map_isPerm (g := Model.inverse) (fun _ => isPerm_inverse) hB),
    List.map_map, List.map_map]
  congr 2
  apply List.map_congr_left
  intro p hp
  exact inverse_reverse (hB p hp)

theorem isMaximum_complement (B : List NSeq) (o : Bool) (hB : ∀ p ∈ B, IsPerm p) :
    isMaximum ⟨B.map Model.complement, o⟩ = isMaximum ⟨B, o⟩ := by
  rw [isMaximum_eq_rightmost_inverse _ o (map_isPerm (g := Model.complement) (fun _ => isPerm_complement) hB),
    isMaximum_eq_rightmost_inverse B o hB,
    ← isRightmost_reverse (B.map Model.inverse) o (map_isPerm (g := Model.inverse) (fun _ => isPerm_inverse) hB),
    List.map_map, List.map_map]
  congr 2
  apply List.map_congr_left
  intro p hp
  exact inverse_complement (hB p hp)

theorem isInsEnc_reverse (B : List NSeq) (hB : ∀ p ∈ B, IsPerm p) :
    isInsEnc ⟨B.map Model.reverse, false⟩ = isInsEnc ⟨B, false⟩ := by
  rw [isInsEnc_list, isInsEnc_list, isRightmost_reverse B false hB, isMaximum_reverse B false hB]

theorem isInsEnc_complement (B : List NSeq) (hB : ∀ p ∈ B, IsPerm p) :
    isInsEnc ⟨B.map Model.complement, false⟩ = isInsEnc ⟨B, false⟩ := by
  rw [isInsEnc_list, isInsEnc_list, isRightmost_complement B false hB, isMaximum_complement B false hB]

theorem isInsEnc_inverse (B : List NSeq) (hB : ∀ p ∈ B, IsPerm p) :
    isInsEnc ⟨B.map Model.inverse, false⟩ = isInsEnc ⟨B, false⟩ := by
  rw [isInsEnc_list, isInsEnc_list, ← isMaximum_eq_rightmost_inverse B false hB,
    ← isRightmost_eq_maximum_inverse B false hB, Bool.or_comm]

theorem isPolynomial_reverse (B : List NSeq) (o : Bool) (hB : ∀ p ∈ B, IsPerm p) :
    isPolynomial ⟨B.map Model.reverse, o⟩ = isPolynomial ⟨B, o⟩ := by
  rw [Bool.eq_iff_iff, isPolynomial_iff _ _ (map_isPerm (g := Model.reverse) (fun _ => isPerm_reverse) hB),
    isPolynomial_iff _ _ hB]
  exact polynomial_map _ revType revType_invol B fun b hb t ht => polyClass_reverse (hB b hb) t ht

theorem isPolynomial_complement (B : List NSeq) (o : Bool) (hB : ∀ p ∈ B, IsPerm p) :
    isPolynomial ⟨B.map Model.complement, o⟩ = isPolynomial ⟨B, o⟩ := by
  rw [Bool.eq_iff_iff, isPolynomial_iff _ _ (map_isPerm (g := Model.complement) (fun _ => isPerm_complement) hB),
    isPolynomial_iff _ _ hB]
  exact polynomial_map _ compType compType_invol B fun b hb t ht => polyClass_complement (hB b hb) t ht

theorem isPolynomial_inverse (B : List NSeq) (o : Bool) (hB : ∀ p ∈ B, IsPerm p) :
    isPolynomial ⟨B.map Model.inverse, o⟩ = isPolynomial ⟨B, o⟩ := by
  rw [Bool.eq_iff_iff, isPolynomial_iff _ _ (map_isPerm (g := Model.inverse) (fun _ => isPerm_inverse) hB),
    isPolynomial_iff _ _ hB]
  exact polynomial_map _ invType invType_invol B fun b hb t ht => polyClass_inverse (hB b hb) t ht

/-- **the three class verdicts are invariant under each of the eight symmetries**
    (`sym 0 … sym 7`: identity, reverse, complement, reverse-complement, and their compositions with the inverse) -/
theorem verdicts_sym (k : Nat) (B : List NSeq) (hB : ∀ p ∈ B, IsPerm p) :
    isFinite ⟨B.map (sym k), false⟩ = isFinite ⟨B, false⟩ ∧
    isPolynomial ⟨B.map (sym k), false⟩ = isPolynomial ⟨B, false⟩ ∧
    isInsEnc ⟨B.map (sym k), false⟩ = isInsEnc ⟨B, false⟩ :=
  ⟨sym_of_generators (fun B => isFinite ⟨B, false⟩) (fun B _ => isFinite_reverse B false)
      (fun B h => isFinite_complement B false h) (fun B h => isFinite_inverse B false h) k B hB,
   sym_of_generators (fun B => isPolynomial ⟨B, false⟩) (fun B h => isPolynomial_reverse B false h)
      (fun B h => isPolynomial_complement B false h) (fun B h => isPolynomial_inverse B false h) k B hB,
   sym_of_generators (fun B => isInsEnc ⟨B, false⟩) isInsEnc_reverse isInsEnc_complement isInsEnc_inverse k B hB⟩

example : isInsEnc ⟨[[0, 1, 2], [1, 3, 0, 2]].map (sym 4), false⟩ = true ∧
    isRightmost ⟨[[0, 1, 2], [1, 3, 0, 2]].map (sym 4), false⟩ = true ∧
    isRightmost ⟨[[0, 1, 2], [1, 3, 0, 2]], false⟩ = false := by decide

/-! ## A6 — consistency with enumeration -/

/-- a basis without increasing element: the identity of every length avoids it (as the code's own
    containment test sees it) -/
theorem identity_in_class (B : List NSeq) (hB : ∀ b ∈ B, IsPerm b)
    (h : ∀ b ∈ B, b ≠ Model.identity b.length) (n : Nat) :
    Model.avoidsAll (Model.identity n) B = true := by
  rw [C01.avoidsAll_iff _ _ (isPerm_identity n) hB]
  intro b hb hc
  exact h b hb (increasing_perm_eq_identity (hB b hb) (pattern_of_identity_increasing hc))

theorem monoDec_in_class (B : List NSeq) (hB : ∀ b ∈ B, IsPerm b)
    (h : ∀ b ∈ B, b ≠ Model.monoDec b.length) (n : Nat) :
    Model.avoidsAll (Model.monoDec n) B = true := by
  rw [C01.avoidsAll_iff _ _ (isPerm_monoDec n) hB]
  intro b hb hc
  exact h b hb (decreasing_perm_eq_monoDec (hB b hb) (pattern_of_monoDec_decreasing hc))

/-- **a class that `is_finite` declares infinite is never empty**: it has a member of every length -/
theorem infinite_never_empty (B : List NSeq) (o : Bool) (hB : ∀ b ∈ B, IsPerm b)
    (h : isFinite ⟨B, o⟩ = false) (n : Nat) :
    ∃ σ, IsPerm σ ∧ σ.length = n ∧ Model.avoidsAll σ B = true := by
  have hnot : ¬ Spec.C13.Finite B := by rw [← isFinite_iff B o]; simp [h]
  unfold Spec.C13.Finite at hnot
  by_cases hinc : ∃ p ∈ B, p = Model.identity p.length
  · have hdec : ∀ b ∈ B, b ≠ Model.monoDec b.length := fun b hb e => hnot ⟨hinc, b, hb, e⟩
    exact ⟨Model.monoDec n, isPerm_monoDec n, by simp [Model.monoDec], monoDec_in_class B hB hdec n⟩
  · have hinc' : ∀ b ∈ B, b ≠ Model.identity b.length := fun b hb e => hinc ⟨b, hb, e⟩
    exact ⟨Model.identity n, isPerm_identity n, by simp [Model.identity], identity_in_class B hB hinc' n⟩

example : ∃ σ, IsPerm σ ∧ σ.length = 5 ∧ Model.avoidsAll σ [[1, 0, 2], [2, 1, 0]] = true :=
  infinite_never_empty [[1, 0, 2], [2, 1, 0]] false (by decide) (by decide) 5

/-! ## B2 — Erdős–Szekeres: finite classes are empty beyond the bound -/

/-- **Erdős–Szekeres**: a duplicate-free sequence avoiding the increasing pattern of length `a` and
    the decreasing pattern of length `b` has at most `(a-1)(b-1)` entries -/
theorem erdos_szekeres (σ : NSeq) (hσ : σ.Nodup) (a b : Nat) (ha : ¬ Contains σ (Model.identity a))
    (hb : ¬ Contains σ (Model.monoDec b)) : σ.length ≤ (a - 1) * (b - 1) :=
  es_length_le hσ ha hb

example : ¬ ([0, 2, 1, 3].length ≤ (3 - 1) * (2 - 1)) ∧ Contains [0, 2, 1, 3] (Model.monoDec 2) :=
  ⟨by decide, ⟨[1, 2], (C01.mem_spec_iff _ _ _).mp (by decide)⟩⟩

/-- **the class level is empty beyond the Erdős–Szekeres bound**: if the basis (any list) contains
    the increasing permutation of length `a` and the decreasing permutation of length `b`, level `n`
    of `Av(B)` is empty for every `n > (a-1)(b-1)` -/
theorem erdos_szekeres_level (B : List NSeq) (a b : Nat) (ha : Model.identity a ∈ B)
    (hb : Model.monoDec b ∈ B) (n : Nat) (hn : (a - 1) * (b - 1) < n) : Spec.C02.level B n = [] := by
  apply List.eq_nil_iff_forall_not_mem.mpr
  intro σ hσ
  obtain ⟨⟨hperm, hav⟩, hlen⟩ := C02L.mem_level.mp hσ
  unfold Model.avoidsAll at hav
  rw [List.all_eq_true] at hav
  have h1 : ¬ Contains σ (Model.identity a) := by
    rw [← C01.containsOne_iff σ _ (isPerm_identity a) hperm]
    have := hav _ ha; simpa using this
  have h2 : ¬ Contains σ (Model.monoDec b) := by
    rw [← C01.containsOne_iff σ _ (isPerm_monoDec b) hperm]
    have := hav _ hb; simpa using this
  have := es_length_le hperm.1 h1 h2
  omega

example : Spec.C02.level [[0, 1, 2], [1, 0]] 3 = [] :=
  erdos_szekeres_level _ 3 2 (by decide) (by decide) 3 (by decide)
/-- … and the bound is attained: level `(a-1)(b-1)` of that class is not empty -/
example : Spec.C02.level [[0, 1, 2], [1, 0]] 2 ≠ [] := by
  have : [0, 1] ∈ Spec.C02.level [[0, 1, 2], [1, 0]] 2 := by
    refine C02L.mem_level.mpr ⟨⟨by decide, ?_⟩, rfl⟩
    rw [C01.avoidsAll_iff _ _ (by decide) (by decide)]
    intro p hp hc
    simp only [List.mem_cons, List.not_mem_nil, or_false] at hp
    rcases hp with rfl | rfl
    · have := Contains.length_le hc; simp at this
    · have := pattern_of_identity_increasing (n := 2) (b := [1, 0]) hc; simp at this
  intro h; rw [h] at this; simp at this

/-- **a class that `is_finite` declares finite is empty beyond the Erdős–Szekeres bound** of the
    increasing and the decreasing basis element it found (any list `B`, any container) -/
theorem finite_empty_beyond_bound (B : List NSeq) (o : Bool) (h : isFinite ⟨B, o⟩ = true) :
    ∃ p ∈ B, ∃ q ∈ B, p = Model.identity p.length ∧ q = Model.monoDec q.length ∧
      ∀ n, (p.length - 1) * (q.length - 1) < n → Spec.C02.level B n = [] := by
  obtain ⟨⟨p, hp, ep⟩, ⟨q, hq, eq⟩⟩ := (isFinite_iff B o).mp h
  exact ⟨p, hp, q, hq, ep, eq, fun n hn =>
    erdos_szekeres_level B p.length q.length (ep ▸ hp) (eq ▸ hq) n hn⟩

/-- **the verdict of `is_finite` is the truth about enumeration**: the class is declared finite iff
    its levels are eventually empty -/
theorem isFinite_iff_eventually_empty (B : List NSeq) (o : Bool) (hB : ∀ b ∈ B, IsPerm b) :
    isFinite ⟨B, o⟩ = true ↔ ∃ N, ∀ n, N < n → Spec.C02.level B n = [] := by
  constructor
  · intro h
    obtain ⟨p, _, q, _, _, _, hall⟩ := finite_empty_beyond_bound B o h
    exact ⟨_, hall⟩
  · rintro ⟨N, hN⟩
    by_contra hf
    have hf' : isFinite ⟨B, o⟩ = false := by simpa using hf
    obtain ⟨σ, h1, h2, h3⟩ := infinite_never_empty B o hB hf' (N + 1)
    have : σ ∈ Spec.C02.level B (N + 1) := C02L.mem_level.mpr ⟨⟨h1, h3⟩, h2⟩
    rw [hN (N + 1) (by omega)] at this
    simp at this

/-! ## B3 — the ten classes are closed under containment -/

/-- **each of the ten minimal non-polynomial classes is closed under pattern containment** -/
theorem polyClass_closed {σ π : NSeq} (hσ : IsPerm σ) (hπ : IsPerm π) (h : Contains σ π) (t : Nat)
    (ht : polyClass t σ) : polyClass t π :=
  polyClass_closed' hσ hπ h t ht

example : polyClass 8 [0, 2, 1, 3] ∧ Contains [0, 2, 1, 3] [1, 0, 2] ∧ ¬ polyClass 8 [2, 0, 1] := by
  refine ⟨?_, ⟨[1, 2, 3], (C01.mem_spec_iff _ _ _).mp (by decide)⟩, ?_⟩
  · exact (mem_findType_iff_class _ (by decide) 8).mp (by decide)
  · rw [← mem_findType_iff_class _ (by decide) 8]; decide

/-- `L2` (direct sums of `1` and `21`) is exactly "non-adjacent entries increase" -/
theorem L2_iff_nonadjacent_increase (σ : NSeq) (hσ : IsPerm σ) :
    L2 σ ↔ ∀ i j, i + 2 ≤ j → j < σ.length → σ.getD i 0 < σ.getD j 0 :=
  L2_iff_near hσ

/-- **a class whose basis misses class `t` contains all of class `t`**: every member of class `t`
    is listed in the level of its length -/
theorem class_subset_level (B : List NSeq) (hB : ∀ b ∈ B, IsPerm b) (t : Nat)
    (hmiss : ∀ b ∈ B, ¬ polyClass t b) {σ : NSeq} (hσ : IsPerm σ) (hc : polyClass t σ) :
    σ ∈ Spec.C02.level B σ.length := by
  refine C02L.mem_level.mpr ⟨⟨hσ, ?_⟩, rfl⟩
  rw [C01.avoidsAll_iff σ B hσ hB]
  intro b hb hcon
  exact hmiss b hb (polyClass_closed hσ (hB b hb) hcon t hc)

/-! ## B1 — Fibonacci lower bound -/

/-- **each of the ten classes has at least `fib (n+1)` members of every length `n`**
    (`Nat.fib` = 0, 1, 1, 2, 3, 5, …; so 1, 1, 2, 3, 5, … for `n` = 0, 1, 2, …) -/
theorem class_fib_lower_bound (t : Nat) (ht : t < 10) (n : Nat) :
    ∃ F : List NSeq, F.Nodup ∧ Nat.fib (n + 1) ≤ F.length ∧
      ∀ σ ∈ F, IsPerm σ ∧ σ.length = n ∧ polyClass t σ :=
  exists_fibFam t ht n

/-- for `L2` the count is exact: the members of length `n` are listed by `l2Fam n` without
    repetition and there are `fib (n+1)` of them -/
theorem L2_count (n : Nat) :
    (l2Fam n).Nodup ∧ (l2Fam n).length = Nat.fib (n + 1) ∧ ∀ σ, σ ∈ l2Fam n ↔ L2 σ ∧ σ.length = n :=
  ⟨l2Fam_nodup n, l2Fam_length n, mem_l2Fam_iff n⟩

example : l2Fam 3 = [[0, 1, 2], [1, 0, 2], [0, 2, 1]] := by decide

/-- **a class that `is_polynomial` declares non-polynomial contains, for some `t`, all of class `t`**,
    in particular `fib (n+1)` distinct members of it in every level `n` -/
theorem nonpolynomial_contains_class (B : List NSeq) (o : Bool) (hB : ∀ b ∈ B, IsPerm b)
    (h : isPolynomial ⟨B, o⟩ = false) :
    ∃ t, t < 10 ∧ (∀ σ, IsPerm σ → polyClass t σ → σ ∈ Spec.C02.level B σ.length) ∧
      ∀ n, ∃ F : List NSeq, F.Nodup ∧ Nat.fib (n + 1) ≤ F.length ∧
        ∀ σ ∈ F, polyClass t σ ∧ σ ∈ Spec.C02.level B n := by
  have hnp : ¬ Polynomial B := by rw [← isPolynomial_iff B o hB]; simp [h]
  unfold Polynomial at hnp
  have : ∃ t, t < 10 ∧ ∀ b ∈ B, ¬ polyClass t b := by
    by_contra hcon
    apply hnp
    intro t ht
    by_contra hno
    exact hcon ⟨t, ht, fun b hb hc => hno ⟨b, hb, hc⟩⟩
  obtain ⟨t, ht, hmiss⟩ := this
  refine ⟨t, ht, fun σ hσ hc => class_subset_level B hB t hmiss hσ hc, fun n => ?_⟩
  obtain ⟨F, hnd, hlen, hall⟩ := class_fib_lower_bound t ht n
  refine ⟨F, hnd, hlen, fun σ hσ => ?_⟩
  obtain ⟨h1, h2, h3⟩ := hall σ hσ
  exact ⟨h3, h2 ▸ class_subset_level B hB t hmiss h1 h3⟩

/-- **classes declared non-polynomial have at least Fibonacci-many members of every length** -/
theorem nonpolynomial_level_fib (B : List NSeq) (o : Bool) (hB : ∀ b ∈ B, IsPerm b)
    (h : isPolynomial ⟨B, o⟩ = false) (n : Nat) : Nat.fib (n + 1) ≤ (Spec.C02.level B n).length := by
  obtain ⟨t, _, _, hfam⟩ := nonpolynomial_contains_class B o hB h
  obtain ⟨F, hnd, hlen, hall⟩ := hfam n
  exact hlen.trans (List.subperm_of_subset hnd fun σ hσ => (hall σ hσ).2).length_le

example : Nat.fib (5 + 1) = 8 ∧ 8 ≤ (Spec.C02.level [[0, 2, 1]] 5).length :=
  ⟨by decide, nonpolynomial_level_fib [[0, 2, 1]] false (by decide) (by decide) 5⟩

/-- **consistency of the two verdicts**: a class declared finite is never declared non-polynomial
    (a non-polynomial class has `fib (n+1) ≥ 1` members of every length, a finite one eventually none) -/
theorem finite_implies_polynomial (B : List NSeq) (o o' : Bool) (hB : ∀ b ∈ B, IsPerm b)
    (h : isFinite ⟨B, o⟩ = true) : isPolynomial ⟨B, o'⟩ = true := by
  by_contra hp
  have hp' : isPolynomial ⟨B, o'⟩ = false := by simpa using hp
  obtain ⟨N, hN⟩ := (isFinite_iff_eventually_empty B o hB).mp h
  have h1 := nonpolynomial_level_fib B o' hB hp' (N + 1)
  rw [hN (N + 1) (by omega)] at h1
  simp at h1

example : isPolynomial ⟨[[0, 1, 2], [2, 1, 0]], false⟩ = true :=
  finite_implies_polynomial _ false false (by decide) (by decide)

/-! ## B4 — `Basis(*B)` (sort + prune to the minimal elements) changes no verdict -/

/-- **the verdicts on `Basis(*B)` are the verdicts on `B`**: all the criteria ask whether the basis
    meets a class closed under containment, and pruning keeps a contained element of every element -/
theorem verdicts_basisOf (B : List NSeq) (o o' : Bool) (hB : ∀ b ∈ B, IsPerm b) :
    isFinite ⟨basisOf B, o⟩ = isFinite ⟨B, o'⟩ ∧ isPolynomial ⟨basisOf B, o⟩ = isPolynomial ⟨B, o'⟩ ∧
    isRightmost ⟨basisOf B, o⟩ = isRightmost ⟨B, o'⟩ ∧ isMaximum ⟨basisOf B, o⟩ = isMaximum ⟨B, o'⟩ ∧
    isInsEnc ⟨basisOf B, false⟩ = isInsEnc ⟨B, false⟩ := by
  have hB' : ∀ b ∈ basisOf B, IsPerm b := fun b hb => hB b (basisOf_sub B b hb)
  have hright : ∀ o o', isRightmost ⟨basisOf B, o⟩ = isRightmost ⟨B, o'⟩ := by
    intro o o'
    rw [Bool.eq_iff_iff, isRightmost_iff _ _ fun b hb => (hB' b hb).1, isRightmost_iff _ _ fun b hb => (hB b hb).1]
    exact forall₂_congr fun a b => exists_basisOf_iff (Juxt a b) (fun p q _ _ h => juxt_closed h) B hB
  have hmax : ∀ o o', isMaximum ⟨basisOf B, o⟩ = isMaximum ⟨B, o'⟩ := by
    intro o o'
    rw [Bool.eq_iff_iff, isMaximum_iff _ _ hB', isMaximum_iff _ _ hB]
    unfold Rightmost
    refine forall₂_congr fun a b => ?_
    have key := exists_basisOf_iff (fun p => Juxt a b (Model.rotate p 1))
      (fun p q hp hq h => juxt_closed ((C04.contains_rotate hq hp 1).mpr h)) B hB
    constructor
    · rintro ⟨p, hp, hj⟩
      obtain ⟨q, hq, rfl⟩ := List.mem_map.mp hp
      obtain ⟨r, hr, hj'⟩ := key.mp ⟨q, hq, hj⟩
      exact ⟨_, List.mem_map.mpr ⟨r, hr, rfl⟩, hj'⟩
    · rintro ⟨p, hp, hj⟩
      obtain ⟨q, hq, rfl⟩ := List.mem_map.mp hp
      obtain ⟨r, hr, hj'⟩ := key.mpr ⟨q, hq, hj⟩
      exact ⟨_, List.mem_map.mpr ⟨r, hr, rfl⟩, hj'⟩
  refine ⟨?_, ?_, hright o o', hmax o o', ?_⟩
  · unfold isFinite
    rw [Bool.eq_iff_iff]
    simp only [Bool.and_eq_true, List.any_eq_true]
    exact and_congr (exists_basisOf_iff _ isDecreasing_closed B hB) (exists_basisOf_iff _ isIncreasing_closed B hB)
  · rw [Bool.eq_iff_iff, isPolynomial_iff _ _ hB', isPolynomial_iff _ _ hB]
    exact forall₂_congr fun t _ =>
      exists_basisOf_iff (polyClass t) (fun p q hp hq h => polyClass_closed hp hq h t) B hB
  · rw [isInsEnc_list, isInsEnc_list, hright false false, hmax false false]

example : isPolynomial ⟨basisOf [[0, 2, 1, 3], [0, 2, 1]], false⟩ = false := by
  rw [(verdicts_basisOf _ false false (by decide)).2.1]; decide

/-- **the `Av` wrappers**: whenever `Av.from_iterable(B)` can be built, its `is_finite` /
    `is_polynomial` / `is_insertion_encodable` answer as the plain functions do on `B` -/
theorem av_verdicts (B : List NSeq) (hB : ∀ b ∈ B, IsPerm b) (v : Bool) :
    (avIsFinite B = .ok v → v = isFinite ⟨B, false⟩) ∧
    (avIsPolynomial B = .ok v → v = isPolynomial ⟨B, false⟩) ∧
    (avIsInsEnc B = .ok v → v = isInsEnc ⟨B, false⟩) := by
  have hav : ∀ b, avBasis B = .ok b → b = basisOf B := by
    intro b h
    unfold avBasis avCheck at h
    split at h
    · cases h
    · injection h with h; exact h.symm
  obtain ⟨h1, h2, _, _, h5⟩ := verdicts_basisOf B false false hB
  refine ⟨?_, ?_, ?_⟩
  · intro h
    unfold avIsFinite at h
    cases hb : avBasis B with
    | error e => rw [hb] at h; cases h
    | ok b => rw [hb] at h; injection h with h; rw [← h, hav b hb, h1]
  · intro h
    unfold avIsPolynomial at h
    cases hb : avBasis B with
    | error e => rw [hb] at h; cases h
    | ok b => rw [hb] at h; injection h with h; rw [← h, hav b hb, h2]
  · intro h
    unfold avIsInsEnc at h
    cases hb : avBasis B with
    | error e => rw [hb] at h; cases h
    | ok b => rw [hb] at h; injection h with h; rw [← h, hav b hb, h5]

end C13
