import PermutaModel.Generated.Tables
import PermutaModel.Lemmas.C11Runs
import PermutaModel.Lemmas.C11Misc
import PermutaModel.Lemmas.C11Fenwick
import PermutaModel.Lemmas.C11Stack
import PermutaModel.Lemmas.C11Cycles
import PermutaModel.Lemmas.C11Bounce
import PermutaModel.Lemmas.C11Class
import PermutaModel.Lemmas.C11Dist
import PermutaModel.Lemmas.C11Prime
import PermutaModel.Lemmas.PermBasic
import PermutaModel.Lemmas.C11Pats
import PermutaModel.Lemmas.C11Joint
import PermutaModel.Lemmas.C09Gen
import PermutaModel.Props.C01

/-!
# C11 — every permutation statistic returns the value its definition and name promise

Property theorems only (helpers live in `Lemmas/C11*.lean`).  `Model.Stat.*` mirrors
`permuta/patterns/perm.py` 670-2131, 2448-2479, `permuta/misc/math.py` and `permuta/permutils/statistics.py`;
`Spec.Stat.*` are the definitions (filters over positions, brute-force searches); `Generated.statTable` is the
name → function table regenerated from the source on every run.
Statistics not covered by a theorem here are listed as `partial` in the evidence (correspondence only).
-/

namespace C11
open Model.Stat C11L

local notation:max σ "⟦" i "⟧" => List.getD σ i 0

/-! ## A1 — each counting form is the size of the listing form -/


/-- `count_*` = `len(list(listing))` for every generator/count pair of the anchor that is defined through the
    listing (`sum(1 for _ in …)` or `len(…)`) -/
theorem count_eq_length_listing (p : NSeq) :
    countFixedPoints p = (fixedPoints p).length ∧
    countDescents p = (descents p).length ∧
    countAscents p = (ascents p).length ∧
    countPeaks p = (peaks p).length ∧
    countPeaks p = (pinnacles p).length ∧
    countValleys p = (valleys p).length ∧
    countLtrmin p = (ltrmin p).length ∧
    countLtrmax p = (ltrmax p).length ∧
    countRtlmin p = (rtlmin p).length ∧
    countRtlmax p = (rtlmax p).length ∧
    countCyclicPeaks p = (cyclicPeaks p).length ∧
    countCyclicValleys p = (cyclicValleys p).length ∧
    countDoubleExcedance p = (doubleExcedance p).length ∧
    countDoubleDrops p = (doubleDrops p).length ∧
    countForemaxima p = (foremaxima p).length ∧
    countAfterminima p = (afterminima p).length ∧
    countAftermaxima p = (aftermaxima p).length ∧
    countForeminima p = (foreminima p).length ∧
    countBonds p = (allBonds p).length ∧
    countIncBonds p = (incBonds p).length ∧
    countDecBonds p = (decBonds p).length ∧
    countCycles p = (cycleDecomp p).map List.length ∧
    countRtlmaxLtrminLayers p = (rtlmaxLtrminDecomposition p).map List.length := by
  refine ⟨?_, ?_, ?_, ?_, ?_, ?_, ?_, ?_, ?_, ?_, ?_, ?_, ?_, ?_, ?_, ?_, ?_, ?_, ?_, ?_, ?_, ?_, ?_⟩
  all_goals first
    | exact count1_eq_length _
    | rfl
    | (simp only [countPeaks, count1_eq_length, peaks, pinnacles, List.length_map])
    | (simp only [countRtlmin, rtlmin, List.length_reverse])
    | (simp only [countRtlmax, rtlmax, List.length_reverse])
    | (simp only [countRtlmaxLtrminLayers]; congr 1; funext l; exact count1_eq_length l)

/-- with a step size: the count is the size of the listing, and both raise `ValueError` together -/
theorem count_eq_length_listing_step (p : NSeq) (k : Int) :
    countDescentsStep p k = (descentsStep p k).map List.length ∧
    countAscentsStep p k = (ascentsStep p k).map List.length := by
  constructor
  · unfold countDescentsStep; congr 1; funext l; exact count1_eq_length l
  · unfold countAscentsStep; congr 1; funext l; exact count1_eq_length l

example : countDescents [3, 1, 0, 2] = 2 ∧ (descents [3, 1, 0, 2]).length = 2 := by decide

/-! ## A2 — each positional listing is the definitional filter over positions -/

theorem descents_eq_spec (p : NSeq) : descents p = Spec.Stat.descents p := by
  unfold descents Spec.Stat.descents Spec.Stat.positions
  rw [enum2_eq, List.filter_map, List.map_map]
  have := shifted_filter_eq p.length (p.length - 1) 0
    (fun i => decide (p⟦i⟧ > p⟦i+1⟧))
    (fun i => decide (i + 1 < p.length ∧ p⟦i⟧ > p⟦i+1⟧))
    (by intro x; simp; omega)
  simpa [Function.comp_def] using this

theorem ascents_eq_spec (p : NSeq) : ascents p = Spec.Stat.ascents p := by
  unfold ascents Spec.Stat.ascents Spec.Stat.positions
  rw [enum2_eq, List.filter_map, List.map_map]
  have := shifted_filter_eq p.length (p.length - 1) 0
    (fun i => decide (p⟦i⟧ < p⟦i+1⟧))
    (fun i => decide (i + 1 < p.length ∧ p⟦i⟧ < p⟦i+1⟧))
    (by intro x; simp; omega)
  simpa [Function.comp_def] using this

/-- `descents(step_size=k)`: `ValueError` exactly for `k < 1`, otherwise the descents of size `k` -/
theorem descentsStep_eq_spec (p : NSeq) (k : Int) :
    descentsStep p k = if k < 1 then .error .valueError else .ok (Spec.Stat.descentsOfSize p k.toNat) := by
  unfold descentsStep
  split
  · rfl
  · rename_i hk
    congr 1
    unfold descentsBy Spec.Stat.descentsOfSize Spec.Stat.positions
    rw [enum2_eq, List.filter_map, List.map_map]
    have := shifted_filter_eq p.length (p.length - 1) 0
      (fun i => (((p⟦i⟧ : Nat) : Int) == ((p⟦i+1⟧ : Nat) : Int) + k))
      (fun i => decide (i + 1 < p.length ∧ p⟦i⟧ = p⟦i+1⟧ + k.toNat))
      (by intro x; simp; omega)
    simpa [Function.comp_def] using this

theorem ascentsStep_eq_spec (p : NSeq) (k : Int) :
    ascentsStep p k = if k < 1 then .error .valueError else .ok (Spec.Stat.ascentsOfSize p k.toNat) := by
  unfold ascentsStep
  split
  · rfl
  · rename_i hk
    congr 1
    unfold ascentsBy Spec.Stat.ascentsOfSize Spec.Stat.positions
    rw [enum2_eq, List.filter_map, List.map_map]
    have := shifted_filter_eq p.length (p.length - 1) 0
      (fun i => (((p⟦i⟧ : Nat) : Int) + k == ((p⟦i+1⟧ : Nat) : Int)))
      (fun i => decide (i + 1 < p.length ∧ p⟦i⟧ + k.toNat = p⟦i+1⟧))
      (by intro x; simp; omega)
    simpa [Function.comp_def] using this

example : descentsStep [3, 1, 0, 2] 2 = .ok [0] ∧ descentsStep [3, 1, 0, 2] 0 = .error .valueError := ⟨rfl, rfl⟩

theorem peaks_eq_spec (p : NSeq) : peaks p = Spec.Stat.peaks p := by
  unfold peaks Spec.Stat.peaks Spec.Stat.positions
  rw [enum3_eq, List.filter_map, List.map_map]
  have := shifted_filter_eq' p.length (p.length - 2) 1
    (fun i => decide (p⟦i⟧ < p⟦i+1⟧) && decide (p⟦i+1⟧ > p⟦i+2⟧))
    (fun i => decide (0 < i ∧ i + 1 < p.length ∧ p⟦i-1⟧ < p⟦i⟧ ∧ p⟦i⟧ > p⟦i+1⟧))
    (by intro j hj; simp; omega) (by intro j hj; omega) (by intro x hx; simp; omega)
  simpa [Function.comp_def] using this

theorem valleys_eq_spec (p : NSeq) : valleys p = Spec.Stat.valleys p := by
  unfold valleys Spec.Stat.valleys Spec.Stat.positions
  rw [enum3_eq, List.filter_map, List.map_map]
  have := shifted_filter_eq' p.length (p.length - 2) 1
    (fun i => decide (p⟦i⟧ > p⟦i+1⟧) && decide (p⟦i+1⟧ < p⟦i+2⟧))
    (fun i => decide (0 < i ∧ i + 1 < p.length ∧ p⟦i-1⟧ > p⟦i⟧ ∧ p⟦i⟧ < p⟦i+1⟧))
    (by intro j hj; simp; omega) (by intro j hj; omega) (by intro x hx; simp; omega)
  simpa [Function.comp_def] using this

theorem bends_eq_spec (p : NSeq) : bends p = Spec.Stat.bends p := by
  unfold bends Spec.Stat.bends Spec.Stat.positions
  rw [enum3_eq, List.filter_map, List.map_map]
  have := shifted_filter_eq' p.length (p.length - 2) 1
    (fun i => (decide (p⟦i⟧ < p⟦i+1⟧) && decide (p⟦i+1⟧ > p⟦i+2⟧)) ||
      (decide (p⟦i⟧ > p⟦i+1⟧) && decide (p⟦i+1⟧ < p⟦i+2⟧)))
    (fun i => decide (0 < i ∧ i + 1 < p.length ∧
      ((p⟦i-1⟧ < p⟦i⟧ ∧ p⟦i⟧ > p⟦i+1⟧) ∨ (p⟦i-1⟧ > p⟦i⟧ ∧ p⟦i⟧ < p⟦i+1⟧))))
    (by intro j hj; simp; omega) (by intro j hj; omega) (by intro x hx; simp; omega)
  simpa [Function.comp_def] using this

/-- the pinnacles are the values at the peaks -/
theorem pinnacles_eq_spec (p : NSeq) : pinnacles p = Spec.Stat.pinnacles p := by
  have h : pinnacles p = (peaks p).map fun i => p⟦i⟧ := by
    unfold pinnacles peaks
    rw [enum3_eq, List.filter_map, List.map_map, List.map_map, List.map_map]
    rfl
  rw [h, peaks_eq_spec]; rfl

theorem fixedPoints_eq_spec (p : NSeq) : fixedPoints p = Spec.Stat.fixedPoints p := by
  unfold fixedPoints Spec.Stat.fixedPoints Spec.Stat.positions
  rw [enum_eq, List.filter_map, List.map_map]
  have := shifted_filter_eq' p.length p.length 0
    (fun i => i == p⟦i⟧) (fun i => decide (p⟦i⟧ = i))
    (by intro j hj; simp; omega) (by intro j hj; omega) (by intro x hx; simp; omega)
  simpa [Function.comp_def] using this

theorem allBonds_eq_spec (p : NSeq) : allBonds p = Spec.Stat.bonds p := by
  unfold allBonds Spec.Stat.bonds Spec.Stat.positions
  rw [enum2_eq, List.filter_map, List.map_map]
  have := shifted_filter_eq' p.length (p.length - 1) 0
    (fun i => p⟦i+1⟧ == p⟦i⟧ + 1 || p⟦i⟧ == p⟦i+1⟧ + 1)
    (fun i => decide (i + 1 < p.length ∧ (p⟦i+1⟧ = p⟦i⟧ + 1 ∨ p⟦i⟧ = p⟦i+1⟧ + 1)))
    (by intro j hj; simp; omega) (by intro j hj; omega) (by intro x hx; simp; omega)
  simpa [Function.comp_def] using this

theorem incBonds_eq_spec (p : NSeq) : incBonds p = Spec.Stat.incBonds p := by
  unfold incBonds Spec.Stat.incBonds Spec.Stat.positions
  rw [enum2_eq, List.filter_map, List.map_map]
  have := shifted_filter_eq' p.length (p.length - 1) 0
    (fun i => p⟦i+1⟧ == p⟦i⟧ + 1)
    (fun i => decide (i + 1 < p.length ∧ p⟦i+1⟧ = p⟦i⟧ + 1))
    (by intro j hj; simp; omega) (by intro j hj; omega) (by intro x hx; simp; omega)
  simpa [Function.comp_def] using this

theorem decBonds_eq_spec (p : NSeq) : decBonds p = Spec.Stat.decBonds p := by
  unfold decBonds Spec.Stat.decBonds Spec.Stat.positions
  rw [enum2_eq, List.filter_map, List.map_map]
  have := shifted_filter_eq' p.length (p.length - 1) 0
    (fun i => p⟦i⟧ == p⟦i+1⟧ + 1)
    (fun i => decide (i + 1 < p.length ∧ p⟦i⟧ = p⟦i+1⟧ + 1))
    (by intro j hj; simp; omega) (by intro j hj; omega) (by intro x hx; simp; omega)
  simpa [Function.comp_def] using this

theorem cyclicPeaks_eq_spec (p : NSeq) : cyclicPeaks p = Spec.Stat.cyclicPeaks p := by
  unfold cyclicPeaks Spec.Stat.cyclicPeaks Spec.Stat.positions
  rw [enum_eq, List.filter_map, List.map_map]
  simp [Function.comp_def]

theorem cyclicValleys_eq_spec (p : NSeq) : cyclicValleys p = Spec.Stat.cyclicValleys p := by
  unfold cyclicValleys Spec.Stat.cyclicValleys Spec.Stat.positions
  rw [enum_eq, List.filter_map, List.map_map]
  simp [Function.comp_def]

theorem doubleExcedance_eq_spec (p : NSeq) : doubleExcedance p = Spec.Stat.doubleExcedances p := by
  unfold doubleExcedance Spec.Stat.doubleExcedances Spec.Stat.positions
  rw [enum_eq, List.filter_map, List.map_map]
  simp [Function.comp_def]

theorem doubleDrops_eq_spec (p : NSeq) : doubleDrops p = Spec.Stat.doubleDrops p := by
  unfold doubleDrops Spec.Stat.doubleDrops Spec.Stat.positions
  rw [enum_eq, List.filter_map, List.map_map]
  simp [Function.comp_def]

example : peaks [5, 3, 4, 0, 2, 1] = [2, 4] ∧ Spec.Stat.valleys [5, 3, 4, 0, 2, 1] = [1, 3] ∧
    cyclicPeaks [3, 2, 0, 1] = [0, 1] := by decide

/-- the major index is the sum of the (1-based) descent positions -/
theorem majorIndex_eq_spec (p : NSeq) : majorIndex p = Spec.Stat.majorIndex p := by
  unfold majorIndex Spec.Stat.majorIndex
  rw [descents_eq_spec]
  congr 1
  apply List.map_congr_left
  intro a _; omega

/-- depth = `Σ_{σ(i) > i} (σ(i) - i)` -/
theorem depth_eq_spec (p : NSeq) : depth p = Spec.Stat.depth p := by
  unfold depth Spec.Stat.depth Spec.Stat.positions
  rw [enum_eq, List.filter_map, List.map_map]
  rfl

example : majorIndex [3, 1, 2, 4, 0] = 5 ∧ depth [3, 1, 2, 4, 0] = 4 := by decide












/-- `inversions` (nested loops) lists exactly the pairs `i < j` with `σ(i) > σ(j)`, lexicographically -/
theorem inversions_eq_spec (p : NSeq) : inversions p = Spec.Stat.inversions p := C11L.inversions_eq_spec p

theorem nonInversions_eq_spec (p : NSeq) : nonInversions p = Spec.Stat.nonInversions p := C11L.nonInversions_eq_spec p

example : inversions [3, 0, 2, 1] = [(0, 1), (0, 2), (0, 3), (2, 3)] := by decide

/-! ## A3 — single-pass algorithms -/

/-- `ltrmin` (running minimum started at `len(self)`) lists exactly the left-to-right minima, provided every
    entry is below the length (true for permutations; this is the hypothesis the un-standardised remainder of
    `rtlmax_ltrmin_decomposition` violates) -/
theorem ltrmin_eq_spec (p : NSeq) (h : ∀ x ∈ p, x < p.length) : ltrmin p = Spec.Stat.ltrmin p :=
  C11L.ltrmin_eq_spec p h

/-- `ltrmax` (running maximum started at `-1`): the left-to-right maxima, for every sequence -/
theorem ltrmax_eq_spec (p : NSeq) : ltrmax p = Spec.Stat.ltrmax p := C11L.ltrmax_eq_spec p

/-- `rtlmin` (scan of the reversed tuple, positions reflected, list reversed) -/
theorem rtlmin_eq_spec (p : NSeq) (h : ∀ x ∈ p, x < p.length) : rtlmin p = Spec.Stat.rtlmin p :=
  C11L.rtlmin_eq_spec p h

/-- `rtlmax`: the right-to-left maxima, for every sequence -/
theorem rtlmax_eq_spec (p : NSeq) : rtlmax p = Spec.Stat.rtlmax p := C11L.rtlmax_eq_spec p

example : ltrmin [2, 4, 3, 0, 1] = [0, 3] ∧ rtlmax [2, 4, 3, 0, 1] = [1, 2, 4] := by decide

theorem descentsBy_eq_spec (p : NSeq) (k : Nat) : descentsBy p (k : Int) = Spec.Stat.descentsOfSize p k := by
  unfold descentsBy Spec.Stat.descentsOfSize Spec.Stat.positions
  rw [enum2_eq, List.filter_map, List.map_map]
  have := shifted_filter_eq p.length (p.length - 1) 0
    (fun i => (((p⟦i⟧ : Nat) : Int) == ((p⟦i+1⟧ : Nat) : Int) + (k : Int)))
    (fun i => decide (i + 1 < p.length ∧ p⟦i⟧ = p⟦i+1⟧ + k))
    (by intro x; simp; omega)
  simpa [Function.comp_def] using this

theorem ascentsBy_eq_spec (p : NSeq) (k : Nat) : ascentsBy p (k : Int) = Spec.Stat.ascentsOfSize p k := by
  unfold ascentsBy Spec.Stat.ascentsOfSize Spec.Stat.positions
  rw [enum2_eq, List.filter_map, List.map_map]
  have := shifted_filter_eq p.length (p.length - 1) 0
    (fun i => (((p⟦i⟧ : Nat) : Int) + (k : Int) == ((p⟦i+1⟧ : Nat) : Int)))
    (fun i => decide (i + 1 < p.length ∧ p⟦i⟧ + k = p⟦i+1⟧))
    (by intro x; simp; omega)
  simpa [Function.comp_def] using this


/-- fore and after maxima and minima: positions that are an ascent (descent) of size two and the named record -/
theorem foremaxima_eq_spec (p : NSeq) : foremaxima p = Spec.Stat.foremaxima p := by
  unfold foremaxima Spec.Stat.foremaxima Spec.Stat.positions
  rw [show (2 : Int) = ((2 : Nat) : Int) from rfl, ascentsBy_eq_spec, ltrmax_eq_spec]
  exact interSorted_filter_range _ _ _

theorem aftermaxima_eq_spec (p : NSeq) : aftermaxima p = Spec.Stat.aftermaxima p := by
  unfold aftermaxima Spec.Stat.aftermaxima Spec.Stat.positions
  rw [show (2 : Int) = ((2 : Nat) : Int) from rfl, descentsBy_eq_spec, rtlmax_eq_spec]
  exact interSorted_filter_range _ _ _

theorem afterminima_eq_spec (p : NSeq) (h : ∀ x ∈ p, x < p.length) :
    afterminima p = Spec.Stat.afterminima p := by
  unfold afterminima Spec.Stat.afterminima Spec.Stat.positions
  rw [show (2 : Int) = ((2 : Nat) : Int) from rfl, ascentsBy_eq_spec, rtlmin_eq_spec p h]
  exact interSorted_filter_range _ _ _

theorem foreminima_eq_spec (p : NSeq) (h : ∀ x ∈ p, x < p.length) :
    foreminima p = Spec.Stat.foreminima p := by
  unfold foreminima Spec.Stat.foreminima Spec.Stat.positions
  rw [show (2 : Int) = ((2 : Nat) : Int) from rfl, descentsBy_eq_spec, ltrmin_eq_spec p h]
  exact interSorted_filter_range _ _ _

example : foremaxima [1, 3, 5, 2, 4, 0] = [0, 1] ∧ Spec.Stat.foreminima [6, 4, 2, 3, 5, 1, 0] = [0, 1] := by decide

/-- **`listing_eq_spec`**: every positional listing that needs no hypothesis on the sequence, in one statement
    (comprehension over `zip`/`enumerate`, nested loops, running extremum = the definitional filter over positions) -/
theorem listing_eq_spec (p : NSeq) :
    descents p = Spec.Stat.descents p ∧ ascents p = Spec.Stat.ascents p ∧ peaks p = Spec.Stat.peaks p ∧
    valleys p = Spec.Stat.valleys p ∧ bends p = Spec.Stat.bends p ∧ pinnacles p = Spec.Stat.pinnacles p ∧
    fixedPoints p = Spec.Stat.fixedPoints p ∧ allBonds p = Spec.Stat.bonds p ∧ incBonds p = Spec.Stat.incBonds p ∧
    decBonds p = Spec.Stat.decBonds p ∧ cyclicPeaks p = Spec.Stat.cyclicPeaks p ∧
    cyclicValleys p = Spec.Stat.cyclicValleys p ∧ doubleExcedance p = Spec.Stat.doubleExcedances p ∧
    doubleDrops p = Spec.Stat.doubleDrops p ∧ inversions p = Spec.Stat.inversions p ∧
    nonInversions p = Spec.Stat.nonInversions p ∧ ltrmax p = Spec.Stat.ltrmax p ∧ rtlmax p = Spec.Stat.rtlmax p ∧
    foremaxima p = Spec.Stat.foremaxima p ∧ aftermaxima p = Spec.Stat.aftermaxima p :=
  ⟨descents_eq_spec p, ascents_eq_spec p, peaks_eq_spec p, valleys_eq_spec p, bends_eq_spec p, pinnacles_eq_spec p,
    fixedPoints_eq_spec p, allBonds_eq_spec p, incBonds_eq_spec p, decBonds_eq_spec p, cyclicPeaks_eq_spec p,
    cyclicValleys_eq_spec p, doubleExcedance_eq_spec p, doubleDrops_eq_spec p, inversions_eq_spec p,
    nonInversions_eq_spec p, ltrmax_eq_spec p, rtlmax_eq_spec p, foremaxima_eq_spec p, aftermaxima_eq_spec p⟩

/-- … and those that need every entry to be below the length (true for permutations) -/
theorem listing_eq_spec_perm (p : NSeq) (hp : IsPerm p) :
    ltrmin p = Spec.Stat.ltrmin p ∧ rtlmin p = Spec.Stat.rtlmin p ∧ afterminima p = Spec.Stat.afterminima p ∧
    foreminima p = Spec.Stat.foreminima p :=
  ⟨ltrmin_eq_spec p hp.2, rtlmin_eq_spec p hp.2, afterminima_eq_spec p hp.2, foreminima_eq_spec p hp.2⟩

/-! ## A5 — distributions, preservation, equidistribution (the tools of `PermutationStatistic`) -/

/-- entry `k` of a distribution is the number of values equal to `k` -/
theorem distribution_entry (vals : List Int) (k : Nat) (hk : k < (distribution vals).length) :
    (distribution vals)[k] = vals.count (k : Int) := by
  simp [distribution]

/-- a distribution of non-negative values sums to the number of values -/
theorem distribution_sum (vals : List Int) (h : ∀ v ∈ vals, 0 ≤ v) : (distribution vals).sum = vals.length := by
  unfold distribution
  apply sum_counts
  intro v hv
  have := le_maxIntD vals 0 v hv
  have := h v hv
  omega

/-- **statistic distributions over a class sum to the size of the class** (for every table entry whose
    statistic is non-negative on the class – all 32 are) -/
theorem distributionForLength_sum (e : Entry) (n : Nat) (basis : Option (List NSeq))
    (h : ∀ σ ∈ classOfLength basis n, 0 ≤ runEntry e σ) :
    (distributionForLength e n basis).sum = (classOfLength basis n).length := by
  unfold distributionForLength
  rw [distribution_sum, List.length_map]
  intro v hv
  obtain ⟨σ, hσ, rfl⟩ := List.mem_map.mp hv
  exact h σ hσ

/-- and entry `k` counts the members of the class on which the statistic is `k` -/
theorem distributionForLength_entry (e : Entry) (n : Nat) (basis : Option (List NSeq)) (k : Nat)
    (hk : k < (distributionForLength e n basis).length) :
    (distributionForLength e n basis)[k] = ((classOfLength basis n).filter fun σ => runEntry e σ == (k : Int)).length := by
  unfold distributionForLength at hk ⊢
  rw [distribution_entry _ _ hk, List.count_eq_countP, List.countP_map, List.countP_eq_length_filter]
  rfl

/-- the class used for a distribution: the permutations of length `n` avoiding the basis -/
theorem mem_classOfLength (b : List NSeq) (n : Nat) (σ : NSeq) :
    σ ∈ classOfLength (some b) n ↔ σ ∈ Model.permsLex n ∧ Model.avoidsAll σ b = true := by
  simp [classOfLength]

example : distributionForLength ("Depth", "depth") 3 none = [1, 2, 3] ∧
    (distributionForLength ("Depth", "depth") 3 none).sum = (classOfLength none 3).length := by decide

/-- `preserved_in`: the statistic is reported as preserved iff `f k = f v` for every pair of the bijection -/
theorem preservedIn_iff (e : Entry) (bij : Bij) :
    preservedIn e bij = true ↔ ∀ kv ∈ bij, runEntry e kv.1 = runEntry e kv.2 := by
  simp [preservedIn, List.all_eq_true]

/-- `check_all_preservations` reports exactly the names of the table entries that are preserved -/
theorem mem_checkAllPreservations (table : List Entry) (bij : Bij) (name : String) :
    name ∈ checkAllPreservations table bij ↔
      ∃ e ∈ table, e.1 = name ∧ ∀ kv ∈ bij, runEntry e kv.1 = runEntry e kv.2 := by
  simp only [checkAllPreservations, List.mem_map, List.mem_filter, preservedIn_iff]
  constructor
  · rintro ⟨e, ⟨he, hp⟩, rfl⟩; exact ⟨e, he, rfl, hp⟩
  · rintro ⟨e, he, rfl, hp⟩; exact ⟨e, ⟨he, hp⟩, rfl⟩

/-- `equally_distributed` reports exactly the names whose distributions agree for every length `i ≤ n` -/
theorem mem_equallyDistributed (table : List Entry) (b1 b2 : List NSeq) (n : Nat) (name : String) :
    name ∈ equallyDistributed table b1 b2 n ↔
      ∃ e ∈ table, e.1 = name ∧ ∀ i, i ≤ n →
        distributionForLength e i (some b1) = distributionForLength e i (some b2) := by
  simp only [equallyDistributed, List.mem_map, List.mem_filter, List.all_eq_true, List.mem_range, beq_iff_eq]
  constructor
  · rintro ⟨e, ⟨he, hp⟩, rfl⟩; exact ⟨e, he, rfl, fun i hi => hp i (by omega)⟩
  · rintro ⟨e, he, rfl, hp⟩; exact ⟨e, ⟨he, fun i hi => hp i (by omega)⟩, rfl⟩

/-- `check_all_transformed` with a re-iterable `all_stats`: sound and complete for every ordered pair of
    table entries (the full `32 × 32` table) -/
theorem checkAllTransformed_materialised (table : List Entry) (bij : Bij) (n1 n2 : String) :
    (∃ l, (n1, l) ∈ checkAllTransformed true table bij ∧ n2 ∈ l) ↔
      ∃ s1 ∈ table, ∃ s2 ∈ table, s1.1 = n1 ∧ s2.1 = n2 ∧ ∀ kv ∈ bij, runEntry s1 kv.1 = runEntry s2 kv.2 := by
  simp only [checkAllTransformed, if_true, List.mem_filterMap]
  constructor
  · rintro ⟨l, ⟨s1, hs1, hl⟩, hn2⟩
    split at hl
    · exact absurd hl (by simp)
    · simp only [Option.some.injEq, Prod.mk.injEq] at hl
      obtain ⟨rfl, rfl⟩ := hl
      simp only [List.mem_map, List.mem_filter, List.all_eq_true, beq_iff_eq] at hn2
      obtain ⟨s2, ⟨hs2, hid⟩, rfl⟩ := hn2
      exact ⟨s1, hs1, s2, hs2, rfl, rfl, hid⟩
  · rintro ⟨s1, hs1, s2, hs2, rfl, rfl, hid⟩
    have hmem : s2 ∈ table.filter fun s2 => bij.all fun kv => runEntry s1 kv.1 == runEntry s2 kv.2 := by
      simp only [List.mem_filter, List.all_eq_true, beq_iff_eq]; exact ⟨hs2, hid⟩
    refine ⟨_, ⟨s1, hs1, ?_⟩, List.mem_map.mpr ⟨s2, hmem, rfl⟩⟩
    rw [if_neg]
    intro hempty
    rw [List.isEmpty_iff] at hempty
    rw [hempty] at hmem
    simp at hmem

/-- with the one-shot generator of the pinned commit (`Generated.transformedMaterialised = false`) the
    second pool of `product` is empty and nothing is ever reported – the recorded finding -/
theorem checkAllTransformed_oneshot (table : List Entry) (bij : Bij) :
    checkAllTransformed false table bij = [] := by
  simp [checkAllTransformed]

/-- the model follows the regenerated structural fact: once `all_stats` is materialised in the source,
    `check_all_transformed` is sound and complete on the generated table -/
theorem checkAllTransformed_generated (h : Generated.transformedMaterialised = true) (bij : Bij) (n1 n2 : String) :
    (∃ l, (n1, l) ∈ checkAllTransformed Generated.transformedMaterialised Generated.statTable bij ∧ n2 ∈ l) ↔
      ∃ s1 ∈ Generated.statTable, ∃ s2 ∈ Generated.statTable, s1.1 = n1 ∧ s2.1 = n2 ∧
        ∀ kv ∈ bij, runEntry s1 kv.1 = runEntry s2 kv.2 := by
  rw [h]; exact checkAllTransformed_materialised _ _ _ _

example : preservedIn ("Number of peaks", "count_peaks") [([0, 2, 1], [1, 2, 0])] = true ∧
    preservedIn ("Number of descents", "count_descents") [([0, 1, 2], [2, 1, 0])] = false := by decide

/-! ## `is_prime` and the column-sum statistic -/

/-- `is_prime` (6k±1 trial division, math.py) decides primality, for every natural number -/
theorem isPrime_iff_prime (n : Nat) : isPrime n = true ↔ Nat.Prime n := isPrime_iff n

/-- … and on negative integers it answers `False` -/
theorem isPrimeZ_iff (z : Int) : isPrimeZ z = true ↔ 0 ≤ z ∧ Nat.Prime z.toNat := by
  unfold isPrimeZ
  split
  · simp; omega
  · rw [isPrime_iff]; constructor
    · intro h; exact ⟨by omega, h⟩
    · exact fun h => h.2

example : isPrime 97 = true ∧ isPrime 91 = false ∧ isPrime 25 = false ∧ isPrimeZ (-7) = false := by
  refine ⟨?_, ?_, ?_, ?_⟩
  · rw [isPrime_iff_prime]; decide
  · rw [← Bool.not_eq_true, isPrime_iff_prime]; decide
  · rw [← Bool.not_eq_true, isPrime_iff_prime]; decide
  · rfl

/-- the brute-force primality of the specification is primality too -/
theorem specIsPrime_iff_prime (n : Nat) : Spec.Stat.isPrime n = true ↔ Nat.Prime n := by
  unfold Spec.Stat.isPrime
  rw [Nat.prime_def_lt]
  simp only [Bool.and_eq_true, decide_eq_true_eq, List.all_eq_true, List.mem_range, Bool.or_eq_true, bne_iff_ne, ne_eq]
  constructor
  · rintro ⟨h2, h⟩
    refine ⟨h2, fun m hm hd => ?_⟩
    rcases h m hm with h | h
    · have : m ≠ 0 := by rintro rfl; simp at hd; omega
      omega
    · exact absurd (Nat.mod_eq_zero_of_dvd hd) h
  · rintro ⟨h2, h⟩
    refine ⟨h2, fun d hd => ?_⟩
    by_cases hd2 : d < 2
    · exact Or.inl hd2
    · right; intro hmod
      have := h d hd (Nat.dvd_of_mod_eq_zero hmod); omega

/-- "Number of primes in the column sums" (FindStat St001285) -/
theorem countColumnSumPrimes_eq_spec (p : NSeq) : countColumnSumPrimes p = Spec.Stat.columnSumPrimes p := by
  unfold countColumnSumPrimes Spec.Stat.columnSumPrimes Spec.Stat.positions
  rw [count1_eq_length, enum_eq, List.filter_map, List.length_map]
  congr 1
  apply List.filter_congr
  intro i _
  have e : i + 1 + (p⟦i⟧ + 1) = p⟦i⟧ + i + 2 := by omega
  simp only [Function.comp_def, e]
  rw [Bool.eq_iff_iff, isPrime_iff_prime, specIsPrime_iff_prime]

example : countColumnSumPrimes [1, 0] = 2 := by decide +kernel

/-! ## A4 — the name → function table of the source, regenerated on every run -/

/-- an entry of the table is bound correctly when the method it finally calls is the canonical one for its name -/
def bindingOK (e : String × String) : Bool := Spec.Stat.canonicalFunc e.1 == some e.2

/-- bindings recorded as a known finding at the pinned commit (longest RUN bound to longest SUBSEQUENCE);
    any other rebinding – and these two with any other wrong function – breaks `stat_table_bound_correctly` -/
def knownMisbound : List (String × String) :=
  [("Longest increasing subsequence", "length_of_longestrun_ascending"),
   ("Longest decreasing subsequence", "length_of_longestrun_descending")]

/-- **every name of `PermutationStatistic._STATISTICS` is bound to the method that computes what the name
    promises**, except for the recorded finding.  Stated about the GENERATED table. -/
theorem stat_table_bound_correctly :
    Generated.statTable.all (fun e => bindingOK e || knownMisbound.contains e) = true := by decide

/-- the table has the 32 published entries, with distinct names, each with a model and a specification -/
theorem stat_table_shape :
    Generated.statTable.length = 32 ∧ (Generated.statTable.map (·.1)).Nodup ∧
    Generated.statTable.all (fun e => (byFunc e.2).isSome && (Spec.Stat.byName e.1).isSome) = true := by decide

/-- `get_by_index`: tuple indexing with Python's negative indices, `IndexError` outside `-len … len-1` -/
theorem getByIndex_spec (table : List Entry) (idx : Int) :
    getByIndex table idx =
      if 0 ≤ idx ∧ idx < table.length then .ok (table.getD idx.toNat ("", ""))
      else if -(table.length : Int) ≤ idx ∧ idx < 0 then .ok (table.getD (idx + table.length).toNat ("", ""))
      else .error .indexError := by
  unfold getByIndex
  by_cases h1 : 0 ≤ idx
  · by_cases h2 : idx < table.length
    · simp [h1, h2, List.getD_eq_getElem?_getD]
    · have h4 : ¬ (-(table.length : Int) ≤ idx ∧ idx < 0) := by omega
      simp [h1, h2, h4]
  · have h0 : ¬ idx ≥ 0 := h1
    by_cases h2 : -(table.length : Int) ≤ idx
    · have h3 : (idx + table.length).toNat < table.length := by omega
      have h4 : idx + table.length ≥ 0 := by omega
      have h5 : idx < 0 := by omega
      simp [h0, h2, h4, h5, List.getElem?_eq_getElem h3, List.getD_eq_getElem?_getD]
    · have h4 : ¬ idx + table.length ≥ 0 := by omega
      simp [h0, h2, h4]

example : getByIndex Generated.statTable (-1) = .ok ("Number of foreminima", "count_foreminima") ∧
    getByIndex Generated.statTable 32 = .error .indexError := ⟨rfl, rfl⟩

/-! ## A3 (continued) — more single-pass algorithms: each for ALL permutations / sequences -/

/-- `strong_fixed_points`: the fixed points that are left-to-right maxima are exactly the strong fixed points
    (larger than everything before, smaller than everything after) of a permutation -/
theorem strongFixedPoints_eq_spec (p : NSeq) (hp : IsPerm p) : strongFixedPoints p = Spec.Stat.strongFixedPoints p := by
  unfold strongFixedPoints Spec.Stat.strongFixedPoints
  rw [ltrmax_eq_spec]
  unfold Spec.Stat.ltrmax Spec.Stat.positions
  rw [List.filter_filter]
  apply List.filter_congr
  intro i hi
  simp only [List.mem_range] at hi
  rw [Bool.eq_iff_iff]
  simp only [Bool.and_eq_true, beq_iff_eq, decide_eq_true_eq]
  constructor
  · rintro ⟨hfix, hmax⟩
    refine ⟨hfix.symm, hmax, fun j hj hij => ?_⟩
    have hjn : j < p.length := List.mem_range.mp hj
    exact later_larger_of_fixed_ltrmax p hp i hi hfix.symm
      (fun j' hj' => hmax j' (List.mem_range.mpr (by omega)) hj') j hij hjn
  · rintro ⟨hfix, hmax, _⟩
    exact ⟨hfix.symm, hmax⟩

example : strongFixedPoints [0, 1, 4, 3, 2] = [0, 1] ∧ IsPerm [0, 1, 4, 3, 2] := by decide


/-- **`maximal_decreasing_run`** (single pass with `next_val` / `max_not_included` and a `break`) returns the
    largest `k` such that `n-1, n-2, …, n-k` appear in this order from left to right, for every permutation -/
theorem maximalDecreasingRun_eq_spec (p : NSeq) (hp : IsPerm p) :
    maximalDecreasingRun p = (Spec.Stat.maximalDecreasingRun p : Int) := by
  have h0 : GInv p ([] : List Nat).length 0 :=
    ⟨fun d hd => by omega, fun d hd => by omega, fun _ => Or.inl (Nat.zero_le _)⟩
  obtain ⟨k', _, hk'n, hg, hinv⟩ := greedy_scan p hp p [] 0 (by simp) (Nat.zero_le _) h0
  have hmdr : mdrGo ((p.length : Int) - 1) (-1) p = greedy ((p.length : Int) - 1) p := by
    apply mdrGo_eq_greedy _ _ _ (by omega) (fun w _ => by omega) _ hp.1
    intro w hw; have := hp.2 w hw; omega
  have hmodel : maximalDecreasingRun p = (k' : Int) := by
    unfold maximalDecreasingRun
    rw [hmdr]
    have : greedy ((p.length : Int) - 1) p = (p.length : Int) - 1 - k' := by simpa using hg
    rw [this]; omega
  rw [hmodel]
  congr 1
  symm
  -- the specification's maximum is `k'`
  have hdec : ∀ k, ((List.range (k - 1)).all fun d =>
      decide (p.idxOf (p.length - 1 - d) < p.idxOf (p.length - 2 - d))) = true ↔ Chain p k := by
    intro k
    simp only [List.all_eq_true, List.mem_range, decide_eq_true_eq, Chain]
    constructor
    · intro h d hd; exact h d (by omega)
    · intro h d hd; exact h d (by omega)
  unfold Spec.Stat.maximalDecreasingRun
  apply specMaxNat_eq
  · rw [List.mem_filter]
    exact ⟨List.mem_range.mpr (by omega), (hdec k').mpr hinv.chain⟩
  · intro k hk
    rw [List.mem_filter] at hk
    have hkn : k < p.length + 1 := List.mem_range.mp hk.1
    have hch : Chain p k := (hdec k).mp hk.2
    by_contra hcon
    have hlt : k' < k := by omega
    have hk'n' : k' < p.length := by omega
    have hx : p.length - 1 - k' < p.length := by omega
    have hidxlt := List.idxOf_lt_length_of_mem (mem_of_lt_length hp hx)
    rcases hinv.next hk'n' with h | ⟨h1, h2⟩
    · omega
    · have := hch (k' - 1) (by omega)
      have e1 : p.length - 1 - (k' - 1) = p.length - k' := by omega
      have e2 : p.length - 2 - (k' - 1) = p.length - 1 - k' := by omega
      rw [e1, e2] at this
      omega

example : maximalDecreasingRun [5, 0, 4, 1, 2, 3] = 3 ∧ IsPerm [5, 0, 4, 1, 2, 3] := by decide

/-- **`longestruns_ascending`** (single pass with `maxi` / `cur` / `res`) returns the length of the longest
    ascending run and the positions where a run of that length starts – for every sequence -/
theorem longestrunsAscending_eq_spec (p : NSeq) :
    longestrunsAscending p = Spec.Stat.longestRun Spec.Stat.ascendingRun p := by
  by_cases hn : p.length = 0
  · have : p = [] := List.eq_nil_of_length_eq_zero hn
    subst this; rfl
  · have h0 : LInv p (0 + 1) 1 0 [] := by
      refine ⟨by omega, by omega, Asc.one p 0 (by omega), Or.inl rfl, by omega, ⟨0, by omega, Asc.one p 0 (by omega)⟩,
        fun i L hL hiL _ => by omega, ?_⟩
      symm; apply filter_eq_nil_of
      intro i _; simp
    have henum : enum2 p = (List.range' 0 (p.length - 1)).map fun i => (i, p.getD i 0, p.getD (i + 1) 0) := by
      rw [enum2_eq, List.range_eq_range']
    obtain ⟨maxi, cur, res, hgo, hinv⟩ := lraGo_inv p (p.length - 1) 0 1 0 [] (by omega) h0
    rw [← henum] at hgo
    unfold longestrunsAscending
    rw [if_neg hn, hgo, hinv.final]
    simp only [beq_iff_eq]
    split <;> rfl

/-- the length alone: the length of the longest ascending run -/
theorem lengthOfLongestrunAscending_eq_spec (p : NSeq) :
    lengthOfLongestrunAscending p = (Spec.Stat.longestRun Spec.Stat.ascendingRun p).1 := by
  unfold lengthOfLongestrunAscending; rw [longestrunsAscending_eq_spec]

example : longestrunsAscending [0, 2, 1, 4, 3, 5] = (2, [0, 2, 4]) := by decide

/-- `longestruns_descending` (the ascending scan on the complement) gives the longest descending runs of a permutation -/
theorem longestrunsDescending_eq_spec (p : NSeq) (hp : IsPerm p) :
    longestrunsDescending p = Spec.Stat.longestRun Spec.Stat.descendingRun p := by
  unfold longestrunsDescending
  rw [longestrunsAscending_eq_spec]
  exact longestRun_congr _ _ _ _ (by simp [Model.complement]) (ascendingRun_complement p hp.2)

theorem lengthOfLongestrunDescending_eq_spec (p : NSeq) (hp : IsPerm p) :
    lengthOfLongestrunDescending p = (Spec.Stat.longestRun Spec.Stat.descendingRun p).1 := by
  unfold lengthOfLongestrunDescending
  rw [lengthOfLongestrunAscending_eq_spec]
  exact congrArg Prod.fst (longestRun_congr _ _ _ _ (by simp [Model.complement]) (ascendingRun_complement p hp.2))

example : longestrunsDescending [2, 1, 3, 0] = (2, [0, 2]) := by decide

/-- `rank_encoding`: entry `i` is the number of inversions whose left end is `i` -/
theorem rankEncoding_eq_spec (p : NSeq) : rankEncoding p = Spec.Stat.rankEncoding p := by
  apply List.ext_getElem
  · unfold rankEncoding Spec.Stat.rankEncoding Spec.Stat.positions
    rw [(foldl_incr_getD (inversions p) _).1]; simp
  · intro i h1 h2
    have hi : i < p.length := by simpa [Spec.Stat.rankEncoding, Spec.Stat.positions] using h2
    have := rankEncoding_getD p i hi
    rw [List.getD_eq_getElem?_getD, List.getElem?_eq_getElem h1] at this
    simp only [Option.getD_some] at this
    rw [this]
    simp [Spec.Stat.rankEncoding, Spec.Stat.positions]

example : rankEncoding [3, 0, 2, 1] = [3, 0, 1, 0] := by decide

/-- **holeyness** (FindStat St001469): the maximum over all subsets `S` of positions of `δ(σ(S)) − δ(S)` -/
theorem holeyness_eq_spec (p : NSeq) (hp : IsPerm p) : holeyness p = Spec.Stat.holeyness p := by
  unfold holeyness Spec.Stat.holeyness
  rw [maxIntD_zero_eq]
  apply specMaxInt_congr
  intro x
  simp only [List.mem_map, mem_setGenerator, mem_specSublists, Spec.Stat.positions]
  have key : ∀ s : List Nat, s.Sublist (List.range p.length) →
      ((delta ((s.map fun i => p⟦i⟧).eraseDups) : Int) - (delta s : Int)) =
        ((Spec.Stat.delta (s.map fun i => p⟦i⟧) : Int) - (Spec.Stat.delta s : Int)) := by
    intro s hs
    have hnd : (s.map fun i => p⟦i⟧).Nodup := by
      have hsnd : s.Nodup := hs.nodup List.nodup_range
      rw [List.nodup_map_iff_inj_on hsnd]
      intro a ha b hb hab
      have ha' : a < p.length := List.mem_range.mp (hs.subset ha)
      have hb' : b < p.length := List.mem_range.mp (hs.subset hb)
      exact hp.getD_inj ha' hb' hab
    rw [eraseDups_of_nodup _ hnd, delta_eq, delta_eq]
  constructor
  · rintro ⟨s, hs, rfl⟩; exact ⟨s, hs, (key s hs).symm⟩
  · rintro ⟨s, hs, rfl⟩; exact ⟨s, hs, key s hs⟩

example : holeyness [0, 2, 1] = 1 := by decide +kernel

/-! ## B1 — the Fenwick tree of `count_inversions` -/

/-- **`count_inversions`** (Fenwick tree with `element &= element - 1` and `bit_index += bit_index & -bit_index`)
    returns the number of inversions, i.e. the size of the listing `inversions`, for every sequence whose entries
    are below its length (every permutation) -/
theorem countInversions_eq_length_inversions (p : NSeq) (h : ∀ x ∈ p, x < p.length) :
    countInversions p = (inversions p).length := by
  rw [countInversions_eq_invs p h, invs_eq_inversions_length]

/-- … hence "Number of inversions" is `#{(i,j) | i<j ∧ σ i > σ j}` -/
theorem countInversions_eq_spec (p : NSeq) (h : ∀ x ∈ p, x < p.length) :
    countInversions p = (Spec.Stat.inversions p).length := by
  rw [countInversions_eq_length_inversions p h, inversions_eq_spec]

/-- **`count_non_inversions`** (`n(n-1)/2 - count_inversions`) is the size of the listing `non_inversions`,
    for every permutation -/
theorem countNonInversions_eq_length_nonInversions (p : NSeq) (hp : IsPerm p) :
    countNonInversions p = ((nonInversions p).length : Int) := by
  unfold countNonInversions
  rw [countInversions_eq_invs p hp.2, ← ninvs_eq_nonInversions_length]
  have := invs_add_ninvs p hp.1
  omega

theorem countNonInversions_eq_spec (p : NSeq) (hp : IsPerm p) :
    countNonInversions p = ((Spec.Stat.nonInversions p).length : Int) := by
  rw [countNonInversions_eq_length_nonInversions p hp, nonInversions_eq_spec]

example : countInversions [3, 0, 2, 1] = 4 ∧ countNonInversions [3, 0, 2, 1, 4] = 6 := by
  refine ⟨?_, ?_⟩
  · rw [countInversions_eq_length_inversions _ (by decide)]; decide
  · rw [countNonInversions_eq_length_nonInversions _ (by decide)]; decide

/-! ## cycles and order -/

/-- **`cycle_decomp`** (two nested `while` loops over a set of remaining elements) terminates on every permutation
    and returns the cycles, each written from its maximum, ordered by increasing maximum -/
theorem cycleDecomp_eq_spec (p : NSeq) (hp : IsPerm p) : cycleDecomp p = some (Spec.Stat.cycles p) :=
  cycleDecomp_eq_cycles p hp

/-- "Number of cycles": the number of orbits -/
theorem countCycles_eq_spec (p : NSeq) (hp : IsPerm p) : countCycles p = some (Spec.Stat.cycleCount p) := by
  unfold countCycles
  rw [cycleDecomp_eq_spec p hp]
  simp [Spec.Stat.cycles, Spec.Stat.cycleCount]

/-- **`order`** (running lcm of the cycle lengths) is the least `k > 0` with `σ^k = id` -/
theorem order_eq_spec (p : NSeq) (hp : IsPerm p) : order p = some (Spec.Stat.order p) := order_eq_spec' p hp

/-- `cycle_notation` prints exactly those cycles -/
theorem cycleNotation_eq (p : NSeq) (hp : IsPerm p) (hn : p.length ≠ 0) :
    cycleNotation p = some (" ".intercalate ((Spec.Stat.cycles p).map fun c =>
      "( " ++ " ".intercalate (c.map toString) ++ " )")) := by
  unfold cycleNotation
  rw [if_neg hn, cycleDecomp_eq_spec p hp]; rfl

example : cycleDecomp [4, 2, 7, 0, 3, 1, 6, 5] = some [[4, 3, 0], [6], [7, 5, 1, 2]] ∧
    order [4, 3, 5, 0, 2, 1] = some 6 := by decide +kernel

/-! ## bounces -/

/-- **`count_bounces`** (inverse, `bounce_arr`, `while bounce_arr[-1] < n`) terminates on every permutation and
    returns the bounce statistic read as a bounce path (`Spec.Stat.bounces`, FindStat St000133) -/
theorem countBounces_eq_spec (p : NSeq) (hp : IsPerm p) : countBounces p = some (Spec.Stat.bounces p : Int) := by
  unfold countBounces Spec.Stat.bounces
  by_cases hn : p.length = 0
  · simp [hn]
  · rw [if_neg hn, if_neg hn]
    have h0 : 0 < p.length := by omega
    have hb0 : (Model.inverse p).getD 0 0 + 1 = Spec.Stat.cover p 0 := by
      have := model_next hp h0
      rw [inverse_take p 0 h0] at this
      rw [← this]
      simp [Model.inverse, maxNat, List.getD_eq_getElem?_getD, h0]
    rw [hb0]
    have hcov : Spec.Stat.cover p 0 = maxPos p 0 + 1 := cover_eq hp h0
    have h2 := maxPos_lt hp h0
    obtain ⟨arr, e1, e2⟩ := bounce_loops hp p.length (Spec.Stat.cover p 0) [Spec.Stat.cover p 0] (by omega) (by omega)
    rw [e1]
    simp only [Option.map_some]
    congr 1
    have hsingle : bsum p.length [Spec.Stat.cover p 0] = (p.length : Int) - (Spec.Stat.cover p 0 : Nat) := by
      simp [bsum]
    rw [hsingle] at e2
    -- the specification's sum is over naturals below `n`
    have hnat : ∀ (l : List Nat), (∀ x ∈ l, x < p.length) →
        bsum p.length l = ((l.map fun b => p.length - b).sum : Nat) := by
      intro l
      induction l with
      | nil => intro _; simp [bsum]
      | cons x t ih =>
        intro h
        have hx := h x (by simp)
        have := ih (fun y hy => h y (by simp [hy]))
        simp only [bsum, List.map_cons, List.sum_cons] at this ⊢
        rw [this]; push_cast; omega
    have hpath : ∀ (f b : Nat), ∀ x ∈ Spec.Stat.bouncePath p f b, x < p.length := by
      intro f
      induction f with
      | zero => intro b x hx; simp [Spec.Stat.bouncePath] at hx
      | succ f ih =>
        intro b x hx
        simp only [Spec.Stat.bouncePath] at hx
        split at hx
        · rcases List.mem_cons.mp hx with rfl | hx
          · assumption
          · exact ih _ x hx
        · simp at hx
    rw [hnat _ (hpath _ _)] at e2
    show bsum p.length arr = _
    by_cases hc : Spec.Stat.cover p 0 < p.length
    · rw [if_pos hc] at e2; omega
    · rw [if_neg hc] at e2; omega

example : countBounces [0, 1] = some 1 ∧ countBounces [1, 0] = some 0 := by decide +kernel

/-! ## termination of the loops and the sorting counts -/

theorem rtlmaxLtrminDecomposition_terminates (p : NSeq) : (rtlmaxLtrminDecomposition p).isSome = true :=
  layersGo_isSome _ _ (Nat.le_refl _)

example : rtlmaxLtrminDecomposition [2, 7, 3, 1, 4, 8, 6, 0, 5] = some [[0, 3, 5, 6, 7, 8], [0, 2], [0]] := by
  decide +kernel

/-- on a sequence whose entries are all below its length (a permutation; NOT the un-standardised remainder)
    the layer computed by `rtlmax_ltrmin_decomposition` is the set of right-to-left maxima and left-to-right minima -/
theorem layerPositions_eq_spec (s : NSeq) (h : ∀ x ∈ s, x < s.length) :
    layerPositions s = (Spec.Stat.positions s).filter fun i => decide (i ∈ Spec.Stat.rtlmax s ∨ i ∈ Spec.Stat.ltrmin s) := by
  unfold layerPositions Spec.Stat.positions
  rw [rtlmax_eq_spec, ltrmin_eq_spec s h]
  apply List.filter_congr
  intro i _
  simp

/-- one pass of `_stack_sort` (recursive split at the maximum) is one pass through the stack device -/
theorem stackSort_eq_device (p : NSeq) (h : p.Nodup) : stackSort p = Spec.Stat.stackPass p [] [] :=
  stackSort_eq_pass p h

/-- **`count_stack_sorts`** is the least number of passes through a stack after which the permutation is sorted
    (searched up to `len` passes) -/
theorem countStackSorts_eq_least (p : NSeq) (h : p.Nodup) :
    countStackSorts p = (List.range (p.length + 1)).find? fun k =>
      Spec.Stat.iterPass (fun l => Spec.Stat.stackPass l [] []) k p == List.range p.length := by
  unfold countStackSorts
  rw [countStackSortsGo_eq p.length p.length p 0 h rfl]
  cases (List.range (p.length + 1)).find? _ <;> simp

/-- **termination of `count_stack_sorts`**: the `while perm_list != identity` loop stops after at most `len`
    passes on every permutation (each pass fixes one more of the largest entries) – the fuel always suffices -/
theorem countStackSorts_terminates (p : NSeq) (hp : IsPerm p) : (countStackSorts p).isSome = true := by
  rw [countStackSorts_eq_least p hp.1, List.find?_isSome]
  exact ⟨p.length, List.mem_range.mpr (by omega), by
    have h : Spec.Stat.iterPass (fun l => Spec.Stat.stackPass l [] []) p.length p = List.range p.length :=
      sorted_after_n_passes p hp
    rw [h]; simp⟩

/-- "Number of stack-sorts needed" (FindStat St000028) is what the name promises, for every permutation -/
theorem countStackSorts_eq_spec (p : NSeq) (hp : IsPerm p) :
    countStackSorts p = some (Spec.Stat.stackSortsNeeded p) := by
  have hs := countStackSorts_terminates p hp
  rw [Option.isSome_iff_exists] at hs
  obtain ⟨k, hk⟩ := hs
  rw [hk]
  unfold Spec.Stat.stackSortsNeeded Spec.Stat.passesNeeded
  rw [← countStackSorts_eq_least p hp.1, hk]; rfl

example : countStackSorts [1, 2, 0] = some 2 ∧ Spec.Stat.stackSortsNeeded [1, 2, 0] = 2 := by decide +kernel

/-- `is_involution` (`self == self.inverse()`) holds exactly when `σ(σ(i)) = i` for every position -/
theorem isInvolution_eq_spec (p : NSeq) (hp : IsPerm p) : isInvolution p = Spec.Stat.isInvolution p := by
  unfold isInvolution Spec.Stat.isInvolution Model.inverse Spec.Stat.positions
  rw [Bool.eq_iff_iff, beq_iff_eq, List.all_eq_true]
  have hidx : ∀ v, v < p.length → (p⟦v⟧ = p.idxOf v ↔ p⟦p⟦v⟧⟧ = v) := by
    intro v hv
    have hvm : v ∈ p := mem_of_lt_length hp hv
    have hlt : p.idxOf v < p.length := List.idxOf_lt_length_of_mem hvm
    have hget : p⟦p.idxOf v⟧ = v := by
      rw [List.getD_eq_getElem?_getD, List.getElem?_eq_getElem hlt]
      simp [List.getElem_idxOf hlt]
    constructor
    · intro h; rw [h]; exact hget
    · intro h
      have h1 : p⟦v⟧ < p.length := hp.getD_lt hv
      exact hp.getD_inj h1 hlt (by rw [h, hget])
  constructor
  · intro h i hi
    have hi' : i < p.length := List.mem_range.mp hi
    rw [beq_iff_eq]
    apply (hidx i hi').mp
    have : p⟦i⟧ = ((List.range p.length).map fun v => p.idxOf v)⟦i⟧ := by rw [← h]
    rw [this, List.getD_eq_getElem?_getD, List.getElem?_map, List.getElem?_range hi']
    rfl
  · intro h
    apply List.ext_getElem
    · simp
    · intro i h1 h2
      have hi' : i < p.length := h1
      have := (hidx i hi').mpr (by simpa using h i (List.mem_range.mpr hi'))
      rw [List.getD_eq_getElem?_getD, List.getElem?_eq_getElem hi'] at this
      simp only [Option.getD_some] at this
      simp [this]

example : isInvolution [2, 1, 0] = true ∧ isInvolution [3, 0, 2, 4, 1, 5] = false := by decide

/-- one pass of `pop_stack_sort` (deque) is one pass through the pop-stack device, on duplicate-free input -/
theorem popStackSort_eq_device (p : NSeq) (h : p.Nodup) : popStackSort p = Spec.Stat.popStackPass p [] [] :=
  popStackSort_eq_pass p h

/-- **`count_pop_stack_sorts`** is the least number of pop-stack passes after which the permutation is sorted,
    searched up to `len` passes (`none` = still unsorted after `len` passes, where Python would go on; that this
    never happens – Ungar's bound – is not proved here, see `partial`) -/
theorem countPopStackSorts_eq_least (p : NSeq) (h : p.Nodup) :
    countPopStackSorts p = (List.range (p.length + 1)).find? fun k =>
      Spec.Stat.iterPass (fun l => Spec.Stat.popStackPass l [] []) k p == List.range p.length := by
  unfold countPopStackSorts
  rw [countPopStackSortsGo_eq _ _ _ h]
  cases (List.range (p.length + 1)).find? _ <;> simp

/-- when the loop stops, the statistic "Number of pop-stack-sorts needed" is what the name promises -/
theorem countPopStackSorts_eq_spec (p : NSeq) (h : p.Nodup) (k : Nat) (hk : countPopStackSorts p = some k) :
    Spec.Stat.popStackSortsNeeded p = k := by
  unfold Spec.Stat.popStackSortsNeeded Spec.Stat.passesNeeded
  rw [← countPopStackSorts_eq_least p h, hk]; rfl

example : countPopStackSorts [4, 0, 2, 1, 3, 5] = some 4 := by decide

/-! ## the named statistics, through the generated table -/

/-- the names whose statistic is PROVED equal to its definition for every permutation
    (the other names of the table are tied to their definition by the correspondence check only) -/
def provedNames : List String :=
  ["Major index", "Number of descents", "Number of ascents", "Number of peaks", "Number of valleys",
   "Number of left-to-right minimas", "Number of left-to-right maximas", "Number of right-to-left minimas",
   "Number of right-to-left maximas", "Number of fixed points", "Depth", "Number of primes in the column sums",
   "Number of pinnacles", "Number of cyclic peaks", "Number of cyclic valleys", "Number of double excedance",
   "Number of double drops", "Number of foremaxima", "Number of afterminima", "Number of aftermaxima",
   "Number of foreminima", "Holeyness of a permutation", "Number of inversions", "Number of non-inversions",
   "Number of stack-sorts needed", "Number of cycles", "Order", "Number of bounces"]

/-- **model = spec for the named statistics**: for every name in `provedNames`, the canonical method's model
    returns, on every permutation, the value the name's definition gives -/
theorem named_statistic_eq_spec (name func : String) (hn : name ∈ provedNames)
    (hb : Spec.Stat.canonicalFunc name = some func) (σ : NSeq) (hσ : IsPerm σ) :
    ∃ f g, byFunc func = some f ∧ Spec.Stat.byName name = some g ∧ f σ = g σ := by
  have hlt : ∀ x ∈ σ, x < σ.length := hσ.2
  simp only [provedNames, List.mem_cons, List.not_mem_nil, or_false] at hn
  rcases hn with rfl | rfl | rfl | rfl | rfl | rfl | rfl | rfl | rfl | rfl | rfl | rfl | rfl | rfl | rfl | rfl |
    rfl | rfl | rfl | rfl | rfl | rfl | rfl | rfl | rfl | rfl | rfl | rfl
  all_goals
    obtain rfl := Option.some.inj hb
    refine ⟨_, _, rfl, rfl, ?_⟩
  · simp only [majorIndex_eq_spec]
  · simp only [(count_eq_length_listing σ).2.1, descents_eq_spec]
  · simp only [(count_eq_length_listing σ).2.2.1, ascents_eq_spec]
  · simp only [(count_eq_length_listing σ).2.2.2.1, peaks_eq_spec]
  · simp only [countValleys, count1_eq_length, valleys_eq_spec]
  · simp only [countLtrmin, count1_eq_length, ltrmin_eq_spec σ hlt]
  · simp only [countLtrmax, count1_eq_length, ltrmax_eq_spec]
  · simp only [(count_eq_length_listing σ).2.2.2.2.2.2.2.2.1, rtlmin_eq_spec σ hlt]
  · simp only [(count_eq_length_listing σ).2.2.2.2.2.2.2.2.2.1, rtlmax_eq_spec]
  · simp only [countFixedPoints, count1_eq_length, fixedPoints_eq_spec]
  · simp only [depth_eq_spec]
  · simp only [countColumnSumPrimes_eq_spec]
  · simp only [(count_eq_length_listing σ).2.2.2.2.1, pinnacles_eq_spec]
  · simp only [countCyclicPeaks, count1_eq_length, cyclicPeaks_eq_spec]
  · simp only [countCyclicValleys, count1_eq_length, cyclicValleys_eq_spec]
  · simp only [countDoubleExcedance, count1_eq_length, doubleExcedance_eq_spec]
  · simp only [countDoubleDrops, count1_eq_length, doubleDrops_eq_spec]
  · simp only [countForemaxima, foremaxima_eq_spec]
  · simp only [countAfterminima, afterminima_eq_spec σ hlt]
  · simp only [countAftermaxima, aftermaxima_eq_spec]
  · simp only [countForeminima, foreminima_eq_spec σ hlt]
  · exact holeyness_eq_spec σ hσ
  · simp only [countInversions_eq_spec σ hlt]
  · exact countNonInversions_eq_spec σ hσ
  · simp only [countStackSorts_eq_spec σ hσ]; rfl
  · simp only [countCycles_eq_spec σ hσ]; rfl
  · simp only [order_eq_spec σ hσ]; rfl
  · simp only [countBounces_eq_spec σ hσ]; rfl

/-- lifted to the GENERATED table: an entry whose name is in `provedNames` evaluates, on every permutation, to the
    value its name promises – whatever function the source binds, as long as `stat_table_bound_correctly` holds -/
theorem table_entry_value_eq_spec (e : Entry) (he : e ∈ Generated.statTable) (hp : e.1 ∈ provedNames)
    (σ : NSeq) (hσ : IsPerm σ) : ∃ g, Spec.Stat.byName e.1 = some g ∧ runEntry e σ = g σ := by
  have hall := stat_table_bound_correctly
  rw [List.all_eq_true] at hall
  have hb := hall e he
  have hnot : knownMisbound.contains e = false := by
    have : ∀ m ∈ knownMisbound, m.1 ∉ provedNames := by decide
    cases hc : knownMisbound.contains e with
    | false => rfl
    | true =>
      rw [List.contains_iff_mem] at hc
      exact absurd hp (this e hc)
  rw [hnot, Bool.or_false] at hb
  simp only [bindingOK, beq_iff_eq] at hb
  obtain ⟨f, g, hf, hg, hfg⟩ := named_statistic_eq_spec e.1 e.2 hp hb σ hσ
  refine ⟨g, hg, ?_⟩
  simp only [runEntry, hf]; exact hfg

example : "Number of peaks" ∈ provedNames ∧ IsPerm [5, 3, 4, 0, 2, 1] ∧
    runEntry ("Number of peaks", "count_peaks") [5, 3, 4, 0, 2, 1] = 2 := by decide

/-- the definitions of the proved named statistics are non-negative -/
theorem proved_spec_nonneg (name : String) (hn : name ∈ provedNames) (g : NSeq → Int)
    (hg : Spec.Stat.byName name = some g) (σ : NSeq) : 0 ≤ g σ := by
  simp only [provedNames, List.mem_cons, List.not_mem_nil, or_false] at hn
  rcases hn with rfl | rfl | rfl | rfl | rfl | rfl | rfl | rfl | rfl | rfl | rfl | rfl | rfl | rfl | rfl | rfl |
    rfl | rfl | rfl | rfl | rfl | rfl | rfl | rfl | rfl | rfl | rfl | rfl
  all_goals
    obtain rfl := Option.some.inj hg
    first
      | exact Int.natCast_nonneg _
      | exact specHoleyness_nonneg σ

/-- **statistic distributions over a class sum to the size of the class**: for every entry of the GENERATED table
    whose name is in `provedNames`, every basis (or all permutations) and every length -/
theorem table_distribution_sums (e : Entry) (he : e ∈ Generated.statTable) (hp : e.1 ∈ provedNames)
    (n : Nat) (basis : Option (List NSeq)) :
    (distributionForLength e n basis).sum = (classOfLength basis n).length := by
  apply distributionForLength_sum
  intro σ hσ
  obtain ⟨g, hg, hval⟩ := table_entry_value_eq_spec e he hp σ (isPerm_of_mem_class hσ)
  rw [hval]
  exact proved_spec_nonneg e.1 hp g hg σ

example : (distributionForLength ("Number of inversions", "count_inversions") 4 (some [[0, 1, 2]])).sum = 14 := by
  decide +kernel

/-! ## pattern counts: `threepats` / `fourpats` -/

/-- among the standardised `k`-subsequences of a permutation `p` (`Perm.to_standard` of every
    `itertools.combinations(self, k)`), the pattern `q` of length `k` appears exactly
    `Model.countOcc q p` times: the number of occurrences of `q` in `p` (`C01`: the index `k`-subsets whose
    entries are order-isomorphic to `q`, each listed once) -/
theorem kpats_count (p q : NSeq) (hp : IsPerm p) (hq : IsPerm q) :
    ((Spec.subLen q.length p).map Model.standardize).count q = Model.countOcc q p := by
  rw [C11L.count_standardize_subLen hp.1 hq, Model.countOcc, C01.occurrencesIn_eq_spec q p hq hp]

/-- **`threepats` / `fourpats` (`kpats 3`, `kpats 4`)**: the `Counter` holds exactly the pairs
    (pattern `q` of length `k`, number of occurrences of `q` in `p`) with a positive count – a pattern that
    does not occur is absent (and reads as `0` in a `Counter`) -/
theorem kpats_spec (k : Nat) (p : NSeq) (hp : IsPerm p) (q : NSeq) (c : Nat) :
    (q, c) ∈ kpats k p ↔ IsPerm q ∧ q.length = k ∧ c = Model.countOcc q p ∧ 0 < c := by
  unfold kpats
  rw [List.mem_filterMap]
  constructor
  · rintro ⟨q', hq', h⟩
    obtain ⟨hq1, hq2⟩ := (C09.mem_permsLex k q').mp hq'
    split at h
    · rename_i hpos
      simp only [Option.some.injEq, Prod.mk.injEq] at h
      obtain ⟨rfl, rfl⟩ := h
      subst hq2
      exact ⟨hq1, rfl, kpats_count p q' hp hq1, hpos⟩
    · cases h
  · rintro ⟨hq, rfl, rfl, hpos⟩
    refine ⟨q, (C09.mem_permsLex _ q).mpr ⟨hq, rfl⟩, ?_⟩
    rw [kpats_count p q hp hq, if_pos hpos]

/-- the keys are listed once each, in the `(length, lexicographic)` order of `Perm.of_length(k)`
    (the driver prints the `Counter` sorted by key): they are the patterns with a positive count -/
theorem kpats_keys (k : Nat) (p : NSeq) :
    (kpats k p).map (·.1) =
      (Model.permsLex k).filter fun q => decide (((Spec.subLen k p).map Model.standardize).count q > 0) := by
  unfold kpats
  generalize Model.permsLex k = L
  induction L with
  | nil => rfl
  | cons q t ih =>
    simp only [List.filterMap_cons, List.filter_cons]
    by_cases h : ((Spec.subLen k p).map Model.standardize).count q > 0
    · simp only [h, if_true, decide_true, List.map_cons, ih]
    · simp only [h, if_false, decide_false, ih]; rfl

/-- in the property's wording: the count reported for `q` is the number of index tuples `c` with
    `IsOcc q p c` (strictly increasing positions of `p` whose entries are order-isomorphic to `q`) -/
theorem kpats_counts_occurrences (p q : NSeq) (hp : IsPerm p) (hq : IsPerm q) :
    ∃ occ : List (List Nat), occ.Nodup ∧ (∀ c, c ∈ occ ↔ IsOcc q p c) ∧ Model.countOcc q p = occ.length :=
  ⟨Model.occurrencesIn q p, C01.occurrencesIn_nodup q p hq hp, C01.mem_occurrencesIn_iff q p hq hp, rfl⟩

/-- the docstring examples of `threepats` and `fourpats` -/
example : kpats 3 [2, 1, 0, 3] = [([1, 0, 2], 3), ([2, 1, 0], 1)] ∧
    ([0, 2, 3, 1], 2) ∈ kpats 4 [1, 0, 3, 5, 2, 4] ∧ IsPerm [1, 0, 3, 5, 2, 4] := by decide +kernel

/-! ## `min_gapsize` -/

/-- `min()` of an empty generator: fewer than two entries give `ValueError` -/
theorem minGapsize_error (p : NSeq) (h : p.length < 2) : minGapsize p = .error .valueError := by
  unfold minGapsize
  rw [(C11L.pairsLt_eq_nil_iff _).mpr h]
  rfl

/-- **`min_gapsize`**: for at least two entries the result is the minimum, over all pairs of positions
    `i < j`, of the taxicab distance `|i - j| + |p[i] - p[j]|`: it is attained and it is a lower bound -/
theorem minGapsize_spec (p : NSeq) (h : 2 ≤ p.length) :
    ∃ g, minGapsize p = .ok g ∧
      (∃ i j, i < j ∧ j < p.length ∧ g = Spec.Stat.taxicab p i j) ∧
      ∀ i j, i < j → j < p.length → g ≤ Spec.Stat.taxicab p i j := by
  have hf : ∀ x : Nat × Nat, absDiff x.1 x.2 + absDiff (p.getD x.1 0) (p.getD x.2 0) =
      Spec.Stat.taxicab p x.1 x.2 := by
    intro x; simp only [Spec.Stat.taxicab, C11L.absDiff_eq_natAbs]
  have hmem : ∀ r, r ∈ (pairsLt p.length).map (fun x => absDiff x.1 x.2 + absDiff (p.getD x.1 0) (p.getD x.2 0)) ↔
      ∃ i j, i < j ∧ j < p.length ∧ r = Spec.Stat.taxicab p i j := by
    intro r
    simp only [List.mem_map, hf]
    constructor
    · rintro ⟨x, hx, rfl⟩
      exact ⟨x.1, x.2, ((C11L.mem_pairsLt _ x).mp hx).1, ((C11L.mem_pairsLt _ x).mp hx).2, rfl⟩
    · rintro ⟨i, j, hij, hj, rfl⟩
      exact ⟨(i, j), (C11L.mem_pairsLt _ (i, j)).mpr ⟨hij, hj⟩, rfl⟩
  unfold minGapsize
  generalize hL : (pairsLt p.length).map
    (fun x => absDiff x.1 x.2 + absDiff (p.getD x.1 0) (p.getD x.2 0)) = L at hmem
  cases L with
  | nil =>
    exfalso
    have : pairsLt p.length = [] := by simpa using hL
    have := (C11L.pairsLt_eq_nil_iff _).mp this
    omega
  | cons g t =>
    obtain ⟨h1, h2⟩ := C11L.foldl_min_spec t g
    refine ⟨t.foldl min g, rfl, (hmem _).mp h1, ?_⟩
    intro i j hij hj
    exact h2 _ ((hmem _).mpr ⟨i, j, hij, hj, rfl⟩)

/-- the docstring example, and the two error cases -/
example : minGapsize [2, 0, 3, 1] = .ok 3 ∧ minGapsize [0] = .error .valueError ∧
    minGapsize [] = .error .valueError := by decide

/-! ## joint equidistribution -/

/-- `Counter(a) == Counter(b)`: the same tuples with the same multiplicities -/
theorem counterEq_iff (a b : List (List Int)) : counterEq a b = true ↔ a.Perm b := C11L.counterEq_iff_perm a b

/-- `itertools.combinations(_STATISTICS, dim)`: the sub-tuples of the table of length `dim` (table order) -/
theorem mem_combosOf_table (table : List Entry) (dim : Nat) (stats : List Entry) :
    stats ∈ combosOf dim table ↔ stats.Sublist table ∧ stats.length = dim := C11L.mem_combosOf dim table stats

/-- **`jointly_equally_distributed`** reports exactly the name tuples of the `dim`-combinations `stats` of
    the table for which, for every length `i ≤ n`, the tuples `(stat(p))_{stat ∈ stats}` taken over
    `Av(b1)` of length `i` and over `Av(b2)` of length `i` form the same multiset -/
theorem mem_jointlyEquallyDistributed (table : List Entry) (b1 b2 : List NSeq) (n dim : Nat) (names : List String) :
    names ∈ jointlyEquallyDistributed table b1 b2 n dim ↔
      ∃ stats : List Entry, stats.Sublist table ∧ stats.length = dim ∧ names = stats.map (·.1) ∧
        ∀ i, i ≤ n → (jointValues stats b1 i).Perm (jointValues stats b2 i) := by
  simp only [jointlyEquallyDistributed, List.mem_map, List.mem_filter, List.all_eq_true, List.mem_range,
    counterEq_iff, C11L.mem_combosOf]
  constructor
  · rintro ⟨stats, ⟨⟨hs, hl⟩, hp⟩, rfl⟩
    exact ⟨stats, hs, hl, rfl, fun i hi => hp i (by omega)⟩
  · rintro ⟨stats, hs, hl, rfl, hp⟩
    exact ⟨stats, ⟨⟨hs, hl⟩, fun i hi => hp i (by omega)⟩, rfl⟩

/-- the multiset compared: one value tuple per member of the class (`mem_classOfLength`: the permutations
    of length `i` avoiding the basis) -/
theorem jointValues_eq (stats : List Entry) (b : List NSeq) (i : Nat) :
    jointValues stats b i = (classOfLength (some b) i).map fun p => stats.map fun e => runEntry e p := rfl

/-- **`jointly_transformed_equally_distributed`** reports exactly the pairs of name tuples of two
    `dim`-arrangements `s₁`, `s₂` of the table, `s₁` enumerated before `s₂` by `itertools.permutations`
    (`combinations(…, 2)`), for which for every length `i ≤ n` the tuples of `s₁` over `Av(b1)` and the
    tuples of `s₂` over `Av(b2)` form the same multiset -/
theorem mem_jointlyTransformedEquallyDistributed (table : List Entry) (b1 b2 : List NSeq) (n dim : Nat)
    (r : List String × List String) :
    r ∈ jointlyTransformedEquallyDistributed table b1 b2 n dim ↔
      ∃ s₁ s₂ : List Entry, [s₁, s₂].Sublist (arrangementsOf dim table) ∧
        r = (s₁.map (·.1), s₂.map (·.1)) ∧
        ∀ i, i ≤ n → (jointValues s₁ b1 i).Perm (jointValues s₂ b2 i) := by
  simp only [jointlyTransformedEquallyDistributed, List.mem_map, List.mem_filter, List.all_eq_true,
    List.mem_range, counterEq_iff, C11L.mem_combosOf_two]
  constructor
  · rintro ⟨pr, ⟨⟨s₁, s₂, rfl, hs⟩, hp⟩, rfl⟩
    exact ⟨s₁, s₂, hs, rfl, fun i hi => hp i (by omega)⟩
  · rintro ⟨s₁, s₂, hs, rfl, hp⟩
    exact ⟨[s₁, s₂], ⟨⟨s₁, s₂, rfl, hs⟩, fun i hi => hp i (by omega)⟩, rfl⟩

/-- `itertools.permutations(_STATISTICS, dim)` over a table without repeated entries: exactly the
    repetition-free `dim`-tuples of table entries -/
theorem mem_arrangementsOf_table (table : List Entry) (ht : table.Nodup) (dim : Nat) (s : List Entry) :
    s ∈ arrangementsOf dim table ↔ s.Nodup ∧ s.length = dim ∧ ∀ e ∈ s, e ∈ table :=
  C11L.mem_arrangementsOf dim table ht s

/-- the table of the source has no repeated entry -/
theorem statTable_nodup : Generated.statTable.Nodup := by decide

/-- non-vacuity: on a two-entry table, `Av(01)` vs `Av(10)` up to length 3 – inversions and non-inversions
    are not jointly equidistributed, but the pair (inv, non-inv) over `Av(01)` is equidistributed with the
    pair (non-inv, inv) over `Av(10)` -/
example :
    jointlyEquallyDistributed [("inv", "count_inversions"), ("ninv", "count_non_inversions")] [[0, 1]] [[1, 0]] 3 2 = [] ∧
    jointlyEquallyDistributed [("des", "count_descents"), ("asc", "count_ascents")] [[0, 1, 2]] [[0, 1, 2]] 3 2
      = [["des", "asc"]] ∧
    (["inv", "ninv"], ["ninv", "inv"]) ∈
      jointlyTransformedEquallyDistributed [("inv", "count_inversions"), ("ninv", "count_non_inversions")]
        [[0, 1]] [[1, 0]] 3 2 := by decide +kernel

end C11
