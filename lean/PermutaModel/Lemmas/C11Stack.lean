import PermutaModel.Lemmas.C11Misc
import PermutaModel.Lemmas.C11Runs
/-! Helper lemmas for C11: `_stack_sort` (recursive split at the maximum) against the stack device, and the
    termination of `count_stack_sorts` (each pass fixes one more of the largest entries). -/
open Model.Stat

namespace C11L
local notation:max σ "⟦" i "⟧" => List.getD σ i 0

/-- the stack device without the final flush: (stack, output) after reading the input -/
def stackRun : List Nat → List Nat → List Nat → List Nat × List Nat
  | [], st, out => (st, out)
  | x :: t, st, out => stackRun t (x :: st.dropWhile (· < x)) (out ++ st.takeWhile (· < x))

theorem stackPass_eq_run (l : List Nat) : ∀ (st out : List Nat),
    Spec.Stat.stackPass l st out = (stackRun l st out).2 ++ (stackRun l st out).1 := by
  induction l with
  | nil => intro st out; rfl
  | cons x t ih => intro st out; simp only [Spec.Stat.stackPass, stackRun]; exact ih _ _

theorem stackRun_append (a b : List Nat) : ∀ (st out : List Nat),
    stackRun (a ++ b) st out = stackRun b (stackRun a st out).1 (stackRun a st out).2 := by
  induction a with
  | nil => intro st out; rfl
  | cons x t ih => intro st out; simp only [List.cons_append, stackRun]; exact ih _ _

/-- the output only grows by appending -/
theorem stackRun_out (a : List Nat) : ∀ (st out : List Nat),
    stackRun a st out = ((stackRun a st []).1, out ++ (stackRun a st []).2) := by
  induction a with
  | nil => intro st out; simp [stackRun]
  | cons x t ih =>
    intro st out
    simp only [stackRun]
    rw [ih _ (out ++ _), ih _ ([] ++ _)]
    simp

theorem takeWhile_append_of_all_false (p : Nat → Bool) (s st : List Nat) (h : ∀ y ∈ st, p y = false) :
    (s ++ st).takeWhile p = s.takeWhile p := by
  induction s with
  | nil =>
    cases st with
    | nil => rfl
    | cons y u => simp [h y (by simp)]
  | cons a t ih =>
    simp only [List.cons_append, List.takeWhile_cons]
    split
    · rw [ih]
    · rfl

theorem dropWhile_append_of_all_false (p : Nat → Bool) (s st : List Nat) (h : ∀ y ∈ st, p y = false) :
    (s ++ st).dropWhile p = s.dropWhile p ++ st := by
  induction s with
  | nil =>
    cases st with
    | nil => rfl
    | cons y u => simp [h y (by simp)]
  | cons a t ih =>
    simp only [List.cons_append, List.dropWhile_cons]
    split
    · rw [ih]
    · rfl

/-- entries larger than the whole input stay at the bottom of the stack -/
theorem stackRun_bottom (a : List Nat) (st : List Nat) (h : ∀ x ∈ a, ∀ y ∈ st, x < y) : ∀ (s out : List Nat),
    stackRun a (s ++ st) out = ((stackRun a s out).1 ++ st, (stackRun a s out).2) := by
  induction a with
  | nil => intro s out; rfl
  | cons x t ih =>
    intro s out
    have hx : ∀ y ∈ st, (decide (y < x)) = false := by
      intro y hy; have := h x (by simp) y hy; simp; omega
    simp only [stackRun]
    rw [takeWhile_append_of_all_false _ s st hx, dropWhile_append_of_all_false _ s st hx]
    have := ih (fun x' hx' y hy => h x' (by simp [hx']) y hy) (x :: s.dropWhile (· < x)) (out ++ s.takeWhile (· < x))
    simpa using this

theorem stackRun_stack_subset (a : List Nat) : ∀ (st out : List Nat), ∀ z ∈ (stackRun a st out).1, z ∈ a ∨ z ∈ st := by
  induction a with
  | nil => intro st out z hz; exact Or.inr hz
  | cons x t ih =>
    intro st out z hz
    simp only [stackRun] at hz
    rcases ih _ _ z hz with h | h
    · exact Or.inl (by simp [h])
    · rcases List.mem_cons.mp h with rfl | h
      · exact Or.inl (by simp)
      · exact Or.inr ((List.dropWhile_sublist _).subset h)

theorem takeWhile_eq_self_of_all (p : Nat → Bool) (l : List Nat) (h : ∀ z ∈ l, p z = true) : l.takeWhile p = l := by
  induction l with
  | nil => rfl
  | cons a t ih =>
    rw [List.takeWhile_cons, h a (by simp), if_pos rfl, ih (fun z hz => h z (by simp [hz]))]

theorem dropWhile_eq_nil_of_all (p : Nat → Bool) (l : List Nat) (h : ∀ z ∈ l, p z = true) : l.dropWhile p = [] := by
  induction l with
  | nil => rfl
  | cons a t ih =>
    rw [List.dropWhile_cons, h a (by simp), if_pos rfl, ih (fun z hz => h z (by simp [hz]))]

/-- the device on `L ++ mx :: R` with `mx` above everything else: `S(L) ++ S(R) ++ [mx]` -/
theorem stackPass_split (L R : List Nat) (mx : Nat) (hL : ∀ x ∈ L, x < mx) (hR : ∀ x ∈ R, x < mx) :
    Spec.Stat.stackPass (L ++ mx :: R) [] [] =
      Spec.Stat.stackPass L [] [] ++ Spec.Stat.stackPass R [] [] ++ [mx] := by
  rw [stackPass_eq_run, stackPass_eq_run, stackPass_eq_run, stackRun_append]
  simp only [stackRun]
  have hst : ∀ z ∈ (stackRun L [] []).1, z < mx := by
    intro z hz
    rcases stackRun_stack_subset L [] [] z hz with h | h
    · exact hL z h
    · simp at h
  have htake : (stackRun L [] []).1.takeWhile (· < mx) = (stackRun L [] []).1 := by
    apply takeWhile_eq_self_of_all; intro z hz; simpa using hst z hz
  have hdrop : (stackRun L [] []).1.dropWhile (· < mx) = [] := by
    apply dropWhile_eq_nil_of_all; intro z hz; simpa using hst z hz
  rw [htake, hdrop]
  have hb := stackRun_bottom R [mx] (fun x hx y hy => by
    simp only [List.mem_singleton] at hy; subst hy; exact hR x hx) [] ((stackRun L [] []).2 ++ (stackRun L [] []).1)
  simp only [List.nil_append] at hb
  rw [hb, stackRun_out R [] ((stackRun L [] []).2 ++ (stackRun L [] []).1)]
  simp

theorem argmaxGo_spec (t : List Nat) : ∀ (bi bv i : Nat),
    bv ≤ (argmaxGo bi bv i t).2 ∧ (∀ x ∈ t, x ≤ (argmaxGo bi bv i t).2) ∧
    (((argmaxGo bi bv i t).1 = bi ∧ (argmaxGo bi bv i t).2 = bv) ∨
      ∃ j, j < t.length ∧ (argmaxGo bi bv i t).1 = i + j ∧ t⟦j⟧ = (argmaxGo bi bv i t).2) := by
  induction t with
  | nil => intro bi bv i; simp [argmaxGo]
  | cons v t ih =>
    intro bi bv i
    unfold argmaxGo
    split
    · rename_i hv
      obtain ⟨h1, h2, h3⟩ := ih i v (i + 1)
      refine ⟨by omega, ?_, ?_⟩
      · intro x hx
        rcases List.mem_cons.mp hx with rfl | hx
        · exact h1
        · exact h2 x hx
      · right
        rcases h3 with ⟨e1, e2⟩ | ⟨j, hj, e1, e2⟩
        · exact ⟨0, by simp, by omega, by simpa using e2.symm⟩
        · exact ⟨j + 1, by simp; omega, by omega, by simpa using e2⟩
    · rename_i hv
      obtain ⟨h1, h2, h3⟩ := ih bi bv (i + 1)
      refine ⟨h1, ?_, ?_⟩
      · intro x hx
        rcases List.mem_cons.mp hx with rfl | hx
        · omega
        · exact h2 x hx
      · rcases h3 with h3 | ⟨j, hj, e1, e2⟩
        · exact Or.inl h3
        · exact Or.inr ⟨j + 1, by simp; omega, by omega, by simpa using e2⟩

theorem argmax_spec (l : List Nat) (hl : l ≠ []) :
    (argmax l).1 < l.length ∧ l⟦(argmax l).1⟧ = (argmax l).2 ∧ ∀ x ∈ l, x ≤ (argmax l).2 := by
  cases l with
  | nil => exact absurd rfl hl
  | cons v t =>
    simp only [argmax]
    obtain ⟨h1, h2, h3⟩ := argmaxGo_spec t 0 v 1
    refine ⟨?_, ?_, ?_⟩
    · rcases h3 with ⟨e1, _⟩ | ⟨j, hj, e1, _⟩
      · simp [e1]
      · simp [e1]; omega
    · rcases h3 with ⟨e1, e2⟩ | ⟨j, hj, e1, e2⟩
      · rw [e1, e2]; rfl
      · rw [e1, ← e2]
        have : 1 + j = j + 1 := by omega
        rw [this]; rfl
    · intro x hx
      rcases List.mem_cons.mp hx with rfl | hx
      · exact h1
      · exact h2 x hx

/-- splitting a duplicate-free list at its maximum -/
theorem split_at_argmax (l : List Nat) (hl : l ≠ []) (hnd : l.Nodup) :
    l = l.take (argmax l).1 ++ (argmax l).2 :: l.drop ((argmax l).1 + 1) ∧
    (∀ x ∈ l.take (argmax l).1, x < (argmax l).2) ∧ (∀ x ∈ l.drop ((argmax l).1 + 1), x < (argmax l).2) := by
  obtain ⟨h1, h2, h3⟩ := argmax_spec l hl
  have hget : l[(argmax l).1] = (argmax l).2 := by
    rw [List.getD_eq_getElem?_getD, List.getElem?_eq_getElem h1] at h2
    simpa using h2
  have hsplit : l = l.take (argmax l).1 ++ (argmax l).2 :: l.drop ((argmax l).1 + 1) := by
    rw [← hget, List.getElem_cons_drop, List.take_append_drop]
  have hnd' := hnd
  rw [hsplit] at hnd'
  have hmid := List.nodup_middle.mp hnd'
  rw [List.nodup_cons] at hmid
  refine ⟨hsplit, ?_, ?_⟩
  · intro x hx
    have hle := h3 x ((List.take_sublist _ _).subset hx)
    have : x ≠ (argmax l).2 := by
      intro e; subst e; exact hmid.1 (by simp [hx])
    omega
  · intro x hx
    have hle := h3 x ((List.drop_sublist _ _).subset hx)
    have : x ≠ (argmax l).2 := by
      intro e; subst e; exact hmid.1 (by simp [hx])
    omega

/-- `_stack_sort` (recursive split at the maximum) is one pass through the stack device -/
theorem stackSort_eq_pass (l : List Nat) (hnd : l.Nodup) : stackSort l = Spec.Stat.stackPass l [] [] := by
  fun_induction stackSort l with
  | case1 l h =>
    rcases h with h | h
    · have : l = [] := List.eq_nil_of_length_eq_zero h
      subst this; rfl
    · match l, h with
      | [x], _ => rfl
  | case2 l h0 hk ih =>
    have hl : l ≠ [] := by intro e; subst e; simp at h0
    obtain ⟨hs, hL, hR⟩ := split_at_argmax l hl hnd
    rw [hk] at hs hL hR
    simp only [List.take_zero, List.nil_append, Nat.zero_add] at hs hR
    rw [ih ((List.drop_sublist _ _).nodup hnd)]
    conv => rhs; rw [hs]
    have := stackPass_split [] (l.drop 1) (argmax l).2 (by simp) hR
    simpa [Spec.Stat.stackPass] using this.symm
  | case3 l h0 hk0 hk ih =>
    have hl : l ≠ [] := by intro e; subst e; simp at h0
    obtain ⟨hs, hL, hR⟩ := split_at_argmax l hl hnd
    rw [hk] at hs hL hR
    have hdrop : l.drop (l.length - 1 + 1) = [] := by
      apply List.drop_eq_nil_of_le; omega
    rw [hdrop] at hs
    rw [ih ((List.take_sublist _ _).nodup hnd)]
    conv => rhs; rw [hs]
    have := stackPass_split (l.take (l.length - 1)) [] (argmax l).2 hL (by simp)
    rw [this]; simp [Spec.Stat.stackPass]
  | case4 l h0 hk0 hk1 ih1 ih2 =>
    have hl : l ≠ [] := by intro e; subst e; simp at h0
    obtain ⟨hs, hL, hR⟩ := split_at_argmax l hl hnd
    rw [ih1 ((List.take_sublist _ _).nodup hnd), ih2 ((List.drop_sublist _ _).nodup hnd)]
    conv => rhs; rw [hs]
    exact (stackPass_split _ _ _ hL hR).symm

theorem argmax_split (l : List Nat) (hl : l ≠ []) :
    l = l.take (argmax l).1 ++ (argmax l).2 :: l.drop ((argmax l).1 + 1) := by
  obtain ⟨h1, h2, _⟩ := argmax_spec l hl
  have hget : l[(argmax l).1] = (argmax l).2 := by
    rw [List.getD_eq_getElem?_getD, List.getElem?_eq_getElem h1] at h2
    simpa using h2
  rw [← hget, List.getElem_cons_drop, List.take_append_drop]

theorem stackSort_perm (l : List Nat) : List.Perm (stackSort l) l := by
  fun_induction stackSort l with
  | case1 l h => exact List.Perm.refl _
  | case2 l h0 hk ih =>
    have hl : l ≠ [] := by intro e; subst e; simp at h0
    have hs := argmax_split l hl
    rw [hk] at hs
    simp only [List.take_zero, List.nil_append, Nat.zero_add] at hs
    conv => rhs; rw [hs]
    exact (List.perm_append_singleton _ _).trans (List.Perm.cons _ ih)
  | case3 l h0 hk0 hk ih =>
    have hl : l ≠ [] := by intro e; subst e; simp at h0
    have hs := argmax_split l hl
    rw [hk] at hs
    have hdrop : l.drop (l.length - 1 + 1) = [] := by
      apply List.drop_eq_nil_of_le; omega
    rw [hdrop] at hs
    conv => rhs; rw [hs]
    exact List.Perm.append_right _ ih
  | case4 l h0 hk0 hk1 ih1 ih2 =>
    have hl : l ≠ [] := by intro e; subst e; simp at h0
    have hs := argmax_split l hl
    conv => rhs; rw [hs]
    have h1 : List.Perm (stackSort (l.take (argmax l).1) ++ stackSort (l.drop ((argmax l).1 + 1)) ++ [(argmax l).2])
        (l.take (argmax l).1 ++ (l.drop ((argmax l).1 + 1) ++ [(argmax l).2])) := by
      rw [List.append_assoc]
      exact List.Perm.append ih1 (List.Perm.append_right _ ih2)
    exact h1.trans (List.Perm.append_left _ (List.perm_append_singleton _ _))

theorem countStackSortsGo_eq (n : Nat) (f : Nat) : ∀ (cur : NSeq) (num : Nat), cur.Nodup → cur.length = n →
    countStackSortsGo (List.range n) f cur num =
      ((List.range (f + 1)).find? fun k =>
        Spec.Stat.iterPass (fun l => Spec.Stat.stackPass l [] []) k cur == List.range n).map (· + num) := by
  induction f with
  | zero =>
    intro cur num _ _
    unfold countStackSortsGo
    simp only [Nat.zero_add, List.range_one, List.find?_cons, List.find?_nil, Spec.Stat.iterPass]
    by_cases h : (cur == List.range n) = true
    · simp [h, bne]
    · simp [h, bne]
  | succ f ih =>
    intro cur num hnd hlen
    unfold countStackSortsGo
    rw [range_succ_find?]
    simp only [Spec.Stat.iterPass]
    by_cases h : (cur == List.range n) = true
    · simp [h, bne]
    · simp only [Bool.not_eq_true] at h
      simp only [bne, h, Bool.not_false, if_true, Bool.false_eq_true, if_false]
      have hperm := stackSort_perm cur
      rw [ih _ _ (hperm.nodup_iff.mpr hnd) (hperm.length_eq.trans hlen), stackSort_eq_pass cur hnd, Option.map_map]
      congr 1
      funext j; simp only [Function.comp]; omega

abbrev sPass (l : List Nat) : List Nat := Spec.Stat.stackPass l [] []

/-- an increasing block of entries above everything before it passes through the stack unchanged -/
theorem stackPass_append_sorted (A : List Nat) : ∀ (B : List Nat), B.Pairwise (· < ·) → (∀ a ∈ A, ∀ b ∈ B, a < b) →
    sPass (A ++ B) = sPass A ++ B := by
  intro B
  induction B using List.reverseRecOn with
  | nil => intro _ _; simp
  | append_singleton B' mx ih =>
    intro hB hAB
    rw [List.pairwise_append] at hB
    have hmx : ∀ x ∈ A ++ B', x < mx := by
      intro x hx
      rcases List.mem_append.mp hx with hx | hx
      · exact hAB x hx mx (by simp)
      · exact hB.2.2 x hx mx (by simp)
    have := stackPass_split (A ++ B') [] mx hmx (by simp)
    rw [← List.append_assoc]
    show Spec.Stat.stackPass (A ++ B' ++ [mx]) [] [] = _
    have ih' : Spec.Stat.stackPass (A ++ B') [] [] = Spec.Stat.stackPass A [] [] ++ B' :=
      ih hB.1 (fun a ha b hb => hAB a ha b (by simp [hb]))
    rw [this, ih']
    simp [sPass, Spec.Stat.stackPass]

theorem sPass_perm (l : List Nat) (h : l.Nodup) : List.Perm (sPass l) l := by
  rw [show sPass l = stackSort l from (stackSort_eq_pass l h).symm]; exact stackSort_perm l

/-- one pass puts the maximum of a duplicate-free list at the end -/
theorem sPass_last (l : List Nat) (hl : l ≠ []) (hnd : l.Nodup) :
    ∃ X, sPass l = X ++ [(argmax l).2] := by
  obtain ⟨hs, hL, hR⟩ := split_at_argmax l hl hnd
  refine ⟨sPass (l.take (argmax l).1) ++ sPass (l.drop ((argmax l).1 + 1)), ?_⟩
  conv => lhs; rw [hs]
  exact stackPass_split _ _ _ hL hR

/-- the last `k` entries are `n-k, …, n-1` in place -/
def Tail (l : List Nat) (k : Nat) : Prop := k ≤ l.length ∧ l.drop (l.length - k) = List.range' (l.length - k) k

theorem isPerm_of_perm {a b : List Nat} (h : List.Perm a b) (hb : IsPerm b) : IsPerm a :=
  ⟨h.nodup_iff.mpr hb.1, fun x hx => by rw [h.length_eq]; exact hb.2 x (h.subset hx)⟩

theorem tail_step (l : List Nat) (hp : IsPerm l) (k : Nat) (ht : Tail l k) (hk : k < l.length) :
    Tail (sPass l) (k + 1) := by
  obtain ⟨_, hdrop⟩ := ht
  have hlen : (sPass l).length = l.length := (sPass_perm l hp.1).length_eq
  -- split into front and tail
  have hsplit : l = l.take (l.length - k) ++ List.range' (l.length - k) k := by
    rw [← hdrop, List.take_append_drop]
  have hfnd : (l.take (l.length - k)).Nodup := (List.take_sublist _ _).nodup hp.1
  have hflen : (l.take (l.length - k)).length = l.length - k := by simp
  have hfront : ∀ x ∈ l.take (l.length - k), x < l.length - k := by
    intro x hx
    have hxl : x < l.length := hp.2 x ((List.take_sublist _ _).subset hx)
    have hnd := hp.1
    rw [hsplit, List.nodup_append] at hnd
    rcases Nat.lt_or_ge x (l.length - k) with h | h
    · exact h
    · exact absurd rfl (hnd.2.2 x hx x (by rw [List.mem_range']; exact ⟨x - (l.length - k), by omega, by omega⟩))
  have hfperm : IsPerm (l.take (l.length - k)) := ⟨hfnd, fun x hx => by rw [hflen]; exact hfront x hx⟩
  have hfne : l.take (l.length - k) ≠ [] := by
    intro e; rw [e] at hflen; simp at hflen; omega
  -- the maximum of the front is `n-k-1`
  obtain ⟨hm1, hm2, hm3⟩ := argmax_spec _ hfne
  have hmem : l.length - k - 1 ∈ l.take (l.length - k) := by
    apply mem_of_lt_length hfperm; rw [hflen]; omega
  have hmxmem : (argmax (l.take (l.length - k))).2 ∈ l.take (l.length - k) := by
    rw [← hm2]; exact getD_mem_of_lt _ _ hm1
  have hmx : (argmax (l.take (l.length - k))).2 = l.length - k - 1 := by
    have := hm3 _ hmem
    have := hfront _ hmxmem
    omega
  obtain ⟨X, hX⟩ := sPass_last _ hfne hfnd
  have hXlen : X.length = l.length - k - 1 := by
    have := (sPass_perm _ hfnd).length_eq
    rw [hX, hflen] at this; simp at this; omega
  have hpass : sPass l = X ++ [l.length - k - 1] ++ List.range' (l.length - k) k := by
    conv => lhs; rw [hsplit]
    rw [stackPass_append_sorted _ _ List.pairwise_lt_range' (fun a ha b hb => by
      have := hfront a ha; rw [List.mem_range'] at hb; obtain ⟨i, _, rfl⟩ := hb; omega), hX, hmx]
  refine ⟨by omega, ?_⟩
  rw [hlen, hpass]
  have e1 : l.length - (k + 1) = X.length := by omega
  rw [e1, List.append_assoc, List.drop_left]
  have e2 : X.length = l.length - k - 1 := hXlen
  rw [e2]
  have e3 : l.length - k = (l.length - k - 1) + 1 := by omega
  conv => lhs; rw [e3]
  simp [List.range'_succ]

theorem tail_iter (p : NSeq) (hp : IsPerm p) : ∀ k, k ≤ p.length →
    IsPerm (Spec.Stat.iterPass sPass k p) ∧ (Spec.Stat.iterPass sPass k p).length = p.length ∧
    Tail (Spec.Stat.iterPass sPass k p) k := by
  have key : ∀ k (q : NSeq), IsPerm q → q.length = p.length → Tail q 0 → k ≤ p.length →
      ∀ j, j + k ≤ p.length → Tail q j →
      IsPerm (Spec.Stat.iterPass sPass k q) ∧ (Spec.Stat.iterPass sPass k q).length = p.length ∧
        Tail (Spec.Stat.iterPass sPass k q) (j + k) := by
    intro k
    induction k with
    | zero => intro q hq hl _ _ j _ ht; exact ⟨hq, hl, ht⟩
    | succ k ih =>
      intro q hq hl h0 hk j hj ht
      simp only [Spec.Stat.iterPass]
      have hperm := sPass_perm q hq.1
      have hq' : IsPerm (sPass q) := isPerm_of_perm hperm hq
      have hl' : (sPass q).length = p.length := hperm.length_eq.trans hl
      have ht' := tail_step q hq j ht (by omega)
      have := ih (sPass q) hq' hl' ⟨Nat.zero_le _, by simp⟩ (by omega) (j + 1) (by omega) ht'
      have e : j + 1 + k = j + (k + 1) := by omega
      rw [e] at this; exact this
  intro k hk
  have := key k p hp rfl ⟨Nat.zero_le _, by simp⟩ hk 0 (by omega) ⟨Nat.zero_le _, by simp⟩
  simpa using this

/-- **termination of `count_stack_sorts`**: `len` passes through a stack sort every permutation -/
theorem sorted_after_n_passes (p : NSeq) (hp : IsPerm p) :
    Spec.Stat.iterPass sPass p.length p = List.range p.length := by
  obtain ⟨_, hl, ht⟩ := tail_iter p hp p.length (Nat.le_refl _)
  obtain ⟨_, hd⟩ := ht
  rw [hl] at hd
  simp only [Nat.sub_self, List.drop_zero] at hd
  rw [hd, List.range_eq_range']

end C11L
