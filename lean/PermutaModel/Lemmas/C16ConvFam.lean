import PermutaModel.Lemmas.C16Fam
/-!
# C16 converse, part 2 — from "some basis element avoids the table" to "the long family members are excluded"
-/
open Model Model.C16 C04L

namespace C16Conv

theorem mul_inv_self (g : D8) : g.mul g.inv = D8.one := by
  rcases g with ⟨r, c, i⟩
  cases r <;> cases c <;> cases i <;> rfl

/-- if the basis element `x` avoids the image `g·T` of a table whose avoiders are sub-permutations of the
    long members of the family `fam`, then every long member of `g·fam` contains `x` -/
theorem family_contains_basis_element (T : List NSeq) (fam : Nat → NSeq)
    (hclosure : ∀ y, IsPerm y → (∀ p ∈ T, ¬ Contains y p) → ∀ m, y.length ≤ m → Contains (fam m) y)
    (hfam : ∀ m, IsPerm (fam m)) (hT : ∀ p ∈ T, IsPerm p) (g : D8) (x : NSeq) (hx : IsPerm x)
    (hav : ∀ p ∈ T, ¬ Contains x (g.act p)) (m : Nat) (hm : x.length ≤ m) :
    Contains (g.act (fam m)) x := by
  have hy : IsPerm (g.inv.act x) := isPerm_act hx g.inv
  have hgy : g.act (g.inv.act x) = x := by rw [act_mul hx, mul_inv_self, act_one]
  have hyav : ∀ p ∈ T, ¬ Contains (g.inv.act x) p := by
    intro p hp hc
    have := contains_act_of (hT p hp) hy g hc
    rw [hgy] at this
    exact hav p hp this
  have := hclosure _ hy hyav m (by rw [C16Fam.length_act]; exact hm)
  have := contains_act_of hy (hfam m) g this
  rwa [hgy] at this

theorem exists_length_bound (B : List NSeq) : ∃ M, ∀ x ∈ B, x.length ≤ M := by
  induction B with
  | nil => exact ⟨0, by simp⟩
  | cons a B ih =>
    obtain ⟨M, hM⟩ := ih
    refine ⟨max M a.length, ?_⟩
    intro x hx
    rcases List.mem_cons.mp hx with rfl | hx
    · omega
    · have := hM x hx; omega

end C16Conv
