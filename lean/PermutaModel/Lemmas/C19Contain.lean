import PermutaModel.Lemmas.C13Enum
import PermutaModel.Model.C19
import Mathlib.Data.List.Sort

/-! C19 helper lemmas, part 1: containment is reflexive and transitive; `Basis(*perms)` (sort + prune)
    generates the same class as the permutations it was built from; the symmetric images of a
    permutation are permutations. -/
open Model.C13 Model.C19

namespace C19
open C13 (getD_of_lt range_getD strictInc_getD)

theorem contains_refl (σ : NSeq) : Contains σ σ := by
  refine ⟨List.range σ.length, ⟨by simp, List.pairwise_lt_range, fun i hi => by simpa using hi, ?_⟩⟩
  intro a b ha hb
  rw [range_getD ha, range_getD hb]

theorem getD_map_getD (c1 c2 : List Nat) {a : Nat} (ha : a < c2.length) :
    (c2.map fun i => c1.getD i 0).getD a 0 = c1.getD (c2.getD a 0) 0 := by
  rw [getD_of_lt _ (by simpa using ha), getD_of_lt c2 ha]; simp

theorem getD_mem {c : List Nat} {a : Nat} (ha : a < c.length) : c.getD a 0 ∈ c := by
  rw [getD_of_lt c ha]; exact List.getElem_mem _

/-- `ρ ≤ π ≤ σ ⇒ ρ ≤ σ` -/
theorem contains_trans {σ π ρ : NSeq} (h1 : Contains σ π) (h2 : Contains π ρ) : Contains σ ρ := by
  obtain ⟨c1, o1⟩ := h1
  obtain ⟨c2, o2⟩ := h2
  refine ⟨c2.map fun i => c1.getD i 0, ⟨by simpa using o2.len, ?_, ?_, ?_⟩⟩
  · unfold StrictInc
    rw [List.pairwise_map]
    refine List.Pairwise.imp_of_mem ?_ o2.inc
    intro a b _ hb hab
    have hb' := o2.rng b hb
    exact strictInc_getD o1.inc hab (by rw [o1.len]; exact hb')
  · intro i hi
    obtain ⟨j, hj, rfl⟩ := List.mem_map.mp hi
    have hj' := o2.rng j hj
    exact o1.rng _ (getD_mem (by rw [o1.len]; exact hj'))
  · intro a b ha hb
    have ha2 : a < c2.length := by rw [o2.len]; exact ha
    have hb2 : b < c2.length := by rw [o2.len]; exact hb
    rw [getD_map_getD c1 c2 ha2, getD_map_getD c1 c2 hb2, o2.iso a b ha hb]
    exact o1.iso _ _ (o2.rng _ (getD_mem ha2)) (o2.rng _ (getD_mem hb2))

/-! ### `Basis._pruner` -/

theorem pruneGo_spec : ∀ (l acc : List NSeq), (∀ q ∈ l, IsPerm q) → (∀ q ∈ acc, IsPerm q) →
    (∀ k ∈ pruneGo acc l, k ∈ acc ∨ k ∈ l) ∧ (∀ a ∈ acc, a ∈ pruneGo acc l) ∧
    (∀ q ∈ l, ∃ k ∈ pruneGo acc l, Contains q k)
  | [], acc, _, _ => by simp [pruneGo]
  | p :: rest, acc, hl, hacc => by
    have hp : IsPerm p := hl p (List.mem_cons_self ..)
    have hrest : ∀ q ∈ rest, IsPerm q := fun q hq => hl q (List.mem_cons_of_mem _ hq)
    rw [pruneGo]
    by_cases hav : Model.avoidsAll p acc = true
    · rw [if_pos hav]
      have hacc' : ∀ q ∈ acc ++ [p], IsPerm q := by
        intro q hq
        rcases List.mem_append.mp hq with h | h
        · exact hacc q h
        · simp at h; subst h; exact hp
      obtain ⟨i1, i2, i3⟩ := pruneGo_spec rest (acc ++ [p]) hrest hacc'
      refine ⟨?_, ?_, ?_⟩
      · intro k hk
        rcases i1 k hk with h | h
        · rcases List.mem_append.mp h with h | h
          · exact Or.inl h
          · simp at h; subst h; exact Or.inr (List.mem_cons_self ..)
        · exact Or.inr (List.mem_cons_of_mem _ h)
      · intro a ha; exact i2 a (List.mem_append_left _ ha)
      · intro q hq
        rcases List.mem_cons.mp hq with rfl | hq
        · exact ⟨q, i2 q (List.mem_append_right _ (by simp)), contains_refl q⟩
        · exact i3 q hq
    · rw [if_neg hav]
      obtain ⟨i1, i2, i3⟩ := pruneGo_spec rest acc hrest hacc
      refine ⟨?_, i2, ?_⟩
      · intro k hk
        rcases i1 k hk with h | h
        · exact Or.inl h
        · exact Or.inr (List.mem_cons_of_mem _ h)
      · intro q hq
        rcases List.mem_cons.mp hq with rfl | hq
        · have := (C01.avoidsAll_iff q acc hp hacc).not.mp hav
          push Not at this
          obtain ⟨k, hk, hc⟩ := this
          exact ⟨k, i2 k hk, hc⟩
        · exact i3 q hq

/-- for non-empty permutations `Basis(*b)` only holds elements of `b`, and every element of `b`
    contains an element of it -/
theorem basisOf_spec (b : List NSeq) (hb : ∀ q ∈ b, IsPerm q ∧ q ≠ []) :
    (∀ k ∈ basisOf b, k ∈ b) ∧ (∀ q ∈ b, ∃ k ∈ basisOf b, Contains q k) := by
  unfold basisOf
  by_cases he : b.isEmpty = true
  · have : b = [] := by simpa using he
    subst this; simp
  · rw [if_neg he]
    have hne : b ≠ [] := by simpa using he
    have hsne : b.mergeSort (fun a c => Model.permLe a c) ≠ [] := by
      intro h
      have := (List.mergeSort_perm b fun a c => Model.permLe a c).length_eq
      rw [h] at this
      exact hne (List.eq_nil_of_length_eq_zero this.symm)
    have hhead : ((b.mergeSort fun a c => Model.permLe a c).headD []).isEmpty = false := by
      cases hs : b.mergeSort (fun a c => Model.permLe a c) with
      | nil => exact absurd hs hsne
      | cons x t =>
        have hx : x ∈ b := List.mem_mergeSort.mp (by rw [hs]; exact List.mem_cons_self ..)
        have := (hb x hx).2
        simpa using this
    rw [hhead]
    simp only [Bool.false_eq_true, if_false]
    have hperm : ∀ q ∈ b.mergeSort (fun a c => Model.permLe a c), IsPerm q :=
      fun q hq => (hb q (List.mem_mergeSort.mp hq)).1
    obtain ⟨i1, _, i3⟩ := pruneGo_spec _ [] hperm (by simp)
    refine ⟨?_, ?_⟩
    · intro k hk
      rcases i1 k hk with h | h
      · simp at h
      · exact List.mem_mergeSort.mp h
    · intro q hq
      exact i3 q (List.mem_mergeSort.mpr hq)

/-- `Av.from_iterable(b)` succeeds on a non-empty collection of non-empty permutations -/
theorem avBasis_ok (b : List NSeq) (hne : b ≠ []) (hb : ∀ q ∈ b, IsPerm q ∧ q ≠ []) :
    avBasis b = .ok (basisOf b) := by
  obtain ⟨h1, h2⟩ := basisOf_spec b hb
  unfold avBasis avCheck
  obtain ⟨q, hq⟩ := List.exists_mem_of_ne_nil b hne
  obtain ⟨k, hk, _⟩ := h2 q hq
  have hnil : (basisOf b).isEmpty = false := by
    cases hB : basisOf b with
    | nil => rw [hB] at hk; simp at hk
    | cons x t => rfl
  have hne2 : (basisOf b == [[]]) = false := by
    rw [beq_eq_false_iff_ne]
    intro h
    have : ([] : NSeq) ∈ basisOf b := by rw [h]; simp
    exact (hb [] (h1 [] this)).2 rfl
  simp [hnil, hne2]

theorem avBasis_nil : avBasis [] = .error .valueError := by
  simp [avBasis, avCheck, basisOf]

/-- "the needed pattern `p` is not in `Av(b)`" ⇔ `p` contains an element of `b` -/
theorem not_in_class_iff (b : List NSeq) (hb : ∀ q ∈ b, IsPerm q ∧ q ≠ []) (p : NSeq) (hp : IsPerm p) :
    (!Model.avoidsAll p (basisOf b)) = true ↔ ∃ q ∈ b, Contains p q := by
  obtain ⟨h1, h2⟩ := basisOf_spec b hb
  have hperm : ∀ k ∈ basisOf b, IsPerm k := fun k hk => (hb k (h1 k hk)).1
  rw [Bool.not_eq_true', ← Bool.not_eq_true, (C01.avoidsAll_iff p _ hp hperm).not]
  push Not
  constructor
  · rintro ⟨k, hk, hc⟩; exact ⟨k, h1 k hk, hc⟩
  · rintro ⟨q, hq, hc⟩
    obtain ⟨k, hk, hqk⟩ := h2 q hq
    exact ⟨k, hk, contains_trans hc hqk⟩

end C19
