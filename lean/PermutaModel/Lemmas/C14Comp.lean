import PermutaModel.Lemmas.C14Sound
import PermutaModel.Lemmas.C14CompGood
import PermutaModel.Lemmas.C14CompSub
/-! C14: completeness of `pinword_contains` (the other direction of Thm 3.13) and the iff. -/
namespace C14S
open Model.C14 Model.C14.Letter Spec.C14 Proto C14L C14C15

theorem oe_perm_eq {S Q : List Pt} (hO : OE S Q) (hSx : (xs S).Nodup) (hSy : (ys S).Nodup)
    (hQx : (xs Q).Nodup) (hQy : (ys Q).Nodup) : permOfPts S = permOfPts Q := by
  have hl := hO.1
  have hlS : (sortedPins S).length = S.length := (sortedPins_perm S).length_eq
  apply Model.C17.perm_eq_of_iso (permOfPts_isPerm hSy) (permOfPts_isPerm hQy)
    (by rw [permOfPts_length, permOfPts_length, hl])
  intro a b ha hb
  rw [permOfPts_length] at ha hb
  rw [permOfPts_orderIso a b ha hb, permOfPts_orderIso a b (by omega) (by omega)]
  have haS : a < (sortedPins S).length := by omega
  have hbS : b < (sortedPins S).length := by omega
  obtain ⟨haQ, hza⟩ := oe_sorted hO hSx hQx a haS
  obtain ⟨hbQ, hzb⟩ := oe_sorted hO hSx hQx b hbS
  simp only [List.getD_eq_getElem?_getD, List.getElem?_eq_getElem haQ, List.getElem?_eq_getElem hbQ,
    List.getElem?_eq_getElem haS, List.getElem?_eq_getElem hbS, Option.getD_some]
  exact (hO.2 _ hza _ hzb).2

theorem good_first_mono (w : Word) (fs : List Word) (i : Nat) (h : Good w fs i false) :
    Good w fs i true := by
  cases fs with
  | nil => trivial
  | cons f fs =>
    obtain ⟨occ, h1, h2, h3, _, h5⟩ := h
    exact ⟨occ, h1, h2, h3, Or.inl rfl, h5⟩

/-- **completeness of `pinword_contains`**: every pattern of the decoded permutation has a pin
    word that the search finds -/
theorem contains_complete (w : Word) (hw : inLang w = true) (σ π : NSeq)
    (hσ : pinwordToPerm w = .ok σ) (hπ : IsPerm π) (hc : Contains σ π) :
    ∃ u, inLang u = true ∧ u.length = π.length ∧ pinwordToPerm u = .ok π
      ∧ contains w u = .ok true := by
  obtain ⟨W, hW1, hWI, hWR, _⟩ := build_lang w hw
  obtain ⟨newer, rfl, _⟩ := geoRun_suffix w _ _ hWR
  have hσ' : σ = permOfPts newer := by
    simp only [pinwordToPerm, hW1, List.dropLast_concat, Except.ok.injEq] at hσ
    exact hσ.symm
  subst hσ'
  have hnx : (xs newer).Nodup :=
    ((List.sublist_append_left newer [origin]).map Prod.fst).nodup hWI.xnd
  have hny : (ys newer).Nodup :=
    ((List.sublist_append_left newer [origin]).map Prod.snd).nodup hWI.ynd
  obtain ⟨S, hS, hSπ⟩ := sub_of_contains hnx hny hπ hc
  have hch : chainOK (prevAt w 0) w = true := by
    cases w with
    | nil => rfl
    | cons c rest =>
      simp only [inLang, Bool.and_eq_true] at hw
      simp only [chainOK, hw.1, hw.2, Bool.true_or, Bool.and_self]
  have hH : HG (prevAt w 0) [origin] := ⟨fun _ a ha => by simp at ha, fun _ a ha => by simp at ha⟩
  have hI : SelInv true [origin] [origin] := ⟨origin, [], rfl, by simp⟩
  obtain ⟨u, hsel, hrun, hulen⟩ :=
    sel_geo_conv w (prevAt w 0) true [origin] [origin] _ hch hH hI hWR newer S rfl hS
  have hhead := sel_head hsel (fun _ => inLang_head hw)
  have hchain := sel_chain hsel hch (prevAt w 0) (fun _ => Or.inl rfl)
  have hu : inLang u = true := by
    cases u with
    | nil => rfl
    | cons a t =>
      simp only [inLang, hhead a rfl, Bool.true_and]
      exact (chain_letter hchain).2.2
  have hsh := factor_shape u (inLang_alpha u hu) (inLang_head hu)
  have hql : QuadLed (factor u) := fun f hf => by
    obtain ⟨q, ds, rfl, hq, _⟩ := hsh f hf; exact ⟨q, ds, rfl, hq⟩
  have hgood := ((sel_good w hw hsel 0 (by simp) rfl).1 hhead)
  have hcont : contains w u = .ok true :=
    (contains_iff_good w u hw hql).mpr (good_first_mono w _ 0 (by simpa using hgood))
  obtain ⟨U, hU1, hUI, hUR, _⟩ := build_lang u hu
  obtain ⟨Unew, rfl, _⟩ := geoRun_suffix u _ _ hUR
  have hO := oe_dropLast (geoRun_unique u [origin] [origin] _ _ hrun hUR oe_origin
    (Or.inr ⟨inLang_head hu, by simp⟩))
  have hux : (xs Unew).Nodup :=
    ((List.sublist_append_left Unew [origin]).map Prod.fst).nodup hUI.xnd
  have huy : (ys Unew).Nodup :=
    ((List.sublist_append_left Unew [origin]).map Prod.snd).nodup hUI.ynd
  have heq := oe_perm_eq hO ((hS.map _).nodup hnx) ((hS.map _).nodup hny) hux huy
  refine ⟨u, hu, ?_, ?_, hcont⟩
  · rw [hulen, ← hSπ, permOfPts_length]
  · simp only [pinwordToPerm, hU1, List.dropLast_concat]
    rw [← heq, hSπ]

end C14S
