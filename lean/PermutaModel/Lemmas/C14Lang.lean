import PermutaModel.Spec.C14
import Mathlib.Data.List.Nodup
/-! C14 helper lemmas: the generator `pinwordsOfLength` enumerates the language `inLang`. -/
namespace C14L
open Model.C14 Model.C14.Letter Spec.C14

/-- the condition under which the generator appends `c` to `w` -/
def okNext (w : Word) (c : Letter) : Bool :=
  c.isQuad
  || (c.isVert && decide (w.length > 0 ∧ w.getLast? ≠ some U ∧ w.getLast? ≠ some D))
  || (c.isHoriz && decide (w.length > 0 ∧ w.getLast? ≠ some R ∧ w.getLast? ≠ some L))

theorem mem_extend (w v : Word) : v ∈ extend w ↔ ∃ c, v = w ++ [c] ∧ okNext w c = true := by
  unfold extend snoc
  constructor
  · intro h
    simp only [List.mem_append, List.mem_cons, List.not_mem_nil, or_false] at h
    rcases h with (h | h) | h
    · split at h
      · rename_i hc
        simp only [List.mem_cons, List.not_mem_nil, or_false] at h
        rcases h with h | h
        · exact ⟨U, h, by simp [okNext, isQuad, isVert, hc]⟩
        · exact ⟨D, h, by simp [okNext, isQuad, isVert, hc]⟩
      · simp at h
    · split at h
      · rename_i hc
        simp only [List.mem_cons, List.not_mem_nil, or_false] at h
        rcases h with h | h
        · exact ⟨L, h, by simp [okNext, isQuad, isVert, isHoriz, hc]⟩
        · exact ⟨R, h, by simp [okNext, isQuad, isVert, isHoriz, hc]⟩
      · simp at h
    · rcases h with h | h | h | h
      · exact ⟨q1, h, by simp [okNext, isQuad]⟩
      · exact ⟨q2, h, by simp [okNext, isQuad]⟩
      · exact ⟨q3, h, by simp [okNext, isQuad]⟩
      · exact ⟨q4, h, by simp [okNext, isQuad]⟩
  · rintro ⟨c, rfl, hc⟩
    cases c <;> simp [okNext, isQuad, isVert, isHoriz] at hc ⊢ <;> simp [hc]

/-- last letter of `p :: rest` -/
def lastOr (p : Letter) (rest : Word) : Letter := rest.getLast?.getD p

theorem lastOr_cons (p d : Letter) (rest : Word) : lastOr p (d :: rest) = lastOr d rest := by
  simp [lastOr, List.getLast?_cons]

theorem getLast?_cons_eq (p : Letter) (rest : Word) : (p :: rest).getLast? = some (lastOr p rest) := by
  simp [lastOr, List.getLast?_cons]

theorem chainOK_snoc (p : Letter) (rest : Word) (c : Letter) :
    chainOK p (rest ++ [c]) =
      (chainOK p rest && (c.isQuad || (c.isDir && !sameAxis (lastOr p rest) c))) := by
  induction rest generalizing p with
  | nil => simp [chainOK, lastOr]
  | cons d rest ih =>
    simp only [List.cons_append, chainOK, ih d, lastOr_cons]
    simp [Bool.and_assoc]

/-- for a letter `l` of the alphabet that ends a word of the language:
    "not same axis as a vertical `c`" is "`l` is neither `U` nor `D`" -/
theorem okNext_eq (p : Letter) (rest : Word) (c : Letter)
    (hl : (lastOr p rest).isQuad ∨ (lastOr p rest).isDir) :
    okNext (p :: rest) c = (c.isQuad || (c.isDir && !sameAxis (lastOr p rest) c)) := by
  unfold okNext
  rw [getLast?_cons_eq]
  generalize lastOr p rest = l at hl
  cases c <;> cases l <;> simp_all [isQuad, isDir, isVert, isHoriz, sameAxis]

theorem chainOK_last (p : Letter) (rest : Word) (hp : p.isQuad ∨ p.isDir) (h : chainOK p rest = true) :
    (lastOr p rest).isQuad ∨ (lastOr p rest).isDir := by
  induction rest generalizing p with
  | nil => simpa [lastOr] using hp
  | cons d rest ih =>
    rw [lastOr_cons]
    simp only [chainOK, Bool.and_eq_true, Bool.or_eq_true] at h
    apply ih d _ h.2
    rcases h.1 with h1 | h1
    · exact Or.inl h1
    · exact Or.inr h1.1

theorem inLang_snoc (w : Word) (c : Letter) :
    inLang (w ++ [c]) = (inLang w && okNext w c) := by
  cases w with
  | nil => cases c <;> simp [inLang, okNext, chainOK, isQuad, isVert, isHoriz]
  | cons p rest =>
    simp only [List.cons_append, inLang, chainOK_snoc]
    by_cases hp : p.isQuad = true
    · by_cases hc : chainOK p rest = true
      · rw [okNext_eq p rest c (chainOK_last p rest (Or.inl hp) hc)]
        simp [hp, hc]
      · simp [hc]
    · simp [hp]

theorem mem_pinwordsOfLength (n : Nat) (w : Word) :
    w ∈ pinwordsOfLength n ↔ inLang w = true ∧ w.length = n := by
  induction n generalizing w with
  | zero =>
    simp only [pinwordsOfLength, List.mem_singleton, List.length_eq_zero_iff]
    constructor
    · rintro rfl; simp [inLang]
    · exact fun h => h.2
  | succ n ih =>
    simp only [pinwordsOfLength, List.mem_flatMap, mem_extend]
    constructor
    · rintro ⟨v, hv, c, rfl, hc⟩
      have := (ih v).mp hv
      refine ⟨by rw [inLang_snoc, this.1, hc]; rfl, by simp [this.2]⟩
    · rintro ⟨hl, hn⟩
      have hne : w ≠ [] := by intro h; simp [h] at hn
      obtain ⟨v, c, rfl⟩ : ∃ v c, w = v ++ [c] :=
        ⟨w.dropLast, w.getLast hne, (List.dropLast_append_getLast hne).symm⟩
      rw [inLang_snoc, Bool.and_eq_true] at hl
      refine ⟨v, (ih v).mpr ⟨hl.1, by simpa using hn⟩, c, rfl, hl.2⟩

theorem extend_nodup (w : Word) : (extend w).Nodup := by
  unfold extend snoc
  split <;> split <;> simp

theorem dropLast_of_mem_extend {w v : Word} (h : v ∈ extend w) : v.dropLast = w := by
  obtain ⟨c, rfl, _⟩ := (mem_extend w v).mp h
  simp

theorem pinwordsOfLength_nodup (n : Nat) : (pinwordsOfLength n).Nodup := by
  induction n with
  | zero => simp [pinwordsOfLength]
  | succ n ih =>
    simp only [pinwordsOfLength]
    rw [List.nodup_flatMap]
    refine ⟨fun w _ => extend_nodup w, ?_⟩
    refine ih.imp ?_
    intro a b hab
    simp only [Function.onFun, List.disjoint_left]
    intro v hva hvb
    exact hab ((dropLast_of_mem_extend hva).symm.trans (dropLast_of_mem_extend hvb))

end C14L
