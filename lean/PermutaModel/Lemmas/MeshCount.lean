import PermutaModel.Spec.C03
import PermutaModel.Lemmas.MeshScan
/-! Counting in strictly increasing lists: the counter `(L.filter (· < t)).length` locates `t`
    between consecutive entries; a gap between entries `j-1` and `j` is non-empty iff some `t`
    outside the list has counter `j`. -/

namespace MeshLemmas

theorem getD_lt_of_lt {L : List Nat} (hL : L.Pairwise (· < ·)) {a b : Nat} (hab : a < b) (hb : b < L.length) :
    L.getD a 0 < L.getD b 0 := by
  rw [getD_eq_getElem L a (by omega), getD_eq_getElem L b hb]
  exact (List.pairwise_iff_getElem.mp hL) a b (by omega) hb hab

theorem getD_le_of_le {L : List Nat} (hL : L.Pairwise (· < ·)) {a b : Nat} (hab : a ≤ b) (hb : b < L.length) :
    L.getD a 0 ≤ L.getD b 0 := by
  rcases Nat.lt_or_eq_of_le hab with h | h
  · exact Nat.le_of_lt (getD_lt_of_lt hL h hb)
  · subst h; exact Nat.le_refl _

theorem getD_mem {L : List Nat} {a : Nat} (ha : a < L.length) : L.getD a 0 ∈ L := by
  rw [getD_eq_getElem L a ha]; exact List.getElem_mem ha

/-- in a strictly increasing list the counter of `t` exceeds `a` iff entry `a` is below `t` -/
theorem lt_countLt_iff : ∀ (L : List Nat), L.Pairwise (· < ·) → ∀ (t a : Nat), a < L.length →
    (a < (L.filter (· < t)).length ↔ L.getD a 0 < t)
  | [], _, _, _, ha => by simp at ha
  | x :: r, hL, t, a, ha => by
    have hx : ∀ y ∈ r, x < y := (List.pairwise_cons.mp hL).1
    have hr := (List.pairwise_cons.mp hL).2
    by_cases hxt : x < t
    · simp only [List.filter_cons, hxt, decide_true, if_true, List.length_cons]
      cases a with
      | zero => simp [hxt]
      | succ a =>
        have := lt_countLt_iff r hr t a (by simpa using ha)
        simp only [List.getD_cons_succ]
        omega
    · have hnil : r.filter (· < t) = [] := by
        rw [List.filter_eq_nil_iff]
        intro y hy; have := hx y hy; simp; omega
      simp only [List.filter_cons, hxt, decide_false, Bool.false_eq_true, if_false, hnil, List.length_nil,
        Nat.not_lt_zero, false_iff]
      cases a with
      | zero => simpa using hxt
      | succ a =>
        simp only [List.getD_cons_succ]
        have : r.getD a 0 ∈ r := getD_mem (by simpa using ha)
        have := hx _ this
        omega

theorem countLt_le (L : List Nat) (t : Nat) : (L.filter (· < t)).length ≤ L.length :=
  List.length_filter_le _ _

/-- the counter of `t` is `j` iff the first `j` entries are below `t` and entry `j` (if any) is not -/
theorem countLt_eq_iff (L : List Nat) (hL : L.Pairwise (· < ·)) (t j : Nat) (hj : j ≤ L.length) :
    (L.filter (· < t)).length = j ↔
      (j = 0 ∨ L.getD (j-1) 0 < t) ∧ (j < L.length → t ≤ L.getD j 0) := by
  have hle := countLt_le L t
  constructor
  · intro h
    refine ⟨?_, fun hjl => ?_⟩
    · by_cases h0 : j = 0
      · exact Or.inl h0
      · right
        exact (lt_countLt_iff L hL t (j-1) (by omega)).mp (by omega)
    · have := (lt_countLt_iff L hL t j hjl)
      omega
  · rintro ⟨h1, h2⟩
    by_contra hne
    rcases Nat.lt_or_gt_of_ne hne with h | h
    · -- counter < j
      have h0 : j ≠ 0 := by omega
      have h1' : L.getD (j-1) 0 < t := by rcases h1 with h1 | h1; exact absurd h1 h0; exact h1
      have hcnt := (lt_countLt_iff L hL t ((L.filter (· < t)).length) (by omega))
      have : L.getD ((L.filter (· < t)).length) 0 ≤ L.getD (j-1) 0 := getD_le_of_le hL (by omega) (by omega)
      omega
    · -- counter > j
      have hjl : j < L.length := by omega
      have := (lt_countLt_iff L hL t j hjl).mp h
      have := h2 hjl
      omega

/-- **gap lemma**: for a strictly increasing list `L` with entries `< n`, some `t < n` outside `L`
    has counter `j` iff entries `j-1` and `j` (virtual entries `-1` and `n` at the ends) are not adjacent -/
theorem gap_iff (L : List Nat) (n : Nat) (hL : L.Pairwise (· < ·)) (hn : ∀ x ∈ L, x < n) (j : Nat)
    (hj : j ≤ L.length) :
    (∃ t, t < n ∧ t ∉ L ∧ (L.filter (· < t)).length = j) ↔ L.getD j n ≠ Spec.prevPos L j := by
  have hupper : j < L.length → L.getD j n = L.getD j 0 := by
    intro h; simp [List.getD_eq_getElem?_getD, List.getElem?_eq_getElem h]
  have hlast : ¬ j < L.length → L.getD j n = n := by
    intro h; simp [List.getD_eq_getElem?_getD, List.getElem?_eq_none (show L.length ≤ j by omega)]
  constructor
  · rintro ⟨t, htn, htL, hcnt⟩
    rw [countLt_eq_iff L hL t j hj] at hcnt
    obtain ⟨h1, h2⟩ := hcnt
    have hlow : Spec.prevPos L j ≤ t := by
      unfold Spec.prevPos
      by_cases h0 : j = 0
      · simp [h0]
      · simp only [h0, if_false]
        rcases h1 with h1 | h1
        · exact absurd h1 h0
        · omega
    have hhigh : t < L.getD j n := by
      by_cases hjl : j < L.length
      · rw [hupper hjl]
        have := h2 hjl
        have hne : t ≠ L.getD j 0 := fun h => htL (h ▸ getD_mem hjl)
        omega
      · rw [hlast hjl]; exact htn
    omega
  · intro hne
    have hle : Spec.prevPos L j ≤ L.getD j n := by
      unfold Spec.prevPos
      by_cases h0 : j = 0
      · simp [h0]
      · simp only [h0, if_false]
        by_cases hjl : j < L.length
        · rw [hupper hjl]
          have := getD_lt_of_lt hL (show j - 1 < j by omega) hjl
          omega
        · rw [hlast hjl]
          have := hn _ (getD_mem (show j - 1 < L.length by omega))
          omega
    have hlt : Spec.prevPos L j < L.getD j n := by omega
    have hgn : L.getD j n ≤ n := by
      by_cases hjl : j < L.length
      · rw [hupper hjl]; exact Nat.le_of_lt (hn _ (getD_mem hjl))
      · rw [hlast hjl]
    have hcnt : (L.filter (· < Spec.prevPos L j)).length = j := by
      rw [countLt_eq_iff L hL _ j hj]
      refine ⟨?_, fun hjl => ?_⟩
      · by_cases h0 : j = 0
        · exact Or.inl h0
        · right; unfold Spec.prevPos; simp only [h0, if_false]; omega
      · rw [hupper hjl] at hlt; omega
    refine ⟨Spec.prevPos L j, by omega, ?_, hcnt⟩
    intro hmem
    obtain ⟨a, ha, hae⟩ := List.getElem_of_mem hmem
    have hae' : L.getD a 0 = Spec.prevPos L j := by rw [getD_eq_getElem L a ha]; exact hae
    by_cases haj : a < j
    · have h0 : j ≠ 0 := by omega
      have := getD_le_of_le hL (show a ≤ j - 1 by omega) (by omega)
      unfold Spec.prevPos at hae'
      simp only [h0, if_false] at hae'
      omega
    · have hjl : j < L.length := by omega
      have := getD_le_of_le hL (show j ≤ a by omega) ha
      rw [hupper hjl] at hlt
      omega

end MeshLemmas
