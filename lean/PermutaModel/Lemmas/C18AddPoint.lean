import PermutaModel.Lemmas.C18Boxes

/-! `add_point`: occurrences of the pattern with the inserted point correspond to occurrences of the
    original pattern together with a point of the permutation in the chosen cell. -/

namespace Spec.C18
open Model Model.C18

/-- `val if val < y else val + 1` -/
def lift (y v : Nat) : Nat := if v < y then v else v + 1
/-- the index in the longer tuple of index `a` of the shorter one -/
def skip (x a : Nat) : Nat := if a < x then a else a + 1

theorem lift_lt_iff (y a b : Nat) : lift y a < lift y b ↔ a < b := by
  unfold lift; split <;> split <;> omega
theorem lift_lt_y (y a : Nat) : lift y a < y ↔ a < y := by unfold lift; split <;> omega
theorem y_lt_lift (y a : Nat) : y < lift y a ↔ ¬ a < y := by unfold lift; split <;> omega
theorem skip_lt_iff (x a b : Nat) : skip x a < skip x b ↔ a < b := by
  unfold skip; split <;> split <;> omega
theorem skip_ne (x a : Nat) : skip x a ≠ x := by unfold skip; split <;> omega
theorem skip_lt_x (x a : Nat) : skip x a < x ↔ a < x := by unfold skip; split <;> omega
theorem x_lt_skip (x a : Nat) : x < skip x a ↔ x ≤ a := by unfold skip; split <;> omega

theorem idx_cases {x n a' : Nat} (hx : x ≤ n) (ha : a' < n + 1) : a' = x ∨ ∃ a, a < n ∧ a' = skip x a := by
  by_cases h : a' = x
  · exact Or.inl h
  · right
    by_cases h1 : a' < x
    · exact ⟨a', by omega, by unfold skip; rw [if_pos h1]⟩
    · exact ⟨a' - 1, by omega, by unfold skip; rw [if_neg (by omega)]; omega⟩

theorem getD_eraseIdx (l : List Nat) (x a : Nat) : (l.eraseIdx x).getD a 0 = l.getD (skip x a) 0 := by
  rw [List.getD_eq_getElem?_getD, List.getD_eq_getElem?_getD, List.getElem?_eraseIdx]
  unfold skip; split <;> rfl

theorem countP_eraseIdx' (l : List Nat) (p : Nat → Bool) {x : Nat} (hx : x < l.length) :
    l.countP p = (l.eraseIdx x).countP p + (if p (l.getD x 0) then 1 else 0) := by
  rw [List.eraseIdx_eq_take_drop_succ, getD_eq_getElem' l hx]
  conv_lhs => rw [← List.take_append_drop x l, List.drop_eq_getElem_cons hx]
  rw [List.countP_append, List.countP_append, List.countP_cons]
  omega

/-- the longer tuple: `q` put at index `x` -/
def ins (c : List Nat) (x q : Nat) : List Nat := c.take x ++ q :: c.drop x

theorem ins_length (c : List Nat) {x : Nat} (hx : x ≤ c.length) (q : Nat) : (ins c x q).length = c.length + 1 := by
  unfold ins; simp; omega

theorem ins_eraseIdx (c : List Nat) {x : Nat} (hx : x ≤ c.length) (q : Nat) : (ins c x q).eraseIdx x = c := by
  unfold ins
  rw [List.eraseIdx_append_of_length_le (by simp)]
  have : x - (List.take x c).length = 0 := by simp; omega
  rw [this]
  simp

theorem ins_getD_x (c : List Nat) {x : Nat} (hx : x ≤ c.length) (q : Nat) : (ins c x q).getD x 0 = q := by
  unfold ins
  rw [List.getD_eq_getElem?_getD, List.getElem?_append_right (by simp)]
  have : x - (List.take x c).length = 0 := by simp; omega
  rw [this]; rfl

theorem ins_getD_skip (c : List Nat) {x : Nat} (hx : x ≤ c.length) (q a : Nat) :
    (ins c x q).getD (skip x a) 0 = c.getD a 0 := by
  rw [← getD_eraseIdx, ins_eraseIdx c hx]

theorem mem_ins {c : List Nat} {x q i : Nat} : i ∈ ins c x q ↔ i = q ∨ i ∈ c := by
  unfold ins
  rw [List.mem_append, List.mem_cons]
  constructor
  · rintro (h | h | h)
    · exact Or.inr (List.mem_of_mem_take h)
    · exact Or.inl h
    · exact Or.inr (List.mem_of_mem_drop h)
  · rintro (h | h)
    · exact Or.inr (Or.inl h)
    · rw [← List.take_append_drop x c, List.mem_append] at h
      rcases h with h | h
      · exact Or.inl h
      · exact Or.inr (Or.inr h)

/-! ### the new permutation -/

theorem insertAt_getD_x (p : NSeq) {x : Nat} (hx : x ≤ p.length) (y : Nat) : (insertAt p x y).getD x 0 = y := by
  rw [insertAt_eq, List.getD_eq_getElem?_getD]
  have h1 : (List.map (fun w => if w < y then w else w + 1) (List.take x p)).length = x := by
    rw [List.length_map, List.length_take]; omega
  rw [List.getElem?_append_right (by omega), h1]
  simp

theorem insertAt_eq_ins_like (p : NSeq) (x y : Nat) :
    insertAt p x y = (p.map (lift y)).take x ++ y :: (p.map (lift y)).drop x := by
  rw [insertAt_eq, List.map_take, List.map_drop]; rfl

theorem insertAt_getD_skip (p : NSeq) {x : Nat} (hx : x ≤ p.length) (y : Nat) {a : Nat} (ha : a < p.length) :
    (insertAt p x y).getD (skip x a) 0 = lift y (p.getD a 0) := by
  rw [insertAt_eq_ins_like]
  have := ins_getD_skip (p.map (lift y)) (x := x) (by simpa using hx) y a
  unfold ins at this
  rw [this, List.getD_eq_getElem?_getD, List.getElem?_map, List.getElem?_eq_getElem ha, getD_eq_getElem' p ha]
  rfl

/-! ### occurrences -/

/-- removing the inserted point from an occurrence of the new pattern -/
theorem occ_erase {π σ : NSeq} {c' : List Nat} {x y : Nat} (hx : x ≤ π.length)
    (hc : IsOcc (insertAt π x y) σ c') : IsOcc π σ (c'.eraseIdx x) := by
  have hlen : c'.length = π.length + 1 := by rw [hc.len, insertAt_length]
  refine ⟨by rw [List.length_eraseIdx, if_pos (by omega)]; omega,
    List.Pairwise.sublist (List.eraseIdx_sublist c' x) hc.inc,
    fun i hi => hc.rng i (List.mem_of_mem_eraseIdx hi), ?_⟩
  intro a b ha hb
  rw [getD_eraseIdx, getD_eraseIdx, ← lift_lt_iff y, ← insertAt_getD_skip π hx y ha,
    ← insertAt_getD_skip π hx y hb]
  apply hc.iso
  · rw [insertAt_length]; unfold skip; split <;> omega
  · rw [insertAt_length]; unfold skip; split <;> omega

/-- adding a point of cell `(x, y)` to an occurrence of the old pattern -/
theorem occ_ins {π σ : NSeq} {c : List Nat} {x y q : Nat} (hπ : IsPerm π) (hσ : σ.Nodup)
    (hc : IsOcc π σ c) (hx : x ≤ π.length) (hq : q < σ.length) (hqc : q ∉ c)
    (hcol : colOf c q = x) (hrow : rowOf σ c q = y) : IsOcc (insertAt π x y) σ (ins c x q) := by
  have hlen := hc.len
  have hxc : x ≤ c.length := by omega
  have hlt : ∀ k, k < c.length → (c.getD k 0 < q ↔ k < x) := by
    intro k hk
    rw [sorted_lt_iff hc.inc hk q]
    show k < colOf c q ↔ _
    rw [hcol]
  have hgt : ∀ k, k < c.length → (q < c.getD k 0 ↔ x ≤ k) := by
    intro k hk
    have h1 := hlt k hk
    have h2 : c.getD k 0 ≠ q := fun h => hqc (h ▸ mem_getD hk)
    omega
  have hvlt : ∀ k, k < c.length → (σ.getD (c.getD k 0) 0 < σ.getD q 0 ↔ π.getD k 0 < y) := by
    intro k hk
    rw [occ_val_lt_iff hπ hc (by omega) (σ.getD q 0)]
    show _ < rowOf σ c q ↔ _
    rw [hrow]
  have hvgt : ∀ k, k < c.length → (σ.getD q 0 < σ.getD (c.getD k 0) 0 ↔ ¬ π.getD k 0 < y) := by
    intro k hk
    have h1 := hvlt k hk
    have hk' := hc.rng _ (mem_getD hk)
    have h2 : σ.getD (c.getD k 0) 0 ≠ σ.getD q 0 := fun h =>
      hqc (nodup_getD_inj hσ hk' hq h ▸ mem_getD hk)
    omega
  refine ⟨by rw [ins_length c hxc, insertAt_length]; omega, ?_, ?_, ?_⟩
  · unfold StrictInc
    rw [List.pairwise_iff_getElem]
    intro a' b' ha' hb' hab
    rw [← getD_eq_getElem' _ ha', ← getD_eq_getElem' _ hb']
    rw [ins_length c hxc] at ha' hb'
    rcases idx_cases hxc ha' with rfl | ⟨a, ha, rfl⟩ <;> rcases idx_cases hxc hb' with rfl | ⟨b, hb, rfl⟩
    · omega
    · rw [ins_getD_x c hxc, ins_getD_skip c hxc, hgt b hb]
      exact (x_lt_skip _ b).mp hab
    · rw [ins_getD_x c hxc, ins_getD_skip c hxc, hlt a ha]
      exact (skip_lt_x _ a).mp hab
    · rw [ins_getD_skip c hxc, ins_getD_skip c hxc]
      exact sorted_getD_lt hc.inc ((skip_lt_iff x a b).mp hab) hb
  · intro i hi
    rcases mem_ins.mp hi with rfl | h
    · exact hq
    · exact hc.rng i h
  · intro a' b' ha' hb'
    rw [insertAt_length] at ha' hb'
    rw [← hlen] at ha' hb'
    rcases idx_cases hxc ha' with rfl | ⟨a, ha, rfl⟩ <;> rcases idx_cases hxc hb' with rfl | ⟨b, hb, rfl⟩
    · simp
    · rw [ins_getD_x c hxc, ins_getD_skip c hxc, insertAt_getD_x π hx, insertAt_getD_skip π hx y (by omega),
        y_lt_lift, hvgt b hb]
    · rw [ins_getD_x c hxc, ins_getD_skip c hxc, insertAt_getD_x π hx, insertAt_getD_skip π hx y (by omega),
        lift_lt_y, hvlt a ha]
    · rw [ins_getD_skip c hxc, ins_getD_skip c hxc, insertAt_getD_skip π hx y (by omega),
        insertAt_getD_skip π hx y (by omega), lift_lt_iff]
      exact hc.iso a b (by omega) (by omega)

/-- cells w.r.t. the longer tuple versus cells w.r.t. the shorter one -/
theorem cell_ins (σ : NSeq) (c' : List Nat) {x : Nat} (hx : x < c'.length) (j : Nat) :
    colOf c' j = colOf (c'.eraseIdx x) j + (if c'.getD x 0 < j then 1 else 0) ∧
    rowOf σ c' j = rowOf σ (c'.eraseIdx x) j + (if σ.getD (c'.getD x 0) 0 < σ.getD j 0 then 1 else 0) := by
  constructor
  · show c'.countP _ = (c'.eraseIdx x).countP _ + _
    rw [countP_eraseIdx' c' _ hx]; simp only [decide_eq_true_eq]
  · show c'.countP _ = (c'.eraseIdx x).countP _ + _
    rw [countP_eraseIdx' c' _ hx]; simp only [decide_eq_true_eq]

theorem collapse_add_col {x col : Nat} {b : Prop} [Decidable b] (h1 : b → x ≤ col) (h2 : ¬ b → col ≤ x) :
    collapse x (col + (if b then 1 else 0)) = col := by
  unfold collapse
  by_cases hb : b
  · have := h1 hb; simp only [hb, if_true]; split <;> omega
  · have := h2 hb; simp only [hb, if_false]; split <;> omega

/-- forward direction: an occurrence of the pattern with the added point gives an occurrence of the
    original pattern with a point in cell `(x, y)` -/
theorem addpoint_forward {π σ : NSeq} {R R' : List Cell} {c' : List Nat} {x y : Nat}
    (hπ : IsPerm π) (hx : x ≤ π.length) (hy : y ≤ π.length) (hxy : (x, y) ∉ R)
    (hR' : ∀ d : Cell, (collapse x d.1, collapse y d.2) ∈ R → d ∈ R')
    (hc : MeshOcc ⟨insertAt π x y, R'⟩ σ c') :
    MeshOcc ⟨π, R⟩ σ (c'.eraseIdx x) ∧ c'.getD x 0 < σ.length ∧ c'.getD x 0 ∉ c'.eraseIdx x ∧
      cellOf σ (c'.eraseIdx x) (c'.getD x 0) = (x, y) := by
  have hocc' : IsOcc (insertAt π x y) σ c' := hc.occ
  have hlen' : c'.length = π.length + 1 := by rw [hocc'.len, insertAt_length]
  have hxl : x < c'.length := by omega
  have hqmem : c'.getD x 0 ∈ c' := mem_getD hxl
  have hq : c'.getD x 0 < σ.length := hocc'.rng _ hqmem
  have hnd : c'.Nodup := hocc'.inc.imp (fun h => Nat.ne_of_lt h)
  have hqc : c'.getD x 0 ∉ c'.eraseIdx x := by
    intro h
    rw [List.mem_eraseIdx_iff_getElem] at h
    obtain ⟨i, hi, hne, heq⟩ := h
    rw [getD_eq_getElem' c' hxl] at heq
    exact hne ((List.Nodup.getElem_inj_iff hnd).mp heq)
  have hcol : colOf (c'.eraseIdx x) (c'.getD x 0) = x := by
    have h1 := (cell_ins σ c' hxl (c'.getD x 0)).1
    have h2 := colOf_occ hocc'.inc hxl
    rw [h2] at h1; simp only [Nat.lt_irrefl, if_false] at h1; omega
  have hrow : rowOf σ (c'.eraseIdx x) (c'.getD x 0) = y := by
    have h1 := (cell_ins σ c' hxl (c'.getD x 0)).2
    have h2 := rowOf_occ (insertAt_isPerm hπ hy) hocc' (k := x) (by rw [insertAt_length]; omega)
    rw [insertAt_getD_x π hx] at h2
    rw [h2] at h1; simp only [Nat.lt_irrefl, if_false] at h1; omega
  refine ⟨⟨occ_erase hx hocc', ?_⟩, hq, hqc, by rw [cellOf_eq, hcol, hrow]⟩
  intro j hj hjc hm
  by_cases hjq : j = c'.getD x 0
  · rw [hjq, cellOf_eq, hcol, hrow] at hm; exact hxy hm
  · have hjc' : j ∉ c' := by
      intro h
      obtain ⟨i, hi, heq⟩ := List.getElem_of_mem h
      by_cases hix : i = x
      · apply hjq; rw [← heq, getD_eq_getElem' c' hxl]; simp [hix]
      · apply hjc; rw [List.mem_eraseIdx_iff_getElem]; exact ⟨i, hi, hix, heq⟩
    apply hc.free j hj hjc'
    apply hR'
    obtain ⟨e1, e2⟩ := cell_ins σ c' hxl j
    rw [cellOf_eq] at hm ⊢
    simp only
    rw [e1, e2]
    have m1 : c'.getD x 0 < j → x ≤ colOf (c'.eraseIdx x) j := fun h => by
      have := colOf_mono (c'.eraseIdx x) (Nat.le_of_lt h); rw [hcol] at this; exact this
    have m2 : ¬ c'.getD x 0 < j → colOf (c'.eraseIdx x) j ≤ x := fun h => by
      have := colOf_mono (c'.eraseIdx x) (Nat.le_of_not_lt h); rw [hcol] at this; exact this
    have m3 : σ.getD (c'.getD x 0) 0 < σ.getD j 0 → y ≤ rowOf σ (c'.eraseIdx x) j := fun h => by
      have := rowOf_mono σ (c'.eraseIdx x) (Nat.le_of_lt h); rw [hrow] at this; exact this
    have m4 : ¬ σ.getD (c'.getD x 0) 0 < σ.getD j 0 → rowOf σ (c'.eraseIdx x) j ≤ y := fun h => by
      have := rowOf_mono σ (c'.eraseIdx x) (Nat.le_of_not_lt h); rw [hrow] at this; exact this
    rw [collapse_add_col m1 m2, collapse_add_col m3 m4]
    exact hm

/-- backward direction: an occurrence of the original pattern with a point in cell `(x, y)` gives an
    occurrence of the pattern with the added point (and directional shading `d`) -/
theorem addpoint_backward {π σ : NSeq} {R R' : List Cell} {c : List Nat} {x y : Nat} (d : Int)
    (hπ : IsPerm π) (hσ : IsPerm σ) (hx : x ≤ π.length)
    (hR' : ∀ e : Cell, e ∈ R' → (collapse x e.1, collapse y e.2) ∈ R ∨ e ∈ dirShading x y d)
    (hc : MeshOcc ⟨π, R⟩ σ c) {i : Nat} (hi : i < σ.length) (hic : i ∉ c) (hcell : cellOf σ c i = (x, y)) :
    ∃ c', MeshOcc ⟨insertAt π x y, R'⟩ σ c' := by
  have hocc : IsOcc π σ c := hc.occ
  let S := (List.range σ.length).filter fun j => decide (j ∉ c ∧ cellOf σ c j = (x, y))
  have hS : ∀ j, j ∈ S ↔ j < σ.length ∧ j ∉ c ∧ cellOf σ c j = (x, y) := by
    intro j; simp [S]
  have hne : S ≠ [] := List.ne_nil_of_mem ((hS i).mpr ⟨hi, hic, hcell⟩)
  -- the extremal point of the cell in direction `d`
  obtain ⟨q, hq, hext⟩ : ∃ q ∈ S, ∀ j ∈ S, (d = 0 → j ≤ q) ∧ (d = 1 → σ.getD j 0 ≤ σ.getD q 0) ∧
      (d = 2 → q ≤ j) ∧ (d = 3 → σ.getD q 0 ≤ σ.getD j 0) := by
    by_cases d0 : d = 0
    · obtain ⟨q, hq, hm⟩ := argmax_exists (fun j => j) S hne
      exact ⟨q, hq, fun j hj => ⟨fun _ => hm j hj, by omega, by omega, by omega⟩⟩
    by_cases d1 : d = 1
    · obtain ⟨q, hq, hm⟩ := argmax_exists (fun j => σ.getD j 0) S hne
      exact ⟨q, hq, fun j hj => ⟨by omega, fun _ => hm j hj, by omega, by omega⟩⟩
    by_cases d2 : d = 2
    · obtain ⟨q, hq, hm⟩ := argmax_exists (fun j => σ.length - j) S hne
      refine ⟨q, hq, fun j hj => ⟨by omega, by omega, fun _ => ?_, by omega⟩⟩
      have : σ.length - j ≤ σ.length - q := hm j hj
      have := ((hS j).mp hj).1; have := ((hS q).mp hq).1
      omega
    by_cases d3 : d = 3
    · obtain ⟨q, hq, hm⟩ := argmax_exists (fun j => σ.length - σ.getD j 0) S hne
      refine ⟨q, hq, fun j hj => ⟨by omega, by omega, by omega, fun _ => ?_⟩⟩
      have : σ.length - σ.getD j 0 ≤ σ.length - σ.getD q 0 := hm j hj
      have := hσ.getD_lt ((hS j).mp hj).1; have := hσ.getD_lt ((hS q).mp hq).1
      omega
    · exact ⟨i, (hS i).mpr ⟨hi, hic, hcell⟩, fun j _ => ⟨by omega, by omega, by omega, by omega⟩⟩
  obtain ⟨hqσ, hqc, hqcell⟩ := (hS q).mp hq
  rw [cellOf_eq] at hqcell
  have hcol : colOf c q = x := (Prod.mk.inj hqcell).1
  have hrow : rowOf σ c q = y := (Prod.mk.inj hqcell).2
  have hxc : x ≤ c.length := by have := hocc.len; omega
  refine ⟨ins c x q, occ_ins hπ hσ.1 hocc hx hqσ hqc hcol hrow, ?_⟩
  intro j hj hjc' hm
  have hjq : j ≠ q := fun h => hjc' (mem_ins.mpr (Or.inl h))
  have hjc : j ∉ c := fun h => hjc' (mem_ins.mpr (Or.inr h))
  have hxl : x < (ins c x q).length := by rw [ins_length c hxc]; omega
  obtain ⟨e1, e2⟩ := cell_ins σ (ins c x q) hxl j
  rw [ins_eraseIdx c hxc, ins_getD_x c hxc] at e1 e2
  have m1 : q < j → x ≤ colOf c j := fun h => by
    have := colOf_mono c (Nat.le_of_lt h); rw [hcol] at this; exact this
  have m2 : ¬ q < j → colOf c j ≤ x := fun h => by
    have := colOf_mono c (Nat.le_of_not_lt h); rw [hcol] at this; exact this
  have m3 : σ.getD q 0 < σ.getD j 0 → y ≤ rowOf σ c j := fun h => by
    have := rowOf_mono σ c (Nat.le_of_lt h); rw [hrow] at this; exact this
  have m4 : ¬ σ.getD q 0 < σ.getD j 0 → rowOf σ c j ≤ y := fun h => by
    have := rowOf_mono σ c (Nat.le_of_not_lt h); rw [hrow] at this; exact this
  have hold := hc.free j hj hjc
  rw [cellOf_eq] at hold hm
  rcases hR' _ hm with h | h
  · simp only at h
    rw [e1, e2, collapse_add_col m1 m2, collapse_add_col m3 m4] at h
    exact hold h
  · -- a cell of the directional shading: `j` would be a point of the cell beyond `q`
    have hσne : σ.getD j 0 ≠ σ.getD q 0 := fun h => hjq (nodup_getD_inj hσ.1 hj hqσ h)
    have hjS : colOf c j = x → rowOf σ c j = y → j ∈ S := fun h1 h2 =>
      (hS j).mpr ⟨hj, hjc, by rw [cellOf_eq, h1, h2]⟩
    rw [e1, e2] at h
    unfold dirShading at h
    by_cases hq1 : q < j <;> by_cases hq2 : σ.getD q 0 < σ.getD j 0 <;>
      simp only [hq1, hq2, if_true, if_false] at h <;>
      (split at h
       · simp only [List.mem_cons, Prod.mk.injEq, List.not_mem_nil, or_false] at h
         have := fun h1 h2 => (hext j (hjS h1 h2)).1
         omega
       split at h
       · simp only [List.mem_cons, Prod.mk.injEq, List.not_mem_nil, or_false] at h
         have := fun h1 h2 => (hext j (hjS h1 h2)).2.1
         omega
       split at h
       · simp only [List.mem_cons, Prod.mk.injEq, List.not_mem_nil, or_false] at h
         have := fun h1 h2 => (hext j (hjS h1 h2)).2.2.1
         omega
       split at h
       · simp only [List.mem_cons, Prod.mk.injEq, List.not_mem_nil, or_false] at h
         have := fun h1 h2 => (hext j (hjS h1 h2)).2.2.2
         omega
       · simp at h)

end Spec.C18
