import PermutaModel.Lemmas.C13Types
import Mathlib.Tactic.IntervalCases
import Mathlib.Data.Nat.Bitwise

/-! C13 helper lemmas, part 3: the property bit mask and the early-exit loops. -/
open Model.C13 Spec.C13

namespace C13

/-- which scan sits at which bit of `_insertion_encodable_properties` -/
def bitScan (bit : Nat) (p : NSeq) : Bool :=
  match bit with
  | 0 => isIncrNextDecr p
  | 1 => isIncrNextIncr p
  | 2 => isDecrNextDecr p
  | _ => isDecrNextIncr p

theorem props_lt (p : NSeq) : props p < 16 := by
  unfold props
  cases isIncrNextDecr p <;> cases isIncrNextIncr p <;> cases isDecrNextDecr p <;> cases isDecrNextIncr p <;> decide

theorem props_testBit (p : NSeq) (bit : Nat) (h : bit < 4) : (props p).testBit bit = bitScan bit p := by
  unfold props
  interval_cases bit <;> simp only [bitScan] <;>
    cases isIncrNextDecr p <;> cases isIncrNextIncr p <;> cases isDecrNextDecr p <;> cases isDecrNextIncr p <;> decide

theorem eq15_iff (x : Nat) (h : x < 16) : x = 15 ↔ ∀ bit, bit < 4 → x.testBit bit = true := by
  constructor
  · rintro rfl bit hb; interval_cases bit <;> decide
  · intro hb
    have h0 := hb 0 (by omega); have h1 := hb 1 (by omega); have h2 := hb 2 (by omega); have h3 := hb 3 (by omega)
    interval_cases x <;> first | rfl | (exfalso; revert h0 h1 h2 h3; decide)

theorem or_lt16 {a b : Nat} (ha : a < 16) (hb : b < 16) : a ||| b < 16 :=
  Nat.or_lt_two_pow (n := 4) ha hb

/-- the early-exit loop returns `True` exactly when the accumulated mask reaches all four bits -/
theorem encGo_iff (rot : Int) : ∀ (l : List NSeq) (curr : Nat), curr < 16 → curr ≠ 15 →
    ((encGo rot curr l).1 = true ↔
      ∀ bit, bit < 4 → curr.testBit bit = true ∨ ∃ p ∈ l, bitScan bit (Model.rotate p rot) = true)
  | [], curr, hlt, hne => by
    simp only [encGo, Bool.false_eq_true, List.not_mem_nil, false_and, exists_false, or_false, false_iff]
    intro h; exact hne ((eq15_iff curr hlt).mpr h)
  | p :: rest, curr, hlt, hne => by
    have hnew : curr ||| props (Model.rotate p rot) < 16 := or_lt16 hlt (props_lt _)
    rw [encGo]
    by_cases h15 : (curr ||| props (Model.rotate p rot)) = Generated.insEncAllProperties
    · rw [if_pos h15]
      simp only [true_iff]
      intro bit hb
      have := (eq15_iff _ hnew).mp h15 bit hb
      rw [Nat.testBit_or, Bool.or_eq_true, props_testBit _ _ hb] at this
      rcases this with h | h
      · exact Or.inl h
      · exact Or.inr ⟨p, List.mem_cons_self .., h⟩
    · rw [if_neg h15, encGo_iff rot rest _ hnew h15]
      refine forall₂_congr fun bit hb => ?_
      rw [Nat.testBit_or, Bool.or_eq_true, props_testBit _ _ hb]
      simp only [List.mem_cons, exists_eq_or_imp]
      tauto

/-- the four bits against the four juxtaposition classes -/
theorem bitScan_iff (p : NSeq) (hp : p.Nodup) :
    (∀ bit, bit < 4 → bitScan bit p = true → True) ∧
    (bitScan 0 p = true ↔ Juxt true false p) ∧ (bitScan 1 p = true ↔ Juxt true true p) ∧
    (bitScan 2 p = true ↔ Juxt false false p) ∧ (bitScan 3 p = true ↔ Juxt false true p) :=
  ⟨fun _ _ _ => trivial, scan_iff_juxt true false p hp, scan_iff_juxt true true p hp,
   scan_iff_juxt false false p hp, scan_iff_juxt false true p hp⟩

/-- all four bits are witnessed in `l` iff `l` meets the four juxtaposition classes -/
theorem bits_iff_rightmost (l : List NSeq) (hl : ∀ p ∈ l, p.Nodup) :
    (∀ bit, bit < 4 → ∃ p ∈ l, bitScan bit p = true) ↔ Rightmost l := by
  unfold Rightmost
  constructor
  · intro h a b
    cases a <;> cases b
    · obtain ⟨p, hp, hb⟩ := h 2 (by omega); exact ⟨p, hp, (scan_iff_juxt false false p (hl p hp)).mp hb⟩
    · obtain ⟨p, hp, hb⟩ := h 3 (by omega); exact ⟨p, hp, (scan_iff_juxt false true p (hl p hp)).mp hb⟩
    · obtain ⟨p, hp, hb⟩ := h 0 (by omega); exact ⟨p, hp, (scan_iff_juxt true false p (hl p hp)).mp hb⟩
    · obtain ⟨p, hp, hb⟩ := h 1 (by omega); exact ⟨p, hp, (scan_iff_juxt true true p (hl p hp)).mp hb⟩
  · intro h bit hb
    interval_cases bit
    · obtain ⟨p, hp, hj⟩ := h true false; exact ⟨p, hp, (scan_iff_juxt true false p (hl p hp)).mpr hj⟩
    · obtain ⟨p, hp, hj⟩ := h true true; exact ⟨p, hp, (scan_iff_juxt true true p (hl p hp)).mpr hj⟩
    · obtain ⟨p, hp, hj⟩ := h false false; exact ⟨p, hp, (scan_iff_juxt false false p (hl p hp)).mpr hj⟩
    · obtain ⟨p, hp, hj⟩ := h false true; exact ⟨p, hp, (scan_iff_juxt false true p (hl p hp)).mpr hj⟩

/-- the loop from the initial mask `0` -/
theorem encGo_zero_iff (rot : Int) (l : List NSeq) :
    (encGo rot 0 l).1 = true ↔ ∀ bit, bit < 4 → ∃ p ∈ l, bitScan bit (Model.rotate p rot) = true := by
  rw [encGo_iff rot l 0 (by omega) (by omega)]
  refine forall₂_congr fun bit _ => ?_
  simp

/-- when the loop answers `False` it has consumed the whole iterable -/
theorem encGo_rest_of_false (rot : Int) : ∀ (l : List NSeq) (curr : Nat),
    (encGo rot curr l).1 = false → (encGo rot curr l).2 = []
  | [], _, _ => by simp [encGo]
  | p :: rest, curr, h => by
    rw [encGo] at h ⊢
    by_cases h15 : (curr ||| props (Model.rotate p rot)) = Generated.insEncAllProperties
    · rw [if_pos h15] at h; simp at h
    · rw [if_neg h15] at h ⊢; exact encGo_rest_of_false rot rest _ h

end C13
