import PermutaModel.Lemmas.C17Basic
/-! A1: the private containment test of BiSC is mesh-pattern containment. -/

namespace Model.C17

/-- the scan of `MeshPatt._occurrences_in_perm` succeeds iff no hit box is shaded -/
theorem meshScan_eq_disjoint (sh : Shading) (cand : List Nat) (σ : List Nat) (x : Nat) :
    Model.meshScan sh cand σ x = disjointB (hitBoxes cand σ x) sh := by
  induction σ generalizing x with
  | nil => simp [Model.meshScan, hitBoxes, disjointB]
  | cons e rest ih =>
    unfold Model.meshScan hitBoxes
    by_cases h : cand.contains e = true
    · simp only [h, if_true]; exact ih (x + 1)
    · simp only [h]
      by_cases h2 : sh.contains (x, (cand.filter (· < e)).length) = true
      · simp only [h2, if_true, Bool.false_eq_true, if_false]
        simp only [disjointB, List.all_cons, h2, Bool.not_true, Bool.false_and]
      · simp only [h2, Bool.false_eq_true, if_false]
        rw [ih x]
        simp only [Bool.not_eq_true] at h2
        simp only [disjointB, List.all_cons, h2, Bool.not_false, Bool.true_and]

theorem permContainsMany_iff (σ π : NSeq) (Rs : List Shading) :
    permContainsMany σ π Rs = true ↔ ∃ R ∈ Rs, Model.containsMesh σ ⟨π, R⟩ = true := by
  unfold permContainsMany Model.containsMesh Model.meshOccInPerm
  simp only [List.any_eq_true, Bool.not_eq_true', List.isEmpty_eq_false_iff_exists_mem, List.mem_filter]
  constructor
  · rintro ⟨c, hc, R, hR, hd⟩
    exact ⟨R, hR, c, hc, by rw [meshScan_eq_disjoint]; exact hd⟩
  · rintro ⟨R, hR, c, hc, hs⟩
    exact ⟨c, hc, R, hR, by rw [meshScan_eq_disjoint] at hs; exact hs⟩

theorem permContainsDict_iff (σ : NSeq) (SG : PattDict) :
    permContainsDict σ SG = true ↔ ∃ p ∈ meshesOf SG, Model.containsMesh σ p = true := by
  unfold permContainsDict meshesOf
  simp only [List.any_eq_true, permContainsMany_iff, List.mem_flatMap, List.mem_map]
  constructor
  · rintro ⟨lv, hlv, e, he, R, hR, h⟩
    exact ⟨⟨e.1, R⟩, ⟨lv, hlv, e, he, R, hR, rfl⟩, h⟩
  · rintro ⟨p, ⟨lv, hlv, e, he, R, hR, rfl⟩, h⟩
    exact ⟨lv, hlv, e, he, R, hR, h⟩

end Model.C17
