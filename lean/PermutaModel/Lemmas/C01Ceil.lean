import PermutaModel.Lemmas.C01Lfc
open Model

/-- prefix version of the fold, to do induction on the prefix length -/
def ceilUpTo (π : NSeq) (k m : Nat) : Option Nat :=
  (List.range m).foldl (fun best j =>
    if π.getD k 0 < π.getD j 0 then
      match best with
      | none => some j
      | some b => if π.getD j 0 < π.getD b 0 then some j else some b
    else best) none

theorem ceilUpTo_succ (π : NSeq) (k m : Nat) :
    ceilUpTo π k (m+1) =
      (if π.getD k 0 < π.getD m 0 then
        match ceilUpTo π k m with
        | none => some m
        | some b => if π.getD m 0 < π.getD b 0 then some m else some b
      else ceilUpTo π k m) := by
  simp [ceilUpTo, List.range_succ, List.foldl_append]

def CeilSpec' (π : NSeq) (k m : Nat) : Option Nat → Prop
  | none => ∀ j < m, ¬ π.getD k 0 < π.getD j 0
  | some f => f < m ∧ π.getD k 0 < π.getD f 0 ∧
      ∀ j < m, π.getD k 0 < π.getD j 0 → π.getD f 0 ≤ π.getD j 0

theorem ceilUpTo_spec (π : NSeq) (k m : Nat) : CeilSpec' π k m (ceilUpTo π k m) := by
  induction m with
  | zero => simp [ceilUpTo, CeilSpec']
  | succ m ih =>
    rw [ceilUpTo_succ]
    split
    · next hlt =>
      cases hb : ceilUpTo π k m with
      | none =>
        rw [hb] at ih
        simp only [CeilSpec'] at ih ⊢
        refine ⟨by omega, hlt, ?_⟩
        intro j hj hjk
        rcases Nat.lt_succ_iff_lt_or_eq.mp hj with h | h
        · exact absurd hjk (ih j h)
        · subst h; exact Nat.le_refl _
      | some b =>
        rw [hb] at ih
        simp only [CeilSpec'] at ih
        obtain ⟨hbm, hbk, hmax⟩ := ih
        by_cases hbm' : π.getD m 0 < π.getD b 0
        · simp only [if_pos hbm', CeilSpec']
          refine ⟨by omega, hlt, ?_⟩
          intro j hj hjk
          rcases Nat.lt_succ_iff_lt_or_eq.mp hj with h | h
          · have := hmax j h hjk; omega
          · subst h; exact Nat.le_refl _
        · simp only [if_neg hbm', CeilSpec']
          refine ⟨by omega, hbk, ?_⟩
          intro j hj hjk
          rcases Nat.lt_succ_iff_lt_or_eq.mp hj with h | h
          · exact hmax j h hjk
          · subst h; omega
    · next hlt =>
      cases hb : ceilUpTo π k m with
      | none =>
        rw [hb] at ih
        simp only [CeilSpec'] at ih ⊢
        intro j hj
        rcases Nat.lt_succ_iff_lt_or_eq.mp hj with h | h
        · exact ih j h
        · subst h; exact hlt
      | some b =>
        rw [hb] at ih
        simp only [CeilSpec'] at ih ⊢
        obtain ⟨hbm, hbk, hmax⟩ := ih
        refine ⟨by omega, hbk, ?_⟩
        intro j hj hjk
        rcases Nat.lt_succ_iff_lt_or_eq.mp hj with h | h
        · exact hmax j h hjk
        · subst h; exact absurd hjk hlt

theorem leftCeil_spec' (π : NSeq) (k : Nat) : CeilSpec' π k k (leftCeil π k) :=
  ceilUpTo_spec π k k
