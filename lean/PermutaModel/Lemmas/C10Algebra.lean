import PermutaModel.Lemmas.C10Basic

/-! Composition, sums, insertion and removal: closure and laws. -/
open Model

namespace C10L

/-! ### composition -/

@[simp] theorem length_compose (p q : NSeq) : (compose p q).length = p.length := by simp [compose]

theorem compose_getD (p q : NSeq) {i : Nat} (hi : i < p.length) :
    (compose p q).getD i 0 = p.getD (q.getD i 0) 0 := by
  unfold compose; exact getD_range_map _ _ hi

theorem compose_isPerm {p q : NSeq} (hp : IsPerm p) (hq : IsPerm q) (hl : q.length = p.length) :
    IsPerm (compose p q) := by
  unfold compose
  apply isPerm_range_map
  · intro i hi
    exact hp.getD_lt (hl ▸ hq.getD_lt (hl ▸ hi))
  · intro i j hi hj hij
    have hi' : i < q.length := hl ▸ hi
    have hj' : j < q.length := hl ▸ hj
    exact hq.getD_inj hi' hj' (hp.getD_inj (hl ▸ hq.getD_lt hi') (hl ▸ hq.getD_lt hj') hij)

theorem compose_assoc {p q r : NSeq} (hq : q.length = p.length) (hr : r.length = p.length)
    (hrb : ∀ x ∈ r, x < p.length) : compose (compose p q) r = compose p (compose q r) := by
  apply ext_getD (by simp)
  intro i hi
  simp only [length_compose] at hi
  have hri : r.getD i 0 < p.length := hrb _ (getD_mem (hr ▸ hi))
  rw [compose_getD _ _ (by simpa using hi), compose_getD _ _ hri, compose_getD _ _ hi,
    compose_getD _ _ (hq ▸ hi)]

theorem compose_identity_right (p : NSeq) : compose p (identity p.length) = p := by
  apply ext_getD (by simp)
  intro i hi
  simp only [length_compose] at hi
  rw [compose_getD _ _ hi]
  congr 1
  unfold identity
  simpa using getD_range_map p.length id hi

theorem compose_identity_left {p : NSeq} (hb : ∀ x ∈ p, x < p.length) :
    compose (identity p.length) p = p := by
  apply ext_getD (by simp [identity])
  intro i hi
  have hi' : i < p.length := by simpa [identity] using hi
  rw [compose_getD _ _ (by simpa [identity] using hi')]
  unfold identity
  simpa using getD_range_map p.length id (hb _ (getD_mem hi'))

theorem compose_inverse_right {p : NSeq} (h : IsPerm p) : compose p (inverse p) = identity p.length := by
  apply ext_getD (by simp [identity])
  intro i hi
  simp only [length_compose] at hi
  rw [compose_getD _ _ hi, getD_inverse_getD h hi]
  unfold identity
  simpa using (getD_range_map p.length id hi).symm

theorem compose_inverse_left {p : NSeq} (h : IsPerm p) : compose (inverse p) p = identity p.length := by
  apply ext_getD (by simp [identity])
  intro i hi
  simp only [length_compose, length_inverse] at hi
  rw [compose_getD _ _ (by simpa using hi), inverse_getD_getD h hi]
  unfold identity
  simpa using (getD_range_map p.length id hi).symm

theorem inverse_compose {p q : NSeq} (hp : IsPerm p) (hq : IsPerm q) (hl : q.length = p.length) :
    inverse (compose p q) = compose (inverse q) (inverse p) := by
  have hpq := compose_isPerm hp hq hl
  apply ext_getD (by simp [hl])
  intro v hv
  simp only [length_inverse, length_compose] at hv
  rw [compose_getD _ _ (by simpa [hl] using hv)]
  have h1 : (inverse p).getD v 0 < q.length := hl ▸ inverse_getD_lt hp hv
  apply inverse_unique hpq
  · simpa [hl] using inverse_getD_lt hq h1
  · rw [compose_getD _ _ (hl ▸ inverse_getD_lt hq h1), getD_inverse_getD hq h1, getD_inverse_getD hp hv]

/-- the variadic `compose` with passing assert is the left fold of the binary one -/
theorem composedValue_cons (p q : NSeq) (os : List NSeq) (idx : Nat) :
    composedValue p idx (q :: os) = p.getD (q.getD (os.foldr (fun o i => o.getD i 0) idx) 0) 0 := by
  simp [composedValue]

theorem composeN_nil (p : NSeq) : composeN p [] = .ok p := by
  simp only [composeN, List.all_nil, if_true, composedValue, List.foldr_nil]
  congr 1
  apply ext_getD (by simp)
  intro i hi
  have hi' : i < p.length := by simpa using hi
  rw [getD_range_map _ _ hi']

theorem composeN_single (p q : NSeq) (hl : q.length = p.length) : composeN p [q] = .ok (compose p q) := by
  simp [composeN, hl, composedValue, compose]

theorem composeN_length_mismatch (p : NSeq) (os : List NSeq) (h : ∃ o ∈ os, o.length ≠ p.length) :
    composeN p os = .error .assertion := by
  obtain ⟨o, ho, hne⟩ := h
  have : os.all (fun o => o.length == p.length) = false := by
    rw [List.all_eq_false]
    exact ⟨o, ho, by simpa using hne⟩
  simp [composeN, this]

/-! ### direct and skew sums -/

@[simp] theorem length_directSum (p q : NSeq) : (directSum p q).length = p.length + q.length := by
  simp [directSum]

@[simp] theorem length_skewSum (p q : NSeq) : (skewSum p q).length = p.length + q.length := by
  simp [skewSum]

theorem directSum_isPerm {p q : NSeq} (hp : IsPerm p) (hq : IsPerm q) : IsPerm (directSum p q) := by
  refine ⟨?_, ?_⟩
  · unfold directSum
    rw [List.nodup_append]
    refine ⟨hp.1, ?_, ?_⟩
    · exact List.Nodup.map_on (fun x _ y _ h => by omega) hq.1
    · intro a ha b hb
      obtain ⟨y, _, rfl⟩ := List.mem_map.mp hb
      have := hp.2 a ha
      omega
  · intro x hx
    rw [length_directSum]
    unfold directSum at hx
    rcases List.mem_append.mp hx with h | h
    · have := hp.2 x h; omega
    · obtain ⟨y, hy, rfl⟩ := List.mem_map.mp h
      have := hq.2 y hy; omega

theorem skewSum_isPerm {p q : NSeq} (hp : IsPerm p) (hq : IsPerm q) : IsPerm (skewSum p q) := by
  refine ⟨?_, ?_⟩
  · unfold skewSum
    rw [List.nodup_append]
    refine ⟨?_, hq.1, ?_⟩
    · exact List.Nodup.map_on (fun x _ y _ h => by omega) hp.1
    · intro a ha b hb
      obtain ⟨y, _, rfl⟩ := List.mem_map.mp ha
      have := hq.2 b hb
      omega
  · intro x hx
    rw [length_skewSum]
    unfold skewSum at hx
    rcases List.mem_append.mp hx with h | h
    · obtain ⟨y, hy, rfl⟩ := List.mem_map.mp h
      have := hp.2 y hy; omega
    · have := hq.2 x h; omega

theorem directSum_getD_left (p q : NSeq) {i : Nat} (hi : i < p.length) :
    (directSum p q).getD i 0 = p.getD i 0 := by
  unfold directSum; exact List.getD_append _ _ _ _ hi

theorem directSum_getD_right (p q : NSeq) {i : Nat} (hi : p.length ≤ i) (hi2 : i < p.length + q.length) :
    (directSum p q).getD i 0 = p.length + q.getD (i - p.length) 0 := by
  unfold directSum
  rw [List.getD_append_right _ _ _ _ hi]
  have h : i - p.length < q.length := by omega
  simp [List.getD_eq_getElem?_getD, h, Nat.add_comm]

theorem skewSum_getD_left (p q : NSeq) {i : Nat} (hi : i < p.length) :
    (skewSum p q).getD i 0 = q.length + p.getD i 0 := by
  unfold skewSum
  rw [List.getD_append _ _ _ _ (by simpa using hi)]
  simp [List.getD_eq_getElem?_getD, hi, Nat.add_comm]

theorem skewSum_getD_right (p q : NSeq) {i : Nat} (hi : p.length ≤ i) :
    (skewSum p q).getD i 0 = q.getD (i - p.length) 0 := by
  unfold skewSum
  rw [List.getD_append_right _ _ _ _ (by simpa using hi)]
  simp

theorem directSum_assoc (p q r : NSeq) :
    directSum (directSum p q) r = directSum p (directSum q r) := by
  simp [directSum, List.map_append, Nat.add_comm, Nat.add_left_comm]

theorem skewSum_assoc (p q r : NSeq) :
    skewSum (skewSum p q) r = skewSum p (skewSum q r) := by
  simp [skewSum, List.map_append, Nat.add_assoc]

theorem directSum_nil_left (p : NSeq) : directSum [] p = p := by simp [directSum]
theorem directSum_nil_right (p : NSeq) : directSum p [] = p := by simp [directSum]
theorem skewSum_nil_left (p : NSeq) : skewSum [] p = p := by simp [skewSum]
theorem skewSum_nil_right (p : NSeq) : skewSum p [] = p := by simp [skewSum]

@[simp] theorem length_complement (p : NSeq) : (complement p).length = p.length := by simp [complement]

theorem skewSum_eq_complement {p q : NSeq} (hp : ∀ x ∈ p, x < p.length) (hq : ∀ x ∈ q, x < q.length) :
    skewSum p q = complement (directSum (complement p) (complement q)) := by
  unfold complement
  simp only [length_directSum, List.length_map]
  unfold directSum skewSum
  simp only [List.map_append, List.map_map, List.length_map]
  congr 1
  · apply List.map_congr_left
    intro x hx
    have := hp x hx
    simp only [Function.comp]
    omega
  · conv_lhs => rw [← List.map_id q]
    apply List.map_congr_left
    intro x hx
    have := hq x hx
    simp only [Function.comp, id]
    omega

/-- the variadic sums are left folds of the binary ones -/
theorem directSumGo_eq (res : NSeq) (os : List NSeq) :
    directSumGo res res.length os = os.foldl directSum res := by
  induction os generalizing res with
  | nil => rfl
  | cons o os ih =>
    simp only [directSumGo, List.foldl_cons]
    have := ih (res ++ o.map (· + res.length))
    simp only [List.length_append, List.length_map] at this
    rw [this]; rfl

theorem directSumN_eq_foldl (p : NSeq) (os : List NSeq) : directSumN p os = os.foldl directSum p :=
  directSumGo_eq p os

theorem skewSumN_cons (p o : NSeq) (os : List NSeq) : skewSumN p (o :: os) = skewSumN (skewSum p o) os := by
  simp only [skewSumN, List.map_cons, List.sum_cons, skewSumGo, skewSum, List.map_append, List.map_map,
    Nat.add_sub_cancel_left]
  congr 2
  apply List.map_congr_left
  intro x _
  simp only [Function.comp]
  omega

theorem skewSumN_eq_foldl (p : NSeq) (os : List NSeq) : skewSumN p os = os.foldl skewSum p := by
  induction os generalizing p with
  | nil => simp [skewSumN, skewSumGo]
  | cons o os ih => rw [skewSumN_cons, ih]; rfl

theorem foldl_directSum_isPerm {p : NSeq} {os : List NSeq} (hp : IsPerm p) (ho : ∀ o ∈ os, IsPerm o) :
    IsPerm (os.foldl directSum p) := by
  induction os generalizing p with
  | nil => exact hp
  | cons o os ih =>
    exact ih (directSum_isPerm hp (ho o (by simp))) (fun x hx => ho x (by simp [hx]))

theorem foldl_skewSum_isPerm {p : NSeq} {os : List NSeq} (hp : IsPerm p) (ho : ∀ o ∈ os, IsPerm o) :
    IsPerm (os.foldl skewSum p) := by
  induction os generalizing p with
  | nil => exact hp
  | cons o os ih =>
    exact ih (skewSum_isPerm hp (ho o (by simp))) (fun x hx => ho x (by simp [hx]))

theorem length_foldl_directSum (p : NSeq) (os : List NSeq) :
    (os.foldl directSum p).length = p.length + (os.map List.length).sum := by
  induction os generalizing p with
  | nil => simp
  | cons o os ih => simp [ih, Nat.add_assoc]

theorem length_foldl_skewSum (p : NSeq) (os : List NSeq) :
    (os.foldl skewSum p).length = p.length + (os.map List.length).sum := by
  induction os generalizing p with
  | nil => simp
  | cons o os ih => simp [ih, Nat.add_assoc]

end C10L
