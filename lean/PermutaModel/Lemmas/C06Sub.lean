import PermutaModel.Model.C06
import PermutaModel.Spec.C06
import PermutaModel.Lemmas.MeshValues
import Mathlib.Data.List.Sort
/-! Evaluation of `sub_mesh_pattern` on a strictly increasing, in-range index list: no assert fires
    and the computed shading is exactly `Spec.SubShaded`. -/
open Model Proto

namespace C06Lemmas
open MeshLemmas

/-- boundary list `[0] ++ Ls ++ [n+1]` (the `vertical` / `horizontal` lists of the code) -/
def bnd (Ls : List Nat) (n : Nat) : List Nat := [0] ++ Ls ++ [n + 1]

theorem bnd_getD_zero (Ls : List Nat) (n : Nat) : (bnd Ls n).getD 0 0 = 0 := by simp [bnd]

theorem bnd_getD_succ (Ls : List Nat) (n x : Nat) :
    (bnd Ls n).getD (x + 1) 0 = if x < Ls.length then Ls.getD x 0 else if x = Ls.length then n + 1 else 0 := by
  unfold bnd
  simp only [List.singleton_append, List.cons_append, List.getD_cons_succ]
  by_cases h : x < Ls.length
  · simp [h, List.getD_eq_getElem?_getD, List.getElem?_append_left h]
  · simp only [h, if_false]
    by_cases h2 : x = Ls.length
    · subst h2; simp [List.getD_eq_getElem?_getD]
    · simp only [h2, if_false]
      simp [List.getD_eq_getElem?_getD, List.getElem?_eq_none (show (Ls ++ [n+1]).length ≤ x by simp; omega)]

theorem bnd_lo (Ls : List Nat) (n x : Nat) (hx : x ≤ Ls.length) :
    (bnd Ls n).getD x 0 = if x = 0 then 0 else Ls.getD (x-1) 0 := by
  cases x with
  | zero => rw [bnd_getD_zero]; rfl
  | succ x => rw [bnd_getD_succ]; simp [show x < Ls.length by omega]

theorem bnd_hi (Ls : List Nat) (n x : Nat) (hx : x ≤ Ls.length) :
    (bnd Ls n).getD (x+1) 0 = if x < Ls.length then Ls.getD x 0 else n + 1 := by
  rw [bnd_getD_succ]
  by_cases h : x < Ls.length
  · simp only [h, if_true]
  · simp only [h, if_false, show x = Ls.length by omega, if_true]

/-- facts about the rectangle bounds produced from a strictly increasing list with entries in `1 … n` -/
theorem bnd_facts (Ls : List Nat) (n : Nat) (hs : Ls.Pairwise (· < ·)) (hr : ∀ e ∈ Ls, 1 ≤ e ∧ e ≤ n)
    (x : Nat) (hx : x ≤ Ls.length) :
    (bnd Ls n).getD x 0 ≤ n ∧ (bnd Ls n).getD x 0 < (bnd Ls n).getD (x+1) 0 ∧
      (bnd Ls n).getD (x+1) 0 ≤ n + 1 := by
  rw [bnd_hi Ls n x hx, bnd_lo Ls n x hx]
  have h1 : x ≠ 0 → 1 ≤ Ls.getD (x-1) 0 ∧ Ls.getD (x-1) 0 ≤ n :=
    fun h0 => hr _ (getD_mem (show x - 1 < Ls.length by omega))
  have h2 : x < Ls.length → 1 ≤ Ls.getD x 0 ∧ Ls.getD x 0 ≤ n := fun hl => hr _ (getD_mem hl)
  have h3 : x ≠ 0 → x < Ls.length → Ls.getD (x-1) 0 < Ls.getD x 0 :=
    fun h0 hl => getD_lt_of_lt hs (show x - 1 < x by omega) hl
  split_ifs with ha hb hb
  · have := h2 hb; omega
  · omega
  · have := h1 ha; have := h2 hb; have := h3 ha hb; omega
  · have := h1 ha; omega

/-- the counter of `a+1` in `Ls` is `x` iff `a` lies in the `x`-th interval of the boundary list -/
theorem bnd_iff (Ls : List Nat) (n : Nat) (hs : Ls.Pairwise (· < ·)) (hr : ∀ e ∈ Ls, 1 ≤ e ∧ e ≤ n)
    (x a : Nat) (hx : x ≤ Ls.length) (ha : a ≤ n) :
    (Ls.filter (· < a + 1)).length = x ↔
      (bnd Ls n).getD x 0 ≤ a ∧ a ≤ (bnd Ls n).getD (x+1) 0 - 1 := by
  rw [countLt_eq_iff Ls hs (a+1) x hx, bnd_hi Ls n x hx, bnd_lo Ls n x hx]
  have h2 : x < Ls.length → 1 ≤ Ls.getD x 0 ∧ Ls.getD x 0 ≤ n := fun hl => hr _ (getD_mem hl)
  split_ifs with h0 hl hl
  · subst h0; have := h2 hl; simp only [true_or, true_and, Nat.zero_le]; constructor
    · intro h; have := h hl; omega
    · intro h _; omega
  · subst h0; simp only [true_or, true_and, Nat.zero_le]; constructor
    · intro _; omega
    · intro _ h; exact absurd h hl
  · have := h2 hl; simp only [h0, false_or]; constructor
    · intro h; have := h.2 hl; omega
    · intro h; exact ⟨by omega, fun _ => by omega⟩
  · simp only [h0, false_or]; constructor
    · intro h; omega
    · intro h; exact ⟨by omega, fun h' => absurd h' hl⟩

theorem countLt_map_succ (c : List Nat) (a : Nat) :
    ((c.map (· + 1)).filter (· < a + 1)).length = (c.filter (· < a)).length := by
  rw [List.filter_map, List.length_map]
  congr 1
  apply List.filter_congr
  intro x _; simp

/-- the sorted list of the chosen values, shifted by one (the middle of `horizontal`) -/
def hList (π : NSeq) (c : List Nat) : List Nat := (c.map fun i => π.getD i 0 + 1).mergeSort (· ≤ ·)

theorem hList_perm (π : NSeq) (c : List Nat) : (hList π c).Perm ((Spec.pick π c).map (· + 1)) := by
  unfold hList Spec.pick
  rw [List.map_map]
  exact List.mergeSort_perm _ _

theorem pick_nodup {π : NSeq} {c : List Nat} (hπ : IsPerm π) (hc : c.Nodup) (hr : ∀ i ∈ c, i < π.length) :
    (Spec.pick π c).Nodup := by
  unfold Spec.pick
  rw [List.nodup_map_iff_inj_on hc]
  intro a ha b hb hab
  exact hπ.getD_inj (hr a ha) (hr b hb) hab

theorem hList_sorted {π : NSeq} {c : List Nat} (hπ : IsPerm π) (hc : c.Nodup) (hr : ∀ i ∈ c, i < π.length) :
    (hList π c).Pairwise (· < ·) := by
  have hle : (hList π c).Pairwise (fun a b => decide (a ≤ b) = true) := by
    unfold hList
    apply List.pairwise_mergeSort
    · intro a b c h1 h2; simp only [decide_eq_true_eq] at *; omega
    · intro a b; simp only [Bool.or_eq_true, decide_eq_true_eq]; omega
  have hnd : (hList π c).Nodup := by
    rw [(hList_perm π c).nodup_iff]
    exact (pick_nodup hπ hc hr).map (fun a b h => by omega)
  exact List.Pairwise.imp₂ (fun a b h1 h2 => by simp only [decide_eq_true_eq] at h1; omega) hle hnd

theorem hList_range {π : NSeq} {c : List Nat} (hπ : IsPerm π) (hr : ∀ i ∈ c, i < π.length) :
    ∀ e ∈ hList π c, 1 ≤ e ∧ e ≤ π.length := by
  intro e he
  rw [(hList_perm π c).mem_iff] at he
  simp only [Spec.pick, List.map_map, List.mem_map, Function.comp] at he
  obtain ⟨i, hi, rfl⟩ := he
  have := hπ.getD_lt (hr i hi)
  omega

theorem hList_length (π : NSeq) (c : List Nat) : (hList π c).length = c.length := by
  simp [hList, List.length_mergeSort]

theorem countLt_hList (π : NSeq) (c : List Nat) (b : Nat) :
    ((hList π c).filter (· < b + 1)).length = ((Spec.pick π c).filter (· < b)).length := by
  rw [((hList_perm π c).filter _).length_eq]
  exact countLt_map_succ _ _

theorem vList_sorted {c : List Nat} (hc : c.Pairwise (· < ·)) : (c.map (· + 1)).Pairwise (· < ·) := by
  rw [List.pairwise_map]; exact hc.imp (by intro a b h; omega)

theorem vList_range {c : List Nat} {n : Nat} (hr : ∀ i ∈ c, i < n) : ∀ e ∈ c.map (· + 1), 1 ≤ e ∧ e ≤ n := by
  intro e he
  obtain ⟨i, hi, rfl⟩ := List.mem_map.mp he
  have := hr i hi; omega

/-- the entry closing interval `x` of a boundary list, minus one, is either `n` or an entry minus one -/
theorem bnd_upper (Ls : List Nat) (n x : Nat) (hx : x ≤ Ls.length) :
    ((bnd Ls n).getD (x+1) 0 - 1 = n ∧ x = Ls.length) ∨
      (x < Ls.length ∧ (bnd Ls n).getD (x+1) 0 = Ls.getD x 0) := by
  rw [bnd_getD_succ]
  by_cases h : x < Ls.length
  · right; simp [h]
  · left; have : x = Ls.length := by omega
    simp [this]

theorem filterE_ok (f : Cell → Except Err Bool) (g : Cell → Bool) :
    ∀ (l : List Cell), (∀ c ∈ l, f c = .ok (g c)) → filterE f l = .ok (l.filter g)
  | [], _ => rfl
  | c :: rest, h => by
    unfold filterE
    rw [h c List.mem_cons_self, filterE_ok f g rest (fun x hx => h x (List.mem_cons_of_mem _ hx))]
    cases hg : g c <;> simp [hg]

theorem mem_gridCells (k x y : Nat) : (x, y) ∈ gridCells k ↔ x ≤ k ∧ y ≤ k := by
  simp only [gridCells, List.mem_flatMap, List.mem_range, List.mem_map, Prod.mk.injEq]
  constructor
  · rintro ⟨a, ha, b, hb, rfl, rfl⟩; omega
  · rintro ⟨h1, h2⟩; exact ⟨x, by omega, y, by omega, rfl, rfl⟩

theorem strictInc_sorted_le {c : List Nat} (hc : StrictInc c) :
    c.Pairwise (fun a b => decide (a ≤ b) = true) :=
  hc.imp (by intro a b h; simp only [decide_eq_true_eq]; omega)

theorem mergeSort_strictInc {c : List Nat} (hc : StrictInc c) : c.mergeSort (· ≤ ·) = c :=
  List.mergeSort_of_pairwise (strictInc_sorted_le hc)

/-- pure reading of the rectangle test of one cell -/
def rectShaded (μ : Mesh) (l b r t : Nat) : Prop :=
  ∀ y, b ≤ y → y ≤ t → ∀ x, l ≤ x → x ≤ r → (x, y) ∈ μ.shading

theorem isShadedRect_ok (μ : Mesh) (l b r t : Nat) (hl : l ≤ μ.pattern.length) (hb : b ≤ μ.pattern.length)
    (hr : r ≤ μ.pattern.length) (ht : t ≤ μ.pattern.length) (hlr : l ≤ r) (hbt : b ≤ t) :
    ∃ v, isShadedRect μ l b r t = .ok v ∧ (v = true ↔ rectShaded μ l b r t) := by
  unfold isShadedRect
  simp only [hl, hb, and_self, not_true_eq_false, if_false, hr, ht, hlr, hbt]
  refine ⟨_, rfl, ?_⟩
  simp only [List.all_eq_true, List.mem_range'_1, List.contains_iff_mem, rectShaded]
  constructor
  · intro h y hy1 hy2 x hx1 hx2
    exact h y ⟨hy1, by omega⟩ x ⟨hx1, by omega⟩
  · intro h y hy x hx
    exact h y hy.1 (by omega) x hx.1 (by omega)

def rectPointfree (μ : Mesh) (l b r t : Nat) : Prop :=
  ∀ idx, l ≤ idx → idx < r → ¬ (b ≤ μ.pattern.getD idx 0 ∧ μ.pattern.getD idx 0 < t)

theorem isPointfree_ok (μ : Mesh) (l b r t : Nat) (hl : l ≤ μ.pattern.length) (hb : b ≤ μ.pattern.length)
    (hr : r ≤ μ.pattern.length) (ht : t ≤ μ.pattern.length) (hlr : l ≤ r) (hbt : b ≤ t) :
    ∃ v, isPointfree μ l b r t = .ok v ∧ (v = true ↔ rectPointfree μ l b r t) := by
  unfold isPointfree
  simp only [hl, hb, and_self, not_true_eq_false, if_false, hr, ht, hlr, hbt]
  refine ⟨_, rfl, ?_⟩
  simp only [Bool.not_eq_true', List.any_eq_false, List.mem_range'_1, Bool.and_eq_true, decide_eq_true_eq,
    rectPointfree]
  constructor
  · intro h idx h1 h2; exact h idx ⟨h1, by omega⟩
  · intro h idx hidx; exact h idx hidx.1 (by omega)

end C06Lemmas
