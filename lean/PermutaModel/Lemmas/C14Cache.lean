import PermutaModel.Lemmas.C14Tables
/-! C14 helper lemmas: the memoised tables (`lru_cache`) and the `defaultdict` mutation. -/
namespace C14L
open Model.C14 Model.C14.Letter Spec.C14 Proto

theorem lookup_append_single {κ ν} [BEq κ] [LawfulBEq κ] (l : List (κ × ν)) (n k : κ) (v : ν) :
    (l ++ [(n, v)]).lookup k = match l.lookup k with
      | some x => some x
      | none => if k == n then some v else none := by
  induction l with
  | nil => simp only [List.nil_append, List.lookup_cons, List.lookup_nil]; cases k == n <;> rfl
  | cons e l ih =>
    obtain ⟨a, b⟩ := e
    simp only [List.cons_append, List.lookup_cons]
    cases h : k == a <;> simp [ih]

theorem lookup_dictSet {κ ν} [DecidableEq κ] (l : List (κ × ν)) (n k : κ) (v : ν) :
    (dictSet l n v).lookup k = if k = n then some v else l.lookup k := by
  induction l with
  | nil =>
    simp only [dictSet, List.lookup_cons, List.lookup_nil]
    cases h : k == n
    · have : ¬ k = n := by simpa using h
      simp [this]
    · have : k = n := by simpa using h
      simp [this]
  | cons e l ih =>
    obtain ⟨a, b⟩ := e
    simp only [dictSet]
    by_cases ha : a = n
    · subst ha
      simp only [if_true, List.lookup_cons]
      cases h : k == a
      · have : ¬ k = a := by simpa using h
        simp [this]
      · have : k = a := by simpa using h
        simp [this]
    · simp only [ha, if_false, List.lookup_cons, ih]
      cases h : k == a
      · simp
      · have : k = a := by simpa using h
        subst this
        simp [ha]

/-- `t` lists the same words under the same keys as `t0` (it may have extra keys with empty sets) -/
def SameRel (t t0 : List (NSeq × List Word)) : Prop := ∀ σ w, Rel t σ w ↔ Rel t0 σ w

theorem lookup_rel {t : List (NSeq × List Word)} (hnd : (t.map Prod.fst).Nodup) (σ : NSeq) :
    (∀ ws, t.lookup σ = some ws → ∀ w, w ∈ ws ↔ Rel t σ w)
    ∧ (t.lookup σ = none → ∀ w, ¬ Rel t σ w) := by
  induction t with
  | nil => simp [Rel]
  | cons e t ih =>
    obtain ⟨κ, ws0⟩ := e
    simp only [List.map_cons, List.nodup_cons] at hnd
    obtain ⟨ih1, ih2⟩ := ih hnd.2
    simp only [List.lookup_cons]
    by_cases hk : σ = κ
    · subst hk
      simp only [beq_self_eq_true]
      refine ⟨fun ws h w => ?_, fun h => by simp at h⟩
      simp only [Option.some.injEq] at h; subst h
      simp only [Rel, List.mem_cons, Prod.mk.injEq]
      constructor
      · intro hw; exact ⟨ws0, by simp, hw⟩
      · rintro ⟨ws, (⟨_, rfl⟩ | hm), hw⟩
        · exact hw
        · exact absurd (List.mem_map.mpr ⟨(σ, ws), hm, rfl⟩) hnd.1
    · have hb : (σ == κ) = false := by simpa using hk
      simp only [hb]
      have hrel : ∀ w, Rel ((κ, ws0) :: t) σ w ↔ Rel t σ w := by
        intro w
        simp only [Rel, List.mem_cons, Prod.mk.injEq]
        constructor
        · rintro ⟨ws, (⟨h, _⟩ | hm), hw⟩
          · exact absurd h hk
          · exact ⟨ws, hm, hw⟩
        · rintro ⟨ws, hm, hw⟩; exact ⟨ws, Or.inr hm, hw⟩
      exact ⟨fun ws h w => by rw [hrel]; exact ih1 ws h w, fun h w => by rw [hrel]; exact ih2 h w⟩

theorem sameRel_append_empty (t : List (NSeq × List Word)) (σ : NSeq) :
    SameRel (t ++ [(σ, [])]) t := by
  intro τ w
  simp only [Rel, List.mem_append, List.mem_singleton, Prod.mk.injEq]
  constructor
  · rintro ⟨ws, (hm | ⟨_, rfl⟩), hw⟩
    · exact ⟨ws, hm, hw⟩
    · simp at hw
  · rintro ⟨ws, hm, hw⟩; exact ⟨ws, Or.inl hm, hw⟩

theorem lookup_none_not_key {t : List (NSeq × List Word)} {σ : NSeq} (h : t.lookup σ = none) :
    σ ∉ t.map Prod.fst := by
  induction t with
  | nil => simp
  | cons e t ih =>
    obtain ⟨κ, ws0⟩ := e
    simp only [List.lookup_cons] at h
    cases hb : σ == κ with
    | true => simp [hb] at h
    | false =>
      simp only [hb] at h
      simp only [List.map_cons, List.mem_cons, not_or]
      exact ⟨by simpa using hb, ih h⟩

/-- invariant of the three `lru_cache`s: every memoised table lists exactly what a fresh
    computation lists, with pairwise different keys -/
structure CInv (s : Caches) : Prop where
  w2p : ∀ n t, s.w2p.lookup n = some t → pinwordToPermMapping n = .ok t
  p2w : ∀ n t, s.p2w.lookup n = some t →
    ∃ t0, permToPinwordMapping n = .ok t0 ∧ SameRel t t0 ∧ (t.map Prod.fst).Nodup
  p2sw : ∀ n t, s.p2sw.lookup n = some t →
    ∃ t0, permToStrictPinwordMapping n = .ok t0 ∧ SameRel t t0 ∧ (t.map Prod.fst).Nodup

theorem cinv_empty : CInv {} := ⟨by simp, by simp, by simp⟩

theorem getW2P_ok {s : Caches} (hI : CInv s) (n : Nat) {t0 : List (Word × NSeq)}
    (h0 : pinwordToPermMapping n = .ok t0) :
    ∃ s', getW2P s n = .ok (s', t0) ∧ CInv s' := by
  unfold getW2P
  cases hl : s.w2p.lookup n with
  | some t =>
    have := hI.w2p n t hl
    rw [h0] at this; cases this
    exact ⟨s, rfl, hI⟩
  | none =>
    simp only [h0]
    refine ⟨_, rfl, ⟨?_, hI.p2w, hI.p2sw⟩⟩
    intro m t hm
    rw [lookup_append_single] at hm
    cases hl' : s.w2p.lookup m with
    | some x => rw [hl'] at hm; simp only [Option.some.injEq] at hm; subst hm; exact hI.w2p m x hl'
    | none =>
      rw [hl'] at hm
      by_cases hmn : m = n
      · subst hmn; simp only [beq_self_eq_true, if_true, Option.some.injEq] at hm; subst hm; exact h0
      · have : (m == n) = false := by simpa using hmn
        simp [this] at hm

theorem getP2W_ok {s : Caches} (hI : CInv s) (n : Nat) {t1 : List (Word × NSeq)}
    (h1 : pinwordToPermMapping n = .ok t1) :
    ∃ s' t, getP2W s n = .ok (s', t) ∧ CInv s' ∧ s'.p2w.lookup n = some t
      ∧ SameRel t (groupWords t1) ∧ (t.map Prod.fst).Nodup := by
  have h0 : permToPinwordMapping n = .ok (groupWords t1) := by simp [permToPinwordMapping, h1]
  unfold getP2W
  cases hl : s.p2w.lookup n with
  | some t =>
    obtain ⟨t0, ht0, hs, hnd⟩ := hI.p2w n t hl
    rw [h0] at ht0; cases ht0
    exact ⟨s, t, rfl, hI, hl, hs, hnd⟩
  | none =>
    obtain ⟨s', hs', hI'⟩ := getW2P_ok hI n h1
    have hp : s'.p2w = s.p2w := by
      unfold getW2P at hs'
      cases hw : s.w2p.lookup n with
      | some t => simp only [hw, Except.ok.injEq, Prod.mk.injEq] at hs'; rw [← hs'.1]
      | none => simp only [hw, h1, Except.ok.injEq, Prod.mk.injEq] at hs'; rw [← hs'.1]
    simp only [hs']
    refine ⟨_, _, rfl, ⟨hI'.w2p, ?_, hI'.p2sw⟩, ?_, fun _ _ => Iff.rfl, groupWords_keys_nodup t1⟩
    · intro m t hm
      simp only at hm
      rw [lookup_append_single] at hm
      cases hl' : s'.p2w.lookup m with
      | some x => rw [hl'] at hm; simp only [Option.some.injEq] at hm; subst hm; exact hI'.p2w m x hl'
      | none =>
        rw [hl'] at hm
        by_cases hmn : m = n
        · subst hmn
          simp only [beq_self_eq_true, if_true, Option.some.injEq] at hm; subst hm
          exact ⟨_, h0, fun _ _ => Iff.rfl, groupWords_keys_nodup t1⟩
        · have : (m == n) = false := by simpa using hmn
          simp [this] at hm
    · simp only
      rw [lookup_append_single, hp, hl]; simp

theorem strictFilter_keys (t : List (NSeq × List Word)) :
    (strictFilter t).map Prod.fst = t.map Prod.fst := by
  simp [strictFilter, List.map_map, Function.comp_def]

theorem sameRel_strictFilter {t t0 : List (NSeq × List Word)} (h : SameRel t t0) :
    SameRel (strictFilter t) (strictFilter t0) := by
  intro σ w; rw [rel_strictFilter, rel_strictFilter, h σ w]

theorem getP2SW_ok {s : Caches} (hI : CInv s) (n : Nat) {t1 : List (Word × NSeq)}
    (h1 : pinwordToPermMapping n = .ok t1) :
    ∃ s' t, getP2SW s n = .ok (s', t) ∧ CInv s'
      ∧ SameRel t (strictFilter (groupWords t1)) ∧ (t.map Prod.fst).Nodup := by
  have h0 : permToStrictPinwordMapping n = .ok (strictFilter (groupWords t1)) := by
    simp [permToStrictPinwordMapping, permToPinwordMapping, h1]
  unfold getP2SW
  cases hl : s.p2sw.lookup n with
  | some t =>
    obtain ⟨t0, ht0, hs, hnd⟩ := hI.p2sw n t hl
    rw [h0] at ht0; cases ht0
    exact ⟨s, t, rfl, hI, hs, hnd⟩
  | none =>
    obtain ⟨s', t, hs', hI', _, hsr, hnd⟩ := getP2W_ok hI n h1
    simp only [hs']
    refine ⟨_, _, rfl, ⟨hI'.w2p, hI'.p2w, ?_⟩, sameRel_strictFilter hsr, by rw [strictFilter_keys]; exact hnd⟩
    intro m tm hm
    simp only at hm
    rw [lookup_append_single] at hm
    cases hl' : s'.p2sw.lookup m with
    | some x => rw [hl'] at hm; simp only [Option.some.injEq] at hm; subst hm; exact hI'.p2sw m x hl'
    | none =>
      rw [hl'] at hm
      by_cases hmn : m = n
      · subst hmn
        simp only [beq_self_eq_true, if_true, Option.some.injEq] at hm; subst hm
        exact ⟨_, h0, sameRel_strictFilter hsr, by rw [strictFilter_keys]; exact hnd⟩
      · have : (m == n) = false := by simpa using hmn
        simp [this] at hm

theorem lookupP2W_ok {s : Caches} (hI : CInv s) (n : Nat) (σ : NSeq) {t1 : List (Word × NSeq)}
    (h1 : pinwordToPermMapping n = .ok t1) :
    ∃ s' ws, lookupP2W s n σ = .ok (s', ws) ∧ CInv s' ∧ ∀ w, w ∈ ws ↔ Rel (groupWords t1) σ w := by
  obtain ⟨s', t, hs', hI', hlk, hsr, hnd⟩ := getP2W_ok hI n h1
  have h0 : permToPinwordMapping n = .ok (groupWords t1) := by simp [permToPinwordMapping, h1]
  unfold lookupP2W
  simp only [hs']
  cases hl : t.lookup σ with
  | some ws =>
    exact ⟨s', ws, rfl, hI', fun w => by rw [(lookup_rel hnd σ).1 ws hl w, hsr σ w]⟩
  | none =>
    refine ⟨_, [], rfl, ⟨hI'.w2p, ?_, hI'.p2sw⟩, fun w => ?_⟩
    · intro m tm hm
      simp only at hm
      rw [lookup_dictSet] at hm
      by_cases hmn : m = n
      · subst hmn
        simp only [if_true, Option.some.injEq] at hm; subst hm
        refine ⟨_, h0, fun τ w => by rw [sameRel_append_empty t σ τ w, hsr τ w], ?_⟩
        rw [List.map_append, List.nodup_append]
        refine ⟨hnd, by simp, ?_⟩
        intro a ha b hb
        simp only [List.map_cons, List.map_nil, List.mem_singleton] at hb
        subst hb
        intro hab; subst hab
        exact lookup_none_not_key hl ha
      · simp only [hmn, if_false] at hm
        exact hI'.p2w m tm hm
    · simp only [List.not_mem_nil, false_iff]
      rw [← hsr σ w]
      exact (lookup_rel hnd σ).2 hl w

theorem lookupP2SW_ok {s : Caches} (hI : CInv s) (n : Nat) (σ : NSeq) {t1 : List (Word × NSeq)}
    (h1 : pinwordToPermMapping n = .ok t1) :
    ∃ s' r, lookupP2SW s n σ = .ok (s', r) ∧ CInv s'
      ∧ (∀ ws, r = .ok ws → ∀ w, w ∈ ws ↔ Rel (strictFilter (groupWords t1)) σ w)
      ∧ (∀ e, r = .error e → e = .keyError ∧ ∀ w, ¬ Rel (strictFilter (groupWords t1)) σ w) := by
  obtain ⟨s', t, hs', hI', hsr, hnd⟩ := getP2SW_ok hI n h1
  unfold lookupP2SW
  simp only [hs']
  cases hl : t.lookup σ with
  | some ws =>
    refine ⟨s', .ok ws, rfl, hI', ?_, ?_⟩
    · intro ws' h w
      cases h
      rw [(lookup_rel hnd σ).1 ws hl w, hsr σ w]
    · intro e h; cases h
  | none =>
    refine ⟨s', .error .keyError, rfl, hI', ?_, ?_⟩
    · intro ws h; cases h
    · intro e h
      cases h
      exact ⟨rfl, fun w => by rw [← hsr σ w]; exact (lookup_rel hnd σ).2 hl w⟩

end C14L
