import PermutaModel.Spec.C06
import PermutaModel.Lemmas.C03Biv
/-! The semantic core of C06: composing an occurrence `d` of `μ` in `σ` with chosen points `c` of `μ`;
    a point of `σ` outside `d ∘ c` never lies in a cell that the induced sub-pattern shades. -/

namespace C06Lemmas
open MeshLemmas

theorem compose_length (d c : List Nat) : (Spec.compose d c).length = c.length := by simp [Spec.compose]

theorem compose_getD (d c : List Nat) {a : Nat} (ha : a < c.length) :
    (Spec.compose d c).getD a 0 = d.getD (c.getD a 0) 0 := by
  simp [Spec.compose, List.getD_eq_getElem?_getD, List.getElem?_eq_getElem ha]

theorem compose_strictInc {d c : List Nat} (hd : StrictInc d) (hc : StrictInc c) (hr : ∀ j ∈ c, j < d.length) :
    StrictInc (Spec.compose d c) := by
  unfold Spec.compose StrictInc
  rw [List.pairwise_map]
  have : c.Pairwise (fun a b => a < b ∧ b < d.length) :=
    List.pairwise_and_iff.mpr ⟨hc, List.pairwise_of_forall_mem_list (fun a _ b hb => hr b hb)⟩
  exact this.imp (fun h => getD_lt_of_lt hd h.1 h.2)

theorem compose_rng {d c : List Nat} {n : Nat} (hd : ∀ i ∈ d, i < n) (hr : ∀ j ∈ c, j < d.length) :
    ∀ i ∈ Spec.compose d c, i < n := by
  intro i hi
  obtain ⟨j, hj, rfl⟩ := List.mem_map.mp hi
  exact hd _ (getD_mem (hr j hj))

/-- occurrences compose -/
theorem isOcc_compose {ν π σ : NSeq} {c d : List Nat} (h1 : IsOcc ν π c) (h2 : IsOcc π σ d) :
    IsOcc ν σ (Spec.compose d c) where
  len := by rw [compose_length, h1.len]
  inc := compose_strictInc h2.inc h1.inc (by rw [h2.len]; exact h1.rng)
  rng := compose_rng h2.rng (by rw [h2.len]; exact h1.rng)
  iso := by
    intro a b ha hb
    have hac : a < c.length := by rw [h1.len]; exact ha
    have hbc : b < c.length := by rw [h1.len]; exact hb
    rw [compose_getD d c hac, compose_getD d c hbc, h1.iso a b ha hb]
    exact h2.iso _ _ (h1.rng _ (getD_mem hac)) (h1.rng _ (getD_mem hbc))

theorem getD_lt_iff {d : List Nat} (hd : d.Pairwise (· < ·)) {a b : Nat} (ha : a < d.length) (hb : b < d.length) :
    d.getD a 0 < d.getD b 0 ↔ a < b := by
  constructor
  · intro h
    by_contra hn
    have := getD_le_of_le hd (show b ≤ a by omega) ha
    omega
  · intro h; exact getD_lt_of_lt hd h hb

theorem filter_compose_length (d c : List Nat) (p : Nat → Bool) :
    ((Spec.compose d c).filter p).length = (c.filter fun j => p (d.getD j 0)).length := by
  unfold Spec.compose
  rw [List.filter_map, List.length_map]
  rfl

/-- **cell transfer**: if `d` is an occurrence of the mesh pattern `μ` in `σ`, `c` a strictly increasing
    choice of points of `μ`, and the induced sub-pattern shades cell `(x, y)`, then no point of `σ`
    outside `d ∘ c` lies in cell `(x, y)` of the grid through `d ∘ c` -/
theorem cell_transfer (μ : Mesh) (σ : NSeq) (d c : List Nat) (x y : Nat) (hπ : IsPerm μ.pattern)
    (hd : MeshOcc μ σ d) (hr : ∀ j ∈ c, j < μ.pattern.length)
    (hs : Spec.SubShaded μ c x y) (i : Nat) (hi : i < σ.length) (hic : i ∉ Spec.compose d c) :
    Spec.cellOf σ (Spec.compose d c) i ≠ (x, y) := by
  have hdl : d.length = μ.pattern.length := hd.occ.len
  have hcell : Spec.cellOf σ (Spec.compose d c) i =
      ((c.filter fun j => decide (d.getD j 0 < i)).length,
       (c.filter fun j => decide (σ.getD (d.getD j 0) 0 < σ.getD i 0)).length) := by
    unfold Spec.cellOf
    rw [filter_compose_length, filter_compose_length]
  rw [hcell]
  by_cases hid : i ∈ d
  · -- the point is a point of the occurrence of `μ` that was not chosen
    obtain ⟨idx, hidx, hie⟩ := List.getElem_of_mem hid
    have hie' : d.getD idx 0 = i := by rw [getD_eq_getElem d idx hidx]; exact hie
    have hidxn : idx < μ.pattern.length := by omega
    have hnc : idx ∉ c := by
      intro h; apply hic; rw [← hie']; exact List.mem_map.mpr ⟨idx, h, rfl⟩
    have h1 : (c.filter fun j => decide (d.getD j 0 < i)) = c.filter (· < idx) := by
      apply List.filter_congr
      intro j hj
      rw [← hie', decide_eq_decide]
      exact getD_lt_iff hd.occ.inc (by rw [hdl]; exact hr j hj) hidx
    have h2 : (c.filter fun j => decide (σ.getD (d.getD j 0) 0 < σ.getD i 0)) =
        c.filter fun j => μ.pattern.getD j 0 < μ.pattern.getD idx 0 := by
      apply List.filter_congr
      intro j hj
      rw [← hie', decide_eq_decide]
      exact (hd.occ.iso j idx (hr j hj) hidxn).symm
    rw [h1, h2]
    exact hs.pointfree idx hidxn hnc
  · -- the point lies in an unshaded cell of `μ`'s grid, which belongs to the region of `(x, y)`
    have hfree := hd.free i hi hid
    intro heq
    apply hfree
    have ha : (Spec.cellOf σ d i).1 ≤ μ.pattern.length := by rw [← hdl]; exact (cellOf_le i).1
    have hb : (Spec.cellOf σ d i).2 ≤ μ.pattern.length := by rw [← hdl]; exact (cellOf_le i).2
    have h1 : (c.filter fun j => decide (d.getD j 0 < i)) = c.filter (· < (Spec.cellOf σ d i).1) := by
      apply List.filter_congr
      intro j hj
      rw [decide_eq_decide]
      exact (lt_countLt_iff d hd.occ.inc i j (by rw [hdl]; exact hr j hj)).symm
    have h2 : (c.filter fun j => decide (σ.getD (d.getD j 0) 0 < σ.getD i 0)) =
        c.filter fun j => μ.pattern.getD j 0 < (Spec.cellOf σ d i).2 := by
      apply List.filter_congr
      intro j hj
      rw [decide_eq_decide]
      have hjn := hr j hj
      have hpj := hπ.getD_lt hjn
      have hb' : (Spec.cellOf σ d i).2 = ((wList μ.pattern σ d).filter (· < σ.getD i 0)).length :=
        countVal_eq hπ hdl _
      rw [hb', lt_countLt_iff _ (wList_sorted hπ hd.occ) _ _ (by rw [wList_length]; exact hpj),
        wList_getD hpj, valAt_pattern hπ hjn]
    have hx : Spec.countLt c (Spec.cellOf σ d i).1 = x := by
      have := congrArg Prod.fst heq
      simp only [h1] at this
      exact this
    have hy : Spec.countLt (Spec.pick μ.pattern c) (Spec.cellOf σ d i).2 = y := by
      have := congrArg Prod.snd heq
      simp only [h2] at this
      unfold Spec.countLt
      rw [filter_pick_length]
      exact this
    exact hs.shaded _ _ ha hb hx hy

end C06Lemmas
