import PermutaModel.Lemmas.C01DequeTotal
/-! C01 deque: floor/ceiling from their specifications, strictly sorted deques and the uniqueness of
    the rotation at which each loop stops. -/
open Model

/-! ### floor / ceiling from their specifications -/

theorem leftFloor_eq_none {π : NSeq} {k : Nat} (h : ∀ j < k, ¬ π.getD j 0 < π.getD k 0) :
    leftFloor π k = none := by
  have := leftFloor_spec π k
  cases hf : leftFloor π k with
  | none => rfl
  | some f => rw [hf] at this; exact absurd this.2.1 (h f this.1)

theorem leftFloor_eq_some {π : NSeq} {k f : Nat}
    (hinj : ∀ a b, a < k → b < k → π.getD a 0 = π.getD b 0 → a = b)
    (hf : f < k) (hlt : π.getD f 0 < π.getD k 0)
    (hmax : ∀ j < k, π.getD j 0 < π.getD k 0 → π.getD j 0 ≤ π.getD f 0) :
    leftFloor π k = some f := by
  have := leftFloor_spec π k
  cases hg : leftFloor π k with
  | none => rw [hg] at this; exact absurd hlt (this f hf)
  | some g =>
    rw [hg] at this
    obtain ⟨hg1, hg2, hg3⟩ := this
    have h1 := hmax g hg1 hg2
    have h2 := hg3 f hf hlt
    rw [hinj g f hg1 hf (by omega)]

theorem leftCeil_eq_none {π : NSeq} {k : Nat} (h : ∀ j < k, ¬ π.getD k 0 < π.getD j 0) :
    leftCeil π k = none := by
  have := leftCeil_spec' π k
  cases hf : leftCeil π k with
  | none => rfl
  | some f => rw [hf] at this; exact absurd this.2.1 (h f this.1)

theorem leftCeil_eq_some {π : NSeq} {k f : Nat}
    (hinj : ∀ a b, a < k → b < k → π.getD a 0 = π.getD b 0 → a = b)
    (hf : f < k) (hlt : π.getD k 0 < π.getD f 0)
    (hmin : ∀ j < k, π.getD k 0 < π.getD j 0 → π.getD f 0 ≤ π.getD j 0) :
    leftCeil π k = some f := by
  have := leftCeil_spec' π k
  cases hg : leftCeil π k with
  | none => rw [hg] at this; exact absurd hlt (this f hf)
  | some g =>
    rw [hg] at this
    obtain ⟨hg1, hg2, hg3⟩ := this
    have h1 := hmin g hg1 hg2
    have h2 := hg3 f hf hlt
    rw [hinj g f hg1 hf (by omega)]

/-! ### sorted deques -/

def lt1 (x y : Nat × Nat) : Prop := x.1 < y.1

theorem front_mem {S : Dq} (h : S ≠ []) : front S ∈ S := by
  cases S with
  | nil => exact absurd rfl h
  | cons x t => simp [front]

theorem back_mem' {S : Dq} (h : S ≠ []) : back S ∈ S := by
  cases S with
  | nil => exact absurd rfl h
  | cons x t => exact back_mem x t

theorem sorted_front_le {S : Dq} (hS : S.Pairwise lt1) {x : Nat × Nat} (hx : x ∈ S) :
    (front S).1 ≤ x.1 := by
  cases S with
  | nil => simp at hx
  | cons s t =>
    rw [front_cons]
    rcases List.mem_cons.mp hx with h | h
    · rw [h]
    · exact Nat.le_of_lt ((List.pairwise_cons.mp hS).1 x h)

theorem sorted_back_ge {S : Dq} (hS : S.Pairwise lt1) {x : Nat × Nat} (hx : x ∈ S) :
    x.1 ≤ (back S).1 := by
  rcases List.eq_nil_or_concat' S with h | ⟨t, z, h⟩
  · subst h; simp at hx
  · subst h
    rw [back_concat]
    rcases List.mem_append.mp hx with h | h
    · exact Nat.le_of_lt ((List.pairwise_append.mp hS).2.2 x h z (by simp))
    · simp at h; rw [h]

theorem front_append {a : Dq} (b : Dq) (h : a ≠ []) : front (a ++ b) = front a := by
  cases a with
  | nil => exact absurd rfl h
  | cons x t => simp [front]

theorem back_append {b : Dq} (a : Dq) (h : b ≠ []) : back (a ++ b) = back b := by
  cases b with
  | nil => exact absurd rfl h
  | cons x t => exact back_append_cons a x t

/-- a rotation of a strictly sorted deque that shows the minimum at the front is the sorted deque -/
theorem rot_front_unique {S d : Dq} (hS : S.Pairwise lt1) (hne : S ≠ []) (hr : d ~r S)
    (hf : (front d).1 = (front S).1) : d = S := by
  obtain ⟨a, b, rfl, rfl⟩ := isRotated_split hr.symm
  cases a with
  | nil => simp
  | cons x xs =>
    cases b with
    | nil => simp
    | cons y ys =>
      exfalso
      have := (List.pairwise_append.mp hS).2.2 x (by simp) y (by simp)
      simp [front, lt1] at hf this
      omega

theorem rot_back_unique {S d : Dq} (hS : S.Pairwise lt1) (hne : S ≠ []) (hr : d ~r S)
    (hf : (back d).1 = (back S).1) : d = S := by
  obtain ⟨a, b, rfl, rfl⟩ := isRotated_split hr.symm
  cases a with
  | nil => simp
  | cons x xs =>
    cases b with
    | nil => simp
    | cons y ys =>
      exfalso
      rw [back_append_cons, back_append_cons] at hf
      have := (List.pairwise_append.mp hS).2.2 _ (back_mem x xs) _ (back_mem y ys)
      simp only [lt1] at this
      omega

theorem rot_between_split {S d : Dq} {val : Nat} (hS : S.Pairwise lt1) (hne : S ≠ []) (hr : d ~r S)
    (hlo : (front S).1 < val) (hb : (back d).1 ≤ val) (hf : val ≤ (front d).1) :
    ∃ init z y ys, S = (init ++ [z]) ++ (y :: ys) ∧ d = (y :: ys) ++ (init ++ [z]) := by
  obtain ⟨a, b, rfl, rfl⟩ := isRotated_split hr.symm
  have hcontra : ∀ T : Dq, T.Pairwise lt1 → T ≠ [] → (front T).1 < val → (back T).1 ≤ val →
      val ≤ (front T).1 → False := by
    intro T _ _ h1 _ h3; omega
  rcases List.eq_nil_or_concat' a with h | ⟨init, z, h⟩
  · subst h
    simp only [List.nil_append, List.append_nil] at *
    exact (hcontra b hS hne hlo hb hf).elim
  · subst h
    cases b with
    | nil =>
      simp only [List.nil_append, List.append_nil] at *
      exact (hcontra _ hS hne hlo hb hf).elim
    | cons y ys => exact ⟨init, z, y, ys, rfl, rfl⟩
