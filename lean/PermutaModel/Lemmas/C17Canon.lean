import PermutaModel.Lemmas.C17Equiv
import PermutaModel.Driver.C17
/-! Order independence (part 4): the line the driver prints for a learned dictionary
    (`Driver.C17.showDict`: lengths, patterns, shadings and cells sorted) is the same for
    equivalent dictionaries without repetitions. -/

namespace Model.C17
open Driver.C17

/-! ### the order on cells -/

theorem cellLe_iff (a b : Cell) : cellLe a b = true ↔ a.1 < b.1 ∨ (a.1 = b.1 ∧ a.2 ≤ b.2) := by
  simp [cellLe]

theorem cellLe_total (a b : Cell) : (cellLe a b || cellLe b a) = true := by
  rw [Bool.or_eq_true, cellLe_iff, cellLe_iff]; omega

theorem cellLe_trans (a b c : Cell) (h1 : cellLe a b = true) (h2 : cellLe b c = true) :
    cellLe a c = true := by
  rw [cellLe_iff] at *; omega

theorem cellLe_antisymm (a b : Cell) (h1 : cellLe a b = true) (h2 : cellLe b a = true) : a = b := by
  rw [cellLe_iff] at *
  apply Prod.ext <;> omega

/-! ### `canonSh` depends on the set only -/

theorem mem_dedupAdj (l : List Cell) (x : Cell) : x ∈ dedupAdj l ↔ x ∈ l := by
  fun_induction dedupAdj l with
  | case1 => simp
  | case2 a => simp
  | case3 a b t h ih =>
    have : a = b := by simpa using h
    subst this
    rw [ih]; simp
  | case4 a b t h ih =>
    simp only [List.mem_cons, ih]

theorem dedupAdj_strict (l : List Cell) (hs : l.Pairwise fun a b => cellLe a b = true) :
    (dedupAdj l).Pairwise fun a b => cellLe a b = true ∧ a ≠ b := by
  fun_induction dedupAdj l with
  | case1 => exact .nil
  | case2 a => exact List.pairwise_singleton _ _
  | case3 a b t h ih => exact ih (List.pairwise_cons.mp hs).2
  | case4 a b t h ih =>
    have hab : a ≠ b := by simpa using h
    rw [List.pairwise_cons] at hs ⊢
    refine ⟨fun x hx => ?_, ih hs.2⟩
    rw [mem_dedupAdj] at hx
    refine ⟨hs.1 x hx, fun hax => ?_⟩
    subst hax
    rcases List.mem_cons.mp hx with hxb | hxt
    · exact hab hxb
    · have h1 := hs.1 b (by simp)
      have h2 := (List.pairwise_cons.mp hs.2).1 a hxt
      exact hab (cellLe_antisymm a b h1 h2)

theorem mem_canonSh (s : Shading) (x : Cell) : x ∈ canonSh s ↔ x ∈ s := by
  unfold canonSh; rw [mem_dedupAdj, List.mem_mergeSort]

theorem canonSh_strict (s : Shading) : (canonSh s).Pairwise fun a b => cellLe a b = true ∧ a ≠ b :=
  dedupAdj_strict _ (List.pairwise_mergeSort cellLe_trans cellLe_total s)

theorem canonSh_congr {s s' : Shading} (h : SetEq s s') : canonSh s = canonSh s' := by
  have n1 : (canonSh s).Nodup := (canonSh_strict s).imp fun h => h.2
  have n2 : (canonSh s').Nodup := (canonSh_strict s').imp fun h => h.2
  have hp : (canonSh s).Perm (canonSh s') :=
    (List.perm_ext_iff_of_nodup n1 n2).mpr fun a => by rw [mem_canonSh, mem_canonSh]; exact h a
  exact hp.eq_of_pairwise (fun a b _ _ h1 h2 => cellLe_antisymm a b h1.1 h2.1)
    (canonSh_strict s) (canonSh_strict s')

theorem setEq_of_canonSh {s s' : Shading} (h : canonSh s = canonSh s') : SetEq s s' := by
  intro c; rw [← mem_canonSh s, ← mem_canonSh s', h]

/-! ### the order on shadings -/

theorem cellsLe_total : ∀ l1 l2 : List Cell, (cellsLe l1 l2 || cellsLe l2 l1) = true
  | [], _ => by simp [cellsLe]
  | _ :: _, [] => by simp [cellsLe]
  | a :: as, b :: bs => by
    unfold cellsLe
    by_cases hab : a = b
    · subst hab; simp only [beq_self_eq_true, if_true]; exact cellsLe_total as bs
    · have h1 : (a == b) = false := by simpa using hab
      have h2 : (b == a) = false := by simpa using fun h : b = a => hab h.symm
      simp only [h1, h2, Bool.false_eq_true, if_false]; exact cellLe_total a b

theorem cellsLe_antisymm : ∀ l1 l2 : List Cell, cellsLe l1 l2 = true → cellsLe l2 l1 = true → l1 = l2
  | [], [] => fun _ _ => rfl
  | [], _ :: _ => fun _ h => by simp [cellsLe] at h
  | _ :: _, [] => fun h _ => by simp [cellsLe] at h
  | a :: as, b :: bs => by
    intro h1 h2
    unfold cellsLe at h1 h2
    by_cases hab : a = b
    · subst hab; simp only [beq_self_eq_true, if_true] at h1 h2
      rw [cellsLe_antisymm as bs h1 h2]
    · have e1 : (a == b) = false := by simpa using hab
      have e2 : (b == a) = false := by simpa using fun h : b = a => hab h.symm
      simp only [e1, e2, Bool.false_eq_true, if_false] at h1 h2
      exact absurd (cellLe_antisymm a b h1 h2) hab

theorem cellsLe_trans : ∀ l1 l2 l3 : List Cell, cellsLe l1 l2 = true → cellsLe l2 l3 = true →
    cellsLe l1 l3 = true
  | [], _, _ => fun _ _ => by simp [cellsLe]
  | _ :: _, [], _ => fun h _ => by simp [cellsLe] at h
  | _ :: _, _ :: _, [] => fun _ h => by simp [cellsLe] at h
  | a :: as, b :: bs, c :: cs => by
    intro h1 h2
    unfold cellsLe at h1 h2 ⊢
    by_cases hab : a = b
    · subst hab
      simp only [beq_self_eq_true, if_true] at h1
      by_cases hac : a = c
      · subst hac
        simp only [beq_self_eq_true, if_true] at h2 ⊢
        exact cellsLe_trans as bs cs h1 h2
      · have e : (a == c) = false := by simpa using hac
        simp only [e, Bool.false_eq_true, if_false] at h2 ⊢
        exact h2
    · have e1 : (a == b) = false := by simpa using hab
      simp only [e1, Bool.false_eq_true, if_false] at h1
      by_cases hbc : b = c
      · subst hbc
        simp only [e1, Bool.false_eq_true, if_false]
        exact h1
      · have e2 : (b == c) = false := by simpa using hbc
        simp only [e2, Bool.false_eq_true, if_false] at h2
        by_cases hac : a = c
        · subst hac
          exact absurd (cellLe_antisymm a b h1 h2) hab
        · have e3 : (a == c) = false := by simpa using hac
          simp only [e3, Bool.false_eq_true, if_false]
          exact cellLe_trans a b c h1 h2

/-! ### the printed list of shadings of one pattern -/

theorem canon_list_eq {Rs Rs' : List Shading} (h : ShsEquiv Rs Rs') (hc : CleanShs Rs)
    (hc' : CleanShs Rs') :
    (Rs.map canonSh).mergeSort cellsLe = (Rs'.map canonSh).mergeSort cellsLe := by
  have nd : ∀ Rs : List Shading, CleanShs Rs → (Rs.map canonSh).Nodup := by
    intro Rs hc
    unfold List.Nodup
    rw [List.pairwise_map]
    exact hc.2.imp fun hne he => hne (setEq_of_canonSh he)
  have hp : (Rs.map canonSh).Perm (Rs'.map canonSh) := by
    rw [List.perm_ext_iff_of_nodup (nd Rs hc) (nd Rs' hc')]
    intro x
    simp only [List.mem_map]
    constructor
    · rintro ⟨R, hR, rfl⟩
      obtain ⟨R', hR', he⟩ := h.1 R hR
      exact ⟨R', hR', (canonSh_congr he).symm⟩
    · rintro ⟨R', hR', rfl⟩
      obtain ⟨R, hR, he⟩ := h.2 R' hR'
      exact ⟨R, hR, canonSh_congr he⟩
  have hp2 : ((Rs.map canonSh).mergeSort cellsLe).Perm ((Rs'.map canonSh).mergeSort cellsLe) :=
    (List.mergeSort_perm _ _).trans (hp.trans (List.mergeSort_perm _ _).symm)
  exact hp2.eq_of_pairwise (fun a b _ _ h1 h2 => cellsLe_antisymm a b h1 h2)
    (List.pairwise_mergeSort cellsLe_trans cellsLe_total _)
    (List.pairwise_mergeSort cellsLe_trans cellsLe_total _)

theorem showShs_congr {Rs Rs' : List Shading} (h : ShsEquiv Rs Rs') (hc : CleanShs Rs)
    (hc' : CleanShs Rs') : showShs Rs = showShs Rs' := by
  unfold showShs
  rw [canon_list_eq h hc hc']
  have : Rs.isEmpty = Rs'.isEmpty := by
    rw [Bool.eq_iff_iff, List.isEmpty_iff, List.isEmpty_iff]; exact h.nil_iff
  rw [this]

/-! ### sorting two related lists by related keys -/

theorem forall₂_mergeSort {α β} {R : α → β → Prop} (le : α → α → Bool) (le' : β → β → Bool)
    (hle : ∀ a a' b b', R a a' → R b b' → le a b = le' a' b') {l : List α} {l' : List β}
    (h : List.Forall₂ R l l') : List.Forall₂ R (l.mergeSort le) (l'.mergeSort le') := by
  have hz : ∃ z : List (α × β), z.map Prod.fst = l ∧ z.map Prod.snd = l' ∧ ∀ p ∈ z, R p.1 p.2 := by
    induction h with
    | nil => exact ⟨[], rfl, rfl, fun p hp => by cases hp⟩
    | @cons a b l1 l2 hab _ ih =>
      obtain ⟨z, h1, h2, h3⟩ := ih
      refine ⟨(a, b) :: z, by simp [h1], by simp [h2], ?_⟩
      intro p hp
      rcases List.mem_cons.mp hp with rfl | hp
      · exact hab
      · exact h3 p hp
  obtain ⟨z, rfl, rfl, hR⟩ := hz
  rw [← List.map_mergeSort (r := fun p q => le p.1 q.1) (s := le) (f := Prod.fst) (l := z)
        (fun _ _ _ _ => rfl),
      ← List.map_mergeSort (r := fun p q => le p.1 q.1) (s := le') (f := Prod.snd) (l := z)
        (fun a ha b hb => hle _ _ _ _ (hR a ha) (hR b hb))]
  have hmem : ∀ p ∈ z.mergeSort (fun p q => le p.1 q.1), R p.1 p.2 :=
    fun p hp => hR p (List.mem_mergeSort.mp hp)
  generalize z.mergeSort (fun p q => le p.1 q.1) = w at hmem
  induction w with
  | nil => exact .nil
  | cons p t ih =>
    exact .cons (hmem p (by simp)) (ih fun q hq => hmem q (List.mem_cons_of_mem _ hq))

theorem map_eq_of_forall₂ {α β γ} {R : α → β → Prop} (f : α → γ) (g : β → γ)
    (hfg : ∀ a b, R a b → f a = g b) {l : List α} {l' : List β} (h : List.Forall₂ R l l') :
    l.map f = l'.map g := by
  induction h with
  | nil => rfl
  | cons hab _ ih => simp only [List.map_cons, hfg _ _ hab, ih]

theorem forall₂_and_mem {α β} {R : α → β → Prop} {P : α → Prop} {Q : β → Prop} {l : List α}
    {l' : List β} (h : List.Forall₂ R l l') (hP : ∀ a ∈ l, P a) (hQ : ∀ b ∈ l', Q b) :
    List.Forall₂ (fun a b => R a b ∧ P a ∧ Q b) l l' := by
  induction h with
  | nil => exact .nil
  | cons hab _ ih =>
    exact .cons ⟨hab, hP _ (by simp), hQ _ (by simp)⟩
      (ih (fun a ha => hP a (List.mem_cons_of_mem _ ha)) (fun b hb => hQ b (List.mem_cons_of_mem _ hb)))

theorem forall₂_isEmpty {α β} {R : α → β → Prop} {l : List α} {l' : List β}
    (h : List.Forall₂ R l l') : l.isEmpty = l'.isEmpty := by
  cases h <;> rfl

/-! ### levels and dictionaries -/

theorem showLevel_congr {lv lv' : Level} (h : LevelEquiv lv lv') (hc : ∀ e ∈ lv, CleanShs e.2)
    (hc' : ∀ e ∈ lv', CleanShs e.2) : showLevel lv = showLevel lv' := by
  unfold showLevel
  rw [forall₂_isEmpty h]
  have h2 := forall₂_and_mem h hc hc'
  have h3 := forall₂_mergeSort (fun a b : NSeq × List Shading => seqLe a.1 b.1)
    (fun a b : NSeq × List Shading => seqLe a.1 b.1)
    (by intro a a' b b' h1 h2; rw [h1.1.1, h2.1.1]) h2
  rw [map_eq_of_forall₂ (fun e : NSeq × List Shading => s!"{Proto.showSeq e.1}/{showShs e.2}")
    (fun e : NSeq × List Shading => s!"{Proto.showSeq e.1}/{showShs e.2}") ?_ h3]
  intro a b hab
  obtain ⟨⟨h1, h2⟩, h3, h4⟩ := hab
  simp only [h1, showShs_congr h2 h3 h4]

/-- **the printed line is the same**: equivalent dictionaries without repetitions have the same
    canonical text -/
theorem showDict_congr {d d' : PattDict} (h : DictEquiv d d') (hc : CleanDict d) (hc' : CleanDict d') :
    showDict d = showDict d' := by
  unfold showDict
  rw [forall₂_isEmpty h]
  have h2 := forall₂_and_mem h hc hc'
  have h3 := forall₂_mergeSort (fun a b : Nat × Level => decide (a.1 ≤ b.1))
    (fun a b : Nat × Level => decide (a.1 ≤ b.1))
    (by intro a a' b b' h1 h2; rw [h1.1.1, h2.1.1]) h2
  rw [map_eq_of_forall₂ (fun lv : Nat × Level => s!"{lv.1}:{showLevel lv.2}")
    (fun lv : Nat × Level => s!"{lv.1}:{showLevel lv.2}") ?_ h3]
  intro a b hab
  obtain ⟨⟨h1, h2⟩, h3, h4⟩ := hab
  simp only [h1, showLevel_congr h2 h3 h4]

end Model.C17
