import PermutaModel.Lemmas.C17Sound
/-! A5: the three input representations build the same dictionary on the keys `mine` consults. -/

namespace Model.C17

theorem foldl_congr_mem {β α} (f g : β → α → β) (l : List α) (h : ∀ b, ∀ a ∈ l, f b a = g b a) (b0 : β) :
    l.foldl f b0 = l.foldl g b0 := by
  induction l generalizing b0 with
  | nil => rfl
  | cons a t ih =>
    simp only [List.foldl_cons]
    rw [h b0 a (by simp)]
    exact ih (fun b a' ha' => h b a' (List.mem_cons_of_mem _ ha')) _

/-- `mine` only reads `goodperms[k]` for `k ≤ max M N` -/
theorem mine_congr (D1 D2 : Nat → List NSeq) (M N : Nat) (h : ∀ k, k ≤ max M N → D1 k = D2 k) :
    mine D1 M N = mine D2 M N := by
  have hci : mineCi D1 M = mineCi D2 M := by
    unfold mineCi
    apply List.filter_congr
    intro j hj
    rw [List.mem_range] at hj
    rw [h j (by omega)]
  have hinit : mineInit D1 M = mineInit D2 M := by
    unfold mineInit
    apply List.map_congr_left
    intro j hj
    rw [List.mem_range] at hj
    rw [h j (by omega)]
  have hloop : ∀ a b gp, mineLoop D1 N a b gp = mineLoop D2 N a b gp := by
    intro a b gp
    unfold mineLoop
    apply foldl_congr_mem
    intro g i hi
    rw [List.mem_range'_1] at hi
    rw [h i (by omega)]
  unfold mine
  rw [hci, hinit, hloop]

theorem flatMap_range_single {α} (g : Nat → List α) (n k : Nat) (hk : k < n)
    (h : ∀ a, a ≠ k → g a = []) : (List.range n).flatMap g = g k := by
  induction n with
  | zero => omega
  | succ n ih =>
    rw [List.range_succ, List.flatMap_append]
    simp only [List.flatMap_cons, List.flatMap_nil, List.append_nil]
    by_cases hkn : k = n
    · subst hkn
      have : (List.range k).flatMap g = [] := by
        rw [List.flatMap_eq_nil_iff]
        intro a ha; rw [List.mem_range] at ha; exact h a (by omega)
      rw [this]; simp
    · rw [ih (by omega), h n (fun h => hkn h.symm)]; simp

/-- for a set listed in the canonical order (by length, then lexicographically) the list and the
    predicate representations give the same `D` on every key up to `K` -/
theorem mkD_pred_eq_list (P : NSeq → Bool) (K n k : Nat) (hk : k ≤ n) (hn : n ≤ K) :
    mkD .pred ((Model.permsUpTo K).filter P) n k = mkD .list ((Model.permsUpTo K).filter P) n k := by
  have hA : ∀ p ∈ Model.permsLex k, ((Model.permsUpTo K).filter P).contains p = P p := by
    intro p hp
    have hmem : p ∈ (Model.permsUpTo K).filter P ↔ P p = true := by
      unfold Model.permsUpTo
      rw [List.mem_filter, List.mem_flatMap]
      constructor
      · exact fun h => h.2
      · exact fun h => ⟨⟨k, List.mem_range.mpr (by omega), hp⟩, h⟩
    cases hP : P p with
    | true => rw [List.contains_iff_mem]; exact hmem.mpr hP
    | false =>
      rw [← Bool.not_eq_true, List.contains_iff_mem, hmem, hP]; simp
  have hlist : ((Model.permsUpTo K).filter P).filter (fun p => p.length == k)
      = (Model.permsLex k).filter P := by
    unfold Model.permsUpTo
    rw [List.filter_filter, List.filter_flatMap, flatMap_range_single _ (K + 1) k (by omega)]
    · apply List.filter_congr
      intro p hp
      have hl := ((mem_permsLex_iff k p).mp hp).2
      simp [hl]
    · intro a hak
      rw [List.filter_eq_nil_iff]
      intro p hp
      have hl := ((mem_permsLex_iff a p).mp hp).2
      simp only [Bool.and_eq_true, beq_iff_eq, not_and]
      intro h; omega
  simp only [mkD, hk, if_true]
  rw [hlist]
  exact List.filter_congr hA

end Model.C17
