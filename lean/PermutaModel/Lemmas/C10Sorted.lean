import PermutaModel.Lemmas.C10Cover
import PermutaModel.Lemmas.Order

/-! `sortDedup` (the model's rendering of `sorted(set(...))`) returns a strictly `Perm.__lt__`-sorted,
    hence duplicate-free, list. -/
open Model

namespace C10L

theorem insertSorted_sorted (x : NSeq) (l : List NSeq) (h : l.Pairwise (fun a b => permLt a b = true)) :
    (insertSorted x l).Pairwise (fun a b => permLt a b = true) := by
  induction l with
  | nil => simp [insertSorted]
  | cons y ys ih =>
    obtain ⟨hy, hys⟩ := List.pairwise_cons.mp h
    unfold insertSorted
    split
    · exact h
    · next hne =>
      split
      · next hlt =>
        refine List.pairwise_cons.mpr ⟨?_, h⟩
        intro z hz
        rcases List.mem_cons.mp hz with rfl | hz
        · exact hlt
        · exact permLt_strictTotal.trans _ _ _ hlt (hy z hz)
      · next hnlt =>
        refine List.pairwise_cons.mpr ⟨?_, ih hys⟩
        intro z hz
        rcases (mem_insertSorted x z ys).mp hz with rfl | hz
        · rcases permLt_strictTotal.tri z y with h1 | h1 | h1
          · exact absurd h1 hnlt
          · subst h1; simp at hne
          · exact h1
        · exact hy z hz

/-- `sortDedup l` is strictly increasing for `Perm.__lt__` -/
theorem sortDedup_sorted (l : List NSeq) : (sortDedup l).Pairwise (fun a b => permLt a b = true) := by
  induction l with
  | nil => simp [sortDedup]
  | cons z zs ih =>
    have : sortDedup (z :: zs) = insertSorted z (sortDedup zs) := rfl
    rw [this]
    exact insertSorted_sorted z _ ih

/-- ... hence without duplicates -/
theorem sortDedup_nodup (l : List NSeq) : (sortDedup l).Nodup :=
  (sortDedup_sorted l).imp (fun h => permLt_strictTotal.ne_of_lt h)

end C10L
