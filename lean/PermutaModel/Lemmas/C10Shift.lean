import PermutaModel.Lemmas.C10Algebra
import Mathlib.Data.List.Rotate

/-! Cyclic shifts: `shiftRight` is a rotation by `t mod n`, `shiftUp` adds `t mod n` to the values. -/
open Model

namespace C10L

/-- `times % len(self)` as a natural number -/
def kOf (t : Int) (n : Nat) : Nat := (t % (n : Int)).toNat

theorem kOf_cast {n : Nat} (hn : 0 < n) (t : Int) : ((kOf t n : Nat) : Int) = t % (n : Int) := by
  unfold kOf
  exact Int.toNat_of_nonneg (Int.emod_nonneg _ (by omega))

theorem kOf_lt {n : Nat} (hn : 0 < n) (t : Int) : kOf t n < n := by
  have h := kOf_cast hn t
  have := Int.emod_lt_of_pos t (show (0 : Int) < n by omega)
  omega

theorem kOf_add {n : Nat} (hn : 0 < n) (s t : Int) : kOf (s + t) n = (kOf s n + kOf t n) % n := by
  have h1 := kOf_cast hn s
  have h2 := kOf_cast hn t
  have h3 := kOf_cast hn (s + t)
  have : ((kOf (s + t) n : Nat) : Int) = (((kOf s n + kOf t n) % n : Nat) : Int) := by
    rw [h3]; push_cast; rw [h1, h2]; exact Int.add_emod _ _ _
  exact_mod_cast this

theorem kOf_zero (n : Nat) : kOf 0 n = 0 := by simp [kOf]

theorem kOf_self (n : Nat) : kOf (n : Int) n = 0 := by simp [kOf]

theorem kOf_neg_add {n : Nat} (hn : 0 < n) (t : Int) : (kOf (-t) n + kOf t n) % n = 0 := by
  rw [← kOf_add hn, show -t + t = 0 by omega, kOf_zero]

/-- rotation to the right by `k` places -/
def rotR (p : NSeq) (k : Nat) : NSeq := p.drop (p.length - k) ++ p.take (p.length - k)

theorem shiftRight_eq (p : NSeq) (t : Int) : shiftRight p t = rotR p (kOf t p.length) := by
  unfold shiftRight rotR kOf
  split
  · next h => have : p = [] := List.eq_nil_of_length_eq_zero h
              subst this; simp
  · split
    · next h => simp [h]
    · rfl

@[simp] theorem length_rotR (p : NSeq) (k : Nat) : (rotR p k).length = p.length := by
  simp only [rotR, List.length_append, List.length_drop, List.length_take]; omega

theorem rotR_perm (p : NSeq) (k : Nat) : (rotR p k).Perm p := by
  unfold rotR
  exact List.perm_append_comm.trans (by rw [List.take_append_drop])

theorem rotR_eq_rotate (p : NSeq) (k : Nat) : rotR p k = p.rotate (p.length - k) := by
  rw [List.rotate_eq_drop_append_take (by omega)]; rfl

theorem rotR_zero (p : NSeq) : rotR p 0 = p := by simp [rotR]

theorem rotR_rotR (p : NSeq) {a b : Nat} (ha : a ≤ p.length) (hb : b ≤ p.length) (_hn : 0 < p.length) :
    rotR (rotR p a) b = rotR p ((a + b) % p.length) := by
  rw [rotR_eq_rotate, rotR_eq_rotate, rotR_eq_rotate, length_rotate', List.rotate_rotate]
  · by_cases h : a + b < p.length
    · rw [Nat.mod_eq_of_lt h]
      have : p.length - a + (p.length - b) = p.length + (p.length - (a + b)) := by omega
      rw [this, ← List.rotate_rotate, List.rotate_length]
    · by_cases h2 : a + b = 2 * p.length
      · have : (a + b) % p.length = 0 := by rw [h2]; simp
        rw [this]
        have : p.length - a + (p.length - b) = 0 := by omega
        rw [this]; simp
      · have h3 : (a + b) % p.length = a + b - p.length := by
          rw [Nat.mod_eq_sub_mod (by omega), Nat.mod_eq_of_lt (by omega)]
        rw [h3]; congr 1; omega
where
  length_rotate' : (p.rotate (p.length - a)).length = p.length := List.length_rotate _ _

theorem shiftRight_isPerm {p : NSeq} (hp : IsPerm p) (t : Int) : IsPerm (shiftRight p t) := by
  rw [shiftRight_eq]; exact isPerm_of_perm hp (rotR_perm p _)

@[simp] theorem length_shiftRight (p : NSeq) (t : Int) : (shiftRight p t).length = p.length := by
  rw [shiftRight_eq]; simp

theorem shiftRight_add (p : NSeq) (s t : Int) : shiftRight (shiftRight p t) s = shiftRight p (s + t) := by
  by_cases hn : p.length = 0
  · have : p = [] := List.eq_nil_of_length_eq_zero hn
    subst this; simp [shiftRight]
  · have hn' : 0 < p.length := Nat.pos_of_ne_zero hn
    rw [shiftRight_eq p t, shiftRight_eq, length_rotR, shiftRight_eq p (s + t),
      rotR_rotR p (Nat.le_of_lt (kOf_lt hn' t)) (Nat.le_of_lt (kOf_lt hn' s)) hn', kOf_add hn',
      Nat.add_comm]

theorem shiftRight_zero (p : NSeq) : shiftRight p 0 = p := by
  rw [shiftRight_eq, kOf_zero, rotR_zero]

theorem shiftRight_length (p : NSeq) : shiftRight p (p.length : Int) = p := by
  rw [shiftRight_eq, kOf_self, rotR_zero]

/-- `rotR` pointwise: the entry at `i` moves to `(i + k) mod n` -/
theorem rotR_getD (p : NSeq) {k i : Nat} (hk : k < p.length) (hi : i < p.length) :
    (rotR p k).getD ((i + k) % p.length) 0 = p.getD i 0 := by
  unfold rotR
  by_cases h : i + k < p.length
  · rw [Nat.mod_eq_of_lt h, List.getD_append_right _ _ _ _ (by simp; omega)]
    simp only [List.length_drop]
    have : i + k - (p.length - (p.length - k)) = i := by omega
    rw [this]
    simp only [List.getD_eq_getElem?_getD, List.getElem?_take]
    rw [if_pos (by omega)]
  · have h3 : (i + k) % p.length = i + k - p.length := by
      rw [Nat.mod_eq_sub_mod (by omega), Nat.mod_eq_of_lt (by omega)]
    rw [h3, List.getD_append _ _ _ _ (by simp; omega)]
    simp only [List.getD_eq_getElem?_getD, List.getElem?_drop]
    congr 2; omega

/-! ### vertical shifts -/

theorem shiftUp_eq {p : NSeq} (hb : ∀ x ∈ p, x < p.length) (t : Int) :
    shiftUp p t = p.map fun v => (v + kOf t p.length) % p.length := by
  unfold shiftUp
  split
  · next h => have : p = [] := List.eq_nil_of_length_eq_zero h
              subst this; simp
  · split
    · next h =>
      show p = p.map fun v => (v + (t % (p.length : Int)).toNat) % p.length
      rw [h]
      conv_lhs => rw [← List.map_id p]
      apply List.map_congr_left
      intro x hx
      simp [Nat.mod_eq_of_lt (hb x hx)]
    · rfl

@[simp] theorem length_shiftUp (p : NSeq) (t : Int) : (shiftUp p t).length = p.length := by
  unfold shiftUp; split <;> [rfl; (split <;> simp)]

theorem shiftUp_isPerm {p : NSeq} (hp : IsPerm p) (t : Int) : IsPerm (shiftUp p t) := by
  by_cases hn : p.length = 0
  · simp [shiftUp, hn, hp]
  have hn' : 0 < p.length := Nat.pos_of_ne_zero hn
  rw [shiftUp_eq hp.2]
  refine ⟨?_, ?_⟩
  · apply List.Nodup.map_on _ hp.1
    intro x hx y hy hxy
    have hx' := hp.2 x hx
    have hy' := hp.2 y hy
    have hk := kOf_lt hn' t
    generalize kOf t p.length = k at *
    by_cases h1 : x + k < p.length <;> by_cases h2 : y + k < p.length
    · rw [Nat.mod_eq_of_lt h1, Nat.mod_eq_of_lt h2] at hxy; omega
    · rw [Nat.mod_eq_of_lt h1, Nat.mod_eq_sub_mod (by omega), Nat.mod_eq_of_lt (by omega)] at hxy; omega
    · rw [Nat.mod_eq_of_lt h2, Nat.mod_eq_sub_mod (by omega), Nat.mod_eq_of_lt (by omega)] at hxy; omega
    · rw [Nat.mod_eq_sub_mod (by omega), Nat.mod_eq_of_lt (by omega),
        Nat.mod_eq_sub_mod (show y + k ≥ p.length by omega), Nat.mod_eq_of_lt (by omega)] at hxy; omega
  · intro x hx
    obtain ⟨w, _, rfl⟩ := List.mem_map.mp hx
    simp only [List.length_map]
    exact Nat.mod_lt _ hn'

theorem shiftUp_add {p : NSeq} (hp : IsPerm p) (s t : Int) : shiftUp (shiftUp p t) s = shiftUp p (s + t) := by
  by_cases hn : p.length = 0
  · have : p = [] := List.eq_nil_of_length_eq_zero hn
    subst this; simp [shiftUp]
  have hn' : 0 < p.length := Nat.pos_of_ne_zero hn
  have h1 := shiftUp_isPerm hp t
  rw [shiftUp_eq h1.2, length_shiftUp, shiftUp_eq hp.2, shiftUp_eq hp.2, kOf_add hn', List.map_map]
  apply List.map_congr_left
  intro x _
  simp only [Function.comp]
  rw [Nat.mod_add_mod, Nat.add_mod_mod, Nat.add_assoc, Nat.add_comm (kOf t _)]

/-- duality of the horizontal and vertical shifts under inversion -/
theorem shiftUp_eq_inverse_shiftRight {p : NSeq} (hp : IsPerm p) (t : Int) :
    shiftUp p t = inverse (shiftRight (inverse p) t) := by
  by_cases hn : p.length = 0
  · have : p = [] := List.eq_nil_of_length_eq_zero hn
    subst this; simp [shiftUp, shiftRight, inverse]
  have hn' : 0 < p.length := Nat.pos_of_ne_zero hn
  have hq := inverse_isPerm hp
  have hr := shiftRight_isPerm hq t
  apply ext_getD (by simp)
  intro m hm
  simp only [length_shiftUp] at hm
  have hpm := hp.getD_lt hm
  have hval : (shiftUp p t).getD m 0 = (p.getD m 0 + kOf t p.length) % p.length := by
    rw [shiftUp_eq hp.2]
    simp [List.getD_eq_getElem?_getD, hm]
  symm
  apply inverse_unique hr
  · rw [hval]
    simpa using Nat.mod_lt _ hn'
  · rw [hval, shiftRight_eq]
    have := rotR_getD (inverse p) (k := kOf t p.length) (i := p.getD m 0) (by simpa using kOf_lt hn' t)
      (by simpa using hpm)
    simp only [length_inverse] at this ⊢
    rw [this, inverse_getD_getD hp hm]

end C10L
