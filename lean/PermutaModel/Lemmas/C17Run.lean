import PermutaModel.Lemmas.C17Irr1
/-! Order independence (part 1): the hitting-set recursion `rec_w_reduce_pattern_pos` as a
    *relation* `HitRun` in which the cell branched on is an arbitrary free cell of the first
    unsatisfied member (CPython iterates over a `set` there).  `hitting` (first cell in list order)
    is one run.  Every run, after `find_badpatts`' size-sorted minimal filter (`finalize`), lists
    exactly the minimal admissible hitting sets, each once and without repeated cells. -/

namespace Model.C17

/-- one possible execution of `rec_w_reduce_pattern_pos(C, forb, lst, perm, …)`; `B` is the cell
    chosen by `for b in lst0: B = b; if B not in forb: break` for *some* iteration order of `lst0` -/
inductive HitRun (perm : NSeq) (bad : PattDict) (ci : List Nat) :
    Shading → Shading → List Shading → List Shading → Prop
  | dead (C forb : Shading) (lst : List Shading) :
      lst.any (fun L => subsetB L forb) = true → HitRun perm bad ci C forb lst []
  | done (C forb : Shading) (lst : List Shading) :
      ¬ lst.any (fun L => subsetB L forb) = true →
      lst.filter (fun L => disjointB C L) = [] → HitRun perm bad ci C forb lst [C]
  | pruned (C forb : Shading) (lst : List Shading) (lst0 : Shading) (rest : List Shading) (B : Cell)
      (r : List Shading) :
      ¬ lst.any (fun L => subsetB L forb) = true →
      lst.filter (fun L => disjointB C L) = lst0 :: rest → B ∈ lst0 → B ∉ forb →
      prunable perm (B :: C) bad ci = true →
      HitRun perm bad ci C (B :: forb) (lst0 :: rest) r → HitRun perm bad ci C forb lst r
  | branch (C forb : Shading) (lst : List Shading) (lst0 : Shading) (rest : List Shading) (B : Cell)
      (r1 r2 : List Shading) :
      ¬ lst.any (fun L => subsetB L forb) = true →
      lst.filter (fun L => disjointB C L) = lst0 :: rest → B ∈ lst0 → B ∉ forb →
      prunable perm (B :: C) bad ci = false →
      HitRun perm bad ci (B :: C) forb (lst0 :: rest) r1 →
      HitRun perm bad ci C (B :: forb) (lst0 :: rest) r2 → HitRun perm bad ci C forb lst (r1 ++ r2)

/-- the model's deterministic recursion is one run -/
theorem hitting_isRun (perm : NSeq) (bad : PattDict) (ci : List Nat) (C forb : Shading)
    (lst : List Shading) : HitRun perm bad ci C forb lst (hitting perm bad ci C forb lst) := by
  fun_induction hitting perm bad ci C forb lst with
  | case1 C forb lst h => exact .dead C forb lst h
  | case2 C forb lst hno hfil => exact .done C forb lst hno hfil
  | case3 C forb lst hno lst0 rest hfil hpr ih =>
    have hmem0 : lst0 ∈ lst.filter (fun L => disjointB C L) := by rw [hfil]; simp
    have hs : subsetB lst0 forb = false := by
      cases hsb : subsetB lst0 forb with
      | false => rfl
      | true =>
        exfalso; apply hno
        rw [List.any_eq_true]; exact ⟨lst0, (List.mem_filter.mp hmem0).1, hsb⟩
    obtain ⟨h1, h2⟩ := pickB_spec lst0 forb hs
    exact .pruned C forb lst lst0 rest _ _ hno hfil h1 h2 hpr ih
  | case4 C forb lst hno lst0 rest hfil hpr ih1 ih2 =>
    have hmem0 : lst0 ∈ lst.filter (fun L => disjointB C L) := by rw [hfil]; simp
    have hs : subsetB lst0 forb = false := by
      cases hsb : subsetB lst0 forb with
      | false => rfl
      | true =>
        exfalso; apply hno
        rw [List.any_eq_true]; exact ⟨lst0, (List.mem_filter.mp hmem0).1, hsb⟩
    obtain ⟨h1, h2⟩ := pickB_spec lst0 forb hs
    exact .branch C forb lst lst0 rest _ _ _ hno hfil h1 h2 (by simpa using hpr) ih1 ih2

/-- `H` meets every member of `Ls` -/
def HitsAll (H : Shading) (Ls : List Shading) : Prop := ∀ L ∈ Ls, ∃ b ∈ H, b ∈ L

/-- the two lists denote the same set of cells -/
def SetEq (U V : Shading) : Prop := ∀ c, c ∈ U ↔ c ∈ V

theorem SetEq.refl (U : Shading) : SetEq U U := fun _ => Iff.rfl
theorem SetEq.symm {U V : Shading} (h : SetEq U V) : SetEq V U := fun c => (h c).symm
theorem SetEq.trans {U V W : Shading} (h1 : SetEq U V) (h2 : SetEq V W) : SetEq U W :=
  fun c => (h1 c).trans (h2 c)

theorem hitsAll_filter {C H : Shading} {lst : List Shading} (hC : ∀ b ∈ C, b ∈ H)
    (h : HitsAll H (lst.filter fun L => disjointB C L)) : HitsAll H lst := by
  intro L hL
  by_cases hd : disjointB C L = true
  · exact h L (List.mem_filter.mpr ⟨hL, hd⟩)
  · simp only [Bool.not_eq_true] at hd
    obtain ⟨b, hb, hbL⟩ := disjointB_false_iff.mp hd
    exact ⟨b, hC b hb, hbL⟩

/-- every set of a run contains `C` and meets every member of `lst` -/
theorem HitRun.sound {perm : NSeq} {bad : PattDict} {ci : List Nat} {C forb : Shading}
    {lst r : List Shading} (hr : HitRun perm bad ci C forb lst r) :
    ∀ H ∈ r, (∀ b ∈ C, b ∈ H) ∧ HitsAll H lst := by
  induction hr with
  | dead C forb lst h => intro H hH; cases hH
  | done C forb lst hno hfil =>
    intro H hH
    simp only [List.mem_singleton] at hH
    subst hH
    refine ⟨fun b hb => hb, ?_⟩
    apply hitsAll_filter (fun b hb => hb)
    rw [hfil]; intro L hL; cases hL
  | pruned C forb lst lst0 rest B r hno hfil hB hBf hpr _ ih =>
    intro H hH
    obtain ⟨hC, hall⟩ := ih H hH
    exact ⟨hC, hitsAll_filter hC (by rw [hfil]; exact hall)⟩
  | branch C forb lst lst0 rest B r1 r2 hno hfil hB hBf hpr _ _ ih1 ih2 =>
    intro H hH
    rcases List.mem_append.mp hH with hH | hH
    · obtain ⟨hC, hall⟩ := ih1 H hH
      have hC' : ∀ b ∈ C, b ∈ H := fun b hb => hC b (List.mem_cons_of_mem _ hb)
      exact ⟨hC', hitsAll_filter hC' (by rw [hfil]; exact hall)⟩
    · obtain ⟨hC, hall⟩ := ih2 H hH
      exact ⟨hC, hitsAll_filter hC (by rw [hfil]; exact hall)⟩

/-- every set of a run is `C` itself or passes the pruning test -/
theorem HitRun.admissible {perm : NSeq} {bad : PattDict} {ci : List Nat} {C forb : Shading}
    {lst r : List Shading} (hr : HitRun perm bad ci C forb lst r) :
    ∀ H ∈ r, H = C ∨ prunable perm H bad ci = false := by
  induction hr with
  | dead C forb lst h => intro H hH; cases hH
  | done C forb lst hno hfil => intro H hH; left; simpa using hH
  | pruned C forb lst lst0 rest B r hno hfil hB hBf hpr _ ih => exact ih
  | branch C forb lst lst0 rest B r1 r2 hno hfil hB hBf hpr _ _ ih1 ih2 =>
    intro H hH
    rcases List.mem_append.mp hH with hH | hH
    · rcases ih1 H hH with rfl | h
      · right; exact hpr
      · right; exact h
    · exact ih2 H hH

/-- every set of a run has no repeated cell when `C` has none -/
theorem HitRun.nodup {perm : NSeq} {bad : PattDict} {ci : List Nat} {C forb : Shading}
    {lst r : List Shading} (hr : HitRun perm bad ci C forb lst r) :
    C.Nodup → ∀ H ∈ r, H.Nodup := by
  induction hr with
  | dead C forb lst h => intro _ H hH; cases hH
  | done C forb lst hno hfil => intro hC H hH; simp only [List.mem_singleton] at hH; subst hH; exact hC
  | pruned C forb lst lst0 rest B r hno hfil hB hBf hpr _ ih => exact ih
  | branch C forb lst lst0 rest B r1 r2 hno hfil hB hBf hpr _ _ ih1 ih2 =>
    intro hC H hH
    rcases List.mem_append.mp hH with hH | hH
    · apply ih1 _ H hH
      rw [List.nodup_cons]
      refine ⟨fun hBC => ?_, hC⟩
      have hmem0 : lst0 ∈ lst.filter (fun L => disjointB C L) := by rw [hfil]; simp
      exact disjointB_iff.mp (List.mem_filter.mp hmem0).2 B hBC hB
    · exact ih2 hC H hH

/-- every admissible hitting set compatible with `C` and `forb` includes a set of the run -/
theorem HitRun.complete {perm : NSeq} {bad : PattDict} {ci : List Nat} {C forb : Shading}
    {lst r : List Shading} (hr : HitRun perm bad ci C forb lst r) (H : Shading) :
    HitsAll H lst → prunable perm H bad ci = false →
    (∀ b ∈ C, b ∈ H) → (∀ b ∈ forb, b ∉ H) → ∃ H' ∈ r, ∀ b ∈ H', b ∈ H := by
  induction hr with
  | dead C forb lst h =>
    intro hhit _ _ hforb
    exfalso
    obtain ⟨L, hL, hsub⟩ := List.any_eq_true.mp h
    obtain ⟨b, hbH, hbL⟩ := hhit L hL
    exact hforb b (subsetB_iff.mp hsub b hbL) hbH
  | done C forb lst hno hfil =>
    intro _ _ hC _
    exact ⟨C, by simp, hC⟩
  | pruned C forb lst lst0 rest B r hno hfil hB hBf hpr _ ih =>
    intro hhit hF hC hforb
    have hsub : HitsAll H (lst0 :: rest) := by
      intro L hL; rw [← hfil] at hL; exact hhit L (List.mem_filter.mp hL).1
    apply ih hsub hF hC
    intro b hb
    rcases List.mem_cons.mp hb with rfl | hb
    · intro hBH
      have : prunable perm H bad ci = true :=
        prunable_mono perm _ H (by
          intro c hc
          rcases List.mem_cons.mp hc with rfl | hc
          · exact hBH
          · exact hC c hc) bad ci hpr
      rw [hF] at this; cases this
    · exact hforb b hb
  | branch C forb lst lst0 rest B r1 r2 hno hfil hB hBf hpr _ _ ih1 ih2 =>
    intro hhit hF hC hforb
    have hsub : HitsAll H (lst0 :: rest) := by
      intro L hL; rw [← hfil] at hL; exact hhit L (List.mem_filter.mp hL).1
    by_cases hBH : B ∈ H
    · obtain ⟨H', hH', hsubH⟩ := ih1 hsub hF (by
        intro b hb
        rcases List.mem_cons.mp hb with rfl | hb
        · exact hBH
        · exact hC b hb) hforb
      exact ⟨H', List.mem_append_left _ hH', hsubH⟩
    · obtain ⟨H', hH', hsubH⟩ := ih2 hsub hF hC (by
        intro b hb
        rcases List.mem_cons.mp hb with rfl | hb
        · exact hBH
        · exact hforb b hb)
      exact ⟨H', List.mem_append_right _ hH', hsubH⟩

/-! ### `find_badpatts`' filter on the result of a run -/

/-- lines 255-272: sort by decreasing size, keep a set unless a later one is included in it -/
def finalize (r : List Shading) : List Shading :=
  keepMinimal (r.mergeSort fun a b => setSize a ≥ setSize b)

/-- `R` is a minimal member of the family of hitting sets of `Ls` that pass the pruning test -/
def MinAdm (perm : NSeq) (bad : PattDict) (ci : List Nat) (Ls : List Shading) (R : Shading) : Prop :=
  HitsAll R Ls ∧ prunable perm R bad ci = false ∧
    ∀ H, HitsAll H Ls → prunable perm H bad ci = false → (∀ b ∈ H, b ∈ R) → ∀ b ∈ R, b ∈ H

theorem keepMinimal_below (l : List Shading) : ∀ x ∈ l, ∃ y ∈ keepMinimal l, subsetB y x = true := by
  induction l with
  | nil => intro x hx; cases hx
  | cons a t ih =>
    intro x hx
    unfold keepMinimal
    by_cases hany : t.any (fun s => subsetB s a) = true
    · simp only [hany, if_true]
      rcases List.mem_cons.mp hx with rfl | hx
      · obtain ⟨s, hs, hsa⟩ := List.any_eq_true.mp hany
        obtain ⟨y, hy, hys⟩ := ih s hs
        exact ⟨y, hy, subsetB_trans hys hsa⟩
      · exact ih x hx
    · simp only [hany]
      rcases List.mem_cons.mp hx with rfl | hx
      · exact ⟨x, by simp, subsetB_refl x⟩
      · obtain ⟨y, hy, hyx⟩ := ih x hx
        exact ⟨y, List.mem_cons_of_mem _ hy, hyx⟩

theorem keepMinimal_pairwise (l : List Shading) :
    (keepMinimal l).Pairwise fun a b => subsetB b a = false := by
  induction l with
  | nil => simp [keepMinimal]
  | cons a t ih =>
    unfold keepMinimal
    by_cases hany : t.any (fun s => subsetB s a) = true
    · simp only [hany, if_true]; exact ih
    · simp only [hany, Bool.false_eq_true, if_false]
      rw [List.pairwise_cons]
      refine ⟨fun s hs => ?_, ih⟩
      cases hsb : subsetB s a with
      | false => rfl
      | true => exact absurd (List.any_eq_true.mpr ⟨s, keepMinimal_subset t s hs, hsb⟩) hany

theorem mem_finalize_run {r : List Shading} {R : Shading} (h : R ∈ finalize r) : R ∈ r :=
  List.mem_mergeSort.mp (keepMinimal_subset _ R h)

/-- with a non-empty family, every set of a run from `C = ∅` passes the pruning test -/
theorem HitRun.adm_of_ne {perm : NSeq} {bad : PattDict} {ci : List Nat} {forb : Shading}
    {Ls r : List Shading} (hr : HitRun perm bad ci [] forb Ls r) (hne : Ls ≠ []) :
    ∀ H ∈ r, prunable perm H bad ci = false := by
  intro H hH
  rcases hr.admissible H hH with rfl | h
  · exfalso
    cases Ls with
    | nil => exact hne rfl
    | cons L t =>
      obtain ⟨b, hb, _⟩ := (hr.sound [] hH).2 L (by simp)
      cases hb
  · exact h

/-- every set kept by `find_badpatts` is a minimal admissible hitting set (for *every* run) -/
theorem finalize_minAdm {perm : NSeq} {bad : PattDict} {ci : List Nat} {Ls r : List Shading}
    (hr : HitRun perm bad ci [] [] Ls r) (hne : Ls ≠ []) (R : Shading) (hR : R ∈ finalize r) :
    MinAdm perm bad ci Ls R := by
  have hRr := mem_finalize_run hR
  refine ⟨(hr.sound R hRr).2, hr.adm_of_ne hne R hRr, ?_⟩
  intro H hhit hadm hHR b hbR
  obtain ⟨H', hH', hsubH⟩ := hr.complete H hhit hadm (fun b hb => by cases hb) (fun b hb => by cases hb)
  have hH'R : ∀ b ∈ H', b ∈ R := fun b hb => hHR b (hsubH b hb)
  obtain ⟨l1, l2, hl, hl2⟩ := keepMinimal_split _ R hR
  have hsorted := List.pairwise_mergeSort (le := fun a b : Shading => decide (setSize a ≥ setSize b))
    (by intro a b c h1 h2; simp only [decide_eq_true_eq] at *; omega)
    (by intro a b; simp only [Bool.or_eq_true, decide_eq_true_eq]; omega) r
  have hH'l : H' ∈ r.mergeSort (fun a b => decide (setSize a ≥ setSize b)) := List.mem_mergeSort.mpr hH'
  rw [hl] at hsorted hH'l
  rcases List.mem_append.mp hH'l with h1 | h1
  · rw [List.pairwise_append] at hsorted
    have hsz := hsorted.2.2 H' h1 R (by simp)
    simp only [decide_eq_true_eq] at hsz
    apply hsubH
    apply Classical.byContradiction
    intro hbH'
    have := setSize_lt H' R b hH'R hbR hbH'
    omega
  · rcases List.mem_cons.mp h1 with rfl | h1
    · exact hsubH b hbR
    · have := hl2 H' h1
      rw [subsetB_iff.mpr hH'R] at this; cases this

/-- every minimal admissible hitting set is listed by `find_badpatts` (for *every* run) -/
theorem finalize_complete {perm : NSeq} {bad : PattDict} {ci : List Nat} {Ls r : List Shading}
    (hr : HitRun perm bad ci [] [] Ls r) (hne : Ls ≠ []) (R : Shading)
    (hR : MinAdm perm bad ci Ls R) : ∃ R' ∈ finalize r, SetEq R' R := by
  obtain ⟨hhit, hadm, hmin⟩ := hR
  obtain ⟨H', hH', hsubH⟩ := hr.complete R hhit hadm (fun b hb => by cases hb) (fun b hb => by cases hb)
  obtain ⟨y, hy, hyH'⟩ := keepMinimal_below (r.mergeSort fun a b => setSize a ≥ setSize b) H'
    (List.mem_mergeSort.mpr hH')
  have hyr : y ∈ r := mem_finalize_run hy
  have hyR : ∀ b ∈ y, b ∈ R := fun b hb => hsubH b (subsetB_iff.mp hyH' b hb)
  refine ⟨y, hy, fun c => ⟨hyR c, ?_⟩⟩
  exact hmin y (hr.sound y hyr).2 (hr.adm_of_ne hne y hyr) hyR c

/-- the list kept by `find_badpatts` has no repeated cell in a set and no set twice -/
theorem finalize_clean {perm : NSeq} {bad : PattDict} {ci : List Nat} {Ls r : List Shading}
    (hr : HitRun perm bad ci [] [] Ls r) :
    (∀ R ∈ finalize r, R.Nodup) ∧ (finalize r).Pairwise fun a b => ¬ SetEq a b := by
  refine ⟨fun R hR => hr.nodup List.nodup_nil R (mem_finalize_run hR), ?_⟩
  refine (keepMinimal_pairwise _).imp ?_
  intro a b hba hab
  rw [subsetB_iff.mpr (fun c hc => (hab c).mpr hc)] at hba
  cases hba

end Model.C17
