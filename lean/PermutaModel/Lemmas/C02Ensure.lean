import PermutaModel.Lemmas.C02BuildOne
import PermutaModel.Model.C07

/-! C02 helpers, part 8: iterating the builder (`ensureClassical`, `buildTrace`), compaction,
    `ensureLevel` / `ensureTrace` for classical bases. -/
open List Model Model.C02 Model.C07

namespace C02L

/-! ### compaction -/

@[simp] theorem length_compact (c : List Level) (s n : Nat) : (compact c s n).length = c.length := by
  simp [compact]

theorem getD_compact (c : List Level) (s n i : Nat) :
    (compact c s n).getD i [] =
      if s ≤ i ∧ i + 1 < n then (c.getD i []).map (fun e => (e.1, none)) else c.getD i [] := by
  unfold compact
  simp only [List.getD_eq_getElem?_getD, List.getElem?_map, List.getElem?_zipIdx]
  cases h : c[i]? with
  | none => simp
  | some l => simp

theorem keys_compact (c : List Level) (s n i : Nat) :
    ((compact c s n).getD i []).keys = (c.getD i []).keys := by
  rw [getD_compact]
  split_ifs
  · simp [Level.keys, Function.comp_def]
  · rfl

/-- compaction that touches nothing is the identity -/
theorem compact_eq_self (c : List Level) (s n : Nat) (h : n ≤ s + 1) : compact c s n = c := by
  apply List.ext_getElem (by simp)
  intro i h1 h2
  have := getD_compact c s n i
  rw [if_neg (by omega)] at this
  simpa [List.getD_eq_getElem?_getD, h1, h2] using this

/-- compaction leaves the last two levels alone as long as `n < length` -/
theorem CacheInv.compact {b : List NSeq} {c : List Level} (h : CacheInv b c) (s n : Nat)
    (hn : n < c.length) : CacheInv b (compact c s n) := by
  refine ⟨by simpa using h.pos, ?_, ?_, ?_⟩
  · intro i hi
    rw [keys_compact]; exact h.keys i (by simpa using hi)
  · intro e he
    rw [length_compact, getD_compact, if_neg (by omega)] at he
    exact h.last e he
  · intro h2 e he
    rw [length_compact] at h2
    rw [length_compact, getD_compact, if_neg (by omega)] at he
    exact h.prev h2 e he

/-! ### iterating the builder -/

/-- what every state reached from `c` satisfies -/
structure Extends (b : List NSeq) (c w : List Level) : Prop where
  inv : CacheInv b w
  len : c.length ≤ w.length
  keys : ∀ i, i < c.length → (w.getD i []).keys = (c.getD i []).keys

theorem Extends.refl {b : List NSeq} {c : List Level} (h : CacheInv b c) : Extends b c c :=
  ⟨h, Nat.le_refl _, fun _ _ => rfl⟩

theorem Extends.trans {b : List NSeq} {c w u : List Level} (h1 : Extends b c w) (h2 : Extends b w u) :
    Extends b c u :=
  ⟨h2.inv, Nat.le_trans h1.len h2.len, fun i hi => by
    rw [h2.keys i (Nat.lt_of_lt_of_le hi h1.len), h1.keys i hi]⟩

theorem Extends.compact {b : List NSeq} {c w : List Level} (h : Extends b c w) (s n : Nat)
    (hn : n < w.length) : Extends b c (compact w s n) :=
  ⟨h.inv.compact s n hn, by simpa using h.len, fun i hi => by rw [keys_compact, h.keys i hi]⟩

/-- **T2 (builder part)**: `k` rounds succeed, add `k` levels, keep the invariant and the old keys;
    `buildTrace` lists exactly the intermediate caches -/
theorem ensureClassical_correct {b : List NSeq} (hb : ValidBasis b) : ∀ (k : Nat) (c : List Level),
    CacheInv b c →
    ∃ c' tr, ensureClassical b k c = .ok c' ∧ buildTrace b k c = .ok tr ∧
      Extends b c c' ∧ c'.length = c.length + k ∧ tr.getLastD c = c' ∧ ∀ w ∈ tr, Extends b c w
  | 0, c, h => ⟨c, [], rfl, rfl, Extends.refl h, rfl, rfl, by simp⟩
  | k+1, c, h => by
    obtain ⟨c1, h1, hinv1, hlen1, hkeys1⟩ := buildOne_correct hb h
    have e1 : Extends b c c1 := ⟨hinv1, by omega, hkeys1⟩
    obtain ⟨c', tr, h2, h3, hext, hlen, hlast, htr⟩ := ensureClassical_correct hb k c1 hinv1
    refine ⟨c', c1 :: tr, by simp [ensureClassical, h1, h2], by simp [buildTrace, h1, h3],
      e1.trans hext, by omega, ?_, ?_⟩
    · cases tr with
      | nil => simpa using hlast
      | cons x xs =>
        rw [← hlast]
        simp only [List.getLastD_eq_getLast?, List.getLast?_cons_cons]
        rw [List.getLast?_eq_some_getLast (List.cons_ne_nil x xs)]; rfl
    · intro w hw
      rcases List.mem_cons.mp hw with rfl | hw
      · exact e1
      · exact e1.trans (htr w hw)

/-! ### `ensureLevel` and its trace -/

theorem getLastD_map {α β} (f : α → β) (l : List α) (d : α) : (l.map f).getLastD (f d) = f (l.getLastD d) := by
  simp only [List.getLastD_eq_getLast?, List.getLast?_map]
  cases l.getLast? <;> rfl

theorem getLastD_append {α} (l1 l2 : List α) (d : α) :
    (l1 ++ l2).getLastD d = l2.getLastD (l1.getLastD d) := by
  simp only [List.getLastD_eq_getLast?, List.getLast?_append]
  cases l2.getLast? <;> simp

theorem compactTrace_getLastD (c : List Level) (s n : Nat) :
    (compactTrace c s n).getLastD c = compact c s n := by
  unfold compactTrace
  cases hk : n - (s + 1) with
  | zero => simp [compact_eq_self c s n (by omega)]
  | succ k =>
    rw [List.range'_concat, List.map_append, getLastD_append]
    have : s + 2 + k = n := by omega
    simp [this]

theorem mem_compactTrace {c : List Level} {s n : Nat} {x : List Level} (h : x ∈ compactTrace c s n) :
    ∃ L, L ≤ n ∧ x = compact c s L := by
  unfold compactTrace at h
  obtain ⟨L, hL, rfl⟩ := List.mem_map.mp h
  rw [List.mem_range'_1] at hL
  exact ⟨L, by omega, rfl⟩

/-- **T2/T3 for classical bases**: `_ensure_level(n)` succeeds for every `n`, keeps the invariant and
    the keys of the old levels, makes level `n` available; every intermediate state of its trace
    already satisfies the invariant, and the trace ends in the result -/
theorem ensureLevel_classical {b : List NSeq} (hb : ValidBasis b) (o : AvObj)
    (hob : o.basis = .classical b) (h : CacheInv b o.cache) (n : Nat) :
    ∃ o' tr, ensureLevel o n = .ok o' ∧ ensureTrace o n = .ok tr ∧ o'.basis = o.basis ∧
      Extends b o.cache o'.cache ∧ n < o'.cache.length ∧ tr.getLastD o = o' ∧
      ∀ w ∈ tr, w.basis = o.basis ∧ Extends b o.cache w.cache := by
  obtain ⟨c', tr, h1, h2, hext, hlen, hlast, htr⟩ :=
    ensureClassical_correct hb (n + 1 - o.cache.length) o.cache h
  have hn : n < c'.length := by omega
  refine ⟨{ o with cache := compact c' (o.cache.length - 2) n },
    (tr ++ compactTrace (tr.getLastD o.cache) (o.cache.length - 2) n).map fun c => { o with cache := c },
    by simp only [ensureLevel, hob, h1], by simp only [ensureTrace, hob, h2], rfl,
    hext.compact _ _ hn, by simpa using hn, ?_, ?_⟩
  · have : o = (fun c => { o with cache := c }) o.cache := rfl
    conv_lhs => rw [this]
    rw [getLastD_map (fun c => ({ o with cache := c } : AvObj)), getLastD_append, hlast, compactTrace_getLastD]
  · intro w hw
    obtain ⟨x, hx, rfl⟩ := List.mem_map.mp hw
    refine ⟨rfl, ?_⟩
    rcases List.mem_append.mp hx with hx | hx
    · exact htr x hx
    · rw [hlast] at hx
      obtain ⟨L, hL, rfl⟩ := mem_compactTrace hx
      exact hext.compact _ _ (by omega)

end C02L
