import PermutaModel.Lemmas.C04Equiv
import PermutaModel.Lemmas.C04Order
import PermutaModel.Spec.C04
/-! C04 helper lemmas: the action of `D8`, the orbit listings of `all_syms` / `all_symmetry_sets`
    and the invariance of `lex_min`. -/
open Model

namespace C04L

theorem isPerm_act {p : NSeq} (hp : IsPerm p) (g : D8) : IsPerm (g.act p) := by
  rcases g with ⟨r, c, i⟩
  cases r <;> cases c <;> cases i <;>
    simp (maxDischargeDepth := 8) [D8.act, hp, isPerm_reverse, isPerm_complement, isPerm_inverse]

/-- the action is a group action: the multiplication table of `D8` is the composition of the maps -/
theorem act_mul {p : NSeq} (hp : IsPerm p) (g h : D8) : g.act (h.act p) = (g.mul h).act p := by
  rcases g with ⟨r, c, i⟩
  rcases h with ⟨r', c', i'⟩
  cases r <;> cases c <;> cases i <;> cases r' <;> cases c' <;> cases i' <;>
    simp (maxDischargeDepth := 8) [D8.act, D8.mul, hp, isPerm_complement, isPerm_inverse,
      inverse_reverse, inverse_complement, complement_reverse, inverse_inverse, complement_complement,
      reverse_reverse]

theorem act_one (p : NSeq) : D8.one.act p = p := rfl

theorem mul_inv_cancel (k g : D8) : (k.mul g.inv).mul g = k := by
  rcases g with ⟨r, c, i⟩
  rcases k with ⟨r', c', i'⟩
  cases r <;> cases c <;> cases i <;> cases r' <;> cases c' <;> cases i' <;> rfl

theorem inv_mul (g : D8) : g.inv.mul g = D8.one := by
  rcases g with ⟨r, c, i⟩
  cases r <;> cases c <;> cases i <;> rfl

theorem mem_all (g : D8) : g ∈ D8.all := by
  rcases g with ⟨r, c, i⟩
  cases r <;> cases c <;> cases i <;> simp [D8.all]

theorem mem_codeOrder (g : D8) : g ∈ codeOrder := by
  rcases g with ⟨r, c, i⟩
  cases r <;> cases c <;> cases i <;> simp [codeOrder]

theorem rotate_one (p : NSeq) : rotate p 1 = rotate1 p := by
  unfold rotate; rfl

/-! the eight images in the code's order, as words in the generators -/
theorem rot1_eq {p : NSeq} : rotate p 1 = complement (inverse p) := by rw [rotate_one, rotate1_eq]
theorem inv_rot1_eq {p : NSeq} (hp : IsPerm p) : inverse (rotate p 1) = reverse p := by
  rw [rot1_eq, inverse_complement (isPerm_inverse hp), inverse_inverse hp]
theorem rot2_eq {p : NSeq} (hp : IsPerm p) : rotate (rotate p 1) 1 = reverse (complement p) := by
  rw [rotate_one, rotate_one, rotate1_rotate1 hp, reverseComplement_eq_reverse_complement]
theorem inv_rot2_eq {p : NSeq} (hp : IsPerm p) :
    inverse (rotate (rotate p 1) 1) = reverse (complement (inverse p)) := by
  rw [rot2_eq hp, inverse_reverse (isPerm_complement hp), inverse_complement hp, complement_reverse]
theorem rot3_eq {p : NSeq} (hp : IsPerm p) : rotate (rotate (rotate p 1) 1) 1 = reverse (inverse p) := by
  rw [rotate_one, rotate_one, rotate_one, rotate1_rotate1 hp, rotate1_reverseComplement hp, rotate3_eq]
theorem inv_rot3_eq {p : NSeq} (hp : IsPerm p) :
    inverse (rotate (rotate (rotate p 1) 1) 1) = complement p := by
  rw [rot3_eq hp, inverse_reverse (isPerm_inverse hp), inverse_inverse hp]

theorem allSymsList_eq {p : NSeq} (hp : IsPerm p) : allSymsList p = codeOrder.map fun g => g.act p := by
  simp only [allSymsList, codeOrder, List.map_cons, List.map_nil, D8.act]
  rw [inv_rot1_eq hp, inv_rot2_eq hp, inv_rot3_eq hp, rot3_eq hp, rot2_eq hp, rot1_eq]
  simp

theorem mem_allSymsList {p : NSeq} (hp : IsPerm p) (q : NSeq) :
    q ∈ allSymsList p ↔ ∃ g : D8, q = g.act p := by
  rw [allSymsList_eq hp, List.mem_map]
  constructor
  · rintro ⟨g, _, rfl⟩; exact ⟨g, rfl⟩
  · rintro ⟨g, rfl⟩; exact ⟨g, mem_codeOrder g, rfl⟩

theorem sortPerms_def (l : List NSeq) :
    sortPerms l = l.mergeSort (fun a b => permLt a b || a == b) := rfl

theorem mem_allSyms {p : NSeq} (hp : IsPerm p) (q : NSeq) : q ∈ allSyms p ↔ ∃ g : D8, q = g.act p := by
  unfold allSyms sortPerms
  rw [List.mem_mergeSort, List.mem_eraseDups, mem_allSymsList hp]

/-- the orbit of an image is the orbit -/
theorem orbit_act {p : NSeq} (hp : IsPerm p) (g : D8) (q : NSeq) :
    (∃ h : D8, q = h.act (g.act p)) ↔ ∃ h : D8, q = h.act p := by
  constructor
  · rintro ⟨h, rfl⟩; exact ⟨h.mul g, act_mul hp h g⟩
  · rintro ⟨h, rfl⟩
    refine ⟨h.mul g.inv, ?_⟩
    rw [act_mul hp, mul_inv_cancel]

theorem allSyms_act {p : NSeq} (hp : IsPerm p) (g : D8) : allSyms (g.act p) = allSyms p := by
  unfold allSyms
  rw [sortPerms_def, sortPerms_def]
  apply canon_congr permLt_strictTotal
  intro q
  rw [mem_allSymsList (isPerm_act hp g), mem_allSymsList hp, orbit_act hp]

/-! ### sets -/
theorem map_act_mul {s : List NSeq} (hs : ∀ p ∈ s, IsPerm p) (g h : D8) :
    (s.map h.act).map g.act = s.map (g.mul h).act := by
  rw [List.map_map]
  apply List.map_congr_left
  intro p hp
  exact act_mul (hs p hp) g h

theorem allSymmetrySetsList_eq {s : List NSeq} (hs : ∀ p ∈ s, IsPerm p) :
    allSymmetrySetsList s = codeOrder.map fun g => sortPerms (s.map g.act) := by
  have h1 : ∀ p ∈ s, IsPerm (rotate p 1) := fun p hp => isPerm_rotate (hs p hp) 1
  simp only [allSymmetrySetsList, rotate90Set, inverseSet, codeOrder, List.map_cons, List.map_nil,
    List.map_map, Function.comp_def]
  have e1 : s.map (fun p => inverse (rotate p 1)) = s.map reverse :=
    List.map_congr_left fun p hp => inv_rot1_eq (hs p hp)
  have e2 : s.map (fun p => rotate (rotate p 1) 1) = s.map (fun p => reverse (complement p)) :=
    List.map_congr_left fun p hp => rot2_eq (hs p hp)
  have e3 : s.map (fun p => inverse (rotate (rotate p 1) 1)) =
      s.map (fun p => reverse (complement (inverse p))) :=
    List.map_congr_left fun p hp => inv_rot2_eq (hs p hp)
  have e4 : s.map (fun p => rotate (rotate (rotate p 1) 1) 1) = s.map (fun p => reverse (inverse p)) :=
    List.map_congr_left fun p hp => rot3_eq (hs p hp)
  have e5 : s.map (fun p => inverse (rotate (rotate (rotate p 1) 1) 1)) = s.map complement :=
    List.map_congr_left fun p hp => inv_rot3_eq (hs p hp)
  have e0 : s.map (fun p => rotate p 1) = s.map (fun p => complement (inverse p)) :=
    List.map_congr_left fun p _ => rot1_eq
  rw [e1, e2, e3, e4, e5, e0]
  unfold D8.act
  simp

theorem mem_allSymmetrySetsList {s : List NSeq} (hs : ∀ p ∈ s, IsPerm p) (x : List NSeq) :
    x ∈ allSymmetrySetsList s ↔ ∃ g : D8, x = sortPerms (s.map g.act) := by
  rw [allSymmetrySetsList_eq hs, List.mem_map]
  constructor
  · rintro ⟨g, _, rfl⟩; exact ⟨g, rfl⟩
  · rintro ⟨g, rfl⟩; exact ⟨g, mem_codeOrder g, rfl⟩

theorem mem_allSymmetrySetsList_act {s : List NSeq} (hs : ∀ p ∈ s, IsPerm p) (g : D8) (x : List NSeq) :
    x ∈ allSymmetrySetsList (s.map g.act) ↔ x ∈ allSymmetrySetsList s := by
  have hs' : ∀ p ∈ s.map g.act, IsPerm p := by
    intro p hp
    obtain ⟨q, hq, rfl⟩ := List.mem_map.mp hp
    exact isPerm_act (hs q hq) g
  rw [mem_allSymmetrySetsList hs', mem_allSymmetrySetsList hs]
  constructor
  · rintro ⟨h, rfl⟩; exact ⟨h.mul g, by rw [map_act_mul hs]⟩
  · rintro ⟨h, rfl⟩
    exact ⟨h.mul g.inv, by rw [map_act_mul hs, mul_inv_cancel]⟩

theorem allSymmetrySetsList_perm {s s' : List NSeq} (h : s.Perm s') :
    allSymmetrySetsList s = allSymmetrySetsList s' := by
  have key : ∀ (f : NSeq → NSeq), sortPerms (s.map f) = sortPerms (s'.map f) := by
    intro f
    rw [sortPerms_def, sortPerms_def]
    exact mergeSort_eq_of_perm permLt_strictTotal (h.map f)
  simp only [allSymmetrySetsList, rotate90Set, inverseSet, List.map_map]
  rw [key, key, key, key, key, key, key]
  have := key id
  simp only [List.map_id] at this
  rw [this]

end C04L

namespace C04L
open Model

theorem contains_act_of {σ π : NSeq} (hπ : IsPerm π) (hσ : IsPerm σ) (g : D8) (h : Contains σ π) :
    Contains (g.act σ) (g.act π) := by
  rcases g with ⟨r, c, i⟩
  cases r <;> cases c <;> cases i <;> simp only [D8.act, if_true, Bool.false_eq_true, if_false] <;>
    repeat (first
      | exact h | exact hπ | exact hσ
      | apply contains_reverse_of | apply contains_complement_of | apply contains_inverse_of
      | apply isPerm_inverse | apply isPerm_complement)

theorem rotate_eq_act (p : NSeq) (t : Int) : rotate p t = (rotD8 t).act p := by
  unfold rotate rotD8
  split_ifs
  · rfl
  · rw [reverseComplement_eq_reverse_complement]; rfl
  · rw [rotate1_eq]; rfl
  · rw [rotate3_eq]; rfl

theorem tupleLe_def : tupleLe = fun a b => tupleLt a b || a == b := rfl

end C04L
