import PermutaModel.Lemmas.C12Families
import PermutaModel.Lemmas.C12Count
/-! C12: the pop-stack.  One pass sorts iff the input avoids 231 and 312 (induction along the
    device); every pass over an unsorted duplicate-free list removes an inversion, so at most
    `|σ|²` passes sort a permutation. -/
open Model Spec List

namespace C12

/-- an occurrence of 312: `b < c < a` -/
def Has312 (l : List Nat) : Prop := Has3 (fun a b c => b < c ∧ c < a) l

theorem rel3_312 (a b c : Nat) : Rel3 [2, 0, 1] a b c ↔ b < c ∧ c < a := by
  constructor
  · intro h
    have h1 := h 1 2 (by omega) (by omega)
    have h2 := h 2 0 (by omega) (by omega)
    simp at h1 h2; exact ⟨h1, h2⟩
  · rintro ⟨h1, h2⟩
    apply rel3_of 2 0 1 rfl <;> constructor <;> intro <;> omega

theorem contains_312_iff (σ : NSeq) : Contains σ [2, 0, 1] ↔ Has312 σ :=
  (contains3_iff _ σ rfl).trans (has3_congr rel3_312 σ)

/-- a descending block below everything that follows adds no 231 / 312 -/
theorem block_then_rest {X Y : List Nat} (hX : X.Pairwise (· > ·)) (hXY : ∀ a ∈ X, ∀ y ∈ Y, a < y)
    {a b c : Nat} (hs : [a, b, c] <+ X ++ Y) (hca : c < a) :
    [a, b, c] <+ Y ∨ (b < a ∧ c < b) := by
  rcases sub3_append hs with h | ⟨h, hc⟩ | ⟨ha, h⟩ | h
  · right
    have hab : [a, b] <+ X := (by simp : [a, b] <+ [a, b, c]).trans h
    have hbc : [b, c] <+ X := (by simp : [b, c] <+ [a, b, c]).trans h
    exact ⟨pairwise_iff_forall_sublist.mp hX hab, pairwise_iff_forall_sublist.mp hX hbc⟩
  · have := hXY a (sub2_mem h).1 c hc; omega
  · have := hXY a ha c (sub2_mem h).2; omega
  · exact Or.inl h

theorem mem_popRun (l st : List Nat) (x : Nat) : x ∈ popRun l st ↔ x ∈ l ∨ x ∈ st := by
  rw [(popRun_perm l st).mem_iff, mem_append]

/-- **pop-stack, list level**: with `st` the (ascending, top first) stack content, i.e. `st.reverse`
    the descending run just read, the output is sorted iff the word read so far and to come has
    no 231 and no 312 -/
theorem popRun_sorted_iff : ∀ (l st : List Nat), st.Pairwise (· < ·) → (st.reverse ++ l).Nodup →
    ((popRun l st).Pairwise (· < ·) ↔ ¬ Has231 (st.reverse ++ l) ∧ ¬ Has312 (st.reverse ++ l))
  | [], st, hst, _ => by
    simp only [popRun, append_nil, hst, true_iff]
    have hdesc : st.reverse.Pairwise (· > ·) := pairwise_reverse.mpr hst
    constructor
    · rintro ⟨a, b, c, hs, _, hab⟩
      have := pairwise_iff_forall_sublist.mp hdesc ((by simp : [a, b] <+ [a, b, c]).trans hs)
      omega
    · rintro ⟨a, b, c, hs, hbc, _⟩
      have := pairwise_iff_forall_sublist.mp hdesc ((by simp : [b, c] <+ [a, b, c]).trans hs)
      omega
  | x :: xs, [], _, hnd => by
    simp only [popRun, reverse_nil, nil_append] at hnd ⊢
    have := popRun_sorted_iff xs [x] (by simp) (by simpa using hnd)
    simpa using this
  | x :: xs, t :: st, hst, hnd => by
    have hdesc : (t :: st).reverse.Pairwise (· > ·) := pairwise_reverse.mpr hst
    have htmin : ∀ a ∈ st, t < a := (pairwise_cons.mp hst).1
    by_cases htx : t < x
    · -- the whole stack is popped, `x` starts a new run
      simp only [popRun, htx, if_true]
      have hnd2 : (x :: xs).Nodup := (nodup_append.mp hnd).2.1
      have ih := popRun_sorted_iff xs [x] (by simp) (by simpa using hnd2)
      simp only [reverse_singleton, singleton_append] at ih
      rw [pairwise_append, ih]
      have hdisj : ∀ a ∈ (t :: st).reverse, ∀ y ∈ x :: xs, a ≠ y := (nodup_append.mp hnd).2.2
      constructor
      · rintro ⟨_, ⟨h231, h312⟩, hlt⟩
        have hXY : ∀ a ∈ (t :: st).reverse, ∀ y ∈ x :: xs, a < y := by
          intro a ha y hy
          exact hlt a (mem_reverse.mp ha) y ((mem_popRun xs [x] y).mpr (by
            rcases mem_cons.mp hy with rfl | hy
            · exact Or.inr (by simp)
            · exact Or.inl hy))
        constructor
        · rintro ⟨a, b, c, hs, hca, hab⟩
          rcases block_then_rest hdesc hXY hs hca with h | ⟨h, _⟩
          · exact h231 ⟨a, b, c, h, hca, hab⟩
          · omega
        · rintro ⟨a, b, c, hs, hbc, hca⟩
          rcases block_then_rest hdesc hXY hs hca with h | ⟨_, h⟩
          · exact h312 ⟨a, b, c, h, hbc, hca⟩
          · omega
      · rintro ⟨h231, h312⟩
        refine ⟨hst, ⟨fun h => h231 (h.mono (sublist_append_right _ _)),
          fun h => h312 (h.mono (sublist_append_right _ _))⟩, ?_⟩
        intro a ha y hy
        have hy' : y ∈ x :: xs := by
          rcases (mem_popRun xs [x] y).mp hy with h | h
          · exact mem_cons_of_mem _ h
          · simp only [mem_singleton] at h; subst h; simp
        by_contra hlt
        have hne : a ≠ y := hdisj a (mem_reverse.mpr ha) y hy'
        have hya : y < a := by omega
        have htlast : (t :: st).reverse = st.reverse ++ [t] := by simp
        -- `t` is the last entry of the run; `a` is in the run
        rcases mem_cons.mp hy' with rfl | hyxs
        · -- y = x : t < x < a, so a ≠ t and [a, t, x] is a 312
          have hat : a ≠ t := by omega
          have ha' : a ∈ st := by
            rcases mem_cons.mp ha with e | h
            · exact absurd e hat
            · exact h
          apply h312
          refine ⟨a, t, y, ?_, htx, hya⟩
          rw [htlast, append_assoc]
          exact (singleton_sublist.mpr (mem_reverse.mpr ha')).append (by simp)
        · by_cases hyt : y < t
          · -- [t, x, y] is a 231
            apply h231
            refine ⟨t, x, y, ?_, hyt, htx⟩
            rw [htlast, append_assoc]
            exact (nil_sublist _).append ((Sublist.cons_cons t ((singleton_sublist.mpr hyxs).cons_cons x)))
          · have hty : t ≠ y := hdisj t (by simp) y hy'
            have hat : a ≠ t := by omega
            have ha' : a ∈ st := by
              rcases mem_cons.mp ha with e | h
              · exact absurd e hat
              · exact h
            apply h312
            refine ⟨a, t, y, ?_, by omega, hya⟩
            rw [htlast, append_assoc]
            exact (singleton_sublist.mpr (mem_reverse.mpr ha')).append
              (Sublist.cons_cons t ((singleton_sublist.mpr hyxs).cons x))
    · -- the run continues
      simp only [popRun, htx, if_false]
      have hxt : x ≠ t := by
        intro e
        have := (nodup_append.mp hnd).2.2 t (by simp) x (by simp)
        exact this e.symm
      have hlt : x < t := by omega
      have hst' : (x :: t :: st).Pairwise (· < ·) := by
        refine pairwise_cons.mpr ⟨?_, hst⟩
        intro a ha
        rcases mem_cons.mp ha with rfl | ha
        · exact hlt
        · have := htmin a ha; omega
      have e : (x :: t :: st).reverse ++ xs = (t :: st).reverse ++ x :: xs := by simp
      have := popRun_sorted_iff xs (x :: t :: st) hst' (by rw [e]; exact hnd)
      rw [e] at this
      exact this

/-- list-level characterisation of one pop-stack pass -/
theorem popStackSort_sorted_iff (l : List Nat) (hnd : l.Nodup) :
    (popStackSort l).Pairwise (· < ·) ↔ ¬ Has231 l ∧ ¬ Has312 l := by
  rw [popStackSort_eq_popStackPass, popStackPass]
  simpa using popRun_sorted_iff l [] (by simp) (by simpa using hnd)

/-! ### inversions decrease -/

/-- inversions between a block and a later block -/
def cross (A B : List Nat) : Nat := (A.map fun a => (B.filter (· < a)).length).sum

theorem countInversions_append : ∀ (A B : List Nat),
    countInversions (A ++ B) = countInversions A + countInversions B + cross A B
  | [], B => by simp [countInversions, cross]
  | a :: A, B => by
    simp only [cons_append, countInversions, countInversions_append A B, filter_append, length_append,
      cross, map_cons, sum_cons]
    omega

theorem cross_perm_right (A : List Nat) {B B' : List Nat} (p : B ~ B') : cross A B = cross A B' := by
  unfold cross
  congr 1
  apply map_congr_left
  intro a _
  exact (p.filter _).length_eq

theorem cross_perm_left {A A' : List Nat} (B : List Nat) (p : A ~ A') : cross A B = cross A' B := by
  unfold cross
  exact (p.map _).sum_nat

theorem countInversions_sorted {l : List Nat} (h : l.Pairwise (· < ·)) : countInversions l = 0 := by
  induction l with
  | nil => rfl
  | cons x t ih =>
    have hx := (pairwise_cons.mp h).1
    simp only [countInversions, ih (pairwise_cons.mp h).2, Nat.add_zero, length_eq_zero_iff,
      filter_eq_nil_iff]
    intro a ha
    have := hx a ha
    simp; omega

/-- number of times the pop-stack device pushes onto a non-empty stack (= descents read) -/
def pushes : List Nat → List Nat → Nat
  | [], _ => 0
  | x :: xs, [] => pushes xs [x]
  | x :: xs, t :: st => if t < x then pushes xs [x] else 1 + pushes xs (x :: t :: st)

theorem countInversions_snoc_ge (st : List Nat) (x t : Nat) (ht : t ∈ st) (hx : x < t) :
    countInversions st.reverse + 1 ≤ countInversions (st.reverse ++ [x]) := by
  rw [countInversions_append]
  simp only [countInversions, filter_nil, length_nil, Nat.add_zero, cross]
  have : 1 ≤ (map (fun a => (filter (fun x_1 => decide (x_1 < a)) [x]).length) st.reverse).sum := by
    have hmem : t ∈ st.reverse := mem_reverse.mpr ht
    obtain ⟨p, q, e⟩ := append_of_mem hmem
    rw [e]
    simp [hx]
    omega
  omega

/-- one pop-stack pass removes at least as many inversions as it reads descents -/
theorem popRun_inversions : ∀ (l st : List Nat), st.Pairwise (· < ·) → (st.reverse ++ l).Nodup →
    countInversions (popRun l st) + pushes l st + countInversions st.reverse ≤
      countInversions (st.reverse ++ l)
  | [], st, hst, _ => by simp [popRun, pushes, countInversions_sorted hst]
  | x :: xs, [], _, hnd => by
    have := popRun_inversions xs [x] (by simp) (by simpa using hnd)
    simpa [popRun, pushes, countInversions] using this
  | x :: xs, t :: st, hst, hnd => by
    by_cases htx : t < x
    · have ih := popRun_inversions xs [x] (by simp) (by simpa using (nodup_append.mp hnd).2.1)
      have e1 : countInversions [x].reverse = 0 := rfl
      have e2 : [x].reverse ++ xs = x :: xs := rfl
      rw [e1, e2] at ih
      simp only [popRun, pushes, htx, if_true]
      rw [countInversions_append, countInversions_append (t :: st).reverse,
        countInversions_sorted hst,
        cross_perm_right _ ((popRun_perm xs [x]).trans (perm_append_singleton x xs)),
        cross_perm_left _ (reverse_perm (t :: st))]
      omega
    · have hxt : x ≠ t := by
        intro e
        exact (nodup_append.mp hnd).2.2 t (by simp) x (by simp) e.symm
      have hlt : x < t := by omega
      have e : (x :: t :: st).reverse ++ xs = (t :: st).reverse ++ x :: xs := by simp
      have ih := popRun_inversions xs (x :: t :: st) (by
        refine pairwise_cons.mpr ⟨?_, hst⟩
        intro a ha
        rcases mem_cons.mp ha with rfl | ha
        · exact hlt
        · have := (pairwise_cons.mp hst).1 a ha; omega) (by rw [e]; exact hnd)
      rw [e] at ih
      have hge := countInversions_snoc_ge (t :: st) x t (by simp) hlt
      have e3 : (x :: t :: st).reverse = (t :: st).reverse ++ [x] := by simp
      rw [e3] at ih
      simp only [popRun, pushes, htx, if_false]
      omega

theorem pushes_zero_sorted : ∀ (l : List Nat) (t : Nat), pushes l [t] = 0 → (t :: l).Pairwise (· < ·)
  | [], t, _ => by simp
  | x :: xs, t, h => by
    by_cases htx : t < x
    · simp only [pushes, htx, if_true] at h
      have ih := pushes_zero_sorted xs x h
      refine pairwise_cons.mpr ⟨?_, ih⟩
      intro a ha
      rcases mem_cons.mp ha with rfl | ha
      · exact htx
      · have := (pairwise_cons.mp ih).1 a ha; omega
    · simp only [pushes, htx, if_false] at h; omega

/-- a pass over a duplicate-free list that is not sorted strictly decreases the number of inversions -/
theorem popStackSort_inversions_lt (l : List Nat) (hnd : l.Nodup) (hns : ¬ l.Pairwise (· < ·)) :
    countInversions (popStackSort l) < countInversions l := by
  rw [popStackSort_eq_popStackPass, popStackPass]
  have h := popRun_inversions l [] (by simp) (by simpa using hnd)
  simp only [reverse_nil, nil_append, countInversions, Nat.add_zero] at h
  have hp : pushes l [] ≠ 0 := by
    intro h0
    apply hns
    match l, h0 with
    | [], _ => simp
    | x :: xs, h0 => exact pushes_zero_sorted xs x (by simpa [pushes] using h0)
  omega

theorem countInversions_le : ∀ (l : List Nat), countInversions l ≤ l.length * l.length
  | [] => by simp [countInversions]
  | x :: t => by
    have ih := countInversions_le t
    have h1 : (t.filter (· < x)).length ≤ t.length := length_filter_le _ _
    simp only [countInversions, length_cons]
    have : (t.length + 1) * (t.length + 1) = t.length * t.length + 2 * t.length + 1 := by
      simp only [Nat.add_mul, Nat.mul_add, Nat.one_mul, Nat.mul_one]; omega
    rw [this]
    omega

theorem isPerm_popStackSort {σ : List Nat} (h : IsPerm σ) : IsPerm (popStackSort σ) :=
  isPerm_of_perm (popStackSort_perm σ) h

theorem popStackSort_length (l : List Nat) : (popStackSort l).length = l.length :=
  (popStackSort_perm l).length_eq

/-- repeated pop-stack passes sort every permutation, within `inv(σ)` passes -/
theorem passes_popStackSort_sorts : ∀ (k : Nat) (σ : List Nat), IsPerm σ → countInversions σ = k →
    ∃ j, j ≤ k ∧ passes popStackSort j σ = List.range σ.length := by
  intro k
  induction k using Nat.strongRecOn with
  | _ k ih =>
    intro σ h hk
    by_cases hs : σ.Pairwise (· < ·)
    · exact ⟨0, Nat.zero_le _, eq_range_of_sorted h hs⟩
    · have hlt := popStackSort_inversions_lt σ h.1 hs
      obtain ⟨j, hj, e⟩ := ih _ (by omega) (popStackSort σ) (isPerm_popStackSort h) rfl
      rw [popStackSort_length] at e
      exact ⟨j + 1, by omega, e⟩

end C12
