import PermutaModel.Lemmas.C14Chain
/-! C14 helper lemmas: the sign pattern of every pin relative to the origin (Lemma 3.10, geometric
    reading of `quadrant`). -/
namespace C14L
open Model.C14 Model.C14.Letter Spec.C14 Proto

/-- `v` is on the positive (`pos`) / negative side of `0` -/
def sgn (pos : Bool) (v : Rat) : Prop := if pos then 0 < v else v < 0

/-- sign pattern named by a letter `p` and the letter `pp` before it -/
def signsOf (pp p : Letter) : Bool × Bool :=
  if p.isQuad then (namesRight p, namesUp p)
  else if p.isVert then (namesRight pp, namesUp p)
  else (namesRight p, namesUp pp)

theorem side_sgn {pos : Bool} {v : Rat} {l : List Rat} (h : Side pos v l) (h0 : (0 : Rat) ∈ l) : sgn pos v := by
  have := h 0 h0
  cases pos <;> simpa [sgn] using this

theorem between_sgn {v lastV : Rat} {initV : List Rat} (h : Between v lastV initV) (h0 : (0 : Rat) ∈ initV)
    (b : Bool) (hl : sgn b lastV) : sgn b v := by
  rcases h with ⟨h1, h2⟩ | ⟨h1, h2⟩
  · have := h1 0 h0
    cases b <;> simp only [sgn] at hl ⊢ <;> grind
  · have := h1 0 h0
    cases b <;> simp only [sgn] at hl ⊢ <;> grind

/-- the newest point has the sign pattern named by the last two letters; the origin is older -/
def SI (pp p : Letter) : List Pt → Prop
  | [] => False
  | last :: init => origin ∈ init ∧ sgn (signsOf pp p).1 last.1 ∧ sgn (signsOf pp p).2 last.2

theorem si_step {pp p c : Letter} {pts : List Pt} {q : Pt} (hS : SI pp p pts)
    (hp : p.isQuad = true ∨ p.isDir = true)
    (hc : (c.isQuad || (c.isDir && !sameAxis p c)) = true) (hG : Geo c q pts) : SI p c (q :: pts) := by
  cases pts with
  | nil => exact absurd hS (by simp [SI])
  | cons last init =>
    obtain ⟨ho, hx, hy⟩ := hS
    have h0x : (0 : Rat) ∈ xs init := List.mem_map.mpr ⟨origin, ho, rfl⟩
    have h0y : (0 : Rat) ∈ ys init := List.mem_map.mpr ⟨origin, ho, rfl⟩
    refine ⟨List.mem_cons_of_mem _ ho, ?_⟩
    by_cases hq : c.isQuad = true
    · simp only [Geo, hq, if_true, IndepPin] at hG
      simp only [signsOf, hq, if_true]
      exact ⟨side_sgn hG.1 (List.mem_cons_of_mem _ h0x), side_sgn hG.2 (List.mem_cons_of_mem _ h0y)⟩
    · simp only [hq, Bool.false_or, Bool.and_eq_true, Bool.not_eq_true'] at hc
      simp only [Geo, hq, Bool.false_eq_true, if_false, SepPin] at hG
      by_cases hv : c.isVert = true
      · simp only [hv, if_true] at hG
        have hpv : p.isVert = false := by
          have := hc.2; simp only [sameAxis, hv] at this
          cases hp' : p.isVert <;> simp_all
        have hs1 : (signsOf pp p).1 = namesRight p := by
          simp only [signsOf, hpv]; split <;> simp
        simp only [signsOf, hq, hv, Bool.false_eq_true, if_false, if_true]
        exact ⟨between_sgn hG.2 h0x _ (hs1 ▸ hx), side_sgn hG.1 (List.mem_cons_of_mem _ h0y)⟩
      · simp only [hv, Bool.false_eq_true, if_false] at hG
        have hh : c.isHoriz = true := by
          have := hc.1; cases c <;> simp_all [isDir, isVert, isHoriz]
        have hph : p.isHoriz = false := by
          have := hc.2; simp only [sameAxis, hh] at this
          cases hp' : p.isHoriz <;> simp_all
        have hs2 : (signsOf pp p).2 = namesUp p := by
          simp only [signsOf]
          rcases hp with hp | hp
          · simp [hp]
          · have : p.isVert = true := by cases p <;> simp_all [isDir, isVert, isHoriz]
            have hq' : p.isQuad = false := by cases p <;> simp_all [isDir, isQuad]
            simp [this, hq']
        simp only [signsOf, hq, hv, Bool.false_eq_true, if_false]
        exact ⟨side_sgn hG.1 (List.mem_cons_of_mem _ h0x), between_sgn hG.2 h0y _ (hs2 ▸ hy)⟩

/-- last two letters of `pp :: p :: rest` -/
def last2 : Letter → Letter → Word → Letter × Letter
  | pp, p, [] => (pp, p)
  | _, p, c :: rest => last2 p c rest

theorem geoRun_signs (rest : Word) : ∀ (pp p : Letter) (pts pts' : List Pt), SI pp p pts →
    (p.isQuad = true ∨ p.isDir = true) → chainOK p rest = true → GeoRun pts rest pts' →
    SI (last2 pp p rest).1 (last2 pp p rest).2 pts' := by
  induction rest with
  | nil => intro pp p pts pts' hS _ _ hG; simp only [GeoRun] at hG; subst hG; exact hS
  | cons c rest ih =>
    intro pp p pts pts' hS hp hch hG
    simp only [chainOK, Bool.and_eq_true] at hch
    obtain ⟨q, hq, hrun⟩ := hG
    have hc : c.isQuad = true ∨ c.isDir = true := by
      have := hch.1
      simp only [Bool.or_eq_true, Bool.and_eq_true] at this
      rcases this with h | h
      · exact Or.inl h
      · exact Or.inr h.1
    exact ih p c (q :: pts) pts' (si_step hS hp hch.1 hq) hc hch.2 hrun

theorem last2_getD (rest : Word) : ∀ (pp p : Letter),
    last2 pp p rest = ((pp :: p :: rest).getD rest.length (X ' '), (pp :: p :: rest).getD (rest.length + 1) (X ' ')) := by
  induction rest with
  | nil => intro pp p; rfl
  | cons c rest ih =>
    intro pp p
    simp only [last2, ih p c, List.length_cons]
    simp only [List.getD_eq_getElem?_getD, List.getElem?_cons_succ]

/-- the newest point of a non-empty word of the language has the sign pattern `signs` of its
    last index -/
theorem newest_signs (w : Word) (hw : inLang w = true) (hne : w ≠ []) :
    ∃ p pts, pinPoints w = .ok (p :: pts) ∧ sgn (signs w (w.length - 1)).1 p.1
      ∧ sgn (signs w (w.length - 1)).2 p.2 := by
  obtain ⟨pts', h1, h2, h3, _⟩ := build_lang w hw
  cases w with
  | nil => exact absurd rfl hne
  | cons q rest =>
    simp only [inLang, Bool.and_eq_true] at hw
    obtain ⟨p0, hg0, hrun⟩ := h3
    have hS0 : SI (X ' ') q [p0, origin] := by
      simp only [Geo, hw.1, if_true, IndepPin] at hg0
      refine ⟨by simp, ?_, ?_⟩
      · simp only [signsOf, hw.1, if_true]; exact side_sgn hg0.1 (by simp [origin])
      · simp only [signsOf, hw.1, if_true]; exact side_sgn hg0.2 (by simp [origin])
    have hS := geoRun_signs rest (X ' ') q [p0, origin] pts' hS0 (Or.inl hw.1) hw.2 hrun
    match pts', hS with
    | p :: pts, hS =>
      refine ⟨p, pts, h1, ?_⟩
      obtain ⟨_, hx, hy⟩ := hS
      have hsig : signs (q :: rest) ((q :: rest).length - 1) =
          signsOf (last2 (X ' ') q rest).1 (last2 (X ' ') q rest).2 := by
        rw [last2_getD]
        simp only [List.length_cons, Nat.add_sub_cancel, signs, signsOf]
        cases rest with
        | nil => simp [hw.1]
        | cons c r =>
          simp only [List.length_cons, List.getD_cons_succ, Nat.add_sub_cancel]
      rw [hsig]
      exact ⟨hx, hy⟩

/-- prefixes of language words are language words -/
theorem inLang_prefix (a b : Word) (h : inLang (a ++ b) = true) : inLang a = true := by
  induction b using List.reverseRecOn with
  | nil => simpa using h
  | append_singleton b c ih =>
    rw [← List.append_assoc, inLang_snoc, Bool.and_eq_true] at h
    exact ih h.1

theorem signs_take (w : Word) (i : Nat) : signs (w.take (i + 1)) i = signs w i := by
  have h1 : (w.take (i + 1)).getD i (X ' ') = w.getD i (X ' ') := by
    simp [List.getD_eq_getElem?_getD]
  have h2 : (w.take (i + 1)).getD (i - 1) (X ' ') = w.getD (i - 1) (X ' ') := by
    simp only [List.getD_eq_getElem?_getD, List.getElem?_take]
    have : i - 1 < i + 1 := by omega
    simp [this]
  simp only [signs, h1, h2]

end C14L
