import PermutaModel.Lemmas.C14CompSub
import PermutaModel.Model.Perm
/-! C14 symmetry helpers: the permutation of a reflected / transposed point configuration. -/
namespace C14S
open Model.C14 Model.C14.Letter Spec.C14 Proto C14L

def negX (p : Pt) : Pt := (-p.1, p.2)
def negY (p : Pt) : Pt := (p.1, -p.2)
def swapXY (p : Pt) : Pt := (p.2, p.1)

theorem rank_perm {Y Y' : List Rat} (h : Y.Perm Y') (y : Rat) : rank Y y = rank Y' y := h.countP_eq _

theorem permOfPts_eq' (pins : List Pt) :
    permOfPts pins = (sortedPins pins).map (fun p => rank (ys pins) p.2) := by
  rw [permOfPts_eq]
  simp only [ys, List.map_map]
  apply List.map_congr_left
  intro p _
  exact rank_perm ((sortedPins_perm pins).map _) _

theorem neg_nodup {l : List Rat} (h : l.Nodup) : (l.map Neg.neg).Nodup :=
  h.map (fun a b hab => by have := congrArg Neg.neg hab; simpa [Rat.neg_neg] using this)

/-! ### reflection in the vertical axis = `reverse` -/

theorem sorted_negX {pts : List Pt} (hx : (xs pts).Nodup) :
    sortedPins (pts.map negX) = ((sortedPins pts).reverse).map negX := by
  have hxs : xs (pts.map negX) = (xs pts).map Neg.neg := by simp [xs, negX, List.map_map, Function.comp_def]
  apply sorted_unique (sortedPins_xs_sorted (hxs ▸ neg_nodup hx))
  · have := sortedPins_xs_sorted hx
    simp only [xs, List.map_map, List.map_reverse]
    rw [List.pairwise_reverse, List.pairwise_map]
    rw [List.pairwise_map] at this
    refine this.imp ?_
    intro a b hab
    simp only [Function.comp, negX]
    grind
  · exact (sortedPins_perm _).trans (((sortedPins_perm pts).symm.trans (List.reverse_perm _).symm).map negX)

theorem permOfPts_negX {pts : List Pt} (hx : (xs pts).Nodup) :
    permOfPts (pts.map negX) = Model.reverse (permOfPts pts) := by
  rw [permOfPts_eq', permOfPts_eq', sorted_negX hx, Model.reverse]
  have hys : ys (pts.map negX) = ys pts := by simp [ys, negX, List.map_map, Function.comp_def]
  rw [hys, List.map_map, ← List.map_reverse]
  rfl


/-! ### reflection in the horizontal axis = `complement` -/

theorem count_split_notin {l : List Rat} {y : Rat} (h : y ∉ l) :
    l.countP (fun z => decide (y < z)) + l.countP (fun z => decide (z < y)) = l.length := by
  induction l with
  | nil => rfl
  | cons a t ih =>
    have ha : a ≠ y := fun e => h (e ▸ List.mem_cons_self)
    have := ih (fun hm => h (List.mem_cons_of_mem _ hm))
    simp only [List.countP_cons, List.length_cons]
    by_cases h1 : y < a
    · have h2 : ¬ a < y := by grind
      simp only [h1, h2, decide_true, decide_false, if_true]; simp; omega
    · have h2 : a < y := by grind
      simp only [h1, h2, decide_true, decide_false, if_true]; simp; omega

theorem count_split {l : List Rat} (hnd : l.Nodup) {y : Rat} (h : y ∈ l) :
    l.countP (fun z => decide (y < z)) + l.countP (fun z => decide (z < y)) + 1 = l.length := by
  induction l with
  | nil => simp at h
  | cons a t ih =>
    rw [List.nodup_cons] at hnd
    simp only [List.countP_cons, List.length_cons]
    by_cases ha : a = y
    · subst ha
      have := count_split_notin hnd.1
      simp; omega
    · have hy : y ∈ t := by
        rcases List.mem_cons.mp h with e | e
        · exact absurd e.symm ha
        · exact e
      have := ih hnd.2 hy
      by_cases h1 : y < a
      · have h2 : ¬ a < y := by grind
        simp only [h1, h2, decide_true, decide_false, if_true]; simp; omega
      · have h2 : a < y := by grind
        simp only [h1, h2, decide_true, decide_false, if_true]; simp; omega

theorem sorted_negY {pts : List Pt} (hx : (xs pts).Nodup) :
    sortedPins (pts.map negY) = (sortedPins pts).map negY := by
  have hxs : xs (pts.map negY) = xs pts := by simp [xs, negY, List.map_map, Function.comp_def]
  apply sorted_unique (sortedPins_xs_sorted (hxs ▸ hx))
  · have := sortedPins_xs_sorted hx
    simpa [xs, negY, List.map_map, Function.comp_def] using this
  · exact (sortedPins_perm _).trans ((sortedPins_perm pts).symm.map negY)

theorem permOfPts_negY {pts : List Pt} (hx : (xs pts).Nodup) (hy : (ys pts).Nodup) :
    permOfPts (pts.map negY) = Model.complement (permOfPts pts) := by
  rw [Model.complement, permOfPts_length, permOfPts_eq', permOfPts_eq' pts, sorted_negY hx,
    List.map_map, List.map_map]
  apply List.map_congr_left
  intro p hp
  have hpm : p.2 ∈ ys pts := List.mem_map.mpr ⟨p, (sortedPins_perm pts).mem_iff.mp hp, rfl⟩
  have hys : ys (pts.map negY) = (ys pts).map Neg.neg := by
    simp [ys, negY, List.map_map, Function.comp_def]
  have hsplit := count_split hy hpm
  have e1 : rank (ys (pts.map negY)) (negY p).2 = (ys pts).countP (fun z => decide (p.2 < z)) := by
    rw [hys]
    unfold rank
    rw [List.countP_map]
    apply List.countP_congr
    intro z _
    simp only [Function.comp, negY, decide_eq_true_eq]
    constructor <;> intro h <;> grind
  have e2 : rank (ys pts) p.2 = (ys pts).countP (fun z => decide (z < p.2)) := rfl
  have hl : (ys pts).length = pts.length := by simp [ys]
  show rank (ys (pts.map negY)) (negY p).2 = pts.length - 1 - rank (ys pts) p.2
  omega


/-! ### transposition = `inverse` -/

theorem permOfPts_swap {pts : List Pt} (hx : (xs pts).Nodup) (hy : (ys pts).Nodup) :
    permOfPts (pts.map swapXY) = Model.inverse (permOfPts pts) := by
  have hxs : xs (pts.map swapXY) = ys pts := by simp [xs, ys, swapXY, List.map_map, Function.comp_def]
  have hys : ys (pts.map swapXY) = xs pts := by simp [xs, ys, swapXY, List.map_map, Function.comp_def]
  have hσ := permOfPts_isPerm hy
  apply List.ext_getElem
  · simp [Model.inverse, permOfPts_length]
  · intro a h1 h2
    simp only [Model.inverse, List.getElem_map, List.getElem_range]
    have ha : a < (sortedPins (pts.map swapXY)).length := by
      rw [(sortedPins_perm _).length_eq]; simpa [permOfPts_length] using h1
    have hmem : (sortedPins (pts.map swapXY))[a] ∈ pts.map swapXY :=
      (sortedPins_perm _).mem_iff.mp (List.getElem_mem ha)
    obtain ⟨P, hP, hPe⟩ := List.mem_map.mp hmem
    have hr := rank_sorted (L := pts.map swapXY) (hxs ▸ hy) a ha
    rw [hxs, ← hPe] at hr
    obtain ⟨hi, hSi⟩ := sorted_at_rank hx hP
    have hl : (sortedPins pts).length = pts.length := (sortedPins_perm pts).length_eq
    have hlhs : (permOfPts (pts.map swapXY))[a] = rank (xs pts) P.1 := by
      simp only [permOfPts_eq', List.getElem_map, hys, ← hPe]
      rfl
    have hi' : rank (xs pts) P.1 < (permOfPts pts).length := by rw [permOfPts_length]; omega
    have hval : (permOfPts pts)[rank (xs pts) P.1] = a := by
      simp only [permOfPts_eq', List.getElem_map, hSi]
      exact hr
    rw [hlhs, ← hval, hσ.1.idxOf_getElem]

end C14S
