import PermutaModel.Lemmas.C18CanSimul

/-! The values returned by `can_shade` / `can_simul_shade` are values of points in a corner of the box. -/

namespace Spec.C18
open Model Model.C18 Proto

/-- `(a, b)` is a point of `p` sitting in a corner of the cell `c` -/
def IsCornerPt (p : NSeq) (c : Cell) (pt : Nat × Nat) : Prop :=
  pt.1 < p.length ∧ p.getD pt.1 0 = pt.2 ∧ (pt.1 + 1 = c.1 ∨ pt.1 = c.1) ∧ (pt.2 + 1 = c.2 ∨ pt.2 = c.2)

theorem IsCornerPt.rot {p : NSeq} (hp : IsPerm p) {c : Cell} {pt : Nat × Nat} (hc : c.1 ≤ p.length)
    (h : IsCornerPt p c pt) :
    IsCornerPt (rotate1 p) (c.2, p.length - c.1) (pt.2, p.length - 1 - pt.1) := by
  obtain ⟨h1, h2, h3, h4⟩ := h
  have hb : pt.2 < p.length := h2 ▸ hp.getD_lt h1
  refine ⟨by rw [rotate1_length]; exact hb, ?_, h4, ?_⟩
  · show (rotate1 p).getD pt.2 0 = p.length - 1 - pt.1
    rw [← h2, rotate1_at_value hp h1]
  · simp only; omega

theorem rotCellN_four {n : Nat} {c : Cell} (h1 : c.1 ≤ n) (h2 : c.2 ≤ n) : rotCellN n 4 c = c := by
  simp only [rotCellN]
  apply Prod.ext <;> simp only <;> omega

theorem rotCellN_bound (n : Nat) : ∀ (k : Nat) (c : Cell), c.1 ≤ n → c.2 ≤ n →
    (rotCellN n k c).1 ≤ n ∧ (rotCellN n k c).2 ≤ n
  | 0, c, h1, h2 => ⟨h1, h2⟩
  | k + 1, c, h1, h2 => rotCellN_bound n k (c.2, n - c.1) h2 (by simp only; omega)

theorem rotPermN_length : ∀ (k : Nat) (p : NSeq), (rotPermN k p).length = p.length
  | 0, _ => rfl
  | k + 1, p => by rw [rotPermN, rotPermN_length k, rotate1_length]

theorem rotMeshN_pattern : ∀ (k : Nat) (μ : Mesh), (rotMeshN k μ).pattern = rotPermN k μ.pattern
  | 0, _ => rfl
  | k + 1, μ => by rw [rotMeshN, rotMeshN_pattern k]; rfl

theorem rotCellN_add (n : Nat) : ∀ (j k : Nat) (c : Cell), rotCellN n k (rotCellN n j c) = rotCellN n (j + k) c
  | 0, k, c => by simp [rotCellN]
  | j + 1, k, c => by rw [rotCellN, rotCellN_add n j k, show j + 1 + k = (j + k) + 1 by omega, rotCellN]

/-- corner points are carried along by `k` rotations (`backRot` is the same map on points) -/
theorem IsCornerPt.rotN : ∀ (k : Nat) {p : NSeq}, IsPerm p → ∀ {c : Cell} {pt : Nat × Nat},
    c.1 ≤ p.length → c.2 ≤ p.length → IsCornerPt p c pt →
    IsCornerPt (rotPermN k p) (rotCellN p.length k c) (backRot p.length k pt)
  | 0, _, _, _, _, _, _, h => h
  | k + 1, p, hp, c, pt, h1, h2, h => by
    have h' := h.rot hp h1
    have := IsCornerPt.rotN k (rotate1_isPerm hp) (c := (c.2, p.length - c.1))
      (pt := (pt.2, p.length - 1 - pt.1)) (by rw [rotate1_length]; exact h2)
      (by rw [rotate1_length]; simp only; omega) h'
    rw [rotate1_length] at this
    exact this

/-- membership version of the unfolding of `can_shade` -/
theorem canShadeFrom_mem (n : Nat) : ∀ (k rot : Nat) (m : Mesh) (p : Cell) (l : List Nat),
    canShadeFrom n k rot m p = .ok l → ∀ v ∈ l,
      ∃ j, j < k ∧ neCond (rotMeshN j m) (rotCellN n j p) = .ok true ∧
        v = shadeAns n (rot + j) (rotCellN n j p)
  | 0, _, _, _, l, h, v, hv => by
    simp only [canShadeFrom, Except.ok.injEq] at h
    subst h; simp at hv
  | k + 1, rot, m, p, l, h, v, hv => by
    unfold canShadeFrom at h
    cases hb : neCond m p with
    | error e => rw [hb] at h; cases h
    | ok b =>
      rw [hb] at h
      simp only at h
      cases hr : canShadeFrom n k (rot + 1) (rotMesh m) (p.2, n - p.1) with
      | error e => rw [hr] at h; cases h
      | ok r =>
        rw [hr] at h
        simp only [Except.ok.injEq] at h
        subst h
        rw [List.mem_append] at hv
        rcases hv with hv | hv
        · by_cases hbt : b = true
          · rw [if_pos hbt, List.mem_singleton] at hv
            exact ⟨0, by omega, by rw [← hbt]; exact hb, hv⟩
          · rw [if_neg hbt] at hv; simp at hv
        · obtain ⟨j, hj, h1, h2⟩ := canShadeFrom_mem n k (rot + 1) (rotMesh m) _ r hr v hv
          exact ⟨j + 1, by omega, h1, by rw [h2, show rot + 1 + j = rot + (j + 1) by omega]; rfl⟩

/-- every value returned by `can_shade(pos)` is the value of a point of the pattern in a corner of
    the box `pos` ("the values of the adjacent points to the box") -/
theorem canShade_values {μ : Mesh} (hμ : ValidMesh μ) {pos : Cell} {l : List Nat}
    (h : canShade μ pos = .ok l) : ∀ v ∈ l, ∃ i, IsCornerPt μ.pattern pos (i, v) := by
  intro v hv
  obtain ⟨hall, -⟩ := canShadeFrom_ok (mlen μ) 4 0 μ pos l h
  have hpos : pos.1 ≤ mlen μ ∧ pos.2 ≤ mlen μ := by
    obtain ⟨b0, h0⟩ := hall 0 (by omega)
    obtain ⟨b1, h1⟩ := hall 1 (by omega)
    have e0 := neCond_ok_bound h0
    have e1 := neCond_ok_bound h1
    simp only [rotMeshN, rotCellN] at e0 e1
    have : mlen (rotMesh μ) = mlen μ := by simp [rotMesh, mlen, rotate1_length]
    rw [this] at e1
    exact ⟨e0, e1⟩
  obtain ⟨j, hj, hjt, hjv⟩ := canShadeFrom_mem (mlen μ) 4 0 μ pos l h v hv
  -- the corner point found in round `j`
  have hb : neCondB (rotMeshN j μ) ((rotCellN (mlen μ) j pos).1, (rotCellN (mlen μ) j pos).2) = true := by
    unfold neCond at hjt
    split at hjt
    · cases hjt
    · injection hjt
  have hN := (neCondB_iff _ _ _).mp hb
  have hxb := neCond_ok_bound hjt
  rw [rotMeshN_mlen] at hxb
  set c := rotCellN (mlen μ) j pos with hc
  have hpj : IsPerm (rotPermN j μ.pattern) := rotPermN_isPerm j hμ.1
  have hlenj : (rotPermN j μ.pattern).length = mlen μ := rotPermN_length j _
  have hcb := rotCellN_bound (mlen μ) j pos hpos.1 hpos.2
  have hcorner : IsCornerPt (rotPermN j μ.pattern) c (c.1 - 1, c.2 - 1) := by
    have h1 := hN.hx; have h2 := hN.hy; have h3 := hN.hpt
    rw [rotMeshN_pattern] at h3
    refine ⟨by simp only; omega, by simp only; omega, Or.inl (by simp only; omega), Or.inl (by simp only; omega)⟩
  have hrot := IsCornerPt.rotN ((4 - (0 + j)) % 4) hpj (c := c) (pt := (c.1 - 1, c.2 - 1))
    (by omega) (by rw [hlenj]; exact hcb.2) hcorner
  rw [hlenj, rotPermN_add, hc, rotCellN_add] at hrot
  have hval : v = (backRot (mlen μ) ((4 - (0 + j)) % 4) (c.1 - 1, c.2 - 1)).2 := hjv
  have hfour : rotPermN (j + (4 - (0 + j)) % 4) μ.pattern = μ.pattern ∧
      rotCellN (mlen μ) (j + (4 - (0 + j)) % 4) pos = pos := by
    have e4p : rotPermN 4 μ.pattern = μ.pattern := rotate1_four hμ.1
    have e4c := rotCellN_four hpos.1 hpos.2
    have : j = 0 ∨ j = 1 ∨ j = 2 ∨ j = 3 := by omega
    rcases this with rfl | rfl | rfl | rfl
    · exact ⟨rfl, rfl⟩
    · exact ⟨e4p, e4c⟩
    · exact ⟨e4p, e4c⟩
    · exact ⟨e4p, e4c⟩
  rw [hfour.1, hfour.2] at hrot
  refine ⟨(backRot (mlen μ) ((4 - (0 + j)) % 4) (c.1 - 1, c.2 - 1)).1, ?_⟩
  rw [hval]; exact hrot

theorem canSimulFrom_mem (n : Nat) : ∀ (k rot : Nat) (m : Mesh) (q1 q2 : Cell) (l : List Nat),
    canSimulFrom n k rot m q1 q2 = .ok l → ∀ v ∈ l,
      ∃ j, j < k ∧ neSimul (rotMeshN j m) (swapPair (pairN n j (q1, q2))).1
        (swapPair (pairN n j (q1, q2))).2 = .ok true ∧
        v = shadeAns n (rot + j) (swapPair (pairN n j (q1, q2))).1
  | 0, _, _, _, _, l, h, v, hv => by
    simp only [canSimulFrom, Except.ok.injEq] at h
    subst h; simp at hv
  | k + 1, rot, m, q1, q2, l, h, v, hv => by
    unfold canSimulFrom at h
    simp only at h
    have e1 : (if q1.2 < q2.2 then q2 else q1) = (swapPair (q1, q2)).1 := by
      unfold swapPair; split <;> rfl
    have e2 : (if q1.2 < q2.2 then q1 else q2) = (swapPair (q1, q2)).2 := by
      unfold swapPair; split <;> rfl
    rw [e1, e2] at h
    cases hb : neSimul m (swapPair (q1, q2)).1 (swapPair (q1, q2)).2 with
    | error e => rw [hb] at h; cases h
    | ok b =>
      rw [hb] at h
      simp only at h
      cases hr : canSimulFrom n k (rot + 1) (rotMesh m)
          ((swapPair (q1, q2)).1.2, n - (swapPair (q1, q2)).1.1)
          ((swapPair (q1, q2)).2.2, n - (swapPair (q1, q2)).2.1) with
      | error e => rw [hr] at h; cases h
      | ok r =>
        rw [hr] at h
        simp only [Except.ok.injEq] at h
        subst h
        rw [List.mem_append] at hv
        rcases hv with hv | hv
        · by_cases hbt : b = true
          · rw [if_pos hbt, List.mem_singleton] at hv
            exact ⟨0, by omega, by rw [← hbt]; exact hb, hv⟩
          · rw [if_neg hbt] at hv; simp at hv
        · obtain ⟨j, hj, h1, h2⟩ := canSimulFrom_mem n k (rot + 1) (rotMesh m) _ _ r hr v hv
          exact ⟨j + 1, by omega, h1, by rw [h2, show rot + 1 + j = rot + (j + 1) by omega]; rfl⟩

/-- every value returned by `can_simul_shade(q1, q2)` (cells inside the grid) is the value of a point
    of the pattern in a corner of `q1` or of `q2` -/
theorem canSimulShade_values {μ : Mesh} (hμ : ValidMesh μ) {q1 q2 : Cell}
    (hq1 : q1.1 ≤ mlen μ ∧ q1.2 ≤ mlen μ) (hq2 : q2.1 ≤ mlen μ ∧ q2.2 ≤ mlen μ) {l : List Nat}
    (h : canSimulShade μ q1 q2 = .ok l) :
    ∀ v ∈ l, ∃ i, IsCornerPt μ.pattern q1 (i, v) ∨ IsCornerPt μ.pattern q2 (i, v) := by
  intro v hv
  obtain ⟨j, hj, hjt, hjv⟩ := canSimulFrom_mem (mlen μ) 4 0 μ q1 q2 l h v hv
  obtain ⟨hxb, hb⟩ := neSimul_ok_true hjt
  rw [rotMeshN_mlen] at hxb
  set c := (swapPair (pairN (mlen μ) j (q1, q2))).1 with hc
  obtain ⟨-, hN⟩ := (neSimulB_iff _ c.1 c.2 _).mp hb
  have hpj : IsPerm (rotPermN j μ.pattern) := rotPermN_isPerm j hμ.1
  have hlenj : (rotPermN j μ.pattern).length = mlen μ := rotPermN_length j _
  -- `c` is the rotated `q1` or the rotated `q2`
  have hcq : c = rotCellN (mlen μ) j q1 ∨ c = rotCellN (mlen μ) j q2 :=
    (pairN_set (mlen μ) j (q1, q2) c).mp (Or.inl rfl)
  have main : ∀ q : Cell, q.1 ≤ mlen μ ∧ q.2 ≤ mlen μ → c = rotCellN (mlen μ) j q →
      ∃ i, IsCornerPt μ.pattern q (i, v) := by
    intro q hq hcq
    have hcb := rotCellN_bound (mlen μ) j q hq.1 hq.2
    rw [← hcq] at hcb
    have hcorner : IsCornerPt (rotPermN j μ.pattern) c (c.1 - 1, c.2 - 1) := by
      have h1 := hN.hx; have h3 := hN.hpt
      rw [rotMeshN_pattern] at h3
      refine ⟨by simp only; omega, by simp only; omega, Or.inl (by simp only; omega), Or.inl (by simp only; omega)⟩
    have hrot := IsCornerPt.rotN ((4 - (0 + j)) % 4) hpj (c := c) (pt := (c.1 - 1, c.2 - 1))
      (by omega) (by rw [hlenj]; exact hcb.2) hcorner
    rw [hlenj, rotPermN_add, hcq, rotCellN_add] at hrot
    have hfour : rotPermN (j + (4 - (0 + j)) % 4) μ.pattern = μ.pattern ∧
        rotCellN (mlen μ) (j + (4 - (0 + j)) % 4) q = q := by
      have e4p : rotPermN 4 μ.pattern = μ.pattern := rotate1_four hμ.1
      have e4c := rotCellN_four hq.1 hq.2
      have : j = 0 ∨ j = 1 ∨ j = 2 ∨ j = 3 := by omega
      rcases this with rfl | rfl | rfl | rfl
      · exact ⟨rfl, rfl⟩
      · exact ⟨e4p, e4c⟩
      · exact ⟨e4p, e4c⟩
      · exact ⟨e4p, e4c⟩
    rw [hfour.1, hfour.2] at hrot
    refine ⟨(backRot (mlen μ) ((4 - (0 + j)) % 4) ((rotCellN (mlen μ) j q).1 - 1, (rotCellN (mlen μ) j q).2 - 1)).1, ?_⟩
    have hval : v = (backRot (mlen μ) ((4 - (0 + j)) % 4) (c.1 - 1, c.2 - 1)).2 := hjv
    rw [hval, hcq]; exact hrot
  rcases hcq with h1 | h2
  · obtain ⟨i, hi⟩ := main q1 hq1 h1; exact ⟨i, Or.inl hi⟩
  · obtain ⟨i, hi⟩ := main q2 hq2 h2; exact ⟨i, Or.inr hi⟩

end Spec.C18
