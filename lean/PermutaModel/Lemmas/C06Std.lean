import PermutaModel.Model.Perm
import PermutaModel.Lemmas.MeshCount
import Mathlib.Data.List.Sort
/-! `Model.standardize` (= `Perm.to_standard`) of a duplicate-free list: entry `a` is the number of
    entries smaller than `l[a]`; hence it preserves the relative order and is a permutation. -/
open Model

namespace C06Lemmas
open MeshLemmas List

theorem standardize_length (l : List Nat) : (standardize l).length = l.length := by
  simp [standardize]

theorem standardize_getD {l : List Nat} (hn : l.Nodup) {a : Nat} (ha : a < l.length) :
    (standardize l).getD a 0 = (l.filter (· < l.getD a 0)).length := by
  have hlen : a < (standardize l).length := by rw [standardize_length]; exact ha
  rw [getD_eq_getElem _ a hlen, getD_eq_getElem l a ha]
  simp only [standardize, List.getElem_map, List.getElem_zipIdx, Nat.zero_add]
  have h1 : (l.zipIdx.filter fun wj => decide (wj.1 < l[a]) || (wj.1 == l[a] && decide (wj.2 < a)))
      = l.zipIdx.filter fun wj => decide (wj.1 < l[a]) := by
    apply List.filter_congr
    rintro ⟨w, j⟩ hwj
    have hget : l[j]? = some w := List.mem_zipIdx_iff_getElem?.mp hwj
    obtain ⟨hj, hw⟩ := List.getElem?_eq_some_iff.mp hget
    show (decide (w < l[a]) || (w == l[a] && decide (j < a))) = decide (w < l[a])
    by_cases heq : w = l[a]
    · have : j = a := (List.Nodup.getElem_inj_iff hn).mp (hw.trans heq)
      subst this; simp
    · simp [heq]
  rw [h1]
  have h2 : (l.zipIdx.filter fun wj => decide (wj.1 < l[a])).length
      = ((l.zipIdx.map Prod.fst).filter fun w => decide (w < l[a])).length := by
    rw [List.filter_map, List.length_map]; rfl
  rw [h2, List.zipIdx_map_fst]

theorem countLt_lt_of_lt {l : List Nat} {u v : Nat} (hu : u ∈ l) (huv : u < v) :
    (l.filter (· < u)).length < (l.filter (· < v)).length := by
  have hsub : l.filter (· < u) <+ l.filter (· < v) :=
    List.monotone_filter_right l (by intro a ha; simp only [decide_eq_true_eq] at *; omega)
  have hle := hsub.length_le
  rcases Nat.lt_or_eq_of_le hle with h | h
  · exact h
  · exfalso
    have := hsub.eq_of_length h
    have hm : u ∈ l.filter (· < v) := by simp [hu, huv]
    rw [← this] at hm
    simp at hm

/-- standardisation preserves the relative order of a duplicate-free list -/
theorem standardize_lt_iff {l : List Nat} (hn : l.Nodup) {a b : Nat} (ha : a < l.length) (hb : b < l.length) :
    (standardize l).getD a 0 < (standardize l).getD b 0 ↔ l.getD a 0 < l.getD b 0 := by
  rw [standardize_getD hn ha, standardize_getD hn hb]
  constructor
  · intro h
    by_contra hge
    rcases Nat.lt_or_eq_of_le (Nat.le_of_not_lt hge) with h' | h'
    · have := countLt_lt_of_lt (getD_mem hb) h'; omega
    · rw [h'] at h; omega
  · intro h; exact countLt_lt_of_lt (getD_mem ha) h

theorem standardize_isPerm {l : List Nat} (hn : l.Nodup) : IsPerm (standardize l) := by
  constructor
  · rw [List.nodup_iff_injective_getElem]
    intro ⟨a, ha⟩ ⟨b, hb⟩ hab
    simp only at hab
    have ha' : a < l.length := by rw [standardize_length] at ha; exact ha
    have hb' : b < l.length := by rw [standardize_length] at hb; exact hb
    rw [← getD_eq_getElem _ a ha, ← getD_eq_getElem _ b hb] at hab
    have h1 := standardize_lt_iff hn ha' hb'
    have h2 := standardize_lt_iff hn hb' ha'
    have : l.getD a 0 = l.getD b 0 := by omega
    rw [getD_eq_getElem l a ha', getD_eq_getElem l b hb'] at this
    exact Fin.ext ((List.Nodup.getElem_inj_iff hn).mp this)
  · intro x hx
    obtain ⟨a, ha, rfl⟩ := List.getElem_of_mem hx
    have ha' : a < l.length := by rw [standardize_length] at ha; exact ha
    rw [← getD_eq_getElem _ a ha, standardize_getD hn ha', standardize_length]
    rw [List.length_filter_lt_length_iff_exists]
    exact ⟨l.getD a 0, getD_mem ha', by simp⟩

end C06Lemmas
