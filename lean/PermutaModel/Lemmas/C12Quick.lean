import PermutaModel.Lemmas.C12SSMain
/-! C12: `Perm._quick_sort` is the quicksort operator of Claesson–Úlfarsson on every permutation.
    The `strong_fixed_points` fold computes the last index that is a left-to-right maximum at its
    own position; on a permutation that is the last entry with everything smaller to its left
    and everything larger to its right (two pigeonhole arguments); right of it neither notion
    finds a strong fixed point, so both sides partition around the first entry. -/
open Model Spec List

namespace C12

/-- the code's notion: a left-to-right maximum sitting at its own index -/
def codeSfp (l : List Nat) (i : Nat) : Bool := (l.take i).all (· < l.getD i 0) && l.getD i 0 == i

/-- last index in `[a, a+k)` satisfying `P` -/
def lastIdx (P : Nat → Bool) (a k : Nat) : Option Nat := (range' a k).reverse.find? P

theorem lastIdx_succ (P : Nat → Bool) (a k : Nat) :
    lastIdx P a (k + 1) = (lastIdx P (a + 1) k).or (if P a then some a else none) := by
  unfold lastIdx
  rw [range'_succ, reverse_cons, find?_append]
  simp only [find?_cons, find?_nil]
  cases P a <;> simp

/-- the fold of `strong_fixed_points` computes the last index with the code's property -/
theorem lastSfpGo_eq (l : List Nat) : ∀ (rest pre : List Nat) (mx last : Option Nat),
    l = pre ++ rest →
    (mx = none → pre = []) → (∀ M, mx = some M → M ∈ pre ∧ ∀ x ∈ pre, x ≤ M) →
    lastSfpGo rest pre.length mx last = (lastIdx (codeSfp l) pre.length rest.length).or last
  | [], pre, mx, last, _, _, _ => by simp [lastSfpGo, lastIdx]
  | v :: rest, pre, mx, last, hl, h0, hM => by
    have hget : l.getD pre.length 0 = v := by
      rw [hl, List.getD_eq_getElem?_getD]; simp
    have htake : l.take pre.length = pre := by rw [hl]; simp
    have hl' : l = (pre ++ [v]) ++ rest := by rw [hl]; simp
    have hlen : (pre ++ [v]).length = pre.length + 1 := by simp
    rw [length_cons, lastIdx_succ]
    cases mx with
    | none =>
      have hp := h0 rfl
      subst hp
      have hc : codeSfp l 0 = (v == 0) := by
        unfold codeSfp; simp at hget; simp [hget]
      simp only [length_nil] at *
      by_cases hv : 0 = v
      · have ih := lastSfpGo_eq l rest [v] (some v) (some 0) (by simpa using hl) (by simp)
          (by intro M hM'; cases hM'; simp)
        simp only [lastSfpGo, hv, if_true]
        subst hv
        simp only [length_singleton, Nat.zero_add] at ih ⊢
        rw [ih, hc]; simp
      · have ih := lastSfpGo_eq l rest [v] (some v) last (by simpa using hl) (by simp)
          (by intro M hM'; cases hM'; simp)
        simp only [lastSfpGo, hv, if_false]
        simp only [length_singleton, Nat.zero_add] at ih ⊢
        rw [ih, hc]
        have : (v == 0) = false := by simp; omega
        simp [this]
    | some m =>
      obtain ⟨hm1, hm2⟩ := hM m rfl
      by_cases hmv : m < v
      · have hall : (pre.all (· < v)) = true := by
          rw [all_eq_true]; intro x hx; have := hm2 x hx; simp; omega
        have hc : codeSfp l pre.length = (v == pre.length) := by
          unfold codeSfp; rw [htake, hget, hall]; simp
        have hinv : ∀ M, some v = some M → M ∈ pre ++ [v] ∧ ∀ x ∈ pre ++ [v], x ≤ M := by
          intro M hM'; cases hM'
          refine ⟨by simp, ?_⟩
          intro x hx
          rcases mem_append.mp hx with hx | hx
          · have := hm2 x hx; omega
          · simp at hx; omega
        by_cases hv : pre.length = v
        · have ih := lastSfpGo_eq l rest (pre ++ [v]) (some v) (some pre.length) hl' (by simp) hinv
          rw [hlen] at ih
          simp only [lastSfpGo, hmv, hv, if_true]
          rw [← hv] at ih ⊢
          rw [ih, hc]; simp [hv]
        · have ih := lastSfpGo_eq l rest (pre ++ [v]) (some v) last hl' (by simp) hinv
          rw [hlen] at ih
          simp only [lastSfpGo, hmv, hv, if_true, if_false]
          rw [ih, hc]
          have : (v == pre.length) = false := by simp; omega
          simp [this]
      · have hall : (pre.all (· < v)) = false := by
          rw [← Bool.not_eq_true, all_eq_true]
          intro h; have := h m hm1; simp at this; omega
        have hc : codeSfp l pre.length = false := by
          unfold codeSfp; rw [htake, hget, hall]; simp
        have hinv : ∀ M, some m = some M → M ∈ pre ++ [v] ∧ ∀ x ∈ pre ++ [v], x ≤ M := by
          intro M hM'; cases hM'
          refine ⟨by simp [hm1], ?_⟩
          intro x hx
          rcases mem_append.mp hx with hx | hx
          · exact hm2 x hx
          · simp at hx; omega
        have ih := lastSfpGo_eq l rest (pre ++ [v]) (some m) last hl' (by simp) hinv
        rw [hlen] at ih
        simp only [lastSfpGo, hmv, if_false]
        rw [ih, hc]; simp

theorem lastSfp_eq (l : List Nat) : lastSfp l = lastIdx (codeSfp l) 0 l.length := by
  have := lastSfpGo_eq l l [] none none rfl (by simp) (by simp)
  simpa [lastSfp] using this

theorem lastStrongFix_eq (l : List Nat) : lastStrongFix l = lastIdx (isStrongFix l) 0 l.length := by
  simp [lastStrongFix, lastIdx, range_eq_range']

theorem find?_congr_mem {P Q : Nat → Bool} : ∀ (L : List Nat), (∀ x ∈ L, P x = Q x) → L.find? P = L.find? Q
  | [], _ => rfl
  | x :: t, h => by
    simp only [find?_cons, h x (by simp)]
    rw [find?_congr_mem t (fun y hy => h y (mem_cons_of_mem _ hy))]

theorem lastIdx_congr {P Q : Nat → Bool} {a k : Nat} (h : ∀ i, a ≤ i → i < a + k → P i = Q i) :
    lastIdx P a k = lastIdx Q a k := by
  unfold lastIdx
  apply find?_congr_mem
  intro i hi
  have := mem_range'_1.mp (mem_reverse.mp hi)
  exact h i this.1 this.2

theorem lastIdx_some {P : Nat → Bool} {a k m : Nat} (h : lastIdx P a k = some m) :
    P m = true ∧ a ≤ m ∧ m < a + k ∧ ∀ i, m < i → i < a + k → P i = false := by
  unfold lastIdx at h
  have hp := find?_some h
  have hm := mem_range'_1.mp (mem_reverse.mp (mem_of_find?_eq_some h))
  refine ⟨hp, hm.1, hm.2, ?_⟩
  intro i hi1 hi2
  obtain ⟨as, bs, he, hall⟩ := (find?_eq_some_iff_append.mp h).2
  have hsorted : (range' a k).reverse.Pairwise (· > ·) := by
    rw [pairwise_reverse]; exact pairwise_lt_range'
  have himem : i ∈ (range' a k).reverse := mem_reverse.mpr (mem_range'_1.mpr ⟨by omega, hi2⟩)
  rw [he] at himem hsorted
  rcases mem_append.mp himem with hj | hj
  · have := hall i hj; simpa using this
  · exfalso
    rcases mem_cons.mp hj with hj | hj
    · omega
    · have := (pairwise_cons.mp (pairwise_append.mp hsorted).2.1).1 i hj; omega

theorem lastIdx_none {P : Nat → Bool} {a k : Nat} (h : lastIdx P a k = none) :
    ∀ i, a ≤ i → i < a + k → P i = false := by
  unfold lastIdx at h
  intro i h1 h2
  have := find?_eq_none.mp h i (mem_reverse.mpr (mem_range'_1.mpr ⟨h1, h2⟩))
  simpa using this

theorem lastIdx_eq_none {P : Nat → Bool} {a k : Nat} (h : ∀ i, a ≤ i → i < a + k → P i = false) :
    lastIdx P a k = none := by
  unfold lastIdx
  rw [find?_eq_none]
  intro i hi
  have := mem_range'_1.mp (mem_reverse.mp hi)
  simp [h i this.1 this.2]

/-- a duplicate-free list of naturals below `b` that are at least `a` has at most `b - a` entries -/
theorem length_le_of_bounds {t : List Nat} {a b : Nat} (hnd : t.Nodup) (h : ∀ x ∈ t, a ≤ x ∧ x < b) :
    t.length ≤ b - a := by
  have hsub : t ⊆ range' a (b - a) := by
    intro x hx; have := h x hx; exact mem_range'_1.mpr ⟨this.1, by omega⟩
  have := (subperm_of_subset hnd hsub).length_le
  simpa using this

theorem split_at {l : List Nat} {i : Nat} (hi : i < l.length) :
    l = l.take i ++ l.getD i 0 :: l.drop (i + 1) := by
  rw [List.getD_eq_getElem?_getD, List.getElem?_eq_getElem hi]; simp

/-- on a permutation the two notions of strong fixed point coincide -/
theorem codeSfp_eq_isStrongFix {l : List Nat} (h : IsPerm l) {i : Nat} (hi : i < l.length) :
    codeSfp l i = isStrongFix l i := by
  have hs := split_at hi
  generalize hv : l.getD i 0 = v at hs
  have hnd := h.1
  rw [hs] at hnd
  have hndL : (l.take i).Nodup := (nodup_append.mp hnd).1
  have hlenL : (l.take i).length = i := by simp; omega
  have hvL : v ∉ l.take i := fun hh => (nodup_append.mp hnd).2.2 v hh v (by simp) rfl
  have hvR : v ∉ l.drop (i + 1) := (nodup_cons.mp (nodup_append.mp hnd).2.1).1
  have hLR : ∀ x ∈ l.take i, ∀ y ∈ l.drop (i + 1), x ≠ y := fun x hx y hy =>
    (nodup_append.mp hnd).2.2 x hx y (mem_cons_of_mem _ hy)
  unfold codeSfp isStrongFix
  rw [hv]
  rw [Bool.eq_iff_iff]
  simp only [Bool.and_eq_true, all_eq_true, decide_eq_true_eq, beq_iff_eq]
  constructor
  · rintro ⟨hA, rfl⟩
    refine ⟨hA, ?_⟩
    intro w hw
    by_contra hle
    have hwv : w ≠ v := fun e => hvR (e ▸ hw)
    have hnd2 : (w :: l.take v).Nodup := nodup_cons.mpr ⟨fun hh => hLR w hh w hw rfl, hndL⟩
    have := length_le_of_bounds (a := 0) (b := v) hnd2 (by
      intro x hx
      rcases mem_cons.mp hx with rfl | hx
      · exact ⟨Nat.zero_le _, by omega⟩
      · exact ⟨Nat.zero_le _, hA x hx⟩)
    simp only [length_cons, hlenL] at this; omega
  · rintro ⟨hA, hB⟩
    refine ⟨hA, ?_⟩
    have h1 : i ≤ v := by
      have := length_le_of_bounds (a := 0) (b := v) hndL (fun x hx => ⟨Nat.zero_le _, hA x hx⟩)
      rw [hlenL] at this; omega
    have hvn : v < l.length := by rw [← hv]; exact h.getD_lt hi
    have h2 : v ≤ i := by
      have hsub : range v ⊆ l.take i := by
        intro u hu
        have hu' := mem_range.mp hu
        have hmem : u ∈ l := IsPerm.mem_of_lt h (by omega)
        rw [hs] at hmem
        rcases mem_append.mp hmem with hm | hm
        · exact hm
        · exfalso
          rcases mem_cons.mp hm with e | hm
          · omega
          · have := hB u hm; omega
      have := (subperm_of_subset (nodup_range (n := v)) hsub).length_le
      simpa [hlenL] using this
    omega

theorem lastSfp_eq_lastStrongFix {l : List Nat} (h : IsPerm l) : lastSfp l = lastStrongFix l := by
  rw [lastSfp_eq, lastStrongFix_eq]
  exact lastIdx_congr (fun i _ hi => codeSfp_eq_isStrongFix h (by omega))

theorem isStrongFix_iff {l : List Nat} {i : Nat} : isStrongFix l i = true ↔
    (∀ x ∈ l.take i, x < l.getD i 0) ∧ (∀ x ∈ l.drop (i + 1), l.getD i 0 < x) := by
  simp [isStrongFix]

theorem getD_drop' (l : List Nat) (a i : Nat) : (l.drop a).getD i 0 = l.getD (a + i) 0 := by
  simp [List.getD_eq_getElem?_getD]

/-- left of a strong fixed point `m` of a permutation sits a permutation of length `m` -/
theorem isPerm_take {l : List Nat} (h : IsPerm l) {m : Nat} (hm : m < l.length)
    (hs : codeSfp l m = true) : IsPerm (l.take m) := by
  unfold codeSfp at hs
  simp only [Bool.and_eq_true, all_eq_true, decide_eq_true_eq, beq_iff_eq] at hs
  refine ⟨h.1.sublist (take_sublist _ _), ?_⟩
  intro x hx
  have : (l.take m).length = m := by simp; omega
  rw [this]
  have := hs.1 x hx
  omega

/-- right of the last strong fixed point neither notion finds one -/
theorem right_part_none {l : List Nat} (h : IsPerm l) {m : Nat}
    (hlast : lastStrongFix l = some m) :
    lastSfp (l.drop (m + 1)) = none ∧ lastStrongFix (l.drop (m + 1)) = none := by
  rw [lastStrongFix_eq] at hlast
  obtain ⟨hP, _, hm, hmax⟩ := lastIdx_some hlast
  simp only [Nat.zero_add] at hm hmax
  have hcode : codeSfp l m = true := by rw [codeSfp_eq_isStrongFix h hm]; exact hP
  have hlm : l.getD m 0 = m := by
    unfold codeSfp at hcode
    simp only [Bool.and_eq_true, beq_iff_eq] at hcode
    exact hcode.2
  obtain ⟨hA, hB⟩ := isStrongFix_iff.mp hP
  rw [hlm] at hA hB
  set R := l.drop (m + 1) with hR
  have hndR : R.Nodup := h.1.sublist (drop_sublist _ _)
  constructor
  · rw [lastSfp_eq]
    apply lastIdx_eq_none
    intro i _ hi
    simp only [Nat.zero_add] at hi
    by_contra hc
    have hc : codeSfp R i = true := by simpa using hc
    unfold codeSfp at hc
    simp only [Bool.and_eq_true, all_eq_true, decide_eq_true_eq, beq_iff_eq] at hc
    obtain ⟨h1, h2⟩ := hc
    have hsp := split_at hi
    have hnd2 : (R.take (i + 1)).Nodup := hndR.sublist (take_sublist _ _)
    have hlen2 : (R.take (i + 1)).length = i + 1 := by simp; omega
    have hb : ∀ x ∈ R.take (i + 1), m + 1 ≤ x ∧ x < i + 1 := by
      intro x hx
      have hxR : x ∈ R := (take_sublist _ _).subset hx
      refine ⟨by have := hB x hxR; omega, ?_⟩
      rw [take_add_one] at hx
      rcases mem_append.mp hx with hx | hx
      · have := h1 x hx; omega
      · have : x = R.getD i 0 := by
          rw [List.getD_eq_getElem?_getD]
          cases hq : R[i]? with
          | none => simp [hq] at hx
          | some y => simp [hq] at hx ⊢; exact hx
        omega
    have := length_le_of_bounds hnd2 hb
    omega
  · rw [lastStrongFix_eq]
    apply lastIdx_eq_none
    intro i _ hi
    simp only [Nat.zero_add] at hi
    by_contra hc
    have hc : isStrongFix R i = true := by simpa using hc
    obtain ⟨h1, h2⟩ := isStrongFix_iff.mp hc
    have hiR : R.getD i 0 ∈ R := by
      rw [List.getD_eq_getElem?_getD, List.getElem?_eq_getElem hi]; exact getElem_mem hi
    have hgt := hB _ hiR
    have hlen : R.length = l.length - (m + 1) := by simp [hR]
    have hcontra := hmax (m + 1 + i) (by omega) (by omega)
    have : isStrongFix l (m + 1 + i) = true := by
      rw [isStrongFix_iff, ← getD_drop' l (m + 1) i, ← hR]
      constructor
      · intro x hx
        rw [take_add, take_add_one] at hx
        rcases mem_append.mp hx with hx | hx
        · rcases mem_append.mp hx with hx | hx
          · have := hA x hx; omega
          · have : x = m := by
              have e : l[m]? = some m := by
                rw [List.getElem?_eq_getElem hm]
                have := hlm
                rw [List.getD_eq_getElem?_getD, List.getElem?_eq_getElem hm] at this
                simpa using this
              simp [e] at hx; exact hx
            omega
        · exact h1 x hx
      · intro x hx
        have e : drop (m + 1 + i + 1) l = drop (i + 1) R := by
          rw [hR, drop_drop, Nat.add_assoc]
        rw [e] at hx
        exact h2 x hx
    rw [this] at hcontra
    exact absurd hcontra (by simp)

theorem quickPassFuel_nil (f : Nat) : quickPassFuel f [] = [] := by
  cases f <;> rfl

theorem quickSort_nil : quickSort [] = [] := by rw [quickSort]; simp

/-- without a strong fixed point both sides partition around the first entry -/
theorem quick_none_case {l : List Nat} (hne : l ≠ []) (h1 : lastSfp l = none) (h2 : lastStrongFix l = none)
    (f : Nat) : quickSort l = quickPassFuel (f + 1) l := by
  match l, hne with
  | x :: t, _ =>
    rw [quickSort]
    simp only [length_cons, Nat.add_one_ne_zero, if_false, h1, quickPassFuel, h2, headD_cons]
    rfl

/-- **the recursive code is the quicksort operator of the paper, on every permutation** -/
theorem quickSort_eq_quickPassFuel : ∀ (n : Nat) (l : List Nat), l.length = n → IsPerm l →
    ∀ f, n ≤ f → quickSort l = quickPassFuel f l := by
  intro n
  induction n using Nat.strongRecOn with
  | _ n ih =>
    intro l hn h f hf
    match l, hn, h with
    | [], _, _ => rw [quickSort_nil, quickPassFuel_nil]
    | x :: t, hn, h =>
      obtain ⟨f', rfl⟩ : ∃ f', f = f' + 1 := ⟨f - 1, by simp at hn; omega⟩
      have heq := lastSfp_eq_lastStrongFix h
      cases hl : lastStrongFix (x :: t) with
      | none => exact quick_none_case (by simp) (heq.trans hl) hl f'
      | some m =>
        have hl' := hl
        rw [lastStrongFix_eq] at hl'
        obtain ⟨hP, _, hm, _⟩ := lastIdx_some hl'
        simp only [Nat.zero_add] at hm
        have hcode : codeSfp (x :: t) m = true := by rw [codeSfp_eq_isStrongFix h hm]; exact hP
        obtain ⟨hr1, hr2⟩ := right_part_none h hl
        rw [quickSort]
        simp only [length_cons, Nat.add_one_ne_zero, if_false, heq, hl, quickPassFuel]
        have hm' : m < t.length + 1 := by simpa using hm
        simp only [hm', if_true]
        -- left part: induction hypothesis
        have hL := ih m (by simp at hn; omega) ((x :: t).take m) (by simp; omega)
          (isPerm_take h hm hcode) f' (by simp at hn; omega)
        rw [hL]
        -- right part: both partition (or are empty)
        have hRr : quickSort (drop (m + 1) (x :: t)) = quickPassFuel f' (drop (m + 1) (x :: t)) := by
          by_cases hR : drop (m + 1) (x :: t) = []
          · rw [hR, quickSort_nil, quickPassFuel_nil]
          · have hlenR : (drop (m + 1) (x :: t)).length ≤ f' := by
              simp only [length_drop, length_cons]; simp at hn; omega
            have hpos : 0 < (drop (m + 1) (x :: t)).length := length_pos_iff.mpr hR
            obtain ⟨f'', rfl⟩ : ∃ f'', f' = f'' + 1 := ⟨f' - 1, by omega⟩
            exact quick_none_case hR hr1 hr2 f''
        rw [hRr]

/-- `Perm._quick_sort` = the quicksort operator, on every permutation -/
theorem quickSort_eq_quickPass (l : List Nat) (h : IsPerm l) : quickSort l = quickPass l :=
  quickSort_eq_quickPassFuel l.length l rfl h l.length (Nat.le_refl _)

/-! ### the `assert` of `_quick_sort` -/

theorem foldl_max_lt {n : Nat} : ∀ (l : List Nat) (a : Nat), a < n → (∀ x ∈ l, x < n) → l.foldl max a < n
  | [], a, ha, _ => ha
  | x :: t, a, ha, h => by
    simp only [foldl_cons]
    exact foldl_max_lt t (max a x) (by have := h x (by simp); omega) (fun y hy => h y (mem_cons_of_mem _ hy))

theorem foldl_min_gt {m : Nat} : ∀ (l : List Nat) (a : Nat), m < a → (∀ x ∈ l, m < x) → m < l.foldl min a
  | [], a, ha, _ => ha
  | x :: t, a, ha, h => by
    simp only [foldl_cons]
    exact foldl_min_gt t (min a x) (by have := h x (by simp); omega) (fun y hy => h y (mem_cons_of_mem _ hy))

/-- a list containing every value strictly between `m` and `n`, all of whose entries lie there,
    passes the `assert` of `_quick_sort` -/
theorem quickAssertOk_of_interval {l : List Nat} {m n : Nat} (hlo : ∀ x ∈ l, m < x) (hhi : ∀ x ∈ l, x < n)
    (hall : ∀ v, m < v → v < n → v ∈ l) : quickAssertOk l = true := by
  unfold quickAssertOk
  match l, hlo, hhi, hall with
  | [], _, _, _ => simp
  | x :: t, hlo, hhi, hall =>
    simp only [isEmpty_cons, Bool.false_or, all_eq_true, mem_range, headD_cons]
    intro d hd
    have hmx : (x :: t).foldl max 0 < n := foldl_max_lt _ 0 (by have := hhi x (by simp); omega) hhi
    have hmn : m < (x :: t).foldl min x := foldl_min_gt _ x (hlo x (by simp)) hlo
    simp only [contains_eq_mem, decide_eq_true_eq]
    exact hall _ (by omega) (by omega)

theorem quickAssertOk_perm {l : List Nat} (h : IsPerm l) : quickAssertOk l = true := by
  unfold quickAssertOk
  match l, h with
  | [], _ => simp
  | x :: t, h =>
    simp only [isEmpty_cons, Bool.false_or, all_eq_true, mem_range, headD_cons]
    intro d hd
    have hmx : (x :: t).foldl max 0 < (x :: t).length :=
      foldl_max_lt _ 0 (by simp) h.2
    simp only [contains_eq_mem, decide_eq_true_eq]
    exact IsPerm.mem_of_lt h (by omega)

/-- the `assert` of `_quick_sort` holds on every slice reached from a permutation -/
theorem quickAsserts_perm : ∀ (n : Nat) (l : List Nat), l.length = n → IsPerm l → quickAsserts l = true := by
  intro n
  induction n using Nat.strongRecOn with
  | _ n ih =>
    intro l hn h
    rw [quickAsserts]
    simp only [quickAssertOk_perm h, Bool.not_true, Bool.false_eq_true, if_false]
    by_cases h0 : l.length = 0
    · simp [h0]
    · simp only [h0, if_false]
      cases hs : lastSfp l with
      | none => rfl
      | some m =>
        simp only
        by_cases hm : m < l.length
        · simp only [hm, if_true, Bool.and_eq_true]
          have hl : lastStrongFix l = some m := by rw [← lastSfp_eq_lastStrongFix h]; exact hs
          have hl' := hl
          rw [lastStrongFix_eq] at hl'
          obtain ⟨hP, _, _, _⟩ := lastIdx_some hl'
          have hcode : codeSfp l m = true := by rw [codeSfp_eq_isStrongFix h hm]; exact hP
          have hlm : l.getD m 0 = m := by
            unfold codeSfp at hcode
            simp only [Bool.and_eq_true, beq_iff_eq] at hcode
            exact hcode.2
          obtain ⟨hA, hB⟩ := isStrongFix_iff.mp hP
          rw [hlm] at hA hB
          refine ⟨ih m (by omega) (l.take m) (by simp; omega) (isPerm_take h hm hcode), ?_⟩
          -- right slice: exactly the values in (m, n)
          obtain ⟨hr1, _⟩ := right_part_none h hl
          rw [quickAsserts]
          have hok : quickAssertOk (l.drop (m + 1)) = true := by
            apply quickAssertOk_of_interval (m := m) (n := l.length) hB
              (fun x hx => h.2 x ((drop_sublist _ _).subset hx))
            intro v hv1 hv2
            have hmem := IsPerm.mem_of_lt h hv2
            rw [split_at hm, hlm] at hmem
            rcases mem_append.mp hmem with hq | hq
            · have := hA v hq; omega
            · rcases mem_cons.mp hq with e | hq
              · omega
              · exact hq
          simp only [hok, Bool.not_true, Bool.false_eq_true, if_false, hr1]
          split <;> rfl
        · simp [hm]

/-- on a permutation `quick_sort` raises no `AssertionError` -/
theorem quickSortE_perm (l : List Nat) (h : IsPerm l) : quickSortE l = .ok (quickSort l) := by
  unfold quickSortE; simp [quickAsserts_perm l.length l rfl h]

end C12
