import PermutaModel.Lemmas.C16PinGeo
import Mathlib.Data.List.Nodup
/-!
# C16 converse, part 4 — first steps of the unavoidable-substructures theorem: pins exist in simple configurations

`InHull A c`: `c` lies in the rectangular hull of the points `A`; `IsPin v A c`: `c` lies outside the hull
and slices it (in the closed range of `A` on the coordinate `co v`, strictly beyond all of `A` on the other).
-/
namespace C16P

/-- `c` lies in the closed range of the points `A` in coordinate `f` -/
def InRange (f : Pt → Rat) (A : List Pt) (c : Pt) : Prop := (∃ a ∈ A, f a ≤ f c) ∧ (∃ a ∈ A, f c ≤ f a)

/-- `c` lies in the rectangular hull of `A` -/
def InHull (A : List Pt) (c : Pt) : Prop := InRange (co true) A c ∧ InRange (co false) A c

/-- `c` is a pin for the hull of `A`: it slices the hull on the axis `v` and lies strictly beyond it on
    the other axis -/
def IsPin (v : Bool) (A : List Pt) (c : Pt) : Prop := InRange (co v) A c ∧ Extr (co (!v)) c A

theorem inRange_self {f : Pt → Rat} {A : List Pt} {a : Pt} (ha : a ∈ A) : InRange f A a :=
  ⟨⟨a, ha, Rat.le_refl⟩, ⟨a, ha, Rat.le_refl⟩⟩

theorem inHull_self {A : List Pt} {a : Pt} (ha : a ∈ A) : InHull A a := ⟨inRange_self ha, inRange_self ha⟩

theorem not_inRange_of_extr {f : Pt → Rat} {A : List Pt} {c : Pt} (h : Extr f c A) :
    ¬ InRange f A c := by
  rintro ⟨⟨a, ha, h1⟩, ⟨b, hb, h2⟩⟩
  rcases h with h | h
  · have := h b hb; grind
  · have := h a ha; grind

/-- a pin lies outside the hull -/
theorem IsPin.not_inHull {v : Bool} {A : List Pt} {c : Pt} (h : IsPin v A c) : ¬ InHull A c := by
  intro hh
  have := not_inRange_of_extr h.2
  cases v
  · exact this hh.1
  · exact this hh.2

theorem extr_of_not_inRange {f : Pt → Rat} {A : List Pt} {c : Pt} (h : ¬ InRange f A c) : Extr f c A := by
  unfold InRange at h
  by_cases h1 : ∃ a ∈ A, f a ≤ f c
  · left
    intro r hr
    apply Classical.byContradiction
    intro hlt
    exact h ⟨h1, r, hr, by grind⟩
  · right
    intro r hr
    apply Classical.byContradiction
    intro hlt
    exact h1 ⟨r, hr, by grind⟩

/-- **pins exist** (Brignall–Huczynska–Vatter): in a configuration without proper interval, every
    rectangular hull of at least two points that misses a point has a pin -/
theorem simple_has_pin (P A : List Pt) (hS : Simple P) (hsub : ∀ a ∈ A, a ∈ P)
    (h2 : ∃ a ∈ A, ∃ b ∈ A, a ≠ b) (hout : ∃ d ∈ P, ¬ InHull A d) :
    ∃ c ∈ P, ∃ v, IsPin v A c := by
  obtain ⟨a, ha, b, hb, hab⟩ := h2
  obtain ⟨d, hd, hdo⟩ := hout
  have hnI : ¬ Iv P (InHull A) := fun hI =>
    hS _ hI ⟨⟨a, hsub a ha, b, hsub b hb, hab, inHull_self ha, inHull_self hb⟩, d, hd, hdo⟩
  have hex : ∃ c ∈ P, ¬ InHull A c ∧ ¬ (Out (co true) P (InHull A) c ∧ Out (co false) P (InHull A) c) := by
    apply Classical.byContradiction
    intro hno
    apply hnI
    intro c hc hcS
    apply Classical.byContradiction
    intro hn
    exact hno ⟨c, hc, hcS, hn⟩
  obtain ⟨c, hc, hcS, hno⟩ := hex
  -- in one coordinate `c` is not on one side of the hull
  have key : ∀ v : Bool, ¬ Out (co v) P (InHull A) c → InRange (co v) A c := by
    intro v hv
    unfold Out at hv
    have h1 : ∃ s ∈ P, InHull A s ∧ co v s ≤ co v c := by
      apply Classical.byContradiction
      intro hn
      apply hv
      left
      intro s hs hS
      apply Classical.byContradiction
      intro hlt
      exact hn ⟨s, hs, hS, by grind⟩
    have h2 : ∃ s ∈ P, InHull A s ∧ co v c ≤ co v s := by
      apply Classical.byContradiction
      intro hn
      apply hv
      right
      intro s hs hS
      apply Classical.byContradiction
      intro hlt
      exact hn ⟨s, hs, hS, by grind⟩
    obtain ⟨s1, _, hS1, hle1⟩ := h1
    obtain ⟨s2, _, hS2, hle2⟩ := h2
    have r1 : InRange (co v) A s1 := by cases v; exact hS1.2; exact hS1.1
    have r2 : InRange (co v) A s2 := by cases v; exact hS2.2; exact hS2.1
    obtain ⟨a1, ha1, hl1⟩ := r1.1
    obtain ⟨a2, ha2, hl2⟩ := r2.2
    exact ⟨⟨a1, ha1, by grind⟩, ⟨a2, ha2, by grind⟩⟩
  by_cases hx : Out (co true) P (InHull A) c
  · have hy : ¬ Out (co false) P (InHull A) c := fun h => hno ⟨hx, h⟩
    have r := key false hy
    refine ⟨c, hc, false, r, extr_of_not_inRange (fun h => hcS ⟨h, r⟩)⟩
  · have r := key true hx
    refine ⟨c, hc, true, r, extr_of_not_inRange (fun h => hcS ⟨r, h⟩)⟩

/-- **two points start a pin sequence**: a pin for the hull of two points is a proper first pin -/
theorem pinSeq_three_of_pin {v : Bool} {p2 p1 c : Pt} (h : IsPin v [p2, p1] c)
    (hne : co v c ≠ co v p2 ∧ co v c ≠ co v p1) : PinSeqA v [c, p2, p1] := by
  simp only [PinSeqA, and_true, SepA]
  refine ⟨?_, h.2⟩
  obtain ⟨⟨a, ha, h1⟩, ⟨b, hb, h2⟩⟩ := h.1
  simp only [List.mem_cons, List.not_mem_nil, or_false] at ha hb
  simp only [Btw, List.mem_singleton, forall_eq]
  rcases ha with rfl | rfl <;> rcases hb with rfl | rfl <;> grind

/-- **a new pin is a proper pin** (the separation condition comes for free): if `p` is a proper pin for
    `q :: rest` and `c` is a pin for the hull of `p :: q :: rest` but not for the hull of `q :: rest`, then
    `c` lies on the other axis and separates `p` from `q :: rest` -/
theorem sepA_of_new_pin {v w : Bool} {p q c : Pt} {rest : List Pt} (hrest : rest ≠ [])
    (hsep : SepA v p q rest) (hc : IsPin w (p :: q :: rest) c) (hnew : ∀ w', ¬ IsPin w' (q :: rest) c)
    (hne : ∀ u, co u c ≠ co u p) :
    w = !v ∧ SepA (!v) c p (q :: rest) := by
  obtain ⟨r, hr⟩ := List.exists_mem_of_ne_nil _ hrest
  obtain ⟨hb, he⟩ := hsep
  have hsubs : ∀ x ∈ q :: rest, x ∈ p :: q :: rest := fun x hx => List.mem_cons_of_mem _ hx
  have hw : w = !v := by
    apply Classical.byContradiction
    intro hwv
    have : w = v := by cases w <;> cases v <;> simp_all
    subst this
    have hext' : Extr (co (!w)) c (q :: rest) := extr_mono hsubs hc.2
    apply hnew w
    refine ⟨?_, hext'⟩
    obtain ⟨⟨a, ha, h1⟩, ⟨b, hb', h2⟩⟩ := hc.1
    constructor
    · rcases List.mem_cons.mp ha with rfl | ha
      · rcases hb with ⟨b1, b2⟩ | ⟨b1, b2⟩
        · exact ⟨r, by simp [hr], by have := b1 r hr; grind⟩
        · exact ⟨q, by simp, by grind⟩
      · exact ⟨a, ha, h1⟩
    · rcases List.mem_cons.mp hb' with rfl | hb'
      · rcases hb with ⟨b1, b2⟩ | ⟨b1, b2⟩
        · exact ⟨q, by simp, by grind⟩
        · exact ⟨r, by simp [hr], by have := b1 r hr; grind⟩
      · exact ⟨b, hb', h2⟩
  subst hw
  refine ⟨rfl, ?_⟩
  have hc2 : Extr (co v) c (p :: q :: rest) := by have := hc.2; rwa [Bool.not_not] at this
  have hext' : Extr (co v) c (q :: rest) := extr_mono hsubs hc2
  have hnr : ¬ InRange (co (!v)) (q :: rest) c := fun h => hnew (!v) ⟨h, by rwa [Bool.not_not]⟩
  have hext : Extr (co (!v)) c (q :: rest) := extr_of_not_inRange hnr
  obtain ⟨⟨a, ha, h1⟩, ⟨b, hb', h2⟩⟩ := hc.1
  refine ⟨?_, by rwa [Bool.not_not]⟩
  have hnep := hne (!v)
  rcases hext with hext | hext
  · left
    refine ⟨hext, ?_⟩
    rcases List.mem_cons.mp hb' with rfl | hb'
    · grind
    · have := hext b hb'; grind
  · right
    refine ⟨hext, ?_⟩
    rcases List.mem_cons.mp ha with rfl | ha
    · grind
    · have := hext a ha; grind

/-- **pin sequences extend, or an older hull has a new pin** (Brignall–Huczynska–Vatter): let `L = p :: q :: rest`
    (at least three points) be a proper pin sequence inside a configuration `P` without proper interval and
    with distinct coordinates, whose hull misses a point of `P`.  Then some point `c` of `P` outside the hull
    of `L` either extends `L` to a proper pin sequence `c :: L`, or is a pin for the hull of `q :: rest`
    already.  (The second alternative cannot be dropped: a proper pin sequence need not be extendable.) -/
theorem simple_extends_pin_or (P : List Pt) (hS : Simple P) (hx : (P.map Prod.fst).Nodup)
    (hy : (P.map Prod.snd).Nodup) (v : Bool) (p q : Pt) (rest : List Pt) (hrest : rest ≠ [])
    (hP : PinSeqA v (p :: q :: rest)) (hN : (p :: q :: rest).Nodup) (hsub : ∀ a ∈ p :: q :: rest, a ∈ P)
    (hout : ∃ d ∈ P, ¬ InHull (p :: q :: rest) d) :
    ∃ c ∈ P, ¬ InHull (p :: q :: rest) c ∧
      (PinSeqA (!v) (c :: p :: q :: rest) ∨ ∃ w, IsPin w (q :: rest) c) := by
  obtain ⟨c, hc, w, hpin⟩ := simple_has_pin P (p :: q :: rest) hS hsub
    ⟨p, by simp, q, by simp, fun h => by subst h; simp at hN⟩ hout
  have hco : ¬ InHull (p :: q :: rest) c := hpin.not_inHull
  refine ⟨c, hc, hco, ?_⟩
  by_cases hold : ∃ w', IsPin w' (q :: rest) c
  · exact Or.inr hold
  · left
    have hcp : c ≠ p := fun h => hco (h ▸ inHull_self (by simp))
    have hne : ∀ u, co u c ≠ co u p := by
      intro u hu
      apply hcp
      cases u
      · exact List.inj_on_of_nodup_map hy hc (hsub p (by simp)) (by simpa [co] using hu)
      · exact List.inj_on_of_nodup_map hx hc (hsub p (by simp)) (by simpa [co] using hu)
    have hsep : SepA v p q rest := by
      rw [pinSeqA_cons hrest] at hP; exact hP.1
    obtain ⟨_, hs⟩ := sepA_of_new_pin hrest hsep hpin (fun w' hw' => hold ⟨w', hw'⟩) hne
    rw [pinSeqA_cons (by simp)]
    exact ⟨hs, by rwa [Bool.not_not]⟩

/-- **two points of a simple configuration start a proper pin sequence**: if `P` has no proper interval,
    distinct coordinates and a third point outside the hull of `p2 ≠ p1`, then some `c ∈ P` makes
    `c, p2, p1` a proper pin sequence -/
theorem simple_starts_pin (P : List Pt) (hS : Simple P) (hx : (P.map Prod.fst).Nodup)
    (hy : (P.map Prod.snd).Nodup) (p2 p1 : Pt) (h2 : p2 ∈ P) (h1 : p1 ∈ P) (hne : p2 ≠ p1)
    (hout : ∃ d ∈ P, ¬ InHull [p2, p1] d) :
    ∃ c ∈ P, ∃ v, PinSeqA v [c, p2, p1] ∧ ¬ InHull [p2, p1] c := by
  have hsub : ∀ a ∈ [p2, p1], a ∈ P := by
    intro a ha; simp only [List.mem_cons, List.not_mem_nil, or_false] at ha; rcases ha with rfl | rfl <;> assumption
  obtain ⟨c, hc, v, hpin⟩ := simple_has_pin P [p2, p1] hS hsub ⟨p2, by simp, p1, by simp, hne⟩ hout
  have hco : ¬ InHull [p2, p1] c := hpin.not_inHull
  refine ⟨c, hc, v, pinSeq_three_of_pin hpin ⟨?_, ?_⟩, hco⟩
  · intro hu
    have : c = p2 := by
      cases v
      · exact List.inj_on_of_nodup_map hy hc h2 (by simpa [co] using hu)
      · exact List.inj_on_of_nodup_map hx hc h2 (by simpa [co] using hu)
    exact hco (this ▸ inHull_self (by simp))
  · intro hu
    have : c = p1 := by
      cases v
      · exact List.inj_on_of_nodup_map hy hc h1 (by simpa [co] using hu)
      · exact List.inj_on_of_nodup_map hx hc h1 (by simpa [co] using hu)
    exact hco (this ▸ inHull_self (by simp))

end C16P
