import PermutaModel.Model.C18
import PermutaModel.Spec.C18
import PermutaModel.Lemmas.PermBasic
import Mathlib.Data.List.Dedup

/-! C18 helper lemmas: set-like list operations, lookups, `add_point` structure. -/

namespace Model.C18

theorem nodup_eraseDups {α : Type} [BEq α] [LawfulBEq α] (l : List α) : l.eraseDups.Nodup := by
  generalize hn : l.length = n
  induction n using Nat.strong_induction_on generalizing l with
  | _ n ih =>
    cases l with
    | nil => simp
    | cons a as =>
      rw [List.eraseDups_cons, List.nodup_cons]
      constructor
      · intro h
        rw [List.mem_eraseDups, List.mem_filter] at h
        simp at h
      · exact ih _ (by
          have := List.length_filter_le (fun b => !b == a) as
          simp only [List.length_cons] at hn; omega) _ rfl

theorem contains_iff_mem {l : List Cell} {c : Cell} : l.contains c = true ↔ c ∈ l := by
  simp

theorem mem_union {a b : List Cell} {c : Cell} : c ∈ union a b ↔ c ∈ a ∨ c ∈ b := by
  unfold union
  simp only [List.mem_append, List.mem_filter, List.mem_eraseDups, Bool.not_eq_eq_eq_not, Bool.not_true]
  constructor
  · rintro (h | ⟨h, _⟩)
    · exact Or.inl h
    · exact Or.inr h
  · rintro (h | h)
    · exact Or.inl h
    · by_cases hc : c ∈ a
      · exact Or.inl hc
      · exact Or.inr ⟨h, by simpa using hc⟩

theorem nodup_union {a b : List Cell} (ha : a.Nodup) : (union a b).Nodup := by
  unfold union
  refine List.Nodup.append ha ?_ ?_
  · exact (nodup_eraseDups b).filter _
  · intro x hx hx'
    simp only [List.mem_filter, Bool.not_eq_eq_eq_not, Bool.not_true] at hx'
    have := hx'.2
    simp at this
    exact this hx

/-- the rectangle scan of `is_shaded` -/
theorem rectShaded_iff (m : Mesh) (ll ur : Cell) (h1 : ll.1 ≤ ur.1) (h2 : ll.2 ≤ ur.2) :
    rectShaded m ll ur = true ↔
      ∀ x y, ll.1 ≤ x → x ≤ ur.1 → ll.2 ≤ y → y ≤ ur.2 → (x, y) ∈ m.shading := by
  unfold rectShaded
  simp only [List.all_eq_true, List.mem_range, List.contains_iff_mem]
  constructor
  · intro h x y hx1 hx2 hy1 hy2
    have := h (y - ll.2) (by omega) (x - ll.1) (by omega)
    rwa [show ll.1 + (x - ll.1) = x by omega, show ll.2 + (y - ll.2) = y by omega] at this
  · intro h dy hdy dx hdx
    exact h _ _ (by omega) (by omega) (by omega) (by omega)

/-- the scan of `is_pointfree` -/
theorem rectPointfree_iff (m : Mesh) (ll ur : Cell) (h1 : ll.1 ≤ ur.1) :
    rectPointfree m ll ur = true ↔
      ∀ idx, ll.1 ≤ idx → idx < ur.1 → ¬ (ll.2 ≤ m.pattern.getD idx 0 ∧ m.pattern.getD idx 0 < ur.2) := by
  unfold rectPointfree
  simp only [Bool.not_eq_eq_eq_not, Bool.not_true, List.any_eq_false, List.mem_range,
    Bool.and_eq_true, decide_eq_true_eq]
  constructor
  · intro h idx hi1 hi2
    have := h (idx - ll.1) (by omega)
    rwa [show ll.1 + (idx - ll.1) = idx by omega] at this
  · intro h d hd
    exact h _ (by omega) (by omega)

/-! ### add_point -/

/-- the old strip containing new strip `a` when a line is inserted in strip `x` -/
def collapse (x a : Nat) : Nat := if a ≤ x then a else a - 1

theorem mem_splitCoord {s x a : Nat} : a ∈ splitCoord s x ↔ s = collapse x a := by
  unfold splitCoord collapse
  by_cases h1 : s ≤ x <;> by_cases h2 : s ≥ x <;> by_cases h3 : a ≤ x <;> simp [h1, h2, h3] <;> omega

/-- shading transport of `_add_point_base_shading`: a new cell is shaded iff the old cell it
    comes from is shaded (so a shaded cell on the insertion row/column splits in two) -/
theorem mem_addPointBaseShading {m : Mesh} {x y : Nat} {c : Cell} :
    c ∈ addPointBaseShading m x y ↔ (collapse x c.1, collapse y c.2) ∈ m.shading := by
  unfold addPointBaseShading
  simp only [List.mem_eraseDups, List.mem_flatMap, List.mem_map]
  constructor
  · rintro ⟨s, hs, nx, hnx, ny, hny, rfl⟩
    rw [mem_splitCoord] at hnx hny
    simp only
    rw [← hnx, ← hny]; exact hs
  · intro h
    exact ⟨_, h, c.1, mem_splitCoord.mpr rfl, c.2, mem_splitCoord.mpr rfl, rfl⟩

theorem insertAt_length (p : NSeq) (x y : Nat) : (insertAt p x y).length = p.length + 1 := by
  unfold insertAt
  simp only [List.length_append, List.length_map, List.length_take, List.length_drop, List.length_cons,
    List.length_nil]
  omega

theorem insertAt_eq (p : NSeq) (x y : Nat) :
    insertAt p x y = (p.take x).map (fun w => if w < y then w else w + 1) ++
      y :: (p.drop x).map (fun w => if w < y then w else w + 1) := by
  unfold insertAt; simp

/-- `_add_point_new_perm` yields a permutation of length `n+1` -/
theorem insertAt_isPerm {p : NSeq} (hp : IsPerm p) {x y : Nat} (hy : y ≤ p.length) :
    IsPerm (insertAt p x y) := by
  have hinj : Function.Injective (fun w : Nat => if w < y then w else w + 1) := by
    intro a b h
    simp only at h
    split at h <;> split at h <;> omega
  have hne : ∀ w : Nat, (if w < y then w else w + 1) ≠ y := by
    intro w; split <;> omega
  constructor
  · rw [insertAt_eq]
    have hnd : ((p.take x ++ p.drop x).map (fun w => if w < y then w else w + 1)).Nodup := by
      rw [List.take_append_drop]; exact hp.1.map hinj
    rw [List.map_append] at hnd
    rw [List.nodup_append] at hnd ⊢
    refine ⟨hnd.1, ?_, ?_⟩
    · rw [List.nodup_cons]
      refine ⟨?_, hnd.2.1⟩
      simp only [List.mem_map, not_exists, not_and]
      intro w _ h; exact hne w h
    · intro a ha b hb
      rw [List.mem_cons] at hb
      rcases hb with rfl | hb
      · simp only [List.mem_map] at ha
        obtain ⟨w, _, rfl⟩ := ha
        exact hne w
      · exact hnd.2.2 a ha b hb
  · intro v hv
    rw [insertAt_length]
    rw [insertAt_eq] at hv
    simp only [List.mem_append, List.mem_map, List.mem_cons] at hv
    rcases hv with ⟨w, hw, rfl⟩ | rfl | ⟨w, hw, rfl⟩
    · have := hp.2 w (List.mem_of_mem_take hw); split <;> omega
    · omega
    · have := hp.2 w (List.mem_of_mem_drop hw); split <;> omega

end Model.C18
