import PermutaModel.Lemmas.C10SkewDec

/-! The decompositions are the finest ones: every cut of `p` is a boundary between two parts. -/
open Model Spec.C10

namespace C10L

@[simp] theorem length_standardize (l : List Nat) : (standardize l).length = l.length := by
  simp [standardize]

theorem sumDecompGo_boundaries {p : NSeq} (hp : IsPerm p) :
    ∀ (rest : List Nat) (idx : Nat) (maxv : Int) (start : Nat),
      p.drop idx = rest → start ≤ idx →
      (∀ j, j < idx → (p.getD j 0 : Int) ≤ maxv) →
      (maxv = -1 ∨ ∃ j, j < idx ∧ (p.getD j 0 : Int) = maxv) →
      ∀ c, idx < c → c ≤ p.length → closedAt p c →
        ∃ k, start + (((sumDecompGo p rest idx maxv start).take k).map List.length).sum = c := by
  intro rest
  induction rest with
  | nil =>
    intro idx maxv start hdrop _ _ _ c h1 h2 _
    have := List.drop_eq_nil_iff.mp hdrop
    omega
  | cons val rest ih =>
    intro idx maxv start hdrop hsi hub hach c h1 h2 hc
    obtain ⟨hi, hval, hdrop'⟩ := drop_cons_facts hdrop
    have hub' : ∀ j, j < idx + 1 → (p.getD j 0 : Int) ≤ max maxv (val : Int) := by
      intro j hj
      by_cases hji : j < idx
      · have := hub j hji; omega
      · have : j = idx := by omega
        subst this; rw [hval]; omega
    have hach' : ∃ j, j < idx + 1 ∧ (p.getD j 0 : Int) = max maxv (val : Int) := by
      by_cases hmv : maxv ≤ (val : Int)
      · exact ⟨idx, by omega, by rw [hval]; omega⟩
      · rcases hach with h | ⟨j, hj, hjm⟩
        · omega
        · exact ⟨j, by omega, by omega⟩
    have hK := cut_iff hp hi hub' hach'
    unfold sumDecompGo
    split
    · next hcut =>
      by_cases hc1 : c = idx + 1
      · refine ⟨1, ?_⟩
        simp only [List.take_succ_cons, List.take_zero, List.map_cons, List.map_nil, List.sum_cons,
          List.sum_nil, length_standardize]
        rw [length_slice p (by omega)]; omega
      · obtain ⟨k, hk⟩ := ih (idx + 1) _ (idx + 1) hdrop' (Nat.le_refl _) hub' (Or.inr hach') c
          (by omega) h2 hc
        refine ⟨k + 1, ?_⟩
        simp only [List.take_succ_cons, List.map_cons, List.sum_cons, length_standardize]
        rw [length_slice p (by omega)]; omega
    · next hcut =>
      by_cases hc1 : c = idx + 1
      · subst hc1; exact absurd (hK.mpr hc) hcut
      · exact ih (idx + 1) _ start hdrop' (by omega) hub' (Or.inr hach') c (by omega) h2 hc

/-- every sum cut of `p` is a boundary between two parts of `sum_decomposition` -/
theorem sumDecomposition_finest {p : NSeq} (hp : IsPerm p) {c : Nat} (h0 : 0 < c) (hc : c ≤ p.length)
    (hcut : SumCut p c) : ∃ k, (((sumDecomposition p).take k).map List.length).sum = c := by
  have := sumDecompGo_boundaries hp p 0 (-1) 0 (by simp) (Nat.le_refl _) (fun j hj => by omega)
    (Or.inl rfl) c h0 hc ((closedAt_iff_sumCut hp hc).mpr hcut)
  simpa [sumDecomposition] using this

theorem skewDecompGo_boundaries {p : NSeq} (hp : IsPerm p) :
    ∀ (rest : List Nat) (idx minv start : Nat),
      p.drop idx = rest → start ≤ idx →
      (∀ j, j < idx → minv ≤ p.getD j 0) →
      (minv = p.length + 1 ∨ ∃ j, j < idx ∧ p.getD j 0 = minv) →
      ∀ c, idx < c → c ≤ p.length → skewClosedAt p c →
        ∃ k, start + (((skewDecompGo p rest idx minv start).take k).map List.length).sum = c := by
  intro rest
  induction rest with
  | nil =>
    intro idx minv start hdrop _ _ _ c h1 h2 _
    have := List.drop_eq_nil_iff.mp hdrop
    omega
  | cons val rest ih =>
    intro idx minv start hdrop hsi hlb hach c h1 h2 hc
    obtain ⟨hi, hval, hdrop'⟩ := drop_cons_facts hdrop
    have hlb' : ∀ j, j < idx + 1 → min minv val ≤ p.getD j 0 := by
      intro j hj
      by_cases hji : j < idx
      · have := hlb j hji; omega
      · have : j = idx := by omega
        subst this; rw [hval]; omega
    have hvn : val < p.length := by rw [← hval]; exact hp.getD_lt hi
    have hach' : ∃ j, j < idx + 1 ∧ p.getD j 0 = min minv val := by
      by_cases hmv : val ≤ minv
      · exact ⟨idx, by omega, by rw [hval]; omega⟩
      · rcases hach with h | ⟨j, hj, hjm⟩
        · omega
        · exact ⟨j, by omega, by omega⟩
    have hK := cut_iff_skew hp hi hlb' hach'
    unfold skewDecompGo
    split
    · next hcut =>
      by_cases hc1 : c = idx + 1
      · refine ⟨1, ?_⟩
        simp only [List.take_succ_cons, List.take_zero, List.map_cons, List.map_nil, List.sum_cons,
          List.sum_nil, length_standardize]
        rw [length_slice p (by omega)]; omega
      · obtain ⟨k, hk⟩ := ih (idx + 1) _ (idx + 1) hdrop' (Nat.le_refl _) hlb' (Or.inr hach') c
          (by omega) h2 hc
        refine ⟨k + 1, ?_⟩
        simp only [List.take_succ_cons, List.map_cons, List.sum_cons, length_standardize]
        rw [length_slice p (by omega)]; omega
    · next hcut =>
      by_cases hc1 : c = idx + 1
      · subst hc1; exact absurd (hK.mpr hc) hcut
      · exact ih (idx + 1) _ start hdrop' (by omega) hlb' (Or.inr hach') c (by omega) h2 hc

/-- every skew cut of `p` is a boundary between two parts of `skew_decomposition` -/
theorem skewDecomposition_finest {p : NSeq} (hp : IsPerm p) {c : Nat} (h0 : 0 < c) (hc : c ≤ p.length)
    (hcut : SkewCut p c) : ∃ k, (((skewDecomposition p).take k).map List.length).sum = c := by
  have := skewDecompGo_boundaries hp p 0 (p.length + 1) 0 (by simp) (Nat.le_refl _) (fun j hj => by omega)
    (Or.inl rfl) c h0 hc ((skewClosedAt_iff_skewCut hp hc).mpr hcut)
  simpa [skewDecomposition] using this

end C10L
