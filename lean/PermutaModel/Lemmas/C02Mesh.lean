import PermutaModel.Lemmas.C02Ensure

/-! C02 helpers, part 9: mesh bases (levels are filters of `permsLex`). -/
open List Model Model.C02 Model.C07

namespace C02L

/-- cache invariant for a mesh basis: every level has exactly the spec keys (same order) -/
structure MeshInv (b : List Mesh) (c : List Level) : Prop where
  pos : 0 < c.length
  keys : ∀ i, i < c.length → (c.getD i []).keys = Spec.C02.meshLevel b i

theorem keys_meshLevel (b : List Mesh) (i : Nat) : (meshLevel b i).keys = Spec.C02.meshLevel b i := by
  simp [meshLevel, Level.keys, Spec.C02.meshLevel, Function.comp_def]

/-- the initial cache of a mesh-basis class (`{(): [0]}` if the empty permutation avoids the basis,
    `{}` otherwise) is the correct level 0 - for every list of mesh patterns, no hypothesis -/
theorem MeshInv.fresh (b : List Mesh) : MeshInv b (freshObj (.mesh b)).cache := by
  have h0 : permsLex 0 = [[]] := by decide
  by_cases hall : (b.all fun m => !containsMesh [] m) = true
  · refine ⟨by simp [freshObj, hall], ?_⟩
    intro i hi
    have : i = 0 := by simp [freshObj, hall] at hi; omega
    subst this
    simp [freshObj, Level.keys, Spec.C02.meshLevel, h0, hall]
  · refine ⟨by simp [freshObj, hall], ?_⟩
    intro i hi
    have : i = 0 := by simp [freshObj, hall] at hi; omega
    subst this
    have hall' : (b.all fun m => !containsMesh [] m) = false := by simpa using hall
    simp [freshObj, Level.keys, Spec.C02.meshLevel, h0, hall']

structure MeshExt (b : List Mesh) (c w : List Level) : Prop where
  inv : MeshInv b w
  len : c.length ≤ w.length
  keys : ∀ i, i < c.length → (w.getD i []).keys = (c.getD i []).keys

theorem MeshInv.ext_of_le {b : List Mesh} {c w : List Level} (hc : MeshInv b c) (hw : MeshInv b w)
    (h : c.length ≤ w.length) : MeshExt b c w :=
  ⟨hw, h, fun i hi => by rw [hw.keys i (by omega), hc.keys i hi]⟩

theorem MeshInv.compact {b : List Mesh} {c : List Level} (h : MeshInv b c) (s n : Nat) :
    MeshInv b (compact c s n) :=
  ⟨by simpa using h.pos, fun i hi => by rw [keys_compact]; exact h.keys i (by simpa using hi)⟩

theorem MeshInv.snoc {b : List Mesh} {c : List Level} (h : MeshInv b c) :
    MeshInv b (c ++ [meshLevel b c.length]) := by
  refine ⟨by simp, fun i hi => ?_⟩
  simp only [List.length_append, List.length_cons, List.length_nil] at hi
  by_cases h1 : i < c.length
  · rw [List.getD_append _ _ _ _ h1]; exact h.keys i h1
  · have : i = c.length := by omega
    subst this
    rw [List.getD_append_right _ _ _ _ (Nat.le_refl _)]
    simp [keys_meshLevel]

theorem meshTrace_correct (b : List Mesh) : ∀ (k : Nat) (c : List Level), MeshInv b c →
    (meshTrace b k c).getLastD c = c ++ (List.range' c.length k).map (meshLevel b) ∧
    MeshInv b (c ++ (List.range' c.length k).map (meshLevel b)) ∧
    ∀ w ∈ meshTrace b k c, MeshInv b w ∧ c.length ≤ w.length
  | 0, c, h => by simp [meshTrace, h]
  | k+1, c, h => by
    obtain ⟨h1, h2, h3⟩ := meshTrace_correct b k (c ++ [meshLevel b c.length]) h.snoc
    have e : c ++ (List.range' c.length (k + 1)).map (meshLevel b) =
        (c ++ [meshLevel b c.length]) ++
          (List.range' (c ++ [meshLevel b c.length]).length k).map (meshLevel b) := by
      simp [List.range'_succ]
    refine ⟨?_, by rw [e]; exact h2, ?_⟩
    · rw [e, ← h1]
      simp only [meshTrace]
      cases hm : meshTrace b k (c ++ [meshLevel b c.length]) with
      | nil => simp
      | cons x xs =>
        simp only [List.getLastD_eq_getLast?, List.getLast?_cons_cons]
        rw [List.getLast?_eq_some_getLast (List.cons_ne_nil x xs)]; rfl
    · intro w hw
      simp only [meshTrace, List.mem_cons] at hw
      rcases hw with rfl | hw
      · exact ⟨h.snoc, by simp⟩
      · have := h3 w hw
        exact ⟨this.1, by have := this.2; simp at this; omega⟩

/-- **T4**: `_ensure_level(n)` for a mesh basis -/
theorem ensureLevel_mesh {b : List Mesh} (o : AvObj) (hob : o.basis = .mesh b) (h : MeshInv b o.cache)
    (n : Nat) :
    ∃ o' tr, ensureLevel o n = .ok o' ∧ ensureTrace o n = .ok tr ∧ o'.basis = o.basis ∧
      MeshExt b o.cache o'.cache ∧ n < o'.cache.length ∧ tr.getLastD o = o' ∧
      ∀ w ∈ tr, w.basis = o.basis ∧ MeshExt b o.cache w.cache := by
  obtain ⟨h1, h2, h3⟩ := meshTrace_correct b (n + 1 - o.cache.length) o.cache h
  have hlen : (ensureMesh b n o.cache).length = o.cache.length + (n + 1 - o.cache.length) := by
    simp [ensureMesh]
  refine ⟨{ o with cache := compact (ensureMesh b n o.cache) (o.cache.length - 2) n },
    (meshTrace b (n + 1 - o.cache.length) o.cache ++
      compactTrace ((meshTrace b (n + 1 - o.cache.length) o.cache).getLastD o.cache)
        (o.cache.length - 2) n).map fun c => { o with cache := c },
    by simp only [ensureLevel, hob], by simp only [ensureTrace, hob], rfl,
    h.ext_of_le (MeshInv.compact h2 _ _) (by simp [ensureMesh]), by simp [ensureMesh]; omega, ?_, ?_⟩
  · have : o = (fun c => { o with cache := c }) o.cache := rfl
    conv_lhs => rw [this]
    rw [getLastD_map (fun c => ({ o with cache := c } : AvObj)), getLastD_append, compactTrace_getLastD, h1]
    rfl
  · intro w hw
    obtain ⟨x, hx, rfl⟩ := List.mem_map.mp hw
    refine ⟨rfl, ?_⟩
    rcases List.mem_append.mp hx with hx | hx
    · exact h.ext_of_le (h3 x hx).1 (h3 x hx).2
    · rw [h1] at hx
      obtain ⟨L, _, rfl⟩ := mem_compactTrace hx
      exact h.ext_of_le (MeshInv.compact h2 _ _) (by simp)

end C02L
