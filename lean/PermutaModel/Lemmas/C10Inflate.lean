import PermutaModel.Lemmas.C10Algebra

/-! `inflate`: the result is the position-ordered concatenation of the components, component `j`
    shifted up by the total size of the components sitting on smaller values of `p`; it is a permutation. -/
open Model

namespace C10L

/-- a component as a list of values: `None` is a single point -/
def compList : Option NSeq → NSeq
  | none => [0]
  | some c => c

theorem compSize_eq (o : Option NSeq) : compSize o = (compList o).length := by
  cases o <;> rfl

/-- a component is `None` or a permutation -/
def CompOk (o : Option NSeq) : Prop := IsPerm (compList o)

theorem compOk_none : CompOk none := by unfold CompOk compList; decide

/-- blocks stacked along the diagonal starting at height `off` -/
def stack : Nat → List NSeq → NSeq
  | _, [] => []
  | off, B :: Bs => B.map (· + off) ++ stack (off + B.length) Bs

theorem stack_facts (Bs : List NSeq) (hB : ∀ B ∈ Bs, IsPerm B) (off : Nat) :
    (stack off Bs).Nodup ∧ (∀ x ∈ stack off Bs, off ≤ x ∧ x < off + (Bs.map List.length).sum) ∧
      (stack off Bs).length = (Bs.map List.length).sum := by
  induction Bs generalizing off with
  | nil => simp [stack]
  | cons B Bs ih =>
    obtain ⟨h1, h2, h3⟩ := ih (fun x hx => hB x (by simp [hx])) (off + B.length)
    have hBp := hB B (by simp)
    simp only [stack, List.map_cons, List.sum_cons]
    refine ⟨?_, ?_, ?_⟩
    · rw [List.nodup_append]
      refine ⟨List.Nodup.map_on (fun x _ y _ h => by omega) hBp.1, h1, ?_⟩
      intro a ha b hb
      obtain ⟨y, hy, rfl⟩ := List.mem_map.mp ha
      have := hBp.2 y hy
      have := (h2 b hb).1
      omega
    · intro x hx
      rcases List.mem_append.mp hx with hx | hx
      · obtain ⟨y, hy, rfl⟩ := List.mem_map.mp hx
        have := hBp.2 y hy
        omega
      · have := h2 x hx
        omega
    · simp [h3]

theorem stack_isPerm (Bs : List NSeq) (hB : ∀ B ∈ Bs, IsPerm B) : IsPerm (stack 0 Bs) := by
  obtain ⟨h1, h2, h3⟩ := stack_facts Bs hB 0
  refine ⟨h1, fun x hx => ?_⟩
  have := (h2 x hx).2
  omega

@[simp] theorem length_inflateShifts (comps : List (Option NSeq)) (order : List Nat) (s : Nat) (sh : List Nat) :
    (inflateShifts comps order s sh).length = sh.length := by
  induction order generalizing s sh with
  | nil => rfl
  | cons i rest ih => simp [inflateShifts, ih]

theorem inflateShifts_untouched (comps : List (Option NSeq)) (order : List Nat) (s : Nat) (sh : List Nat)
    {j : Nat} (hj : j ∉ order) : (inflateShifts comps order s sh).getD j 0 = sh.getD j 0 := by
  induction order generalizing s sh with
  | nil => rfl
  | cons i rest ih =>
    simp only [inflateShifts]
    rw [ih _ _ (fun h => hj (by simp [h]))]
    have : i ≠ j := fun h => hj (by simp [h])
    simp [List.getD_eq_getElem?_getD, List.getElem?_set_ne this]

/-- the entry written for the `k`-th processed index is the running total before it -/
theorem inflateShifts_getD (comps : List (Option NSeq)) (order : List Nat) (hn : order.Nodup) (s : Nat)
    (sh : List Nat) (hb : ∀ i ∈ order, i < sh.length) {k : Nat} (hk : k < order.length) :
    (inflateShifts comps order s sh).getD (order.getD k 0) 0 =
      s + ((order.take k).map fun i => compSize (comps.getD i none)).sum := by
  induction order generalizing s sh k with
  | nil => simp at hk
  | cons i rest ih =>
    rw [List.nodup_cons] at hn
    simp only [inflateShifts]
    cases k with
    | zero =>
      simp only [List.getD_cons_zero, List.take_zero, List.map_nil, List.sum_nil, Nat.add_zero]
      rw [inflateShifts_untouched _ _ _ _ hn.1]
      have := hb i (by simp)
      simp [List.getD_eq_getElem?_getD, List.getElem?_set_self this]
    | succ k =>
      simp only [List.getD_cons_succ, List.take_succ_cons, List.map_cons, List.sum_cons]
      rw [ih hn.2 _ _ (fun x hx => by simpa using hb x (by simp [hx])) (by simpa using hk)]
      omega

/-- stacking the components in the processing order = emitting them with the computed shifts -/
theorem flatMap_inflateShifts (comps : List (Option NSeq)) (order : List Nat) (hn : order.Nodup) (s : Nat)
    (sh : List Nat) (hb : ∀ i ∈ order, i < sh.length) :
    order.flatMap (fun j => (compList (comps.getD j none)).map
        (· + (inflateShifts comps order s sh).getD j 0)) =
      stack s (order.map fun j => compList (comps.getD j none)) := by
  induction order generalizing s sh with
  | nil => rfl
  | cons i rest ih =>
    rw [List.nodup_cons] at hn
    have hi := hb i (by simp)
    simp only [inflateShifts, List.flatMap_cons, List.map_cons, stack]
    congr 1
    · rw [inflateShifts_untouched _ _ _ _ hn.1]
      simp [List.getD_eq_getElem?_getD, List.getElem?_set_self hi]
    · rw [← compSize_eq]
      exact ih hn.2 _ _ (fun x hx => by simpa using hb x (by simp [hx]))

theorem drop_cons_facts' {α : Type} {l : List α} {k : Nat} {a d : α} {rest : List α}
    (h : l.drop k = a :: rest) : l.getD k d = a ∧ l.drop (k + 1) = rest := by
  have hi : k < l.length := by
    by_contra hc
    rw [List.drop_of_length_le (by omega)] at h
    exact absurd h (by simp)
  rw [List.drop_eq_getElem_cons hi] at h
  injection h with h1 h2
  exact ⟨by simp [List.getD_eq_getElem?_getD, hi, h1], h2⟩

theorem inflateEmit_eq (shifts : List Nat) (comps : List (Option NSeq)) :
    ∀ (cs : List (Option NSeq)) (k : Nat), comps.drop k = cs →
      inflateEmit shifts cs k =
        (List.range' k cs.length).flatMap fun j => (compList (comps.getD j none)).map (· + shifts.getD j 0) := by
  intro cs
  induction cs with
  | nil => intro k _; rfl
  | cons c cs ih =>
    intro k hk
    obtain ⟨h1, h2⟩ := drop_cons_facts' (d := none) hk
    rw [List.length_cons, List.range'_succ, List.flatMap_cons, h1]
    cases c with
    | none => simp only [inflateEmit, compList, List.map_cons, List.map_nil, Nat.zero_add]
              rw [ih (k + 1) h2]; rfl
    | some c => simp only [inflateEmit]
                rw [ih (k + 1) h2]; rfl

/-- **inflate is closed**: with as many components as points, each `None` or a permutation
    (empty ones allowed), the result is a permutation of the total size; it is the concatenation
    over positions `j` of component `j` shifted up by the total size of the components on smaller
    values of `p` -/
theorem inflate_spec {p : NSeq} (hp : IsPerm p) (comps : List (Option NSeq)) (hl : comps.length = p.length)
    (hc : ∀ o ∈ comps, CompOk o) :
    ∃ shifts : List Nat,
      inflate p comps = .ok ((List.range p.length).flatMap fun j =>
        (compList (comps.getD j none)).map (· + shifts.getD j 0)) ∧
      (∀ j, j < p.length → shifts.getD j 0 =
        (((inverse p).take (p.getD j 0)).map fun i => compSize (comps.getD i none)).sum) ∧
      IsPerm ((List.range p.length).flatMap fun j =>
        (compList (comps.getD j none)).map (· + shifts.getD j 0)) ∧
      ((List.range p.length).flatMap fun j =>
        (compList (comps.getD j none)).map (· + shifts.getD j 0)).length =
          ((List.range p.length).map fun j => compSize (comps.getD j none)).sum := by
  have hq := inverse_isPerm hp
  have hb : ∀ i ∈ inverse p, i < (List.replicate p.length 0).length := by
    intro i hi; simpa using hq.2 i hi
  refine ⟨inflateShifts comps (inverse p) 0 (List.replicate p.length 0), ?_, ?_, ?_, ?_⟩
  · unfold inflate
    rw [if_pos hl, inflateEmit_eq _ comps comps 0 (by simp), hl, List.range_eq_range']
  · intro j hj
    have hk : p.getD j 0 < (inverse p).length := by simpa using hp.getD_lt hj
    have := inflateShifts_getD comps (inverse p) hq.1 0 _ hb hk
    rw [inverse_getD_getD hp hj] at this
    simpa using this
  · have hperm : ((inverse p).flatMap fun j => (compList (comps.getD j none)).map
          (· + (inflateShifts comps (inverse p) 0 (List.replicate p.length 0)).getD j 0)).Perm
        ((List.range p.length).flatMap fun j => (compList (comps.getD j none)).map
          (· + (inflateShifts comps (inverse p) 0 (List.replicate p.length 0)).getD j 0)) := by
      have := perm_range hq
      rw [length_inverse] at this
      exact this.flatMap_right _
    rw [flatMap_inflateShifts comps (inverse p) hq.1 0 _ hb] at hperm
    apply isPerm_of_perm _ hperm.symm
    apply stack_isPerm
    intro B hB
    obtain ⟨j, hj, rfl⟩ := List.mem_map.mp hB
    have hj' : j < comps.length := by rw [hl]; simpa using hq.2 j hj
    have : comps.getD j none = comps[j] := by simp [List.getD_eq_getElem?_getD, hj']
    rw [this]
    exact hc _ (List.getElem_mem hj')
  · rw [List.length_flatMap]
    congr 1
    apply List.map_congr_left
    intro j _
    rw [List.length_map, compSize_eq]

theorem inflate_length_mismatch (p : NSeq) (comps : List (Option NSeq)) (hl : comps.length ≠ p.length) :
    inflate p comps = .error .assertion := by
  unfold inflate; rw [if_neg hl]

end C10L
