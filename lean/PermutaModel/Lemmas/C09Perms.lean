import PermutaModel.Model.C09
import Mathlib.Data.Nat.Factorial.Basic
import Mathlib.Data.List.Nodup
import Mathlib.Data.List.Basic

/-! Helper lemmas for C09: the lexicographic generator `Model.permsAux` (membership, order, size, indexing). -/
open Nat

namespace C09

/-- number of permutations shorter than `n`: `0! + 1! + … + (n-1)!` -/
def offset : Nat → Nat
  | 0 => 0
  | n + 1 => offset n + n !

theorem lexLt_irrefl : ∀ a : List Nat, lexLt a a = false
  | [] => rfl
  | x :: t => by simp [lexLt, lexLt_irrefl t]

theorem lexLt_asymm : ∀ a b : List Nat, lexLt a b = true → lexLt b a = false
  | [], [] => by simp [lexLt]
  | [], _ :: _ => by simp [lexLt]
  | _ :: _, [] => by simp [lexLt]
  | x :: s, y :: t => by
    simp only [lexLt, Bool.or_eq_true, decide_eq_true_eq, Bool.and_eq_true, beq_iff_eq,
      Bool.or_eq_false_iff, decide_eq_false_iff_not, Bool.and_eq_false_imp]
    rintro (h | ⟨rfl, h⟩)
    · exact ⟨by omega, fun h' => by omega⟩
    · exact ⟨by omega, fun _ => lexLt_asymm s t h⟩

theorem lexLt_trans : ∀ a b c : List Nat, lexLt a b = true → lexLt b c = true → lexLt a c = true
  | [], [], _ => by simp [lexLt]
  | [], _ :: _, [] => by simp [lexLt]
  | [], _ :: _, _ :: _ => by simp [lexLt]
  | _ :: _, [], _ => by simp [lexLt]
  | _ :: _, _ :: _, [] => by simp [lexLt]
  | x :: s, y :: t, z :: u => by
    simp only [lexLt, Bool.or_eq_true, decide_eq_true_eq, Bool.and_eq_true, beq_iff_eq]
    rintro (h | ⟨rfl, h⟩) (h' | ⟨rfl, h'⟩)
    · left; omega
    · left; omega
    · left; omega
    · right; exact ⟨rfl, lexLt_trans s t u h h'⟩

/-- on lists of equal length `lexLt` is total -/
theorem lexLt_total : ∀ a b : List Nat, a.length = b.length → a ≠ b → lexLt a b = true ∨ lexLt b a = true
  | [], [], _, h => by simp at h
  | [], _ :: _, h, _ => by simp at h
  | _ :: _, [], h, _ => by simp at h
  | x :: s, y :: t, hl, hne => by
    simp only [lexLt, Bool.or_eq_true, decide_eq_true_eq, Bool.and_eq_true, beq_iff_eq]
    rcases Nat.lt_trichotomy x y with h | h | h
    · left; left; exact h
    · subst h
      have : s ≠ t := fun e => hne (by rw [e])
      rcases lexLt_total s t (by simpa using hl) this with h | h
      · left; right; exact ⟨rfl, h⟩
      · right; right; exact ⟨rfl, h⟩
    · right; left; exact h

theorem mem_permsAux : ∀ (k : Nat) (l σ : List Nat), l.Nodup →
    (σ ∈ Model.permsAux k l ↔ σ.length = k ∧ σ.Nodup ∧ ∀ x ∈ σ, x ∈ l) := by
  intro k
  induction k with
  | zero =>
    intro l σ _
    simp only [Model.permsAux, List.mem_singleton]
    constructor
    · rintro rfl; simp
    · rintro ⟨h, _⟩; exact List.eq_nil_of_length_eq_zero h
  | succ k ih =>
    intro l σ hl
    simp only [Model.permsAux, List.mem_flatMap, List.mem_map]
    constructor
    · rintro ⟨x, hx, τ, hτ, rfl⟩
      obtain ⟨h1, h2, h3⟩ := (ih (l.erase x) τ (hl.erase x)).mp hτ
      refine ⟨by simp [h1], ?_, ?_⟩
      · rw [List.nodup_cons]
        refine ⟨fun hmem => ?_, h2⟩
        have := (hl.mem_erase_iff).mp (h3 x hmem)
        exact this.1 rfl
      · intro y hy
        rcases List.mem_cons.mp hy with rfl | hy
        · exact hx
        · exact ((hl.mem_erase_iff).mp (h3 y hy)).2
    · rintro ⟨h1, h2, h3⟩
      match σ, h1, h2, h3 with
      | x :: τ, h1, h2, h3 =>
        rw [List.nodup_cons] at h2
        refine ⟨x, h3 x (by simp), τ, ?_, rfl⟩
        rw [ih (l.erase x) τ (hl.erase x)]
        refine ⟨by simpa using h1, h2.2, fun y hy => ?_⟩
        rw [hl.mem_erase_iff]
        exact ⟨fun e => h2.1 (e ▸ hy), h3 y (by simp [hy])⟩

theorem length_permsAux : ∀ (k : Nat) (l : List Nat), l.length = k → (Model.permsAux k l).length = k ! := by
  intro k
  induction k with
  | zero => intro l _; simp [Model.permsAux]
  | succ k ih =>
    intro l hl
    simp only [Model.permsAux, List.length_flatMap, List.length_map]
    have : List.map (fun a => (Model.permsAux k (l.erase a)).length) l = List.map (fun _ => k !) l := by
      apply List.map_congr_left
      intro a ha
      exact ih _ (by rw [List.length_erase_of_mem ha, hl]; rfl)
    rw [this, List.map_const', List.sum_replicate_nat, hl, Nat.factorial_succ]

theorem sorted_permsAux : ∀ (k : Nat) (l : List Nat), l.Pairwise (· < ·) →
    (Model.permsAux k l).Pairwise (fun a b => lexLt a b = true) := by
  intro k
  induction k with
  | zero => intro l _; simp [Model.permsAux]
  | succ k ih =>
    intro l hl
    simp only [Model.permsAux]
    rw [List.pairwise_flatMap]
    constructor
    · intro x _
      rw [List.pairwise_map]
      refine (ih (l.erase x) (hl.sublist List.erase_sublist)).imp ?_
      intro a b h
      simp [lexLt, h]
    · refine hl.imp ?_
      intro a b hab x hx y hy
      obtain ⟨s, _, rfl⟩ := List.mem_map.mp hx
      obtain ⟨t, _, rfl⟩ := List.mem_map.mp hy
      simp [lexLt, hab]

/-- indexing into a `flatMap` whose blocks all have the same size `m` -/
theorem getElem?_flatMap_const {α β : Type} (f : α → List β) (m : Nat) :
    ∀ (l : List α), (∀ x ∈ l, (f x).length = m) → ∀ (i : Nat) (hi : i < l.length) (j : Nat), j < m →
      (l.flatMap f)[i * m + j]? = (f l[i])[j]? := by
  intro l
  induction l with
  | nil => intro _ i hi; simp at hi
  | cons a t ih =>
    intro hm i hi j hj
    rw [List.flatMap_cons]
    cases i with
    | zero =>
      simp only [Nat.zero_mul, Nat.zero_add, List.getElem_cons_zero]
      rw [List.getElem?_append_left (by rw [hm a (by simp)]; exact hj)]
    | succ i =>
      have hlen : (f a).length = m := hm a (by simp)
      rw [List.getElem?_append_right (by rw [hlen, Nat.succ_mul]; omega)]
      have : (i + 1) * m + j - (f a).length = i * m + j := by rw [hlen, Nat.succ_mul]; omega
      rw [this, ih (fun x hx => hm x (by simp [hx])) i (by simpa using hi) j hj]
      simp

/-- the `k`-th arrangement starts with the `k / t!`-th candidate and continues with the
    `k % t!`-th arrangement of the remaining candidates -/
theorem getElem?_permsAux_succ (t : Nat) (l : List Nat) (hl : l.Nodup) (hlen : l.length = t + 1)
    (i : Nat) (hi : i < l.length) (j : Nat) (hj : j < t !) :
    (Model.permsAux (t + 1) l)[i * t ! + j]? =
      ((Model.permsAux t (l.eraseIdx i))[j]?).map (l[i] :: ·) := by
  simp only [Model.permsAux]
  rw [getElem?_flatMap_const _ (t !) l ?_ i hi j hj]
  · rw [List.getElem?_map, hl.erase_getElem i hi]
  · intro x hx
    rw [List.length_map]
    exact length_permsAux t _ (by rw [List.length_erase_of_mem hx, hlen]; rfl)

end C09
