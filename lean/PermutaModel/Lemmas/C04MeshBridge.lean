import PermutaModel.Lemmas.C04MeshEquiv
/-! C04 helper lemmas: the property's wording of a mesh occurrence (cell of a point = number of
    occurrence positions to its left, number of occurrence values below it) is equivalent to the
    region form of `C04MeshEquiv`. -/
open Model

namespace C04L

/-- number of `a < k` satisfying `P` -/
def cnt (k : Nat) (P : Nat → Bool) : Nat := ((List.range k).filter P).length

theorem cnt_succ (k : Nat) (P : Nat → Bool) : cnt (k + 1) P = cnt k P + (if P k then 1 else 0) := by
  unfold cnt
  rw [List.range_succ, List.filter_append, List.length_append]
  by_cases h : P k <;> simp [h]

theorem cnt_le (k : Nat) (P : Nat → Bool) : cnt k P ≤ k := by
  unfold cnt
  have := List.length_filter_le P (List.range k)
  simpa using this

theorem cnt_all {k : Nat} {P : Nat → Bool} (h : ∀ a, a < k → P a = true) : cnt k P = k := by
  unfold cnt
  rw [List.filter_eq_self.mpr (by intro a ha; exact h a (List.mem_range.mp ha))]
  simp

/-- for a downward closed predicate the count is the threshold -/
theorem downclosed_iff {k : Nat} {P : Nat → Bool}
    (hd : ∀ a b, a < b → b < k → P b = true → P a = true) :
    ∀ a, a < k → (P a = true ↔ a < cnt k P) := by
  induction k with
  | zero => intro a ha; omega
  | succ k ih =>
    have hd' : ∀ a b, a < b → b < k → P b = true → P a = true :=
      fun a b hab hb => hd a b hab (by omega)
    intro a ha
    rw [cnt_succ]
    by_cases hk : P k = true
    · have hall : ∀ a, a < k → P a = true := fun a ha => hd a k ha (by omega) hk
      rw [cnt_all hall]
      simp only [hk, if_true]
      constructor
      · intro _; omega
      · intro _
        by_cases hak : a = k
        · rw [hak]; exact hk
        · exact hall a (by omega)
    · simp only [hk]
      by_cases hak : a = k
      · subst hak
        have := cnt_le a P
        constructor
        · intro h; exact absurd h hk
        · intro h; simp at h; omega
      · have := ih hd' a (by omega)
        simpa using this

theorem cnt_eq_of_iff {k x : Nat} {P : Nat → Bool} (hx : x ≤ k) (h : ∀ a, a < k → (P a = true ↔ a < x)) :
    cnt k P = x := by
  have hd : ∀ a b, a < b → b < k → P b = true → P a = true := by
    intro a b hab hb hP
    exact (h a (by omega)).mpr (by have := (h b hb).mp hP; omega)
  have key := downclosed_iff hd
  have hc := cnt_le k P
  by_contra hne
  rcases Nat.lt_or_gt_of_ne hne with hlt | hgt
  · -- cnt < x ≤ k : a = cnt
    have := (h (cnt k P) (by omega)).mpr hlt
    have := (key (cnt k P) (by omega)).mp this
    omega
  · have := (key x (by omega)).mpr hgt
    have := (h x (by omega)).mp this
    omega

theorem countLt_map_range (k : Nat) (F : Nat → Nat) (j : Nat) :
    Spec.countLt ((List.range k).map F) j = cnt k (fun a => decide (F a < j)) := by
  unfold Spec.countLt cnt
  rw [List.filter_map, List.length_map]
  rfl

/-- inside the `x`-th gap exactly the first `x` marks are below -/
theorem cnt_of_between {k x j : Nat} {F : Nat → Nat} (hmono : ∀ a b, a < b → b < k → F a < F b)
    (hx : x ≤ k) (hb : Between k F x j) : cnt k (fun a => decide (F a < j)) = x := by
  apply cnt_eq_of_iff hx
  intro a ha
  simp only [decide_eq_true_eq]
  obtain ⟨h1, h2⟩ := hb
  constructor
  · intro hlt
    by_contra hn
    -- a ≥ x, so x < k and j < F x ≤ F a
    rcases h2 with e | e
    · omega
    · by_cases hax : a = x
      · subst hax; omega
      · have := hmono x a (by omega) ha; omega
  · intro hax
    rcases h1 with e | e
    · omega
    · by_cases hax' : a = x - 1
      · subst hax'; exact e
      · have := hmono a (x - 1) (by omega) (by omega); omega

/-- a point that is not a mark lies in the gap numbered by the count of marks below it -/
theorem between_of_cnt {k j : Nat} {F : Nat → Nat} (hmono : ∀ a b, a < b → b < k → F a < F b)
    (hne : ∀ a, a < k → F a ≠ j) : Between k F (cnt k (fun a => decide (F a < j))) j := by
  have hd : ∀ a b, a < b → b < k → (fun a => decide (F a < j)) b = true →
      (fun a => decide (F a < j)) a = true := by
    intro a b hab hb h
    simp only [decide_eq_true_eq] at *
    have := hmono a b hab hb; omega
  have key := downclosed_iff hd
  have hc := cnt_le k (fun a => decide (F a < j))
  set x := cnt k (fun a => decide (F a < j)) with hx
  constructor
  · by_cases h0 : x = 0
    · exact Or.inl h0
    · right
      have := (key (x - 1) (by omega)).mpr (by omega)
      simpa using this
  · by_cases hk : x = k
    · exact Or.inl hk
    · right
      have h1 : ¬ (decide (F x < j) = true) := fun h => by
        have := (key x (by omega)).mp h; omega
      simp only [decide_eq_true_eq] at h1
      have := hne x (by omega)
      omega

theorem countLt_perm {l l' : List Nat} (h : l.Perm l') (x : Nat) : Spec.countLt l x = Spec.countLt l' x := by
  unfold Spec.countLt; exact (h.filter _).length_eq

theorem perm_range_of_isPerm {π : NSeq} (hπ : IsPerm π) : π.Perm (List.range π.length) := by
  rw [List.perm_ext_iff_of_nodup hπ.1 List.nodup_range]
  intro a
  rw [List.mem_range]
  exact ⟨hπ.2 a, fun h => hπ.mem h⟩

theorem eq_map_getD (c : List Nat) : c = (List.range c.length).map fun a => c.getD a 0 := by
  apply ext_getD (by simp)
  intro i hi
  rw [getD_map_range _ hi]

/-- the occurrence values, listed by position, are a rearrangement of the values listed by rank -/
theorem vals_perm {π σ : NSeq} {R : List Cell} {F G : Nat → Nat} (hπ : IsPerm π) (h : MEmb π σ R F G) :
    (((List.range π.length).map F).map fun j => σ.getD j 0).Perm ((List.range π.length).map G) := by
  have e1 : ((List.range π.length).map F).map (fun j => σ.getD j 0) = π.map G := by
    conv_rhs => rw [eq_map_getD π]
    rw [List.map_map, List.map_map]
    apply List.map_congr_left
    intro a ha
    simp only [Function.comp]
    exact (h.val a (List.mem_range.mp ha)).symm
  rw [e1]
  exact (perm_range_of_isPerm hπ).map G

theorem emb_of_isOcc {π σ : NSeq} {c : List Nat} (h : IsOcc π σ c) : Emb π σ (fun a => c.getD a 0) := by
  obtain ⟨hlen, hinc, hrng, hiso⟩ := h
  refine ⟨?_, ?_, hiso⟩
  · intro a b hab hb
    have hb' : b < c.length := by omega
    have ha' : a < c.length := by omega
    show c.getD a 0 < c.getD b 0
    rw [getD_of_lt c ha', getD_of_lt c hb']
    exact (List.pairwise_iff_getElem.mp hinc) a b ha' hb' hab
  · intro a ha
    have ha' : a < c.length := by omega
    show c.getD a 0 < σ.length
    rw [getD_of_lt c ha']
    exact hrng _ (List.getElem_mem ha')

theorem isOcc_of_emb {π σ : NSeq} {f : Nat → Nat} (h : Emb π σ f) :
    IsOcc π σ ((List.range π.length).map f) := by
  obtain ⟨hmono, hrng, hiso⟩ := h
  refine ⟨by simp, ?_, ?_, ?_⟩
  · unfold StrictInc
    rw [List.pairwise_iff_getElem]
    intro i j hi hj hij
    simp only [List.getElem_map, List.getElem_range]
    exact hmono i j hij (by simpa using hj)
  · intro i hi
    simp only [List.mem_map, List.mem_range] at hi
    obtain ⟨a, ha, rfl⟩ := hi
    exact hrng a ha
  · intro a b ha hb
    rw [getD_map_range f ha, getD_map_range f hb]
    exact hiso a b ha hb

/-- from the region form to the property's wording -/
theorem isMeshOcc_of_memb {m : Mesh} {σ : NSeq} {F G : Nat → Nat} (hπ : IsPerm m.pattern) (hσ : IsPerm σ)
    (h : MEmb m.pattern σ m.shading F G) : IsMeshOcc m σ ((List.range m.pattern.length).map F) := by
  refine ⟨isOcc_of_emb h.emb, ?_⟩
  intro i hi hic hmem
  have hneF : ∀ a, a < m.pattern.length → F a ≠ i := by
    intro a ha e
    exact hic (List.mem_map.mpr ⟨a, List.mem_range.mpr ha, e⟩)
  have hneG : ∀ v, v < m.pattern.length → G v ≠ σ.getD i 0 := by
    intro v hv e
    rw [h.G_eq hπ hv] at e
    have ha := hπ.idxOf_lt hv
    exact hneF _ ha (hσ.getD_inj (h.emb.rng _ ha) hi e)
  rw [countLt_map_range, countLt_perm (vals_perm hπ h), countLt_map_range] at hmem
  exact h.free _ hmem i hi
    ⟨between_of_cnt (fun a b hab hb => h.emb.mono a b hab hb) hneF,
     between_of_cnt (fun v w hvw hw => h.G_mono hπ hvw hw) hneG⟩

/-- from the property's wording to the region form -/
theorem memb_of_isMeshOcc {m : Mesh} {σ : NSeq} {c : List Nat} (hm : MeshOK m) (hσ : IsPerm σ)
    (h : IsMeshOcc m σ c) :
    MEmb m.pattern σ m.shading (fun a => c.getD a 0)
      (fun v => σ.getD (c.getD (m.pattern.idxOf v) 0) 0) := by
  have hπ := hm.1
  have hemb := emb_of_isOcc h.occ
  have hlen : c.length = m.pattern.length := h.occ.len
  have base : MEmb m.pattern σ [] (fun a => c.getD a 0)
      (fun v => σ.getD (c.getD (m.pattern.idxOf v) 0) 0) := by
    refine ⟨hemb, ?_, by simp⟩
    intro a ha
    show σ.getD (c.getD (m.pattern.idxOf (m.pattern.getD a 0)) 0) 0 = _
    rw [hπ.idxOf_getD ha]
  refine ⟨hemb, base.val, ?_⟩
  intro cell hcell i hi hB
  obtain ⟨hB1, hB2⟩ := hB
  obtain ⟨hx, hy⟩ := hm.2 cell hcell
  have hc : c = (List.range m.pattern.length).map (fun a => c.getD a 0) := by
    conv_lhs => rw [eq_map_getD c]
    rw [hlen]
  -- the point is not an occurrence point
  have hic : i ∉ c := by
    intro hmem
    rw [hc] at hmem
    obtain ⟨a, ha, e⟩ := List.mem_map.mp hmem
    have ha := List.mem_range.mp ha
    obtain ⟨h1, h2⟩ := hB1
    rw [← e] at h1 h2
    have l1 : cell.1 = 0 ∨ cell.1 - 1 < a := by
      rcases h1 with h1 | h1
      · exact Or.inl h1
      · by_cases h0 : cell.1 = 0
        · exact Or.inl h0
        · exact Or.inr ((hemb.strict (by omega) ha).mpr h1)
    have l2 : cell.1 = m.pattern.length ∨ a < cell.1 := by
      rcases h2 with h2 | h2
      · exact Or.inl h2
      · by_cases hk : cell.1 = m.pattern.length
        · exact Or.inl hk
        · exact Or.inr ((hemb.strict ha (by omega)).mpr h2)
    omega
  have hfree := h.free i hi hic
  apply hfree
  have e1 : Spec.countLt c i = cell.1 := by
    rw [hc, countLt_map_range]
    exact cnt_of_between (fun a b hab hb => hemb.mono a b hab hb) hx hB1
  have e2 : Spec.countLt (c.map fun j => σ.getD j 0) (σ.getD i 0) = cell.2 := by
    rw [hc, countLt_perm (vals_perm hπ base), countLt_map_range]
    exact cnt_of_between (fun v w hvw hw => base.G_mono hπ hvw hw) hy hB2
  rw [e1, e2]; exact hcell

/-- the two formulations of mesh containment agree on well-formed inputs -/
theorem meshContains_iff_memb {m : Mesh} {σ : NSeq} (hm : MeshOK m) (hσ : IsPerm σ) :
    MeshContains σ m ↔ ∃ F G, MEmb m.pattern σ m.shading F G := by
  constructor
  · rintro ⟨c, hc⟩; exact ⟨_, _, memb_of_isMeshOcc hm hσ hc⟩
  · rintro ⟨F, G, h⟩; exact ⟨_, isMeshOcc_of_memb hm.1 hσ h⟩

end C04L
