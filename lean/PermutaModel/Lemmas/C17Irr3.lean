import PermutaModel.Lemmas.C17Irr2
/-! B2 (third part): the invariant "every recorded set is realised by an occurrence" through `mine`,
    and irredundancy of `forb ∘ mine`. -/

namespace Model.C17

/-- `L` is empty, or it includes the hit set of an occurrence of `π` in a member of length `≤ N` -/
def RealizedSet (D : Nat → List NSeq) (N : Nat) (π : NSeq) (L : Shading) : Prop :=
  L = [] ∨ ∃ σ, σ.length ≤ N ∧ σ ∈ D σ.length ∧ ∃ c, IsOcc π σ c ∧
    ∀ cell ∈ hitBoxes (pick σ c) σ 0, cell ∈ L

def Realized (D : Nat → List NSeq) (N : Nat) (gp : List Level) : Prop :=
  ∀ j π Rs, alGet (gp.getD j []) π = some Rs → ∀ L ∈ Rs, RealizedSet D N π L

theorem recordLevel_mem (lv : Level) (p : NSeq) (sh : Shading) (π : NSeq) (Rs : List Shading)
    (hRs : alGet (recordLevel lv p sh) π = some Rs) (L : Shading) (hL : L ∈ Rs) :
    (∃ Rs0, alGet lv π = some Rs0 ∧ L ∈ Rs0) ∨ (π = p ∧ L = sh) := by
  unfold recordLevel at hRs
  by_cases hp : π = p
  · subst hp
    cases hg : alGet lv π with
    | none =>
      rw [hg] at hRs; simp only [alGet_alSet_same, Option.some.injEq] at hRs
      subst hRs; simp only [List.mem_singleton] at hL; right; exact ⟨rfl, hL⟩
    | some Rs' =>
      rw [hg] at hRs; simp only at hRs
      split at hRs
      · rw [hg] at hRs; cases hRs; left; exact ⟨_, rfl, hL⟩
      · simp only [alGet_alSet_same, Option.some.injEq] at hRs
        subst hRs
        rcases List.mem_append.mp hL with hL | hL
        · left; exact ⟨_, rfl, hL⟩
        · simp only [List.mem_singleton] at hL; right; exact ⟨rfl, hL⟩
  · cases hg : alGet lv p with
    | none =>
      rw [hg] at hRs; simp only at hRs
      rw [alGet_alSet_ne _ _ _ _ hp] at hRs
      left; exact ⟨Rs, hRs, hL⟩
    | some Rs' =>
      rw [hg] at hRs; simp only at hRs
      split at hRs
      · left; exact ⟨Rs, hRs, hL⟩
      · rw [alGet_alSet_ne _ _ _ _ hp] at hRs
        left; exact ⟨Rs, hRs, hL⟩

theorem record_realized (D : Nat → List NSeq) (N : Nat) (gp : List Level) (nL : Nat) (p : NSeq)
    (sh : Shading) (h : Realized D N gp) (hsh : RealizedSet D N p sh) :
    Realized D N (record gp nL p sh) := by
  intro j π Rs hRs L hL
  unfold record at hRs
  by_cases hj : nL = j
  · subst hj
    by_cases hn : nL < gp.length
    · rw [getD_set_self _ _ _ hn] at hRs
      rcases recordLevel_mem _ p sh π Rs hRs L hL with ⟨Rs0, h0, hL0⟩ | ⟨rfl, rfl⟩
      · exact h nL π Rs0 h0 L hL0
      · exact hsh
    · rw [List.set_eq_of_length_le (by omega)] at hRs; exact h nL π Rs hRs L hL
  · rw [getD_set_ne _ _ _ _ hj] at hRs; exact h j π Rs hRs L hL

theorem realizedSet_of_state (D : Nat → List NSeq) (N : Nat) {σ τ : NSeq} (hσ : IsPerm σ)
    (hσN : σ.length ≤ N) (hσD : σ ∈ D σ.length) (sh : Shading) (h : StateInv σ τ sh) :
    RealizedSet D N τ sh := by
  obtain ⟨c0, hocc, hsh⟩ := h
  right
  refine ⟨σ, hσN, hσD, c0, hocc, ?_⟩
  intro cell hcell
  obtain ⟨p, hp, hpc, rfl⟩ := hitBoxes_subset hσ c0 (hocc.inc.imp (fun h => Nat.ne_of_lt h)) hocc.rng cell hcell
  exact hsh p hp hpc

theorem addGood_realized (D : Nat → List NSeq) (N : Nat) {σ : NSeq} (hσ : IsPerm σ)
    (hσN : σ.length ≤ N) (hσD : σ ∈ D σ.length) (minLen maxLen : Nat) (L : Nat) :
    ∀ (τ : NSeq) (sh : Shading) (loc : Nat) (gp : List Level),
      IsPerm τ → τ.length = L → Realized D N gp → StateInv σ τ sh →
      Realized D N (addGood minLen maxLen L τ sh loc gp) := by
  induction L with
  | zero => intro τ sh loc gp _ _ h _; simpa [addGood] using h
  | succ L ih =>
    intro τ sh loc gp hτ hL hgp hst
    simp only [addGood]
    split
    · refine foldl_preserves (fun g : List Level => Realized D N g) _ _ ?_ gp hgp
      intro b i hi hb
      rw [List.mem_range'_1] at hi
      have hiL : i < L + 1 := by omega
      have hst' := stateInv_step hσ hτ hL i hiL sh hst
      have hτ' : IsPerm (delPoint τ i) := isPerm_delPoint hτ i (by omega)
      have hτ'l : (delPoint τ i).length = L := by rw [length_delPoint τ i (by omega), hL]; simp
      have hrs := realizedSet_of_state D N hσ hσN hσD _ hst'
      split
      · apply ih _ _ _ _ hτ' hτ'l _ hst'
        split
        · exact record_realized D N _ _ _ _ hb hrs
        · exact hb
      · split
        · exact record_realized D N _ _ _ _ hb hrs
        · exact hb
    · exact hgp

theorem initLevel_vals (ps : List NSeq) (π : NSeq) (Rs : List Shading)
    (h : alGet (initLevel ps) π = some Rs) : Rs = [[]] := by
  unfold initLevel at h
  have gen : ∀ (ps : List NSeq) (lv : Level), (∀ Rs, alGet lv π = some Rs → Rs = [[]]) →
      ∀ Rs, alGet (ps.foldl (fun lv p => alSet lv p [[]]) lv) π = some Rs → Rs = [[]] := by
    intro ps
    induction ps with
    | nil => intro lv h; exact h
    | cons a t ih =>
      intro lv hlv
      simp only [List.foldl_cons]
      apply ih
      intro Rs hRs
      by_cases hpa : π = a
      · subst hpa; rw [alGet_alSet_same] at hRs; cases hRs; rfl
      · rw [alGet_alSet_ne _ _ _ _ hpa] at hRs; exact hlv Rs hRs
  exact gen ps [] (fun Rs h => by simp [alGet] at h) Rs h

theorem stateInv_init {σ : NSeq} (hσ : IsPerm σ) : StateInv σ σ [] := by
  refine ⟨List.range σ.length, ⟨by simp, List.pairwise_lt_range, fun i hi => List.mem_range.mp hi, ?_⟩, ?_⟩
  · intro a b ha hb
    have e : ∀ a, a < σ.length → (List.range σ.length).getD a 0 = a := by
      intro a ha; rw [getD_of_lt _ a (by simpa using ha)]; simp
    rw [e a ha, e b hb]
  · intro p hp hpc; exact absurd (List.mem_range.mpr hp) hpc

theorem mine_realized (D : Nat → List NSeq) (M N : Nat)
    (hD : ∀ k, ∀ p ∈ D k, IsPerm p ∧ p.length = k) : Realized D N (mine D M N).2 := by
  unfold mine
  split
  · intro j π Rs hRs; simp [alGet] at hRs
  · simp only
    unfold minePrune
    refine foldl_preserves (fun g : List Level => Realized D N g) _ _ ?_ _ ?_
    · intro g j' _ hg j π Rs hRs L hL
      by_cases hj : j' = j
      · subst hj
        by_cases hn : j' < g.length
        · rw [getD_set_self _ _ _ hn] at hRs
          unfold pruneLevel at hRs
          rw [alGet_map (g.getD j' []) (fun Rs => pruneSeq Rs Rs) π] at hRs
          cases hg0 : alGet (g.getD j' []) π with
          | none => rw [hg0] at hRs; cases hRs
          | some Rs0 =>
            rw [hg0] at hRs; simp only [Option.map_some, Option.some.injEq] at hRs
            subst hRs
            exact hg j' π Rs0 hg0 L (pruneSeq_subset Rs0 Rs0 L hL)
        · rw [List.set_eq_of_length_le (by omega)] at hRs; exact hg j' π Rs hRs L hL
      · rw [getD_set_ne _ _ _ _ hj] at hRs; exact hg j π Rs hRs L hL
    · unfold mineLoop
      refine foldl_preserves (fun g : List Level => Realized D N g) _ _ ?_ _ ?_
      · intro g i hi hg
        rw [List.mem_range'_1] at hi
        refine foldl_preserves (fun g : List Level => Realized D N g) _ _ ?_ g hg
        intro g' σ hσ hg'
        obtain ⟨hσp, hσl⟩ := hD i σ hσ
        exact addGood_realized D N hσp (by omega) (by rw [hσl]; exact hσ) _ _ _ σ [] 0 g' hσp rfl hg'
          (stateInv_init hσp)
      · intro j π Rs hRs L hL
        by_cases hjM : j ≤ M
        · rw [mineInit_getD D M j hjM] at hRs
          have := initLevel_vals _ π Rs hRs
          subst this
          simp only [List.mem_singleton] at hL
          left; exact hL
        · unfold mineInit at hRs
          rw [List.getD_eq_getElem?_getD, List.getElem?_eq_none (by simp; omega)] at hRs
          simp [alGet] at hRs

/-- **B2** irredundancy of `forb ∘ mine`: a learned shading that loses a cell occurs in a member
    of the input of length at most `N` -/
theorem forb_mine_irredundant (D : Nat → List NSeq) (M N : Nat)
    (hD : ∀ k, ∀ p ∈ D k, IsPerm p ∧ p.length = k) :
    ∀ p ∈ meshesOf (forb (mine D M N).2 (mine D M N).1 M), ∀ r ∈ p.shading,
      ∃ σ, σ.length ≤ N ∧ σ ∈ D σ.length ∧
        Model.containsMesh σ ⟨p.pattern, p.shading.filter fun c => c != r⟩ = true := by
  intro p hp r hr
  unfold meshesOf forb at hp
  simp only [List.mem_flatMap, List.mem_map] at hp
  obtain ⟨lv, ⟨lv0, hlv0, rfl⟩, e, he, R, hR, rfl⟩ := hp
  simp only at he hr ⊢
  obtain ⟨hci, bad', hshape⟩ := forbBad_mem _ _ _ lv0 hlv0
  have he0 : e ∈ lv0.2 := (List.mem_filter.mp he).1
  rw [hshape, List.mem_map] at he0
  obtain ⟨q, hq, rfl⟩ := he0
  obtain ⟨hqp, hql⟩ := (mem_permsLex_iff _ q).mp hq
  simp only at hR ⊢
  obtain ⟨Ls, hLs, L, hL, hmin⟩ := findBadpatts_minimal _ _ _ q R hR r hr
  rcases mine_realized D M N hD q.length q Ls hLs L hL with hnil | ⟨σ, hσN, hσD, c, hocc, hhit⟩
  · exfalso
    obtain ⟨b, _, hbL⟩ := findBadpatts_mem _ _ _ q R hR Ls hLs L hL
    rw [hnil] at hbL; cases hbL
  · refine ⟨σ, hσN, hσD, ?_⟩
    have hσp : IsPerm σ := (hD _ σ hσD).1
    apply contains_of_occ_disjoint σ q c _ ((C01.mem_occurrencesIn_iff q σ hqp hσp c).mpr hocc)
    rw [disjointB_iff]
    intro cell hcell hmem
    have := List.mem_filter.mp hmem
    have heq := hmin cell (hhit cell hcell) this.1
    simp [heq] at this

end Model.C17
