import PermutaModel.Lemmas.C13Memo
import PermutaModel.Props.C01

/-! C13 helper lemmas, part 5: consistency with enumeration - a monotone permutation only contains
    monotone patterns, so a class whose basis lacks an increasing (decreasing) element contains the
    increasing (decreasing) permutation of every length. -/
open Model.C13 Spec.C13

namespace C13

theorem getD_of_lt (l : List Nat) {i : Nat} (h : i < l.length) : l.getD i 0 = l[i] := by
  rw [List.getD_eq_getElem?_getD, List.getElem?_eq_getElem h]; rfl

/-- a strictly increasing list filling the window `[k, k + |p|)` is that window -/
theorem sorted_eq_range' : ∀ (p : List Nat) (k : Nat), p.Pairwise (· < ·) →
    (∀ x ∈ p, k ≤ x ∧ x < k + p.length) → p = List.range' k p.length
  | [], _, _, _ => by simp
  | a :: t, k, hs, hb => by
    have hs' := List.pairwise_cons.mp hs
    have ha := hb a (List.mem_cons_self ..)
    have ht : t = List.range' (k + 1) t.length := by
      apply sorted_eq_range' t (k + 1) hs'.2
      intro x hx
      have h1 := hs'.1 x hx
      have h2 := (hb x (List.mem_cons_of_mem _ hx)).2
      simp only [List.length_cons] at h2
      omega
    have hak : a = k := by
      cases hlen : t.length with
      | zero => simp only [List.length_cons, hlen] at ha; omega
      | succ m =>
        have hmem : k + 1 ∈ t := by rw [ht, List.mem_range'_1]; omega
        have := hs'.1 (k + 1) hmem
        omega
    rw [hak, List.length_cons, List.range'_succ, ← ht]

/-- an increasing permutation is the identity -/
theorem increasing_perm_eq_identity {b : NSeq} (hb : IsPerm b) (hs : b.Pairwise (· < ·)) :
    b = Model.identity b.length := by
  have := sorted_eq_range' b 0 hs (fun x hx => ⟨Nat.zero_le _, by simpa using hb.2 x hx⟩)
  unfold Model.identity
  rw [List.range_eq_range']
  exact this

theorem range_getD {n i : Nat} (h : i < n) : (List.range n).getD i 0 = i := by
  rw [getD_of_lt _ (by simpa using h)]; simp

theorem monoDec_getD {n i : Nat} (h : i < n) : (List.range n).reverse.getD i 0 = n - 1 - i := by
  rw [getD_of_lt _ (by simpa using h)]; simp

/-- a decreasing permutation is the reversed identity -/
theorem decreasing_perm_eq_monoDec {b : NSeq} (hb : IsPerm b) (hs : b.Pairwise (· > ·)) :
    b = Model.monoDec b.length := by
  have hr : b.reverse.Pairwise (· < ·) := List.pairwise_reverse.mpr hs
  have := increasing_perm_eq_identity (isPerm_reverse hb) hr
  unfold Model.monoDec
  unfold Model.identity at this
  rw [List.length_reverse] at this
  rw [← this, List.reverse_reverse]

theorem isPerm_identity (n : Nat) : IsPerm (Model.identity n) := by
  unfold Model.identity
  exact ⟨List.nodup_range, fun x hx => by simpa using hx⟩

theorem isPerm_monoDec (n : Nat) : IsPerm (Model.monoDec n) := by
  have := isPerm_reverse (isPerm_identity n)
  simpa [Model.monoDec, Model.identity] using this

theorem strictInc_getD {c : List Nat} (hc : StrictInc c) {a a' : Nat} (h : a < a') (ha' : a' < c.length) :
    c.getD a 0 < c.getD a' 0 := by
  rw [getD_of_lt c (by omega), getD_of_lt c ha']
  exact (List.pairwise_iff_getElem.mp hc) a a' (by omega) ha' h

/-- the identity contains only increasing patterns -/
theorem pattern_of_identity_increasing {b : NSeq} {n : Nat} (h : Contains (Model.identity n) b) :
    b.Pairwise (· < ·) := by
  obtain ⟨c, hc⟩ := h
  rw [List.pairwise_iff_getElem]
  intro i j hi hj hij
  have hci : c.getD i 0 < c.getD j 0 := strictInc_getD hc.inc hij (by rw [hc.len]; exact hj)
  have hmi : c.getD i 0 ∈ c := by rw [getD_of_lt c (by rw [hc.len]; exact hi)]; exact List.getElem_mem _
  have hmj : c.getD j 0 ∈ c := by rw [getD_of_lt c (by rw [hc.len]; exact hj)]; exact List.getElem_mem _
  have hri := hc.rng _ hmi
  have hrj := hc.rng _ hmj
  have key := (hc.iso i j hi hj).mpr (by
    unfold Model.identity at hri hrj ⊢
    simp only [List.length_range] at hri hrj
    rw [range_getD hri, range_getD hrj]
    exact hci)
  rwa [getD_of_lt b hi, getD_of_lt b hj] at key

/-- the decreasing permutation contains only decreasing patterns -/
theorem pattern_of_monoDec_decreasing {b : NSeq} {n : Nat} (h : Contains (Model.monoDec n) b) :
    b.Pairwise (· > ·) := by
  obtain ⟨c, hc⟩ := h
  rw [List.pairwise_iff_getElem]
  intro i j hi hj hij
  have hci : c.getD i 0 < c.getD j 0 := strictInc_getD hc.inc hij (by rw [hc.len]; exact hj)
  have hmi : c.getD i 0 ∈ c := by rw [getD_of_lt c (by rw [hc.len]; exact hi)]; exact List.getElem_mem _
  have hmj : c.getD j 0 ∈ c := by rw [getD_of_lt c (by rw [hc.len]; exact hj)]; exact List.getElem_mem _
  have hri := hc.rng _ hmi
  have hrj := hc.rng _ hmj
  have key := (hc.iso j i hj hi).mpr (by
    unfold Model.monoDec at hri hrj ⊢
    simp only [List.length_reverse, List.length_range] at hri hrj
    rw [monoDec_getD hri, monoDec_getD hrj]
    omega)
  rwa [getD_of_lt b hi, getD_of_lt b hj] at key

end C13
