import PermutaModel.Lemmas.C12RSKSchensted
import PermutaModel.Lemmas.C13ES
/-! C12 / RSK: `Spec.IsLIS` / `Spec.IsLDS` through classical pattern containment (`Spec.Contains`):
    `σ` contains the increasing (decreasing) pattern of length `k` iff `k ≤ LIS σ` (`k ≤ LDS σ`). -/
open Model Spec List

namespace C12

theorem inc_of_oiso_identity {k : Nat} {s : List Nat} (h : OIso (Model.identity k) s) :
    s.Pairwise (· < ·) ∧ s.length = k := by
  rw [C02L.OIso_iff_getD] at h
  obtain ⟨hl, hi⟩ := h
  unfold Model.identity at hl hi
  simp only [List.length_range] at hl hi
  refine ⟨?_, hl.symm⟩
  rw [List.pairwise_iff_getElem]
  intro i j hi' hj' hij
  have := (hi i j (by omega) (by omega)).mp (by rw [C13.range_getD (by omega), C13.range_getD (by omega)]; exact hij)
  rwa [C13.getD_of_lt s hi', C13.getD_of_lt s hj'] at this

theorem dec_of_oiso_monoDec {k : Nat} {s : List Nat} (h : OIso (Model.monoDec k) s) :
    s.Pairwise (· > ·) ∧ s.length = k := by
  rw [C02L.OIso_iff_getD] at h
  obtain ⟨hl, hi⟩ := h
  unfold Model.monoDec at hl hi
  simp only [List.length_reverse, List.length_range] at hl hi
  refine ⟨?_, hl.symm⟩
  rw [List.pairwise_iff_getElem]
  intro i j hi' hj' hij
  have := (hi j i (by omega) (by omega)).mp (by
    rw [C13.monoDec_getD (by omega), C13.monoDec_getD (by omega)]; omega)
  rw [C13.getD_of_lt s hi', C13.getD_of_lt s hj'] at this
  exact this

/-- `σ` contains the increasing pattern `0 1 … k-1` iff `k` is at most the length of a longest increasing
    subsequence -/
theorem contains_identity_iff_le_lis (σ : NSeq) (a k : Nat) (ha : IsLIS σ a) :
    Contains σ (Model.identity k) ↔ k ≤ a := by
  constructor
  · intro h
    rw [← C02L.SContains_iff_Contains] at h
    obtain ⟨s, hs, hi⟩ := h
    obtain ⟨h1, h2⟩ := inc_of_oiso_identity hi
    have := ha.2 s hs h1
    omega
  · intro hk
    by_contra hc
    obtain ⟨s, h1, h2, h3⟩ := ha.1
    have := C13.inc_sublist_lt_of_avoids hc s h1 h2
    omega

/-- `σ` contains the decreasing pattern `k-1 … 1 0` iff `k` is at most the length of a longest decreasing
    subsequence -/
theorem contains_monoDec_iff_le_lds (σ : NSeq) (d k : Nat) (hd : IsLDS σ d) :
    Contains σ (Model.monoDec k) ↔ k ≤ d := by
  constructor
  · intro h
    rw [← C02L.SContains_iff_Contains] at h
    obtain ⟨s, hs, hi⟩ := h
    obtain ⟨h1, h2⟩ := dec_of_oiso_monoDec hi
    have := hd.2 s hs h1
    omega
  · intro hk
    by_contra hc
    obtain ⟨s, h1, h2, h3⟩ := hd.1
    have := C13.dec_sublist_lt_of_avoids hc s h1 h2
    omega

end C12
