import PermutaModel.Lemmas.C16BhvConv
import Mathlib.Tactic.Choose
/-!
# C16 — the unavoidable-substructures theorem for point configurations
-/
namespace C16P

/-- `N` pairwise disjoint pairs of points of `P`, each adjacent in the order of abscissae, none containing the
    rightmost point `r` -/
structure Pairs (P : List Pt) (N : Nat) (p1 p2 : Nat → Pt) (r : Pt) : Prop where
  mem1 : ∀ i, i < N → p1 i ∈ P
  mem2 : ∀ i, i < N → p2 i ∈ P
  lt : ∀ i, i < N → (p1 i).1 < (p2 i).1
  adj : ∀ i, i < N → ∀ z ∈ P, ¬ ((p1 i).1 < z.1 ∧ z.1 < (p2 i).1)
  disj : ∀ i j, i < N → j < N → i ≠ j → p1 i ≠ p1 j ∧ p1 i ≠ p2 j ∧ p2 i ≠ p2 j
  rmem : r ∈ P
  rmax : ∀ s ∈ P, s.1 ≤ r.1
  rne : ∀ i, i < N → r ≠ p1 i ∧ r ≠ p2 i

theorem AltG.restrict {P : List Pt} {m m' : Nat} {a b : Nat → Pt} {v up : Bool} {t : Rat}
    (h : AltG P m a b v up t) (hm : m' ≤ m) : AltG P m' a b v up t :=
  ⟨fun i hi => h.amem i (by omega), fun i hi => h.bmem i (by omega), fun i hi => h.ab i (by omega),
    fun i hi => h.aside i (by omega), fun i hi => h.bside i (by omega)⟩

/-- a reached point other than the starting points is the newest point of a maximal proper pin sequence -/
theorem max_reached_newest {P : List Pt} {p2 p1 c : Pt} (h : MaxReached P p2 p1 c) (hc2 : c ≠ p2) (hc1 : c ≠ p1) :
    ∃ L', MaxProperFrom P p2 p1 (c :: L') := by
  obtain ⟨L, ⟨⟨v, hP⟩, ⟨mid, rfl⟩, hN, hsub⟩, hz⟩ := h
  have hcm : c ∈ mid := by
    simp only [List.mem_append, List.mem_cons, List.not_mem_nil, or_false] at hz
    rcases hz with h | h | h
    · exact h
    · exact absurd h hc2
    · exact absurd h hc1
  obtain ⟨s, t, rfl⟩ := List.append_of_mem hcm
  have e : (s ++ c :: t) ++ [p2, p1] = s ++ (c :: (t ++ [p2, p1])) := by simp
  rw [e] at hP hN hsub
  obtain ⟨v', hP'⟩ := maxPinSeq_suffix s hP
  refine ⟨t ++ [p2, p1], ⟨v', hP'⟩, ⟨c :: t, rfl⟩, (List.nodup_append.mp hN).2.1, ?_⟩
  intro a ha
  exact hsub a (List.mem_append_right _ ha)

/-- the two oldest points of a list are determined by the list -/
theorem last_two_eq {α : Type} {m m' : List α} {a b a' b' : α} (h : m ++ [a, b] = m' ++ [a', b']) :
    a = a' ∧ b = b' := by
  have h1 := congrArg List.reverse h
  simp only [List.reverse_append, List.reverse_cons, List.reverse_nil, List.nil_append, List.cons_append,
    List.cons.injEq] at h1
  exact ⟨h1.2.1, h1.1⟩


/-- in the second-point case the next pair lies entirely to the right of the pin -/
theorem caseB_order (P : List Pt) (hG : Good P) (up : Bool) (x a p1b p2b : Pt) (ha : a ∈ P) (h1 : p1b ∈ P)
    (hs1 : ltS up (co false x) (co false a)) (hs2 : ltS up (co false p1b) (co false x))
    (hord : a.1 < p2b.1) (hadj : ¬ (p1b.1 < a.1 ∧ a.1 < p2b.1)) : a.1 < p1b.1 := by
  have hne : a ≠ p1b := by
    intro h; rw [h] at hs1
    cases up <;> simp only [ltS, Bool.false_eq_true, if_false, if_true] at hs1 hs2 <;> grind
  have := coord_ne hG.xnd hG.ynd ha h1 hne true
  simp only [co, if_true] at this
  grind

/-- in the second-point case the axis of the common pin is horizontal -/
theorem caseB_axis (up : Bool) (x p1a p2a : Pt) (v : Bool) (hlt : p1a.1 < p2a.1)
    (hadj : ¬ (p1a.1 < x.1 ∧ x.1 < p2a.1))
    (h1 : ltS up (co v x) (co v p2a)) (h2 : ltS up (co v p1a) (co v x)) : v = false := by
  cases v with
  | false => rfl
  | true =>
    exfalso
    cases up <;> simp only [ltS, co, Bool.false_eq_true, if_false, if_true] at h1 h2 <;> grind

/-- **the unavoidable-substructures theorem for configurations** (Brignall–Huczynska–Vatter): for every `k`
    there is `N` such that a configuration without proper interval, with distinct coordinates, without proper
    pin sequence of `k` points and with `N` disjoint adjacent pairs contains a family member of index `k` -/
theorem bhv_cfg (k : Nat) (hk : 1 ≤ k) : ∃ N, ∀ (P : List Pt), Good P → ¬ HasPinCfg P k →
    ∀ p1 p2 r, Pairs P N p1 p2 r → Outcome P k := by
  obtain ⟨m0, hm0⟩ := altG_case k hk
  obtain ⟨D4, hD4⟩ := pigeon2 (m0 + 1)
  obtain ⟨D3, hD3⟩ := pigeon2 D4
  obtain ⟨D2, hD2⟩ := pigeon2 D3
  obtain ⟨D1, hD1⟩ := pigeon2 (max D2 2)
  obtain ⟨N, hN⟩ := tree_branch (α := Pt) k D1
  refine ⟨N, ?_⟩
  intro P hG hno p1 p2 r hPr
  -- a right-reaching proper pin sequence with maximality for every pair
  have hseq : ∀ i, i < N → ∃ L', MaxProperFrom P (p2 i) (p1 i) (r :: L') := by
    intro i hi
    have hne : p2 i ≠ p1 i := by
      intro h; have := hPr.lt i hi; rw [h] at this; exact absurd this (by grind)
    have hreach := max_extreme_reached P hG.simple hG.xnd hG.ynd (p2 i) (p1 i) (hPr.mem2 i hi) (hPr.mem1 i hi)
      hne r hPr.rmem true (Or.inl (by intro s hs; simpa [co] using hPr.rmax s hs))
    exact max_reached_newest hreach (hPr.rne i hi).2 (hPr.rne i hi).1
  choose! F' hF' using hseq
  have hlen : ∀ i, i < N → (r :: F' i).length ≤ k := by
    intro i hi
    apply Classical.byContradiction
    intro hlong
    obtain ⟨⟨v, hP⟩, _, hNd, hsub⟩ := hF' i hi
    exact hno (hasPinCfg_of_long hP.pinSeqA hNd hsub (by omega))
  have hdist : ∀ i j, i < j → j < N → (r :: F' i) ≠ (r :: F' j) := by
    intro i j hij hj he
    obtain ⟨mi, hmi⟩ := (hF' i (by omega)).2.1
    obtain ⟨mj, hmj⟩ := (hF' j hj).2.1
    rw [hmi, hmj] at he
    exact (hPr.disj i j (by omega) hj (by omega)).1 (last_two_eq he).2
  obtain ⟨s, ι, q, rest, hbr, hq⟩ := hN (fun i => r :: F' i) hlen hdist
  have hD1two : 2 ≤ D1 := by
    obtain ⟨ι0, h1, h2, _⟩ := hD1 (fun _ => True)
    have := h2 1 (by omega)
    have := h1 0 1 (by omega) (by omega)
    omega
  -- the common part ends with a point `x`
  have hs : s ≠ [] := by
    intro hs
    have e0 := (hbr 0 (by omega)).2
    have e1 := (hbr 1 (by omega)).2
    simp only [hs, List.nil_append, List.cons.injEq] at e0 e1
    exact hq 0 1 (by omega) (by omega) (e0.1.symm.trans e1.1)
  obtain ⟨pre, x, rfl⟩ : ∃ pre x, s = pre ++ [x] := ⟨s.dropLast, s.getLast hs, (List.dropLast_append_getLast hs).symm⟩
  have hform : ∀ u, u < D1 → MaxProperFrom P (p2 (ι u)) (p1 (ι u)) (pre ++ x :: q u :: rest u) := by
    intro u hu
    have := hF' (ι u) (hbr u hu).1
    have e := (hbr u hu).2
    simp only [List.append_assoc, List.cons_append, List.nil_append] at e
    rw [← e]; exact this
  have hιinj : ∀ u u', u < D1 → u' < D1 → u ≠ u' → ι u ≠ ι u' := by
    intro u u' hu hu' hne he
    have e1 := (hbr u hu).2
    have e2 := (hbr u' hu').2
    rw [he] at e1
    have := e1.symm.trans e2
    have := List.append_cancel_left this
    simp only [List.cons.injEq] at this
    rcases Nat.lt_or_gt_of_ne hne with h | h
    · exact hq u u' h hu' this.1
    · exact hq u' u h hu this.1.symm
  have hMax : ∀ u, u < D1 → ∃ v, MaxPinSeq P v (x :: q u :: rest u) := by
    intro u hu
    obtain ⟨⟨v, hP⟩, _⟩ := hform u hu
    exact maxPinSeq_suffix pre hP
  have hmemP : ∀ u, u < D1 → ∀ a ∈ x :: q u :: rest u, a ∈ P := by
    intro u hu a ha
    exact (hform u hu).2.2.2 a (List.mem_append_right _ ha)
  have hend : ∀ u, u < D1 → ∃ mid, pre ++ x :: q u :: rest u = mid ++ [p2 (ι u), p1 (ι u)] :=
    fun u hu => (hform u hu).2.1
  choose! vv hvv using hMax
  -- first selection: the part before `q u` is not empty
  obtain ⟨ι1, hι1, hb1, hc1⟩ := hD1 (fun u => rest u = [])
  have hrest : ∀ s, s < max D2 2 → rest (ι1 s) ≠ [] := by
    rcases hc1 with hall | hnone
    · exfalso
      have h0 := hall 0 (by omega)
      have h1 := hall 1 (by omega)
      obtain ⟨m0', e0⟩ := hend (ι1 0) (hb1 0 (by omega))
      obtain ⟨m1', e1⟩ := hend (ι1 1) (hb1 1 (by omega))
      rw [h0] at e0
      rw [h1] at e1
      have e0' : pre ++ [x, q (ι1 0)] = m0' ++ [p2 (ι (ι1 0)), p1 (ι (ι1 0))] := by simpa using e0
      have e1' : pre ++ [x, q (ι1 1)] = m1' ++ [p2 (ι (ι1 1)), p1 (ι (ι1 1))] := by simpa using e1
      have a0 := (last_two_eq e0').1
      have a1 := (last_two_eq e1').1
      have hlt := hι1 0 1 (by omega) (by omega)
      have hne := hιinj (ι1 0) (ι1 1) (hb1 0 (by omega)) (hb1 1 (by omega)) (by omega)
      exact (hPr.disj _ _ (hbr _ (hb1 0 (by omega))).1 (hbr _ (hb1 1 (by omega))).1 hne).2.2 (a0.symm.trans a1)
    · exact hnone
  -- second selection: the axis of `x`
  obtain ⟨ι2, hι2, hb2, hc2⟩ := hD2 (fun s => vv (ι1 s) = true)
  obtain ⟨v, hv⟩ : ∃ v, ∀ s, s < D3 → vv (ι1 (ι2 s)) = v := by
    rcases hc2 with h | h
    · exact ⟨true, h⟩
    · exact ⟨false, fun s hs => by simpa using h s hs⟩
  have hb2' : ∀ s, s < D3 → ι2 s < max D2 2 := fun s hs => by have := hb2 s hs; omega
  -- the data of the pin `x` for every selected sequence
  have hsepx : ∀ s, s < D3 → SepA v x (q (ι1 (ι2 s))) (rest (ι1 (ι2 s))) ∧
      MaxPinSeq P (!v) (q (ι1 (ι2 s)) :: rest (ι1 (ι2 s))) := by
    intro s hs
    have h1 := hvv (ι1 (ι2 s)) (hb1 _ (hb2' s hs))
    rw [hv s hs, maxPinSeq_cons (hrest _ (hb2' s hs))] at h1
    exact ⟨h1.1, h1.2.2⟩
  -- third selection: the side of `q u`
  obtain ⟨ι3, hι3, hb3, hc3⟩ := hD3 (fun s => co v x < co v (q (ι1 (ι2 s))))
  obtain ⟨up, hup⟩ : ∃ up, ∀ s, s < D4 → ltS up (co v x) (co v (q (ι1 (ι2 (ι3 s))))) ∧
      ∀ r' ∈ rest (ι1 (ι2 (ι3 s))), ltS up (co v r') (co v x) := by
    rcases hc3 with h | h
    · refine ⟨true, fun s hs => ?_⟩
      have hb := (hsepx (ι3 s) (hb3 s hs)).1.1
      have := h s hs
      simp only [ltS, if_true]
      rcases hb with ⟨b1, b2⟩ | ⟨b1, b2⟩
      · exact ⟨b2, b1⟩
      · exact absurd b2 (by grind)
    · refine ⟨false, fun s hs => ?_⟩
      have hb := (hsepx (ι3 s) (hb3 s hs)).1.1
      have := h s hs
      simp only [ltS, Bool.false_eq_true, if_false]
      rcases hb with ⟨b1, b2⟩ | ⟨b1, b2⟩
      · exact absurd b2 this
      · exact ⟨b2, b1⟩
  -- fourth selection: is `q u` the second point of its sequence?
  obtain ⟨ι4, hι4, hb4, hc4⟩ := hD4 (fun s => (rest (ι1 (ι2 (ι3 s)))).length = 1)
  -- the final index map and its properties
  let U : Nat → Nat := fun s => ι1 (ι2 (ι3 (ι4 s)))
  have hU3 : ∀ s, s < m0 + 1 → ι3 (ι4 s) < D3 := fun s hs => hb3 _ (hb4 s hs)
  have hU2 : ∀ s, s < m0 + 1 → ι2 (ι3 (ι4 s)) < max D2 2 := fun s hs => hb2' _ (hU3 s hs)
  have hU1 : ∀ s, s < m0 + 1 → U s < D1 := fun s hs => hb1 _ (hU2 s hs)
  have hUinj : ∀ s t, s < t → t < m0 + 1 → U s < U t := by
    intro s t hst ht
    exact hι1 _ _ (hι2 _ _ (hι3 _ _ (hι4 s t hst ht) (hb4 t ht)) (hU3 t ht)) (hU2 t ht)
  have hUrest : ∀ s, s < m0 + 1 → rest (U s) ≠ [] := fun s hs => hrest _ (hU2 s hs)
  have hUsep : ∀ s, s < m0 + 1 → SepA v x (q (U s)) (rest (U s)) ∧ MaxPinSeq P (!v) (q (U s) :: rest (U s)) :=
    fun s hs => hsepx _ (hU3 s hs)
  have hUup : ∀ s, s < m0 + 1 → ltS up (co v x) (co v (q (U s))) ∧
      ∀ r' ∈ rest (U s), ltS up (co v r') (co v x) := fun s hs => hup _ (hb4 s hs)
  have hUmax : ∀ s, s < m0 + 1 → MaxPinSeq P v (x :: q (U s) :: rest (U s)) := by
    intro s hs
    have h1 := hvv (U s) (hU1 s hs)
    rwa [hv _ (hU3 s hs)] at h1
  have hqP : ∀ s, s < m0 + 1 → q (U s) ∈ P := fun s hs => hmemP (U s) (hU1 s hs) _ (by simp)
  have hqne : ∀ s t, s < t → t < m0 + 1 → q (U s) ≠ q (U t) :=
    fun s t hst ht => hq _ _ (hUinj s t hst ht) (hU1 t ht)
  -- sort the points `q (U s)` in the other coordinate
  obtain ⟨σ, hσb, hσ⟩ := sort_fn (m0 + 1) (fun s => co (!v) (q (U s))) (by
    intro i j hij hj
    exact coord_ne hG.xnd hG.ynd (hqP i (by omega)) (hqP j hj) (hqne i j hij hj) (!v))
  have hσne : ∀ i j, i < j → j < m0 + 1 → σ i ≠ σ j := by
    intro i j hij hj he
    have := hσ i j hij hj
    rw [he] at this
    exact absurd this (by grind)
  rcases hc4 with hB | hA
  · -- the pins before `x` are second points of their pairs
    have hpair : ∀ s, s < m0 + 1 → q (U s) = p2 (ι (U s)) ∧ rest (U s) = [p1 (ι (U s))] := by
      intro s hs
      obtain ⟨r1, hr1⟩ := List.length_eq_one_iff.mp (hB s hs)
      obtain ⟨mid, e⟩ := hend (U s) (hU1 s hs)
      have hr1' : rest (U s) = [r1] := hr1
      rw [hr1'] at e
      have e' : (pre ++ [x]) ++ [q (U s), r1] = mid ++ [p2 (ι (U s)), p1 (ι (U s))] := by simpa using e
      have := last_two_eq e'
      exact ⟨this.1, by rw [hr1', this.2]⟩
    have hιN : ∀ s, s < m0 + 1 → ι (U s) < N := fun s hs => (hbr _ (hU1 s hs)).1
    have hp1side : ∀ s, s < m0 + 1 → ltS up (co v (p1 (ι (U s)))) (co v x) := by
      intro s hs
      exact (hUup s hs).2 _ (by rw [(hpair s hs).2]; simp)
    -- the axis is horizontal
    have hvf : v = false := by
      have hs0 : (0 : Nat) < m0 + 1 := by omega
      have h1 := (hUup 0 hs0).1
      rw [(hpair 0 hs0).1] at h1
      exact caseB_axis up x _ _ v (hPr.lt _ (hιN 0 hs0))
        (hPr.adj _ (hιN 0 hs0) x (hmemP (U 0) (hU1 0 hs0) x (by simp))) h1 (hp1side 0 hs0)
    subst hvf
    refine hm0 P hG hno (fun i => q (U (σ i))) (fun i => p1 (ι (U (σ (i + 1))))) false up (co false x)
      (AltG.restrict (m := m0 + 1) ?_ (by omega))
    refine ⟨fun i hi => hqP _ (hσb i hi), fun i hi => hPr.mem1 _ (hιN _ (hσb _ hi)), ?_,
      fun i hi => (hUup _ (hσb i hi)).1, fun i hi => hp1side _ (hσb _ hi)⟩
    intro i hi
    have hsi := hσb i (by omega)
    have hsj := hσb (i + 1) hi
    have hp2 := hpair (σ (i + 1)) hsj
    have hord := hσ i (i + 1) (by omega) hi
    have hlt := hPr.lt _ (hιN _ hsj)
    have hadj := hPr.adj _ (hιN _ hsj) (q (U (σ i))) (hqP _ hsi)
    simp only [co, Bool.not_false, if_true] at hord ⊢
    rw [hp2.1] at hord
    refine ⟨caseB_order P hG up x _ _ _ (hqP _ hsi) (hPr.mem1 _ (hιN _ hsj)) (hUup _ hsi).1
      (hp1side _ hsj) hord hadj, ?_⟩
    rw [hp2.1]; exact hlt
  · -- the pins before `x` are pins: they are separated by points on the other side
    have hlen2 : ∀ s, s < m0 + 1 → ∃ r1 rest', rest (U s) = r1 :: rest' ∧ rest' ≠ [] := by
      intro s hs
      have h1 := hUrest s hs
      have h2 : (rest (U s)).length ≠ 1 := hA s hs
      cases hr : rest (U s) with
      | nil => exact absurd hr h1
      | cons r1 t =>
        cases t with
        | nil => rw [hr] at h2; exact absurd rfl h2
        | cons r2 t' => exact ⟨r1, r2 :: t', rfl, by simp⟩
    have hsepw : ∀ i, i + 1 < m0 + 1 → ∃ w ∈ P, ltS up (co v w) (co v x) ∧
        co (!v) (q (U (σ i))) < co (!v) w ∧ co (!v) w < co (!v) (q (U (σ (i + 1)))) := by
      intro i hi
      have hsi := hσb i (by omega)
      have hsj := hσb (i + 1) hi
      obtain ⟨r1, rest1, e1, hr1⟩ := hlen2 _ hsi
      obtain ⟨r2, rest2, e2, hr2⟩ := hlen2 _ hsj
      have hM1 := hUmax _ hsi
      have hM2 := hUmax _ hsj
      have hs1 := hmemP _ (hU1 _ hsi)
      have hs2 := hmemP _ (hU1 _ hsj)
      have hu1 := hUup _ hsi
      have hu2 := hUup _ hsj
      rw [e1] at hM1 hs1 hu1
      rw [e2] at hM2 hs2 hu2
      exact conv_sep P hG v up x _ _ r1 r2 rest1 rest2 hr1 hr2 hM1 hM2 hs1 hs2 hu1.1 hu2.1 hu1.2 hu2.2
        (hσ i (i + 1) (by omega) hi)
    choose! w hw using hsepw
    refine hm0 P hG hno (fun i => q (U (σ i))) w v up (co v x) (AltG.restrict (m := m0 + 1) ?_ (by omega))
    exact ⟨fun i hi => hqP _ (hσb i hi), fun i hi => (hw i hi).1, fun i hi => (hw i hi).2.2,
      fun i hi => (hUup _ (hσb i hi)).1, fun i hi => (hw i hi).2.1⟩

end C16P
