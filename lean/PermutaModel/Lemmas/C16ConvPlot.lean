import PermutaModel.Lemmas.C16ConvPin
import PermutaModel.Lemmas.C09Std
/-!
# C16 converse, part 1b — a proper pin sequence in the plot of `τ` gives a strict pin permutation in `τ`
-/
namespace C16Conv
open Model.C14 Model.C14.Letter Spec.C14 Proto C14L C14S C16P Spec.C16

theorem plot_length (τ : NSeq) : (plot τ).length = τ.length := by simp [plot]

theorem mem_plot {τ : NSeq} {p : C16P.Pt} : p ∈ plot τ ↔ ∃ i, i < τ.length ∧ p = (((i : Nat) : Rat), ((τ.getD i 0 : Nat) : Rat)) := by
  simp only [plot, List.mem_map, List.mem_range]
  constructor
  · rintro ⟨i, hi, rfl⟩; exact ⟨i, hi, rfl⟩
  · rintro ⟨i, hi, rfl⟩; exact ⟨i, hi, rfl⟩

theorem plot_xs (τ : NSeq) : xs (plot τ) = (List.range τ.length).map fun i => ((i : Nat) : Rat) := by
  simp [plot, xs, List.map_map, Function.comp_def]

theorem plot_ys (τ : NSeq) : ys (plot τ) = τ.map fun v => ((v : Nat) : Rat) := by
  simp only [plot, ys, List.map_map, Function.comp_def]
  apply List.ext_getElem (by simp)
  intro i h1 h2
  simp only [List.length_map, List.length_range] at h1
  simp [List.getD_eq_getElem?_getD, h1]

theorem plot_xs_nodup (τ : NSeq) : (xs (plot τ)).Nodup := by
  rw [plot_xs]
  apply List.Nodup.map_on _ List.nodup_range
  intro a _ b _ h
  exact Rat.natCast_inj.mp h

theorem plot_sorted (τ : NSeq) : sortedPins (plot τ) = plot τ := by
  unfold sortedPins
  apply List.mergeSort_of_pairwise
  simp only [plot, List.pairwise_map]
  refine List.Pairwise.imp ?_ List.pairwise_lt_range
  intro a b hab
  simp only [ptLe, Bool.or_eq_true, decide_eq_true_eq]
  exact Or.inl (Rat.natCast_lt_natCast.mpr hab)

theorem rank_cast (τ : NSeq) (v : Nat) :
    rank (τ.map fun v => ((v : Nat) : Rat)) ((v : Nat) : Rat) = τ.countP (· < v) := by
  simp only [rank, List.countP_map]
  apply List.countP_congr
  intro a _
  simp [Rat.natCast_lt_natCast]

/-- the permutation of the plot of `τ` is `τ` -/
theorem permOfPts_plot (τ : NSeq) (hτ : IsPerm τ) : permOfPts (plot τ) = τ := by
  rw [permOfPts_eq, plot_sorted, plot_ys, List.map_map]
  apply List.ext_getElem (by simp)
  intro i h1 h2
  simp only [List.getElem_map, Function.comp]
  rw [rank_cast, (C09.isPerm_perm_range hτ).countP_eq]
  have hv : τ[i] < τ.length := hτ.2 _ (List.getElem_mem h2)
  have := C09.countP_lt_getElem (List.range τ.length) List.pairwise_lt_range τ[i] (by simpa using hv)
  simpa using this

theorem oe_dropLast {S Q : List C16P.Pt} (h : OE S Q) : OE S.dropLast Q.dropLast := by
  refine ⟨by simp [h.1], ?_⟩
  have hz : ∀ z ∈ S.dropLast.zip Q.dropLast, z ∈ S.zip Q := by
    intro z hz
    have : S.dropLast.zip Q.dropLast = (S.zip Q).take (S.length - 1) := by
      rw [List.dropLast_eq_take, List.dropLast_eq_take, ← h.1]; simp [List.zip, List.take_zipWith]
    rw [this] at hz
    exact List.mem_of_mem_take hz
  intro x hx y hy
  exact h.2 x (hz x hx) y (hz y hy)

theorem oe_single (a b : C16P.Pt) : OE [a] [b] := by
  refine ⟨rfl, ?_⟩
  intro x hx y hy
  simp only [List.zip_cons_cons, List.zip_nil_right, List.mem_singleton] at hx hy
  subst hx hy
  simp

/-- **pinSeq_is_strict_word**: every proper pin sequence `L` of `n ≥ 2` points with distinct abscissae and
    distinct ordinates is, after dropping its oldest point, order-equivalent to the decoded point set of
    a strict pin word of length `n - 1` -/
theorem pinSeq_is_strict_word (L : List C16P.Pt) (v : Bool) (hP : PinSeqA v L) (hx : (xs L).Nodup)
    (hy : (ys L).Nodup) (hlen : 2 ≤ L.length) :
    ∃ (w : Word) (pts : List C16P.Pt), isStrict w = true ∧ w.length + 1 = L.length ∧
      pinPoints w = .ok pts ∧ OE L.dropLast pts.dropLast ∧ (xs pts.dropLast).Nodup := by
  obtain ⟨q, ds, A, o, hL, hq, hds, hch, hG, hl, _⟩ := strictWord_of_pinSeq L v hP hx hy hlen
  have hw : inLang (q :: ds) = true := by simp [inLang, hq, hch]
  obtain ⟨pts, h1, hI, hG', _⟩ := build_lang (q :: ds) hw
  refine ⟨q :: ds, pts, ?_, by simp; omega, h1, ?_, ?_⟩
  · simp only [isStrict, hq, Bool.true_and, List.all_eq_true]; exact hds
  · apply oe_dropLast
    exact geoRun_unique (q :: ds) [o] [origin] L pts hG hG' (oe_single _ _)
      (Or.inr ⟨by intro c hc; simp at hc; subst hc; exact hq, by simp⟩)
  · exact ((List.dropLast_sublist pts).map Prod.fst).nodup hI.xnd

/-- a permutation containing a proper pin sequence of `k ≥ 2` points contains the permutation of a strict
    pin word of length `k - 1` -/
theorem strict_perm_of_hasPinSeq (τ : NSeq) (hτ : IsPerm τ) (k : Nat) (hk : 2 ≤ k) (h : HasPinSeq τ k) :
    ∃ (w : Word) (σ : NSeq), isStrict w = true ∧ pinwordToPerm w = .ok σ ∧ σ.length + 1 = k ∧
      Contains τ σ := by
  obtain ⟨L, v, hP, hN, hlen, hsub⟩ := h
  have hxP := plot_xs_nodup τ
  have hyP : (ys (plot τ)).Nodup := by
    rw [plot_ys]
    apply List.Nodup.map_on _ hτ.1
    intro a _ b _ h
    exact Rat.natCast_inj.mp h
  -- a duplicate-free sub-list of the plot has distinct abscissae and ordinates
  have hinjx : ∀ a ∈ L, ∀ b ∈ L, a.1 = b.1 → a = b := fun a ha b hb hab =>
    List.inj_on_of_nodup_map hxP (hsub a ha) (hsub b hb) hab
  have hinjy : ∀ a ∈ L, ∀ b ∈ L, a.2 = b.2 → a = b := fun a ha b hb hab =>
    List.inj_on_of_nodup_map hyP (hsub a ha) (hsub b hb) hab
  have hx : (xs L).Nodup := List.Nodup.map_on hinjx hN
  have hy : (ys L).Nodup := List.Nodup.map_on hinjy hN
  obtain ⟨w, pts, hs, hwl, hpts, hO, hQx⟩ := pinSeq_is_strict_word L v hP hx hy (by omega)
  refine ⟨w, permOfPts pts.dropLast, hs, by simp [pinwordToPerm, hpts], ?_, ?_⟩
  · rw [permOfPts_length, ← hO.1, List.length_dropLast]; omega
  · have := contains_of_oe (P := plot τ) (S := L.dropLast) (Q := pts.dropLast)
      (fun s hs => hsub s ((List.dropLast_sublist L).subset hs)) hxP
      (((List.dropLast_sublist L).map Prod.fst).nodup hx) hQx hO
    rwa [permOfPts_plot τ hτ] at this

end C16Conv
