import Mathlib.Data.List.Sort
import Mathlib.Data.List.Range

/-!
# C16 — Erdős–Szekeres (function form, via a two-colour Ramsey argument on lists) and sorting of
distinct rational keys.  Pure combinatorics; no dependency on the rest of the model.
-/
namespace C16P.ES

section Ramsey
variable {α : Type} (r s : α → α → Prop)

def Flagged : List α → Prop
  | [] => True
  | x :: t => ((∀ y ∈ t, r x y) ∨ (∀ y ∈ t, s x y)) ∧ Flagged t

theorem splitL (x : α) (t : List α) (h : ∀ y ∈ t, r x y ∨ s x y) :
    ∃ t1 t2 : List α, t1.Sublist t ∧ t2.Sublist t ∧ (∀ y ∈ t1, r x y) ∧ (∀ y ∈ t2, s x y) ∧
      t1.length + t2.length = t.length := by
  induction t with
  | nil => exact ⟨[], [], List.Sublist.refl _, List.Sublist.refl _, by simp, by simp, rfl⟩
  | cons y t ih =>
    obtain ⟨t1, t2, h1, h2, h3, h4, h5⟩ := ih (fun z hz => h z (List.mem_cons_of_mem _ hz))
    rcases h y (List.mem_cons_self) with hy | hy
    · refine ⟨y :: t1, t2, h1.cons_cons _, h2.cons _, ?_, h4, by simp; omega⟩
      intro z hz
      rcases List.mem_cons.1 hz with rfl | hz
      · exact hy
      · exact h3 z hz
    · refine ⟨t1, y :: t2, h1.cons _, h2.cons_cons _, h3, ?_, by simp; omega⟩
      intro z hz
      rcases List.mem_cons.1 hz with rfl | hz
      · exact hy
      · exact h4 z hz

theorem greedy : ∀ (k : Nat) (l : List α), l.Pairwise (fun a b => r a b ∨ s a b) → 2 ^ k ≤ l.length →
    ∃ l' : List α, l'.Sublist l ∧ l'.length = k ∧ Flagged r s l'
  | 0, l, _, _ => ⟨[], List.nil_sublist _, rfl, trivial⟩
  | k + 1, [], _, h => by simp at h
  | k + 1, x :: t, hp, h => by
    rw [List.pairwise_cons] at hp
    obtain ⟨t1, t2, h1, h2, h3, h4, h5⟩ := splitL r s x t hp.1
    have hlen : 2 ^ k ≤ t1.length ∨ 2 ^ k ≤ t2.length := by
      simp [Nat.pow_succ] at h; omega
    rcases hlen with hl | hl
    · obtain ⟨l', a, b, c⟩ := greedy k t1 (hp.2.sublist h1) hl
      exact ⟨x :: l', (a.trans h1).cons_cons _, by simp [b], Or.inl (fun y hy => h3 y (a.subset hy)), c⟩
    · obtain ⟨l', a, b, c⟩ := greedy k t2 (hp.2.sublist h2) hl
      exact ⟨x :: l', (a.trans h2).cons_cons _, by simp [b], Or.inr (fun y hy => h4 y (a.subset hy)), c⟩

theorem extract : ∀ l : List α, Flagged r s l →
    ∃ l1 l2 : List α, l1.Sublist l ∧ l2.Sublist l ∧ l1.Pairwise r ∧ l2.Pairwise s ∧
      l1.length + l2.length = l.length
  | [], _ => ⟨[], [], List.Sublist.refl _, List.Sublist.refl _, List.Pairwise.nil, List.Pairwise.nil, rfl⟩
  | x :: t, h => by
    obtain ⟨l1, l2, h1, h2, h3, h4, h5⟩ := extract t h.2
    rcases h.1 with hx | hx
    · exact ⟨x :: l1, l2, h1.cons_cons _, h2.cons _,
        List.pairwise_cons.2 ⟨fun y hy => hx y (h1.subset hy), h3⟩, h4, by simp; omega⟩
    · exact ⟨l1, x :: l2, h1.cons _, h2.cons_cons _, h3,
        List.pairwise_cons.2 ⟨fun y hy => hx y (h2.subset hy), h4⟩, by simp; omega⟩

theorem ramsey (m : Nat) (l : List α) (hp : l.Pairwise (fun a b => r a b ∨ s a b))
    (hl : 2 ^ (2 * m) ≤ l.length) :
    ∃ l' : List α, l'.Sublist l ∧ l'.length = m ∧ (l'.Pairwise r ∨ l'.Pairwise s) := by
  obtain ⟨l0, a, b, c⟩ := greedy r s (2 * m) l hp hl
  obtain ⟨l1, l2, h1, h2, h3, h4, h5⟩ := extract r s l0 c
  have : m ≤ l1.length ∨ m ≤ l2.length := by omega
  rcases this with h | h
  · exact ⟨l1.take m, ((List.take_sublist _ _).trans h1).trans a, by simp [h],
      Or.inl (h3.sublist (List.take_sublist _ _))⟩
  · exact ⟨l2.take m, ((List.take_sublist _ _).trans h2).trans a, by simp [h],
      Or.inr (h4.sublist (List.take_sublist _ _))⟩

end Ramsey

theorem pairwise_getD {R : Nat → Nat → Prop} {l : List Nat} (h : l.Pairwise R) (s t : Nat)
    (hst : s < t) (ht : t < l.length) : R (l.getD s 0) (l.getD t 0) := by
  have hs : s < l.length := by omega
  rw [← List.getElem_eq_getD (h := hs) 0, ← List.getElem_eq_getD (h := ht) 0]
  exact List.pairwise_iff_getElem.1 h s t hs ht hst

end C16P.ES

namespace C16P
open C16P.ES

/-- Erdős–Szekeres, function form: a long injective sequence of rationals has a monotone subsequence of length m -/
theorem erdos_szekeres (m : Nat) : ∃ N, ∀ f : Nat → Rat, (∀ i j, i < j → j < N → f i ≠ f j) →
    ∃ ι : Nat → Nat, (∀ s t, s < t → t < m → ι s < ι t) ∧ (∀ s, s < m → ι s < N) ∧
      ((∀ s t, s < t → t < m → f (ι s) < f (ι t)) ∨ (∀ s t, s < t → t < m → f (ι t) < f (ι s))) := by
  refine ⟨2 ^ (2 * m), fun f hf => ?_⟩
  have hp : (List.range (2 ^ (2 * m))).Pairwise (fun a b => f a < f b ∨ f b < f a) := by
    rw [List.pairwise_iff_getElem]
    intro i j hi hj hij
    simp only [List.length_range] at hi hj
    simp only [List.getElem_range]
    have := hf i j hij hj
    grind
  obtain ⟨l, hsub, hlen, hmono⟩ := ramsey (fun a b => f a < f b) (fun a b => f b < f a) m _ hp (by simp)
  have hinc : l.Pairwise (· < ·) := (List.pairwise_lt_range).sublist hsub
  refine ⟨fun s => l.getD s 0, ?_, ?_, ?_⟩
  · intro s t hst ht
    exact pairwise_getD hinc s t hst (by omega)
  · intro s hs
    have : l.getD s 0 ∈ l := by
      rw [← List.getElem_eq_getD (h := by omega) 0]; exact List.getElem_mem _
    simpa using hsub.subset this
  · rcases hmono with h | h
    · exact Or.inl (fun s t hst ht => pairwise_getD h s t hst (by omega))
    · exact Or.inr (fun s t hst ht => pairwise_getD h s t hst (by omega))

/-- D pairwise distinct keys can be enumerated in increasing order -/
theorem sort_fn (D : Nat) (key : Nat → Rat) (hinj : ∀ i j, i < j → j < D → key i ≠ key j) :
    ∃ σ : Nat → Nat, (∀ i, i < D → σ i < D) ∧ (∀ i j, i < j → j < D → key (σ i) < key (σ j)) := by
  let le : Nat → Nat → Bool := fun a b => decide (key a ≤ key b)
  let l := (List.range D).mergeSort le
  have hperm : l.Perm (List.range D) := List.mergeSort_perm _ _
  have hlen : l.length = D := by simpa using hperm.length_eq
  have hnd : l.Nodup := hperm.nodup_iff.2 List.nodup_range
  have hsorted : l.Pairwise (fun a b => le a b) :=
    List.pairwise_mergeSort (le := le) (by intro a b c; simp only [le, decide_eq_true_eq]; exact Rat.le_trans)
      (by intro a b; simp only [le, Bool.or_eq_true, decide_eq_true_eq]; exact Rat.le_total) _
  have hmem : ∀ i, i < D → l.getD i 0 < D := by
    intro i hi
    have : l.getD i 0 ∈ l := by
      rw [← List.getElem_eq_getD (h := by omega) 0]; exact List.getElem_mem _
    simpa using hperm.subset this
  refine ⟨fun i => l.getD i 0, hmem, ?_⟩
  intro i j hij hj
  have h1 : key (l.getD i 0) ≤ key (l.getD j 0) := by
    have := pairwise_getD hsorted i j hij (by omega)
    simpa [le] using this
  have h2 : l.getD i 0 ≠ l.getD j 0 := pairwise_getD (R := (· ≠ ·)) hnd i j hij (by omega)
  have hi' := hmem i (by omega)
  have hj' := hmem j hj
  have h3 : key (l.getD i 0) ≠ key (l.getD j 0) := by
    rcases Nat.lt_or_gt_of_ne h2 with h | h
    · exact hinj _ _ h hj'
    · exact (hinj _ _ h hi').symm
  grind

end C16P
