import PermutaModel.Lemmas.C14SoundGood
import PermutaModel.Lemmas.C14SoundPts
/-! C14: soundness of `pinword_contains` (one direction of Bassino–Bouvel–Pierrot–Rossin Thm 3.13). -/
namespace C14S
open Model.C14 Model.C14.Letter Spec.C14 Proto C14L C14C15

theorem factor_flatten (u : Word) : (factor u).flatten = u := by
  fun_induction factor u with
  | case1 => rfl
  | case2 c rest ih =>
    rw [List.flatten_cons, ih, List.cons_append, List.takeWhile_append_dropWhile]

theorem factor_shape (u : Word) (ha : Alpha u) (hh : ∀ c, u.head? = some c → c.isQuad = true) :
    Shape (factor u) := by
  intro f hf
  obtain ⟨q, ds, rfl, hq⟩ := factor_heads u ha hh f hf
  refine ⟨q, ds, rfl, hq, ?_⟩
  clear hq ha hh
  fun_induction factor u with
  | case1 => simp at hf
  | case2 c rest ih =>
    rcases List.mem_cons.mp hf with h | h
    · simp only [List.cons.injEq] at h
      intro d hd
      rw [h.2] at hd
      exact List.all_eq_true.mp List.all_takeWhile d hd
    · exact ih h

theorem oe_dropLast {S Q : List Pt} {a b : Pt} (h : OE (S ++ [a]) (Q ++ [b])) : OE S Q := by
  have hl : S.length = Q.length := by have := h.1; simpa using this
  refine ⟨hl, fun x hx y hy => h.2 x ?_ y ?_⟩ <;>
  · rw [List.zip_append hl]; exact List.mem_append_left _ ‹_›

theorem inLang_head {u : Word} (hu : inLang u = true) : ∀ c, u.head? = some c → c.isQuad = true := by
  intro c hc
  cases u with
  | nil => simp at hc
  | cons d rest =>
    simp only [List.head?_cons, Option.some.injEq] at hc
    subst hc
    simp only [inLang, Bool.and_eq_true] at hu
    exact hu.1

/-- the marked points: from an accepted search to a sub-configuration with the geometry of `u` -/
theorem marked_run (w u : Word) (hw : inLang w = true) (hu : inLang u = true)
    (h : contains w u = .ok true) (W : List Pt) (hW : GeoRun [origin] w W) :
    ∃ s1 newer, W = newer ++ [origin] ∧ s1.Sublist newer ∧ GeoRun [origin] u (s1 ++ [origin]) := by
  have hsh := factor_shape u (inLang_alpha u hu) (inLang_head hu)
  have hql : QuadLed (factor u) := fun f hf => by
    obtain ⟨q, ds, rfl, hq, _⟩ := hsh f hf; exact ⟨q, ds, rfl, hq⟩
  have hgood := (contains_iff_good w u hw hql).mp h
  have hsel := good_sel w hw (factor u) 0 true hsh hgood (Nat.zero_le _) (by
    intro _ c hc
    exact inLang_head hw c (by cases w <;> simp_all))
  rw [factor_flatten, List.drop_zero] at hsel
  have hch : chainOK (prevAt w 0) w = true := by
    cases w with
    | nil => rfl
    | cons c rest =>
      simp only [inLang, Bool.and_eq_true] at hw
      simp only [chainOK, hw.1, hw.2, Bool.true_or, Bool.and_self]
  have hH : HG (prevAt w 0) [origin] := ⟨fun _ a ha => by simp at ha, fun _ a ha => by simp at ha⟩
  have hI : SelInv true [origin] [origin] := ⟨origin, [], rfl, by simp⟩
  exact sel_geo hsel [origin] [origin] W hch hH hI hW


theorem oe_origin : OE [origin] [origin] := ⟨rfl, by simp⟩

/-- **soundness of `pinword_contains`** on pin words -/
theorem contains_sound (w u : Word) (hw : inLang w = true) (hu : inLang u = true)
    (h : contains w u = .ok true) :
    ∃ σ π, pinwordToPerm w = .ok σ ∧ pinwordToPerm u = .ok π ∧ Contains σ π := by
  obtain ⟨W, hW1, hWI, hWR, _⟩ := build_lang w hw
  obtain ⟨U, hU1, hUI, hUR, _⟩ := build_lang u hu
  obtain ⟨s1, newer, rfl, hs, hrun⟩ := marked_run w u hw hu h W hWR
  obtain ⟨Unew, rfl, _⟩ := geoRun_suffix u _ _ hUR
  have hO := geoRun_unique u [origin] [origin] _ _ hrun hUR oe_origin
    (Or.inr ⟨inLang_head hu, by simp⟩)
  have hO' := oe_dropLast hO
  refine ⟨permOfPts newer, permOfPts Unew, by simp [pinwordToPerm, hW1], by simp [pinwordToPerm, hU1], ?_⟩
  have hnx : (xs newer).Nodup :=
    ((List.sublist_append_left newer [origin]).map Prod.fst).nodup hWI.xnd
  have hux : (xs Unew).Nodup :=
    ((List.sublist_append_left Unew [origin]).map Prod.fst).nodup hUI.xnd
  exact contains_of_oe (fun s hs' => hs.subset hs') hnx ((hs.map Prod.fst).nodup hnx) hux hO'

end C14S
