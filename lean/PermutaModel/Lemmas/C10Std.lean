import PermutaModel.Lemmas.C10Basic
import Mathlib.Data.List.Perm.Subperm

/-! `standardize` on duplicate-free lists is "rank = number of smaller entries";
    a shifted permutation standardises to the permutation. -/
open Model

namespace C10L

/-- pigeonhole: a duplicate-free list of naturals below `M` has at most `M` entries -/
theorem length_le_of_nodup_bounded {w : NSeq} (hn : w.Nodup) {M : Nat} (hb : ∀ x ∈ w, x < M) :
    w.length ≤ M := by
  have := (List.subperm_of_subset hn (l₂ := List.range M) (fun x hx => List.mem_range.mpr (hb x hx))).length_le
  simpa using this

theorem standardize_nodup {l : NSeq} (hn : l.Nodup) :
    standardize l = l.map fun v => (l.filter (· < v)).length := by
  unfold standardize
  conv_rhs => rw [← List.zipIdx_map_fst 0 l, List.map_map]
  apply List.map_congr_left
  rintro ⟨v, i⟩ hvi
  simp only [Function.comp, List.zipIdx_map_fst]
  have hfc : l.zipIdx.filter (fun wj => decide (wj.1 < v) || (wj.1 == v && decide (wj.2 < i))) =
      l.zipIdx.filter ((fun w => decide (w < v)) ∘ Prod.fst) := by
    apply List.filter_congr
    rintro ⟨w, j⟩ hwj
    simp only [Function.comp]
    by_cases hwv : w = v
    · subst hwv
      rw [List.mem_zipIdx_iff_getElem?] at hvi hwj
      simp only at hvi hwj
      obtain ⟨hi, hiv⟩ := List.getElem?_eq_some_iff.mp hvi
      obtain ⟨hj, hjv⟩ := List.getElem?_eq_some_iff.mp hwj
      have : i = j := (hn.getElem_inj_iff).mp (hiv.trans hjv.symm)
      subst this
      simp
    · simp [hwv]
  rw [hfc]
  have := congrArg List.length (List.filter_map (f := Prod.fst) (p := fun w => decide (w < v)) (l := l.zipIdx))
  rw [List.zipIdx_map_fst, List.length_map] at this
  exact this.symm

theorem filter_lt_range (n x : Nat) (hx : x ≤ n) : ((List.range n).filter (· < x)).length = x := by
  induction n with
  | zero => have : x = 0 := by omega
            subst this; simp
  | succ n ih =>
    rw [List.range_succ, List.filter_append, List.length_append]
    by_cases h : x ≤ n
    · rw [ih h]; simp; omega
    · have hx' : x = n + 1 := by omega
      subst hx'
      have : (List.range n).filter (· < n + 1) = List.range n := by
        apply List.filter_eq_self.mpr
        intro a ha
        have := List.mem_range.mp ha
        simp; omega
      rw [this]; simp

/-- in a permutation exactly `x` entries are smaller than `x` -/
theorem count_lt {q : NSeq} (hq : IsPerm q) {x : Nat} (hx : x ≤ q.length) :
    (q.filter (· < x)).length = x := by
  rw [((perm_range hq).filter _).length_eq]
  exact filter_lt_range _ _ hx

/-- a permutation shifted up by a constant standardises to itself -/
theorem standardize_shift {q : NSeq} (hq : IsPerm q) (c : Nat) : standardize (q.map (· + c)) = q := by
  have hn : (q.map (· + c)).Nodup := List.Nodup.map_on (fun x _ y _ h => by omega) hq.1
  rw [standardize_nodup hn, List.map_map]
  conv_rhs => rw [← List.map_id q]
  apply List.map_congr_left
  intro x hx
  simp only [Function.comp, id]
  rw [List.filter_map, List.length_map]
  have : (q.filter ((fun w => decide (w < x + c)) ∘ (· + c))) = q.filter (· < x) := by
    apply List.filter_congr
    intro w _
    simp
  rw [this]
  exact count_lt hq (Nat.le_of_lt (hq.2 x hx))

/-- a duplicate-free block whose values fill `[lo, lo + length)` standardises to its downshift -/
theorem standardize_block {b : NSeq} (hn : b.Nodup) {lo : Nat}
    (hlo : ∀ y ∈ b, lo ≤ y) (hhi : ∀ y ∈ b, y < lo + b.length) :
    IsPerm (b.map (· - lo)) ∧ standardize b = b.map (· - lo) ∧ (b.map (· - lo)).map (· + lo) = b := by
  have hq : IsPerm (b.map (· - lo)) := by
    refine ⟨List.Nodup.map_on (fun x hx y hy h => ?_) hn, ?_⟩
    · have := hlo x hx; have := hlo y hy; omega
    · intro x hx
      obtain ⟨y, hy, rfl⟩ := List.mem_map.mp hx
      have := hlo y hy; have := hhi y hy
      simp only [List.length_map]; omega
  have hb : (b.map (· - lo)).map (· + lo) = b := by
    rw [List.map_map]
    conv_rhs => rw [← List.map_id b]
    apply List.map_congr_left
    intro y hy
    have := hlo y hy
    simp only [Function.comp, id]; omega
  refine ⟨hq, ?_, hb⟩
  conv_lhs => rw [← hb]
  exact standardize_shift hq lo

end C10L
