import PermutaModel.Lemmas.C14Chain
import PermutaModel.Spec.Basic
/-! C14 helper lemmas: `permOfPts` (sort by abscissa, rank the ordinates) yields the permutation
    of the point set. -/
namespace C14L
open Model.C14 Model.C14.Letter Spec.C14 Proto

theorem countP_lt_of_imp {l : List Rat} {p q : Rat → Bool} (himp : ∀ z ∈ l, p z = true → q z = true)
    {a : Rat} (ha : a ∈ l) (hpa : p a = false) (hqa : q a = true) : l.countP p < l.countP q := by
  induction l with
  | nil => simp at ha
  | cons b r ih =>
    simp only [List.countP_cons]
    have hmono : r.countP p ≤ r.countP q :=
      List.countP_mono_left fun x hx => himp x (List.mem_cons_of_mem _ hx)
    rcases List.mem_cons.mp ha with rfl | har
    · simp only [hpa, hqa]; simp; omega
    · have := ih (fun z hz => himp z (List.mem_cons_of_mem _ hz)) har
      have hb := himp b (List.mem_cons_self)
      by_cases hpb : p b = true
      · rw [if_pos hpb, if_pos (hb hpb)]; omega
      · rw [if_neg hpb]; split <;> omega

/-- number of entries of `Y` strictly below `y` -/
def rank (Y : List Rat) (y : Rat) : Nat := Y.countP fun z => decide (z < y)

theorem rank_lt_length {Y : List Rat} {y : Rat} (hy : y ∈ Y) : rank Y y < Y.length := by
  have := countP_lt_of_imp (l := Y) (p := fun z => decide (z < y)) (q := fun _ => true)
    (fun _ _ _ => rfl) hy (by simp) rfl
  simpa [rank] using this

theorem rank_lt_of_lt {Y : List Rat} {y1 y2 : Rat} (h1 : y1 ∈ Y) (h : y1 < y2) :
    rank Y y1 < rank Y y2 := by
  apply countP_lt_of_imp (a := y1) _ h1
  · simp
  · simpa using h
  · intro z _ hz; simp only [decide_eq_true_eq] at hz ⊢; grind

theorem rank_lt_iff {Y : List Rat} {y1 y2 : Rat} (h1 : y1 ∈ Y) (h2 : y2 ∈ Y) :
    rank Y y1 < rank Y y2 ↔ y1 < y2 := by
  constructor
  · intro h
    by_cases hlt : y1 < y2
    · exact hlt
    · by_cases heq : y1 = y2
      · subst heq; omega
      · have : y2 < y1 := by grind
        have := rank_lt_of_lt h2 this
        omega
  · exact rank_lt_of_lt h1

theorem bisectLeft_eq_rank {S Y : List Rat} (h : S.Perm Y) (y : Rat) : bisectLeft S y = rank Y y := by
  simp only [bisectLeft, rank]; exact h.countP_eq _

theorem ptLe_trans (a b c : Pt) : ptLe a b = true → ptLe b c = true → ptLe a c = true := by
  simp only [ptLe, Bool.or_eq_true, Bool.and_eq_true, decide_eq_true_eq]; grind

theorem ptLe_total (a b : Pt) : (ptLe a b || ptLe b a) = true := by
  simp only [ptLe, Bool.or_eq_true, Bool.and_eq_true, decide_eq_true_eq]; grind

/-- the pins sorted as Python's `list.sort()` sorts the tuples -/
def sortedPins (pins : List Pt) : List Pt := pins.mergeSort ptLe

theorem sortedPins_perm (pins : List Pt) : (sortedPins pins).Perm pins := List.mergeSort_perm _ _

theorem permOfPts_eq (pins : List Pt) :
    permOfPts pins = (ys (sortedPins pins)).map (rank (ys (sortedPins pins))) := by
  simp only [permOfPts, sortedPins, ys, List.map_map]
  apply List.map_congr_left
  intro p _
  exact bisectLeft_eq_rank (List.mergeSort_perm _ _) _

theorem sortedPins_ys_nodup {pins : List Pt} (h : (ys pins).Nodup) : (ys (sortedPins pins)).Nodup :=
  ((sortedPins_perm pins).map Prod.snd).nodup_iff.mpr h

theorem permOfPts_length (pins : List Pt) : (permOfPts pins).length = pins.length := by
  simp [permOfPts]

theorem permOfPts_isPerm {pins : List Pt} (h : (ys pins).Nodup) : IsPerm (permOfPts pins) := by
  have hnd := sortedPins_ys_nodup h
  rw [permOfPts_eq]
  constructor
  · apply List.Nodup.map_on _ hnd
    intro a ha b hb hab
    by_cases h1 : a < b
    · have := rank_lt_of_lt ha h1; omega
    · by_cases h2 : b < a
      · have := rank_lt_of_lt hb h2; omega
      · grind
  · intro x hx
    obtain ⟨y, hy, rfl⟩ := List.mem_map.mp hx
    simpa using rank_lt_length hy

/-- sorted by abscissa, strictly, when the abscissae are distinct -/
theorem sortedPins_xs_sorted {pins : List Pt} (h : (xs pins).Nodup) :
    (xs (sortedPins pins)).Pairwise (· < ·) := by
  have hs : (sortedPins pins).Pairwise (fun a b => ptLe a b = true) :=
    List.pairwise_mergeSort ptLe_trans ptLe_total pins
  have hnd : (xs (sortedPins pins)).Nodup := ((sortedPins_perm pins).map Prod.fst).nodup_iff.mpr h
  rw [List.pairwise_map]
  rw [List.Nodup, List.pairwise_map] at hnd
  refine (hs.and hnd).imp ?_
  intro a b ⟨h1, h2⟩
  simp only [ptLe, Bool.or_eq_true, Bool.and_eq_true, decide_eq_true_eq] at h1
  grind

/-- the decoded permutation is order-isomorphic to the ordinates read from left to right -/
theorem permOfPts_orderIso {pins : List Pt} (i j : Nat)
    (hi : i < pins.length) (hj : j < pins.length) :
    (permOfPts pins).getD i 0 < (permOfPts pins).getD j 0 ↔
      ((sortedPins pins).getD i origin).2 < ((sortedPins pins).getD j origin).2 := by
  have hl : (sortedPins pins).length = pins.length := (sortedPins_perm pins).length_eq
  rw [permOfPts_eq]
  have hi' : i < (sortedPins pins).length := by omega
  have hj' : j < (sortedPins pins).length := by omega
  simp only [List.getD_eq_getElem?_getD, List.getElem?_map, List.getElem?_eq_getElem hi',
    List.getElem?_eq_getElem hj', Option.map_some, Option.getD_some]
  apply rank_lt_iff
  · exact List.mem_map.mpr ⟨_, List.getElem_mem hi', rfl⟩
  · exact List.mem_map.mpr ⟨_, List.getElem_mem hj', rfl⟩

end C14L
