import PermutaModel.Lemmas.C18Rot4

/-! Complement (`flip_horizontal`): occurrences are preserved, rows are mirrored. -/

namespace Spec.C18
open Model Model.C18

/-- the complemented mesh pattern (meshpatt.py:115-118) -/
def compMesh (μ : Mesh) : Mesh :=
  ⟨complement μ.pattern, μ.shading.map fun c => (c.1, μ.pattern.length - c.2)⟩

theorem complement_length (p : NSeq) : (complement p).length = p.length := by simp [complement]

theorem complement_getD (p : NSeq) {k : Nat} (hk : k < p.length) :
    (complement p).getD k 0 = p.length - 1 - p.getD k 0 := by
  unfold complement
  rw [List.getD_eq_getElem?_getD, List.getElem?_map, List.getElem?_eq_getElem hk, getD_eq_getElem' p hk]; rfl

theorem complement_isPerm {p : NSeq} (hp : IsPerm p) : IsPerm (complement p) := by
  constructor
  · unfold complement
    apply List.Nodup.map_on _ hp.1
    intro a ha b hb hab
    have := hp.2 a ha; have := hp.2 b hb; omega
  · intro x hx
    rw [complement_length]
    unfold complement at hx
    rw [List.mem_map] at hx
    obtain ⟨v, hv, rfl⟩ := hx
    have := hp.2 v hv; omega

theorem complement_complement {p : NSeq} (hp : IsPerm p) : complement (complement p) = p := by
  unfold complement
  rw [List.map_map, List.length_map]
  conv_rhs => rw [← List.map_id p]
  apply List.map_congr_left
  intro v hv
  have := hp.2 v hv
  simp only [Function.comp, id]; omega

theorem comp_isOcc {π σ : NSeq} {c : List Nat} (hπ : IsPerm π) (hσ : IsPerm σ) (hc : IsOcc π σ c) :
    IsOcc (complement π) (complement σ) c := by
  refine ⟨by rw [complement_length]; exact hc.len, hc.inc, ?_, ?_⟩
  · intro i hi; rw [complement_length]; exact hc.rng i hi
  · intro a b ha hb
    rw [complement_length] at ha hb
    have hca : c.getD a 0 < σ.length := hc.rng _ (mem_getD (by have := hc.len; omega))
    have hcb : c.getD b 0 < σ.length := hc.rng _ (mem_getD (by have := hc.len; omega))
    rw [complement_getD π ha, complement_getD π hb, complement_getD σ hca, complement_getD σ hcb]
    have h1 := hc.iso b a hb ha
    have := hπ.getD_lt ha; have := hπ.getD_lt hb
    have := hσ.getD_lt hca; have := hσ.getD_lt hcb
    omega

/-- the cell of a point w.r.t. the same tuple in the complemented permutation: `(a, b) ↦ (a, n-b)` -/
theorem comp_cell {π σ : NSeq} {c : List Nat} (hσ : IsPerm σ) (hc : IsOcc π σ c)
    {i : Nat} (hi : i < σ.length) (hic : i ∉ c) :
    cellOf (complement σ) c i = (colOf c i, π.length - rowOf σ c i) := by
  rw [cellOf_eq]
  congr 1
  show c.countP _ = _
  have h1 : c.countP (fun k => decide ((complement σ).getD k 0 < (complement σ).getD i 0)) =
      c.countP (fun k => decide (σ.getD i 0 < σ.getD k 0)) := by
    apply List.countP_congr
    intro k hk
    have hk' := hc.rng k hk
    simp only [decide_eq_true_eq]
    rw [complement_getD σ hk', complement_getD σ hi]
    have := hσ.getD_lt hk'; have := hσ.getD_lt hi
    omega
  rw [h1]
  have h2 := List.length_eq_countP_add_countP (fun k => decide (σ.getD k 0 < σ.getD i 0)) (l := c)
  have h3 : c.countP (fun a => decide ¬ (fun k => decide (σ.getD k 0 < σ.getD i 0)) a = true) =
      c.countP (fun k => decide (σ.getD i 0 < σ.getD k 0)) := by
    apply List.countP_congr
    intro k hk
    have hk' := hc.rng k hk
    have : σ.getD k 0 ≠ σ.getD i 0 := fun h => hic (nodup_getD_inj hσ.1 hk' hi h ▸ hk)
    simp only [decide_eq_true_eq]; omega
  rw [h3] at h2
  have := hc.len
  show _ = π.length - c.countP _
  omega

theorem compMesh_valid {μ : Mesh} (hμ : ValidMesh μ) : ValidMesh (compMesh μ) := by
  refine ⟨complement_isPerm hμ.1, ?_⟩
  intro c hc
  unfold compMesh at hc ⊢
  simp only [List.mem_map] at hc
  obtain ⟨d, hd, rfl⟩ := hc
  have := hμ.2 d hd
  simp only [complement_length]
  omega

theorem compMesh_compMesh {μ : Mesh} (hμ : ValidMesh μ) : MeshEq (compMesh (compMesh μ)) μ := by
  refine ⟨complement_complement hμ.1, fun c => ?_⟩
  simp only [compMesh, complement_length, List.map_map, List.mem_map, Function.comp]
  constructor
  · rintro ⟨d, hd, rfl⟩
    have := hμ.2 d hd
    have e2 : μ.pattern.length - (μ.pattern.length - d.2) = d.2 := by omega
    rw [e2]; exact hd
  · intro hc
    have := hμ.2 c hc
    refine ⟨c, hc, ?_⟩
    have e2 : μ.pattern.length - (μ.pattern.length - c.2) = c.2 := by omega
    rw [e2]

/-- an occurrence of `μ` in `σ` is an occurrence of the complemented pattern in the complemented
    permutation (same index tuple) -/
theorem comp_step {μ : Mesh} (hμ : ValidMesh μ) {σ : NSeq} (hσ : IsPerm σ) {c : List Nat}
    (hc : MeshOcc μ σ c) : MeshOcc (compMesh μ) (complement σ) c := by
  refine ⟨comp_isOcc hμ.1 hσ hc.occ, ?_⟩
  intro i hi hic hmem
  rw [complement_length] at hi
  rw [comp_cell hσ hc.occ hi hic] at hmem
  unfold compMesh at hmem
  simp only [List.mem_map, Prod.mk.injEq] at hmem
  obtain ⟨⟨u, v⟩, huv, h1, h2⟩ := hmem
  simp only at h1 h2
  have hv := (hμ.2 _ huv).2
  have hrow : rowOf σ c i ≤ μ.pattern.length := hc.occ.len ▸ List.countP_le_length
  have : v = rowOf σ c i := by omega
  apply hc.free _ hi hic
  rw [cellOf_eq, ← this, ← h1]
  exact huv

/-- and back -/
theorem comp_step_inv {μ : Mesh} (hμ : ValidMesh μ) {σ : NSeq} (hσ : IsPerm σ) {c : List Nat}
    (hc : MeshOcc (compMesh μ) (complement σ) c) : MeshOcc μ σ c := by
  have h := comp_step (compMesh_valid hμ) (complement_isPerm hσ) hc
  rw [complement_complement hσ] at h
  have he := compMesh_compMesh hμ
  exact ⟨he.1 ▸ h.occ, fun i hi hic hm => h.free i hi hic ((he.2 _).mpr hm)⟩

end Spec.C18
